import CdnsVerif.Spec.Cbor
import CdnsVerif.Generated.Constants
import CdnsVerif.Model.Encoder
import CdnsVerif.Proofs.Encoder
import CdnsVerif.Props.C06
