/- Line-protocol driver for the executable models: one request per line on stdin, the model's
   (and the specification's) canonical answer on stdout.  Imports Model/Spec/Driver only. -/
import CdnsVerif.Driver.Enc
import CdnsVerif.Driver.Ts
import CdnsVerif.Driver.Dec
import CdnsVerif.Driver.Cdns
import CdnsVerif.Driver.Exm
import CdnsVerif.Driver.Tbl
import CdnsVerif.Driver.Fs
import CdnsVerif.Driver.Mrg
import CdnsVerif.Driver.Sch
import CdnsVerif.Driver.Blk
import CdnsVerif.Driver.Bld
import CdnsVerif.Driver.Rdq
import CdnsVerif.Driver.Stk
import CdnsVerif.Driver.Cw
open CdnsVerif.Driver

def dispatch (line : String) : String :=
  let line := line.trimAscii.toString
  match line.splitOn " " with
  | "enc" :: rest => Enc.handle false (" ".intercalate rest)
  | "encv" :: rest => Enc.handle true (" ".intercalate rest)
  | "ts" :: rest => TsD.handle rest
  | "dec" :: rest => Dec.handle rest
  | "cdns" :: rest => CdnsD.handle rest
  | "exm" :: rest => Exm.handle rest
  | "tbl" :: rest => Tbl.handle rest
  | "fs" :: rest => FsD.handle rest
  | "mrg" :: rest => Mrg.handle rest
  | "sch" :: rest => Sch.handle rest
  | "blk" :: rest => Blk.handle rest
  | "blkc" :: rest => Blk.handleCuts rest
  | "blkc1" :: rest => Blk.handleCut1 rest
  | "bld" :: rest => Bld.handle rest
  | "prj" :: rest => Bld.handlePrj rest
  | "prjd" :: rest => Bld.handlePrjd rest
  | "rdq" :: rest => Rdq.handle rest
  | "mrgb" :: rest => Rdq.handleMrgb rest
  | "stk" :: rest => Stk.handle rest
  | "cw" :: rest => Cw.handle rest
  | _ => "bad-request"

partial def loop (h : IO.FS.Stream) (out : IO.FS.Stream) : IO Unit := do
  let line ← h.getLine
  if line.isEmpty then return ()
  out.putStrLn (dispatch line)
  loop h out

def main : IO Unit := do
  let stdin ← IO.getStdin
  let stdout ← IO.getStdout
  loop stdin stdout
