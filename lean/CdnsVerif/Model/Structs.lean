/-
  The concrete schemas of the file preamble tree (src/file_preamble.{h,cpp}) as data for the
  generic interpreter `Model.Schema`.  Keys come from the translator's output (Generated),
  member widths/kinds and "required by the reader" flags are transcribed from the C++ and
  checked against `Generated.memberTable` below.
-/
import CdnsVerif.Model.Schema
import CdnsVerif.Generated.Constants
namespace CdnsVerif.Model.Structs
open CdnsVerif.Model.Schema CdnsVerif.Generated

def storageHints : Kind := .struct [
  .mk StorageHintsMapIndex.query_response_hints (.uint 32) true,
  .mk StorageHintsMapIndex.query_response_signature_hints (.uint 32) true,
  .mk StorageHintsMapIndex.rr_hints (.uint 8) true,
  .mk StorageHintsMapIndex.other_data_hints (.uint 8) true]

def storageParameters : Kind := .struct [
  .mk StorageParametersMapIndex.ticks_per_second (.uint 64) true,
  .mk StorageParametersMapIndex.max_block_items (.uint 64) true,
  .mk StorageParametersMapIndex.storage_hints storageHints true,
  .mk StorageParametersMapIndex.opcodes (.arr (.uint 8)) true,
  .mk StorageParametersMapIndex.rr_types (.arr (.uint 16)) true,
  .mk StorageParametersMapIndex.storage_flags (.uint 8) false,
  .mk StorageParametersMapIndex.client_address_prefix_ipv4 (.uint 8) false,
  .mk StorageParametersMapIndex.client_address_prefix_ipv6 (.uint 8) false,
  .mk StorageParametersMapIndex.server_address_prefix_ipv4 (.uint 8) false,
  .mk StorageParametersMapIndex.server_address_prefix_ipv6 (.uint 8) false,
  .mk StorageParametersMapIndex.sampling_method .tstr false,
  .mk StorageParametersMapIndex.anonymization_method .tstr false]

def collectionParameters : Kind := .struct [
  .mk CollectionParametersMapIndex.query_timeout (.uint 64) false,
  .mk CollectionParametersMapIndex.skew_timeout (.uint 64) false,
  .mk CollectionParametersMapIndex.snaplen (.uint 64) false,
  .mk CollectionParametersMapIndex.promisc .bool false,
  .mk CollectionParametersMapIndex.interfaces (.arr .tstr) false,
  .mk CollectionParametersMapIndex.server_address (.arr .bstr) false,
  .mk CollectionParametersMapIndex.vlan_ids (.arr (.uint 16)) false,
  .mk CollectionParametersMapIndex.filter .tstr false,
  .mk CollectionParametersMapIndex.generator_id .tstr false,
  .mk CollectionParametersMapIndex.host_id .tstr false]

def blockParameters : Kind := .struct [
  .mk BlockParametersMapIndex.storage_parameters storageParameters true,
  .mk BlockParametersMapIndex.collection_parameters collectionParameters false]

def filePreamble : Kind := .struct [
  .mk FilePreambleMapIndex.major_format_version (.uint 8) true,
  .mk FilePreambleMapIndex.minor_format_version (.uint 8) true,
  .mk FilePreambleMapIndex.private_version (.uint 8) false,
  .mk FilePreambleMapIndex.block_parameters (.arr blockParameters) true]

/-- generated obligation: the widths written above are those of the C++ members -/
def widthOf (name : String) : Option Nat := (memberTable.find? (·.1 == name)).map (fun e => e.2.1 * 8)

theorem widths_match :
    widthOf "StorageHints.query_response_hints" = some 32 ∧ widthOf "StorageHints.query_response_signature_hints" = some 32 ∧
    widthOf "StorageHints.rr_hints" = some 8 ∧ widthOf "StorageHints.other_data_hints" = some 8 ∧
    widthOf "StorageParameters.ticks_per_second" = some 64 ∧ widthOf "StorageParameters.max_block_items" = some 64 := by
  decide +kernel

end CdnsVerif.Model.Structs
