/-
  The concrete schemas of the file preamble tree (src/file_preamble.{h,cpp}) as data for the
  generic interpreter `Model.Schema`.  Keys come from the translator's output (Generated),
  member widths/kinds and "required by the reader" flags are transcribed from the C++ and
  checked against `Generated.memberTable` below.
-/
import CdnsVerif.Model.Schema
import CdnsVerif.Generated.Constants
import CdnsVerif.Generated.Schemas
namespace CdnsVerif.Model.Structs
open CdnsVerif.Model.Schema CdnsVerif.Generated

def storageHints : Kind := .struct [
  .mk StorageHintsMapIndex.query_response_hints (.uint 32) true,
  .mk StorageHintsMapIndex.query_response_signature_hints (.uint 32) true,
  .mk StorageHintsMapIndex.rr_hints (.uint 8) true,
  .mk StorageHintsMapIndex.other_data_hints (.uint 8) true]

def storageParameters : Kind := .struct [
  .mk StorageParametersMapIndex.ticks_per_second (.uint 64) true,
  .mk StorageParametersMapIndex.max_block_items (.uint 64) true,
  .mk StorageParametersMapIndex.storage_hints storageHints true,
  .mk StorageParametersMapIndex.opcodes (.arr (.uint 8)) true,
  .mk StorageParametersMapIndex.rr_types (.arr (.uint 16)) true,
  .mk StorageParametersMapIndex.storage_flags (.uint 8) false,
  .mk StorageParametersMapIndex.client_address_prefix_ipv4 (.uint 8) false,
  .mk StorageParametersMapIndex.client_address_prefix_ipv6 (.uint 8) false,
  .mk StorageParametersMapIndex.server_address_prefix_ipv4 (.uint 8) false,
  .mk StorageParametersMapIndex.server_address_prefix_ipv6 (.uint 8) false,
  .mk StorageParametersMapIndex.sampling_method .tstr false,
  .mk StorageParametersMapIndex.anonymization_method .tstr false]

def collectionParameters : Kind := .struct [
  .mk CollectionParametersMapIndex.query_timeout (.uint 64) false,
  .mk CollectionParametersMapIndex.skew_timeout (.uint 64) false,
  .mk CollectionParametersMapIndex.snaplen (.uint 64) false,
  .mk CollectionParametersMapIndex.promisc .bool false,
  .mk CollectionParametersMapIndex.interfaces (.arr .tstr) false,
  .mk CollectionParametersMapIndex.server_address (.arr .bstr) false,
  .mk CollectionParametersMapIndex.vlan_ids (.arr (.uint 16)) false,
  .mk CollectionParametersMapIndex.filter .tstr false,
  .mk CollectionParametersMapIndex.generator_id .tstr false,
  .mk CollectionParametersMapIndex.host_id .tstr false]

def blockParameters : Kind := .struct [
  .mk BlockParametersMapIndex.storage_parameters storageParameters true,
  .mk BlockParametersMapIndex.collection_parameters collectionParameters false]

def filePreamble : Kind := .struct [
  .mk FilePreambleMapIndex.major_format_version (.uint 8) true,
  .mk FilePreambleMapIndex.minor_format_version (.uint 8) true,
  .mk FilePreambleMapIndex.private_version (.uint 8) false,
  .mk FilePreambleMapIndex.block_parameters (.arr blockParameters) true]

/-! ### the block tree (src/block.{h,cpp}) -/

def timestamp : Kind := .arr (.uint 64)      -- [secs, ticks]; the 2-element check of `Timestamp::read` is outside the schema

def blockPreamble : Kind := .struct [
  .mk BlockPreambleMapIndex.earliest_time timestamp false,
  .mk BlockPreambleMapIndex.block_parameters_index (.uint 32) false]

def blockStatistics : Kind := .struct [
  .mk BlockStatisticsMapIndex.processed_messages (.uint 32) false,
  .mk BlockStatisticsMapIndex.qr_data_items (.uint 32) false,
  .mk BlockStatisticsMapIndex.unmatched_queries (.uint 32) false,
  .mk BlockStatisticsMapIndex.unmatched_responses (.uint 32) false,
  .mk BlockStatisticsMapIndex.discarded_opcode (.uint 32) false,
  .mk BlockStatisticsMapIndex.malformed_items (.uint 32) false]

def classType : Kind := .struct [
  .mk ClassTypeMapIndex.type (.uint 16) true,
  .mk ClassTypeMapIndex.class_ (.uint 16) true]

def queryResponseSignature : Kind := .struct [
  .mk QueryResponseSignatureMapIndex.server_address_index (.uint 32) false,
  .mk QueryResponseSignatureMapIndex.server_port (.uint 16) false,
  .mk QueryResponseSignatureMapIndex.qr_transport_flags (.uint 8) false,
  .mk QueryResponseSignatureMapIndex.qr_type (.uint 8) false,
  .mk QueryResponseSignatureMapIndex.qr_sig_flags (.uint 8) false,
  .mk QueryResponseSignatureMapIndex.query_opcode (.uint 8) false,
  .mk QueryResponseSignatureMapIndex.qr_dns_flags (.uint 16) false,
  .mk QueryResponseSignatureMapIndex.query_rcode (.uint 16) false,
  .mk QueryResponseSignatureMapIndex.query_classtype_index (.uint 32) false,
  .mk QueryResponseSignatureMapIndex.query_qdcount (.uint 16) false,
  .mk QueryResponseSignatureMapIndex.query_ancount (.uint 32) false,
  .mk QueryResponseSignatureMapIndex.query_nscount (.uint 16) false,
  .mk QueryResponseSignatureMapIndex.query_arcount (.uint 16) false,
  .mk QueryResponseSignatureMapIndex.query_edns_version (.uint 8) false,
  .mk QueryResponseSignatureMapIndex.query_udp_size (.uint 16) false,
  .mk QueryResponseSignatureMapIndex.query_opt_rdata_index (.uint 32) false,
  .mk QueryResponseSignatureMapIndex.response_rcode (.uint 16) false]

def question : Kind := .struct [
  .mk QuestionMapIndex.name_index (.uint 32) true,
  .mk QuestionMapIndex.classtype_index (.uint 32) true]

def rr : Kind := .struct [
  .mk RrMapIndex.name_index (.uint 32) true,
  .mk RrMapIndex.classtype_index (.uint 32) true,
  .mk RrMapIndex.ttl (.uint 32) false,
  .mk RrMapIndex.rdata_index (.uint 32) false]

def malformedMessageData : Kind := .struct [
  .mk MalformedMessageDataMapIndex.server_address_index (.uint 32) false,
  .mk MalformedMessageDataMapIndex.server_port (.uint 16) false,
  .mk MalformedMessageDataMapIndex.mm_transport_flags (.uint 8) false,
  .mk MalformedMessageDataMapIndex.mm_payload .bstr false]

def blockTables : Kind := .struct [
  .mk BlockTablesMapIndex.ip_address (.arr .bstr) false,
  .mk BlockTablesMapIndex.classtype (.arr classType) false,
  .mk BlockTablesMapIndex.name_rdata (.arr .bstr) false,
  .mk BlockTablesMapIndex.qr_sig (.arr queryResponseSignature) false,
  .mk BlockTablesMapIndex.qlist (.arr (.arr (.uint 32))) false,
  .mk BlockTablesMapIndex.qrr (.arr question) false,
  .mk BlockTablesMapIndex.rrlist (.arr (.arr (.uint 32))) false,
  .mk BlockTablesMapIndex.rr (.arr rr) false,
  .mk BlockTablesMapIndex.malformed_message_data (.arr malformedMessageData) false]

def responseProcessingData : Kind := .struct [
  .mk ResponseProcessingDataMapIndex.bailiwick_index (.uint 32) false,
  .mk ResponseProcessingDataMapIndex.processing_flags (.uint 8) false]

def queryResponseExtended : Kind := .struct [
  .mk QueryResponseExtendedMapIndex.question_index (.uint 32) false,
  .mk QueryResponseExtendedMapIndex.answer_index (.uint 32) false,
  .mk QueryResponseExtendedMapIndex.authority_index (.uint 32) false,
  .mk QueryResponseExtendedMapIndex.additional_index (.uint 32) false]

/-- members in the order `QueryResponse::write` emits them (the private negative keys last) -/
def queryResponse : Kind := .struct [
  .mk QueryResponseMapIndex.time_offset (.uint 64) false,
  .mk QueryResponseMapIndex.client_address_index (.uint 32) false,
  .mk QueryResponseMapIndex.client_port (.uint 16) false,
  .mk QueryResponseMapIndex.transaction_id (.uint 16) false,
  .mk QueryResponseMapIndex.qr_signature_index (.uint 32) false,
  .mk QueryResponseMapIndex.client_hoplimit (.uint 8) false,
  .mk QueryResponseMapIndex.response_delay .int64 false,
  .mk QueryResponseMapIndex.query_name_index (.uint 32) false,
  .mk QueryResponseMapIndex.query_size (.uint 64) false,
  .mk QueryResponseMapIndex.response_size (.uint 64) false,
  .mk QueryResponseMapIndex.response_processing_data responseProcessingData false,
  .mk QueryResponseMapIndex.query_extended queryResponseExtended false,
  .mk QueryResponseMapIndex.response_extended queryResponseExtended false,
  .mk QueryResponseMapIndex.asn .tstr false,
  .mk QueryResponseMapIndex.country_code .tstr false,
  .mk QueryResponseMapIndex.round_trip_time .int64 false]

def addressEventCount : Kind := .struct [
  .mk AddressEventCountMapIndex.ae_type (.uint 8) true,
  .mk AddressEventCountMapIndex.ae_code (.uint 8) false,
  .mk AddressEventCountMapIndex.ae_address_index (.uint 32) true,
  .mk AddressEventCountMapIndex.ae_transport_flags (.uint 8) false,
  .mk AddressEventCountMapIndex.ae_count (.uint 64) true]

def malformedMessage : Kind := .struct [
  .mk MalformedMessageMapIndex.time_offset (.uint 64) false,
  .mk MalformedMessageMapIndex.client_address_index (.uint 32) false,
  .mk MalformedMessageMapIndex.client_port (.uint 16) false,
  .mk MalformedMessageMapIndex.message_data_index (.uint 32) false]

def block : Kind := .struct [
  .mk BlockMapIndex.block_preamble blockPreamble true,
  .mk BlockMapIndex.block_statistics blockStatistics false,
  .mk BlockMapIndex.block_tables blockTables false,
  .mk BlockMapIndex.query_responses (.arr queryResponse) false,
  .mk BlockMapIndex.address_event_counts (.arr addressEventCount) false,
  .mk BlockMapIndex.malformed_messages (.arr malformedMessage) false]

/-- generated obligation: the widths written above are those of the C++ members -/
def widthOf (name : String) : Option Nat := (memberTable.find? (·.1 == name)).map (fun e => e.2.1 * 8)

theorem widths_match :
    widthOf "StorageHints.query_response_hints" = some 32 ∧ widthOf "StorageHints.query_response_signature_hints" = some 32 ∧
    widthOf "StorageHints.rr_hints" = some 8 ∧ widthOf "StorageHints.other_data_hints" = some 8 ∧
    widthOf "StorageParameters.ticks_per_second" = some 64 ∧ widthOf "StorageParameters.max_block_items" = some 64 := by
  decide +kernel

/-- the integer members of the block tree and the width the schema gives them -/
def blockWidths : List (String × Nat) := [
  ("BlockPreamble.block_parameters_index", 32),
  ("BlockStatistics.processed_messages", 32), ("BlockStatistics.qr_data_items", 32), ("BlockStatistics.unmatched_queries", 32),
  ("BlockStatistics.unmatched_responses", 32), ("BlockStatistics.discarded_opcode", 32), ("BlockStatistics.malformed_items", 32),
  ("ClassType.type", 16), ("ClassType.class_", 16),
  ("QueryResponseSignature.server_address_index", 32), ("QueryResponseSignature.server_port", 16),
  ("QueryResponseSignature.qr_transport_flags", 8), ("QueryResponseSignature.qr_type", 8), ("QueryResponseSignature.qr_sig_flags", 8),
  ("QueryResponseSignature.query_opcode", 8), ("QueryResponseSignature.qr_dns_flags", 16), ("QueryResponseSignature.query_rcode", 16),
  ("QueryResponseSignature.query_classtype_index", 32), ("QueryResponseSignature.query_qdcount", 16),
  ("QueryResponseSignature.query_ancount", 32), ("QueryResponseSignature.query_nscount", 16), ("QueryResponseSignature.query_arcount", 16),
  ("QueryResponseSignature.query_edns_version", 8), ("QueryResponseSignature.query_udp_size", 16),
  ("QueryResponseSignature.query_opt_rdata_index", 32), ("QueryResponseSignature.response_rcode", 16),
  ("Question.name_index", 32), ("Question.classtype_index", 32),
  ("RR.name_index", 32), ("RR.classtype_index", 32), ("RR.ttl", 32), ("RR.rdata_index", 32),
  ("MalformedMessageData.server_address_index", 32), ("MalformedMessageData.server_port", 16), ("MalformedMessageData.mm_transport_flags", 8),
  ("ResponseProcessingData.bailiwick_index", 32), ("ResponseProcessingData.processing_flags", 8),
  ("QueryResponseExtended.question_index", 32), ("QueryResponseExtended.answer_index", 32),
  ("QueryResponseExtended.authority_index", 32), ("QueryResponseExtended.additional_index", 32),
  ("Timestamp.m_secs", 64), ("Timestamp.m_ticks", 64),
  ("QueryResponse.client_address_index", 32), ("QueryResponse.client_port", 16), ("QueryResponse.transaction_id", 16),
  ("QueryResponse.qr_signature_index", 32), ("QueryResponse.client_hoplimit", 8), ("QueryResponse.response_delay", 64),
  ("QueryResponse.query_name_index", 32), ("QueryResponse.query_size", 64), ("QueryResponse.response_size", 64),
  ("QueryResponse.round_trip_time", 64),
  ("AddressEventCount.ae_type", 8), ("AddressEventCount.ae_code", 8), ("AddressEventCount.ae_address_index", 32),
  ("AddressEventCount.ae_transport_flags", 8), ("AddressEventCount.ae_count", 64),
  ("MalformedMessage.client_address_index", 32), ("MalformedMessage.client_port", 16), ("MalformedMessage.message_data_index", 32),
  ("StorageParameters.storage_flags", 8), ("StorageParameters.client_address_prefix_ipv4", 8), ("StorageParameters.client_address_prefix_ipv6", 8),
  ("StorageParameters.server_address_prefix_ipv4", 8), ("StorageParameters.server_address_prefix_ipv6", 8),
  ("CollectionParameters.query_timeout", 64), ("CollectionParameters.skew_timeout", 64), ("CollectionParameters.snaplen", 64)]

/-- generated obligation: every width of `blockWidths` is the size of the C++ member (translator output) -/
theorem block_widths_match : blockWidths.all (fun e => widthOf e.1 == some e.2) = true := by decide +kernel

/-- only `response_delay` and `round_trip_time` are signed (`read_integer`), as in the C++ -/
theorem signed_members : (memberTable.filter (fun e => e.2.2)).map (·.1) =
    ["QueryResponse.response_delay", "QueryResponse.round_trip_time",
     "GenericQueryResponse.response_delay", "GenericQueryResponse.round_trip_time"] := by decide +kernel

/-- the schemas are well-formed: no struct lists a key twice (checked for every struct of both trees) -/
def keysNodup : Kind → Bool
  | .struct fs => (fs.map (·.key)).Nodup
  | _ => true
theorem schemas_keys_nodup : [storageHints, storageParameters, collectionParameters, blockParameters, filePreamble, blockPreamble,
    blockStatistics, classType, queryResponseSignature, question, rr, malformedMessageData, blockTables, responseProcessingData,
    queryResponseExtended, queryResponse, addressEventCount, malformedMessage, block].all keysNodup = true := by decide +kernel

/-! ### the schemas against what the translator extracted by running the library's own writers and readers (T3)

  `Generated.schemaTable` is regenerated on every run from the working tree: per struct, in the order the writer emits them,
  the key each member is written under, the kind and width of the item written, the width the reader keeps, and whether the
  reader insists on the member.  `Props.C09.preamble_schemas_match_source` / `Props.C01.block_schemas_match_source` state
  that the hand-written schemas above ARE that table. -/

def sigOf : Kind → KindSig
  | .uint b => .u b
  | .int64 => .i64
  | .tstr => .tstr
  | .bstr => .bstr
  | .bool => .bool
  | .arr k => .arr (sigOf k)
  | .struct _ => .struct

/-- what a schema says about a struct: (key, kind, required by the reader) in declaration (= writing) order -/
def rowsOf : Kind → List (Int × KindSig × Bool)
  | .struct fs => fs.map fun f => (f.key, sigOf f.kind, f.required)
  | _ => []

/-- what the source says.  A time offset is an `int64_t` difference written unsigned: the largest one the probe can make the
    library write is 2^63-1 (`.u 63`); the schema lists the member with the width of the unsigned write overload. -/
def sourceRows (name : String) : Option (List (Int × KindSig × Bool)) :=
  (schemaTable.find? (·.1 == name)).map fun e => e.2.map fun r => (r.1, (if r.2.1 = .u 63 then .u 64 else r.2.1), r.2.2.2)

/-- the reader keeps of a foreign 2^64-1 exactly the width the writer uses (the `(uintN_t) read_unsigned()` narrowing) -/
def readerWidthsAgree (name : String) : Bool :=
  match schemaTable.find? (·.1 == name) with
  | some e => e.2.all fun r => match r.2.2.1 with | some s => s == r.2.1 | none => true
  | none => false

/-- generated kind against the schema's: `.u 0` stands for an unsigned item whose width the probe could not force (the elements of
    the index lists of a block built through the record interface are small table indices) -/
def sigCompat : KindSig → KindSig → Bool
  | .u 0, .u _ => true
  | .arr a, .arr b => sigCompat a b
  | a, b => a == b

def rowsCompat (gen model : List (Int × KindSig × Bool)) : Bool :=
  gen.length == model.length && (gen.zip model).all fun p => p.1.1 == p.2.1 && sigCompat p.1.2.1 p.2.2.1 && p.1.2.2 == p.2.2.2

end CdnsVerif.Model.Structs
