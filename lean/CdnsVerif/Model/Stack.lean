/-
  The output stack of one exporter as ONE state machine (C16): `CdnsExporter` (buffered block, `m_blocks_written`;
  src/cdns.h, src/cdns.cpp) on top of `CdnsEncoder` (the 2 KiB staging buffer and `flush_buffer`; src/cdns_encoder.cpp) on top
  of the bottom writer (`Model.Writer.BW`: `Writer<int>::write`, `m_failed`; src/writer.h), with the operating system's answer
  to every `write` taken from a fault schedule.

  What is abstract: the bytes of the file header (`hdr`) and of a block (`enc records`) are parameters – their content is the
  subject of C01/C02; *where* the encoder flushes while it emits them is a parameter too (`Cuts`: after how many more bytes the
  next `flush_buffer` happens, and what the OS answers) – so the theorems hold for every flush threshold and buffer size.
  What is exact: the order of effects inside each API call – which is what decides whether a failure is reported, what is
  still buffered after the exception, and whether the next rotation recovers:

    flush_buffer     if (m_p != m_buffer) { m_cos->write(..);  m_p = m_buffer; }          -- a throw leaves the buffer as it was
    write_block()    if (items == 0) return; if (m_blocks_written == 0) header; block.write; m_blocks_written++; m_block.clear()
    rotate_output    if (export) write_block(); if (m_blocks_written > 0) write_break(); m_blocks_written = 0;
                     m_encoder.rotate_output: flush_buffer(); m_cos->rotate_output(out)
-/
import CdnsVerif.Model.Writer
namespace CdnsVerif.Model.Stack
open CdnsVerif.Spec.Cbor CdnsVerif.Model.Writer

/-- an output that was closed: what the OS accepted, what the library produced for it, did an API call throw while it was open -/
structure Closed where
  os : Bytes
  given : Bytes
  threw : Bool
  deriving Repr

structure St where
  cur : List Nat              -- records buffered in the exporter's block
  bw : Nat                    -- m_blocks_written
  buf : Bytes                 -- staging buffer of the encoder (m_buffer .. m_p)
  w : BW                      -- bottom writer of the current output
  given : Bytes               -- ghost: every byte the library produced for the current output
  threw : Bool                -- ghost: an API call threw while the current output was open
  closed : List Closed
  deriving Repr

def St.init : St := { cur := [], bw := 0, buf := [], w := { out := [], failed := false }, given := [], threw := false, closed := [] }

/-- one step of an emission: `n` more bytes go into the staging buffer, then (optionally) `flush_buffer` runs and the OS
    answers the resulting `write` with the response -/
abbrev Cuts := List (Nat × Option Resp)

/-- `flush_buffer`: nothing to do on an empty buffer; a throwing write leaves the buffer as it was -/
def flush (s : St) (r : Resp) : St × Bool :=
  if s.buf = [] then (s, false)
  else
    let (w', t) := s.w.write s.buf r
    if t then ({ s with w := w' }, true) else ({ s with w := w', buf := [] }, false)

def append (s : St) (p : Bytes) : St := { s with buf := s.buf ++ p, given := s.given ++ p }

/-- the encoder emits `bs`, flushing where the schedule says; stops at the first exception -/
def emit (s : St) (bs : Bytes) : Cuts → St × Bool
  | [] => (append s bs, false)
  | (n, none) :: rest => emit (append s (bs.take n)) (bs.drop n) rest
  | (n, some r) :: rest =>
    let (s1, t) := flush (append s (bs.take n)) r
    if t then (s1, true) else emit s1 (bs.drop n) rest

variable (hdr : Bytes) (enc : List Nat → Bytes)

/-- `CdnsExporter::write_block()` -/
def writeBlock (s : St) (hc bc : Cuts) : St × Bool :=
  if s.cur = [] then (s, false)
  else
    let (s1, t1) := if s.bw = 0 then emit s hdr hc else (s, false)
    if t1 then (s1, true)
    else
      let (s2, t2) := emit s1 (enc s.cur) bc
      if t2 then (s2, true) else ({ s2 with bw := s2.bw + 1, cur := [] }, false)

/-- `CdnsExporter::rotate_output(out, export_current_block)` to a destination that can be opened -/
def rotate (s : St) (exp : Bool) (hc bc kc : Cuts) (r : Resp) : St × Bool :=
  let (s1, t1) := if exp then writeBlock hdr enc s hc bc else (s, false)
  if t1 then (s1, true)
  else
    let (s2, t2) := if s1.bw > 0 then emit s1 [0xff] kc else (s1, false)
    if t2 then (s2, true)
    else
      let s3 := { s2 with bw := 0 }
      let (s4, t4) := flush s3 r
      if t4 then (s4, true)
      else ({ s4 with w := { out := [], failed := false }, given := [], threw := false,
                      closed := s4.closed ++ [⟨s4.w.out, s4.given, s4.threw⟩] }, false)

inductive Op where
  | buffer (r : Nat)                                   -- a buffer_* call that does not fill the block
  | bufferW (r : Nat) (hc bc : Cuts)                   -- a buffer_* call that fills the block and flushes it
  | writeBlock (hc bc : Cuts)
  | rotate (exp : Bool) (hc bc kc : Cuts) (r : Resp)

/-- one API call; the ghost `threw` of the current output records an exception -/
def step (s : St) : Op → St × Bool
  | .buffer r => ({ s with cur := s.cur ++ [r] }, false)
  | .bufferW r hc bc =>
    let (s1, t) := writeBlock hdr enc { s with cur := s.cur ++ [r] } hc bc
    ({ s1 with threw := s1.threw || t }, t)
  | .writeBlock hc bc =>
    let (s1, t) := writeBlock hdr enc s hc bc
    ({ s1 with threw := s1.threw || t }, t)
  | .rotate exp hc bc kc r =>
    let (s1, t) := rotate hdr enc s exp hc bc kc r
    ({ s1 with threw := s1.threw || t }, t)

def run (s : St) : List Op → St × List Bool
  | [] => (s, [])
  | op :: ops =>
    let (s1, t) := step hdr enc s op
    let (s2, ts) := run s1 ops
    (s2, t :: ts)

/-- every response of a schedule is "accepted" -/
def AllOk (c : Cuts) : Prop := ∀ e ∈ c, e.2 = none ∨ e.2 = some Resp.ok

end CdnsVerif.Model.Stack
