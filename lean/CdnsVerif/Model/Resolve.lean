/-
  What reading a stored block back yields at record level, and what the application is entitled to expect:

  * `resolveQ b q`  – the model of `CdnsBlockRead::read_generic_qr`: every index of the stored
    `QueryResponse` `q` is looked up in the tables of block `b` (src/block.cpp);
  * `project h g`   – the RFC 8618 reading of the storage hints: the generic record `g` with every
    member whose hint bit is cleared removed (sections dropped when empty, RR members by the RR hints).

  `Props.C01.records_resolve_to_projection` proves `resolveQ (build h recs) = project h` record by record.
-/
import CdnsVerif.Model.Builder
namespace CdnsVerif.Model.Builder
open CdnsVerif.Spec.Cbor CdnsVerif.Generated

/-! ### resolution of indexes (reader side) -/

def resolveQrr (b : Blk) (j : Nat) : Option GRR :=
  match b.qrr[j]? with
  | some p =>
    match b.nr[p.1]?, b.ct[p.2]? with
    | some n, some c => some { name := n, type := c.1, cls := c.2, ttl := none, rdata := none }
    | _, _ => none
  | none => none

def resolveRr (b : Blk) (j : Nat) : Option GRR :=
  match b.rr[j]? with
  | some r =>
    match b.nr[r.name]?, b.ct[r.ct]? with
    | some n, some c =>
      match r.rdata with
      | some k => (b.nr[k]?).map fun d => { name := n, type := c.1, cls := c.2, ttl := r.ttl, rdata := some d }
      | none => some { name := n, type := c.1, cls := c.2, ttl := r.ttl, rdata := none }
    | _, _ => none
  | none => none

def resolveQl (b : Blk) (i : Nat) : Option (List GRR) := (b.qlist[i]?).bind fun l => l.mapM (resolveQrr b)
def resolveRl (b : Blk) (i : Nat) : Option (List GRR) := (b.rrlist[i]?).bind fun l => l.mapM (resolveRr b)

/-- `read_generic_qr`: the stored query/response with every index replaced by the table entry it addresses -/
def resolveQ (b : Blk) (q : QRec) : GQR :=
  let s : Sig := (q.sig.bind fun i => b.sig[i]?).getD {}
  { ts := q.ts
    clientIp := q.cai.bind fun i => b.ip[i]?
    clientPort := q.cport
    transactionId := q.tid
    serverIp := s.sai.bind fun i => b.ip[i]?
    serverPort := s.port
    transportFlags := s.tf
    qrType := s.qt
    sigFlags := s.sf
    opcode := s.op
    dnsFlags := s.df
    queryRcode := s.qrc
    classtype := s.cti.bind fun i => b.ct[i]?
    qdcount := s.qd
    ancount := s.an
    nscount := s.ns
    arcount := s.ar
    ednsVersion := s.ev
    udpSize := s.us
    optRdata := s.ordi.bind fun i => b.nr[i]?
    responseRcode := s.rrc
    hoplimit := q.hl
    responseDelay := q.rd
    queryName := q.qn.bind fun i => b.nr[i]?
    querySize := q.qs
    responseSize := q.rs
    bailiwick := (q.rpd.bind (·.bw)).bind fun i => b.nr[i]?
    processingFlags := q.rpd.bind (·.flags)
    queryQuestions := (q.qx.bind (·.q)).bind (resolveQl b)
    queryAnswers := (q.qx.bind (·.an)).bind (resolveRl b)
    queryAuthority := (q.qx.bind (·.au)).bind (resolveRl b)
    queryAdditional := (q.qx.bind (·.ad)).bind (resolveRl b)
    responseQuestions := (q.rx.bind (·.q)).bind (resolveQl b)
    responseAnswers := (q.rx.bind (·.an)).bind (resolveRl b)
    responseAuthority := (q.rx.bind (·.au)).bind (resolveRl b)
    responseAdditional := (q.rx.bind (·.ad)).bind (resolveRl b)
    asn := q.asn
    countryCode := q.cc
    roundTripTime := q.rtt }

/-! ### the expectation (application side) -/

/-- a question as it can be stored: name and class/type only -/
def projQuestion (r : GRR) : GRR := { r with ttl := none, rdata := none }
/-- a resource record under the RR hints -/
def projRR (h : Hints) (r : GRR) : GRR :=
  { r with ttl := keep (on h.rrh RrHintsMask.ttl) r.ttl, rdata := keep (on h.rrh RrHintsMask.rdata_index) r.rdata }

/-- a section is stored when its hint is on, it is present and not empty -/
def projSection (c : Bool) (o : Option (List GRR)) (f : GRR → GRR) : Option (List GRR) :=
  match c, o with
  | true, some (x :: xs) => some ((x :: xs).map f)
  | _, _ => none

/-- the generic record with everything the hints exclude removed -/
def project (h : Hints) (g : GQR) : GQR :=
  let sigOn := on h.qrh QueryResponseHintsMask.qr_signature_index
  let rpdOn := on h.qrh QueryResponseHintsMask.response_processing_data
  { ts := keep (on h.qrh QueryResponseHintsMask.time_offset) g.ts
    clientIp := keep (on h.qrh QueryResponseHintsMask.client_address_index) g.clientIp
    clientPort := keep (on h.qrh QueryResponseHintsMask.client_port) g.clientPort
    transactionId := keep (on h.qrh QueryResponseHintsMask.transaction_id) g.transactionId
    serverIp := keep (sigOn && on h.sigh QueryResponseSignatureHintsMask.server_address_index) g.serverIp
    serverPort := keep (sigOn && on h.sigh QueryResponseSignatureHintsMask.server_port) g.serverPort
    transportFlags := keep (sigOn && on h.sigh QueryResponseSignatureHintsMask.qr_transport_flags) g.transportFlags
    qrType := keep (sigOn && on h.sigh QueryResponseSignatureHintsMask.qr_type) g.qrType
    sigFlags := keep (sigOn && on h.sigh QueryResponseSignatureHintsMask.qr_sig_flags) g.sigFlags
    opcode := keep (sigOn && on h.sigh QueryResponseSignatureHintsMask.query_opcode) g.opcode
    dnsFlags := keep (sigOn && on h.sigh QueryResponseSignatureHintsMask.qr_dns_flags) g.dnsFlags
    queryRcode := keep (sigOn && on h.sigh QueryResponseSignatureHintsMask.query_rcode) g.queryRcode
    classtype := keep (sigOn && on h.sigh QueryResponseSignatureHintsMask.query_classtype_index) g.classtype
    qdcount := keep (sigOn && on h.sigh QueryResponseSignatureHintsMask.query_qdcount) g.qdcount
    ancount := keep (sigOn && on h.sigh QueryResponseSignatureHintsMask.query_ancount) g.ancount
    nscount := keep (sigOn && on h.sigh QueryResponseSignatureHintsMask.query_nscount) g.nscount
    arcount := keep (sigOn && on h.sigh QueryResponseSignatureHintsMask.query_arcount) g.arcount
    ednsVersion := keep (sigOn && on h.sigh QueryResponseSignatureHintsMask.query_edns_version) g.ednsVersion
    udpSize := keep (sigOn && on h.sigh QueryResponseSignatureHintsMask.query_udp_size) g.udpSize
    optRdata := keep (sigOn && on h.sigh QueryResponseSignatureHintsMask.query_opt_rdata_index) g.optRdata
    responseRcode := keep (sigOn && on h.sigh QueryResponseSignatureHintsMask.response_rcode) g.responseRcode
    hoplimit := keep (on h.qrh QueryResponseHintsMask.client_hoplimit) g.hoplimit
    responseDelay := keep (on h.qrh QueryResponseHintsMask.response_delay) g.responseDelay
    queryName := keep (on h.qrh QueryResponseHintsMask.query_name_index) g.queryName
    querySize := keep (on h.qrh QueryResponseHintsMask.query_size) g.querySize
    responseSize := keep (on h.qrh QueryResponseHintsMask.response_size) g.responseSize
    bailiwick := keep rpdOn g.bailiwick
    processingFlags := keep rpdOn g.processingFlags
    queryQuestions := projSection (on h.qrh QueryResponseHintsMask.query_question_sections) g.queryQuestions projQuestion
    queryAnswers := projSection (on h.qrh QueryResponseHintsMask.query_answer_sections) g.queryAnswers (projRR h)
    queryAuthority := projSection (on h.qrh QueryResponseHintsMask.query_authority_sections) g.queryAuthority (projRR h)
    queryAdditional := projSection (on h.qrh QueryResponseHintsMask.query_additional_sections) g.queryAdditional (projRR h)
    responseQuestions := projSection (on h.qrh QueryResponseHintsMask.query_question_sections) g.responseQuestions projQuestion
    responseAnswers := projSection (on h.qrh QueryResponseHintsMask.response_answer_sections) g.responseAnswers (projRR h)
    responseAuthority := projSection (on h.qrh QueryResponseHintsMask.response_authority_sections) g.responseAuthority (projRR h)
    responseAdditional := projSection (on h.qrh QueryResponseHintsMask.response_additional_sections) g.responseAdditional (projRR h)
    asn := g.asn
    countryCode := g.countryCode
    roundTripTime := g.roundTripTime }

/-- does the record hold anything at all? -/
def GQR.anySome (g : GQR) : Bool :=
  g.ts.isSome || g.clientIp.isSome || g.clientPort.isSome || g.transactionId.isSome ||
  (g.serverIp.isSome || g.serverPort.isSome || g.transportFlags.isSome || g.qrType.isSome || g.sigFlags.isSome || g.opcode.isSome ||
   g.dnsFlags.isSome || g.queryRcode.isSome || g.classtype.isSome || g.qdcount.isSome || g.ancount.isSome || g.nscount.isSome ||
   g.arcount.isSome || g.ednsVersion.isSome || g.udpSize.isSome || g.optRdata.isSome || g.responseRcode.isSome) ||
  g.hoplimit.isSome || g.responseDelay.isSome || g.queryName.isSome || g.querySize.isSome || g.responseSize.isSome ||
  (g.bailiwick.isSome || g.processingFlags.isSome) ||
  (g.queryQuestions.isSome || g.queryAnswers.isSome || g.queryAuthority.isSome || g.queryAdditional.isSome) ||
  (g.responseQuestions.isSome || g.responseAnswers.isSome || g.responseAuthority.isSome || g.responseAdditional.isSome) ||
  g.asn.isSome || g.countryCode.isSome || g.roundTripTime.isSome

/-- what the application may expect to read back: the projections of the query/responses of which anything is stored, in order -/
def expectedQrs (h : Hints) (recs : List Rec) : List GQR :=
  recs.filterMap fun r => match r with
    | .qr g _ => if (project h g).anySome then some (project h g) else none
    | _ => none

/-! ### malformed messages -/

/-- `read_generic_mm`: the stored malformed message with its indexes resolved -/
def resolveM (b : Blk) (m : MMRec) : GMM :=
  let d : MMD := (m.mdi.bind fun i => b.mmd[i]?).getD {}
  { ts := m.ts
    clientIp := m.cai.bind fun i => b.ip[i]?
    clientPort := m.cport
    serverIp := d.sai.bind fun i => b.ip[i]?
    serverPort := d.port
    transportFlags := d.tf
    payload := d.payload }

def GMM.anySome (g : GMM) : Bool :=
  g.ts.isSome || g.clientIp.isSome || g.clientPort.isSome || (g.serverIp.isSome || g.serverPort.isSome || g.transportFlags.isSome || g.payload.isSome)

/-- malformed messages have no per-member hints: with the hint on, every non-empty message is read back unchanged -/
def expectedMms (h : Hints) (recs : List Rec) : List GMM :=
  recs.filterMap fun r => match r with
    | .mm g _ => if on h.odh OtherDataHintsMask.malformed_messages && g.anySome then some g else none
    | _ => none

/-! ### address event counts -/

/-- the generic key a stored address-event entry stands for -/
def resolveA (b : Blk) (a : AEC) : Option GAEC :=
  (b.ip[a.ai]?).map fun ip => { aeType := a.aeType, aeCode := a.aeCode, transportFlags := a.tf, ip := ip }

/-- total count stored for a generic key -/
def countFor (b : Blk) (k : GAEC) : Nat :=
  ((b.aecs.filter fun e => decide (resolveA b e.1 = some k)).map (·.2)).sum

/-- how often a key was buffered (address events are counted only while their hint is on) -/
def timesBuffered (h : Hints) (recs : List Rec) (k : GAEC) : Nat :=
  if on h.odh OtherDataHintsMask.address_event_counts then
    (recs.filter fun r => match r with | .aec g _ => decide (g = k) | _ => false).length
  else 0

end CdnsVerif.Model.Builder
