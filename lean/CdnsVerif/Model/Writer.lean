/-
  Executable models of the output writers (src/writer.{h,cpp}).

  * `BW`  – the bottom writers `Writer<int>` / `Writer<std::string>`: what the operating system
            accepted for the current output, and the "failure already reported" flag;
            every `write` consults one response of a fault schedule.
  * `Codec` – an abstract streaming compressor (zlib's `deflate`, liblzma's `lzma_code`) with the
            contract the writer relies on; `cwWrite` / `cwFinish` are the loops of
            `GzipCborOutputWriter::write/finish` (`Xz…` is the same code).
  * `Sys`, `Fs` – the system calls a named output issues and their effect on a file system,
            for the crash-point property C15.
-/
import CdnsVerif.Spec.Cbor
namespace CdnsVerif.Model.Writer
open CdnsVerif.Spec.Cbor

/-! ### bottom writer with faults (C16) -/

inductive Resp where
  | ok | fail | short
  deriving DecidableEq, Repr

structure BW where
  out : Bytes          -- bytes the OS accepted for the current output
  failed : Bool        -- m_failed
  deriving Repr

/-- `Writer<T>::write`: returns the new state and whether it threw `CborOutputException` -/
def BW.write (w : BW) (chunk : Bytes) (r : Resp) : BW × Bool :=
  if w.failed then (w, false)
  else match r with
    | .ok => ({ w with out := w.out ++ chunk }, false)
    | .short => ({ out := w.out ++ chunk.take (chunk.length / 2), failed := true }, true)
    | .fail => ({ w with failed := true }, true)

/-- a sequence of writes under a fault schedule: final state and the per-call "threw" flags -/
def BW.writes (w : BW) : List (Bytes × Resp) → BW × List Bool
  | [] => (w, [])
  | (c, r) :: rest =>
    let (w1, t) := w.write c r
    let (w2, ts) := BW.writes w1 rest
    (w2, t :: ts)

/-- `rotate_output`: the closed output's content, and a fresh writer for the new destination -/
def BW.rotate (w : BW) : Bytes × BW := (w.out, { out := [], failed := false })

/-! ### streaming compressor (C14) -/

/-- one call of `deflate(&strm, action)` / `lzma_code`: offered input, finish flag, output space
    ↦ new state, input consumed, output produced, stream-end flag -/
structure Codec where
  St : Type
  init : St
  step : St → Bytes → Bool → Nat → St × Nat × Bytes × Bool
  decode : Bytes → Option Bytes

structure Call where
  avail : Bytes
  finish : Bool
  space : Nat

/-- run a list of calls: state, everything produced, everything consumed, stream ended -/
def Codec.runCalls (c : Codec) : c.St → List Call → c.St × Bytes × Bytes × Bool
  | s, [] => (s, [], [], false)
  | s, k :: ks =>
    let (s1, n, o, e) := c.step s k.avail k.finish k.space
    if e then (s1, o, k.avail.take n, true)
    else
      let (s2, o2, i2, e2) := c.runCalls s1 ks
      (s2, o ++ o2, k.avail.take n ++ i2, e2)

/-- the contract: whatever the calls, once the stream has ended the output decodes to the
    input consumed (zlib / liblzma are trusted to satisfy this; `storeCodec` shows it is
    satisfiable) -/
def Codec.Sound (c : Codec) : Prop :=
  ∀ calls, (c.runCalls c.init calls).2.2.2 = true →
    c.decode (c.runCalls c.init calls).2.1 = some (c.runCalls c.init calls).2.2.1

/-- size of the on-stack scratch buffer of `write_gzip` / `write_lzma` -/
def scratchSize (inSize : Nat) : Nat := Nat.min (inSize + inSize / 3 + 128) 65536

/-- `write(p, size)`: `while (avail_in > 0) write_gzip(size, NO_FLUSH)`; returns the calls made.
    fuel bounds the loop (termination of the real loop is the compressor's progress guarantee) -/
def cwWriteCalls (c : Codec) (size : Nat) : Nat → c.St → Bytes → Option (c.St × List Call × Bytes)
  | 0, _, _ => none
  | fuel+1, s, rest =>
    if rest = [] then some (s, [], [])
    else
      let k : Call := ⟨rest, false, scratchSize size⟩
      let (s1, n, o, _) := c.step s rest false (scratchSize size)
      match cwWriteCalls c size fuel s1 (rest.drop n) with
      | some (s2, ks, o2) => some (s2, k :: ks, o ++ o2)
      | none => none


/-- `finish()`: `while (write_gzip(2048, Z_FINISH) != Z_STREAM_END);` – no input is left (`write` consumed it all) -/
def cwFinishCalls (c : Codec) : Nat → c.St → Option (c.St × List Call × Bytes)
  | 0, _ => none
  | fuel+1, s =>
    let k : Call := ⟨[], true, scratchSize 2048⟩
    let (s1, _, o, e) := c.step s [] true (scratchSize 2048)
    if e then some (s1, [k], o)
    else match cwFinishCalls c fuel s1 with
      | some (s2, ks, o2) => some (s2, k :: ks, o ++ o2)
      | none => none

/-- the whole life of one compressed output: `write(chunk)` for every chunk the encoder hands down, then `finish()`;
    returns every call made to the codec and every byte handed to the inner writer -/
def cwLifecycle (c : Codec) (fuel : Nat) : c.St → List Bytes → Option (List Call × Bytes)
  | s, [] => (cwFinishCalls c fuel s).map fun r => (r.2.1, r.2.2)
  | s, chunk :: rest =>
    match cwWriteCalls c chunk.length fuel s chunk with
    | none => none
    | some (s1, ks, o) =>
      match cwLifecycle c fuel s1 rest with
      | none => none
      | some (ks2, o2) => some (ks ++ ks2, o ++ o2)

/-! ### system calls of a named output and the file system (C15) -/

inductive Sys where
  | openTrunc (p : String)
  | write (p : String) (data : Bytes)
  | close (p : String)
  | rename (src dst : String)
  deriving Repr

abbrev Fs := String → Option Bytes

def Fs.apply (fs : Fs) : Sys → Fs
  | .openTrunc p => fun q => if q = p then some [] else fs q
  | .write p d => fun q => if q = p then some ((fs p).getD [] ++ d) else fs q
  | .close _ => fs
  | .rename a b => fun q => if q = b then fs a else if q = a then none else fs q

def Fs.applyAll (fs : Fs) (t : List Sys) : Fs := t.foldl Fs.apply fs

/-- one output: final name, and the pieces in which its complete content reaches the OS
    (the pieces depend on libstdc++'s buffering – any split is allowed) -/
structure OutSpec where
  name : String
  pieces : List Bytes

def OutSpec.content (o : OutSpec) : Bytes := o.pieces.flatten
def OutSpec.part (o : OutSpec) : String := o.name ++ ".part"

/-- `open()`, the data, then `close()`: flush + close + rename -/
def OutSpec.trace (o : OutSpec) : List Sys :=
  [.openTrunc o.part] ++ o.pieces.map (Sys.write o.part) ++ [.close o.part, .rename o.part o.name]

def scenarioTrace (outs : List OutSpec) : List Sys := outs.flatMap OutSpec.trace

end CdnsVerif.Model.Writer
