/-
  The read side of a block, after the raw (schema-level) read: `CdnsBlockRead::read` (src/block.cpp) turns the members
  decoded by the struct readers into the block object the application queries –

    * the block preamble: `Timestamp::read`'s 2-element check, the parameter set selected by
      `block_parameters_index` (absent = set 0, too high = `CdnsDecoderException`);
    * the nine tables filled entry by entry with `add_value` (no de-duplication on the read side);
    * query/responses and malformed messages in file order, their `time_offset` replaced by
      `earliest_time + offset` (`Timestamp::add_time_offset`, which throws `std::runtime_error` when the sum is not a
      valid time);
    * address-event counts entered into the `unordered_map` keyed by the event (a repeated key keeps its position and
      takes the later count);

  – and `read_generic_qr` / `read_generic_mm` / `read_generic_aec` resolve every stored index through the bounds-checked
  accessors (`get_ip_address` …: `std::runtime_error` when the index is not below the table size).

  The value read is the `Val` the schema interpreter (`Model.Schema.readVal Structs.block`) returns, so the members are looked up
  by key – the order in which they arrived in the file plays no role here (that is `Props.C08`).
  The stored block is the same structure `Blk` the builder model uses: `Proofs/ReadBlock.lean` shows that `ofVal` inverts the
  writer's `toVal` on every block the builder produces, which closes the chain
  records buffered → block built → bytes written → bytes read → block → records returned (`Props.C01.export_read_records`).
-/
import CdnsVerif.Model.Resolve
import CdnsVerif.Model.Structs

namespace CdnsVerif.Model.ReadBlock
open CdnsVerif.Spec.Cbor CdnsVerif.Generated CdnsVerif.Model.Schema CdnsVerif.Model.Builder CdnsVerif.Model.Timestamp

/-- the exception classes the reading application can tell apart -/
inductive RErr where
  | dec        -- CdnsDecoderException
  | other      -- std::runtime_error (time arithmetic, table index out of bounds)
  deriving DecidableEq, Repr

/-! ### member look-up in a value read by the schema interpreter -/

def fld (ms : List (Int × Val)) (k : Int) : Option Val := (ms.find? (·.1 == k)).map (·.2)
def fNat (ms : List (Int × Val)) (k : Int) : Option Nat := match fld ms k with | some (.num n) => some n.toNat | _ => none
def fInt (ms : List (Int × Val)) (k : Int) : Option Int := match fld ms k with | some (.num n) => some n | _ => none
def fStr (ms : List (Int × Val)) (k : Int) : Option Bytes := match fld ms k with | some (.str s) => some s | _ => none
def fRec (ms : List (Int × Val)) (k : Int) : Option (List (Int × Val)) := match fld ms k with | some (.record r) => some r | _ => none
def fList (ms : List (Int × Val)) (k : Int) : List Val := match fld ms k with | some (.list l) => l | _ => []
def recOf : Val → List (Int × Val) | .record r => r | _ => []
def strOf : Val → Bytes | .str s => s | _ => []
def natOf : Val → Nat | .num n => n.toNat | _ => 0
def natsOf : Val → List Nat | .list l => l.map natOf | _ => []

/-! ### the stored structures -/

def sigOfRec (ms : List (Int × Val)) : Sig := {
  sai := fNat ms QueryResponseSignatureMapIndex.server_address_index, port := fNat ms QueryResponseSignatureMapIndex.server_port,
  tf := fNat ms QueryResponseSignatureMapIndex.qr_transport_flags, qt := fNat ms QueryResponseSignatureMapIndex.qr_type,
  sf := fNat ms QueryResponseSignatureMapIndex.qr_sig_flags, op := fNat ms QueryResponseSignatureMapIndex.query_opcode,
  df := fNat ms QueryResponseSignatureMapIndex.qr_dns_flags, qrc := fNat ms QueryResponseSignatureMapIndex.query_rcode,
  cti := fNat ms QueryResponseSignatureMapIndex.query_classtype_index, qd := fNat ms QueryResponseSignatureMapIndex.query_qdcount,
  an := fNat ms QueryResponseSignatureMapIndex.query_ancount, ns := fNat ms QueryResponseSignatureMapIndex.query_nscount,
  ar := fNat ms QueryResponseSignatureMapIndex.query_arcount, ev := fNat ms QueryResponseSignatureMapIndex.query_edns_version,
  us := fNat ms QueryResponseSignatureMapIndex.query_udp_size, ordi := fNat ms QueryResponseSignatureMapIndex.query_opt_rdata_index,
  rrc := fNat ms QueryResponseSignatureMapIndex.response_rcode }
def sigOf (v : Val) : Sig := sigOfRec (recOf v)

def pairOf (k0 k1 : Int) (v : Val) : Nat × Nat := ((fNat (recOf v) k0).getD 0, (fNat (recOf v) k1).getD 0)

def rrOf (v : Val) : RRe :=
  let ms := recOf v
  { name := (fNat ms RrMapIndex.name_index).getD 0, ct := (fNat ms RrMapIndex.classtype_index).getD 0,
    ttl := fNat ms RrMapIndex.ttl, rdata := fNat ms RrMapIndex.rdata_index }

def mmdOf (v : Val) : MMD :=
  let ms := recOf v
  { sai := fNat ms MalformedMessageDataMapIndex.server_address_index, port := fNat ms MalformedMessageDataMapIndex.server_port,
    tf := fNat ms MalformedMessageDataMapIndex.mm_transport_flags, payload := fStr ms MalformedMessageDataMapIndex.mm_payload }

def qreOfRec (ms : List (Int × Val)) : QRE :=
  { q := fNat ms QueryResponseExtendedMapIndex.question_index, an := fNat ms QueryResponseExtendedMapIndex.answer_index,
    au := fNat ms QueryResponseExtendedMapIndex.authority_index, ad := fNat ms QueryResponseExtendedMapIndex.additional_index }

def rpdOfRec (ms : List (Int × Val)) : RPD :=
  { bw := fNat ms ResponseProcessingDataMapIndex.bailiwick_index, flags := fNat ms ResponseProcessingDataMapIndex.processing_flags }

/-- `time_offset` ↦ `earliest_time + offset` (the offset is handed to `add_time_offset(int64_t, …)` as the `uint64_t` read) -/
def timeOf (earliest : Ts) (tps : Nat) (o : Option Nat) : Except RErr (Option Ts) :=
  match o with
  | none => .ok none
  | some n =>
    match addTimeOffset earliest (toI64 n) tps with
    | .ok t => .ok (some t)
    | .error _ => .error .other

def qrOf (earliest : Ts) (tps : Nat) (v : Val) : Except RErr QRec :=
  let ms := recOf v
  match timeOf earliest tps (fNat ms QueryResponseMapIndex.time_offset) with
  | .error e => .error e
  | .ok ts => .ok {
      ts := ts, cai := fNat ms QueryResponseMapIndex.client_address_index, cport := fNat ms QueryResponseMapIndex.client_port,
      tid := fNat ms QueryResponseMapIndex.transaction_id, sig := fNat ms QueryResponseMapIndex.qr_signature_index,
      hl := fNat ms QueryResponseMapIndex.client_hoplimit, rd := fInt ms QueryResponseMapIndex.response_delay,
      qn := fNat ms QueryResponseMapIndex.query_name_index, qs := fNat ms QueryResponseMapIndex.query_size,
      rs := fNat ms QueryResponseMapIndex.response_size,
      rpd := (fRec ms QueryResponseMapIndex.response_processing_data).map rpdOfRec,
      qx := (fRec ms QueryResponseMapIndex.query_extended).map qreOfRec,
      rx := (fRec ms QueryResponseMapIndex.response_extended).map qreOfRec,
      asn := fStr ms QueryResponseMapIndex.asn, cc := fStr ms QueryResponseMapIndex.country_code,
      rtt := fInt ms QueryResponseMapIndex.round_trip_time }

def mmOf (earliest : Ts) (tps : Nat) (v : Val) : Except RErr MMRec :=
  let ms := recOf v
  match timeOf earliest tps (fNat ms MalformedMessageMapIndex.time_offset) with
  | .error e => .error e
  | .ok ts => .ok {
      ts := ts, cai := fNat ms MalformedMessageMapIndex.client_address_index, cport := fNat ms MalformedMessageMapIndex.client_port,
      mdi := fNat ms MalformedMessageMapIndex.message_data_index }

def aecOf (v : Val) : AEC × Nat :=
  let ms := recOf v
  ({ aeType := (fNat ms AddressEventCountMapIndex.ae_type).getD 0, aeCode := fNat ms AddressEventCountMapIndex.ae_code,
     ai := (fNat ms AddressEventCountMapIndex.ae_address_index).getD 0, tf := fNat ms AddressEventCountMapIndex.ae_transport_flags },
   (fNat ms AddressEventCountMapIndex.ae_count).getD 0)

/-- `m_address_event_counts[tmp] = tmp.ae_count`: the map is keyed by the whole `AddressEventCount` read, whose `operator==`
    compares the count as well – an entry equal in every member is entered once, entries that differ only in the count (a writer
    that does not aggregate) stay separate -/
def putAec (acc : List (AEC × Nat)) (e : AEC × Nat) : List (AEC × Nat) :=
  if acc.any (· == e) then acc else acc ++ [e]

/-- all of a list, or the first exception -/
def allOk : List (Except RErr α) → Except RErr (List α)
  | [] => .ok []
  | .error e :: _ => .error e
  | .ok x :: rest => match allOk rest with | .ok xs => .ok (x :: xs) | .error e => .error e

def statsOfRec (ms : List (Int × Val)) : Stats :=
  [fNat ms BlockStatisticsMapIndex.processed_messages, fNat ms BlockStatisticsMapIndex.qr_data_items,
   fNat ms BlockStatisticsMapIndex.unmatched_queries, fNat ms BlockStatisticsMapIndex.unmatched_responses,
   fNat ms BlockStatisticsMapIndex.discarded_opcode, fNat ms BlockStatisticsMapIndex.malformed_items]

/-- `Timestamp::read`: exactly two unsigned members -/
def earliestOf (pre : List (Int × Val)) : Except RErr Ts :=
  match fld pre BlockPreambleMapIndex.earliest_time with
  | none => .ok ⟨0, 0⟩
  | some (.list [.num s, .num t]) => .ok ⟨s.toNat, t.toNat⟩
  | some _ => .error .dec

/-- the ticks-per-second of the parameter set the block names (`rates` = one rate per set of the file preamble) -/
def rateFor (rates : List Nat) (pi : Option Nat) : Except RErr Nat :=
  match rates with
  | [] => .error .dec                                  -- "Given Block parameters array is empty!"
  | r0 :: _ =>
    match pi with
    | none => .ok r0
    | some i => match rates[i]? with | some r => .ok r | none => .error .dec     -- "Block parameters index … too high"

/-- ticks-per-second of every parameter set of a file preamble read (`m_block_parameters[i].storage_parameters.ticks_per_second`) -/
def ratesOf (pv : Val) : List Nat :=
  (fList (recOf pv) FilePreambleMapIndex.block_parameters).map fun bp =>
    ((fRec (recOf bp) BlockParametersMapIndex.storage_parameters).bind fun sp => fNat sp StorageParametersMapIndex.ticks_per_second).getD 0

structure RdBlk where
  blk : Blk
  pi : Option Nat
  tps : Nat
  deriving Repr

/-- `CdnsBlockRead::read`, given the raw value of the block -/
def ofVal (rates : List Nat) (v : Val) : Except RErr RdBlk :=
  let ms := recOf v
  match fRec ms BlockMapIndex.block_preamble with
  | none => .error .dec
  | some pre =>
    match earliestOf pre with
    | .error e => .error e
    | .ok earliest =>
      let pi := fNat pre BlockPreambleMapIndex.block_parameters_index
      match rateFor rates pi with
      | .error e => .error e
      | .ok tps =>
        let tb := (fRec ms BlockMapIndex.block_tables).getD []
        match allOk ((fList ms BlockMapIndex.query_responses).map (qrOf earliest tps)) with
        | .error e => .error e
        | .ok qrs =>
          match allOk ((fList ms BlockMapIndex.malformed_messages).map (mmOf earliest tps)) with
          | .error e => .error e
          | .ok mms => .ok {
              pi := pi, tps := tps,
              blk := {
                ip := (fList tb BlockTablesMapIndex.ip_address).map strOf
                ct := (fList tb BlockTablesMapIndex.classtype).map (pairOf ClassTypeMapIndex.type ClassTypeMapIndex.class_)
                nr := (fList tb BlockTablesMapIndex.name_rdata).map strOf
                sig := (fList tb BlockTablesMapIndex.qr_sig).map sigOf
                qlist := (fList tb BlockTablesMapIndex.qlist).map natsOf
                qrr := (fList tb BlockTablesMapIndex.qrr).map (pairOf QuestionMapIndex.name_index QuestionMapIndex.classtype_index)
                rrlist := (fList tb BlockTablesMapIndex.rrlist).map natsOf
                rr := (fList tb BlockTablesMapIndex.rr).map rrOf
                mmd := (fList tb BlockTablesMapIndex.malformed_message_data).map mmdOf
                qrs := qrs
                aecs := ((fList ms BlockMapIndex.address_event_counts).map aecOf).foldl putAec []
                mms := mms
                earliest := earliest
                stats := (fRec ms BlockMapIndex.block_statistics).map statsOfRec } }

/-! ### bounds-checked resolution (`read_generic_*` through `get_ip_address` …) -/

def inb (len : Nat) (o : Option Nat) : Bool := match o with | some i => decide (i < len) | none => true

def qrrOk (b : Blk) (j : Nat) : Bool :=
  match b.qrr[j]? with | some p => decide (p.1 < b.nr.length) && decide (p.2 < b.ct.length) | none => false
def rrOk (b : Blk) (j : Nat) : Bool :=
  match b.rr[j]? with
  | some r => decide (r.name < b.nr.length) && decide (r.ct < b.ct.length) && inb b.nr.length r.rdata
  | none => false
def qlOk (b : Blk) (o : Option Nat) : Bool :=
  match o with | some i => (match b.qlist[i]? with | some l => l.all (qrrOk b) | none => false) | none => true
def rlOk (b : Blk) (o : Option Nat) : Bool :=
  match o with | some i => (match b.rrlist[i]? with | some l => l.all (rrOk b) | none => false) | none => true
def qreOk (b : Blk) (o : Option QRE) : Bool :=
  match o with | some e => qlOk b e.q && rlOk b e.an && rlOk b e.au && rlOk b e.ad | none => true

/-- does `read_generic_qr` return for this record (every index it dereferences is inside its table)? -/
def qrIdxOk (b : Blk) (q : QRec) : Bool :=
  inb b.ip.length q.cai &&
  (match q.sig with
   | some i => (match b.sig[i]? with
      | some s => inb b.ip.length s.sai && inb b.ct.length s.cti && inb b.nr.length s.ordi
      | none => false)
   | none => true) &&
  inb b.nr.length q.qn && inb b.nr.length (q.rpd.bind (·.bw)) && qreOk b q.qx && qreOk b q.rx

def mmIdxOk (b : Blk) (m : MMRec) : Bool :=
  inb b.ip.length m.cai &&
  (match m.mdi with
   | some i => (match b.mmd[i]? with | some d => inb b.ip.length d.sai | none => false)
   | none => true)

def aecIdxOk (b : Blk) (a : AEC × Nat) : Bool := decide (a.1.ai < b.ip.length)

/-- what the application gets from one block: the statistics and the three record streams (`none` = an accessor threw) -/
structure Records where
  qrs : List GQR
  aecs : List (GAEC × Nat)
  mms : List GMM

/-- `read_generic_qr` hands the signature's members to the generic record: `query_ancount` is the one member whose type is wider
    in the table entry (`uint32_t`) than in `GenericQueryResponse` (`uint16_t`) – the assignment narrows.  (Both widths come from
    the translator's `memberTable`; found by the correspondence on a mutated file whose answer count was 2^31.) -/
def narrowQ (g : GQR) : GQR := { g with ancount := g.ancount.map (· % 65536) }

def records (b : Blk) : Except RErr Records :=
  if b.qrs.all (qrIdxOk b) && b.aecs.all (aecIdxOk b) && b.mms.all (mmIdxOk b) then
    .ok { qrs := b.qrs.map fun q => narrowQ (resolveQ b q),
          aecs := b.aecs.filterMap fun a => (resolveA b a.1).map fun g => (g, a.2),
          mms := b.mms.map (resolveM b) }
  else .error .other

/-- everything the application can observe of one block, given its raw value: the block object and the three record streams,
    or the class of the exception -/
def blockOutcome (rates : List Nat) (v : Val) : Except RErr (RdBlk × Records) :=
  match ofVal rates v with
  | .error e => .error e
  | .ok rb => match records rb.blk with | .error e => .error e | .ok r => .ok (rb, r)

end CdnsVerif.Model.ReadBlock
