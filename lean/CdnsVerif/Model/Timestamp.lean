/-
  Executable model of `CDNS::Timestamp` (src/timestamp.{h,cpp}) and of the earliest-time
  bookkeeping of `CdnsBlock` (src/block.cpp: add_question_response_record,
  add_malformed_message, clear).

  C++ fixed-width arithmetic is explicit: `uint64_t` operations are `% 2^64` (`u64`),
  `uint64_t → int64_t` is the two's-complement map `toI64`, `int64_t → uint64_t` is `ofI64`.
  Signed overflow has no value in C++; the model follows the guards of the code, and the
  theorems show the signed additions/negations it performs stay inside `int64_t`
  (`addTimeOffset_no_overflow`).
-/
namespace CdnsVerif.Model.Timestamp

structure Ts where
  secs : Nat
  ticks : Nat
  deriving DecidableEq, Repr, Inhabited

def two64 : Nat := 18446744073709551616
def two63 : Nat := 9223372036854775808

def u64 (n : Nat) : Nat := n % two64
def toI64 (n : Nat) : Int := if n < two63 then (n : Int) else (n : Int) - (two64 : Int)
def ofI64 (i : Int) : Nat := (i % (two64 : Int)).toNat

inductive Err where
  | rateZero       -- "Ticks per second resolution is zero!"
  | invalid        -- "Adding offset to Timestamp would create invalid Timestamp!"
  deriving DecidableEq, Repr

/-- `(m_secs * ticks_per_second) + m_ticks` in `uint64_t` -/
def rawTicks (t : Ts) (r : Nat) : Nat := u64 (u64 (t.secs * r) + t.ticks)

/-- `Timestamp::get_time_offset(reference, ticks_per_second)` -/
def getTimeOffset (a ref : Ts) (r : Nat) : Except Err Int :=
  if r = 0 then .error .rateZero
  else .ok (toI64 (u64 (rawTicks a r + two64 - rawTicks ref r)))

/-- `Timestamp::add_time_offset(offset, ticks_per_second)`; `.error` = exception thrown and the
    timestamp left unchanged (the C++ assigns `m_secs/m_ticks` only after the checks) -/
def addTimeOffset (t : Ts) (off : Int) (r : Nat) : Except Err Ts :=
  if r = 0 then .error .rateZero
  else
    let ticks : Int := toI64 (rawTicks t r)
    if off < 0 ∧ (off = -(two63 : Int) ∨ -off > ticks) then .error .invalid
    else if off > 0 ∧ ticks > (two63 : Int) - 1 - off then .error .invalid
    else
      let ticks' : Int := ticks + off
      .ok { secs := ofI64 ticks' / r, ticks := ofI64 ticks' % r }

/-- `operator<` -/
def lt (a b : Ts) : Bool := a.secs < b.secs || (a.secs == b.secs && a.ticks < b.ticks)
/-- `operator<=` -/
def le (a b : Ts) : Bool := a.secs < b.secs || (a.secs == b.secs && a.ticks ≤ b.ticks)

/-! ### earliest-time bookkeeping of a block -/

structure BlockTime where
  earliest : Ts
  qrs : List (Option Ts)     -- time_offset member of the stored query/responses, in order
  mms : List (Option Ts)     -- time_offset member of the stored malformed messages
  deriving Repr

def BlockTime.init : BlockTime := { earliest := ⟨0, 0⟩, qrs := [], mms := [] }

inductive TimeOp where
  /-- `add_question_response_record(gr)`: `ts` = gr.ts, `timeHint` = time_offset hint bit,
      `other` = some other member was stored -/
  | qr (ts : Option Ts) (timeHint other : Bool)
  /-- `add_malformed_message(gmm)`: `enabled` = malformed-messages hint bit -/
  | mm (ts : Option Ts) (enabled other : Bool)
  /-- `add_question_response_record(const QueryResponse&)` (a directly built item: no hint filtering; an item with no
      member at all is ignored) -/
  | qrItem (ts : Option Ts) (other : Bool)
  /-- `add_malformed_message(const MalformedMessage&)` -/
  | mmItem (ts : Option Ts) (other : Bool)
  | clear
  deriving Repr

def updEarliest (b : BlockTime) (ts : Option Ts) : Ts :=
  match ts with
  | some t => if (b.qrs.isEmpty && b.mms.isEmpty) || lt t b.earliest then t else b.earliest
  | none => b.earliest

def stepTime (b : BlockTime) : TimeOp → BlockTime
  | .qr ts timeHint other =>
    let e := updEarliest b ts
    let stored := if timeHint then ts else none
    if stored.isSome || other then { b with earliest := e, qrs := b.qrs ++ [stored] }
    else { b with earliest := e }
  | .mm ts enabled other =>
    if !enabled then b
    else
      let e := updEarliest b ts
      if ts.isSome || other then { b with earliest := e, mms := b.mms ++ [ts] }
      else { b with earliest := e }
  | .qrItem ts other =>
    if ts.isSome || other then { b with earliest := updEarliest b ts, qrs := b.qrs ++ [ts] } else b
  | .mmItem ts other =>
    if ts.isSome || other then { b with earliest := updEarliest b ts, mms := b.mms ++ [ts] } else b
  | .clear => BlockTime.init

def runTime (b : BlockTime) (ops : List TimeOp) : BlockTime := ops.foldl stepTime b

/-- all stored record times of the block -/
def BlockTime.times (b : BlockTime) : List Ts := (b.qrs ++ b.mms).filterMap id

end CdnsVerif.Model.Timestamp
