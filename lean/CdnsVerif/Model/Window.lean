/-
  Executable model of the decoder's input window: `CdnsDecoder::read_to_buffer()`, the members
  `m_buffer / m_p / m_end` and the `std::istream` behind them (src/cdns_decoder.{h,cpp}).

  `win` is the part of the buffer between `m_p` and `m_end` (what has been fetched and not
  yet consumed).  The stream is libstdc++'s `std::istream` as far as `read/gcount/eof` go:
  a read delivers `min n |data|` bytes; it sets eofbit|failbit only when fewer than `n` were
  available; once a fail bit is set (or for a stream that was never readable, e.g. an
  unopened `ifstream`) every read delivers nothing and `eof()` stays as it was.
-/
import CdnsVerif.Model.Prog
import CdnsVerif.Generated.Constants
namespace CdnsVerif.Model.Window
open CdnsVerif.Spec.Cbor CdnsVerif.Model

def bufferSize : Nat := Generated.decBufferSize

structure IStream where
  data : Bytes      -- bytes not yet delivered
  eof : Bool        -- eofbit
  good : Bool       -- no fail/bad bit set
  deriving Repr

/-- `m_input.read(buf, n)`; returns the bytes delivered (`gcount()` = their number) -/
def IStream.read (s : IStream) (n : Nat) : Bytes × IStream :=
  if !s.good then ([], s)
  else if s.data.length < n then (s.data, { data := [], eof := true, good := false })
  else (s.data.take n, { s with data := s.data.drop n })

structure DecSt where
  win : Bytes
  inp : IStream
  deriving Repr

/-- a decoder freshly constructed over a stream holding `data` -/
def DecSt.ofBytes (data : Bytes) : DecSt := { win := [], inp := { data := data, eof := false, good := true } }
/-- a decoder over a stream that cannot be read (unopened `std::ifstream`) -/
def DecSt.unreadable : DecSt := { win := [], inp := { data := [], eof := false, good := false } }

/-- the input that is still to come, as the item-level theorems see it -/
def DecSt.abs (s : DecSt) : Bytes := s.win ++ (if s.inp.good then s.inp.data else [])

/-- `read_to_buffer()`: `.error` = `CdnsDecoderEnd` thrown -/
def readToBuffer (s : DecSt) : Except Err DecSt :=
  if s.win = [] then
    if s.inp.eof then .error .end_
    else
      let (bs, inp') := s.inp.read bufferSize
      if bs = [] then .error .end_ else .ok { win := bs, inp := inp' }
  else .ok s

/-- interpretation of a decoder program over the real state -/
def runW : Prog α → DecSt → Except Err (α × DecSt)
  | .pure a, s => .ok (a, s)
  | .throw e, _ => .error e
  | .next k, s =>
    match readToBuffer s with
    | .error e => .error e
    | .ok s' =>
      match s'.win with
      | [] => .error .end_          -- unreachable: read_to_buffer never returns with an empty window
      | b :: w => runW (k b) { s' with win := w }
  | .peek k, s =>
    match readToBuffer s with
    | .error e => .error e
    | .ok s' =>
      match s'.win with
      | [] => .error .end_
      | b :: _ => runW (k b) s'

/-- the state `read_to_buffer()` leaves behind, whether it returns or throws: when it has to refill, `m_p`/`m_end` are set from
    the read before the "nothing read" check -/
def afterRefill (s : DecSt) : DecSt :=
  if s.win = [] then
    if s.inp.eof then s
    else
      let (bs, inp') := s.inp.read bufferSize
      { win := bs, inp := inp' }
  else s

/-- like `runW`, but the state is kept when the program throws (what the next call on the same decoder object starts from) -/
def runWS : Prog α → DecSt → Except Err α × DecSt
  | .pure a, s => (.ok a, s)
  | .throw e, s => (.error e, s)
  | .next k, s =>
    match readToBuffer s with
    | .error e => (.error e, afterRefill s)
    | .ok s' =>
      match s'.win with
      | [] => (.error .end_, s')
      | b :: w => runWS (k b) { s' with win := w }
  | .peek k, s =>
    match readToBuffer s with
    | .error e => (.error e, afterRefill s)
    | .ok s' =>
      match s'.win with
      | [] => (.error .end_, s')
      | b :: _ => runWS (k b) s'

end CdnsVerif.Model.Window
