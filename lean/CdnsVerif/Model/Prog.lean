/-
  Decoder programs.  Every read-side function of the library touches its input only through
  `CdnsDecoder::read_to_buffer()` followed by `m_p[0]` (peek) or `m_p[0]; m_p++` (next).
  A decoder operation is therefore a tree whose nodes are `next`, `peek`, `throw`, `pure`:
  the free monad over those primitives.  One model, two interpretations:

  * `run`  over the plain remaining input (`Bytes`)  – used by the item-level theorems;
  * `Window.runW` over the real state (65535-byte window + `std::istream`) – `Props.C05`
    proves the two agree for EVERY program, so every item-level theorem holds wherever the
    item lies relative to the window boundary.
-/
import CdnsVerif.Spec.Cbor
namespace CdnsVerif.Model
open CdnsVerif.Spec.Cbor

inductive Err where
  | end_      -- CdnsDecoderEnd
  | decoder   -- CdnsDecoderException
  | other     -- any other std::exception (std::runtime_error from table lookups, timestamps)
  deriving DecidableEq, Repr, Inhabited

inductive Prog (α : Type) : Type where
  | pure : α → Prog α
  | throw : Err → Prog α
  | next : (Nat → Prog α) → Prog α
  | peek : (Nat → Prog α) → Prog α

namespace Prog

def bind : Prog α → (α → Prog β) → Prog β
  | .pure a, f => f a
  | .throw e, _ => .throw e
  | .next k, f => .next fun b => bind (k b) f
  | .peek k, f => .peek fun b => bind (k b) f

instance : Monad Prog where
  pure := Prog.pure
  bind := Prog.bind

/-- interpretation over the remaining input -/
def run : Prog α → Bytes → Except Err (α × Bytes)
  | .pure a, bs => .ok (a, bs)
  | .throw e, _ => .error e
  | .next _, [] => .error .end_
  | .next k, b :: bs => run (k b) bs
  | .peek _, [] => .error .end_
  | .peek k, b :: bs => run (k b) (b :: bs)

@[simp] theorem run_pure (a : α) (bs : Bytes) : run (Pure.pure a : Prog α) bs = .ok (a, bs) := rfl
@[simp] theorem run_pure' (a : α) (bs : Bytes) : run (Prog.pure a) bs = .ok (a, bs) := rfl
@[simp] theorem run_throw (e : Err) (bs : Bytes) : run (Prog.throw e : Prog α) bs = .error e := rfl
@[simp] theorem run_next_nil (k : Nat → Prog α) : run (.next k) [] = .error .end_ := rfl
@[simp] theorem run_next_cons (k : Nat → Prog α) (b : Nat) (bs : Bytes) : run (.next k) (b :: bs) = run (k b) bs := rfl
@[simp] theorem run_peek_nil (k : Nat → Prog α) : run (.peek k) [] = .error .end_ := rfl
@[simp] theorem run_peek_cons (k : Nat → Prog α) (b : Nat) (bs : Bytes) : run (.peek k) (b :: bs) = run (k b) (b :: bs) := rfl

theorem run_bind (p : Prog α) (f : α → Prog β) (bs : Bytes) :
    run (p >>= f) bs = match run p bs with
      | .ok (a, r) => run (f a) r
      | .error e => .error e := by
  show run (Prog.bind p f) bs = _
  induction p generalizing bs with
  | pure a => rfl
  | throw e => rfl
  | next k ih =>
    cases bs with
    | nil => rfl
    | cons b bs => simp only [Prog.bind, run_next_cons]; exact ih b bs
  | peek k ih =>
    cases bs with
    | nil => rfl
    | cons b bs => simp only [Prog.bind, run_peek_cons]; exact ih b (b :: bs)

/-- `run` of a bind when the first program succeeds -/
theorem run_bind_ok (p : Prog α) (f : α → Prog β) (bs r : Bytes) (a : α) (h : run p bs = .ok (a, r)) :
    run (p >>= f) bs = run (f a) r := by rw [run_bind, h]

theorem run_bind_err (p : Prog α) (f : α → Prog β) (bs : Bytes) (e : Err) (h : run p bs = .error e) :
    run (p >>= f) bs = .error e := by rw [run_bind, h]

end Prog
end CdnsVerif.Model
