/-
  Executable model of `CDNS::CdnsEncoder` (src/cdns_encoder.{h,cpp}).

  State: `buf` = the bytes between `m_buffer` and `m_p`, `out` = the chunks handed to
  `m_cos->write` so far (one list element per call).  `m_avail = BUFFER_SIZE - buf.length`
  is an invariant of the C++ (`update_buffer` moves both), so it is derived, not stored.
  `BUFFER_SIZE` comes from the translator (`Generated.encBufferSize`), the major-type codes
  from `Generated.CborType`.

  Every function below is a transliteration of the C++ function of the same name: the
  flush thresholds (1/2/3/5/9), `write_int` returning 0 when the head does not fit,
  truncating byte stores (`m_p[1] = value >> 8`), `~value` on the promoted operand, the
  `write_string` copy loop.
-/
import CdnsVerif.Spec.Cbor
import CdnsVerif.Generated.Constants

namespace CdnsVerif.Model.Encoder
open CdnsVerif.Spec.Cbor

def bufferSize : Nat := Generated.encBufferSize

structure EncSt where
  buf : Bytes
  out : List Bytes
  deriving Repr

def EncSt.init : EncSt := { buf := [], out := [] }
def EncSt.avail (s : EncSt) : Nat := bufferSize - s.buf.length
/-- everything the encoder has accepted so far, in order -/
def EncSt.stream (s : EncSt) : Bytes := s.out.flatten ++ s.buf

/-- `flush_buffer()` -/
def flush (s : EncSt) : EncSt :=
  if s.buf ≠ [] then { buf := [], out := s.out ++ [s.buf] } else s

/-- the C++ major-type byte codes (`static_cast<uint8_t>(CborType::X)`) -/
def tUnsigned : Nat := Generated.CborType.UNSIGNED.toNat
def tNegative : Nat := Generated.CborType.NEGATIVE.toNat
def tByteString : Nat := Generated.CborType.BYTE_STRING.toNat
def tTextString : Nat := Generated.CborType.TEXT_STRING.toNat
def tArray : Nat := Generated.CborType.ARRAY.toNat
def tMap : Nat := Generated.CborType.MAP.toNat
def tTag : Nat := Generated.CborType.TAG.toNat
def tSimple : Nat := Generated.CborType.SIMPLE.toNat
def tBreak : Nat := Generated.CborType.BREAK.toNat

/-- `uint8_t` store of a wider value -/
@[inline] def u8 (v : Nat) : Nat := v % 256

/-- `write_int(value, major)`: the bytes stored at `m_p` (empty = returned 0) -/
def writeInt (avail value major : Nat) : Bytes :=
  if value ≤ 23 then
    if avail ≥ 1 then [u8 (major ||| value)] else []
  else if value ≤ 255 then
    if avail ≥ 2 then [u8 (major ||| 24), u8 value] else []
  else if value ≤ 65535 then
    if avail ≥ 3 then [u8 (major ||| 25), u8 (value >>> 8), u8 value] else []
  else if value ≤ 4294967295 then
    if avail ≥ 5 then [u8 (major ||| 26), u8 (value >>> 24), u8 (value >>> 16), u8 (value >>> 8), u8 value] else []
  else
    if avail ≥ 9 then [u8 (major ||| 27), u8 (value >>> 56), u8 (value >>> 48), u8 (value >>> 40),
                       u8 (value >>> 32), u8 (value >>> 24), u8 (value >>> 16), u8 (value >>> 8), u8 value]
    else []

/-- `update_buffer` after bytes were stored at `m_p` -/
def push (s : EncSt) (bs : Bytes) : EncSt := { s with buf := s.buf ++ bs }

/-- common shape: `if (m_avail < need) flush_buffer(); written = write_int(v, major); update_buffer(written)` -/
def writeHead (s : EncSt) (need value major : Nat) : EncSt × Nat :=
  let s := if s.avail < need then flush s else s
  let bs := writeInt s.avail value major
  (push s bs, bs.length)

/-- single fixed byte (`write_indef_array_start`, `write_indef_map_start`, `write_break`) -/
def writeByte (s : EncSt) (b : Nat) : EncSt × Nat :=
  let s := if s.avail < 1 then flush s else s
  if s.avail < 1 then (s, 0) else (push s [u8 b], 1)

/-- `write_string`: the copy loop; `size + 2` iterations are always enough (one may copy
    nothing when `m_avail = 0`, then each copies a full buffer, the last one the rest) -/
def writeStringLoop : Nat → EncSt → Bytes → EncSt
  | 0, s, _ => s
  | fuel+1, s, str =>
    if s.avail < str.length then
      let s' := flush (push s (str.take s.avail))
      writeStringLoop fuel s' (str.drop s.avail)
    else push s str

def writeString (s : EncSt) (str : Bytes) : EncSt := writeStringLoop (str.length + 2) s str

/-- `write_bytestring` / `write_textstring` with a non-null pointer -/
def writeStr (s : EncSt) (major : Nat) (str : Bytes) : EncSt × Nat :=
  let (s, written) := writeHead s 9 str.length major
  (writeString s str, written + str.length)

/-- `~value` where `value` is a negative signed integer converted to `uint64_t`
    (two's complement: the operand as unsigned is `v + 2^64`, its complement `2^64-1-that`) -/
def bitNot64 (v : Int) : Nat := (2 ^ 64 - 1 - (v % 2 ^ 64)).toNat

/-- signed overloads: `if (value < 0) write_int(~value, NEGATIVE) else write_int(value, UNSIGNED)` -/
def writeSigned (s : EncSt) (need : Nat) (v : Int) : EncSt × Nat :=
  let s := if s.avail < need then flush s else s
  let bs := if v < 0 then writeInt s.avail (bitNot64 v) tNegative
            else writeInt s.avail v.toNat tUnsigned
  (push s bs, bs.length)

/-- The 18 public write operations (overloads counted) plus the two null-pointer calls. -/
inductive EncOp where
  | arrayStart (n : Nat)
  | indefArrayStart
  | mapStart (n : Nat)
  | indefMapStart
  | bytestring (bs : Bytes)
  | textstring (bs : Bytes)
  | bytestringNull
  | textstringNull
  | brk
  | bool (b : Bool)
  | u8 (n : Nat)
  | u16 (n : Nat)
  | u32 (n : Nat)
  | u64 (n : Nat)
  | i8 (v : Int)
  | i16 (v : Int)
  | i32 (v : Int)
  | i64 (v : Int)
  deriving Repr

def step (s : EncSt) : EncOp → EncSt × Nat
  | .arrayStart n => writeHead s 9 n tArray
  | .indefArrayStart => writeByte s (tArray ||| 31)
  | .mapStart n => writeHead s 9 n tMap
  | .indefMapStart => writeByte s (tMap ||| 31)
  | .bytestring bs => writeStr s tByteString bs
  | .textstring bs => writeStr s tTextString bs
  | .bytestringNull => (s, 0)
  | .textstringNull => (s, 0)
  | .brk => writeByte s (tSimple ||| 31)
  | .bool b => writeHead s 1 (if b then 21 else 20) tSimple
  | .u8 n => writeHead s 2 n tUnsigned
  | .u16 n => writeHead s 3 n tUnsigned
  | .u32 n => writeHead s 5 n tUnsigned
  | .u64 n => writeHead s 9 n tUnsigned
  | .i8 v => writeSigned s 2 v
  | .i16 v => writeSigned s 3 v
  | .i32 v => writeSigned s 5 v
  | .i64 v => writeSigned s 9 v

def run (s : EncSt) : List EncOp → EncSt × List Nat
  | [] => (s, [])
  | op :: ops =>
    let (s1, r) := step s op
    let (s2, rs) := run s1 ops
    (s2, r :: rs)

/-- destructor / `rotate_output`: what has reached the writer once the buffer is flushed -/
def finish (s : EncSt) : Bytes := (flush s).out.flatten

end CdnsVerif.Model.Encoder
