/-
  One generic interpreter for the struct `write` / `read` functions of src/file_preamble.cpp and
  src/block.cpp, which all have the same shape:

    write:  fields = (#mandatory) + !!opt₁ + …;  write_map_start(fields);
            for each present member, in declaration order:  write(key);  write(value)
    read:   reset();  (length, indef) = read_map_start();
            while (length > 0 || indef) { if (indef && peek_type() == BREAK) { read_break(); break; }
              switch (read_integer()) { case Kᵢ: memberᵢ = read_<kind>(); …  default: skip_item(); }
              length--; }
            if (a mandatory member is missing) throw CdnsDecoderException

  A schema is data (`Kind`/`Field`); the concrete schemas (FilePreamble tree, …) are in
  `Model/Structs.lean` with their keys taken from the translator's output.
-/
import CdnsVerif.Model.Decoder

namespace CdnsVerif.Model.Schema
open CdnsVerif.Spec.Cbor CdnsVerif.Model CdnsVerif.Model.Decoder

mutual
inductive Kind where
  | uint (bits : Nat)            -- write(uintN_t) / (uintN_t) read_unsigned()
  | int64                        -- write(int64_t) / read_integer()
  | tstr
  | bstr
  | bool
  | arr (elem : Kind)            -- write_array_start(n) + elements / read_array(cb)
  | struct (fields : List Field)
inductive Field where
  | mk (key : Int) (kind : Kind) (required : Bool)    -- required: reader throws when absent
end

def Field.key : Field → Int | .mk k _ _ => k
def Field.kind : Field → Kind | .mk _ k _ => k
def Field.required : Field → Bool | .mk _ _ r => r

/-- values of the data model the structs hold -/
inductive Val where
  | num (n : Int)
  | str (b : Bytes)
  | bool (b : Bool)
  | list (vs : List Val)
  | record (fs : List (Int × Val))   -- present members, key ↦ value
  deriving Repr, Inhabited

/-! ### writer: the syntax tree whose encoding the struct writers emit -/

def intItem (n : Int) : Item := if n < 0 then .nint (shortest (-1 - n).toNat) (-1 - n).toNat else .uint (shortest n.toNat) n.toNat

mutual
def toItem : Kind → Val → Item
  | .uint _, .num n => .uint (shortest n.toNat) n.toNat
  | .int64, .num n => intItem n
  | .tstr, .str b => .tstr (shortest b.length) b
  | .bstr, .str b => .bstr (shortest b.length) b
  | .bool, .bool b => .simple (if b then 21 else 20)
  | .arr k, .list vs => .arr (shortest vs.length) (toItems k vs)
  | .struct fs, .record ms => .map (shortest ms.length) (toPairs fs ms)
  | _, _ => .simple 22            -- ill-typed value (excluded by `Conforms`)
def toItems : Kind → List Val → List Item
  | _, [] => []
  | k, v :: vs => toItem k v :: toItems k vs
def toPairs : List Field → List (Int × Val) → List Item
  | _, [] => []
  | fs, (key, v) :: ms =>
    match fs.find? (fun f => f.key == key) with
    | some f => intItem key :: toItem f.kind v :: toPairs fs ms
    | none => intItem key :: .simple 22 :: toPairs fs ms
end

/-- bytes a struct writer emits for a value -/
def writeBytes (k : Kind) (v : Val) : Bytes := (toItem k v).enc

/-! ### reader -/

def setKey (acc : List (Int × Val)) (k : Int) (v : Val) : List (Int × Val) :=
  if acc.any (·.1 == k) then acc.map (fun e => if e.1 == k then (k, v) else e) else acc ++ [(k, v)]

/-- the members of a struct in declaration order: a C++ struct has one slot per member, so the
    order in which the members arrived in the file is not part of what was read -/
def canon (fs : List Field) (ms : List (Int × Val)) : List (Int × Val) :=
  fs.filterMap fun f => ms.find? (·.1 == f.key)

mutual
/-- `read_<kind>()` -/
def readVal : Nat → Kind → Prog Val
  | 0, _ => .throw .decoder
  | fuel+1, .uint bits => do let n ← readUnsigned; pure (.num ((n % 2 ^ bits : Nat) : Int))
  | fuel+1, .int64 => do let n ← readInteger; pure (.num n)
  | fuel+1, .tstr => do let b ← readTextstring fuel; pure (.str b)
  | fuel+1, .bstr => do let b ← readBytestring fuel; pure (.str b)
  | fuel+1, .bool => do let b ← readBool; pure (.bool b)
  | fuel+1, .arr k => do
    let (len, indef) ← readArrayStart
    let vs ← readElems fuel k len indef []
    pure (.list vs)
  | fuel+1, .struct fs => do
    let (len, indef) ← readMapStart
    let ms ← readFields fuel fs len indef []
    if fs.all (fun f => !f.required || ms.any (·.1 == f.key)) then pure (.record (canon fs ms)) else .throw .decoder
/-- the loop of `CdnsDecoder::read_array` -/
def readElems : Nat → Kind → Nat → Bool → List Val → Prog (List Val)
  | 0, _, _, _, _ => .throw .decoder
  | fuel+1, k, len, indef, acc =>
    if len = 0 ∧ indef = false then pure acc
    else if indef then do
      let t ← peekType
      if t = tBreak then do readBreak; pure acc
      else do
        let v ← readVal fuel k
        readElems fuel k (len - 1) indef (acc ++ [v])
    else do
      let v ← readVal fuel k
      readElems fuel k (len - 1) indef (acc ++ [v])
/-- the member loop of a struct reader -/
def readFields : Nat → List Field → Nat → Bool → List (Int × Val) → Prog (List (Int × Val))
  | 0, _, _, _, _ => .throw .decoder
  | fuel+1, fs, len, indef, acc =>
    if len = 0 ∧ indef = false then pure acc
    else
      let body : Prog (List (Int × Val)) := do
        let key ← readInteger
        match fs.find? (fun f => f.key == key) with
        | some f => do
          let v ← readVal fuel f.kind
          readFields fuel fs (len - 1) indef (setKey acc key v)
        | none => do
          skipItem (3 * fuel + 2)
          readFields fuel fs (len - 1) indef acc
      if indef then do
        let t ← peekType
        if t = tBreak then do readBreak; pure acc else body
      else body
end

/-! ### what an encoding denotes under a schema (RFC 8949 data model, independent of the byte syntax)

  `denote k i` is the value the item `i` stands for when read as kind `k`: head widths, definite vs
  indefinite length and chunking play no role, map members are looked up by key (any order), members
  with keys the schema does not know are ignored whatever their value is.  `Props.C08.read_denotes`
  proves that the byte-level reader computes exactly this function on every well-formed encoding. -/

/-- the integer a key/integer item stands for in the API's `int64_t` (saturating outside it) -/
def intOf : Item → Option Int
  | .uint _ n => some (if n > int64Max then (int64Max : Int) else (n : Int))
  | .nint _ n => some (if n > int64Max then -(int64Max : Int) - 1 else -1 - (n : Int))
  | _ => none

mutual
def denote : Kind → Item → Option Val
  | .uint bits, .uint _ n => some (.num ((n % 2 ^ bits : Nat) : Int))
  | .int64, .uint w n => (intOf (.uint w n)).map .num
  | .int64, .nint w n => (intOf (.nint w n)).map .num
  | .tstr, .tstr _ b => some (.str b)
  | .tstr, .tstrI cs => some (.str (chunksVal cs))
  | .bstr, .bstr _ b => some (.str b)
  | .bstr, .bstrI cs => some (.str (chunksVal cs))
  | .bool, .simple n => if n = 20 then some (.bool false) else if n = 21 then some (.bool true) else none
  | .arr k, .arr _ items => (denoteList k items).map .list
  | .arr k, .arrI items => (denoteList k items).map .list
  | .struct fs, .map _ items =>
    match denotePairs fs items [] with
    | some ms => if fs.all (fun f => !f.required || ms.any (·.1 == f.key)) then some (.record (canon fs ms)) else none
    | none => none
  | .struct fs, .mapI items =>
    match denotePairs fs items [] with
    | some ms => if fs.all (fun f => !f.required || ms.any (·.1 == f.key)) then some (.record (canon fs ms)) else none
    | none => none
  | _, _ => none
def denoteList : Kind → List Item → Option (List Val)
  | _, [] => some []
  | k, i :: is =>
    match denote k i, denoteList k is with
    | some v, some vs => some (v :: vs)
    | _, _ => none
def denotePairs : List Field → List Item → List (Int × Val) → Option (List (Int × Val))
  | _, [], acc => some acc
  | _, [_], _ => none
  | fs, kI :: vI :: rest, acc =>
    match intOf kI with
    | none => none
    | some key =>
      match fs.find? (fun f => f.key == key) with
      | some f =>
        match denote f.kind vI with
        | some v => denotePairs fs rest (setKey acc key v)
        | none => none
      | none => denotePairs fs rest acc
end

/-! ### executable check that a value is one the struct can hold (`Proofs.ConformsB`: sound for `Conforms`) -/

mutual
def conformsB : Kind → Val → Bool
  | .uint bits, .num n => decide (0 ≤ n) && decide (n < 2 ^ bits) && decide (bits ≤ 64)
  | .int64, .num n => decide (-(2 ^ 63 : Int) ≤ n) && decide (n < 2 ^ 63)
  | .tstr, .str b => decide (b.length < 2 ^ 64) && b.all (fun x => decide (x < 256))
  | .bstr, .str b => decide (b.length < 2 ^ 64) && b.all (fun x => decide (x < 256))
  | .bool, .bool _ => true
  | .arr k, .list vs => decide (vs.length < 2 ^ 64) && conformsListB k vs
  | .struct fs, .record ms =>
    decide (ms.length < 2 ^ 64) && conformsPairsB fs ms && decide ((ms.map (·.1)).Nodup) &&
    (fs.all fun f => !f.required || ms.any (·.1 == f.key)) &&
    decide ((fs.map (·.key)).Nodup) && decide ((ms.map (·.1)).Sublist (fs.map (·.key)))
  | _, _ => false
def conformsListB : Kind → List Val → Bool
  | _, [] => true
  | k, v :: vs => conformsB k v && conformsListB k vs
def conformsPairsB : List Field → List (Int × Val) → Bool
  | _, [] => true
  | fs, (key, v) :: ms =>
    decide (-(2 ^ 63 : Int) ≤ key) && decide (key < 2 ^ 63) &&
    (match fs.find? (fun f => f.key == key) with
      | some f => conformsB f.kind v
      | none => false) && conformsPairsB fs ms
end

end CdnsVerif.Model.Schema
