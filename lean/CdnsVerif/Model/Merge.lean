/-
  Executable model of `cdns-merge` (src/bin/cdns_merge.cpp) at the level C18 speaks about:
  which inputs are accepted, which blocks end up in the output in which order, and which
  block-parameters index each merged block carries.  Parameter sets and block contents are
  abstract identifiers (the library copies them unchanged: that is C01/C09).

  `fs name` is what opening `name` as C-DNS gives: `none` = not readable as C-DNS at all;
  otherwise its version triple, its parameter sets, and its blocks – each with its
  parameters index, a content id, whether it holds any item, and whether reading it fails
  (`bad`: the file becomes unreadable at that block).
-/
namespace CdnsVerif.Model.Merge

structure Blk where
  pi : Nat
  content : Nat
  nonEmpty : Bool
  bad : Bool
  deriving Repr, DecidableEq

structure File where
  ver : Nat × Nat × Option Nat
  params : List Nat
  blocks : List Blk
  deriving Repr

abbrev Fs := String → Option File

structure Pass1 where
  first : Bool                         -- no input accepted yet
  ver : Nat × Nat × Option Nat
  params : List Nat                    -- output preamble's parameter sets
  map : List (String × Nat)            -- block_indexes: input name ↦ offset of its sets in `params`
  deriving Repr

def Pass1.init : Pass1 := { first := true, ver := (0, 0, none), params := [], map := [] }

def setMap (m : List (String × Nat)) (n : String) (off : Nat) : List (String × Nat) :=
  (n, off) :: m.filter (·.1 != n)

/-- first pass over one input -/
def pass1Step (fs : Fs) (st : Pass1) (name : String) : Pass1 :=
  match fs name with
  | none => st
  | some f =>
    if st.first then { first := false, ver := f.ver, params := f.params, map := setMap st.map name 0 }
    else if f.ver ≠ st.ver then st
    else { st with params := st.params ++ f.params, map := setMap st.map name st.params.length }

def pass1 (fs : Fs) (names : List String) : Pass1 := names.foldl (pass1Step fs) Pass1.init

/-- blocks of a file that are read before it becomes unreadable -/
def readable : List Blk → List Blk
  | [] => []
  | b :: bs => if b.bad then [] else b :: readable bs

structure OutBlk where
  pi : Nat
  content : Nat
  src : String
  deriving Repr, DecidableEq

/-- second pass over one input: only inputs that got an entry in pass 1 -/
def pass2Step (fs : Fs) (st : Pass1) (name : String) : List OutBlk :=
  match st.map.find? (·.1 == name), fs name with
  | some (_, off), some f => ((readable f.blocks).filter (·.nonEmpty)).map fun b => ⟨off + b.pi, b.content, name⟩
  | _, _ => []

structure Merged where
  ver : Nat × Nat × Option Nat
  params : List Nat
  blocks : List OutBlk
  deriving Repr

def merge (fs : Fs) (names : List String) : Merged :=
  let st := pass1 fs names
  { ver := st.ver, params := st.params, blocks := names.flatMap (pass2Step fs st) }

end CdnsVerif.Model.Merge
