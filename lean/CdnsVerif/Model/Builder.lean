/-
  Executable model of the block-building path of `CdnsBlock` (src/block.{h,cpp}): from generic
  records to the stored block –

    add_question_response_record(GenericQueryResponse)   (hint guards, table entries, earliest time)
    add_address_event_count(GenericAddressEventCount)
    add_malformed_message(GenericMalformedMessage)
    add_generic_qlist / add_generic_rrlist, the nine `add_*` table functions (find-or-append)

  and its serialisation as a raw block value of the schema `Model.Structs.block` (`toVal`; time
  offsets through `Model.Timestamp.getTimeOffset`).  Statements are kept in the order of the C++,
  because the order of the `add_*` calls decides the table indexes.  The hash-map of address event
  counts is modelled by insertion order (the C++ iteration order is unspecified; comparisons with
  the implementation are up to the order of that one array).
-/
import CdnsVerif.Model.Timestamp
import CdnsVerif.Model.Structs
namespace CdnsVerif.Model.Builder
open CdnsVerif.Spec.Cbor CdnsVerif.Model.Timestamp CdnsVerif.Generated CdnsVerif.Model.Schema

/-- storage hints in force + ticks per second -/
structure Hints where
  qrh : Nat
  sigh : Nat
  rrh : Nat
  odh : Nat
  tps : Nat
  deriving Repr, DecidableEq

/-- `hints & Mask::bit` -/
def on (h : Nat) (mask : Int) : Bool := (h &&& mask.toNat) != 0

/-! ### generic (application-side) records -/

structure GRR where
  name : Bytes
  type : Nat
  cls : Nat
  ttl : Option Nat
  rdata : Option Bytes
  deriving Repr, DecidableEq, Inhabited

@[ext] structure GQR where
  ts : Option Ts := none
  clientIp : Option Bytes := none
  clientPort : Option Nat := none
  transactionId : Option Nat := none
  serverIp : Option Bytes := none
  serverPort : Option Nat := none
  transportFlags : Option Nat := none
  qrType : Option Nat := none
  sigFlags : Option Nat := none
  opcode : Option Nat := none
  dnsFlags : Option Nat := none
  queryRcode : Option Nat := none
  classtype : Option (Nat × Nat) := none
  qdcount : Option Nat := none
  ancount : Option Nat := none
  nscount : Option Nat := none
  arcount : Option Nat := none
  ednsVersion : Option Nat := none
  udpSize : Option Nat := none
  optRdata : Option Bytes := none
  responseRcode : Option Nat := none
  hoplimit : Option Nat := none
  responseDelay : Option Int := none
  queryName : Option Bytes := none
  querySize : Option Nat := none
  responseSize : Option Nat := none
  bailiwick : Option Bytes := none
  processingFlags : Option Nat := none
  queryQuestions : Option (List GRR) := none
  queryAnswers : Option (List GRR) := none
  queryAuthority : Option (List GRR) := none
  queryAdditional : Option (List GRR) := none
  responseQuestions : Option (List GRR) := none
  responseAnswers : Option (List GRR) := none
  responseAuthority : Option (List GRR) := none
  responseAdditional : Option (List GRR) := none
  asn : Option Bytes := none
  countryCode : Option Bytes := none
  roundTripTime : Option Int := none
  deriving Repr, Inhabited, BEq

structure GAEC where
  aeType : Nat
  aeCode : Option Nat
  transportFlags : Option Nat
  ip : Bytes
  deriving Repr, Inhabited, DecidableEq

@[ext] structure GMM where
  ts : Option Ts := none
  clientIp : Option Bytes := none
  clientPort : Option Nat := none
  serverIp : Option Bytes := none
  serverPort : Option Nat := none
  transportFlags : Option Nat := none
  payload : Option Bytes := none
  deriving Repr, Inhabited

abbrev Stats := List (Option Nat)      -- the six members of BlockStatistics

/-! ### stored structures -/

structure Sig where
  sai : Option Nat := none
  port : Option Nat := none
  tf : Option Nat := none
  qt : Option Nat := none
  sf : Option Nat := none
  op : Option Nat := none
  df : Option Nat := none
  qrc : Option Nat := none
  cti : Option Nat := none
  qd : Option Nat := none
  an : Option Nat := none
  ns : Option Nat := none
  ar : Option Nat := none
  ev : Option Nat := none
  us : Option Nat := none
  ordi : Option Nat := none
  rrc : Option Nat := none
  deriving Repr, DecidableEq, Inhabited

structure RRe where
  name : Nat
  ct : Nat
  ttl : Option Nat
  rdata : Option Nat
  deriving Repr, DecidableEq, Inhabited

structure MMD where
  sai : Option Nat := none
  port : Option Nat := none
  tf : Option Nat := none
  payload : Option Bytes := none
  deriving Repr, DecidableEq, Inhabited

structure RPD where
  bw : Option Nat := none
  flags : Option Nat := none
  deriving Repr, DecidableEq, Inhabited

structure QRE where
  q : Option Nat := none
  an : Option Nat := none
  au : Option Nat := none
  ad : Option Nat := none
  deriving Repr, DecidableEq, Inhabited

structure QRec where
  ts : Option Ts := none
  cai : Option Nat := none
  cport : Option Nat := none
  tid : Option Nat := none
  sig : Option Nat := none
  hl : Option Nat := none
  rd : Option Int := none
  qn : Option Nat := none
  qs : Option Nat := none
  rs : Option Nat := none
  rpd : Option RPD := none
  qx : Option QRE := none
  rx : Option QRE := none
  asn : Option Bytes := none
  cc : Option Bytes := none
  rtt : Option Int := none
  deriving Repr, DecidableEq, Inhabited

structure AEC where
  aeType : Nat
  aeCode : Option Nat
  ai : Nat
  tf : Option Nat
  deriving Repr, DecidableEq, Inhabited

structure MMRec where
  ts : Option Ts := none
  cai : Option Nat := none
  cport : Option Nat := none
  mdi : Option Nat := none
  deriving Repr, DecidableEq, Inhabited

structure Blk where
  ip : List Bytes := []
  ct : List (Nat × Nat) := []
  nr : List Bytes := []
  sig : List Sig := []
  qlist : List (List Nat) := []
  qrr : List (Nat × Nat) := []
  rrlist : List (List Nat) := []
  rr : List RRe := []
  mmd : List MMD := []
  qrs : List QRec := []
  aecs : List (AEC × Nat) := []
  mms : List MMRec := []
  earliest : Ts := ⟨0, 0⟩
  stats : Option Stats := none
  deriving Repr, Inhabited

/-! ### block tables: find-or-append (`BlockTable::add`, `find` + `add_value`) -/

def addDedup [DecidableEq α] (t : List α) (x : α) : List α × Nat :=
  if t.idxOf x < t.length then (t, t.idxOf x) else (t ++ [x], t.length)

def addIp (b : Blk) (x : Bytes) : Blk × Nat := let r := addDedup b.ip x; ({ b with ip := r.1 }, r.2)
def addCt (b : Blk) (x : Nat × Nat) : Blk × Nat := let r := addDedup b.ct x; ({ b with ct := r.1 }, r.2)
def addNr (b : Blk) (x : Bytes) : Blk × Nat := let r := addDedup b.nr x; ({ b with nr := r.1 }, r.2)
def addSig (b : Blk) (x : Sig) : Blk × Nat := let r := addDedup b.sig x; ({ b with sig := r.1 }, r.2)
def addQl (b : Blk) (x : List Nat) : Blk × Nat := let r := addDedup b.qlist x; ({ b with qlist := r.1 }, r.2)
def addQrr (b : Blk) (x : Nat × Nat) : Blk × Nat := let r := addDedup b.qrr x; ({ b with qrr := r.1 }, r.2)
def addRl (b : Blk) (x : List Nat) : Blk × Nat := let r := addDedup b.rrlist x; ({ b with rrlist := r.1 }, r.2)
def addRr (b : Blk) (x : RRe) : Blk × Nat := let r := addDedup b.rr x; ({ b with rr := r.1 }, r.2)
def addMmd (b : Blk) (x : MMD) : Blk × Nat := let r := addDedup b.mmd x; ({ b with mmd := r.1 }, r.2)

/-- `if (cond && opt) member = add_x(*opt)` for a table-valued member -/
def addOpt (cond : Bool) (o : Option α) (add : Blk → α → Blk × Nat) (b : Blk) : Blk × Option Nat :=
  match cond, o with
  | true, some x => let r := add b x; (r.1, some r.2)
  | _, _ => (b, none)

/-- `if (cond && opt) member = *opt` for a plain member -/
def keep (cond : Bool) (o : Option α) : Option α := if cond then o else none

/-- one iteration of `add_generic_qlist` -/
def qlStep (acc : Blk × List Nat) (grr : GRR) : Blk × List Nat :=
  let r1 := addNr acc.1 grr.name
  let r2 := addCt r1.1 (grr.type, grr.cls)
  let r3 := addQrr r2.1 (r1.2, r2.2)
  (r3.1, acc.2 ++ [r3.2])

/-- `add_generic_qlist` -/
def addGenericQlist (b : Blk) (g : List GRR) : Blk × Nat :=
  let r := g.foldl qlStep (b, [])
  addQl r.1 r.2

/-- one iteration of `add_generic_rrlist` -/
def rrStep (h : Hints) (acc : Blk × List Nat) (grr : GRR) : Blk × List Nat :=
  let r1 := addNr acc.1 grr.name
  let r2 := addCt r1.1 (grr.type, grr.cls)
  let ttl := keep (on h.rrh RrHintsMask.ttl) grr.ttl
  let r3 := addOpt (on h.rrh RrHintsMask.rdata_index) grr.rdata addNr r2.1
  let r4 := addRr r3.1 { name := r1.2, ct := r2.2, ttl := ttl, rdata := r3.2 }
  (r4.1, acc.2 ++ [r4.2])

/-- `add_generic_rrlist` -/
def addGenericRrlist (h : Hints) (b : Blk) (g : List GRR) : Blk × Nat :=
  let r := g.foldl (rrStep h) (b, [])
  addRl r.1 r.2

/-- a section list is stored when its hint is on, it is present and not empty -/
def addSection (cond : Bool) (o : Option (List GRR)) (add : Blk → List GRR → Blk × Nat) (b : Blk) : Blk × Option Nat :=
  match cond, o with
  | true, some (x :: xs) => let r := add b (x :: xs); (r.1, some r.2)
  | _, _ => (b, none)

/-- first record of the block, or earlier than the earliest so far -/
def updEarliest (b : Blk) (ts : Option Ts) : Ts :=
  match ts with
  | some t => if (b.qrs.isEmpty && b.mms.isEmpty) || lt t b.earliest then t else b.earliest
  | none => b.earliest

def setStats (b : Blk) (st : Option Stats) : Blk := match st with | some s => { b with stats := some s } | none => b

def Sig.filled (s : Sig) : Bool :=
  s.sai.isSome || s.port.isSome || s.tf.isSome || s.qt.isSome || s.sf.isSome || s.op.isSome || s.df.isSome || s.qrc.isSome ||
  s.cti.isSome || s.qd.isSome || s.an.isSome || s.ns.isSome || s.ar.isSome || s.ev.isSome || s.us.isSome || s.ordi.isSome || s.rrc.isSome

def QRE.filled (e : QRE) : Bool := e.q.isSome || e.an.isSome || e.au.isSome || e.ad.isSome

def QRec.filled (q : QRec) : Bool :=
  q.ts.isSome || q.cai.isSome || q.cport.isSome || q.tid.isSome || q.sig.isSome || q.hl.isSome || q.rd.isSome || q.qn.isSome ||
  q.qs.isSome || q.rs.isSome || q.rpd.isSome || q.qx.isSome || q.rx.isSome || q.asn.isSome || q.cc.isSome || q.rtt.isSome

/-- the `QueryResponseSignature` filled from a generic record (the three table-valued members are passed in) -/
def mkSig (h : Hints) (g : GQR) (sai cti ordi : Option Nat) : Sig := {
  sai := sai
  port := keep (on h.sigh QueryResponseSignatureHintsMask.server_port) g.serverPort
  tf := keep (on h.sigh QueryResponseSignatureHintsMask.qr_transport_flags) g.transportFlags
  qt := keep (on h.sigh QueryResponseSignatureHintsMask.qr_type) g.qrType
  sf := keep (on h.sigh QueryResponseSignatureHintsMask.qr_sig_flags) g.sigFlags
  op := keep (on h.sigh QueryResponseSignatureHintsMask.query_opcode) g.opcode
  df := keep (on h.sigh QueryResponseSignatureHintsMask.qr_dns_flags) g.dnsFlags
  qrc := keep (on h.sigh QueryResponseSignatureHintsMask.query_rcode) g.queryRcode
  cti := cti
  qd := keep (on h.sigh QueryResponseSignatureHintsMask.query_qdcount) g.qdcount
  an := keep (on h.sigh QueryResponseSignatureHintsMask.query_ancount) g.ancount
  ns := keep (on h.sigh QueryResponseSignatureHintsMask.query_nscount) g.nscount
  ar := keep (on h.sigh QueryResponseSignatureHintsMask.query_arcount) g.arcount
  ev := keep (on h.sigh QueryResponseSignatureHintsMask.query_edns_version) g.ednsVersion
  us := keep (on h.sigh QueryResponseSignatureHintsMask.query_udp_size) g.udpSize
  ordi := ordi
  rrc := keep (on h.sigh QueryResponseSignatureHintsMask.response_rcode) g.responseRcode }

/-- the signature part of `add_question_response_record` -/
def buildSig (h : Hints) (g : GQR) (b : Blk) : Blk × Option Nat :=
  if !on h.qrh QueryResponseHintsMask.qr_signature_index then (b, none)
  else
    let r1 := addOpt (on h.sigh QueryResponseSignatureHintsMask.server_address_index) g.serverIp addIp b
    let r2 := addOpt (on h.sigh QueryResponseSignatureHintsMask.query_classtype_index) g.classtype addCt r1.1
    let r3 := addOpt (on h.sigh QueryResponseSignatureHintsMask.query_opt_rdata_index) g.optRdata addNr r2.1
    let s := mkSig h g r1.2 r2.2 r3.2
    if s.filled then let r := addSig r3.1 s; (r.1, some r.2) else (r3.1, none)

/-- the body of `add_question_response_record(const GenericQueryResponse&, …)`: the table entries it adds and the
    `QueryResponse` it fills -/
def buildQ (h : Hints) (g : GQR) (b0 : Blk) : Blk × QRec :=
  let ts := keep (on h.qrh QueryResponseHintsMask.time_offset) g.ts
  let r1 := addOpt (on h.qrh QueryResponseHintsMask.client_address_index) g.clientIp addIp b0
  let r2 := buildSig h g r1.1
  let r3 := addOpt (on h.qrh QueryResponseHintsMask.query_name_index) g.queryName addNr r2.1
  -- response processing data
  let rpdOn := on h.qrh QueryResponseHintsMask.response_processing_data
  let r4 := addOpt rpdOn g.bailiwick addNr r3.1
  let rpd : RPD := { bw := r4.2, flags := keep rpdOn g.processingFlags }
  -- query extended
  let q1 := addSection (on h.qrh QueryResponseHintsMask.query_question_sections) g.queryQuestions addGenericQlist r4.1
  let q2 := addSection (on h.qrh QueryResponseHintsMask.query_answer_sections) g.queryAnswers (addGenericRrlist h) q1.1
  let q3 := addSection (on h.qrh QueryResponseHintsMask.query_authority_sections) g.queryAuthority (addGenericRrlist h) q2.1
  let q4 := addSection (on h.qrh QueryResponseHintsMask.query_additional_sections) g.queryAdditional (addGenericRrlist h) q3.1
  let qe : QRE := { q := q1.2, an := q2.2, au := q3.2, ad := q4.2 }
  -- response extended (the question list shares the query-question-sections hint)
  let e1 := addSection (on h.qrh QueryResponseHintsMask.query_question_sections) g.responseQuestions addGenericQlist q4.1
  let e2 := addSection (on h.qrh QueryResponseHintsMask.response_answer_sections) g.responseAnswers (addGenericRrlist h) e1.1
  let e3 := addSection (on h.qrh QueryResponseHintsMask.response_authority_sections) g.responseAuthority (addGenericRrlist h) e2.1
  let e4 := addSection (on h.qrh QueryResponseHintsMask.response_additional_sections) g.responseAdditional (addGenericRrlist h) e3.1
  let re : QRE := { q := e1.2, an := e2.2, au := e3.2, ad := e4.2 }
  let q : QRec := {
    ts := ts
    cai := r1.2
    cport := keep (on h.qrh QueryResponseHintsMask.client_port) g.clientPort
    tid := keep (on h.qrh QueryResponseHintsMask.transaction_id) g.transactionId
    sig := r2.2
    hl := keep (on h.qrh QueryResponseHintsMask.client_hoplimit) g.hoplimit
    rd := keep (on h.qrh QueryResponseHintsMask.response_delay) g.responseDelay
    qn := r3.2
    qs := keep (on h.qrh QueryResponseHintsMask.query_size) g.querySize
    rs := keep (on h.qrh QueryResponseHintsMask.response_size) g.responseSize
    rpd := if rpd.bw.isSome || rpd.flags.isSome then some rpd else none
    qx := if qe.filled then some qe else none
    rx := if re.filled then some re else none
    asn := g.asn
    cc := g.countryCode
    rtt := g.roundTripTime }
  (e4.1, q)

/-- `CdnsBlock::add_question_response_record(const GenericQueryResponse&, stats)` (without the `full()` result) -/
def addQR (h : Hints) (g : GQR) (st : Option Stats) (b : Blk) : Blk :=
  let r := buildQ h g { b with earliest := updEarliest b g.ts }
  let b2 := if r.2.filled then { r.1 with qrs := r.1.qrs ++ [r.2] } else r.1
  setStats b2 st

/-- `CdnsBlock::add_address_event_count(const GenericAddressEventCount&, stats)` -/
def addAEC (h : Hints) (g : GAEC) (st : Option Stats) (b : Blk) : Blk :=
  let b0 := setStats b st
  if !on h.odh OtherDataHintsMask.address_event_counts then b0
  else
    let r := addIp b0 g.ip
    let a : AEC := { aeType := g.aeType, aeCode := g.aeCode, ai := r.2, tf := g.transportFlags }
    let b1 := r.1
    if b1.aecs.any (·.1 == a) then { b1 with aecs := b1.aecs.map fun e => if e.1 == a then (e.1, e.2 + 1) else e }
    else { b1 with aecs := b1.aecs ++ [(a, 1)] }

/-- `CdnsBlock::add_malformed_message(const GenericMalformedMessage&, stats)` -/
def addMM (h : Hints) (g : GMM) (st : Option Stats) (b : Blk) : Blk :=
  let b0 := setStats b st
  if !on h.odh OtherDataHintsMask.malformed_messages then b0
  else
    let b1 := { b0 with earliest := updEarliest b0 g.ts }
    let r1 := addOpt true g.clientIp addIp b1
    let r2 := addOpt true g.serverIp addIp r1.1
    let d : MMD := { sai := r2.2, port := g.serverPort, tf := g.transportFlags, payload := g.payload }
    let dFilled := d.sai.isSome || d.port.isSome || d.tf.isSome || d.payload.isSome
    let r3 : Blk × Option Nat := if dFilled then (let r := addMmd r2.1 d; (r.1, some r.2)) else (r2.1, none)
    let m : MMRec := { ts := g.ts, cai := r1.2, cport := g.clientPort, mdi := r3.2 }
    if m.ts.isSome || m.cai.isSome || m.cport.isSome || m.mdi.isSome then { r3.1 with mms := r3.1.mms ++ [m] } else r3.1

/-- what an application buffers into a block -/
inductive Rec where
  | qr (g : GQR) (st : Option Stats)
  | aec (g : GAEC) (st : Option Stats)
  | mm (g : GMM) (st : Option Stats)
  deriving Repr, Inhabited

def addRec (h : Hints) (b : Blk) : Rec → Blk
  | .qr g st => addQR h g st b
  | .aec g st => addAEC h g st b
  | .mm g st => addMM h g st b

/-- the block built from a record sequence under fixed hints (a block's parameters do not change while it is filled) -/
def build (h : Hints) (recs : List Rec) : Blk := recs.foldl (addRec h) {}

/-! ### the stored block as a raw value of the schema `Structs.block` -/

def optN (k : Int) (o : Option Nat) : List (Int × Val) := match o with | some n => [(k, .num n)] | none => []
def optI (k : Int) (o : Option Int) : List (Int × Val) := match o with | some n => [(k, .num n)] | none => []
def optS (k : Int) (o : Option Bytes) : List (Int × Val) := match o with | some s => [(k, .str s)] | none => []
def optV (k : Int) (o : Option Val) : List (Int × Val) := match o with | some v => [(k, v)] | none => []
def nonEmpty (k : Int) (l : List Val) : List (Int × Val) := if l.isEmpty then [] else [(k, .list l)]

/-- `static_cast<uint64_t>(ts.get_time_offset(earliest, tps))`; a zero rate throws in the C++ (`none` here) -/
def offsetOf (ts earliest : Ts) (tps : Nat) : Option Nat :=
  match getTimeOffset ts earliest tps with
  | .ok off => some (ofI64 off)
  | .error _ => none

def Sig.toVal (s : Sig) : Val := .record (
  optN QueryResponseSignatureMapIndex.server_address_index s.sai ++ optN QueryResponseSignatureMapIndex.server_port s.port ++
  optN QueryResponseSignatureMapIndex.qr_transport_flags s.tf ++ optN QueryResponseSignatureMapIndex.qr_type s.qt ++
  optN QueryResponseSignatureMapIndex.qr_sig_flags s.sf ++ optN QueryResponseSignatureMapIndex.query_opcode s.op ++
  optN QueryResponseSignatureMapIndex.qr_dns_flags s.df ++ optN QueryResponseSignatureMapIndex.query_rcode s.qrc ++
  optN QueryResponseSignatureMapIndex.query_classtype_index s.cti ++ optN QueryResponseSignatureMapIndex.query_qdcount s.qd ++
  optN QueryResponseSignatureMapIndex.query_ancount s.an ++ optN QueryResponseSignatureMapIndex.query_nscount s.ns ++
  optN QueryResponseSignatureMapIndex.query_arcount s.ar ++ optN QueryResponseSignatureMapIndex.query_edns_version s.ev ++
  optN QueryResponseSignatureMapIndex.query_udp_size s.us ++ optN QueryResponseSignatureMapIndex.query_opt_rdata_index s.ordi ++
  optN QueryResponseSignatureMapIndex.response_rcode s.rrc)

def RRe.toVal (r : RRe) : Val := .record (
  [(RrMapIndex.name_index, .num r.name), (RrMapIndex.classtype_index, .num r.ct)] ++ optN RrMapIndex.ttl r.ttl ++ optN RrMapIndex.rdata_index r.rdata)

def MMD.toVal (d : MMD) : Val := .record (
  optN MalformedMessageDataMapIndex.server_address_index d.sai ++ optN MalformedMessageDataMapIndex.server_port d.port ++
  optN MalformedMessageDataMapIndex.mm_transport_flags d.tf ++ optS MalformedMessageDataMapIndex.mm_payload d.payload)

def QRE.toVal (e : QRE) : Val := .record (
  optN QueryResponseExtendedMapIndex.question_index e.q ++ optN QueryResponseExtendedMapIndex.answer_index e.an ++
  optN QueryResponseExtendedMapIndex.authority_index e.au ++ optN QueryResponseExtendedMapIndex.additional_index e.ad)

def RPD.toVal (r : RPD) : Val := .record (
  optN ResponseProcessingDataMapIndex.bailiwick_index r.bw ++ optN ResponseProcessingDataMapIndex.processing_flags r.flags)

def QRec.toVal (earliest : Ts) (tps : Nat) (q : QRec) : Val := .record (
  optN QueryResponseMapIndex.time_offset (q.ts.bind fun t => offsetOf t earliest tps) ++
  optN QueryResponseMapIndex.client_address_index q.cai ++ optN QueryResponseMapIndex.client_port q.cport ++
  optN QueryResponseMapIndex.transaction_id q.tid ++ optN QueryResponseMapIndex.qr_signature_index q.sig ++
  optN QueryResponseMapIndex.client_hoplimit q.hl ++ optI QueryResponseMapIndex.response_delay q.rd ++
  optN QueryResponseMapIndex.query_name_index q.qn ++ optN QueryResponseMapIndex.query_size q.qs ++
  optN QueryResponseMapIndex.response_size q.rs ++ optV QueryResponseMapIndex.response_processing_data (q.rpd.map RPD.toVal) ++
  optV QueryResponseMapIndex.query_extended (q.qx.map QRE.toVal) ++ optV QueryResponseMapIndex.response_extended (q.rx.map QRE.toVal) ++
  optS QueryResponseMapIndex.asn q.asn ++ optS QueryResponseMapIndex.country_code q.cc ++ optI QueryResponseMapIndex.round_trip_time q.rtt)

def AEC.toVal (a : AEC × Nat) : Val := .record (
  [(AddressEventCountMapIndex.ae_type, .num a.1.aeType)] ++ optN AddressEventCountMapIndex.ae_code a.1.aeCode ++
  [(AddressEventCountMapIndex.ae_address_index, .num a.1.ai)] ++ optN AddressEventCountMapIndex.ae_transport_flags a.1.tf ++
  [(AddressEventCountMapIndex.ae_count, .num a.2)])

def MMRec.toVal (earliest : Ts) (tps : Nat) (m : MMRec) : Val := .record (
  optN MalformedMessageMapIndex.time_offset (m.ts.bind fun t => offsetOf t earliest tps) ++
  optN MalformedMessageMapIndex.client_address_index m.cai ++ optN MalformedMessageMapIndex.client_port m.cport ++
  optN MalformedMessageMapIndex.message_data_index m.mdi)

def statsVal (s : Stats) : Val := .record (
  optN BlockStatisticsMapIndex.processed_messages (s.getD 0 none) ++ optN BlockStatisticsMapIndex.qr_data_items (s.getD 1 none) ++
  optN BlockStatisticsMapIndex.unmatched_queries (s.getD 2 none) ++ optN BlockStatisticsMapIndex.unmatched_responses (s.getD 3 none) ++
  optN BlockStatisticsMapIndex.discarded_opcode (s.getD 4 none) ++ optN BlockStatisticsMapIndex.malformed_items (s.getD 5 none))

def pairVal (k0 k1 : Int) (p : Nat × Nat) : Val := .record [(k0, .num p.1), (k1, .num p.2)]

def tablesVal (b : Blk) : List (Int × Val) :=
  nonEmpty BlockTablesMapIndex.ip_address (b.ip.map .str) ++
  nonEmpty BlockTablesMapIndex.classtype (b.ct.map (pairVal ClassTypeMapIndex.type ClassTypeMapIndex.class_)) ++
  nonEmpty BlockTablesMapIndex.name_rdata (b.nr.map .str) ++
  nonEmpty BlockTablesMapIndex.qr_sig (b.sig.map Sig.toVal) ++
  nonEmpty BlockTablesMapIndex.qlist (b.qlist.map fun l => .list (l.map fun (n : Nat) => .num (n : Int))) ++
  nonEmpty BlockTablesMapIndex.qrr (b.qrr.map (pairVal QuestionMapIndex.name_index QuestionMapIndex.classtype_index)) ++
  nonEmpty BlockTablesMapIndex.rrlist (b.rrlist.map fun l => .list (l.map fun (n : Nat) => .num (n : Int))) ++
  nonEmpty BlockTablesMapIndex.rr (b.rr.map RRe.toVal) ++
  nonEmpty BlockTablesMapIndex.malformed_message_data (b.mmd.map MMD.toVal)

/-- `CdnsBlock::write`: the block as a raw value (`pi` = block parameters index, written when present) -/
def toVal (b : Blk) (pi : Option Nat) (tps : Nat) : Val :=
  let tv := tablesVal b
  .record (
    [(BlockMapIndex.block_preamble, .record ([(BlockPreambleMapIndex.earliest_time, .list [.num b.earliest.secs, .num b.earliest.ticks])] ++
        optN BlockPreambleMapIndex.block_parameters_index pi))] ++
    optV BlockMapIndex.block_statistics (b.stats.map statsVal) ++
    (if tv.isEmpty then [] else [(BlockMapIndex.block_tables, .record tv)]) ++
    nonEmpty BlockMapIndex.query_responses (b.qrs.map (QRec.toVal b.earliest tps)) ++
    nonEmpty BlockMapIndex.address_event_counts (b.aecs.map AEC.toVal) ++
    nonEmpty BlockMapIndex.malformed_messages (b.mms.map (MMRec.toVal b.earliest tps)))

def itemCount (b : Blk) : Nat := b.qrs.length + b.aecs.length + b.mms.length

end CdnsVerif.Model.Builder
