/-
  Executable model of `CDNS::BlockTable<T>` / `KeyRef<T>` (src/block_table.h) with its storage
  made explicit, so that aliasing between tables (C19) can be expressed.

  A table owns a storage cell `self` in a heap (`std::deque<T> items_`); an index entry is a
  *reference* `(owner, pos)` to an element of some storage cell – what `KeyRef` is – mapped to
  an index.  `unordered_map::find(KeyRef(k))` compares `k` with the referenced elements: it
  dereferences the references, which is undefined when the cell is gone or shorter
  (`Outcome.dangling`).  Hashing: an entry can only be found if its hash equals the probe's;
  `hash` is a parameter and the theorems assume `HashOk` (equal keys hash equally), which
  `hashInput_congr` establishes for the nine key types from which members each hash reads.
-/
namespace CdnsVerif.Model.Table

structure Ref where
  owner : Nat
  pos : Nat
  deriving DecidableEq, Repr

/-- heap of element storages: cell id ↦ contents (none = destroyed) -/
abbrev Heap (α : Type) := Nat → Option (List α)

structure Table where
  self : Nat
  index : List (Ref × Nat)       -- unordered_map<KeyRef, index_t> (iteration order irrelevant: keys unique)
  deriving Repr

inductive Outcome (β : Type) where
  | ok (b : β)
  | dangling                      -- a KeyRef into freed / shrunk storage was dereferenced
  deriving Repr

/-- the table's hash function as the C++ computes it: over the object representation of the
    referenced element (`stored`, may depend on where the element lives) and of the probe key -/
structure Hash (α : Type) where
  stored : Ref → α → Nat
  probe : α → Nat

/-- equal keys hash equally, wherever they are stored -/
def HashOk (hash : Hash α) : Prop := ∀ r v, hash.stored r v = hash.probe v

def deref (h : Heap α) (r : Ref) : Option α := (h r.owner).bind (·[r.pos]?)

def items (h : Heap α) (t : Table) : List α := (h t.self).getD []

/-- `indexes_.find(KeyRef(k))`: scan the entries whose hash matches, compare by `==` -/
def findIn [DecidableEq α] (hash : Hash α) (h : Heap α) (k : α) : List (Ref × Nat) → Outcome (Option Nat)
  | [] => .ok none
  | (r, i) :: rest =>
    match deref h r with
    | none => .dangling
    | some v => if hash.stored r v = hash.probe k ∧ v = k then .ok (some i) else findIn hash h k rest

def find [DecidableEq α] (hash : Hash α) (h : Heap α) (t : Table) (k : α) : Outcome (Option Nat) :=
  findIn hash h k t.index

def setCell (h : Heap α) (c : Nat) (v : Option (List α)) : Heap α := fun x => if x = c then v else h x

/-- `indexes_[KeyRef(items_.back())] = res` : update the entry of an equal key, else insert -/
def upsert [DecidableEq α] (hash : Hash α) (h : Heap α) (k : α) (r : Ref) (i : Nat) :
    List (Ref × Nat) → Outcome (List (Ref × Nat))
  | [] => .ok [(r, i)]
  | (r', i') :: rest =>
    match deref h r' with
    | none => .dangling
    | some v =>
      if hash.stored r' v = hash.probe k ∧ v = k then .ok ((r', i) :: rest)
      else match upsert hash h k r i rest with
        | .ok rest' => .ok ((r', i') :: rest')
        | .dangling => .dangling

/-- `add_value(val)`: push_back + record_last_key -/
def addValue [DecidableEq α] (hash : Hash α) (h : Heap α) (t : Table) (v : α) : Outcome (Heap α × Table × Nat) :=
  let its := items h t
  let h' := setCell h t.self (some (its ++ [v]))
  match upsert hash h' v ⟨t.self, its.length⟩ its.length t.index with
  | .ok idx => .ok (h', { t with index := idx }, its.length)
  | .dangling => .dangling

/-- `add(val)`: find, else add_value -/
def add [DecidableEq α] (hash : Hash α) (h : Heap α) (t : Table) (v : α) : Outcome (Heap α × Table × Nat) :=
  match find hash h t v with
  | .dangling => .dangling
  | .ok (some i) => .ok (h, t, i)
  | .ok none => addValue hash h t v

/-- `clear()` -/
def clear (h : Heap α) (t : Table) : Heap α × Table := (setCell h t.self (some []), { t with index := [] })

/-- `operator[]`: none = "Block index out of range" thrown -/
def get (h : Heap α) (t : Table) (i : Nat) : Option α := (items h t)[i]?

/-- a fresh empty table in cell `c` -/
def fresh (h : Heap α) (c : Nat) : Heap α × Table := (setCell h c (some []), { self := c, index := [] })

/-- destruction of a table: its storage is released -/
def destroy (h : Heap α) (t : Table) : Heap α := setCell h t.self none

/-- the implicitly generated copy (what the pinned tree did): elements are copied into the new
    cell `c`, the index is copied verbatim – its references keep pointing into the source -/
def copyShallowIndex (h : Heap α) (src : Table) (c : Nat) : Heap α × Table :=
  (setCell h c (some (items h src)), { self := c, index := src.index })

/-- rebuild_indexes(): index every own element in order (a later equal element takes over the index) -/
def rebuild [DecidableEq α] (hash : Hash α) (h : Heap α) (t : Table) : Nat → List α → List (Ref × Nat) → Outcome (List (Ref × Nat))
  | _, [], acc => .ok acc
  | pos, v :: vs, acc =>
    match upsert hash h v ⟨t.self, pos⟩ pos acc with
    | .ok acc' => rebuild hash h t (pos + 1) vs acc'
    | .dangling => .dangling

/-- the repaired copy constructor / copy assignment: copy the items, rebuild the index -/
def copy [DecidableEq α] (hash : Hash α) (h : Heap α) (src : Table) (c : Nat) : Outcome (Heap α × Table) :=
  let its := items h src
  let h' := setCell h c (some its)
  match rebuild hash h' { self := c, index := [] } 0 its [] with
  | .ok idx => .ok (h', { self := c, index := idx })
  | .dangling => .dangling

end CdnsVerif.Model.Table
