/-
  Executable model of `CDNS::CdnsExporter` (src/cdns.h, src/cdns.cpp) together with the
  flush bookkeeping of `CdnsBlock` (`full()`, `clear()`, `get_*_count`, src/block.{h,cpp}).

  Records are abstract: a buffered query/response or malformed message is identified by a
  number and comes with the flag "something of it is stored under the hints in force"
  (the projection itself is the subject of C04); an address event is its key.  What the
  model tracks is what C10/C12/C13 are about: which block every record ends up in, when
  blocks are written, the parameters index and statistics each block carries, which output
  every block goes to, the values the calls return and the counters.

  Sizes are parameters: `hdr n` = bytes of the file header when the preamble holds `n`
  parameter sets, `bsz b` = bytes of a serialised block (positive), the closing break is 1.
-/
namespace CdnsVerif.Model.Exporter

structure Block where
  pi : Nat                       -- block parameters index
  stats : Option Nat             -- id of the statistics most recently supplied
  qrs : List Nat
  aecs : List (Nat × Nat)        -- (key, count), in first-seen order
  mms : List Nat
  deriving Repr, DecidableEq

def Block.items (b : Block) : Nat := b.qrs.length + b.aecs.length + b.mms.length

/-- per parameter set: max_block_items, address events enabled, malformed messages enabled -/
structure PSet where
  max : Nat
  aecOn : Bool
  mmOn : Bool
  deriving Repr

structure Output where
  blocks : List Block            -- blocks written to this output, in order
  params : Nat                   -- parameter sets in its preamble (valid once a block was written)
  bytes : Nat                    -- uncompressed bytes handed to the encoder for this output
  closed : Bool                  -- closed by rotation
  deriving Repr

structure ExpSt where
  psets : List PSet              -- m_file_preamble.m_block_parameters
  active : Nat                   -- m_active_block_parameters
  cur : Block                    -- m_block (cur.pi = its parameters index)
  blocksWritten : Nat            -- m_blocks_written
  done : List Output             -- outputs closed by rotation, oldest first
  out : Output                   -- current output
  deriving Repr

def pset (s : ExpSt) (i : Nat) : PSet := (s.psets[i]?).getD ⟨10000, true, true⟩

def emptyBlock (pi : Nat) : Block := ⟨pi, none, [], [], []⟩

def ExpSt.init (psets : List PSet) : ExpSt :=
  { psets := psets, active := 0, cur := emptyBlock 0, blocksWritten := 0, done := [],
    out := ⟨[], 0, 0, false⟩ }

/-- `CdnsBlock::full()` -/
def full (s : ExpSt) : Bool :=
  let m := (pset s s.cur.pi).max
  decide (s.cur.qrs.length ≥ m) || decide (s.cur.aecs.length ≥ m) || decide (s.cur.mms.length ≥ m)

/-- `CdnsExporter::write_block()`: write_block(m_block); m_block.clear(); set_block_parameters(active) -/
def writeBlock (hdr : Nat → Nat) (bsz : Block → Nat) (s : ExpSt) : ExpSt × Nat :=
  if s.cur.items = 0 then
    ({ s with cur := emptyBlock s.active }, 0)
  else
    let h := if s.blocksWritten = 0 then hdr s.psets.length else 0
    let w := h + bsz s.cur
    ({ s with cur := emptyBlock s.active, blocksWritten := s.blocksWritten + 1,
              out := { s.out with blocks := s.out.blocks ++ [s.cur],
                                  params := if s.blocksWritten = 0 then s.psets.length else s.out.params,
                                  bytes := s.out.bytes + w } }, w)

def bumpAec (k : Nat) : List (Nat × Nat) → List (Nat × Nat)
  | [] => [(k, 1)]
  | (k', n) :: rest => if k' = k then (k', n + 1) :: rest else (k', n) :: bumpAec k rest

inductive Op where
  | qr (id : Nat) (stored : Bool) (stats : Option Nat)
  | aec (key : Nat) (stats : Option Nat)
  | mm (id : Nat) (stored : Bool) (stats : Option Nat)
  | writeBlock
  | rotate (exportCur : Bool)
  | addParams (p : PSet)
  | setActive (i : Nat)
  deriving Repr

inductive Res where
  | bytes (n : Nat)
  | index (i : Nat)
  | flag (b : Bool)
  deriving Repr, DecidableEq

def setStats (b : Block) (st : Option Nat) : Block := match st with | some x => { b with stats := some x } | none => b

def flushIfFull (hdr : Nat → Nat) (bsz : Block → Nat) (s : ExpSt) : ExpSt × Nat :=
  if full s then writeBlock hdr bsz s else (s, 0)

def step (hdr : Nat → Nat) (bsz : Block → Nat) (s : ExpSt) : Op → ExpSt × Res
  | .qr id stored st =>
    let b := if stored then { s.cur with qrs := s.cur.qrs ++ [id] } else s.cur
    let (s', w) := flushIfFull hdr bsz { s with cur := setStats b st }
    (s', .bytes w)
  | .aec key st =>
    let s1 := { s with cur := setStats s.cur st }
    if !(pset s s.cur.pi).aecOn then (s1, .bytes 0)
    else
      let (s', w) := flushIfFull hdr bsz { s1 with cur := { s1.cur with aecs := bumpAec key s1.cur.aecs } }
      (s', .bytes w)
  | .mm id stored st =>
    let s1 := { s with cur := setStats s.cur st }
    if !(pset s s.cur.pi).mmOn then (s1, .bytes 0)
    else
      let b := if stored then { s1.cur with mms := s1.cur.mms ++ [id] } else s1.cur
      let (s', w) := flushIfFull hdr bsz { s1 with cur := b }
      (s', .bytes w)
  | .writeBlock =>
    let (s', w) := writeBlock hdr bsz s
    (s', .bytes w)
  | .rotate ex =>
    let (s1, w) := if ex then writeBlock hdr bsz s else (s, 0)
    let brk := if s1.blocksWritten > 0 then 1 else 0
    ({ s1 with done := s1.done ++ [{ s1.out with bytes := s1.out.bytes + brk, closed := true }],
               out := ⟨[], 0, 0, false⟩, blocksWritten := 0 }, .bytes (w + brk))
  | .addParams p => ({ s with psets := s.psets ++ [p] }, .index s.psets.length)
  | .setActive i => if i ≥ s.psets.length then (s, .flag false) else ({ s with active := i }, .flag true)

def run (hdr : Nat → Nat) (bsz : Block → Nat) (s : ExpSt) : List Op → ExpSt × List Res
  | [] => (s, [])
  | op :: ops =>
    let (s1, r) := step hdr bsz s op
    let (s2, rs) := run hdr bsz s1 ops
    (s2, r :: rs)

/-- the four counters: get_block_item_count, _qr_, _aec_, _mm_, get_blocks_written_count -/
def counters (s : ExpSt) : Nat × Nat × Nat × Nat × Nat :=
  (s.cur.items, s.cur.qrs.length, s.cur.aecs.length, s.cur.mms.length, s.blocksWritten)

/-- all outputs in rotation order (the current one last) -/
def outputs (s : ExpSt) : List Output := s.done ++ [s.out]

end CdnsVerif.Model.Exporter
