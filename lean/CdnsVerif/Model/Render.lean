/-
  Executable model of the index arithmetic of `get_readable_dname` (src/interface.cpp) and of
  the allocation requests the read side makes from length fields (`read_string`,
  `IndexListItem::read`).  Every access to the name is recorded (index, write?) so that the
  bounds theorem can speak about all of them.
-/
import CdnsVerif.Spec.Cbor
import CdnsVerif.Generated.Constants
namespace CdnsVerif.Model.Render
open CdnsVerif.Spec.Cbor

structure Access where
  idx : Nat
  write : Bool
  deriving Repr, DecidableEq

/-- `dname[pos]` for `pos ≤ size` (index `size` is the string's terminator, reads as 0) -/
def at_ (name : Bytes) (pos : Nat) : Nat := (name[pos]?).getD 0

/-- the `while (label_len != 0)` loop; returns the accesses made, or `none` when it gives up
    (`return wire_dname`) – `fuel` bounds the iterations (pos strictly increases) -/
def walk (name : Bytes) : Nat → Nat → Nat → Nat → List Access → List Access
  | 0, _, _, _, acc => acc
  | fuel+1, labelLen, pos, size, acc =>
    if labelLen = 0 then acc
    else
      let size' := size + labelLen
      if size' > name.length then acc
      else if pos > name.length then acc
      else
        let l := at_ name pos
        let acc1 := acc ++ [⟨pos, false⟩]
        let acc2 := if l ≠ 0 then acc1 ++ [⟨pos, true⟩] else acc1
        walk name fuel l (pos + l + 1) size' acc2

/-- all accesses of `get_readable_dname(name)` -/
def dnameAccesses (name : Bytes) : List Access :=
  if name = [] then []
  else
    let l := at_ name 0
    walk name (name.length + 2) l (l + 1) 0 [⟨0, false⟩]

/-- the reservation `read_string` / `IndexListItem::read` request for an announced length -/
def reserveFor (announced : Nat) : Nat :=
  if announced < Generated.decBufferSize then announced else Generated.decBufferSize

end CdnsVerif.Model.Render
