/-
  Executable model of `CDNS::CdnsDecoder` (src/cdns_decoder.{h,cpp}) as decoder programs.
  Each definition transliterates the C++ function of the same name (after the repairs
  recorded in known_findings.txt).  `m_p[0] & 0xE0` / `& 0x1F` are written `b / 32 * 32` /
  `b % 32` (equal for every byte value: `Proofs.Decoder.mask_eq`).  Unbounded loops take a
  fuel argument; `Props.C07` shows a fuel linear in the input always suffices.
-/
import CdnsVerif.Model.Prog
import CdnsVerif.Generated.Constants
namespace CdnsVerif.Model.Decoder
open CdnsVerif.Spec.Cbor CdnsVerif.Model

def tUnsigned : Nat := Generated.CborType.UNSIGNED.toNat
def tNegative : Nat := Generated.CborType.NEGATIVE.toNat
def tByteString : Nat := Generated.CborType.BYTE_STRING.toNat
def tTextString : Nat := Generated.CborType.TEXT_STRING.toNat
def tArray : Nat := Generated.CborType.ARRAY.toNat
def tMap : Nat := Generated.CborType.MAP.toNat
def tTag : Nat := Generated.CborType.TAG.toNat
def tSimple : Nat := Generated.CborType.SIMPLE.toNat
def tBreak : Nat := Generated.CborType.BREAK.toNat

def int64Max : Nat := 9223372036854775807

/-- `peek_type()` -/
def peekType : Prog Nat :=
  .peek fun b => pure (if b = tBreak then tBreak else b / 32 * 32)

/-- `read_cbor_type(cbor_type, additional)` -/
def readCborType : Prog (Nat × Nat) :=
  .next fun b => pure (b / 32 * 32, b % 32)

/-- the byte-assembly loop of `read_int`: `k` bytes, most significant first -/
def readBE : Nat → Prog Nat
  | 0 => pure 0
  | k+1 => .next fun b => do
    let r ← readBE k
    pure (b * 256 ^ k + r)

/-- `read_int(item_length)` -/
def readInt (ai : Nat) : Prog Nat :=
  if ai ≤ 23 then pure ai
  else if ai ≤ 27 then readBE (2 ^ (ai - 24))
  else pure 0

/-- `read_unsigned()` -/
def readUnsigned : Prog Nat := do
  let (t, ai) ← readCborType
  if t ≠ tUnsigned then .throw .decoder
  else if ai ≥ 28 then .throw .decoder
  else readInt ai

/-- `read_negative()`: values below INT64_MIN saturate -/
def readNegative : Prog Int := do
  let (t, ai) ← readCborType
  if t ≠ tNegative then .throw .decoder
  else if ai ≥ 28 then .throw .decoder
  else do
    let v ← readInt ai
    if v > int64Max then pure (-(int64Max : Int) - 1) else pure (-1 - (v : Int))

/-- `read_integer()`: values above INT64_MAX saturate -/
def readInteger : Prog Int := do
  let t ← peekType
  if t = tUnsigned then do
    let v ← readUnsigned
    if v > int64Max then pure (int64Max : Int) else pure (v : Int)
  else if t = tNegative then readNegative
  else .throw .decoder

/-- `read_bool()` (also accepts an unsigned integer) -/
def readBool : Prog Bool := do
  let (t, v) ← readCborType
  if t ≠ tSimple ∧ t ≠ tUnsigned then .throw .decoder
  else if t = tSimple ∧ (v ≠ 20 ∧ v ≠ 21) then .throw .decoder
  else if t = tUnsigned ∧ v ≥ 28 then .throw .decoder
  else if t = tSimple then pure (v == 21)
  else do
    let n ← readInt v
    pure (n != 0)

/-- `read_break()` -/
def readBreak : Prog Unit := do
  let (t, v) ← readCborType
  if t ≠ tSimple ∨ v ≠ 31 then .throw .decoder else pure ()

/-- the byte-copy loop of `read_string` (`ret.push_back(m_p[0]); m_p++` `n` times);
    `acc` holds the bytes pushed so far, most recent first -/
def readNAux : Nat → Bytes → Prog Bytes
  | 0, acc => pure acc.reverse
  | n+1, acc => .next fun b => readNAux n (b :: acc)

def readN (n : Nat) : Prog Bytes := readNAux n []

/-- the chunk loop of `read_string` (indefinite length) -/
def readChunks (major : Nat) : Nat → Prog Bytes
  | 0 => .throw .decoder
  | fuel+1 => do
    let t ← peekType
    if t = tBreak then pure []
    else do
      let (ct, cl) ← readCborType
      if ct ≠ major then .throw .decoder
      else if cl = 31 then .throw .decoder
      else do
        let n ← readInt cl
        let c ← readN n
        let r ← readChunks major fuel
        pure (c ++ r)

/-- `read_string(cbor_type, length, indef)` -/
def readString (major length : Nat) (indef : Bool) (fuel : Nat) : Prog Bytes :=
  if !indef then readN length
  else do
    let r ← readChunks major fuel
    readBreak
    pure r

/-- `read_bytestring()` / `read_textstring()` -/
def readStr (major : Nat) (fuel : Nat) : Prog Bytes := do
  let (t, ai) ← readCborType
  if t ≠ major then .throw .decoder
  else if 28 ≤ ai ∧ ai ≤ 30 then .throw .decoder
  else do
    let n ← readInt ai
    readString major n (ai == 31) fuel

def readBytestring (fuel : Nat) : Prog Bytes := readStr tByteString fuel
def readTextstring (fuel : Nat) : Prog Bytes := readStr tTextString fuel

/-- `read_array_start(indef)` / `read_map_start(indef)`: (length, indef) -/
def readStart (major : Nat) : Prog (Nat × Bool) := do
  let (t, ai) ← readCborType
  if t ≠ major then .throw .decoder
  else if 28 ≤ ai ∧ ai ≤ 30 then .throw .decoder
  else if ai = 31 then pure (0, true)
  else do
    let n ← readInt ai
    pure (n, false)

def readArrayStart : Prog (Nat × Bool) := readStart tArray
def readMapStart : Prog (Nat × Bool) := readStart tMap

/-- one open nesting level of `skip_item()` -/
structure Level where
  left : Nat
  indef : Bool
  map : Bool
  value : Bool
  deriving Repr, DecidableEq

def Level.one : Level := ⟨1, false, false, false⟩

/-- the part of one `skip_item` iteration after the level bookkeeping: read a head and
    consume / open levels; `k` continues the loop -/
def skipHead (fuel : Nat) (levels : List Level) (k : List Level → Prog Unit) : Prog Unit := do
  let (t, ai) ← readCborType
  if t = tUnsigned ∨ t = tNegative then
    if ai ≥ 28 then .throw .decoder else do let _ ← readInt ai; k levels
  else if t = tTag then
    if ai ≥ 28 then .throw .decoder else do let _ ← readInt ai; k (Level.one :: levels)
  else if t = tSimple then
    if 28 ≤ ai ∧ ai ≤ 30 then .throw .decoder else do let _ ← readInt ai; k levels
  else if t = tByteString ∨ t = tTextString then
    if 28 ≤ ai ∧ ai ≤ 30 then .throw .decoder else do
      let n ← readInt ai
      let _ ← readString t n (ai == 31) fuel
      k levels
  else if t = tArray ∨ t = tMap then
    if 28 ≤ ai ∧ ai ≤ 30 then .throw .decoder
    else if ai = 31 then k (⟨0, true, t == tMap, false⟩ :: levels)
    else do
      let n ← readInt ai
      if t = tMap then k (⟨n, false, false, false⟩ :: ⟨n, false, false, false⟩ :: levels)
      else k (⟨n, false, false, false⟩ :: levels)
  else .throw .decoder

/-- the level on top of the stack after one more item was taken from it -/
def Level.after (top : Level) : Level :=
  if top.indef then { top with value := !top.value } else { top with left := top.left - 1 }

/-- the `while (!levels.empty())` loop of `skip_item()`; `sfuel` bounds the chunk loop of the
    strings met on the way, `fuel` the iterations of this loop -/
def skipLoop (sfuel : Nat) : Nat → List Level → Prog Unit
  | 0, _ => .throw .decoder
  | _+1, [] => pure ()
  | fuel+1, top :: rest =>
    if top.indef then do
      let t ← peekType
      if t = tBreak then
        if top.map && top.value then .throw .decoder
        else .next fun _ => skipLoop sfuel fuel rest
      else skipHead sfuel (top.after :: rest) (skipLoop sfuel fuel)
    else if top.left = 0 then skipLoop sfuel fuel rest
    else skipHead sfuel (top.after :: rest) (skipLoop sfuel fuel)

/-- `skip_item()` -/
def skipItem (fuel : Nat) : Prog Unit := skipLoop fuel fuel [Level.one]

end CdnsVerif.Model.Decoder
