/-
  The file level of the schema model: the reader program of a whole C-DNS file
  (`CdnsReader::read_file_header` followed by `read_block` until the end of the block array;
  src/cdns.cpp) and the byte layout the exporter produces (`write_file_header` + blocks + break;
  the layout itself is the subject of Props.C02 / C13 over the exporter model).
-/
import CdnsVerif.Model.Structs
namespace CdnsVerif.Model.File
open CdnsVerif.Spec.Cbor CdnsVerif.Model CdnsVerif.Model.Schema CdnsVerif.Model.Structs CdnsVerif.Model.Decoder

def cdnsText : Bytes := [67, 45, 68, 78, 83]

/-- `std::toupper` on ASCII letters -/
def upper (t : Bytes) : Bytes := t.map fun c => if 97 ≤ c ∧ c ≤ 122 then c - 32 else c

/-- read a whole file: header, preamble, all blocks (raw values, before index resolution) -/
def readFile (fuel : Nat) : Prog (Val × Val) := do
  let (len, indef) ← readArrayStart
  if len ≠ 3 ∧ !indef then .throw .decoder else do
  let t ← readTextstring fuel
  if upper t ≠ cdnsText then .throw .decoder else do
  let pv ← readVal fuel filePreamble
  let bv ← readVal fuel (.arr block)
  if indef then do readBreak; pure (pv, bv) else pure (pv, bv)

/-- reader state between blocks: `m_indef_blocks`, `m_blocks_count`, `m_blocks_read` -/
structure RdSt where
  indef : Bool
  count : Nat
  read : Nat
  outer : Bool := false        -- `m_indef_file`: the file array itself has indefinite length, its break follows the block array
  deriving Repr

/-- `CdnsReader::end_of_file()`: the break that closes a file array of indefinite length -/
def endOfFile (st : RdSt) : Prog (Option Val × RdSt) :=
  if st.outer then do readBreak; pure (none, { st with outer := false }) else pure (none, st)

/-- `CdnsReader::read_block(eof)`: `none` = eof -/
def readBlock (fuel : Nat) (st : RdSt) : Prog (Option Val × RdSt) :=
  if st.indef then do
    let t ← peekType
    if t = tBreak then do
      readBreak
      endOfFile { st with indef := false, count := st.read }
    else do
      let v ← readVal fuel block
      pure (some v, { st with read := st.read + 1 })
  else if st.read = st.count then endOfFile st
  else do
    let v ← readVal fuel block
    pure (some v, { st with read := st.read + 1 })

/-- bytes of an output: `83 65 "C-DNS"`, preamble, `9f`, the blocks, `ff` -/
def fileBytes (pv : Val) (blocks : List Val) : Bytes :=
  [0x83, 0x65] ++ cdnsText ++ writeBytes filePreamble pv ++ [0x9f] ++ (blocks.map (writeBytes block)).flatten ++ [0xff]

end CdnsVerif.Model.File
