/- driver for the decoder layer (C07, C05):
     dec <s|f|u> <input-spec> <op>,<op>,…
   input-spec = '+'-separated segments:  hex digits | P<len>:<k> (byte-string item: head + pattern) |
                R<len>:<k> (raw pattern bytes) | -  (nothing)
   ops: pk ru rn ri rb rbs rts rbs# rts# ras rms rbk sk   (# = print only a digest of the string) -/
import CdnsVerif.Driver.Util
import CdnsVerif.Model.Decoder
import CdnsVerif.Model.Window
namespace CdnsVerif.Driver.Dec
open CdnsVerif.Spec.Cbor CdnsVerif.Model CdnsVerif.Model.Decoder CdnsVerif.Model.Window CdnsVerif.Driver

def parseSeg (seg : String) : Option Bytes :=
  if seg == "-" then some []
  else if seg.startsWith "P" then
    match (seg.drop 1).toString.splitOn ":" with
    | [n, k] => do
      let n ← n.toNat?
      let k ← k.toNat?
      some (preferredHead mBstr n ++ pattern n k)
    | _ => none
  else if seg.startsWith "R" then
    match (seg.drop 1).toString.splitOn ":" with
    | [n, k] => do some (pattern (← n.toNat?) (← k.toNat?))
    | _ => none
  else ofHex seg

def parseInput (spec : String) : Option Bytes := do
  let segs ← (spec.splitOn "+").mapM parseSeg
  some segs.flatten

def showErr : Err → String
  | .end_ => "E:end"
  | .decoder => "E:dec"
  | .other => "E:other"

def doOp (fuel : Nat) (op : String) (s : DecSt) : Except (Err × DecSt) (String × DecSt) :=
  let wrap {α : Type} (p : Prog α) (f : α → String) : Except (Err × DecSt) (String × DecSt) :=
    match runWS p s with
    | (.ok a, s') => .ok (f a, s')
    | (.error e, s') => .error (e, s')
  match op with
  | "pk" => wrap peekType toString
  | "ru" => wrap readUnsigned toString
  | "rn" => wrap readNegative toString
  | "ri" => wrap readInteger toString
  | "rb" => wrap readBool (fun b => if b then "true" else "false")
  | "rbs" => wrap (readBytestring fuel) (fun b => if b.isEmpty then "-" else toHex b)
  | "rts" => wrap (readTextstring fuel) (fun b => if b.isEmpty then "-" else toHex b)
  | "rbs#" => wrap (readBytestring fuel) digest
  | "rts#" => wrap (readTextstring fuel) digest
  | "ras" => wrap readArrayStart (fun (n, i) => s!"{n}/{i}")
  | "rms" => wrap readMapStart (fun (n, i) => s!"{n}/{i}")
  | "rbk" => wrap readBreak (fun _ => "ok")
  | "sk" => wrap (skipItem fuel) (fun _ => "ok")
  | _ => .error (.other, s)

/-- `cont`: the session goes on after an end-of-input error (kinds `s+ f+ u+`), on the state the throw left behind -/
def runOps (fuel : Nat) (cont : Bool) : List String → DecSt → List String → List String
  | [], _, acc => acc.reverse
  | op :: ops, s, acc =>
    match doOp fuel op s with
    | .ok (r, s') => runOps fuel cont ops s' (r :: acc)
    | .error (e, s') =>
      if cont && e == .end_ then runOps fuel cont ops s' (showErr e :: acc) else (showErr e :: acc).reverse

def handle (args : List String) : String :=
  match args with
  | [kind, spec, ops] =>
    match parseInput spec with
    | none => "bad-input"
    | some bs =>
      -- u: stream never opened; m: open of a missing file failed (failbit); e: stream already read to its end (eofbit|failbit)
      let s := if kind.startsWith "u" || kind.startsWith "m" then DecSt.unreadable
               else if kind.startsWith "e" then { win := [], inp := { data := [], eof := true, good := false } }
               else DecSt.ofBytes bs
      let fuel := 3 * bs.length + 2
      let rs := runOps fuel (kind.endsWith "+") (ops.splitOn ",") s []
      "M " ++ joinWith ";" rs
  | _ => "bad-op"

end CdnsVerif.Driver.Dec
