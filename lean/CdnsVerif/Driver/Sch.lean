/- driver for the schema interpreter (C09):  sch <hex of a C-DNS file>
   reads the file header with the MODEL of the library's reader (array start, "C-DNS", `readVal filePreamble`)
   through the real window model, renders the preamble canonically, and re-encodes the value read with
   the model writer (`writeBytes`) to compare with the bytes consumed. -/
import CdnsVerif.Driver.Util
import CdnsVerif.Model.Structs
import CdnsVerif.Model.Window
namespace CdnsVerif.Driver.Sch
open CdnsVerif.Spec.Cbor CdnsVerif.Model CdnsVerif.Model.Schema CdnsVerif.Model.Structs CdnsVerif.Model.Decoder CdnsVerif.Driver
open CdnsVerif.Generated

def xs (b : Bytes) : String := "x" ++ toHex b

def getK (ms : List (Int × Val)) (k : Int) : Option Val := (ms.find? (·.1 == k)).map (·.2)
def numS (v : Option Val) : Option String := match v with | some (.num n) => some (toString n) | _ => none
def strS (v : Option Val) : Option String := match v with | some (.str b) => some (xs b) | _ => none
def fld (k : String) (v : Option String) : List String := match v with | some s => [s!"{k}={s}"] | none => []
def listNums (v : Option Val) : String :=
  match v with
  | some (.list vs) => ".".intercalate (vs.filterMap fun x => match x with | .num n => some (toString n) | _ => none)
  | _ => ""
def listStrs (v : Option Val) : List String :=
  match v with
  | some (.list vs) => vs.filterMap fun x => match x with | .str b => some (xs b) | _ => none
  | _ => []

def dumpBP (v : Val) : String :=
  match v with
  | .record bp =>
    let sp := match getK bp BlockParametersMapIndex.storage_parameters with | some (.record m) => m | _ => []
    let sh := match getK sp StorageParametersMapIndex.storage_hints with | some (.record m) => m | _ => []
    let base := fld "tps" (numS (getK sp StorageParametersMapIndex.ticks_per_second)) ++ fld "max" (numS (getK sp StorageParametersMapIndex.max_block_items))
      ++ fld "qrh" (numS (getK sh StorageHintsMapIndex.query_response_hints)) ++ fld "sigh" (numS (getK sh StorageHintsMapIndex.query_response_signature_hints))
      ++ fld "rrh" (numS (getK sh StorageHintsMapIndex.rr_hints)) ++ fld "odh" (numS (getK sh StorageHintsMapIndex.other_data_hints))
      ++ [s!"opc={listNums (getK sp StorageParametersMapIndex.opcodes)}", s!"rrt={listNums (getK sp StorageParametersMapIndex.rr_types)}"]
      ++ fld "sfl" (numS (getK sp StorageParametersMapIndex.storage_flags))
      ++ fld "cp4" (numS (getK sp StorageParametersMapIndex.client_address_prefix_ipv4)) ++ fld "cp6" (numS (getK sp StorageParametersMapIndex.client_address_prefix_ipv6))
      ++ fld "sp4" (numS (getK sp StorageParametersMapIndex.server_address_prefix_ipv4)) ++ fld "sp6" (numS (getK sp StorageParametersMapIndex.server_address_prefix_ipv6))
      ++ fld "sm" (strS (getK sp StorageParametersMapIndex.sampling_method)) ++ fld "am" (strS (getK sp StorageParametersMapIndex.anonymization_method))
    let cp := match getK bp BlockParametersMapIndex.collection_parameters with
      | some (.record c) =>
        let pr := match getK c CollectionParametersMapIndex.promisc with | some (.bool b) => some (if b then "1" else "0") | _ => none
        let ifs := listStrs (getK c CollectionParametersMapIndex.interfaces)
        let sas := listStrs (getK c CollectionParametersMapIndex.server_address)
        let vl := listNums (getK c CollectionParametersMapIndex.vlan_ids)
        ["cp=1"] ++ fld "cqt" (numS (getK c CollectionParametersMapIndex.query_timeout)) ++ fld "cst" (numS (getK c CollectionParametersMapIndex.skew_timeout))
          ++ fld "csl" (numS (getK c CollectionParametersMapIndex.snaplen)) ++ fld "cpr" pr
          ++ (if ifs.isEmpty then [] else [s!"cif={"+".intercalate ifs}"]) ++ (if sas.isEmpty then [] else [s!"csa={"+".intercalate sas}"])
          ++ (if vl.isEmpty then [] else [s!"cvl={vl}"])
          ++ fld "cfl" (strS (getK c CollectionParametersMapIndex.filter)) ++ fld "cgi" (strS (getK c CollectionParametersMapIndex.generator_id))
          ++ fld "chi" (strS (getK c CollectionParametersMapIndex.host_id))
      | _ => []
    "P{" ++ ",".intercalate (base ++ cp) ++ "}"
  | _ => "P{?}"

def dumpPreamble (v : Val) : String :=
  match v with
  | .record m =>
    let head := "F{" ++ ",".intercalate (fld "maj" (numS (getK m FilePreambleMapIndex.major_format_version))
      ++ fld "min" (numS (getK m FilePreambleMapIndex.minor_format_version)) ++ fld "priv" (numS (getK m FilePreambleMapIndex.private_version))) ++ "}"
    let bps := match getK m FilePreambleMapIndex.block_parameters with | some (.list l) => l | _ => []
    head ++ String.join (bps.map dumpBP)
  | _ => "F{?}"

def showErr : Err → String
  | .end_ => "E:end" | .decoder => "E:dec" | .other => "E:other"

def handle (args : List String) : String :=
  match args with
  | [h] =>
    match ofHex h with
    | none => "bad-hex"
    | some bs =>
      let fuel := 3 * bs.length + 10
      let prog : Prog (Val × Bytes) := do
        let (len, indef) ← readArrayStart
        if len ≠ 3 ∧ !indef then .throw .decoder else do
        let t ← readTextstring fuel
        if t.map (fun c => if 97 ≤ c ∧ c ≤ 122 then c - 32 else c) ≠ [67, 45, 68, 78, 83] then .throw .decoder else do
        let v ← readVal fuel filePreamble
        pure (v, [])
      -- run on the plain input to know how many bytes the preamble took
      match prog.run bs with
      | .error e => s!"M {showErr e}"
      | .ok ((v, _), rest) =>
        -- preamble bytes = input minus the 7 header bytes minus the rest (only when the header is the canonical 83 65 "C-DNS")
        let consumed := bs.take (bs.length - rest.length)
        let canonHeader := consumed.take 7 == [0x83, 0x65, 67, 45, 68, 78, 83]
        let pre := consumed.drop 7
        let same := if canonHeader then (if writeBytes filePreamble v == pre then "same" else "DIFFERENT") else "n/a"
        -- and through the window model
        let w := match Window.runW prog (Window.DecSt.ofBytes bs) with
          | .ok ((v', _), _) => dumpPreamble v'
          | .error e => showErr e
        s!"M {w} #rewrite={same}"
  | _ => "bad-op"

end CdnsVerif.Driver.Sch
