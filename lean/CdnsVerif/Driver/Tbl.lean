/- driver for the table model (C11, C19): same request language as harness/tbl.cpp; values are
   compared as canonical text, so every table is a `Table` over `String`. -/
import CdnsVerif.Driver.Util
import CdnsVerif.Model.Table
namespace CdnsVerif.Driver.Tbl
open CdnsVerif.Model.Table CdnsVerif.Driver

def tnames : List String := ["ip", "nr", "ct", "qs", "ql", "qq", "rl", "rr", "md"]

/-- the items of a block and the read cursors of `CdnsBlockRead` (client ports of query/responses and malformed messages,
    address-event type ↦ count; `ca` = the address events were read to the end) -/
structure Items where
  q : List String := []
  m : List String := []
  a : List (Nat × Nat) := []
  cq : Nat := 0
  cm : Nat := 0
  ca : Bool := false
  st : Option String := none      -- block statistics (absent / processed_messages)

/-- a block = its nine tables, each in its own heap cell -/
structure St where
  heap : Heap String
  blocks : List (Nat × List (String × Table))     -- block id ↦ table name ↦ table
  nextCell : Nat
  items : List (Nat × Items) := []

def getItems (s : St) (b : Nat) : Items := ((s.items.find? (·.1 == b)).map (·.2)).getD {}
def setItems (s : St) (b : Nat) (it : Items) : St := { s with items := (b, it) :: s.items.filter (·.1 != b) }

def bumpA (k : Nat) : List (Nat × Nat) → List (Nat × Nat)
  | [] => [(k, 1)]
  | (k', n) :: rest => if k' = k then (k', n + 1) :: rest else (k', n) :: bumpA k rest

def insertSorted (x : String) : List String → List String
  | [] => [x]
  | y :: ys => if x < y then x :: y :: ys else y :: insertSorted x ys

def hashS : Hash String := { stored := fun _ v => v.length, probe := fun v => v.length }

def getBlock (s : St) (b : Nat) : Option (List (String × Table)) := (s.blocks.find? (·.1 == b)).map (·.2)
def setBlock (s : St) (b : Nat) (ts : List (String × Table)) : St :=
  { s with blocks := (b, ts) :: s.blocks.filter (·.1 != b) }
def dropBlock (s : St) (b : Nat) : St := { s with blocks := s.blocks.filter (·.1 != b) }

def newBlock (s : St) (b : Nat) : St :=
  let (heap, ts, next) := tnames.foldl (fun (acc : Heap String × List (String × Table) × Nat) n =>
    let (h, t) := fresh acc.1 acc.2.2
    (h, acc.2.1 ++ [(n, t)], acc.2.2 + 1)) (s.heap, [], s.nextCell)
  setItems (setBlock { s with heap := heap, nextCell := next } b ts) b {}

def destroyBlock (s : St) (b : Nat) : St :=
  match getBlock s b with
  | none => s
  | some ts => dropBlock { s with heap := ts.foldl (fun h (_, t) => destroy h t) s.heap } b

/-- copy construction / assignment of a block: every table is copied (moves are copies in the library) -/
def copyBlock (s : St) (dst src : Nat) : Option St := do
  let ts ← getBlock s src
  let s1 := if (getBlock s dst).isSome ∧ dst ≠ src then destroyBlock s dst else s
  if dst = src then some s else
  let (heap, nts, next, ok) := ts.foldl (fun (acc : Heap String × List (String × Table) × Nat × Bool) (n, t) =>
    match copy hashS acc.1 t acc.2.2.1 with
    | .ok (h, t') => (h, acc.2.1 ++ [(n, t')], acc.2.2.1 + 1, acc.2.2.2)
    | .dangling => (acc.1, acc.2.1, acc.2.2.1, false)) (s1.heap, [], s1.nextCell, true)
  -- the items are copied; a copy starts reading at the beginning
  let it := getItems s src
  if ok then some (setItems (setBlock { s1 with heap := heap, nextCell := next } dst nts) dst { q := it.q, m := it.m, a := it.a, st := it.st }) else none

def tableOf (ts : List (String × Table)) (n : String) : Option Table := (ts.find? (·.1 == n)).map (·.2)
def setTable (ts : List (String × Table)) (n : String) (t : Table) : List (String × Table) :=
  ts.map fun (m, x) => if m == n then (m, t) else (m, x)

def stepTok (s : St) (tok : String) : St × String :=
  match tok.splitOn ":" with
  | ["new", b] => match b.toNat? with | some b => (newBlock s b, "ok") | none => (s, "bad-op")
  | ["del", b] => match b.toNat? with | some b => (destroyBlock s b, "ok") | none => (s, "bad-op")
  | ["clr", b] =>
    match b.toNat? >>= fun b => (getBlock s b).map (b, ·) with
    | some (b, ts) =>
      let (heap, ts') := ts.foldl (fun (acc : Heap String × List (String × Table)) (n, t) =>
        let (h, t') := clear acc.1 t
        (h, acc.2 ++ [(n, t')])) (s.heap, [])
      (setItems (setBlock { s with heap := heap } b ts') b {}, "ok")
    | none => (s, "E")
  | ["cp", d, sr, _how] =>
    match d.toNat?, sr.toNat? with
    | some d, some sr =>
      if d = sr then (match getBlock s d with | some _ => (s, "ok") | none => (s, "E"))      -- x = x changes nothing
      else match copyBlock s d sr with | some s' => (s', "ok") | none => (s, "E")
    | _, _ => (s, "bad-op")
  | ["w", _] => (s, "-")
  | ["st", b, n] =>
    match b.toNat? >>= fun b => (getBlock s b).map (b, ·) with
    | some (b, _) => let it := getItems s b; (setItems s b { it with st := some n }, "ok")
    | none => (s, "E")
  | ["gs", b] =>
    match b.toNat? >>= fun b => (getBlock s b).map (b, ·) with
    | some (b, _) => (s, (getItems s b).st.getD "none")
    | none => (s, "E")
  | ["iq", b, port] =>
    match b.toNat? >>= fun b => (getBlock s b).map (b, ·) with
    | some (b, _) => let it := getItems s b; (setItems s b { it with q := it.q ++ [port] }, "ok")
    | none => (s, "E")
  | ["im", b, port] =>
    match b.toNat? >>= fun b => (getBlock s b).map (b, ·) with
    | some (b, _) => let it := getItems s b; (setItems s b { it with m := it.m ++ [port] }, "ok")
    | none => (s, "E")
  | ["ia", b, ty] =>
    match b.toNat? >>= fun b => (getBlock s b).map (b, ·), ty.toNat? with
    | some (b, ts), some ty =>
      -- the event's address goes through the address table like any other
      match tableOf ts "ip" with
      | none => (s, "bad-op")
      | some t =>
        match add hashS s.heap t "x7f000001" with
        | .ok (h, t', _) =>
          let s1 := setBlock { s with heap := h } b (setTable ts "ip" t')
          let it := getItems s1 b
          (setItems s1 b { it with a := bumpA ty it.a }, "ok")
        | .dangling => (s, "DANGLING")
    | _, _ => (s, "E")
  | ["rq", b] =>
    match b.toNat? >>= fun b => (getBlock s b).map (b, ·) with
    | some (b, _) =>
      let it := getItems s b
      match it.q[it.cq]? with
      | some p => (setItems s b { it with cq := it.cq + 1 }, p)
      | none => (s, "end")
    | none => (s, "E")
  | ["rm", b] =>
    match b.toNat? >>= fun b => (getBlock s b).map (b, ·) with
    | some (b, _) =>
      let it := getItems s b
      match it.m[it.cm]? with
      | some p => (setItems s b { it with cm := it.cm + 1 }, p)
      | none => (s, "end")
    | none => (s, "E")
  | ["RA", b] =>
    match b.toNat? >>= fun b => (getBlock s b).map (b, ·) with
    | some (b, _) =>
      let it := getItems s b
      let shown := (it.a.map fun (k, n) => s!"{k}*{n}").foldl (fun acc x => insertSorted x acc) []
      (setItems s b { it with ca := true }, if it.ca || it.a.isEmpty then "-" else ",".intercalate shown)
    | none => (s, "E")
  | [op, b, arg] =>
    let k := op.take 1 |>.toString
    let tn := op.drop 1 |>.toString
    match b.toNat? >>= fun b => (getBlock s b).map (b, ·) with
    | none => (s, "E")
    | some (b, ts) =>
      match tableOf ts tn with
      | none => (s, "bad-op")
      | some t =>
        if k == "a" || (k == "r" && tn == "md") then
          match add hashS s.heap t arg with
          | .ok (h, t', i) => (setBlock { s with heap := h } b (setTable ts tn t'), toString i)
          | .dangling => (s, "DANGLING")
        else if k == "v" then
          match addValue hashS s.heap t arg with
          | .ok (h, t', i) => (setBlock { s with heap := h } b (setTable ts tn t'), toString i)
          | .dangling => (s, "DANGLING")
        else if k == "g" then
          match arg.toNat? with
          | some i => match get s.heap t i with | some v => (s, v) | none => (s, "E")
          | none => (s, "bad-op")
        else (s, "bad-op")
  | [op, b] =>
    if (op.take 1 |>.toString) == "s" then
      match b.toNat? >>= fun b => getBlock s b with
      | some ts => match tableOf ts (op.drop 1 |>.toString) with
        | some t => (s, toString (items s.heap t).length)
        | none => (s, "bad-op")
      | none => (s, "E")
    else (s, "bad-op")
  | _ => (s, "bad-op")

def handle (toks : List String) : String :=
  let (_, rs) := toks.foldl (fun (acc : St × List String) tok =>
    if tok.isEmpty then acc else
    let (s', r) := stepTok acc.1 tok
    (s', r :: acc.2)) ({ heap := fun _ => none, blocks := [], nextCell := 1 }, [])
  "M " ++ " ".intercalate rs.reverse

end CdnsVerif.Driver.Tbl
