/- driver for the schema interpreter on whole files (C01/C02/C08):  blk <hex of a C-DNS file>
   reads the file with the MODEL of the library's reader (array start, "C-DNS", `readVal filePreamble`, `readVal (.arr block)`),
   turns the values read back into syntax trees with the MODEL of the writers (`toItem`), hands them to the independent RFC 8618
   interpretation (`Spec.Cdns.interpretItem`: index resolution, time offsets, canonical dump) and re-encodes the values with the
   model writer to compare with the input bytes (exporter layout: 83 65 "C-DNS" preamble 9f blocks… ff). -/
import CdnsVerif.Driver.Util
import CdnsVerif.Driver.Sch
import CdnsVerif.Model.File
import CdnsVerif.Spec.Cdns
import CdnsVerif.Props.C05
namespace CdnsVerif.Driver.Blk
open CdnsVerif.Spec.Cbor CdnsVerif.Model CdnsVerif.Model.Schema CdnsVerif.Model.Structs CdnsVerif.Model.Decoder CdnsVerif.Model.File CdnsVerif.Driver

def handle (args : List String) : String :=
  match args with
  | [h] =>
    match ofHex h with
    | none => "bad-hex"
    | some bs =>
      let fuel := 4 * bs.length + 10
      let prog : Prog (Val × Val) := readFile fuel
      match prog.run bs with
      | .error e => s!"M {Sch.showErr e}"
      | .ok ((pv, bv), rest) =>
        if rest ≠ [] then "M E:trailing" else
        let blocks := match bv with | .list l => l | _ => []
        let file : Item := .arr .imm [.tstr .imm cdnsText, toItem filePreamble pv, toItem (.arr block) bv]
        let expect := fileBytes pv blocks
        let same := if expect == bs then "same" else "different"
        -- are the values read inside the domain of the round-trip theorems (Props.C01.file_roundtrip)?
        let conf := if conformsB filePreamble pv && conformsListB block blocks then "yes" else "no"
        match Spec.Cdns.interpretItem file with
        | .ok f => s!"M {f.dump} #rewrite={same},conforms={conf},blocks={blocks.length}"
        | .error e => s!"M invalid:{e} #rewrite={same},conforms={conf}"
  | _ => "bad-op"

/-- the reader used block by block on a (possibly truncated) input: header, then `readBlock` until eof or an error;
    answer in the notation of the harness layer `rd`: preamble, the blocks read, then `EOF` or the error -/
def readCut (bs : Bytes) : String :=
  let fuel := 4 * bs.length + 10
  let header : Prog (Val × Nat × Bool × Bool) := do
    let (len, indef) ← readArrayStart
    if len ≠ 3 ∧ !indef then .throw .decoder else do
    let t ← readTextstring fuel
    if upper t ≠ cdnsText then .throw .decoder else do
    let pv ← readVal fuel filePreamble
    let (cnt, bindef) ← readArrayStart
    pure (pv, cnt, bindef, indef)
  match header.run bs with
  | .error e => " " ++ Sch.showErr e
  | .ok ((pv, cnt, bindef, findef), rest) =>
    let (blocks, status) := Props.C05.readAll (readBlock fuel) (bs.length + 2) ⟨bindef, cnt, 0, findef⟩ 0 rest
    let tail := match status with | none => "EOF" | some e => Sch.showErr e
    let file : Item := .arr .imm [.tstr .imm cdnsText, toItem filePreamble pv, .arrI (blocks.map fun b => toItem block b.1)]
    match Spec.Cdns.interpretItem file with
    | .ok f => (f.dump.dropEnd 3).toString ++ tail
    | .error e => s!"invalid:{e} {tail}"

def handleCuts (args : List String) : String :=
  match args with
  | [h, cuts] =>
    match ofHex h with
    | none => "bad-hex"
    | some bs =>
      let ns := (cuts.splitOn ",").filterMap String.toNat?
      -- one digest per cut, as the harness layer `rdc` does; `blkc1 <hex> <n>` prints the full answer
      " @@ ".intercalate (ns.map fun n => digest (("I " ++ readCut (bs.take n)).toUTF8.toList.map UInt8.toNat))
  | _ => "bad-op"

def handleCut1 (args : List String) : String :=
  match args with
  | [h, n] =>
    match ofHex h, n.toNat? with
    | some bs, some k => "M " ++ readCut (bs.take k)
    | _, _ => "bad-args"
  | _ => "bad-op"

end CdnsVerif.Driver.Blk
