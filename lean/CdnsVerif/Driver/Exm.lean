/- driver for the exporter model:  exm <max>:<aec>:<mm>,... <op> <op> ...
   ops: Q:<id>:<0|1>:<st|->  A:<key>:<st|->  M:<id>:<0|1>:<st|->  W  R:<0|1>  P:<max>:<aec>:<mm>  S:<i>  C
   answer: M <result> ... | <output>;<output>...   result: z (0 bytes) / n (non-zero) / i<k> / t / f / c=…
           output = block+block…, block = pi/stats/qr ids/aec key*count/mm ids -/
import CdnsVerif.Driver.Util
import CdnsVerif.Model.Exporter
namespace CdnsVerif.Driver.Exm
open CdnsVerif.Model.Exporter CdnsVerif.Driver

def parsePSet (s : String) : Option PSet :=
  match s.splitOn ":" with
  | [m, a, mm] => do some ⟨← m.toNat?, a == "1", mm == "1"⟩
  | _ => none

def parseSt (s : String) : Option (Option Nat) := if s == "-" then some none else s.toNat?.map some

inductive Tok where
  | op (o : Op)
  | counters

def parseTok (t : String) : Option Tok :=
  match t.splitOn ":" with
  | ["Q", id, st, ss] => do some (.op (.qr (← id.toNat?) (st == "1") (← parseSt ss)))
  | ["A", k, ss] => do some (.op (.aec (← k.toNat?) (← parseSt ss)))
  | ["M", id, st, ss] => do some (.op (.mm (← id.toNat?) (st == "1") (← parseSt ss)))
  | ["W"] => some (.op .writeBlock)
  | ["R", e] => some (.op (.rotate (e == "1")))
  | ["P", m, a, mm] => do some (.op (.addParams ⟨← m.toNat?, a == "1", mm == "1"⟩))
  | ["S", i] => do some (.op (.setActive (← i.toNat?)))
  | ["C"] => some .counters
  | _ => none

def showRes : Res → String
  | .bytes 0 => "z"
  | .bytes _ => "n"
  | .index i => s!"i{i}"
  | .flag true => "t"
  | .flag false => "f"

def nums (l : List Nat) : String := ".".intercalate (l.map toString)

def showBlock (b : Block) : String :=
  let st := match b.stats with | some x => toString x | none => "-"
  s!"{b.pi}/{st}/{nums b.qrs}/{".".intercalate (b.aecs.map fun (k, n) => s!"{k}*{n}")}/{nums b.mms}"

def showOutput (o : Output) : String := "+".intercalate (o.blocks.map showBlock)

def handle (args : List String) : String :=
  match args with
  | ps :: toks =>
    match (ps.splitOn ",").mapM parsePSet, toks.mapM parseTok with
    | some psets, some ts =>
      let hdr := fun (_ : Nat) => 1000
      let bsz := fun (_ : Block) => 1
      let (s, rs) := ts.foldl (fun (acc : ExpSt × List String) t =>
        match t with
        | .op o => let (s', r) := step hdr bsz acc.1 o; (s', showRes r :: acc.2)
        | .counters =>
          let c := counters acc.1
          (acc.1, s!"c={c.1}.{c.2.1}.{c.2.2.1}.{c.2.2.2.1}.{c.2.2.2.2}" :: acc.2)) (ExpSt.init psets, [])
      s!"M {" ".intercalate rs.reverse} | {";".intercalate ((outputs s).map showOutput)}"
    | _, _ => "bad-op"
  | _ => "bad-op"

end CdnsVerif.Driver.Exm
