/- driver for the read side of a block (`Model.ReadBlock`: `CdnsBlockRead::read` after the raw read, `read_generic_qr/aec/mm`):
     rdq <hex of a C-DNS file>
   reads the file block by block with the model reader (`Model.File.readBlock`), turns every raw block value into the block object
   (`ofVal`), resolves its records through the bounds-checked accessors (`records`) and prints them in the notation of the
   harness layer `rd` (harness/file.cpp `dump_block`), followed by `EOF` or the class of the first exception.
   answer: M <B{…} B{…} … EOF|E:end|E:dec|E:other> -/
import CdnsVerif.Driver.Blk
import CdnsVerif.Driver.Bld
import CdnsVerif.Model.ReadBlock
namespace CdnsVerif.Driver.Rdq
open CdnsVerif.Spec.Cbor CdnsVerif.Generated CdnsVerif.Model CdnsVerif.Model.Schema CdnsVerif.Model.Structs CdnsVerif.Model.Decoder
open CdnsVerif.Model.File CdnsVerif.Model.Builder CdnsVerif.Model.ReadBlock CdnsVerif.Driver

def showA (a : GAEC × Nat) : String :=
  "A{" ++ ",".intercalate ([s!"at={a.1.aeType}"] ++ Bld.fN "ac" a.1.aeCode ++ Bld.fN "atf" a.1.transportFlags ++
    [s!"ip={Bld.xs a.1.ip}", s!"n={a.2}"]) ++ "}"

def showM (g : GMM) : String :=
  "M{" ++ ",".intercalate ((match g.ts with | some t => [s!"ts={t.secs}.{t.ticks}"] | none => []) ++
    Bld.fS "cip" g.clientIp ++ Bld.fN "cport" g.clientPort ++ Bld.fS "sip" g.serverIp ++ Bld.fN "sport" g.serverPort ++
    Bld.fN "tf" g.transportFlags ++ Bld.fS "pl" g.payload) ++ "}"

def showStats (s : Stats) : String := ".".intercalate (s.map fun v => match v with | some n => toString n | none => "-")

def showRErr : RErr → String | .dec => "E:dec" | .other => "E:other"

def dumpBlock (rates : List Nat) (v : Val) : Except RErr String :=
  match ofVal rates v with
  | .error e => .error e
  | .ok rb =>
    match records rb.blk with
    | .error e => .error e
    | .ok r =>
      let parts := [s!"pi={rb.pi.getD 0}"] ++ (match rb.blk.stats with | some s => ["st=" ++ showStats s] | none => []) ++
        r.qrs.map Bld.showQ ++ Spec.Cdns.sortStrings (r.aecs.map showA) ++ r.mms.map showM
      .ok ("B{" ++ ";".intercalate parts ++ "}")

/-- dump blocks until one fails -/
def dumpBlocks (rates : List Nat) : List Val → List String × Option RErr
  | [] => ([], none)
  | v :: vs =>
    match dumpBlock rates v with
    | .error e => ([], some e)
    | .ok s => let (ss, e) := dumpBlocks rates vs; (s :: ss, e)

def readRecords (bs : Bytes) : String :=
  let fuel := 4 * bs.length + 10
  let header : Prog (Val × Nat × Bool × Bool) := do
    let (len, indef) ← readArrayStart
    if len ≠ 3 ∧ !indef then .throw .decoder else do
    let t ← readTextstring fuel
    if upper t ≠ cdnsText then .throw .decoder else do
    let pv ← readVal fuel filePreamble
    let (cnt, bindef) ← readArrayStart
    pure (pv, cnt, bindef, indef)
  match header.run bs with
  | .error e => Sch.showErr e
  | .ok ((pv, cnt, bindef, findef), rest) =>
    let (blocks, status) := Props.C05.readAll (readBlock fuel) (bs.length + 2) ⟨bindef, cnt, 0, findef⟩ 0 rest
    let (dumps, err) := dumpBlocks (ratesOf pv) (blocks.map (·.1))
    let tail := match err with
      | some e => showRErr e
      | none => match status with | none => "EOF" | some e => Sch.showErr e
    " ".intercalate (dumps ++ [tail])

def handle (args : List String) : String :=
  match args with
  | [h] => match ofHex h with | none => "bad-hex" | some bs => "M " ++ readRecords bs
  | _ => "bad-op"

/-- `mrgb <offset> <hex of an input file>`: the blocks `cdns-merge` writes for this input when its parameter sets were appended to
    the output preamble at `offset`: every block read (`ofVal`), re-written with `toVal` under index `offset + old index`
    (`Props.C18.merged_block_same_records` is about exactly this value); item-less blocks are not written.
    answer: M <hex>,<hex>,… | E -/
def handleMrgb (args : List String) : String :=
  match args with
  | [o, h] =>
    match o.toNat?, ofHex h with
    | some off, some bs =>
      let fuel := 4 * bs.length + 10
      match (readFile fuel).run bs with
      | .ok ((pv, .list blocks), []) =>
        let rates := ratesOf pv
        let outs := blocks.map fun v =>
          match ofVal rates v with
          | .ok rb => some (if itemCount rb.blk = 0 then "" else toHex (writeBytes block (toVal rb.blk (some (off + rb.pi.getD 0)) rb.tps)))
          | .error _ => none
        if outs.all Option.isSome then "M " ++ ",".intercalate ((outs.filterMap id).filter (· ≠ "")) else "E"
      | _ => "E"
    | _, _ => "bad-args"
  | _ => "bad-op"

end CdnsVerif.Driver.Rdq
