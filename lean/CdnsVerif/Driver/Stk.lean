/- driver for the output-stack model (C16, `Model.Stack`):
     stk H<header length>;<op>;<op>;…      B | BW:<len>:<writes> | W:<len>:<writes> | R:<export 0|1>:<len>:<writes>
   <len>    length of the encoding of the block the call has to write (measured on a copy of the block by the harness)
   <writes> the write() calls the library made during the call, in order: <size><o|f|s>,…  (accepted / rejected / cut short), or -
   The driver places the encoder's flushes (`Cuts`) where the sizes of the real write() calls say they happened – a flush that
   falls on the boundary between two emissions belongs to the later one, as `flush_buffer` runs before bytes are appended – and
   prints, per call, whether the model threw, the records buffered and the block counter; at the end every output's size. -/
import CdnsVerif.Driver.Util
import CdnsVerif.Model.Stack
namespace CdnsVerif.Driver.Stk
open CdnsVerif.Model.Stack CdnsVerif.Model.Writer CdnsVerif.Driver

def parseWrites (s : String) : List (Nat × Resp) :=
  if s == "-" || s == "" then [] else
  (s.splitOn ",").filterMap fun e =>
    let cs := e.toList
    match cs.getLast? with
    | some c =>
      let r := if c == 'o' then some Resp.ok else if c == 'f' then some Resp.fail else if c == 's' then some Resp.short else none
      match r, (String.ofList cs.dropLast).toNat? with
      | some r, some n => some (n, r)
      | _, _ => none
    | none => none

/-- cuts of one emission of `len` bytes starting with `b` bytes staged: (cuts, staged afterwards, writes left, threw) -/
partial def segCuts (b len : Nat) (ws : List (Nat × Resp)) (acc : Cuts) : Cuts × Nat × List (Nat × Resp) × Bool :=
  match ws with
  | [] => (acc, b + len, [], false)
  | (w, r) :: rest =>
    if w ≥ b ∧ w - b < len then
      let n := w - b
      if r == .ok then segCuts 0 (len - n) rest (acc ++ [(n, some r)])
      else (acc ++ [(n, some r)], w, rest, true)
    else (acc, b + len, ws, false)

def render (s : St) (t : Bool) : String := s!"t{if t then 1 else 0}:c{s.cur.length}:w{s.bw}"

/-- cuts for the emissions of `write_block()`: header (when the output holds no block yet) and block -/
def blockCuts (s : St) (h l : Nat) (ws : List (Nat × Resp)) : Cuts × Cuts × Nat × List (Nat × Resp) × Bool :=
  if s.cur.isEmpty then ([], [], s.buf.length, ws, false)
  else
    let (hc, b1, ws1, t1) := if s.bw = 0 then segCuts s.buf.length h ws [] else (([] : Cuts), s.buf.length, ws, false)
    if t1 then (hc, [], b1, ws1, true)
    else
      let (bc, b2, ws2, t2) := segCuts b1 l ws1 []
      (hc, bc, b2, ws2, t2)

def doOp (h : Nat) (s : St) (tok : String) : Option (St × String) :=
  let hdr := List.replicate h 0
  match tok.splitOn ":" with
  | ["B"] =>
    let (s1, t) := step hdr (fun _ => []) s (.buffer s.cur.length)
    some (s1, render s1 t)
  | ["BW", len, ws] =>
    let l := len.toNat?.getD 0
    let s' := { s with cur := s.cur ++ [s.cur.length] }
    let (hc, bc, _, _, _) := blockCuts s' h l (parseWrites ws)
    let (s1, t) := step hdr (fun _ => List.replicate l 0) s (.bufferW s.cur.length hc bc)
    some (s1, render s1 t)
  | ["W", len, ws] =>
    let l := len.toNat?.getD 0
    let (hc, bc, _, _, _) := blockCuts s h l (parseWrites ws)
    let (s1, t) := step hdr (fun _ => List.replicate l 0) s (.writeBlock hc bc)
    some (s1, render s1 t)
  | ["R", ex, len, ws] =>
    let exp := ex == "1"
    let l := len.toNat?.getD 0
    let writes := parseWrites ws
    let blk := exp && !s.cur.isEmpty
    let (hc, bc, b1, ws1, t1) := if blk then blockCuts s h l writes else (([] : Cuts), ([] : Cuts), s.buf.length, writes, false)
    let bwAfter := if blk && !t1 then s.bw + 1 else s.bw
    let (kc, _, ws2, _) := if !t1 && bwAfter > 0 then segCuts b1 1 ws1 [] else (([] : Cuts), b1, ws1, false)
    let r := match ws2 with | (_, r) :: _ => r | [] => Resp.ok
    let (s1, t) := step hdr (fun _ => List.replicate l 0) s (.rotate exp hc bc kc r)
    some (s1, render s1 t)
  | _ => none

def handle (args : List String) : String :=
  match args with
  | [spec] =>
    let rec go (h : Nat) (s : St) (toks : List String) (acc : List String) : Option (St × List String) :=
      match toks with
      | [] => some (s, acc.reverse)
      | t :: rest =>
        match doOp h s t with
        | some (s1, o) => go h s1 rest (o :: acc)
        | none => none
    let toks := spec.splitOn ";"
    let h := match toks.head? with | some t => if t.startsWith "H" then (t.drop 1).toNat?.getD 0 else 0 | none => 0
    match go h St.init (toks.filter fun t => !t.startsWith "H") [] with
    | some (s, outs) =>
      let cl := s.closed.map fun o => s!"os{o.os.length}/g{o.given.length}/t{if o.threw then 1 else 0}"
      "M " ++ " ".intercalate outs ++ " | " ++ " ".intercalate cl ++ s!" | os{s.w.out.length}+{s.buf.length}/g{s.given.length}/t{if s.threw then 1 else 0}"
    | none => "bad-op"
  | _ => "bad-op"

end CdnsVerif.Driver.Stk
