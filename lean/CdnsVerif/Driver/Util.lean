/- Line-protocol utilities shared by the model drivers (hex, hashing, parsing). -/
import CdnsVerif.Spec.Cbor
namespace CdnsVerif.Driver
open CdnsVerif.Spec.Cbor

def hexDigit (n : Nat) : Char :=
  if n < 10 then Char.ofNat (48 + n) else Char.ofNat (87 + n)

def toHex (bs : Bytes) : String :=
  String.ofList (bs.foldr (fun b acc => hexDigit (b / 16 % 16) :: hexDigit (b % 16) :: acc) [])

def hexVal (c : Char) : Option Nat :=
  if '0' ≤ c ∧ c ≤ '9' then some (c.toNat - 48)
  else if 'a' ≤ c ∧ c ≤ 'f' then some (c.toNat - 87)
  else if 'A' ≤ c ∧ c ≤ 'F' then some (c.toNat - 55)
  else none

partial def ofHexChars : List Char → Option Bytes
  | [] => some []
  | a :: b :: rest => do
    let x ← hexVal a
    let y ← hexVal b
    let r ← ofHexChars rest
    pure ((x * 16 + y) :: r)
  | _ => none

def ofHex (s : String) : Option Bytes := if s == "-" then some [] else ofHexChars s.toList

/-- FNV-1a, 64 bit -/
def fnv64 (bs : Bytes) : Nat :=
  bs.foldl (fun h b => ((h ^^^ b) * 1099511628211) % 18446744073709551616) 14695981039346656037

def hex64 (n : Nat) : String :=
  String.ofList ((List.range 16).reverse.map (fun i => hexDigit (n / 16 ^ i % 16)))

/-- deterministic filler: `n` bytes, byte `i` = (i*7 + k) % 256 -/
def pattern (n k : Nat) : Bytes := (List.range n).map (fun i => (i * 7 + k) % 256)

def joinWith (sep : String) (xs : List String) : String := sep.intercalate xs

def digest (bs : Bytes) : String := s!"{bs.length}:{hex64 (fnv64 bs)}"

end CdnsVerif.Driver
