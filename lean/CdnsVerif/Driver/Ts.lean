/- driver for the timestamp layer (C17) -/
import CdnsVerif.Driver.Util
import CdnsVerif.Model.Timestamp
namespace CdnsVerif.Driver.TsD
open CdnsVerif.Model.Timestamp CdnsVerif.Driver

def showTs (t : Ts) : String := s!"{t.secs}.{t.ticks}"

def parseTs (s : String) : Option (Option Ts) :=
  if s == "-" then some none else
  match s.splitOn "." with
  | [a, b] => do some (some ⟨← a.toNat?, ← b.toNat?⟩)
  | _ => none

/-- specification (unbounded integers), `na` outside the representable range of the property -/
def specOff (a b : Ts) (r : Nat) : String :=
  if r = 0 then "throw" else
  let ia := a.secs * r + a.ticks
  let ib := b.secs * r + b.ticks
  if ia < two63 ∧ ib < two63 then s!"ok {(ia : Int) - (ib : Int)}" else "na"

def specAdd (b : Ts) (off : Int) (r : Nat) : String :=
  if r = 0 then s!"throw {showTs b}" else
  let ib : Int := b.secs * r + b.ticks
  if ib < (two63 : Int) then
    if ib + off < 0 then s!"throw {showTs b}"
    else if ib + off < (two63 : Int) then
      let n := (ib + off).toNat
      s!"ok {n / r}.{n % r}"
    else s!"throw {showTs b}"
  else "na"

def parseTimeOp (tok : String) : Option TimeOp :=
  match tok.splitOn ":" with
  | ["q", ts, h, o] => do some (.qr (← parseTs ts) (h == "1") (o == "1"))
  | ["Q", ts, _, o] => do some (.qrItem (← parseTs ts) (o == "1"))
  | ["M", ts, _, o] => do some (.mmItem (← parseTs ts) (o == "1"))
  | ["m", ts, e, o] => do some (.mm (← parseTs ts) (e == "1") (o == "1"))
  | ["c"] => some .clear
  | _ => none

def showOpt (t : Option Ts) : String := match t with | some t => showTs t | none => "-"

def handle (args : List String) : String :=
  match args with
  | ["off", as, at_, bs, bt, r] =>
    match as.toNat?, at_.toNat?, bs.toNat?, bt.toNat?, r.toNat? with
    | some as, some at_, some bs, some bt, some r =>
      let m := match getTimeOffset ⟨as, at_⟩ ⟨bs, bt⟩ r with
        | .ok v => s!"ok {v}"
        | .error _ => "throw"
      s!"M {m}\tS {specOff ⟨as, at_⟩ ⟨bs, bt⟩ r}"
    | _, _, _, _, _ => "bad-op"
  | ["add", s, t, off, r] =>
    match s.toNat?, t.toNat?, off.toInt?, r.toNat? with
    | some s, some t, some off, some r =>
      let m := match addTimeOffset ⟨s, t⟩ off r with
        | .ok v => s!"ok {showTs v}"
        | .error _ => s!"throw {showTs ⟨s, t⟩}"
      s!"M {m}\tS {specAdd ⟨s, t⟩ off r}"
    | _, _, _, _ => "bad-op"
  | ["cmp", as, at_, bs, bt, r] =>
    match as.toNat?, at_.toNat?, bs.toNat?, bt.toNat?, r.toNat? with
    | some as, some at_, some bs, some bt, some r =>
      let a : Ts := ⟨as, at_⟩
      let b : Ts := ⟨bs, bt⟩
      let ia := as * r + at_
      let ib := bs * r + bt
      let spec := if at_ < r ∧ bt < r then s!"{decide (ia < ib)} {decide (ia ≤ ib)}" else "na"
      s!"M {lt a b} {le a b}\tS {spec}"
    | _, _, _, _, _ => "bad-op"
  | "blk" :: _rate :: ops =>
    -- `K` / `k`: the block is replaced by a copy of itself (copy construction / assignment): a copy has the same time members,
    -- so the model's history is the history without these steps
    match (ops.filter fun o => o != "K" && o != "k").mapM parseTimeOp with
    | none => "bad-op"
    | some ops =>
      let b := runTime BlockTime.init ops
      let q := joinWith "," (b.qrs.map showOpt)
      let m := joinWith "," (b.mms.map showOpt)
      -- specification: the earliest time is not later than any stored time
      let ok := b.times.all (fun t => !(lt t b.earliest))
      s!"M {showTs b.earliest}|{q}|{m}\tS {ok}"
  | _ => "bad-op"

end CdnsVerif.Driver.TsD
