/- driver for the block-building model (C04/C01):
     bld <qrh> <sigh> <rrh> <odh> <tps> <pi|-> <record tokens…>
   record tokens as in the exporter sessions: Q:k=v,…[;st=a.b.c.d.e.f]   A:…   M:…
   answer: M <hex of the block bytes the model writes> #items=<n> -/
import CdnsVerif.Driver.Util
import CdnsVerif.Model.Builder
import CdnsVerif.Model.Resolve
namespace CdnsVerif.Driver.Bld
open CdnsVerif.Spec.Cbor CdnsVerif.Model CdnsVerif.Model.Builder CdnsVerif.Model.Schema CdnsVerif.Model.Structs CdnsVerif.Model.Timestamp CdnsVerif.Driver

abbrev KV := List (String × String)

def parseKV (s : String) : KV :=
  (s.splitOn ",").filterMap fun f =>
    if f.isEmpty then none else
    match f.splitOn "=" with
    | [k] => some (k, "")
    | k :: rest => some (k, "=".intercalate rest)
    | [] => none

def get (kv : KV) (k : String) : Option String := (kv.find? (·.1 == k)).map (·.2)
def num (kv : KV) (k : String) : Option Nat := (get kv k).bind String.toNat?
def int (kv : KV) (k : String) : Option Int := (get kv k).bind String.toInt?
def xstr (s : String) : Option Bytes := if s.startsWith "x" then ofHexChars (s.toList.drop 1) else none
def str (kv : KV) (k : String) : Option Bytes := (get kv k).bind xstr
def tsOf (s : String) : Option Ts :=
  match s.splitOn "." with
  | [a, b] => do pure ⟨← a.toNat?, ← b.toNat?⟩
  | _ => none

def rrOf (s : String) : Option GRR :=
  match s.splitOn "~" with
  | [n, t, c, ttl, rd] => do
    let name ← xstr n
    let ty ← t.toNat?
    let cl ← c.toNat?
    let ttl' ← if ttl == "-" then some none else ttl.toNat?.map some
    let rd' ← if rd == "-" then some none else (xstr rd).map some
    pure { name := name, type := ty, cls := cl, ttl := ttl', rdata := rd' }
  | _ => none

def rrs (kv : KV) (k : String) : Option (List GRR) :=
  match get kv k with
  | none => none
  | some s => if s.isEmpty then some [] else some ((s.splitOn "+").filterMap rrOf)

def statsOf (s : String) : Option Stats :=
  let p := s.splitOn "."
  if p.length = 6 then some (p.map fun x => if x == "-" then none else x.toNat?) else some [none, none, none, none, none, none]

def parseQ (kv : KV) : GQR := {
  ts := (get kv "ts").bind tsOf, clientIp := str kv "cip", clientPort := num kv "cport", transactionId := num kv "tid",
  serverIp := str kv "sip", serverPort := num kv "sport", transportFlags := num kv "tf", qrType := num kv "qt",
  sigFlags := num kv "sf", opcode := num kv "op", dnsFlags := num kv "df", queryRcode := num kv "qrc",
  classtype := (get kv "ct").bind fun s => match s.splitOn "." with | [a, b] => do pure (← a.toNat?, ← b.toNat?) | _ => none,
  qdcount := num kv "qd", ancount := num kv "an", nscount := num kv "ns", arcount := num kv "ar", ednsVersion := num kv "ev",
  udpSize := num kv "us", optRdata := str kv "ord", responseRcode := num kv "rrc", hoplimit := num kv "hl",
  responseDelay := int kv "rd", queryName := str kv "qn", querySize := num kv "qs", responseSize := num kv "rs",
  bailiwick := str kv "bw", processingFlags := num kv "pf",
  queryQuestions := rrs kv "qq", queryAnswers := rrs kv "qa", queryAuthority := rrs kv "qu", queryAdditional := rrs kv "qx",
  responseQuestions := rrs kv "rq", responseAnswers := rrs kv "ra", responseAuthority := rrs kv "ru", responseAdditional := rrs kv "rx",
  asn := str kv "asn", countryCode := str kv "cc", roundTripTime := int kv "rtt" }

def parseA (kv : KV) : GAEC := {
  aeType := (num kv "at").getD 0, aeCode := num kv "ac", transportFlags := num kv "atf", ip := (str kv "ip").getD [] }

def parseM (kv : KV) : GMM := {
  ts := (get kv "ts").bind tsOf, clientIp := str kv "cip", clientPort := num kv "cport", serverIp := str kv "sip",
  serverPort := num kv "sport", transportFlags := num kv "tf", payload := str kv "pl" }

def recOf (tok : String) : Option Rec :=
  match tok.splitOn ":" with
  | op :: rest =>
    let arg := ":".intercalate rest
    let (body, st) := match arg.splitOn ";" with
      | [x] => (x, none)
      | x :: y :: _ => (x, (get (parseKV y) "st").bind statsOf)
      | [] => ("", none)
    let kv := parseKV body
    if op == "Q" then some (.qr (parseQ kv) st)
    else if op == "A" then some (.aec (parseA kv) st)
    else if op == "M" then some (.mm (parseM kv) st)
    else none
  | [] => none

def handle (args : List String) : String :=
  match args with
  | qrh :: sigh :: rrh :: odh :: tps :: pi :: toks =>
    match qrh.toNat?, sigh.toNat?, rrh.toNat?, odh.toNat?, tps.toNat? with
    | some a, some b, some c, some d, some t =>
      let h : Hints := { qrh := a, sigh := b, rrh := c, odh := d, tps := t }
      let blk := build h (toks.filterMap recOf)
      let v := toVal blk pi.toNat? t
      s!"M {toHex (writeBytes block v)} #items={itemCount blk},conforms={if conformsB block v then "yes" else "no"}"
    | _, _, _, _, _ => "bad-args"
  | _ => "bad-op"

/-! rendering in the notation of harness/records.h (`show_qr`) -/
def xs (b : Bytes) : String := "x" ++ toHex b
def showRR (r : GRR) : String :=
  s!"{xs r.name}~{r.type}~{r.cls}~{match r.ttl with | some t => toString t | none => "-"}~{match r.rdata with | some d => xs d | none => "-"}"
def fN (k : String) (o : Option Nat) : List String := match o with | some n => [s!"{k}={n}"] | none => []
def fI (k : String) (o : Option Int) : List String := match o with | some n => [s!"{k}={n}"] | none => []
def fS (k : String) (o : Option Bytes) : List String := match o with | some b => [s!"{k}={xs b}"] | none => []
def fL (k : String) (o : Option (List GRR)) : List String :=
  match o with | some (x :: l) => [s!"{k}={"+".intercalate ((x :: l).map showRR)}"] | _ => []
def showQ (g : GQR) : String :=
  "Q{" ++ ",".intercalate (
    (match g.ts with | some t => [s!"ts={t.secs}.{t.ticks}"] | none => []) ++
    fS "cip" g.clientIp ++ fN "cport" g.clientPort ++ fN "tid" g.transactionId ++ fS "sip" g.serverIp ++ fN "sport" g.serverPort ++
    fN "tf" g.transportFlags ++ fN "qt" g.qrType ++ fN "sf" g.sigFlags ++ fN "op" g.opcode ++ fN "df" g.dnsFlags ++ fN "qrc" g.queryRcode ++
    (match g.classtype with | some c => [s!"ct={c.1}.{c.2}"] | none => []) ++
    fN "qd" g.qdcount ++ fN "an" g.ancount ++ fN "ns" g.nscount ++ fN "ar" g.arcount ++ fN "ev" g.ednsVersion ++ fN "us" g.udpSize ++
    fS "ord" g.optRdata ++ fN "rrc" g.responseRcode ++ fN "hl" g.hoplimit ++ fI "rd" g.responseDelay ++ fS "qn" g.queryName ++
    fN "qs" g.querySize ++ fN "rs" g.responseSize ++ fS "bw" g.bailiwick ++ fN "pf" g.processingFlags ++
    fL "qq" g.queryQuestions ++ fL "qa" g.queryAnswers ++ fL "qu" g.queryAuthority ++ fL "qx" g.queryAdditional ++
    fL "rq" g.responseQuestions ++ fL "ra" g.responseAnswers ++ fL "ru" g.responseAuthority ++ fL "rx" g.responseAdditional ++
    fS "asn" g.asn ++ fS "cc" g.countryCode ++ fI "rtt" g.roundTripTime) ++ "}"

/-- `prjd <qrh> <sigh> <rrh> <odh> <tps> <records…>`: what reading back must yield for the query/responses buffered
    (`Model.expectedQrs`, proved equal to index resolution of the block built: `Props.C01.records_resolve_to_projection`) -/
def handlePrjd (args : List String) : String :=
  match args with
  | qrh :: sigh :: rrh :: odh :: tps :: toks =>
    match qrh.toNat?, sigh.toNat?, rrh.toNat?, odh.toNat?, tps.toNat? with
    | some a, some b, some c, some d, some t =>
      let h : Hints := { qrh := a, sigh := b, rrh := c, odh := d, tps := t }
      "M " ++ ";".intercalate ((expectedQrs h (toks.filterMap recOf)).map showQ)
    | _, _, _, _, _ => "bad-args"
  | _ => "bad-op"

/-- `prj <qrh> <sigh> <rrh> <odh> <tps> <records…>`: after EVERY prefix of the record sequence, does index resolution of the
    stored query/responses give the hint projection of the records buffered (those of which anything is stored)? -/
def handlePrj (args : List String) : String :=
  match args with
  | qrh :: sigh :: rrh :: odh :: tps :: toks =>
    match qrh.toNat?, sigh.toNat?, rrh.toNat?, odh.toNat?, tps.toNat? with
    | some a, some b, some c, some d, some t =>
      let h : Hints := { qrh := a, sigh := b, rrh := c, odh := d, tps := t }
      let recs := toks.filterMap recOf
      let blk := build h recs
      let expected := expectedQrs h recs
      let got := blk.qrs.map (resolveQ blk)
      if got == expected then s!"M ok #{got.length}" else s!"M DIFF #{got.length}/{expected.length}"
    | _, _, _, _, _ => "bad-args"
  | _ => "bad-op"

end CdnsVerif.Driver.Bld
