/- driver for the block-building model (C04/C01):
     bld <qrh> <sigh> <rrh> <odh> <tps> <pi|-> <record tokens…>
   record tokens as in the exporter sessions: Q:k=v,…[;st=a.b.c.d.e.f]   A:…   M:…
   answer: M <hex of the block bytes the model writes> #items=<n> -/
import CdnsVerif.Driver.Util
import CdnsVerif.Model.Builder
namespace CdnsVerif.Driver.Bld
open CdnsVerif.Spec.Cbor CdnsVerif.Model CdnsVerif.Model.Builder CdnsVerif.Model.Schema CdnsVerif.Model.Structs CdnsVerif.Model.Timestamp CdnsVerif.Driver

abbrev KV := List (String × String)

def parseKV (s : String) : KV :=
  (s.splitOn ",").filterMap fun f =>
    if f.isEmpty then none else
    match f.splitOn "=" with
    | [k] => some (k, "")
    | k :: rest => some (k, "=".intercalate rest)
    | [] => none

def get (kv : KV) (k : String) : Option String := (kv.find? (·.1 == k)).map (·.2)
def num (kv : KV) (k : String) : Option Nat := (get kv k).bind String.toNat?
def int (kv : KV) (k : String) : Option Int := (get kv k).bind String.toInt?
def xstr (s : String) : Option Bytes := if s.startsWith "x" then ofHexChars (s.toList.drop 1) else none
def str (kv : KV) (k : String) : Option Bytes := (get kv k).bind xstr
def tsOf (s : String) : Option Ts :=
  match s.splitOn "." with
  | [a, b] => do pure ⟨← a.toNat?, ← b.toNat?⟩
  | _ => none

def rrOf (s : String) : Option GRR :=
  match s.splitOn "~" with
  | [n, t, c, ttl, rd] => do
    let name ← xstr n
    let ty ← t.toNat?
    let cl ← c.toNat?
    let ttl' ← if ttl == "-" then some none else ttl.toNat?.map some
    let rd' ← if rd == "-" then some none else (xstr rd).map some
    pure { name := name, type := ty, cls := cl, ttl := ttl', rdata := rd' }
  | _ => none

def rrs (kv : KV) (k : String) : Option (List GRR) :=
  match get kv k with
  | none => none
  | some s => if s.isEmpty then some [] else some ((s.splitOn "+").filterMap rrOf)

def statsOf (s : String) : Option Stats :=
  let p := s.splitOn "."
  if p.length = 6 then some (p.map fun x => if x == "-" then none else x.toNat?) else some [none, none, none, none, none, none]

def parseQ (kv : KV) : GQR := {
  ts := (get kv "ts").bind tsOf, clientIp := str kv "cip", clientPort := num kv "cport", transactionId := num kv "tid",
  serverIp := str kv "sip", serverPort := num kv "sport", transportFlags := num kv "tf", qrType := num kv "qt",
  sigFlags := num kv "sf", opcode := num kv "op", dnsFlags := num kv "df", queryRcode := num kv "qrc",
  classtype := (get kv "ct").bind fun s => match s.splitOn "." with | [a, b] => do pure (← a.toNat?, ← b.toNat?) | _ => none,
  qdcount := num kv "qd", ancount := num kv "an", nscount := num kv "ns", arcount := num kv "ar", ednsVersion := num kv "ev",
  udpSize := num kv "us", optRdata := str kv "ord", responseRcode := num kv "rrc", hoplimit := num kv "hl",
  responseDelay := int kv "rd", queryName := str kv "qn", querySize := num kv "qs", responseSize := num kv "rs",
  bailiwick := str kv "bw", processingFlags := num kv "pf",
  queryQuestions := rrs kv "qq", queryAnswers := rrs kv "qa", queryAuthority := rrs kv "qu", queryAdditional := rrs kv "qx",
  responseQuestions := rrs kv "rq", responseAnswers := rrs kv "ra", responseAuthority := rrs kv "ru", responseAdditional := rrs kv "rx",
  asn := str kv "asn", countryCode := str kv "cc", roundTripTime := int kv "rtt" }

def parseA (kv : KV) : GAEC := {
  aeType := (num kv "at").getD 0, aeCode := num kv "ac", transportFlags := num kv "atf", ip := (str kv "ip").getD [] }

def parseM (kv : KV) : GMM := {
  ts := (get kv "ts").bind tsOf, clientIp := str kv "cip", clientPort := num kv "cport", serverIp := str kv "sip",
  serverPort := num kv "sport", transportFlags := num kv "tf", payload := str kv "pl" }

def recOf (tok : String) : Option Rec :=
  match tok.splitOn ":" with
  | op :: rest =>
    let arg := ":".intercalate rest
    let (body, st) := match arg.splitOn ";" with
      | [x] => (x, none)
      | x :: y :: _ => (x, (get (parseKV y) "st").bind statsOf)
      | [] => ("", none)
    let kv := parseKV body
    if op == "Q" then some (.qr (parseQ kv) st)
    else if op == "A" then some (.aec (parseA kv) st)
    else if op == "M" then some (.mm (parseM kv) st)
    else none
  | [] => none

def handle (args : List String) : String :=
  match args with
  | qrh :: sigh :: rrh :: odh :: tps :: pi :: toks =>
    match qrh.toNat?, sigh.toNat?, rrh.toNat?, odh.toNat?, tps.toNat? with
    | some a, some b, some c, some d, some t =>
      let h : Hints := { qrh := a, sigh := b, rrh := c, odh := d, tps := t }
      let blk := build h (toks.filterMap recOf)
      let v := toVal blk pi.toNat? t
      s!"M {toHex (writeBytes block v)} #items={itemCount blk},conforms={if conformsB block v then "yes" else "no"}"
    | _, _, _, _, _ => "bad-args"
  | _ => "bad-op"

end CdnsVerif.Driver.Bld
