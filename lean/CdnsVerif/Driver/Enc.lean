/- driver for the encoder layer:  `enc <op>;<op>;…`  /  `encv …` (verbose: full hex) -/
import CdnsVerif.Driver.Util
import CdnsVerif.Model.Encoder
namespace CdnsVerif.Driver.Enc
open CdnsVerif.Spec.Cbor CdnsVerif.Model.Encoder CdnsVerif.Driver

def parseOp (tok : String) : Option EncOp :=
  match tok.splitOn ":" with
  | ["as", n] => n.toNat?.map .arrayStart
  | ["ias"] => some .indefArrayStart
  | ["ms", n] => n.toNat?.map .mapStart
  | ["ims"] => some .indefMapStart
  | ["bs", h] => (ofHex h).map .bytestring
  | ["ts", h] => (ofHex h).map .textstring
  | ["bsp", n, k] => do some (.bytestring (pattern (← n.toNat?) (← k.toNat?)))
  | ["tsp", n, k] => do some (.textstring (pattern (← n.toNat?) (← k.toNat?)))
  | ["bsn"] => some .bytestringNull
  | ["tsn"] => some .textstringNull
  | ["brk"] => some .brk
  | ["b", v] => some (.bool (v == "1"))
  | ["u8", n] => n.toNat?.map .u8
  | ["u16", n] => n.toNat?.map .u16
  | ["u32", n] => n.toNat?.map .u32
  | ["u64", n] => n.toNat?.map .u64
  | ["i8", v] => v.toInt?.map .i8
  | ["i16", v] => v.toInt?.map .i16
  | ["i32", v] => v.toInt?.map .i32
  | ["i64", v] => v.toInt?.map .i64
  | _ => none

/-- RFC 8949 reference output, independent of the encoder model (mirrors Props.C06.EncOp.spec;
    the two are proved equal in Props/C06.lean: `driver_spec_eq`) -/
def specOf : EncOp → Bytes
  | .arrayStart n => preferredHead mArr n
  | .indefArrayStart => indefHead mArr
  | .mapStart n => preferredHead mMap n
  | .indefMapStart => indefHead mMap
  | .bytestring bs => preferredHead mBstr bs.length ++ bs
  | .textstring bs => preferredHead mTstr bs.length ++ bs
  | .bytestringNull => []
  | .textstringNull => []
  | .brk => [breakByte]
  | .bool b => [if b then 0xf5 else 0xf4]
  | .u8 n | .u16 n | .u32 n | .u64 n => preferredHead mUint n
  | .i8 v | .i16 v | .i32 v | .i64 v =>
    if v < 0 then preferredHead mNint (-1 - v).toNat else preferredHead mUint v.toNat

def handle (verbose : Bool) (payload : String) : String :=
  let toks := (payload.splitOn ";").filter (· ≠ "")
  match toks.mapM parseOp with
  | none => "bad-op"
  | some ops =>
    let (s, rets) := run EncSt.init ops
    let outM := finish s
    let specs := ops.map specOf
    let outS := specs.flatten
    let retsS := specs.map List.length
    let show_ := fun (bs : Bytes) => if verbose then toHex bs else digest bs
    let r := fun (xs : List Nat) => joinWith "," (xs.map toString)
    s!"M {r rets}|{show_ outM}\tS {r retsS}|{show_ outS}"

end CdnsVerif.Driver.Enc
