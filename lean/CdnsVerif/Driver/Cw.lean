/- driver for the compressing writers' loops (C14, `Model.Writer.cwLifecycle`):
     cw <chunk sizes c1,c2,… or -> <recorded answers of the compressor: consumed:produced:end,…>
   The model is run against a codec that answers what the real compressor answered (in order); printed: every call the model
   makes – <bytes offered>:<finish>:<output space> – and the number of bytes handed to the inner writer.  The harness reports
   the calls the library made to deflate / lzma_code for the same writes; the two sequences must be equal. -/
import CdnsVerif.Driver.Util
import CdnsVerif.Model.Writer
namespace CdnsVerif.Driver.Cw
open CdnsVerif.Model.Writer CdnsVerif.Driver

/-- a codec that replays recorded answers (consumed, bytes produced, stream end) -/
def replayCodec : Codec where
  St := List (Nat × Nat × Bool)
  init := []
  step := fun s _ _ _ =>
    match s with
    | (n, o, e) :: rest => (rest, n, List.replicate o 0, e)
    | [] => ([], 0, [], true)
  decode := fun _ => none

def parseAnswers (s : String) : List (Nat × Nat × Bool) :=
  if s == "-" || s == "" then [] else
  (s.splitOn ",").filterMap fun e =>
    match e.splitOn ":" with
    | [n, o, en] => match n.toNat?, o.toNat? with
      | some n, some o => some (n, o, en == "1")
      | _, _ => none
    | _ => none

def handle (args : List String) : String :=
  match args with
  | [chunks, answers] =>
    let sizes := if chunks == "-" then [] else (chunks.splitOn ",").filterMap String.toNat?
    let ans := parseAnswers answers
    match cwLifecycle replayCodec (ans.length + 2) ans (sizes.map fun n => List.replicate n 0) with
    | some (calls, out) =>
      "M " ++ ",".intercalate (calls.map fun k => s!"{k.avail.length}:{if k.finish then 1 else 0}:{k.space}") ++ s!" | {out.length}"
    | none => "M stuck"
  | _ => "bad-op"

end CdnsVerif.Driver.Cw
