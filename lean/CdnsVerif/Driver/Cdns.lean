/- driver for the independent RFC 8618 reader:  cdns <hex> -/
import CdnsVerif.Driver.Util
import CdnsVerif.Spec.Cdns
namespace CdnsVerif.Driver.CdnsD
open CdnsVerif.Spec.Cdns CdnsVerif.Driver

def handle (args : List String) : String :=
  match args with
  | [h] =>
    match ofHex h with
    | none => "bad-hex"
    | some bs =>
      match interpret bs with
      | .ok f => s!"S {f.dump} #unreach={f.unreach},blocks={f.blocks},empty={f.emptyBlocks}"
      | .error e => s!"S invalid:{e}"
  | _ => "bad-op"

end CdnsVerif.Driver.CdnsD
