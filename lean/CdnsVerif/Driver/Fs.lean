/- driver for the named-output syscall model (C15):  fs <name>:<bytes>,<name>:<bytes>,...
   prints the canonical trace of `Model.Writer.scenarioTrace` (writes merged, only order kept) -/
import CdnsVerif.Driver.Util
import CdnsVerif.Model.Writer
namespace CdnsVerif.Driver.FsD
open CdnsVerif.Model.Writer CdnsVerif.Driver

def canon : List Sys → List String
  | [] => []
  | .write p d :: rest =>
    let r := canon rest
    if d.isEmpty then r else
    match r with
    | x :: xs => if x == s!"w:{p}" then x :: xs else s!"w:{p}" :: x :: xs
    | [] => [s!"w:{p}"]
  | .rename a b :: rest => s!"mv:{a}>{b}:closed" :: canon rest
  | _ :: rest => canon rest

def handle (args : List String) : String :=
  match args with
  | [spec] =>
    let outs := (spec.splitOn ",").filterMap fun s =>
      match s.splitOn ":" with
      | [n, len] => len.toNat?.map fun l => ({ name := n, pieces := if l = 0 then [] else [List.replicate l 0] } : OutSpec)
      | _ => none
    "M " ++ ",".intercalate (canon (scenarioTrace outs))
  | _ => "bad-op"

end CdnsVerif.Driver.FsD
