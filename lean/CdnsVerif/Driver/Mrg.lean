/- driver for the cdns-merge model:  mrg <name,name,...> <name>=<maj.min.priv|n>/<#params>/<pi.nonEmpty.bad+...> ...   (<name>=- : unreadable)
   parameter set j of file number i (in order of definition) has id i*1000+j; block k of file i has content id i*1000+k -/
import CdnsVerif.Driver.Util
import CdnsVerif.Model.Merge
namespace CdnsVerif.Driver.Mrg
open CdnsVerif.Model.Merge CdnsVerif.Driver

def parseFile (idx : Nat) (spec : String) : Option (Option File) :=
  if spec == "-" then some none else
  match spec.splitOn "/" with
  | [ver, np, blks] => do
    let v ← match ver.splitOn "." with
      | [a, b, c] => do some ((← a.toNat?), (← b.toNat?), (if c == "n" then none else c.toNat?))
      | _ => none
    let np ← np.toNat?
    let bl ← (if blks.isEmpty then some [] else (blks.splitOn "+").mapM fun b =>
      match b.splitOn "." with
      | [pi, ne, bad] => do some (← pi.toNat?, ne == "1", bad == "1")
      | _ => none)
    let blocks := (bl.zipIdx).map fun ((pi, ne, bad), k) => (⟨pi, idx * 1000 + k, ne, bad⟩ : Blk)
    some (some ⟨v, (List.range np).map (fun j => idx * 1000 + j), blocks⟩)
  | _ => none

def handle (args : List String) : String :=
  match args with
  | names :: defs =>
    let parsed := (defs.zipIdx).filterMap fun (d, i) =>
      match d.splitOn "=" with
      | [n, spec] => (parseFile i spec).map fun f => (n, f)
      | _ => none
    let fs : Fs := fun n => ((parsed.find? (·.1 == n)).map (·.2)).join
    let m := merge fs (names.splitOn ",")
    let ver := s!"{m.ver.1}.{m.ver.2.1}.{match m.ver.2.2 with | some p => toString p | none => "n"}"
    let ps := ",".intercalate (m.params.map toString)
    let bs := ",".intercalate (m.blocks.map fun b => s!"{b.pi}:{b.src}:{b.content}")
    s!"M {ver} | {ps} | {bs}"
  | _ => "bad-op"

end CdnsVerif.Driver.Mrg
