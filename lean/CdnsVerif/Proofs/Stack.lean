/-
  Lemmas about the output stack (`Model.Stack`): what `flush_buffer`, an emission, `write_block` and `rotate_output` preserve.
  The property theorems built on them are in `Props.C16`.
-/
import CdnsVerif.Model.Stack
namespace CdnsVerif.Model.Stack
open CdnsVerif.Spec.Cbor CdnsVerif.Model.Writer

/-- between the effects of the library: while no failure was reported for the current output, the OS has received exactly
    what was produced minus what still sits in the staging buffer; and every closed output during which nothing threw is complete -/
def Core (s : St) : Prop :=
  (s.w.failed = false → s.w.out ++ s.buf = s.given) ∧ (∀ o ∈ s.closed, o.threw = false → o.os = o.given)

/-- the parts of the state an emission never touches -/
def SameFrame (s s' : St) : Prop := s'.cur = s.cur ∧ s'.bw = s.bw ∧ s'.threw = s.threw ∧ s'.closed = s.closed

theorem SameFrame.refl (s : St) : SameFrame s s := ⟨rfl, rfl, rfl, rfl⟩
theorem SameFrame.trans {a b c : St} (h1 : SameFrame a b) (h2 : SameFrame b c) : SameFrame a c :=
  ⟨h2.1.trans h1.1, h2.2.1.trans h1.2.1, h2.2.2.1.trans h1.2.2.1, h2.2.2.2.trans h1.2.2.2⟩

/-! ### flush_buffer -/

theorem flush_cases (s : St) (r : Resp) :
    (s.buf = [] ∧ flush s r = (s, false)) ∨
    (s.buf ≠ [] ∧ s.w.failed = true ∧ flush s r = ({ s with buf := [] }, false)) ∨
    (s.buf ≠ [] ∧ s.w.failed = false ∧ r = .ok ∧ flush s r = ({ s with w := { s.w with out := s.w.out ++ s.buf }, buf := [] }, false)) ∨
    (s.buf ≠ [] ∧ s.w.failed = false ∧ r ≠ .ok ∧ (flush s r).2 = true ∧ (flush s r).1.w.failed = true ∧
      (flush s r).1.buf = s.buf ∧ (flush s r).1.given = s.given ∧ SameFrame s (flush s r).1) := by
  by_cases hb : s.buf = []
  · left; exact ⟨hb, by simp [flush, hb]⟩
  · right
    cases hf : s.w.failed
    · right
      cases r
      · left; refine ⟨hb, rfl, rfl, ?_⟩; simp [flush, hb, BW.write, hf]
      · right; refine ⟨hb, rfl, by simp, ?_⟩; simp [flush, hb, BW.write, hf, SameFrame]
      · right; refine ⟨hb, rfl, by simp, ?_⟩; simp [flush, hb, BW.write, hf, SameFrame]
    · left; refine ⟨hb, rfl, ?_⟩; simp [flush, hb, BW.write, hf]

theorem flush_frame (s : St) (r : Resp) : SameFrame s (flush s r).1 ∧ (flush s r).1.given = s.given := by
  rcases flush_cases s r with ⟨_, h⟩ | ⟨_, _, h⟩ | ⟨_, _, _, h⟩ | ⟨_, _, _, _, _, _, hg, hfr⟩
  · rw [h]; exact ⟨SameFrame.refl s, rfl⟩
  · rw [h]; exact ⟨⟨rfl, rfl, rfl, rfl⟩, rfl⟩
  · rw [h]; exact ⟨⟨rfl, rfl, rfl, rfl⟩, rfl⟩
  · exact ⟨hfr, hg⟩

theorem flush_core (s : St) (r : Resp) (h : Core s) : Core (flush s r).1 := by
  have hfr := flush_frame s r
  refine ⟨?_, by rw [hfr.1.2.2.2]; exact h.2⟩
  rcases flush_cases s r with ⟨_, e⟩ | ⟨_, hf, e⟩ | ⟨_, hf, _, e⟩ | ⟨_, _, _, _, hf', _, _, _⟩
  · rw [e]; exact h.1
  · rw [e]; intro hh; simp only at hh; rw [hf] at hh; cases hh
  · rw [e]; intro _; simp only [List.append_nil]; exact h.1 hf
  · intro hh; rw [hf'] at hh; cases hh

/-- no exception ⇒ the buffer is empty afterwards, and a healthy writer stays healthy -/
theorem flush_quiet (s : St) (r : Resp) (ht : (flush s r).2 = false) :
    (flush s r).1.buf = [] ∧ (s.w.failed = false → (flush s r).1.w.failed = false) := by
  rcases flush_cases s r with ⟨hb, e⟩ | ⟨_, hf, e⟩ | ⟨_, hf, _, e⟩ | ⟨_, _, _, ht', _⟩
  · rw [e]; exact ⟨hb, id⟩
  · rw [e]; exact ⟨rfl, fun h => by rw [hf] at h; cases h⟩
  · rw [e]; exact ⟨rfl, fun _ => hf⟩
  · rw [ht'] at ht; cases ht

/-- once the failure of the current output was reported, `flush_buffer` is silent and stays so -/
theorem flush_failed (s : St) (r : Resp) (hf : s.w.failed = true) :
    (flush s r).2 = false ∧ (flush s r).1.w.failed = true ∧ (flush s r).1.w.out = s.w.out := by
  rcases flush_cases s r with ⟨_, e⟩ | ⟨_, _, e⟩ | ⟨_, hf', _⟩ | ⟨_, hf', _⟩
  · rw [e]; exact ⟨rfl, hf, rfl⟩
  · rw [e]; exact ⟨rfl, hf, rfl⟩
  · rw [hf] at hf'; cases hf'
  · rw [hf] at hf'; cases hf'

/-- an accepted write on a healthy output does not throw -/
theorem flush_ok (s : St) (hf : s.w.failed = false) : (flush s .ok).2 = false := by
  rcases flush_cases s .ok with ⟨_, e⟩ | ⟨_, _, e⟩ | ⟨_, _, _, e⟩ | ⟨_, _, hr, _⟩
  · rw [e]
  · rw [e]
  · rw [e]
  · exact absurd rfl hr

/-! ### append -/

theorem append_core (s : St) (p : Bytes) (h : Core s) : Core (append s p) := by
  refine ⟨fun hf => ?_, h.2⟩
  show s.w.out ++ (s.buf ++ p) = s.given ++ p
  rw [← List.append_assoc, h.1 hf]

theorem append_frame (s : St) (p : Bytes) : SameFrame s (append s p) := ⟨rfl, rfl, rfl, rfl⟩

/-! ### an emission -/

theorem emit_frame (s : St) (bs : Bytes) (c : Cuts) : SameFrame s (emit s bs c).1 := by
  induction c generalizing s bs with
  | nil => exact append_frame s bs
  | cons e rest ih =>
    obtain ⟨n, fr⟩ := e
    cases fr with
    | none => exact (append_frame s _).trans (ih _ _)
    | some r =>
      simp only [emit]
      have h1 := (append_frame s (bs.take n)).trans (flush_frame (append s (bs.take n)) r).1
      cases ht : (flush (append s (bs.take n)) r).2
      · simp only [ht, Bool.false_eq_true, if_false]; exact h1.trans (ih _ _)
      · simp only [ht, if_true]; exact h1

theorem emit_core (s : St) (bs : Bytes) (c : Cuts) (h : Core s) : Core (emit s bs c).1 := by
  induction c generalizing s bs with
  | nil => exact append_core s bs h
  | cons e rest ih =>
    obtain ⟨n, fr⟩ := e
    cases fr with
    | none => exact ih _ _ (append_core s _ h)
    | some r =>
      simp only [emit]
      have h1 := flush_core _ r (append_core s (bs.take n) h)
      cases ht : (flush (append s (bs.take n)) r).2
      · simp only [ht, Bool.false_eq_true, if_false]; exact ih _ _ h1
      · simp only [ht, if_true]; exact h1

/-- no exception ⇒ everything was produced, and a healthy writer stays healthy -/
theorem emit_quiet (s : St) (bs : Bytes) (c : Cuts) (ht : (emit s bs c).2 = false) :
    (emit s bs c).1.given = s.given ++ bs ∧ (s.w.failed = false → (emit s bs c).1.w.failed = false) := by
  induction c generalizing s bs with
  | nil => exact ⟨rfl, id⟩
  | cons e rest ih =>
    obtain ⟨n, fr⟩ := e
    cases fr with
    | none =>
      have := ih (append s (bs.take n)) (bs.drop n) ht
      refine ⟨?_, this.2⟩
      rw [show emit s bs ((n, none) :: rest) = emit (append s (bs.take n)) (bs.drop n) rest from rfl, this.1]
      show s.given ++ bs.take n ++ bs.drop n = s.given ++ bs
      rw [List.append_assoc, List.take_append_drop]
    | some r =>
      simp only [emit] at ht ⊢
      cases hq : (flush (append s (bs.take n)) r).2
      · simp only [hq, Bool.false_eq_true, if_false] at ht ⊢
        have := ih _ _ ht
        have hfq := flush_quiet _ r hq
        refine ⟨?_, fun hf => this.2 (hfq.2 hf)⟩
        rw [this.1, (flush_frame _ r).2]
        show s.given ++ bs.take n ++ bs.drop n = s.given ++ bs
        rw [List.append_assoc, List.take_append_drop]
      · simp only [hq, if_true] at ht; cases ht

/-- on an output whose failure was already reported an emission is silent (its data is dropped) -/
theorem emit_failed (s : St) (bs : Bytes) (c : Cuts) (hf : s.w.failed = true) :
    (emit s bs c).2 = false ∧ (emit s bs c).1.w.failed = true := by
  induction c generalizing s bs with
  | nil => exact ⟨rfl, hf⟩
  | cons e rest ih =>
    obtain ⟨n, fr⟩ := e
    cases fr with
    | none => exact ih (append s (bs.take n)) _ hf
    | some r =>
      simp only [emit]
      have h1 := flush_failed (append s (bs.take n)) r hf
      simp only [h1.1, Bool.false_eq_true, if_false]
      exact ih _ _ h1.2.1

/-- with every write accepted a healthy output takes an emission without exception -/
theorem emit_ok (s : St) (bs : Bytes) (c : Cuts) (hc : AllOk c) (hf : s.w.failed = false) : (emit s bs c).2 = false := by
  induction c generalizing s bs with
  | nil => rfl
  | cons e rest ih =>
    obtain ⟨n, fr⟩ := e
    have hrest : AllOk rest := fun x hx => hc x (List.mem_cons_of_mem _ hx)
    cases fr with
    | none => exact ih (append s (bs.take n)) _ hrest hf
    | some r =>
      have hr : r = .ok := by
        rcases hc (n, some r) (List.mem_cons_self ..) with h | h
        · cases h
        · exact Option.some.inj h
      subst hr
      simp only [emit]
      have h1 := flush_ok (append s (bs.take n)) hf
      simp only [h1, Bool.false_eq_true, if_false]
      exact ih _ _ hrest ((flush_quiet _ .ok h1).2 hf)

variable (hdr : Bytes) (enc : List Nat → Bytes)

/-! ### write_block -/

theorem writeBlock_core (s : St) (hc bc : Cuts) (h : Core s) : Core (writeBlock hdr enc s hc bc).1 := by
  unfold writeBlock
  by_cases h0 : s.cur = []
  · simp [h0, h]
  · simp only [h0, if_false]
    have hA : Core (if s.bw = 0 then emit s hdr hc else (s, false)).1 := by
      split
      · exact emit_core s hdr hc h
      · exact h
    cases hta : (if s.bw = 0 then emit s hdr hc else (s, false)).2
    · simp only [Bool.false_eq_true, if_false]
      have hB := emit_core _ (enc s.cur) bc hA
      cases htb : (emit (if s.bw = 0 then emit s hdr hc else (s, false)).1 (enc s.cur) bc).2
      · simp only [Bool.false_eq_true, if_false]; exact ⟨hB.1, hB.2⟩
      · simp only [if_true]; exact hB
    · simp only [if_true]; exact hA

/-- an exception out of `write_block()` leaves the buffered records where they were -/
theorem writeBlock_keeps (s : St) (hc bc : Cuts) (ht : (writeBlock hdr enc s hc bc).2 = true) :
    (writeBlock hdr enc s hc bc).1.cur = s.cur ∧ (writeBlock hdr enc s hc bc).1.bw = s.bw := by
  unfold writeBlock at ht ⊢
  by_cases h0 : s.cur = []
  · simp [h0] at ht
  · simp only [h0, if_false] at ht ⊢
    have hA : SameFrame s (if s.bw = 0 then emit s hdr hc else (s, false)).1 := by
      split
      · exact emit_frame s hdr hc
      · exact SameFrame.refl s
    cases hta : (if s.bw = 0 then emit s hdr hc else (s, false)).2
    · simp only [hta, Bool.false_eq_true, if_false] at ht ⊢
      have hB := hA.trans (emit_frame _ (enc s.cur) bc)
      cases htb : (emit (if s.bw = 0 then emit s hdr hc else (s, false)).1 (enc s.cur) bc).2
      · simp only [htb, Bool.false_eq_true, if_false] at ht
      · simp only [if_true]; exact ⟨hB.1, hB.2.1⟩
    · simp only [if_true]; exact ⟨hA.1, hA.2.1⟩

theorem writeBlock_frame (s : St) (hc bc : Cuts) :
    (writeBlock hdr enc s hc bc).1.threw = s.threw ∧ (writeBlock hdr enc s hc bc).1.closed = s.closed := by
  unfold writeBlock
  by_cases h0 : s.cur = []
  · simp [h0]
  · simp only [h0, if_false]
    have hA : SameFrame s (if s.bw = 0 then emit s hdr hc else (s, false)).1 := by
      split
      · exact emit_frame s hdr hc
      · exact SameFrame.refl s
    cases hta : (if s.bw = 0 then emit s hdr hc else (s, false)).2
    · simp only [Bool.false_eq_true, if_false]
      have hB := hA.trans (emit_frame _ (enc s.cur) bc)
      cases htb : (emit (if s.bw = 0 then emit s hdr hc else (s, false)).1 (enc s.cur) bc).2
      · simp only [Bool.false_eq_true, if_false]; exact ⟨hB.2.2.1, hB.2.2.2⟩
      · simp only [if_true]; exact ⟨hB.2.2.1, hB.2.2.2⟩
    · simp only [if_true]; exact ⟨hA.2.2.1, hA.2.2.2⟩

/-- no exception ⇒ a healthy writer stays healthy -/
theorem writeBlock_quiet (s : St) (hc bc : Cuts) (ht : (writeBlock hdr enc s hc bc).2 = false) (hf : s.w.failed = false) :
    (writeBlock hdr enc s hc bc).1.w.failed = false := by
  unfold writeBlock at ht ⊢
  by_cases h0 : s.cur = []
  · simp [h0, hf]
  · simp only [h0, if_false] at ht ⊢
    cases hta : (if s.bw = 0 then emit s hdr hc else (s, false)).2
    · simp only [hta, Bool.false_eq_true, if_false] at ht ⊢
      have hA : (if s.bw = 0 then emit s hdr hc else (s, false)).1.w.failed = false := by
        by_cases hb : s.bw = 0
        · simp only [hb, if_true] at hta ⊢; exact (emit_quiet s hdr hc hta).2 hf
        · simp only [hb, if_false]; exact hf
      cases htb : (emit (if s.bw = 0 then emit s hdr hc else (s, false)).1 (enc s.cur) bc).2
      · simp only [Bool.false_eq_true, if_false]; exact (emit_quiet _ _ bc htb).2 hA
      · simp only [htb, if_true] at ht; cases ht
    · simp only [hta, if_true] at ht; cases ht

/-- the block written to a fresh, healthy output with every write accepted: header and block, nothing lost, nothing thrown -/
theorem writeBlock_fresh (s : St) (hc bc : Cuts) (hok : AllOk hc ∧ AllOk bc) (hf : s.w.failed = false) (hbw : s.bw = 0)
    (hcur : s.cur ≠ []) :
    (writeBlock hdr enc s hc bc).2 = false ∧ (writeBlock hdr enc s hc bc).1.given = s.given ++ hdr ++ enc s.cur ∧
    (writeBlock hdr enc s hc bc).1.cur = [] ∧ (writeBlock hdr enc s hc bc).1.bw = 1 ∧
    (writeBlock hdr enc s hc bc).1.w.failed = false := by
  have h1 := emit_ok s hdr hc hok.1 hf
  have q1 := emit_quiet s hdr hc h1
  have h2 := emit_ok (emit s hdr hc).1 (enc s.cur) bc hok.2 (q1.2 hf)
  have q2 := emit_quiet _ (enc s.cur) bc h2
  have fr := (emit_frame s hdr hc).trans (emit_frame (emit s hdr hc).1 (enc s.cur) bc)
  unfold writeBlock
  simp only [hcur, if_false, hbw, if_true, h1, Bool.false_eq_true, h2]
  refine ⟨trivial, ?_, trivial, ?_, q2.2 (q1.2 hf)⟩
  · rw [q2.1, q1.1]
  · show (emit (emit s hdr hc).1 (enc s.cur) bc).1.bw + 1 = 1
    rw [fr.2.1, hbw]

/-- on an output whose failure was already reported `write_block()` is silent (its data is dropped) -/
theorem writeBlock_failed (s : St) (hc bc : Cuts) (hf : s.w.failed = true) :
    (writeBlock hdr enc s hc bc).2 = false ∧ (writeBlock hdr enc s hc bc).1.w.failed = true := by
  unfold writeBlock
  by_cases h0 : s.cur = []
  · simp [h0, hf]
  · simp only [h0, if_false]
    have hA : (if s.bw = 0 then emit s hdr hc else (s, false)).2 = false ∧
              (if s.bw = 0 then emit s hdr hc else (s, false)).1.w.failed = true := by
      split
      · exact emit_failed s hdr hc hf
      · exact ⟨rfl, hf⟩
    simp only [hA.1, Bool.false_eq_true, if_false]
    have hB := emit_failed _ (enc s.cur) bc hA.2
    simp only [hB.1, Bool.false_eq_true, if_false]
    exact ⟨trivial, hB.2⟩

/-! ### rotate_output -/

theorem rotate_core (s : St) (exp : Bool) (hc bc kc : Cuts) (r : Resp) (h : Core s)
    (hthrew : s.threw = false → s.w.failed = false) :
    Core (rotate hdr enc s exp hc bc kc r).1 ∧
    ((rotate hdr enc s exp hc bc kc r).2 = false → (rotate hdr enc s exp hc bc kc r).1.w.failed = false ∧
      (rotate hdr enc s exp hc bc kc r).1.buf = [] ∧ (rotate hdr enc s exp hc bc kc r).1.given = [] ∧
      (rotate hdr enc s exp hc bc kc r).1.threw = false) := by
  unfold rotate
  -- step 1
  have c1 : Core (if exp then writeBlock hdr enc s hc bc else (s, false)).1 := by
    split
    · exact writeBlock_core hdr enc s hc bc h
    · exact h
  have f1 : (if exp then writeBlock hdr enc s hc bc else (s, false)).1.threw = s.threw ∧
            (if exp then writeBlock hdr enc s hc bc else (s, false)).1.closed = s.closed := by
    split
    · exact writeBlock_frame hdr enc s hc bc
    · exact ⟨rfl, rfl⟩
  have q1 : (if exp then writeBlock hdr enc s hc bc else (s, false)).2 = false → s.w.failed = false →
            (if exp then writeBlock hdr enc s hc bc else (s, false)).1.w.failed = false := by
    split
    · exact fun a b => writeBlock_quiet hdr enc s hc bc a b
    · exact fun _ b => b
  generalize hs1 : (if exp then writeBlock hdr enc s hc bc else (s, false)) = p1 at c1 f1 q1
  obtain ⟨s1, t1⟩ := p1
  cases t1
  · simp only [Bool.false_eq_true, if_false]
    -- step 2
    have c2 : Core (if s1.bw > 0 then emit s1 [0xff] kc else (s1, false)).1 := by
      split
      · exact emit_core s1 _ kc c1
      · exact c1
    have f2 : SameFrame s1 (if s1.bw > 0 then emit s1 [0xff] kc else (s1, false)).1 := by
      split
      · exact emit_frame s1 _ kc
      · exact SameFrame.refl s1
    have q2 : (if s1.bw > 0 then emit s1 [0xff] kc else (s1, false)).2 = false → s1.w.failed = false →
              (if s1.bw > 0 then emit s1 [0xff] kc else (s1, false)).1.w.failed = false := by
      split
      · exact fun a b => (emit_quiet s1 _ kc a).2 b
      · exact fun _ b => b
    generalize hs2 : (if s1.bw > 0 then emit s1 [0xff] kc else (s1, false)) = p2 at c2 f2 q2
    obtain ⟨s2, t2⟩ := p2
    cases t2
    · simp only [Bool.false_eq_true, if_false]
      -- steps 3, 4
      have c3 : Core { s2 with bw := 0 } := ⟨c2.1, c2.2⟩
      have c4 := flush_core { s2 with bw := 0 } r c3
      have f4 := flush_frame { s2 with bw := 0 } r
      cases ht4 : (flush { s2 with bw := 0 } r).2
      · simp only [Bool.false_eq_true, if_false]
        have hq := flush_quiet { s2 with bw := 0 } r ht4
        refine ⟨⟨fun _ => by show ([] : Bytes) ++ _ = []; rw [List.nil_append]; exact hq.1, ?_⟩, fun _ => ⟨trivial, hq.1, trivial, trivial⟩⟩
        intro o ho
        simp only [List.mem_append, List.mem_singleton] at ho
        rcases ho with ho | rfl
        · exact c4.2 o ho
        · intro hth
          simp only at hth ⊢
          -- nothing threw while this output was open: its writer is healthy, its buffer is empty, so the OS has everything
          have hth0 : s.threw = false := by
            have e1 : (flush { s2 with bw := 0 } r).1.threw = s2.threw := f4.1.2.2.1
            have e2 : s2.threw = s1.threw := f2.2.2.1
            rw [e1, e2, f1.1] at hth; exact hth
          have hh1 := q1 rfl (hthrew hth0)
          have hh2 := q2 rfl hh1
          have hh4 := hq.2 hh2
          have := c4.1 hh4
          rw [hq.1, List.append_nil] at this
          exact this
      · simp only [if_true]; exact ⟨c4, fun h => by cases h⟩
    · simp only [if_true]; exact ⟨c2, fun h => by cases h⟩
  · simp only [if_true]; exact ⟨c1, fun h => by cases h⟩

/-- after a reported failure `rotate_output(out, false)` is silent: it returns normally, keeps the buffered records
    and leaves a fresh, healthy, empty output -/
theorem rotate_recovers (s : St) (kc : Cuts) (r : Resp) (hf : s.w.failed = true) :
    (rotate hdr enc s false [] [] kc r).2 = false ∧ (rotate hdr enc s false [] [] kc r).1.cur = s.cur ∧
    (rotate hdr enc s false [] [] kc r).1.bw = 0 ∧ (rotate hdr enc s false [] [] kc r).1.buf = [] ∧
    (rotate hdr enc s false [] [] kc r).1.given = [] ∧ (rotate hdr enc s false [] [] kc r).1.w.failed = false ∧
    (rotate hdr enc s false [] [] kc r).1.threw = false := by
  unfold rotate
  simp only [Bool.false_eq_true, if_false]
  have e2 : (if s.bw > 0 then emit s [0xff] kc else (s, false)).2 = false ∧
            (if s.bw > 0 then emit s [0xff] kc else (s, false)).1.w.failed = true ∧
            SameFrame s (if s.bw > 0 then emit s [0xff] kc else (s, false)).1 := by
    split
    · exact ⟨(emit_failed s _ kc hf).1, (emit_failed s _ kc hf).2, emit_frame s _ kc⟩
    · exact ⟨rfl, hf, SameFrame.refl s⟩
  generalize (if s.bw > 0 then emit s [0xff] kc else (s, false)) = p2 at e2
  obtain ⟨s2, t2⟩ := p2
  obtain ⟨ht2, hf2, fr2⟩ := e2
  simp only at ht2 hf2 fr2
  subst ht2
  simp only [Bool.false_eq_true, if_false]
  have h4 := flush_failed { s2 with bw := 0 } r hf2
  have f4 := flush_frame { s2 with bw := 0 } r
  have q4 := flush_quiet { s2 with bw := 0 } r h4.1
  simp only [h4.1, Bool.false_eq_true, if_false]
  refine ⟨trivial, ?_, ?_, q4.1, trivial, trivial, trivial⟩
  · show (flush { s2 with bw := 0 } r).1.cur = s.cur
    rw [f4.1.1]; exact fr2.1
  · show (flush { s2 with bw := 0 } r).1.bw = 0
    rw [f4.1.2.1]

/-- closing a healthy output with every write accepted: it returns normally and the closed output is complete -/
theorem rotate_closes_ok (s : St) (kc : Cuts) (h : Core s) (hf : s.w.failed = false) (hbw : s.bw > 0) (hok : AllOk kc) :
    (rotate hdr enc s false [] [] kc .ok).2 = false ∧
    (rotate hdr enc s false [] [] kc .ok).1.closed = s.closed ++ [⟨s.given ++ [0xff], s.given ++ [0xff], s.threw⟩] := by
  have h2 := emit_ok s [0xff] kc hok hf
  have q2 := emit_quiet s [0xff] kc h2
  have c2 := emit_core s [0xff] kc h
  have f2 := emit_frame s [0xff] kc
  have c3 : Core { (emit s [0xff] kc).1 with bw := 0 } := ⟨c2.1, c2.2⟩
  have hf3 : ({ (emit s [0xff] kc).1 with bw := 0 } : St).w.failed = false := q2.2 hf
  have h4 := flush_ok { (emit s [0xff] kc).1 with bw := 0 } hf3
  have q4 := flush_quiet { (emit s [0xff] kc).1 with bw := 0 } .ok h4
  have c4 := flush_core { (emit s [0xff] kc).1 with bw := 0 } .ok c3
  have f4 := flush_frame { (emit s [0xff] kc).1 with bw := 0 } .ok
  have hout := c4.1 (q4.2 hf3)
  rw [q4.1, List.append_nil, f4.2] at hout
  unfold rotate
  simp only [Bool.false_eq_true, if_false, hbw, if_true, h2, h4]
  refine ⟨trivial, ?_⟩
  show (flush { (emit s [0xff] kc).1 with bw := 0 } .ok).1.closed ++ _ = _
  rw [f4.1.2.2.2, hout, f4.2, f4.1.2.2.1]
  show (emit s [0xff] kc).1.closed ++ [⟨(emit s [0xff] kc).1.given, (emit s [0xff] kc).1.given, (emit s [0xff] kc).1.threw⟩] = _
  rw [f2.2.2.2, q2.1, f2.2.2.1]

end CdnsVerif.Model.Stack
