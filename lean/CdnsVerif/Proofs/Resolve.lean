/-
  Reading back what was built: index resolution of the stored query/responses of a block built by
  `Model.Builder` gives exactly the hint projection of the records buffered (`resolve_build`).
  Helper lemmas; the property theorem is `Props.C01.records_resolve_to_projection`.
-/
import CdnsVerif.Model.Resolve
import CdnsVerif.Proofs.BuilderReach

namespace CdnsVerif.Model.Builder
open CdnsVerif.Spec.Cbor CdnsVerif.Generated

/-! ### tables only grow at the end: look-ups are stable -/

/-- every successful look-up in `t` gives the same entry in `t'` -/
def LExt {α : Type} (t t' : List α) : Prop := ∀ (i : Nat) (x : α), t[i]? = some x → t'[i]? = some x

theorem LExt.refl {α : Type} (t : List α) : LExt t t := fun _ _ h => h
theorem LExt.trans {α : Type} {a b c : List α} (h1 : LExt a b) (h2 : LExt b c) : LExt a c := fun i x h => h2 i x (h1 i x h)

theorem lext_addDedup {α : Type} [DecidableEq α] (t : List α) (x : α) :
    LExt t (addDedup t x).1 ∧ (addDedup t x).1[(addDedup t x).2]? = some x := by
  unfold addDedup
  by_cases h : t.idxOf x < t.length
  · rw [if_pos h]
    refine ⟨LExt.refl t, ?_⟩
    simp only
    rw [List.getElem?_eq_getElem h, List.getElem_idxOf h]
  · rw [if_neg h]
    refine ⟨?_, by simp⟩
    intro i y hy
    have hi : i < t.length := by
      rcases Nat.lt_or_ge i t.length with h' | h'
      · exact h'
      · rw [List.getElem?_eq_none h'] at hy; cases hy
    simp only
    rw [List.getElem?_append_left hi]; exact hy

structure Ext (b b' : Blk) : Prop where
  ip : LExt b.ip b'.ip
  ct : LExt b.ct b'.ct
  nr : LExt b.nr b'.nr
  sig : LExt b.sig b'.sig
  qlist : LExt b.qlist b'.qlist
  qrr : LExt b.qrr b'.qrr
  rrlist : LExt b.rrlist b'.rrlist
  rr : LExt b.rr b'.rr
  mmd : LExt b.mmd b'.mmd

theorem Ext.refl (b : Blk) : Ext b b := ⟨LExt.refl _, LExt.refl _, LExt.refl _, LExt.refl _, LExt.refl _, LExt.refl _, LExt.refl _, LExt.refl _, LExt.refl _⟩
theorem Ext.trans {a b c : Blk} (h1 : Ext a b) (h2 : Ext b c) : Ext a c :=
  ⟨h1.ip.trans h2.ip, h1.ct.trans h2.ct, h1.nr.trans h2.nr, h1.sig.trans h2.sig, h1.qlist.trans h2.qlist, h1.qrr.trans h2.qrr,
   h1.rrlist.trans h2.rrlist, h1.rr.trans h2.rr, h1.mmd.trans h2.mmd⟩

theorem ext_addIp (b : Blk) (x : Bytes) : Ext b (addIp b x).1 ∧ (addIp b x).1.ip[(addIp b x).2]? = some x :=
  ⟨⟨(lext_addDedup b.ip x).1, LExt.refl _, LExt.refl _, LExt.refl _, LExt.refl _, LExt.refl _, LExt.refl _, LExt.refl _, LExt.refl _⟩, (lext_addDedup b.ip x).2⟩
theorem ext_addCt (b : Blk) (x : Nat × Nat) : Ext b (addCt b x).1 ∧ (addCt b x).1.ct[(addCt b x).2]? = some x :=
  ⟨⟨LExt.refl _, (lext_addDedup b.ct x).1, LExt.refl _, LExt.refl _, LExt.refl _, LExt.refl _, LExt.refl _, LExt.refl _, LExt.refl _⟩, (lext_addDedup b.ct x).2⟩
theorem ext_addNr (b : Blk) (x : Bytes) : Ext b (addNr b x).1 ∧ (addNr b x).1.nr[(addNr b x).2]? = some x :=
  ⟨⟨LExt.refl _, LExt.refl _, (lext_addDedup b.nr x).1, LExt.refl _, LExt.refl _, LExt.refl _, LExt.refl _, LExt.refl _, LExt.refl _⟩, (lext_addDedup b.nr x).2⟩
theorem ext_addSig (b : Blk) (x : Sig) : Ext b (addSig b x).1 ∧ (addSig b x).1.sig[(addSig b x).2]? = some x :=
  ⟨⟨LExt.refl _, LExt.refl _, LExt.refl _, (lext_addDedup b.sig x).1, LExt.refl _, LExt.refl _, LExt.refl _, LExt.refl _, LExt.refl _⟩, (lext_addDedup b.sig x).2⟩
theorem ext_addQl (b : Blk) (x : List Nat) : Ext b (addQl b x).1 ∧ (addQl b x).1.qlist[(addQl b x).2]? = some x :=
  ⟨⟨LExt.refl _, LExt.refl _, LExt.refl _, LExt.refl _, (lext_addDedup b.qlist x).1, LExt.refl _, LExt.refl _, LExt.refl _, LExt.refl _⟩, (lext_addDedup b.qlist x).2⟩
theorem ext_addQrr (b : Blk) (x : Nat × Nat) : Ext b (addQrr b x).1 ∧ (addQrr b x).1.qrr[(addQrr b x).2]? = some x :=
  ⟨⟨LExt.refl _, LExt.refl _, LExt.refl _, LExt.refl _, LExt.refl _, (lext_addDedup b.qrr x).1, LExt.refl _, LExt.refl _, LExt.refl _⟩, (lext_addDedup b.qrr x).2⟩
theorem ext_addRl (b : Blk) (x : List Nat) : Ext b (addRl b x).1 ∧ (addRl b x).1.rrlist[(addRl b x).2]? = some x :=
  ⟨⟨LExt.refl _, LExt.refl _, LExt.refl _, LExt.refl _, LExt.refl _, LExt.refl _, (lext_addDedup b.rrlist x).1, LExt.refl _, LExt.refl _⟩, (lext_addDedup b.rrlist x).2⟩
theorem ext_addRr (b : Blk) (x : RRe) : Ext b (addRr b x).1 ∧ (addRr b x).1.rr[(addRr b x).2]? = some x :=
  ⟨⟨LExt.refl _, LExt.refl _, LExt.refl _, LExt.refl _, LExt.refl _, LExt.refl _, LExt.refl _, (lext_addDedup b.rr x).1, LExt.refl _⟩, (lext_addDedup b.rr x).2⟩
theorem ext_addMmd (b : Blk) (x : MMD) : Ext b (addMmd b x).1 ∧ (addMmd b x).1.mmd[(addMmd b x).2]? = some x :=
  ⟨⟨LExt.refl _, LExt.refl _, LExt.refl _, LExt.refl _, LExt.refl _, LExt.refl _, LExt.refl _, LExt.refl _, (lext_addDedup b.mmd x).1⟩, (lext_addDedup b.mmd x).2⟩

/-! ### resolution is stable under extension -/

theorem resolveQrr_ext {b b' : Blk} (h : Ext b b') (j : Nat) (r : GRR) (hr : resolveQrr b j = some r) : resolveQrr b' j = some r := by
  unfold resolveQrr at hr ⊢
  cases hp : b.qrr[j]? with
  | none => simp [hp] at hr
  | some p =>
    simp only [hp] at hr
    rw [h.qrr j p hp]
    simp only
    cases hn : b.nr[p.1]? with
    | none => simp [hn] at hr
    | some n =>
      cases hc : b.ct[p.2]? with
      | none => simp [hn, hc] at hr
      | some c =>
        simp only [hn, hc] at hr
        rw [h.nr _ n hn, h.ct _ c hc]
        exact hr

theorem resolveRr_ext {b b' : Blk} (h : Ext b b') (j : Nat) (r : GRR) (hr : resolveRr b j = some r) : resolveRr b' j = some r := by
  unfold resolveRr at hr ⊢
  cases hp : b.rr[j]? with
  | none => simp [hp] at hr
  | some p =>
    simp only [hp] at hr
    rw [h.rr j p hp]
    simp only
    cases hn : b.nr[p.name]? with
    | none => simp [hn] at hr
    | some n =>
      cases hc : b.ct[p.ct]? with
      | none => simp [hn, hc] at hr
      | some c =>
        simp only [hn, hc] at hr
        rw [h.nr _ n hn, h.ct _ c hc]
        simp only
        cases hd : p.rdata with
        | none => simp only [hd] at hr ⊢; exact hr
        | some k =>
          simp only [hd] at hr ⊢
          cases hk : b.nr[k]? with
          | none => simp [hk] at hr
          | some d => rw [h.nr _ d hk]; simp only [hk] at hr; exact hr

theorem mapM_ext {f f' : Nat → Option GRR} (hf : ∀ j r, f j = some r → f' j = some r) (l : List Nat) (rs : List GRR)
    (h : l.mapM f = some rs) : l.mapM f' = some rs := by
  induction l generalizing rs with
  | nil => simpa using h
  | cons j l ih =>
    simp only [List.mapM_cons, Option.bind_eq_bind] at h ⊢
    cases hj : f j with
    | none => simp [hj] at h
    | some r =>
      simp only [hj, Option.bind_some] at h
      cases hl : l.mapM f with
      | none => simp [hl] at h
      | some rs' =>
        simp only [hl, Option.bind_some] at h
        rw [hf j r hj, ih rs' hl]
        exact h

theorem resolveQl_ext {b b' : Blk} (h : Ext b b') (i : Nat) (rs : List GRR) (hr : resolveQl b i = some rs) : resolveQl b' i = some rs := by
  unfold resolveQl at hr ⊢
  cases hl : b.qlist[i]? with
  | none => simp [hl] at hr
  | some l =>
    simp only [hl, Option.bind_some] at hr
    rw [h.qlist i l hl]
    exact mapM_ext (resolveQrr_ext h) l rs hr

theorem resolveRl_ext {b b' : Blk} (h : Ext b b') (i : Nat) (rs : List GRR) (hr : resolveRl b i = some rs) : resolveRl b' i = some rs := by
  unfold resolveRl at hr ⊢
  cases hl : b.rrlist[i]? with
  | none => simp [hl] at hr
  | some l =>
    simp only [hl, Option.bind_some] at hr
    rw [h.rrlist i l hl]
    exact mapM_ext (resolveRr_ext h) l rs hr

/-! ### every building step extends the tables -/

theorem ext_addOpt (c : Bool) (o : Option α) (add : Blk → α → Blk × Nat) (b : Blk) (hadd : ∀ b x, Ext b (add b x).1) :
    Ext b (addOpt c o add b).1 := by
  unfold addOpt
  cases c <;> cases o <;> first | exact Ext.refl b | exact hadd b _

theorem ext_qlStep (acc : Blk × List Nat) (g : GRR) : Ext acc.1 (qlStep acc g).1 :=
  ((ext_addNr _ _).1.trans (ext_addCt _ _).1).trans (ext_addQrr _ _).1

theorem ext_foldl (step : Blk × List Nat → GRR → Blk × List Nat) (hs : ∀ acc g, Ext acc.1 (step acc g).1)
    (gs : List GRR) (acc : Blk × List Nat) : Ext acc.1 (gs.foldl step acc).1 := by
  induction gs generalizing acc with
  | nil => exact Ext.refl _
  | cons g gs ih => exact (hs acc g).trans (ih (step acc g))

theorem ext_addGenericQlist (b : Blk) (g : List GRR) : Ext b (addGenericQlist b g).1 :=
  (ext_foldl qlStep ext_qlStep g (b, [])).trans (ext_addQl _ _).1

theorem ext_rrStep (h : Hints) (acc : Blk × List Nat) (g : GRR) : Ext acc.1 (rrStep h acc g).1 :=
  (((ext_addNr _ _).1.trans (ext_addCt _ _).1).trans (ext_addOpt _ _ addNr _ (fun b x => (ext_addNr b x).1))).trans (ext_addRr _ _).1

theorem ext_addGenericRrlist (h : Hints) (b : Blk) (g : List GRR) : Ext b (addGenericRrlist h b g).1 :=
  (ext_foldl (rrStep h) (ext_rrStep h) g (b, [])).trans (ext_addRl _ _).1

theorem ext_addSection (c : Bool) (o : Option (List GRR)) (add : Blk → List GRR → Blk × Nat) (b : Blk)
    (hadd : ∀ b x, Ext b (add b x).1) : Ext b (addSection c o add b).1 := by
  unfold addSection
  split
  · exact hadd b _
  · exact Ext.refl b

theorem ext_buildSig (h : Hints) (g : GQR) (b : Blk) : Ext b (buildSig h g b).1 := by
  unfold buildSig
  split
  · exact Ext.refl b
  · simp only
    have k3 := ((ext_addOpt (on h.sigh QueryResponseSignatureHintsMask.server_address_index) g.serverIp addIp b (fun b x => (ext_addIp b x).1)).trans
      (ext_addOpt (on h.sigh QueryResponseSignatureHintsMask.query_classtype_index) g.classtype addCt _ (fun b x => (ext_addCt b x).1))).trans
      (ext_addOpt (on h.sigh QueryResponseSignatureHintsMask.query_opt_rdata_index) g.optRdata addNr _ (fun b x => (ext_addNr b x).1))
    split
    · exact k3.trans (ext_addSig _ _).1
    · exact k3

/-! ### what an index returned by a building step resolves to -/

/-- `idx` addresses `v` in table `t` (both absent, or the entry at `idx` is `v`) -/
def Looks {α : Type} (t : List α) (idx : Option Nat) (v : Option α) : Prop :=
  match idx, v with
  | none, none => True
  | some i, some x => t[i]? = some x
  | _, _ => False

theorem Looks.ext {α : Type} {t t' : List α} {idx : Option Nat} {v : Option α} (h : LExt t t') (hl : Looks t idx v) : Looks t' idx v := by
  cases idx <;> cases v <;> simp only [Looks] at hl ⊢
  exact h _ _ hl

theorem Looks.bind {α : Type} {t : List α} {idx : Option Nat} {v : Option α} (hl : Looks t idx v) : (idx.bind fun i => t[i]?) = v := by
  cases idx <;> cases v <;> simp only [Looks] at hl <;> simp [hl]

theorem Looks.none_iff {α : Type} {t : List α} {idx : Option Nat} {v : Option α} (hl : Looks t idx v) : idx = none ↔ v = none := by
  cases idx <;> cases v <;> simp only [Looks] at hl <;> simp

theorem looks_addOpt {α : Type} (c : Bool) (o : Option α) (add : Blk → α → Blk × Nat) (tbl : Blk → List α) (b : Blk)
    (hadd : ∀ b x, (tbl (add b x).1)[(add b x).2]? = some x) : Looks (tbl (addOpt c o add b).1) (addOpt c o add b).2 (keep c o) := by
  unfold addOpt keep
  cases c <;> cases o <;> simp only [Looks, if_true, Bool.false_eq_true, if_false]
  exact hadd b _

/-! ### question and resource-record lists -/

theorem mapM_snoc {f : Nat → Option GRR} (l : List Nat) (j : Nat) (rs : List GRR) (r : GRR) (hl : l.mapM f = some rs) (hj : f j = some r) :
    (l ++ [j]).mapM f = some (rs ++ [r]) := by
  induction l generalizing rs with
  | nil => simp only [List.mapM_nil] at hl; cases hl; simp [hj]
  | cons a l ih =>
    simp only [List.mapM_cons, Option.bind_eq_bind] at hl
    cases ha : f a with
    | none => simp [ha] at hl
    | some ra =>
      simp only [ha, Option.bind_some] at hl
      cases hl' : l.mapM f with
      | none => simp [hl'] at hl
      | some rs' =>
        simp only [hl', Option.bind_some] at hl
        cases hl
        simp only [List.cons_append, List.mapM_cons, Option.bind_eq_bind, ha, Option.bind_some, ih rs' hl']
        rfl

theorem qlStep_resolves (acc : Blk × List Nat) (g : GRR) :
    ∃ j, (qlStep acc g).2 = acc.2 ++ [j] ∧ resolveQrr (qlStep acc g).1 j = some (projQuestion g) := by
  unfold qlStep
  obtain ⟨e1, l1⟩ := ext_addNr acc.1 g.name
  obtain ⟨e2, l2⟩ := ext_addCt (addNr acc.1 g.name).1 (g.type, g.cls)
  obtain ⟨e3, l3⟩ := ext_addQrr (addCt (addNr acc.1 g.name).1 (g.type, g.cls)).1 ((addNr acc.1 g.name).2, (addCt (addNr acc.1 g.name).1 (g.type, g.cls)).2)
  refine ⟨_, rfl, ?_⟩
  unfold resolveQrr
  simp only [l3]
  rw [e3.nr _ _ (e2.nr _ _ l1), e3.ct _ _ l2]
  rfl

theorem fold_qlStep_resolves (gs : List GRR) (acc : Blk × List Nat) (done : List GRR)
    (hacc : acc.2.mapM (resolveQrr acc.1) = some (done.map projQuestion)) :
    (gs.foldl qlStep acc).2.mapM (resolveQrr (gs.foldl qlStep acc).1) = some ((done ++ gs).map projQuestion) := by
  induction gs generalizing acc done with
  | nil => simpa using hacc
  | cons g gs ih =>
    obtain ⟨j, hj, hr⟩ := qlStep_resolves acc g
    have hstep : (qlStep acc g).2.mapM (resolveQrr (qlStep acc g).1) = some ((done ++ [g]).map projQuestion) := by
      rw [hj, List.map_append]
      exact mapM_snoc acc.2 j _ _ (mapM_ext (resolveQrr_ext (ext_qlStep acc g)) acc.2 _ hacc) hr
    have := ih (qlStep acc g) (done ++ [g]) hstep
    simpa [List.append_assoc] using this

theorem addGenericQlist_resolves (b : Blk) (g : List GRR) :
    resolveQl (addGenericQlist b g).1 (addGenericQlist b g).2 = some (g.map projQuestion) := by
  unfold addGenericQlist
  have hf := fold_qlStep_resolves g (b, []) [] (by simp)
  simp only [List.nil_append] at hf
  obtain ⟨e, l⟩ := ext_addQl (g.foldl qlStep (b, [])).1 (g.foldl qlStep (b, [])).2
  unfold resolveQl
  simp only [l, Option.bind_some]
  exact mapM_ext (resolveQrr_ext e) _ _ hf

theorem rrStep_resolves (h : Hints) (acc : Blk × List Nat) (g : GRR) :
    ∃ j, (rrStep h acc g).2 = acc.2 ++ [j] ∧ resolveRr (rrStep h acc g).1 j = some (projRR h g) := by
  unfold rrStep
  let B1 := (addNr acc.1 g.name).1
  let B2 := (addCt B1 (g.type, g.cls)).1
  let R3 := addOpt (on h.rrh RrHintsMask.rdata_index) g.rdata addNr B2
  let E : RRe := { name := (addNr acc.1 g.name).2, ct := (addCt B1 (g.type, g.cls)).2, ttl := keep (on h.rrh RrHintsMask.ttl) g.ttl, rdata := R3.2 }
  obtain ⟨e1, l1⟩ := ext_addNr acc.1 g.name
  obtain ⟨e2, l2⟩ := ext_addCt B1 (g.type, g.cls)
  have e3 : Ext B2 R3.1 := ext_addOpt _ _ addNr B2 (fun b x => (ext_addNr b x).1)
  have l3 : Looks R3.1.nr R3.2 (keep (on h.rrh RrHintsMask.rdata_index) g.rdata) :=
    looks_addOpt _ _ addNr (fun b => b.nr) B2 (fun b x => (ext_addNr b x).2)
  obtain ⟨e4, l4⟩ := ext_addRr R3.1 E
  refine ⟨_, rfl, ?_⟩
  show resolveRr (addRr R3.1 E).1 (addRr R3.1 E).2 = some (projRR h g)
  unfold resolveRr
  simp only [l4]
  have hn : (addRr R3.1 E).1.nr[E.name]? = some g.name := e4.nr _ _ (e3.nr _ _ (e2.nr _ _ l1))
  have hc : (addRr R3.1 E).1.ct[E.ct]? = some (g.type, g.cls) := e4.ct _ _ (e3.ct _ _ l2)
  rw [hn, hc]
  simp only
  have l3' := l3.ext e4.nr
  have hErd : E.rdata = R3.2 := rfl
  have hEttl : E.ttl = keep (on h.rrh RrHintsMask.ttl) g.ttl := rfl
  cases hrd : R3.2 with
  | none =>
    have : keep (on h.rrh RrHintsMask.rdata_index) g.rdata = none := (l3.none_iff).1 hrd
    simp only [hErd, hEttl, hrd, projRR, this]
  | some k =>
    rw [hrd] at l3'
    cases hk : keep (on h.rrh RrHintsMask.rdata_index) g.rdata with
    | none => rw [hk] at l3'; simp [Looks] at l3'
    | some d =>
      rw [hk] at l3'
      simp only [Looks] at l3'
      simp only [hErd, hEttl, hrd, l3', Option.map_some, projRR, hk]

theorem fold_rrStep_resolves (h : Hints) (gs : List GRR) (acc : Blk × List Nat) (done : List GRR)
    (hacc : acc.2.mapM (resolveRr acc.1) = some (done.map (projRR h))) :
    (gs.foldl (rrStep h) acc).2.mapM (resolveRr (gs.foldl (rrStep h) acc).1) = some ((done ++ gs).map (projRR h)) := by
  induction gs generalizing acc done with
  | nil => simpa using hacc
  | cons g gs ih =>
    obtain ⟨j, hj, hr⟩ := rrStep_resolves h acc g
    have hstep : (rrStep h acc g).2.mapM (resolveRr (rrStep h acc g).1) = some ((done ++ [g]).map (projRR h)) := by
      rw [hj, List.map_append]
      exact mapM_snoc acc.2 j _ _ (mapM_ext (resolveRr_ext (ext_rrStep h acc g)) acc.2 _ hacc) hr
    have := ih (rrStep h acc g) (done ++ [g]) hstep
    simpa [List.append_assoc] using this

theorem addGenericRrlist_resolves (h : Hints) (b : Blk) (g : List GRR) :
    resolveRl (addGenericRrlist h b g).1 (addGenericRrlist h b g).2 = some (g.map (projRR h)) := by
  unfold addGenericRrlist
  have hf := fold_rrStep_resolves h g (b, []) [] (by simp)
  simp only [List.nil_append] at hf
  obtain ⟨e, l⟩ := ext_addRl (g.foldl (rrStep h) (b, [])).1 (g.foldl (rrStep h) (b, [])).2
  unfold resolveRl
  simp only [l, Option.bind_some]
  exact mapM_ext (resolveRr_ext e) _ _ hf

/-- a section index addresses the projected section -/
def LooksL (res : Blk → Nat → Option (List GRR)) (b : Blk) (idx : Option Nat) (v : Option (List GRR)) : Prop :=
  match idx, v with
  | none, none => True
  | some i, some rs => res b i = some rs
  | _, _ => False

theorem LooksL.bind {res : Blk → Nat → Option (List GRR)} {b : Blk} {idx : Option Nat} {v : Option (List GRR)}
    (hl : LooksL res b idx v) : idx.bind (res b) = v := by
  cases idx <;> cases v <;> simp only [LooksL] at hl <;> simp [hl]

theorem LooksL.ext {res : Blk → Nat → Option (List GRR)} {b b' : Blk} {idx : Option Nat} {v : Option (List GRR)}
    (hres : ∀ i rs, res b i = some rs → res b' i = some rs) (hl : LooksL res b idx v) : LooksL res b' idx v := by
  cases idx <;> cases v <;> simp only [LooksL] at hl ⊢
  exact hres _ _ hl

theorem looks_addSection (res : Blk → Nat → Option (List GRR)) (c : Bool) (o : Option (List GRR)) (add : Blk → List GRR → Blk × Nat)
    (f : GRR → GRR) (b : Blk) (hadd : ∀ b x, res (add b x).1 (add b x).2 = some (x.map f)) :
    LooksL res (addSection c o add b).1 (addSection c o add b).2 (projSection c o f) := by
  unfold addSection projSection
  split
  · rename_i x xs
    simp only [LooksL]
    exact hadd b (x :: xs)
  · rename_i hne
    cases c <;> cases o <;> simp only [LooksL]

/-! ### the signature -/

theorem keep_false {α : Type} (o : Option α) : keep false o = none := rfl
theorem keep_none_of_isSome_false {α : Type} {c : Bool} {o : Option α} (h : (keep c o).isSome = false) : keep c o = none := by
  cases hk : keep c o <;> simp_all

/-- what the signature member of the stored record resolves to, in any later state of the tables -/
theorem buildSig_resolves (h : Hints) (g : GQR) (b final : Blk) (hext : Ext (buildSig h g b).1 final) :
    let s : Sig := ((buildSig h g b).2.bind fun i => final.sig[i]?).getD {}
    let sigOn := on h.qrh QueryResponseHintsMask.qr_signature_index
    (s.sai.bind fun i => final.ip[i]?) = keep (sigOn && on h.sigh QueryResponseSignatureHintsMask.server_address_index) g.serverIp ∧
    (s.cti.bind fun i => final.ct[i]?) = keep (sigOn && on h.sigh QueryResponseSignatureHintsMask.query_classtype_index) g.classtype ∧
    (s.ordi.bind fun i => final.nr[i]?) = keep (sigOn && on h.sigh QueryResponseSignatureHintsMask.query_opt_rdata_index) g.optRdata ∧
    s.port = keep (sigOn && on h.sigh QueryResponseSignatureHintsMask.server_port) g.serverPort ∧
    s.tf = keep (sigOn && on h.sigh QueryResponseSignatureHintsMask.qr_transport_flags) g.transportFlags ∧
    s.qt = keep (sigOn && on h.sigh QueryResponseSignatureHintsMask.qr_type) g.qrType ∧
    s.sf = keep (sigOn && on h.sigh QueryResponseSignatureHintsMask.qr_sig_flags) g.sigFlags ∧
    s.op = keep (sigOn && on h.sigh QueryResponseSignatureHintsMask.query_opcode) g.opcode ∧
    s.df = keep (sigOn && on h.sigh QueryResponseSignatureHintsMask.qr_dns_flags) g.dnsFlags ∧
    s.qrc = keep (sigOn && on h.sigh QueryResponseSignatureHintsMask.query_rcode) g.queryRcode ∧
    s.qd = keep (sigOn && on h.sigh QueryResponseSignatureHintsMask.query_qdcount) g.qdcount ∧
    s.an = keep (sigOn && on h.sigh QueryResponseSignatureHintsMask.query_ancount) g.ancount ∧
    s.ns = keep (sigOn && on h.sigh QueryResponseSignatureHintsMask.query_nscount) g.nscount ∧
    s.ar = keep (sigOn && on h.sigh QueryResponseSignatureHintsMask.query_arcount) g.arcount ∧
    s.ev = keep (sigOn && on h.sigh QueryResponseSignatureHintsMask.query_edns_version) g.ednsVersion ∧
    s.us = keep (sigOn && on h.sigh QueryResponseSignatureHintsMask.query_udp_size) g.udpSize ∧
    s.rrc = keep (sigOn && on h.sigh QueryResponseSignatureHintsMask.response_rcode) g.responseRcode := by
  intro s sigOn
  by_cases hon : on h.qrh QueryResponseHintsMask.qr_signature_index = true
  · -- signatures are stored
    have hson : sigOn = true := hon
    let c1 := on h.sigh QueryResponseSignatureHintsMask.server_address_index
    let c2 := on h.sigh QueryResponseSignatureHintsMask.query_classtype_index
    let c3 := on h.sigh QueryResponseSignatureHintsMask.query_opt_rdata_index
    let B1 := (addOpt c1 g.serverIp addIp b).1
    let B2 := (addOpt c2 g.classtype addCt B1).1
    let B3 := (addOpt c3 g.optRdata addNr B2).1
    let S := mkSig h g (addOpt c1 g.serverIp addIp b).2 (addOpt c2 g.classtype addCt B1).2 (addOpt c3 g.optRdata addNr B2).2
    have k1 : Looks B1.ip (addOpt c1 g.serverIp addIp b).2 (keep c1 g.serverIp) := looks_addOpt c1 g.serverIp addIp (fun b => b.ip) b (fun b x => (ext_addIp b x).2)
    have k2 : Looks B2.ct (addOpt c2 g.classtype addCt B1).2 (keep c2 g.classtype) := looks_addOpt c2 g.classtype addCt (fun b => b.ct) B1 (fun b x => (ext_addCt b x).2)
    have k3 : Looks B3.nr (addOpt c3 g.optRdata addNr B2).2 (keep c3 g.optRdata) := looks_addOpt c3 g.optRdata addNr (fun b => b.nr) B2 (fun b x => (ext_addNr b x).2)
    have x2 : Ext B1 B2 := ext_addOpt c2 g.classtype addCt B1 (fun b x => (ext_addCt b x).1)
    have x3 : Ext B2 B3 := ext_addOpt c3 g.optRdata addNr B2 (fun b x => (ext_addNr b x).1)
    have hnot : (!on h.qrh QueryResponseHintsMask.qr_signature_index) = false := by simp [hon]
    by_cases hf : S.filled = true
    · -- a signature is added (or found)
      have hres : buildSig h g b = ((addSig B3 S).1, some (addSig B3 S).2) := by
        unfold buildSig; simp only [hnot, Bool.false_eq_true, if_false]
        show (if S.filled = true then _ else _) = _
        rw [if_pos hf]
      rw [hres] at hext
      obtain ⟨x4, l4⟩ := ext_addSig B3 S
      have hs : s = S := by
        show ((buildSig h g b).2.bind fun i => final.sig[i]?).getD {} = S
        rw [hres]; simp only [Option.bind_some]
        rw [hext.sig _ _ l4]; rfl
      have xf3 : Ext B3 final := x4.trans hext
      rw [hs, hson]
      refine ⟨(k1.ext ((x2.trans x3).trans xf3).ip).bind, (k2.ext (x3.trans xf3).ct).bind, (k3.ext xf3.nr).bind, ?_⟩
      simp only [Bool.true_and]
      exact ⟨rfl, rfl, rfl, rfl, rfl, rfl, rfl, rfl, rfl, rfl, rfl, rfl, rfl, rfl⟩
    · -- nothing to store in a signature
      have hnf : S.filled = false := by simpa using hf
      have hres : buildSig h g b = (B3, none) := by
        unfold buildSig; simp only [hnot, Bool.false_eq_true, if_false]
        show (if S.filled = true then _ else _) = _
        rw [if_neg hf]
      have hs : s = {} := by
        show ((buildSig h g b).2.bind fun i => final.sig[i]?).getD {} = {}
        rw [hres]; rfl
      rw [hs, hson]
      simp only [Sig.filled, mkSig, S, Bool.or_eq_false_iff] at hnf
      obtain ⟨⟨⟨⟨⟨⟨⟨⟨⟨⟨⟨⟨⟨⟨⟨⟨h1, h2⟩, h3⟩, h4⟩, h5⟩, h6⟩, h7⟩, h8⟩, h9⟩, h10⟩, h11⟩, h12⟩, h13⟩, h14⟩, h15⟩, h16⟩, h17⟩ := hnf
      have n1 : keep c1 g.serverIp = none := (k1.none_iff).1 (isSome_eq_false_iff.1 h1)
      have n9 : keep c2 g.classtype = none := (k2.none_iff).1 (isSome_eq_false_iff.1 h9)
      have n16 : keep c3 g.optRdata = none := (k3.none_iff).1 (isSome_eq_false_iff.1 h16)
      simp only [Bool.true_and]
      exact ⟨n1.symm, n9.symm, n16.symm, (keep_none_of_isSome_false h2).symm, (keep_none_of_isSome_false h3).symm,
        (keep_none_of_isSome_false h4).symm, (keep_none_of_isSome_false h5).symm, (keep_none_of_isSome_false h6).symm,
        (keep_none_of_isSome_false h7).symm, (keep_none_of_isSome_false h8).symm, (keep_none_of_isSome_false h10).symm,
        (keep_none_of_isSome_false h11).symm, (keep_none_of_isSome_false h12).symm, (keep_none_of_isSome_false h13).symm,
        (keep_none_of_isSome_false h14).symm, (keep_none_of_isSome_false h15).symm, (keep_none_of_isSome_false h17).symm⟩
  · -- signatures are not stored at all
    have hoff : on h.qrh QueryResponseHintsMask.qr_signature_index = false := by simpa using hon
    have hson : sigOn = false := hoff
    have hres : buildSig h g b = (b, none) := by unfold buildSig; simp [hoff]
    have hs : s = {} := by
      show ((buildSig h g b).2.bind fun i => final.sig[i]?).getD {} = {}
      rw [hres]; rfl
    rw [hs, hson]
    simp [keep_false]

/-! ### the record -/

theorem rpd_bw (bw flags : Option Nat) :
    ((if (bw.isSome || flags.isSome) = true then some ({ bw := bw, flags := flags } : RPD) else none).bind (·.bw)) = bw := by
  cases bw <;> cases flags <;> simp

theorem rpd_flags (bw flags : Option Nat) :
    ((if (bw.isSome || flags.isSome) = true then some ({ bw := bw, flags := flags } : RPD) else none).bind (·.flags)) = flags := by
  cases bw <;> cases flags <;> simp

theorem qre_fields (e : QRE) :
    ((if e.filled = true then some e else none).bind (·.q)) = e.q ∧ ((if e.filled = true then some e else none).bind (·.an)) = e.an ∧
    ((if e.filled = true then some e else none).bind (·.au)) = e.au ∧ ((if e.filled = true then some e else none).bind (·.ad)) = e.ad := by
  by_cases hf : e.filled = true
  · simp [hf]
  · simp only [hf, if_false, Option.bind_none]
    simp only [QRE.filled, Bool.or_eq_true, not_or, Bool.not_eq_true, isSome_eq_false_iff] at hf
    obtain ⟨⟨⟨h1, h2⟩, h3⟩, h4⟩ := hf
    exact ⟨h1.symm, h2.symm, h3.symm, h4.symm⟩

/-- **Index resolution of the record filled by `add_question_response_record`, in any later state of the tables,
    gives the hint projection of the generic record.** -/
theorem buildQ_resolves (h : Hints) (g : GQR) (b final : Blk) (hext : Ext (buildQ h g b).1 final) :
    resolveQ final (buildQ h g b).2 = project h g := by
  unfold buildQ at hext ⊢
  simp only at hext ⊢
  let B1 := (addOpt (on h.qrh QueryResponseHintsMask.client_address_index) g.clientIp addIp b).1
  let B2 := (buildSig h g B1).1
  let B3 := (addOpt (on h.qrh QueryResponseHintsMask.query_name_index) g.queryName addNr B2).1
  let B4 := (addOpt (on h.qrh QueryResponseHintsMask.response_processing_data) g.bailiwick addNr B3).1
  let Q1 := (addSection (on h.qrh QueryResponseHintsMask.query_question_sections) g.queryQuestions addGenericQlist B4).1
  let Q2 := (addSection (on h.qrh QueryResponseHintsMask.query_answer_sections) g.queryAnswers (addGenericRrlist h) Q1).1
  let Q3 := (addSection (on h.qrh QueryResponseHintsMask.query_authority_sections) g.queryAuthority (addGenericRrlist h) Q2).1
  let Q4 := (addSection (on h.qrh QueryResponseHintsMask.query_additional_sections) g.queryAdditional (addGenericRrlist h) Q3).1
  let E1 := (addSection (on h.qrh QueryResponseHintsMask.query_question_sections) g.responseQuestions addGenericQlist Q4).1
  let E2 := (addSection (on h.qrh QueryResponseHintsMask.response_answer_sections) g.responseAnswers (addGenericRrlist h) E1).1
  let E3 := (addSection (on h.qrh QueryResponseHintsMask.response_authority_sections) g.responseAuthority (addGenericRrlist h) E2).1
  let E4 := (addSection (on h.qrh QueryResponseHintsMask.response_additional_sections) g.responseAdditional (addGenericRrlist h) E3).1
  have hext' : Ext E4 final := hext
  -- extension from every intermediate state to the final one
  have xNr : ∀ b x, Ext b (addNr b x).1 := fun b x => (ext_addNr b x).1
  have xQ : ∀ b x, Ext b (addGenericQlist b x).1 := ext_addGenericQlist
  have xR : ∀ b x, Ext b (addGenericRrlist h b x).1 := ext_addGenericRrlist h
  have f12 : Ext E3 final := (ext_addSection _ g.responseAdditional (addGenericRrlist h) E3 xR).trans hext'
  have f11 : Ext E2 final := (ext_addSection _ g.responseAuthority (addGenericRrlist h) E2 xR).trans f12
  have f10 : Ext E1 final := (ext_addSection _ g.responseAnswers (addGenericRrlist h) E1 xR).trans f11
  have f9 : Ext Q4 final := (ext_addSection _ g.responseQuestions addGenericQlist Q4 xQ).trans f10
  have f8 : Ext Q3 final := (ext_addSection _ g.queryAdditional (addGenericRrlist h) Q3 xR).trans f9
  have f7 : Ext Q2 final := (ext_addSection _ g.queryAuthority (addGenericRrlist h) Q2 xR).trans f8
  have f6 : Ext Q1 final := (ext_addSection _ g.queryAnswers (addGenericRrlist h) Q1 xR).trans f7
  have f5 : Ext B4 final := (ext_addSection _ g.queryQuestions addGenericQlist B4 xQ).trans f6
  have f4 : Ext B3 final := (ext_addOpt _ g.bailiwick addNr B3 xNr).trans f5
  have f3 : Ext B2 final := (ext_addOpt _ g.queryName addNr B2 xNr).trans f4
  have f2 : Ext B1 final := (ext_buildSig h g B1).trans f3
  -- what each returned index addresses
  have k1 := (looks_addOpt (on h.qrh QueryResponseHintsMask.client_address_index) g.clientIp addIp (fun b => b.ip) b (fun b x => (ext_addIp b x).2)).ext f2.ip
  have k3 := (looks_addOpt (on h.qrh QueryResponseHintsMask.query_name_index) g.queryName addNr (fun b => b.nr) B2 (fun b x => (ext_addNr b x).2)).ext f4.nr
  have k4 := (looks_addOpt (on h.qrh QueryResponseHintsMask.response_processing_data) g.bailiwick addNr (fun b => b.nr) B3 (fun b x => (ext_addNr b x).2)).ext f5.nr
  have qlx : ∀ {b b' : Blk}, Ext b b' → ∀ i rs, resolveQl b i = some rs → resolveQl b' i = some rs := fun e => resolveQl_ext e
  have rlx : ∀ {b b' : Blk}, Ext b b' → ∀ i rs, resolveRl b i = some rs → resolveRl b' i = some rs := fun e => resolveRl_ext e
  have s1 := (looks_addSection resolveQl (on h.qrh QueryResponseHintsMask.query_question_sections) g.queryQuestions addGenericQlist projQuestion B4 addGenericQlist_resolves).ext (qlx f6)
  have s2 := (looks_addSection resolveRl (on h.qrh QueryResponseHintsMask.query_answer_sections) g.queryAnswers (addGenericRrlist h) (projRR h) Q1 (addGenericRrlist_resolves h)).ext (rlx f7)
  have s3 := (looks_addSection resolveRl (on h.qrh QueryResponseHintsMask.query_authority_sections) g.queryAuthority (addGenericRrlist h) (projRR h) Q2 (addGenericRrlist_resolves h)).ext (rlx f8)
  have s4 := (looks_addSection resolveRl (on h.qrh QueryResponseHintsMask.query_additional_sections) g.queryAdditional (addGenericRrlist h) (projRR h) Q3 (addGenericRrlist_resolves h)).ext (rlx f9)
  have t1 := (looks_addSection resolveQl (on h.qrh QueryResponseHintsMask.query_question_sections) g.responseQuestions addGenericQlist projQuestion Q4 addGenericQlist_resolves).ext (qlx f10)
  have t2 := (looks_addSection resolveRl (on h.qrh QueryResponseHintsMask.response_answer_sections) g.responseAnswers (addGenericRrlist h) (projRR h) E1 (addGenericRrlist_resolves h)).ext (rlx f11)
  have t3 := (looks_addSection resolveRl (on h.qrh QueryResponseHintsMask.response_authority_sections) g.responseAuthority (addGenericRrlist h) (projRR h) E2 (addGenericRrlist_resolves h)).ext (rlx f12)
  have t4 := (looks_addSection resolveRl (on h.qrh QueryResponseHintsMask.response_additional_sections) g.responseAdditional (addGenericRrlist h) (projRR h) E3 (addGenericRrlist_resolves h)).ext (rlx hext')
  obtain ⟨g1, g2, g3, g4, g5, g6, g7, g8, g9, g10, g11, g12, g13, g14, g15, g16, g17⟩ := buildSig_resolves h g B1 final f3
  unfold resolveQ project
  simp only [rpd_bw, rpd_flags, (qre_fields _).1, (qre_fields _).2.1, (qre_fields _).2.2.1, (qre_fields _).2.2.2]
  apply GQR.ext <;> first
    | rfl | exact k1.bind | exact k3.bind | exact k4.bind
    | exact s1.bind | exact s2.bind | exact s3.bind | exact s4.bind | exact t1.bind | exact t2.bind | exact t3.bind | exact t4.bind
    | exact g1 | exact g2 | exact g3 | exact g4 | exact g5 | exact g6 | exact g7 | exact g8 | exact g9 | exact g10 | exact g11
    | exact g12 | exact g13 | exact g14 | exact g15 | exact g16 | exact g17

/-! ### whole record sequences -/

theorem ext_buildQ (h : Hints) (g : GQR) (b : Blk) : Ext b (buildQ h g b).1 := by
  unfold buildQ
  simp only
  have xNr : ∀ b x, Ext b (addNr b x).1 := fun b x => (ext_addNr b x).1
  have xIp : ∀ b x, Ext b (addIp b x).1 := fun b x => (ext_addIp b x).1
  have xQ : ∀ b x, Ext b (addGenericQlist b x).1 := ext_addGenericQlist
  have xR : ∀ b x, Ext b (addGenericRrlist h b x).1 := ext_addGenericRrlist h
  exact (ext_addOpt _ g.clientIp addIp b xIp).trans <| (ext_buildSig h g _).trans <|
    (ext_addOpt _ g.queryName addNr _ xNr).trans <| (ext_addOpt _ g.bailiwick addNr _ xNr).trans <|
    (ext_addSection _ g.queryQuestions addGenericQlist _ xQ).trans <| (ext_addSection _ g.queryAnswers (addGenericRrlist h) _ xR).trans <|
    (ext_addSection _ g.queryAuthority (addGenericRrlist h) _ xR).trans <| (ext_addSection _ g.queryAdditional (addGenericRrlist h) _ xR).trans <|
    (ext_addSection _ g.responseQuestions addGenericQlist _ xQ).trans <| (ext_addSection _ g.responseAnswers (addGenericRrlist h) _ xR).trans <|
    (ext_addSection _ g.responseAuthority (addGenericRrlist h) _ xR).trans (ext_addSection _ g.responseAdditional (addGenericRrlist h) _ xR)

/-- the invariant: the stored records resolve to the expected list, and keep doing so however the tables grow -/
def ResInv (b : Blk) (exp : List GQR) : Prop :=
  b.qrs.map (resolveQ b) = exp ∧ ∀ q ∈ b.qrs, ∀ b', Ext b b' → resolveQ b' q = resolveQ b q

/-- a step that extends the tables and leaves the stored query/responses alone preserves the invariant -/
theorem resInv_ext {b b' : Blk} {exp : List GQR} (hi : ResInv b exp) (he : Ext b b') (hq : b'.qrs = b.qrs) : ResInv b' exp := by
  obtain ⟨h1, h2⟩ := hi
  refine ⟨?_, ?_⟩
  · rw [hq, ← h1]
    apply List.map_congr_left
    intro q hqm
    exact h2 q hqm b' he
  · intro q hqm b'' he'
    rw [hq] at hqm
    rw [h2 q hqm b'' (he.trans he'), h2 q hqm b' he]

theorem ext_setStats (b : Blk) (st : Option Stats) : Ext b (setStats b st) ∧ (setStats b st).qrs = b.qrs := by
  cases st <;>
    exact ⟨⟨LExt.refl _, LExt.refl _, LExt.refl _, LExt.refl _, LExt.refl _, LExt.refl _, LExt.refl _, LExt.refl _, LExt.refl _⟩, rfl⟩

theorem resInv_addQR (h : Hints) (g : GQR) (st : Option Stats) (b : Blk) (exp : List GQR) (hi : ResInv b exp)
    (hst : ∀ b, (buildQ h g b).2.filled = (project h g).anySome) :
    ResInv (addQR h g st b) (exp ++ (if (project h g).anySome then [project h g] else [])) := by
  let b0 : Blk := { b with earliest := updEarliest b g.ts }
  have haddQR : addQR h g st b = setStats (if (buildQ h g b0).2.filled = true
      then { (buildQ h g b0).1 with qrs := (buildQ h g b0).1.qrs ++ [(buildQ h g b0).2] } else (buildQ h g b0).1) st := rfl
  rw [haddQR]
  have hi0 : ResInv b0 exp := resInv_ext hi ⟨LExt.refl _, LExt.refl _, LExt.refl _, LExt.refl _, LExt.refl _, LExt.refl _, LExt.refl _, LExt.refl _, LExt.refl _⟩ rfl
  have hx := ext_buildQ h g b0
  have hq1 : (buildQ h g b0).1.qrs = b0.qrs := (keeps_buildQ h g b0).1.qrs
  have hi1 : ResInv (buildQ h g b0).1 exp := resInv_ext hi0 hx hq1
  rw [← hst b0]
  by_cases hf : (buildQ h g b0).2.filled = true
  · rw [if_pos hf, if_pos hf]
    let b2 : Blk := { (buildQ h g b0).1 with qrs := (buildQ h g b0).1.qrs ++ [(buildQ h g b0).2] }
    have e12 : Ext (buildQ h g b0).1 b2 := ⟨LExt.refl _, LExt.refl _, LExt.refl _, LExt.refl _, LExt.refl _, LExt.refl _, LExt.refl _, LExt.refl _, LExt.refl _⟩
    have hi2 : ResInv b2 (exp ++ [project h g]) := by
      obtain ⟨h1, h2⟩ := hi1
      refine ⟨?_, ?_⟩
      · show ((buildQ h g b0).1.qrs ++ [(buildQ h g b0).2]).map (resolveQ b2) = _
        rw [List.map_append, List.map_singleton, buildQ_resolves h g b0 b2 e12, ← h1]
        congr 1
      · intro q hqm b' he'
        have hqm' : q ∈ (buildQ h g b0).1.qrs ++ [(buildQ h g b0).2] := hqm
        rcases List.mem_append.1 hqm' with hq | hq
        · rw [h2 q hq b' (e12.trans he'), h2 q hq b2 e12]
        · rw [List.mem_singleton.1 hq, buildQ_resolves h g b0 b' (e12.trans he'), buildQ_resolves h g b0 b2 e12]
    obtain ⟨es, qs⟩ := ext_setStats b2 st
    exact resInv_ext hi2 es qs
  · rw [if_neg hf, if_neg hf, List.append_nil]
    obtain ⟨es, qs⟩ := ext_setStats (buildQ h g b0).1 st
    exact resInv_ext hi1 es qs

theorem ext_addAEC (h : Hints) (g : GAEC) (st : Option Stats) (b : Blk) : Ext b (addAEC h g st b) ∧ (addAEC h g st b).qrs = b.qrs := by
  unfold addAEC
  obtain ⟨es, qs⟩ := ext_setStats b st
  simp only
  split
  · exact ⟨es, qs⟩
  · have e1 := (ext_addIp (setStats b st) g.ip).1
    split
    · exact ⟨es.trans (e1.trans ⟨LExt.refl _, LExt.refl _, LExt.refl _, LExt.refl _, LExt.refl _, LExt.refl _, LExt.refl _, LExt.refl _, LExt.refl _⟩), qs⟩
    · exact ⟨es.trans (e1.trans ⟨LExt.refl _, LExt.refl _, LExt.refl _, LExt.refl _, LExt.refl _, LExt.refl _, LExt.refl _, LExt.refl _, LExt.refl _⟩), qs⟩

theorem ext_addMM (h : Hints) (g : GMM) (st : Option Stats) (b : Blk) : Ext b (addMM h g st b) ∧ (addMM h g st b).qrs = b.qrs := by
  unfold addMM
  obtain ⟨es, qs⟩ := ext_setStats b st
  simp only
  split
  · exact ⟨es, qs⟩
  · let B0 : Blk := { setStats b st with earliest := updEarliest (setStats b st) g.ts }
    have e0 : Ext (setStats b st) B0 := ⟨LExt.refl _, LExt.refl _, LExt.refl _, LExt.refl _, LExt.refl _, LExt.refl _, LExt.refl _, LExt.refl _, LExt.refl _⟩
    have xIp : ∀ b x, Ext b (addIp b x).1 := fun b x => (ext_addIp b x).1
    have e1 : Ext B0 (addOpt true g.clientIp addIp B0).1 := ext_addOpt _ _ addIp B0 xIp
    have e2 : Ext (addOpt true g.clientIp addIp B0).1 (addOpt true g.serverIp addIp (addOpt true g.clientIp addIp B0).1).1 := ext_addOpt _ _ addIp _ xIp
    have q1 : ∀ (o : Option Bytes) (b' : Blk), (addOpt true o addIp b').1.qrs = b'.qrs := by
      intro o b'; unfold addOpt; cases o <;> rfl
    have e012 := es.trans (e0.trans (e1.trans e2))
    have q012 : (addOpt true g.serverIp addIp (addOpt true g.clientIp addIp B0).1).1.qrs = b.qrs := by rw [q1, q1]; exact qs
    split
    · have e3 := (ext_addMmd (addOpt true g.serverIp addIp (addOpt true g.clientIp addIp B0).1).1
        { sai := (addOpt true g.serverIp addIp (addOpt true g.clientIp addIp B0).1).2, port := g.serverPort, tf := g.transportFlags, payload := g.payload }).1
      split
      · exact ⟨e012.trans (e3.trans ⟨LExt.refl _, LExt.refl _, LExt.refl _, LExt.refl _, LExt.refl _, LExt.refl _, LExt.refl _, LExt.refl _, LExt.refl _⟩), q012⟩
      · exact ⟨e012.trans e3, q012⟩
    · split
      · exact ⟨e012.trans ⟨LExt.refl _, LExt.refl _, LExt.refl _, LExt.refl _, LExt.refl _, LExt.refl _, LExt.refl _, LExt.refl _, LExt.refl _⟩, q012⟩
      · exact ⟨e012, q012⟩

/-- **Reading back what was built.**  For every record sequence and every hints: resolving the indexes of the stored
    query/responses against the block's tables yields, in order, the hint projections of the query/responses buffered
    (those of which anything is stored). -/
theorem resolve_build (h : Hints) (recs : List Rec) (hst : ∀ g b, (buildQ h g b).2.filled = (project h g).anySome) :
    (build h recs).qrs.map (resolveQ (build h recs)) = expectedQrs h recs := by
  unfold build
  have gen : ∀ (b : Blk) (exp : List GQR), ResInv b exp → ResInv (recs.foldl (addRec h) b) (exp ++ expectedQrs h recs) := by
    induction recs with
    | nil => intro b exp hi; simpa [expectedQrs] using hi
    | cons r rs ih =>
      intro b exp hi
      simp only [List.foldl_cons]
      cases r with
      | qr g st =>
        have := ih _ _ (resInv_addQR h g st b exp hi (hst g))
        simp only [addRec]
        by_cases ha : (project h g).anySome = true
        · simpa [expectedQrs, ha, List.append_assoc] using this
        · simpa [expectedQrs, ha] using this
      | aec g st =>
        obtain ⟨e, q⟩ := ext_addAEC h g st b
        have := ih _ _ (resInv_ext hi e q)
        simpa [expectedQrs, addRec] using this
      | mm g st =>
        obtain ⟨e, q⟩ := ext_addMM h g st b
        have := ih _ _ (resInv_ext hi e q)
        simpa [expectedQrs, addRec] using this
  have := gen {} [] ⟨rfl, fun q hq => by cases hq⟩
  simpa using this.1

/-! ### a record is stored exactly when its projection holds something -/

theorem Looks.isSome_eq {α : Type} {t : List α} {idx : Option Nat} {v : Option α} (hl : Looks t idx v) : idx.isSome = v.isSome := by
  cases idx <;> cases v <;> simp only [Looks] at hl <;> rfl

theorem LooksL.isSome_eq {res : Blk → Nat → Option (List GRR)} {b : Blk} {idx : Option Nat} {v : Option (List GRR)}
    (hl : LooksL res b idx v) : idx.isSome = v.isSome := by
  cases idx <;> cases v <;> simp only [LooksL] at hl <;> rfl

/-- is any member of the signature part of a record present -/
def sigAny (p : GQR) : Bool :=
  p.serverIp.isSome || p.serverPort.isSome || p.transportFlags.isSome || p.qrType.isSome || p.sigFlags.isSome || p.opcode.isSome ||
  p.dnsFlags.isSome || p.queryRcode.isSome || p.classtype.isSome || p.qdcount.isSome || p.ancount.isSome || p.nscount.isSome ||
  p.arcount.isSome || p.ednsVersion.isSome || p.udpSize.isSome || p.optRdata.isSome || p.responseRcode.isSome

theorem buildSig_isSome_eq (h : Hints) (g : GQR) (b : Blk) : (buildSig h g b).2.isSome = sigAny (project h g) := by
  by_cases hon : on h.qrh QueryResponseHintsMask.qr_signature_index = true
  · let c1 := on h.sigh QueryResponseSignatureHintsMask.server_address_index
    let c2 := on h.sigh QueryResponseSignatureHintsMask.query_classtype_index
    let c3 := on h.sigh QueryResponseSignatureHintsMask.query_opt_rdata_index
    let B1 := (addOpt c1 g.serverIp addIp b).1
    let B2 := (addOpt c2 g.classtype addCt B1).1
    let B3 := (addOpt c3 g.optRdata addNr B2).1
    let S := mkSig h g (addOpt c1 g.serverIp addIp b).2 (addOpt c2 g.classtype addCt B1).2 (addOpt c3 g.optRdata addNr B2).2
    have k1 : (addOpt c1 g.serverIp addIp b).2.isSome = (keep c1 g.serverIp).isSome :=
      (looks_addOpt c1 g.serverIp addIp (fun b => b.ip) b (fun b x => (ext_addIp b x).2)).isSome_eq
    have k2 : (addOpt c2 g.classtype addCt B1).2.isSome = (keep c2 g.classtype).isSome :=
      (looks_addOpt c2 g.classtype addCt (fun b => b.ct) B1 (fun b x => (ext_addCt b x).2)).isSome_eq
    have k3 : (addOpt c3 g.optRdata addNr B2).2.isSome = (keep c3 g.optRdata).isSome :=
      (looks_addOpt c3 g.optRdata addNr (fun b => b.nr) B2 (fun b x => (ext_addNr b x).2)).isSome_eq
    have hnot : (!on h.qrh QueryResponseHintsMask.qr_signature_index) = false := by simp [hon]
    -- the projection's signature part is exactly the filled-test of the signature built
    have hany : sigAny (project h g) = S.filled := by
      show _ = (S.sai.isSome || S.port.isSome || S.tf.isSome || S.qt.isSome || S.sf.isSome || S.op.isSome || S.df.isSome || S.qrc.isSome ||
        S.cti.isSome || S.qd.isSome || S.an.isSome || S.ns.isSome || S.ar.isSome || S.ev.isSome || S.us.isSome || S.ordi.isSome || S.rrc.isSome)
      have e1 : S.sai.isSome = (keep c1 g.serverIp).isSome := k1
      have e9 : S.cti.isSome = (keep c2 g.classtype).isSome := k2
      have e16 : S.ordi.isSome = (keep c3 g.optRdata).isSome := k3
      rw [e1, e9, e16]
      simp only [sigAny, project, hon, Bool.true_and]
      rfl
    by_cases hf : S.filled = true
    · have hres : buildSig h g b = ((addSig B3 S).1, some (addSig B3 S).2) := by
        unfold buildSig; simp only [hnot, Bool.false_eq_true, if_false]
        show (if S.filled = true then _ else _) = _
        rw [if_pos hf]
      rw [hres, hany, hf]; rfl
    · have hres : buildSig h g b = (B3, none) := by
        unfold buildSig; simp only [hnot, Bool.false_eq_true, if_false]
        show (if S.filled = true then _ else _) = _
        rw [if_neg hf]
      have hf' : S.filled = false := by simpa using hf
      rw [hres, hany, hf']; rfl
  · have hoff : on h.qrh QueryResponseHintsMask.qr_signature_index = false := by simpa using hon
    have hres : buildSig h g b = (b, none) := by unfold buildSig; simp [hoff]
    rw [hres]
    simp [sigAny, project, hoff, keep_false]

theorem rpd_isSome (bw flags : Option Nat) :
    (if (bw.isSome || flags.isSome) = true then some ({ bw := bw, flags := flags } : RPD) else none).isSome = (bw.isSome || flags.isSome) := by
  cases bw <;> cases flags <;> rfl

theorem qre_isSome (e : QRE) : (if e.filled = true then some e else none).isSome = e.filled := by cases e.filled <;> rfl

/-- member by member: a part of the stored record is present exactly when the corresponding part of the projection is -/
theorem buildQ_parts (h : Hints) (g : GQR) (b : Blk) :
    (buildQ h g b).2.ts.isSome = (project h g).ts.isSome ∧
    (buildQ h g b).2.cai.isSome = (project h g).clientIp.isSome ∧
    (buildQ h g b).2.cport.isSome = (project h g).clientPort.isSome ∧
    (buildQ h g b).2.tid.isSome = (project h g).transactionId.isSome ∧
    (buildQ h g b).2.sig.isSome = sigAny (project h g) ∧
    (buildQ h g b).2.hl.isSome = (project h g).hoplimit.isSome ∧
    (buildQ h g b).2.rd.isSome = (project h g).responseDelay.isSome ∧
    (buildQ h g b).2.qn.isSome = (project h g).queryName.isSome ∧
    (buildQ h g b).2.qs.isSome = (project h g).querySize.isSome ∧
    (buildQ h g b).2.rs.isSome = (project h g).responseSize.isSome ∧
    (buildQ h g b).2.rpd.isSome = ((project h g).bailiwick.isSome || (project h g).processingFlags.isSome) ∧
    (buildQ h g b).2.qx.isSome = ((project h g).queryQuestions.isSome || (project h g).queryAnswers.isSome ||
      (project h g).queryAuthority.isSome || (project h g).queryAdditional.isSome) ∧
    (buildQ h g b).2.rx.isSome = ((project h g).responseQuestions.isSome || (project h g).responseAnswers.isSome ||
      (project h g).responseAuthority.isSome || (project h g).responseAdditional.isSome) ∧
    (buildQ h g b).2.asn.isSome = (project h g).asn.isSome ∧
    (buildQ h g b).2.cc.isSome = (project h g).countryCode.isSome ∧
    (buildQ h g b).2.rtt.isSome = (project h g).roundTripTime.isSome := by
  let B1 := (addOpt (on h.qrh QueryResponseHintsMask.client_address_index) g.clientIp addIp b).1
  let B2 := (buildSig h g B1).1
  let B3 := (addOpt (on h.qrh QueryResponseHintsMask.query_name_index) g.queryName addNr B2).1
  let B4 := (addOpt (on h.qrh QueryResponseHintsMask.response_processing_data) g.bailiwick addNr B3).1
  let Q1 := (addSection (on h.qrh QueryResponseHintsMask.query_question_sections) g.queryQuestions addGenericQlist B4).1
  let Q2 := (addSection (on h.qrh QueryResponseHintsMask.query_answer_sections) g.queryAnswers (addGenericRrlist h) Q1).1
  let Q3 := (addSection (on h.qrh QueryResponseHintsMask.query_authority_sections) g.queryAuthority (addGenericRrlist h) Q2).1
  let Q4 := (addSection (on h.qrh QueryResponseHintsMask.query_additional_sections) g.queryAdditional (addGenericRrlist h) Q3).1
  let E1 := (addSection (on h.qrh QueryResponseHintsMask.query_question_sections) g.responseQuestions addGenericQlist Q4).1
  let E2 := (addSection (on h.qrh QueryResponseHintsMask.response_answer_sections) g.responseAnswers (addGenericRrlist h) E1).1
  let E3 := (addSection (on h.qrh QueryResponseHintsMask.response_authority_sections) g.responseAuthority (addGenericRrlist h) E2).1
  have k1 := (looks_addOpt (on h.qrh QueryResponseHintsMask.client_address_index) g.clientIp addIp (fun b => b.ip) b (fun b x => (ext_addIp b x).2)).isSome_eq
  have k3 := (looks_addOpt (on h.qrh QueryResponseHintsMask.query_name_index) g.queryName addNr (fun b => b.nr) B2 (fun b x => (ext_addNr b x).2)).isSome_eq
  have k4 := (looks_addOpt (on h.qrh QueryResponseHintsMask.response_processing_data) g.bailiwick addNr (fun b => b.nr) B3 (fun b x => (ext_addNr b x).2)).isSome_eq
  have s1 := (looks_addSection resolveQl (on h.qrh QueryResponseHintsMask.query_question_sections) g.queryQuestions addGenericQlist projQuestion B4 addGenericQlist_resolves).isSome_eq
  have s2 := (looks_addSection resolveRl (on h.qrh QueryResponseHintsMask.query_answer_sections) g.queryAnswers (addGenericRrlist h) (projRR h) Q1 (addGenericRrlist_resolves h)).isSome_eq
  have s3 := (looks_addSection resolveRl (on h.qrh QueryResponseHintsMask.query_authority_sections) g.queryAuthority (addGenericRrlist h) (projRR h) Q2 (addGenericRrlist_resolves h)).isSome_eq
  have s4 := (looks_addSection resolveRl (on h.qrh QueryResponseHintsMask.query_additional_sections) g.queryAdditional (addGenericRrlist h) (projRR h) Q3 (addGenericRrlist_resolves h)).isSome_eq
  have t1 := (looks_addSection resolveQl (on h.qrh QueryResponseHintsMask.query_question_sections) g.responseQuestions addGenericQlist projQuestion Q4 addGenericQlist_resolves).isSome_eq
  have t2 := (looks_addSection resolveRl (on h.qrh QueryResponseHintsMask.response_answer_sections) g.responseAnswers (addGenericRrlist h) (projRR h) E1 (addGenericRrlist_resolves h)).isSome_eq
  have t3 := (looks_addSection resolveRl (on h.qrh QueryResponseHintsMask.response_authority_sections) g.responseAuthority (addGenericRrlist h) (projRR h) E2 (addGenericRrlist_resolves h)).isSome_eq
  have t4 := (looks_addSection resolveRl (on h.qrh QueryResponseHintsMask.response_additional_sections) g.responseAdditional (addGenericRrlist h) (projRR h) E3 (addGenericRrlist_resolves h)).isSome_eq
  refine ⟨rfl, k1, rfl, rfl, buildSig_isSome_eq h g B1, rfl, rfl, k3, rfl, rfl, ?_, ?_, ?_, rfl, rfl, rfl⟩
  · exact (rpd_isSome _ _).trans (congrArg (fun x => x || (keep (on h.qrh QueryResponseHintsMask.response_processing_data) g.processingFlags).isSome) k4)
  · refine (qre_isSome _).trans ?_
    show ((_ : Option Nat).isSome || (_ : Option Nat).isSome || (_ : Option Nat).isSome || (_ : Option Nat).isSome) = _
    rw [s1, s2, s3, s4]; rfl
  · refine (qre_isSome _).trans ?_
    show ((_ : Option Nat).isSome || (_ : Option Nat).isSome || (_ : Option Nat).isSome || (_ : Option Nat).isSome) = _
    rw [t1, t2, t3, t4]; rfl

theorem filled_eq_anySome (h : Hints) (g : GQR) (b : Blk) : (buildQ h g b).2.filled = (project h g).anySome := by
  obtain ⟨e1, e2, e3, e4, e5, e6, e7, e8, e9, e10, e11, e12, e13, e14, e15, e16⟩ := buildQ_parts h g b
  unfold QRec.filled GQR.anySome
  rw [e1, e2, e3, e4, e5, e6, e7, e8, e9, e10, e11, e12, e13, e14, e15, e16]
  rfl

/-- `resolve_build` without side condition -/
theorem resolve_build' (h : Hints) (recs : List Rec) : (build h recs).qrs.map (resolveQ (build h recs)) = expectedQrs h recs :=
  resolve_build h recs (filled_eq_anySome h)

/-! ### malformed messages -/

theorem keep_true {α : Type} (o : Option α) : keep true o = o := rfl

def MmInv (b : Blk) (exp : List GMM) : Prop :=
  b.mms.map (resolveM b) = exp ∧ ∀ m ∈ b.mms, ∀ b', Ext b b' → resolveM b' m = resolveM b m

theorem mmInv_ext {b b' : Blk} {exp : List GMM} (hi : MmInv b exp) (he : Ext b b') (hq : b'.mms = b.mms) : MmInv b' exp := by
  obtain ⟨h1, h2⟩ := hi
  refine ⟨?_, ?_⟩
  · rw [hq, ← h1]
    apply List.map_congr_left
    intro m hm
    exact h2 m hm b' he
  · intro m hm b'' he'
    rw [hq] at hm
    rw [h2 m hm b'' (he.trans he'), h2 m hm b' he]

theorem addQR_mms (h : Hints) (g : GQR) (st : Option Stats) (b : Blk) : Ext b (addQR h g st b) ∧ (addQR h g st b).mms = b.mms := by
  let b0 : Blk := { b with earliest := updEarliest b g.ts }
  have haddQR : addQR h g st b = setStats (if (buildQ h g b0).2.filled = true
      then { (buildQ h g b0).1 with qrs := (buildQ h g b0).1.qrs ++ [(buildQ h g b0).2] } else (buildQ h g b0).1) st := rfl
  rw [haddQR]
  have e0 : Ext b b0 := ⟨LExt.refl _, LExt.refl _, LExt.refl _, LExt.refl _, LExt.refl _, LExt.refl _, LExt.refl _, LExt.refl _, LExt.refl _⟩
  have e1 := e0.trans (ext_buildQ h g b0)
  have m1 : (buildQ h g b0).1.mms = b.mms := (keeps_buildQ h g b0).1.mms
  have hs : ∀ x : Blk, Ext x (setStats x st) ∧ (setStats x st).mms = x.mms := by
    intro x; cases st <;> exact ⟨⟨LExt.refl _, LExt.refl _, LExt.refl _, LExt.refl _, LExt.refl _, LExt.refl _, LExt.refl _, LExt.refl _, LExt.refl _⟩, rfl⟩
  by_cases hf : (buildQ h g b0).2.filled = true
  · rw [if_pos hf]
    let b2 : Blk := { (buildQ h g b0).1 with qrs := (buildQ h g b0).1.qrs ++ [(buildQ h g b0).2] }
    obtain ⟨es, ms⟩ := hs b2
    have e12 : Ext (buildQ h g b0).1 b2 := ⟨LExt.refl _, LExt.refl _, LExt.refl _, LExt.refl _, LExt.refl _, LExt.refl _, LExt.refl _, LExt.refl _, LExt.refl _⟩
    exact ⟨(e1.trans e12).trans es, ms.trans m1⟩
  · rw [if_neg hf]
    obtain ⟨es, ms⟩ := hs (buildQ h g b0).1
    exact ⟨e1.trans es, ms.trans m1⟩

theorem addAEC_mms (h : Hints) (g : GAEC) (st : Option Stats) (b : Blk) : (addAEC h g st b).mms = b.mms := by
  unfold addAEC
  have hs : (setStats b st).mms = b.mms := by cases st <;> rfl
  simp only
  split
  · exact hs
  · split <;> exact hs

/-- the malformed message stored by `add_malformed_message` resolves to the message buffered, in any later state -/
theorem mmInv_addMM (h : Hints) (g : GMM) (st : Option Stats) (b : Blk) (exp : List GMM) (hi : MmInv b exp) :
    MmInv (addMM h g st b) (exp ++ (if (on h.odh OtherDataHintsMask.malformed_messages && g.anySome) = true then [g] else [])) := by
  have hs : Ext b (setStats b st) ∧ (setStats b st).mms = b.mms := by
    cases st <;> exact ⟨⟨LExt.refl _, LExt.refl _, LExt.refl _, LExt.refl _, LExt.refl _, LExt.refl _, LExt.refl _, LExt.refl _, LExt.refl _⟩, rfl⟩
  have hi0 := mmInv_ext hi hs.1 hs.2
  unfold addMM
  simp only
  split
  · rename_i hc
    have hoff : on h.odh OtherDataHintsMask.malformed_messages = false := by simpa using hc
    rw [hoff]
    simp only [Bool.false_and, Bool.false_eq_true, if_false, List.append_nil]
    exact hi0
  · rename_i hc
    have hon : on h.odh OtherDataHintsMask.malformed_messages = true := by simpa using hc
    rw [hon]
    simp only [Bool.true_and]
    let B0 : Blk := { setStats b st with earliest := updEarliest (setStats b st) g.ts }
    let R1 := addOpt true g.clientIp addIp B0
    let R2 := addOpt true g.serverIp addIp R1.1
    let D : MMD := { sai := R2.2, port := g.serverPort, tf := g.transportFlags, payload := g.payload }
    have hiB0 : MmInv B0 exp := mmInv_ext hi0 ⟨LExt.refl _, LExt.refl _, LExt.refl _, LExt.refl _, LExt.refl _, LExt.refl _, LExt.refl _, LExt.refl _, LExt.refl _⟩ rfl
    have xIp : ∀ b x, Ext b (addIp b x).1 := fun b x => (ext_addIp b x).1
    have e1 : Ext B0 R1.1 := ext_addOpt _ _ addIp B0 xIp
    have e2 : Ext R1.1 R2.1 := ext_addOpt _ _ addIp R1.1 xIp
    have m1 : ∀ (o : Option Bytes) (b' : Blk), (addOpt true o addIp b').1.mms = b'.mms := by
      intro o b'; unfold addOpt; cases o <;> rfl
    have k1 : Looks R1.1.ip R1.2 g.clientIp := looks_addOpt true g.clientIp addIp (fun b => b.ip) B0 (fun b x => (ext_addIp b x).2)
    have k2 : Looks R2.1.ip R2.2 g.serverIp := looks_addOpt true g.serverIp addIp (fun b => b.ip) R1.1 (fun b x => (ext_addIp b x).2)
    have hiR2 : MmInv R2.1 exp := mmInv_ext hiB0 (e1.trans e2) (by rw [m1, m1])
    split
    · -- message data is stored, hence the message is
      rename_i hdf0
      have hdf : (D.sai.isSome || D.port.isSome || D.tf.isSome || D.payload.isSome) = true := hdf0
      simp only [Option.isSome_some, Bool.or_true, if_true]
      obtain ⟨e3, l3⟩ := ext_addMmd R2.1 D
      let M : MMRec := { ts := g.ts, cai := R1.2, cport := g.clientPort, mdi := some (addMmd R2.1 D).2 }
      let F : Blk := { (addMmd R2.1 D).1 with mms := (addMmd R2.1 D).1.mms ++ [M] }
      have eF : Ext (addMmd R2.1 D).1 F := ⟨LExt.refl _, LExt.refl _, LExt.refl _, LExt.refl _, LExt.refl _, LExt.refl _, LExt.refl _, LExt.refl _, LExt.refl _⟩
      have hany : g.anySome = true := by
        have : (g.serverIp.isSome || g.serverPort.isSome || g.transportFlags.isSome || g.payload.isSome) = true := by
          rw [← k2.isSome_eq]; exact hdf
        simp [GMM.anySome, this]
      have hnew : ∀ b', Ext F b' → resolveM b' M = g := by
        intro b' he
        have eD : Ext (addMmd R2.1 D).1 b' := eF.trans he
        have hd : b'.mmd[(addMmd R2.1 D).2]? = some D := eD.mmd _ _ l3
        apply GMM.ext
        · rfl
        · exact (k1.ext ((e2.trans e3).trans eD).ip).bind
        · rfl
        · show (((some (addMmd R2.1 D).2).bind fun i => b'.mmd[i]?).getD {}).sai.bind (fun i => b'.ip[i]?) = g.serverIp
          rw [Option.bind_some, hd]; exact (k2.ext (e3.trans eD).ip).bind
        · show (((some (addMmd R2.1 D).2).bind fun i => b'.mmd[i]?).getD {}).port = g.serverPort
          rw [Option.bind_some, hd]; rfl
        · show (((some (addMmd R2.1 D).2).bind fun i => b'.mmd[i]?).getD {}).tf = g.transportFlags
          rw [Option.bind_some, hd]; rfl
        · show (((some (addMmd R2.1 D).2).bind fun i => b'.mmd[i]?).getD {}).payload = g.payload
          rw [Option.bind_some, hd]; rfl
      rw [hany]
      simp only [if_true]
      show MmInv F (exp ++ [g])
      obtain ⟨h1, h2⟩ := mmInv_ext hiR2 e3 rfl
      refine ⟨?_, ?_⟩
      · show ((addMmd R2.1 D).1.mms ++ [M]).map (resolveM F) = _
        rw [List.map_append, List.map_singleton, hnew F (Ext.refl F), ← h1]
        congr 1
      · intro m hm b' he'
        have hm' : m ∈ (addMmd R2.1 D).1.mms ++ [M] := hm
        rcases List.mem_append.1 hm' with hq | hq
        · rw [h2 m hq b' (eF.trans he'), h2 m hq F eF]
        · rw [List.mem_singleton.1 hq, hnew b' he', hnew F (Ext.refl F)]
    · -- no message data
      rename_i hdf0
      have hdf' : (D.sai.isSome || D.port.isSome || D.tf.isSome || D.payload.isSome) = false := by
        have : ¬ (D.sai.isSome || D.port.isSome || D.tf.isSome || D.payload.isSome) = true := hdf0
        simpa using this
      have hparts := hdf'
      simp only [Bool.or_eq_false_iff, isSome_eq_false_iff, D] at hparts
      obtain ⟨⟨⟨hsai, hport⟩, htf⟩, hpl⟩ := hparts
      have hsip : g.serverIp = none := (k2.none_iff).1 hsai
      let M : MMRec := { ts := g.ts, cai := R1.2, cport := g.clientPort, mdi := none }
      split
      · rename_i hmf0
        have hmf : (M.ts.isSome || M.cai.isSome || M.cport.isSome || M.mdi.isSome) = true := hmf0
        let F : Blk := { R2.1 with mms := R2.1.mms ++ [M] }
        have eF : Ext R2.1 F := ⟨LExt.refl _, LExt.refl _, LExt.refl _, LExt.refl _, LExt.refl _, LExt.refl _, LExt.refl _, LExt.refl _, LExt.refl _⟩
        have hany : g.anySome = true := by
          have : (g.ts.isSome || g.clientIp.isSome || g.clientPort.isSome) = true := by
            rw [← k1.isSome_eq]; simpa [M] using hmf
          simp only [GMM.anySome]
          simp only [Bool.or_eq_true] at this ⊢
          rcases this with (h' | h') | h'
          · exact Or.inl (Or.inl (Or.inl h'))
          · exact Or.inl (Or.inl (Or.inr h'))
          · exact Or.inl (Or.inr h')
        have hnew : ∀ b', Ext F b' → resolveM b' M = g := by
          intro b' he
          apply GMM.ext
          · rfl
          · exact (k1.ext ((e2.trans eF).trans he).ip).bind
          · rfl
          · show ((none : Option MMD).getD {}).sai.bind (fun i => b'.ip[i]?) = g.serverIp
            rw [hsip]; rfl
          · exact hport.symm
          · exact htf.symm
          · exact hpl.symm
        rw [hany]
        simp only [if_true]
        show MmInv F (exp ++ [g])
        obtain ⟨h1, h2⟩ := hiR2
        refine ⟨?_, ?_⟩
        · show (R2.1.mms ++ [M]).map (resolveM F) = _
          rw [List.map_append, List.map_singleton, hnew F (Ext.refl F), ← h1]
          congr 1
        · intro m hm b' he'
          have hm' : m ∈ R2.1.mms ++ [M] := hm
          rcases List.mem_append.1 hm' with hq | hq
          · rw [h2 m hq b' (eF.trans he'), h2 m hq F eF]
          · rw [List.mem_singleton.1 hq, hnew b' he', hnew F (Ext.refl F)]
      · -- nothing at all in the message: it is not stored
        rename_i hmf0
        have hany : g.anySome = false := by
          have hmf' : (M.ts.isSome || M.cai.isSome || M.cport.isSome || M.mdi.isSome) = false := by
            have : ¬ (M.ts.isSome || M.cai.isSome || M.cport.isSome || M.mdi.isSome) = true := hmf0
            simpa using this
          simp only [Bool.or_eq_false_iff, isSome_eq_false_iff, M] at hmf'
          obtain ⟨⟨⟨h1, h2⟩, h3⟩, _⟩ := hmf'
          have hcip : g.clientIp = none := (k1.none_iff).1 h2
          simp [GMM.anySome, h1, hcip, h3, hsip, hport, htf, hpl]
        rw [hany]
        simp only [Bool.false_eq_true, if_false, List.append_nil]
        exact hiR2

theorem expectedMms_cons (h : Hints) (r : Rec) (rs : List Rec) :
    expectedMms h (r :: rs) = (match r with
      | .mm g _ => if (on h.odh OtherDataHintsMask.malformed_messages && g.anySome) = true then [g] else []
      | _ => []) ++ expectedMms h rs := by
  cases r with
  | qr g st => simp [expectedMms]
  | aec g st => simp [expectedMms]
  | mm g st =>
    unfold expectedMms
    rw [List.filterMap_cons]
    by_cases ha : (on h.odh OtherDataHintsMask.malformed_messages && g.anySome) = true
    · simp only [ha, if_true]; rfl
    · simp only [ha, if_false]; rfl

/-- **Malformed messages are read back unchanged, in order.** -/
theorem resolve_build_mm (h : Hints) (recs : List Rec) : (build h recs).mms.map (resolveM (build h recs)) = expectedMms h recs := by
  unfold build
  have gen : ∀ (b : Blk) (exp : List GMM), MmInv b exp → MmInv (recs.foldl (addRec h) b) (exp ++ expectedMms h recs) := by
    induction recs with
    | nil => intro b exp hi; simpa [expectedMms] using hi
    | cons r rs ih =>
      intro b exp hi
      rw [List.foldl_cons, expectedMms_cons, ← List.append_assoc]
      cases r with
      | qr g st =>
        obtain ⟨e, q⟩ := addQR_mms h g st b
        simpa [addRec] using ih _ _ (mmInv_ext hi e q)
      | aec g st =>
        simpa [addRec] using ih _ _ (mmInv_ext hi (ext_addAEC h g st b).1 (addAEC_mms h g st b))
      | mm g st =>
        exact ih _ _ (mmInv_addMM h g st b exp hi)
  have := gen {} [] ⟨rfl, fun q hq => by cases hq⟩
  simpa using this.1

end CdnsVerif.Model.Builder
