/-
  The strict RFC 8949 parser is a left inverse of the encoding: for every well-formed syntax tree `i`,
  `parseItem` returns `i` from `i.enc ++ rest` and leaves `rest`; hence `parseOne i.enc = some i`
  (`Props.C02.file_parses_back`), and the encoding is injective on well-formed trees.
-/
import CdnsVerif.Spec.CborParse
import CdnsVerif.Proofs.Skip

namespace CdnsVerif.Spec.Cbor
open CdnsVerif.Model.Decoder

mutual
/-- fuel the parser needs -/
def pneed : Item → Nat
  | .arr _ items => 1 + pneedL items
  | .arrI items => 1 + pneedL items
  | .map _ items => 1 + pneedL items
  | .mapI items => 1 + pneedL items
  | .tag _ _ c => 1 + pneed c
  | .bstrI cs => cs.length + 2
  | .tstrI cs => cs.length + 2
  | .uint _ _ => 1
  | .nint _ _ => 1
  | .bstr _ _ => 1
  | .tstr _ _ => 1
  | .simple _ => 1
  | .simple1 _ => 1
  | .f16 _ => 1
  | .f32 _ => 1
  | .f64 _ => 1
def pneedL : List Item → Nat
  | [] => 1
  | i :: is => pneed i + pneedL is
end

theorem pneed_pos (i : Item) : 1 ≤ pneed i := by cases i <;> simp [pneed] <;> omega
theorem pneedL_pos (l : List Item) : 1 ≤ pneedL l := by cases l <;> simp [pneedL]; have := pneed_pos ‹Item›; omega

theorem bound_eq (w : Width) : w.bound = if w = .imm then 24 else 256 ^ w.nbytes := by cases w <;> decide

theorem parseArg_head (w : Width) (n : Nat) (h : w.fits n) (rest : Bytes) :
    parseArg (w.ai n) (be w.nbytes n ++ rest) = some (w, n, rest) := by
  unfold Width.fits at h
  cases w with
  | imm =>
    simp only [Width.bound] at h
    simp [parseArg, Width.ai, h, Width.nbytes, be]
  | w1 =>
    have hb : n < 256 ^ 1 := by simpa [Width.bound] using h
    have hl := be_length 1 n
    simp only [parseArg, Width.ai, Width.nbytes]
    have : ¬ (be 1 n ++ rest).length < 1 := by simp [hl]
    simp only [show ¬ (24 < 24) by decide, if_false, if_true, show ¬ (24 > 27) by decide, this]
    rw [List.take_left' hl, List.drop_left' hl, beVal_be_of_lt 1 n hb]
  | w2 =>
    have hb : n < 256 ^ 2 := by simpa [Width.bound] using h
    have hl := be_length 2 n
    simp only [parseArg, Width.ai, Width.nbytes]
    have : ¬ (be 2 n ++ rest).length < 2 := by simp [hl]
    simp only [show ¬ (25 < 24) by decide, show ¬ (25 = 24) by decide, if_false, if_true, show ¬ (25 > 27) by decide, this]
    rw [List.take_left' hl, List.drop_left' hl, beVal_be_of_lt 2 n hb]
  | w4 =>
    have hb : n < 256 ^ 4 := by simpa [Width.bound] using h
    have hl := be_length 4 n
    simp only [parseArg, Width.ai, Width.nbytes]
    have : ¬ (be 4 n ++ rest).length < 4 := by simp [hl]
    simp only [show ¬ (26 < 24) by decide, show ¬ (26 = 24) by decide, show ¬ (26 = 25) by decide, if_false, if_true,
      show ¬ (26 > 27) by decide, this]
    rw [List.take_left' hl, List.drop_left' hl, beVal_be_of_lt 4 n hb]
  | w8 =>
    have hb : n < 256 ^ 8 := by simpa [Width.bound] using h
    have hl := be_length 8 n
    simp only [parseArg, Width.ai, Width.nbytes]
    have : ¬ (be 8 n ++ rest).length < 8 := by simp [hl]
    simp only [show ¬ (27 < 24) by decide, show ¬ (27 = 24) by decide, show ¬ (27 = 25) by decide, show ¬ (27 = 26) by decide,
      if_false, if_true, show ¬ (27 > 27) by decide, this]
    rw [List.take_left' hl, List.drop_left' hl, beVal_be_of_lt 8 n hb]

/-- the branch of `parseItem` taken by an item that starts with a definite head of major type `m < 7` -/
theorem parseItem_head (m : Nat) (hm : m < 7) (w : Width) (n : Nat) (h : w.fits n) (f : Nat) (tail : Bytes) :
    parseItem (f + 1) (head m w n ++ tail) =
      (if m = 0 then some (.uint w n, tail)
        else if m = 1 then some (.nint w n, tail)
        else if m = 2 then (if tail.length < n then none else some (.bstr w (tail.take n), tail.drop n))
        else if m = 3 then (if tail.length < n then none else some (.tstr w (tail.take n), tail.drop n))
        else if m = 4 then (parseItems f n tail).map fun (is, r) => (.arr w is, r)
        else if m = 5 then (parseItems f (2 * n) tail).map fun (is, r) => (.map w is, r)
        else match parseItem f tail with
          | some (c, r) => some (.tag w n c, r)
          | none => none) := by
  have hai := ai_le_27 w n h
  rw [head_cons, List.cons_append]
  have e1 : (m * 32 + w.ai n) / 32 = m := by omega
  have e2 : (m * 32 + w.ai n) % 32 = w.ai n := by omega
  have e3 : ¬ (m * 32 + w.ai n ≥ 256) := by omega
  have e4 : ¬ (m = 7) := by omega
  have e5 : ¬ (w.ai n = 31) := by omega
  simp only [parseItem, e1, e2, e3, e4, e5, if_false, parseArg_head w n h tail]
  rfl

theorem parseChunks_enc (m : Nat) (hm : m = 2 ∨ m = 3) (cs : List Chunk) (hcs : chunksWF cs) (fuel : Nat) (hf : cs.length + 1 ≤ fuel)
    (rest : Bytes) : parseChunks m fuel (encChunks m cs ++ 0xff :: rest) = some (cs, rest) := by
  induction cs generalizing fuel with
  | nil =>
    obtain ⟨f, rfl⟩ : ∃ f, fuel = f + 1 := ⟨fuel - 1, by simp at hf; omega⟩
    simp [encChunks, parseChunks]
  | cons c cs ih =>
    obtain ⟨f, rfl⟩ : ∃ f, fuel = f + 1 := ⟨fuel - 1, by simp at hf; omega⟩
    obtain ⟨w, bs⟩ := c
    simp only [chunksWF, chunkWF] at hcs
    obtain ⟨⟨hfit, _⟩, hrest⟩ := hcs
    have hai := ai_le_27 w bs.length hfit
    simp only [encChunks, encChunk, List.append_assoc]
    rw [head_cons, List.cons_append, parseChunks]
    have e0 : ¬ (m * 32 + w.ai bs.length = 0xff) := by rcases hm with rfl | rfl <;> omega
    have e1 : ¬ ((m * 32 + w.ai bs.length) / 32 ≠ m) := by rcases hm with rfl | rfl <;> omega
    have e2 : (m * 32 + w.ai bs.length) % 32 = w.ai bs.length := by rcases hm with rfl | rfl <;> omega
    simp only [e0, e1, e2, if_false, List.append_assoc, parseArg_head w bs.length hfit]
    have e3 : ¬ ((bs ++ (encChunks m cs ++ 0xff :: rest)).length < bs.length) := by simp
    simp only [e3, if_false, List.drop_left, List.take_left]
    rw [ih hrest f (by simp at hf; omega)]

mutual
/-- **The parser inverts the encoding**, for every well-formed item and whatever follows it. -/
theorem parse_enc (i : Item) (hwf : i.WF) (fuel : Nat) (hf : pneed i ≤ fuel) (rest : Bytes) :
    parseItem fuel (i.enc ++ rest) = some (i, rest) := by
  obtain ⟨f, rfl⟩ : ∃ f, fuel = f + 1 := ⟨fuel - 1, by have := pneed_pos i; omega⟩
  match i, hwf, hf with
  | .uint w n, hwf, _ => rw [Item.enc, parseItem_head mUint (by decide) w n hwf]; rfl
  | .nint w n, hwf, _ => rw [Item.enc, parseItem_head mNint (by decide) w n hwf]; rfl
  | .bstr w bs, hwf, _ =>
    rw [Item.enc, List.append_assoc, parseItem_head mBstr (by decide) w bs.length hwf.1]
    have : ¬ ((bs ++ rest).length < bs.length) := by simp
    simp [mBstr, this]
  | .tstr w bs, hwf, _ =>
    rw [Item.enc, List.append_assoc, parseItem_head mTstr (by decide) w bs.length hwf.1]
    have : ¬ ((bs ++ rest).length < bs.length) := by simp
    simp [mTstr, this]
  | .bstrI cs, hwf, hf =>
    simp only [pneed] at hf
    simp only [Item.enc, indefHead, List.cons_append, List.nil_append, List.append_assoc, List.singleton_append, parseItem]
    have := parseChunks_enc 2 (Or.inl rfl) cs hwf f (by omega) rest
    simp [mBstr, breakByte] at this ⊢
    simp [this]
  | .tstrI cs, hwf, hf =>
    simp only [pneed] at hf
    simp only [Item.enc, indefHead, List.cons_append, List.nil_append, List.append_assoc, List.singleton_append, parseItem]
    have := parseChunks_enc 3 (Or.inr rfl) cs hwf f (by omega) rest
    simp [mTstr, breakByte] at this ⊢
    simp [this]
  | .arr w items, hwf, hf =>
    simp only [pneed] at hf
    rw [Item.enc, List.append_assoc, parseItem_head mArr (by decide) w items.length hwf.1]
    have := parseItems_enc items hwf.2 f (by omega) rest
    simp [mArr, this]
  | .map w items, hwf, hf =>
    simp only [pneed] at hf
    rw [Item.enc, List.append_assoc, parseItem_head mMap (by decide) w (items.length / 2) hwf.1]
    have hl : 2 * (items.length / 2) = items.length := by have := hwf.2.1; omega
    have := parseItems_enc items hwf.2.2 f (by omega) rest
    simp [mMap, hl, this]
  | .arrI items, hwf, hf =>
    simp only [pneed] at hf
    simp only [Item.enc, indefHead, List.cons_append, List.nil_append, List.append_assoc, List.singleton_append, parseItem]
    have := parseUntil_enc items hwf f (by omega) rest
    simp [mArr, breakByte] at this ⊢
    simp [this]
  | .mapI items, hwf, hf =>
    simp only [pneed] at hf
    simp only [Item.enc, indefHead, List.cons_append, List.nil_append, List.append_assoc, List.singleton_append, parseItem]
    have := parseUntil_enc items hwf.2 f (by omega) rest
    simp [mMap, breakByte] at this ⊢
    simp [this, hwf.1]
  | .tag w n c, hwf, hf =>
    simp only [pneed] at hf
    rw [Item.enc, List.append_assoc, parseItem_head mTag (by decide) w n hwf.1]
    have := parse_enc c hwf.2 f (by omega) rest
    simp [mTag, this]
  | .simple n, hwf, _ =>
    have hn : n < 24 := hwf
    simp only [Item.enc, List.cons_append, List.nil_append, parseItem, mSimple]
    have e1 : (7 * 32 + n) / 32 = 7 := by omega
    have e2 : (7 * 32 + n) % 32 = n := by omega
    have e3 : ¬ (7 * 32 + n ≥ 256) := by omega
    simp [e1, e2, e3, hn]
  | .simple1 n, hwf, _ =>
    have hn : 32 ≤ n ∧ n < 256 := hwf
    simp only [Item.enc, List.cons_append, List.nil_append, parseItem, mSimple]
    simp [hn.1, hn.2]
  | .f16 b, hwf, _ =>
    have hb : b < 256 ^ 2 := by have : b < 2 ^ 16 := hwf; omega
    simp only [Item.enc, List.cons_append, parseItem, mSimple]
    have hl := be_length 2 b
    have : ¬ ((be 2 b ++ rest).length < 2) := by simp [hl]
    have hlen : 2 ≤ (be 2 b).length + rest.length := by omega
    simp [this, hlen, List.take_left' hl, List.drop_left' hl, beVal_be_of_lt 2 b hb]
  | .f32 b, hwf, _ =>
    have hb : b < 256 ^ 4 := by have : b < 2 ^ 32 := hwf; omega
    simp only [Item.enc, List.cons_append, parseItem, mSimple]
    have hl := be_length 4 b
    have : ¬ ((be 4 b ++ rest).length < 4) := by simp [hl]
    have hlen : 4 ≤ (be 4 b).length + rest.length := by omega
    simp [this, hlen, List.take_left' hl, List.drop_left' hl, beVal_be_of_lt 4 b hb]
  | .f64 b, hwf, _ =>
    have hb : b < 256 ^ 8 := by have : b < 2 ^ 64 := hwf; omega
    simp only [Item.enc, List.cons_append, parseItem, mSimple]
    have hl := be_length 8 b
    have : ¬ ((be 8 b ++ rest).length < 8) := by simp [hl]
    have hlen : 8 ≤ (be 8 b).length + rest.length := by omega
    simp [this, hlen, List.take_left' hl, List.drop_left' hl, beVal_be_of_lt 8 b hb]
theorem parseItems_enc (items : List Item) (hwf : Item.WFList items) (fuel : Nat) (hf : pneedL items ≤ fuel) (rest : Bytes) :
    parseItems fuel items.length (Item.encList items ++ rest) = some (items, rest) := by
  obtain ⟨f, rfl⟩ : ∃ f, fuel = f + 1 := ⟨fuel - 1, by have := pneedL_pos items; omega⟩
  match items, hwf, hf with
  | [], _, _ => simp [parseItems, Item.encList]
  | i :: is, hwf, hf =>
    simp only [pneedL] at hf
    have h1 := pneed_pos i
    have h2 := pneedL_pos is
    simp only [List.length_cons, Item.encList, List.append_assoc, parseItems]
    rw [parse_enc i hwf.1 f (by omega) _]
    simp only
    rw [parseItems_enc is hwf.2 f (by omega) rest]
theorem parseUntil_enc (items : List Item) (hwf : Item.WFList items) (fuel : Nat) (hf : pneedL items ≤ fuel) (rest : Bytes) :
    parseUntilBreak fuel (Item.encList items ++ 0xff :: rest) = some (items, rest) := by
  obtain ⟨f, rfl⟩ : ∃ f, fuel = f + 1 := ⟨fuel - 1, by have := pneedL_pos items; omega⟩
  match items, hwf, hf with
  | [], _, _ => simp [parseUntilBreak, Item.encList]
  | i :: is, hwf, hf =>
    simp only [pneedL] at hf
    have h1 := pneed_pos i
    have h2 := pneedL_pos is
    obtain ⟨b, tl, he, hb⟩ := enc_first i hwf.1
    simp only [Item.encList, List.append_assoc]
    have hp := parse_enc i hwf.1 f (by omega) (Item.encList is ++ 0xff :: rest)
    rw [he] at hp ⊢
    simp only [List.cons_append] at hp ⊢
    rw [parseUntilBreak]
    simp only [hb, if_false, hp]
    rw [parseUntil_enc is hwf.2 f (by omega) rest]
end

/-! ### the encoding of a well-formed item consists of bytes -/

theorem bytesOk_append {a b : Bytes} (ha : bytesOk a) (hb : bytesOk b) : bytesOk (a ++ b) := by
  intro x hx
  rcases List.mem_append.1 hx with h | h
  · exact ha x h
  · exact hb x h

theorem bytesOk_single (b : Nat) (h : b < 256) : bytesOk [b] := by
  intro x hx; simp at hx; omega

theorem encChunks_ok (m : Nat) (hm : m < 8) (cs : List Chunk) (h : chunksWF cs) : bytesOk (encChunks m cs) := by
  induction cs with
  | nil => intro x hx; simp [encChunks] at hx
  | cons c cs ih =>
    simp only [chunksWF, chunkWF] at h
    simp only [encChunks, encChunk]
    exact bytesOk_append (bytesOk_append (head_ok m c.1 c.2.length hm h.1.1) h.1.2) (ih h.2)

mutual
theorem enc_ok (i : Item) (hwf : i.WF) : bytesOk i.enc := by
  match i, hwf with
  | .uint w n, h => exact head_ok mUint w n (by decide) h
  | .nint w n, h => exact head_ok mNint w n (by decide) h
  | .bstr w bs, h => exact bytesOk_append (head_ok mBstr w _ (by decide) h.1) h.2
  | .tstr w bs, h => exact bytesOk_append (head_ok mTstr w _ (by decide) h.1) h.2
  | .bstrI cs, h =>
    exact bytesOk_append (bytesOk_append (bytesOk_single _ (by decide)) (encChunks_ok mBstr (by decide) cs h)) (bytesOk_single _ (by decide))
  | .tstrI cs, h =>
    exact bytesOk_append (bytesOk_append (bytesOk_single _ (by decide)) (encChunks_ok mTstr (by decide) cs h)) (bytesOk_single _ (by decide))
  | .arr w items, h => exact bytesOk_append (head_ok mArr w _ (by decide) h.1) (encList_ok items h.2)
  | .map w items, h => exact bytesOk_append (head_ok mMap w _ (by decide) h.1) (encList_ok items h.2.2)
  | .arrI items, h =>
    exact bytesOk_append (bytesOk_append (bytesOk_single _ (by decide)) (encList_ok items h)) (bytesOk_single _ (by decide))
  | .mapI items, h =>
    exact bytesOk_append (bytesOk_append (bytesOk_single _ (by decide)) (encList_ok items h.2)) (bytesOk_single _ (by decide))
  | .tag w n c, h => exact bytesOk_append (head_ok mTag w n (by decide) h.1) (enc_ok c h.2)
  | .simple n, h =>
    have : n < 24 := h
    exact bytesOk_single _ (by simp only [mSimple]; omega)
  | .simple1 n, h =>
    have hn : 32 ≤ n ∧ n < 256 := h
    intro x hx
    simp only [Item.enc, List.mem_cons, List.mem_nil_iff, or_false] at hx
    rcases hx with rfl | rfl
    · decide
    · exact hn.2
  | .f16 b, _ => intro x hx; simp only [Item.enc, List.mem_cons] at hx; rcases hx with rfl | hx; decide; exact be_ok 2 b x hx
  | .f32 b, _ => intro x hx; simp only [Item.enc, List.mem_cons] at hx; rcases hx with rfl | hx; decide; exact be_ok 4 b x hx
  | .f64 b, _ => intro x hx; simp only [Item.enc, List.mem_cons] at hx; rcases hx with rfl | hx; decide; exact be_ok 8 b x hx
theorem encList_ok (items : List Item) (hwf : Item.WFList items) : bytesOk (Item.encList items) := by
  match items, hwf with
  | [], _ => intro x hx; simp [Item.encList] at hx
  | i :: is, h => exact bytesOk_append (enc_ok i h.1) (encList_ok is h.2)
end

/-! ### a fuel of twice the input length suffices -/

mutual
theorem pneed_le (i : Item) : pneed i ≤ 2 * i.enc.length := by
  match i with
  | .uint w n => simp [pneed, Item.enc, head_length]; omega
  | .nint w n => simp [pneed, Item.enc, head_length]; omega
  | .bstr w bs => simp [pneed, Item.enc, head_length]; omega
  | .tstr w bs => simp [pneed, Item.enc, head_length]; omega
  | .bstrI cs => have := encChunks_length mBstr cs; simp [pneed, Item.enc, indefHead]; omega
  | .tstrI cs => have := encChunks_length mTstr cs; simp [pneed, Item.enc, indefHead]; omega
  | .simple n => simp [pneed, Item.enc]
  | .simple1 n => simp [pneed, Item.enc]
  | .f16 b => simp [pneed, Item.enc]; omega
  | .f32 b => simp [pneed, Item.enc]; omega
  | .f64 b => simp [pneed, Item.enc]; omega
  | .tag w n c => have := pneed_le c; simp [pneed, Item.enc, head_length]; omega
  | .arr w items => have := pneedL_le items; simp [pneed, Item.enc, head_length]; omega
  | .arrI items => have := pneedL_le items; simp [pneed, Item.enc, indefHead]; omega
  | .map w items => have := pneedL_le items; simp [pneed, Item.enc, head_length]; omega
  | .mapI items => have := pneedL_le items; simp [pneed, Item.enc, indefHead]; omega
theorem pneedL_le (items : List Item) : pneedL items ≤ 1 + 2 * (Item.encList items).length := by
  match items with
  | [] => simp [pneedL, Item.encList]
  | i :: is => have := pneed_le i; have := pneedL_le is; simp [pneedL, Item.encList]; omega
end

/-- **`parseOne` accepts exactly the encoding of a well-formed item and returns the item.** -/
theorem parseOne_enc (i : Item) (hwf : i.WF) : parseOne i.enc = some i := by
  unfold parseOne
  have hall : i.enc.all (· < 256) = true := by
    rw [List.all_eq_true]
    intro x hx
    simpa using enc_ok i hwf x hx
  simp only [hall, not_true_eq_false, if_false]
  have := parse_enc i hwf (2 * i.enc.length + 2) (by have := pneed_le i; omega) []
  rw [List.append_nil] at this
  rw [this]

/-- well-formed syntax trees with the same bytes are the same tree: every byte string has at most one reading -/
theorem enc_injective (i j : Item) (hi : i.WF) (hj : j.WF) (h : i.enc = j.enc) : i = j := by
  have h1 := parseOne_enc i hi
  have h2 := parseOne_enc j hj
  rw [h] at h1
  rw [h1] at h2
  exact Option.some.inj h2

end CdnsVerif.Spec.Cbor
