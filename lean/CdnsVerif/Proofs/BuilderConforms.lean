/-
  The raw value of a built block (`Builder.toVal`) lies in the domain of the schema round trip (`Schema.Conforms block`)
  whenever the block's contents fit the widths of the C++ members.  Part 1: from per-entry bounds to `Conforms`.
-/
import CdnsVerif.Proofs.Slots
import CdnsVerif.Proofs.BuilderReach
import CdnsVerif.Model.Structs

namespace CdnsVerif.Model.Builder
open CdnsVerif.Spec.Cbor CdnsVerif.Generated CdnsVerif.Model.Schema CdnsVerif.Model.Structs CdnsVerif.Model.Timestamp

/-- `o` holds, if anything, a number below `2^bits` -/
def ULt (bits : Nat) (o : Option Nat) : Prop := ∀ n, o = some n → n < 2 ^ bits
def StrOk (s : Bytes) : Prop := s.length < 2 ^ 64 ∧ bytesOk s
def OStrOk (o : Option Bytes) : Prop := ∀ s, o = some s → StrOk s
def I64 (o : Option Int) : Prop := ∀ n, o = some n → -(2 ^ 63 : Int) ≤ n ∧ n < 2 ^ 63

def sN (k : Int) (kind : Kind) (req : Bool) (o : Option Nat) : Field × Option Val := (.mk k kind req, o.map fun n : Nat => Val.num (n : Int))
def sI (k : Int) (req : Bool) (o : Option Int) : Field × Option Val := (.mk k .int64 req, o.map Val.num)
def sS (k : Int) (kind : Kind) (o : Option Bytes) : Field × Option Val := (.mk k kind false, o.map Val.str)
def sV (k : Int) (kind : Kind) (req : Bool) (o : Option Val) : Field × Option Val := (.mk k kind req, o)

theorem slots_sN (k : Int) (kind : Kind) (req : Bool) (o : Option Nat) (l) : slots (sN k kind req o :: l) = optN k o ++ slots l := by
  cases o <;> rfl
theorem slots_sI (k : Int) (req : Bool) (o : Option Int) (l) : slots (sI k req o :: l) = optI k o ++ slots l := by
  cases o <;> rfl
theorem slots_sS (k : Int) (kind : Kind) (o : Option Bytes) (l) : slots (sS k kind o :: l) = optS k o ++ slots l := by
  cases o <;> rfl
theorem slots_sV (k : Int) (kind : Kind) (req : Bool) (o : Option Val) (l) : slots (sV k kind req o :: l) = optV k o ++ slots l := by
  cases o <;> rfl
theorem slots_nil' : slots [] = [] := rfl

theorem ok_sN {bits : Nat} (hb : bits ≤ 64) (o : Option Nat) (h : ULt bits o) :
    ∀ v, (o.map fun n : Nat => Val.num (n : Int)) = some v → Conforms (.uint bits) v := conf_num_of_lt hb o h

theorem ok_sI (o : Option Int) (h : I64 o) : ∀ v, o.map Val.num = some v → Conforms .int64 v := by
  intro v hv
  cases o with
  | none => cases hv
  | some n => have : v = .num n := by simpa using hv.symm
              subst this; simp only [Conforms]; exact h n rfl

theorem ok_sS_t (o : Option Bytes) (h : OStrOk o) : ∀ v, o.map Val.str = some v → Conforms .tstr v := by
  intro v hv
  cases o with
  | none => cases hv
  | some s => have : v = .str s := by simpa using hv.symm
              subst this; simp only [Conforms]; exact h s rfl

theorem ok_sS_b (o : Option Bytes) (h : OStrOk o) : ∀ v, o.map Val.str = some v → Conforms .bstr v := by
  intro v hv
  cases o with
  | none => cases hv
  | some s => have : v = .str s := by simpa using hv.symm
              subst this; simp only [Conforms]; exact h s rfl

/-! slot-by-slot construction of `SlotsOk` -/

instance (k : Int) : Decidable (keyOk k) := by unfold keyOk; exact inferInstance

theorem ok_nil : SlotsOk [] := trivial

theorem ok_N {k : Int} {bits : Nat} {o : Option Nat} {l} (hk : keyOk k) (hb : bits ≤ 64) (h : ULt bits o) (hl : SlotsOk l) :
    SlotsOk (sN k (.uint bits) false o :: l) :=
  ⟨hk, ok_sN hb o h, fun hr => Bool.noConfusion hr, hl⟩

theorem ok_Nreq {k : Int} {bits : Nat} {n : Nat} {l} (hk : keyOk k) (hb : bits ≤ 64) (h : n < 2 ^ bits) (hl : SlotsOk l) :
    SlotsOk (sN k (.uint bits) true (some n) :: l) :=
  ⟨hk, ok_sN hb (some n) (fun m hm => by cases hm; exact h), fun _ => rfl, hl⟩

theorem ok_I {k : Int} {o : Option Int} {l} (hk : keyOk k) (h : I64 o) (hl : SlotsOk l) : SlotsOk (sI k false o :: l) :=
  ⟨hk, ok_sI o h, fun hr => Bool.noConfusion hr, hl⟩

theorem ok_St {k : Int} {o : Option Bytes} {l} (hk : keyOk k) (h : OStrOk o) (hl : SlotsOk l) : SlotsOk (sS k .tstr o :: l) :=
  ⟨hk, ok_sS_t o h, fun hr => Bool.noConfusion hr, hl⟩

theorem ok_Sb {k : Int} {o : Option Bytes} {l} (hk : keyOk k) (h : OStrOk o) (hl : SlotsOk l) : SlotsOk (sS k .bstr o :: l) :=
  ⟨hk, ok_sS_b o h, fun hr => Bool.noConfusion hr, hl⟩

theorem ok_V {k : Int} {kind : Kind} {o : Option Val} {l} (hk : keyOk k) (h : ∀ v, o = some v → Conforms kind v) (hl : SlotsOk l) :
    SlotsOk (sV k kind false o :: l) :=
  ⟨hk, h, fun hr => Bool.noConfusion hr, hl⟩

theorem ok_Vreq {k : Int} {kind : Kind} {v : Val} {l} (hk : keyOk k) (h : Conforms kind v) (hl : SlotsOk l) :
    SlotsOk (sV k kind true (some v) :: l) :=
  ⟨hk, fun w hw => by cases hw; exact h, fun _ => rfl, hl⟩

/-! ### signature -/

structure SigOk (s : Sig) : Prop where
  sai : ULt 32 s.sai
  port : ULt 16 s.port
  tf : ULt 8 s.tf
  qt : ULt 8 s.qt
  sf : ULt 8 s.sf
  op : ULt 8 s.op
  df : ULt 16 s.df
  qrc : ULt 16 s.qrc
  cti : ULt 32 s.cti
  qd : ULt 16 s.qd
  an : ULt 32 s.an
  ns : ULt 16 s.ns
  ar : ULt 16 s.ar
  ev : ULt 8 s.ev
  us : ULt 16 s.us
  ordi : ULt 32 s.ordi
  rrc : ULt 16 s.rrc

def sigSlots (s : Sig) : List (Field × Option Val) := [
  sN QueryResponseSignatureMapIndex.server_address_index (.uint 32) false s.sai,
  sN QueryResponseSignatureMapIndex.server_port (.uint 16) false s.port,
  sN QueryResponseSignatureMapIndex.qr_transport_flags (.uint 8) false s.tf,
  sN QueryResponseSignatureMapIndex.qr_type (.uint 8) false s.qt,
  sN QueryResponseSignatureMapIndex.qr_sig_flags (.uint 8) false s.sf,
  sN QueryResponseSignatureMapIndex.query_opcode (.uint 8) false s.op,
  sN QueryResponseSignatureMapIndex.qr_dns_flags (.uint 16) false s.df,
  sN QueryResponseSignatureMapIndex.query_rcode (.uint 16) false s.qrc,
  sN QueryResponseSignatureMapIndex.query_classtype_index (.uint 32) false s.cti,
  sN QueryResponseSignatureMapIndex.query_qdcount (.uint 16) false s.qd,
  sN QueryResponseSignatureMapIndex.query_ancount (.uint 32) false s.an,
  sN QueryResponseSignatureMapIndex.query_nscount (.uint 16) false s.ns,
  sN QueryResponseSignatureMapIndex.query_arcount (.uint 16) false s.ar,
  sN QueryResponseSignatureMapIndex.query_edns_version (.uint 8) false s.ev,
  sN QueryResponseSignatureMapIndex.query_udp_size (.uint 16) false s.us,
  sN QueryResponseSignatureMapIndex.query_opt_rdata_index (.uint 32) false s.ordi,
  sN QueryResponseSignatureMapIndex.response_rcode (.uint 16) false s.rrc]

theorem sig_toVal_slots (s : Sig) : Sig.toVal s = .record (slots (sigSlots s)) := by
  simp only [Sig.toVal, sigSlots, slots_sN, slots_nil', List.append_nil, List.append_assoc]

theorem sig_conforms (s : Sig) (h : SigOk s) : Conforms queryResponseSignature (Sig.toVal s) := by
  rw [sig_toVal_slots]
  have hk : queryResponseSignature = .struct ((sigSlots s).map (·.1)) := rfl
  rw [hk]
  apply conforms_slots
  · simp only [sigSlots, sN, List.map_cons, List.map_nil, Field.key]; decide +kernel
  · exact ok_N (by decide) (by decide) h.sai <| ok_N (by decide) (by decide) h.port <| ok_N (by decide) (by decide) h.tf <|
      ok_N (by decide) (by decide) h.qt <| ok_N (by decide) (by decide) h.sf <| ok_N (by decide) (by decide) h.op <|
      ok_N (by decide) (by decide) h.df <| ok_N (by decide) (by decide) h.qrc <| ok_N (by decide) (by decide) h.cti <|
      ok_N (by decide) (by decide) h.qd <| ok_N (by decide) (by decide) h.an <| ok_N (by decide) (by decide) h.ns <|
      ok_N (by decide) (by decide) h.ar <| ok_N (by decide) (by decide) h.ev <| ok_N (by decide) (by decide) h.us <|
      ok_N (by decide) (by decide) h.ordi <| ok_N (by decide) (by decide) h.rrc <| ok_nil
  · simp [sigSlots]

theorem optN_some (k : Int) (n : Nat) : optN k (some n) = [(k, .num (n : Int))] := rfl
theorem optV_some (k : Int) (v : Val) : optV k (some v) = [(k, v)] := rfl

/-- "written when not empty" as an optional slot -/
def ne (l : List Val) : Option Val := if l.isEmpty then none else some (.list l)
theorem nonEmpty_eq (k : Int) (l : List Val) : nonEmpty k l = optV k (ne l) := by
  unfold nonEmpty ne; cases l <;> rfl
theorem ite_slot (c : Bool) (k : Int) (v : Val) : (if c then [] else [(k, v)]) = optV k (if c then none else some v) := by
  cases c <;> rfl

theorem conformsList_map {α : Type} (k : Kind) (f : α → Val) (l : List α) (h : ∀ x ∈ l, Conforms k (f x)) : ConformsList k (l.map f) := by
  induction l with
  | nil => simp [ConformsList]
  | cons x l ih =>
    simp only [List.map_cons, ConformsList]
    exact ⟨h x List.mem_cons_self, ih fun y hy => h y (List.mem_cons_of_mem _ hy)⟩

/-- an optional array slot: present only when not empty, every element conforming -/
theorem ok_ne {α : Type} (kind : Kind) (f : α → Val) (l : List α) (hlen : l.length < 2 ^ 64) (h : ∀ x ∈ l, Conforms kind (f x)) :
    ∀ v, ne (l.map f) = some v → Conforms (.arr kind) v := by
  intro v hv
  unfold ne at hv
  split at hv
  · cases hv
  · cases hv
    simp only [Conforms, List.length_map]
    exact ⟨hlen, conformsList_map kind f l h⟩

/-! ### resource records, questions, class/types -/

structure RrOk (r : RRe) : Prop where
  name : r.name < 2 ^ 32
  ct : r.ct < 2 ^ 32
  ttl : ULt 32 r.ttl
  rdata : ULt 32 r.rdata

def rrSlots (r : RRe) : List (Field × Option Val) := [
  sN RrMapIndex.name_index (.uint 32) true (some r.name), sN RrMapIndex.classtype_index (.uint 32) true (some r.ct),
  sN RrMapIndex.ttl (.uint 32) false r.ttl, sN RrMapIndex.rdata_index (.uint 32) false r.rdata]

theorem rr_conforms (r : RRe) (h : RrOk r) : Conforms rr (RRe.toVal r) := by
  have e : RRe.toVal r = .record (slots (rrSlots r)) := by
    simp only [RRe.toVal, rrSlots, slots_sN, slots_nil', optN_some, List.append_nil, List.cons_append, List.nil_append]
  rw [e]
  have hk : rr = .struct ((rrSlots r).map (·.1)) := rfl
  rw [hk]
  apply conforms_slots
  · simp only [rrSlots, sN, List.map_cons, List.map_nil, Field.key]; decide +kernel
  · exact ok_Nreq (by decide) (by decide) h.name <| ok_Nreq (by decide) (by decide) h.ct <| ok_N (by decide) (by decide) h.ttl <|
      ok_N (by decide) (by decide) h.rdata <| ok_nil
  · simp [rrSlots]

theorem pair_conforms (k0 k1 : Int) (bits : Nat) (p : Nat × Nat) (hk0 : keyOk k0) (hk1 : keyOk k1) (hne : k0 ≠ k1) (hb : bits ≤ 64)
    (h0 : p.1 < 2 ^ bits) (h1 : p.2 < 2 ^ bits) :
    Conforms (.struct [.mk k0 (.uint bits) true, .mk k1 (.uint bits) true]) (pairVal k0 k1 p) := by
  have e : pairVal k0 k1 p = .record (slots [sN k0 (.uint bits) true (some p.1), sN k1 (.uint bits) true (some p.2)]) := by
    simp only [pairVal, slots_sN, slots_nil', optN_some, List.append_nil, List.cons_append, List.nil_append]
  rw [e]
  have hk : Kind.struct [.mk k0 (.uint bits) true, .mk k1 (.uint bits) true] =
      .struct ([sN k0 (.uint bits) true (some p.1), sN k1 (.uint bits) true (some p.2)].map (·.1)) := rfl
  rw [hk]
  apply conforms_slots
  · simp only [sN, List.map_cons, List.map_nil, Field.key]
    simp [hne]
  · exact ok_Nreq hk0 hb h0 <| ok_Nreq hk1 hb h1 <| ok_nil
  · simp

/-! ### malformed message data, extended members, response processing data -/

structure MmdOk (d : MMD) : Prop where
  sai : ULt 32 d.sai
  port : ULt 16 d.port
  tf : ULt 8 d.tf
  payload : OStrOk d.payload

def mmdSlots (d : MMD) : List (Field × Option Val) := [
  sN MalformedMessageDataMapIndex.server_address_index (.uint 32) false d.sai, sN MalformedMessageDataMapIndex.server_port (.uint 16) false d.port,
  sN MalformedMessageDataMapIndex.mm_transport_flags (.uint 8) false d.tf, sS MalformedMessageDataMapIndex.mm_payload .bstr d.payload]

theorem mmd_conforms (d : MMD) (h : MmdOk d) : Conforms malformedMessageData (MMD.toVal d) := by
  have e : MMD.toVal d = .record (slots (mmdSlots d)) := by
    simp only [MMD.toVal, mmdSlots, slots_sN, slots_sS, slots_nil', List.append_nil, List.append_assoc]
  rw [e]
  have hk : malformedMessageData = .struct ((mmdSlots d).map (·.1)) := rfl
  rw [hk]
  apply conforms_slots
  · simp only [mmdSlots, sN, sS, List.map_cons, List.map_nil, Field.key]; decide +kernel
  · exact ok_N (by decide) (by decide) h.sai <| ok_N (by decide) (by decide) h.port <| ok_N (by decide) (by decide) h.tf <|
      ok_Sb (by decide) h.payload <| ok_nil
  · simp [mmdSlots]

structure QreOk (e : QRE) : Prop where
  q : ULt 32 e.q
  an : ULt 32 e.an
  au : ULt 32 e.au
  ad : ULt 32 e.ad

def qreSlots (e : QRE) : List (Field × Option Val) := [
  sN QueryResponseExtendedMapIndex.question_index (.uint 32) false e.q, sN QueryResponseExtendedMapIndex.answer_index (.uint 32) false e.an,
  sN QueryResponseExtendedMapIndex.authority_index (.uint 32) false e.au, sN QueryResponseExtendedMapIndex.additional_index (.uint 32) false e.ad]

theorem qre_conforms (e : QRE) (h : QreOk e) : Conforms queryResponseExtended (QRE.toVal e) := by
  have e' : QRE.toVal e = .record (slots (qreSlots e)) := by
    simp only [QRE.toVal, qreSlots, slots_sN, slots_nil', List.append_nil, List.append_assoc]
  rw [e']
  have hk : queryResponseExtended = .struct ((qreSlots e).map (·.1)) := rfl
  rw [hk]
  apply conforms_slots
  · simp only [qreSlots, sN, List.map_cons, List.map_nil, Field.key]; decide +kernel
  · exact ok_N (by decide) (by decide) h.q <| ok_N (by decide) (by decide) h.an <| ok_N (by decide) (by decide) h.au <|
      ok_N (by decide) (by decide) h.ad <| ok_nil
  · simp [qreSlots]

structure RpdOk (r : RPD) : Prop where
  bw : ULt 32 r.bw
  flags : ULt 8 r.flags

def rpdSlots (r : RPD) : List (Field × Option Val) := [
  sN ResponseProcessingDataMapIndex.bailiwick_index (.uint 32) false r.bw, sN ResponseProcessingDataMapIndex.processing_flags (.uint 8) false r.flags]

theorem rpd_conforms (r : RPD) (h : RpdOk r) : Conforms responseProcessingData (RPD.toVal r) := by
  have e' : RPD.toVal r = .record (slots (rpdSlots r)) := by
    simp only [RPD.toVal, rpdSlots, slots_sN, slots_nil', List.append_nil]
  rw [e']
  have hk : responseProcessingData = .struct ((rpdSlots r).map (·.1)) := rfl
  rw [hk]
  apply conforms_slots
  · simp only [rpdSlots, sN, List.map_cons, List.map_nil, Field.key]; decide +kernel
  · exact ok_N (by decide) (by decide) h.bw <| ok_N (by decide) (by decide) h.flags <| ok_nil
  · simp [rpdSlots]

/-! ### items -/

theorem offsetOf_lt (t e : Ts) (r : Nat) : ULt 64 (offsetOf t e r) := by
  intro n hn
  unfold offsetOf at hn
  split at hn
  · cases hn
    unfold ofI64 two64
    omega
  · cases hn

theorem bind_offset_lt (ts : Option Ts) (e : Ts) (r : Nat) : ULt 64 (ts.bind fun t => offsetOf t e r) := by
  intro n hn
  cases ts with
  | none => cases hn
  | some t => exact offsetOf_lt t e r n hn

structure QRecOk (q : QRec) : Prop where
  cai : ULt 32 q.cai
  cport : ULt 16 q.cport
  tid : ULt 16 q.tid
  sig : ULt 32 q.sig
  hl : ULt 8 q.hl
  rd : I64 q.rd
  qn : ULt 32 q.qn
  qs : ULt 64 q.qs
  rs : ULt 64 q.rs
  rpd : ∀ r, q.rpd = some r → RpdOk r
  qx : ∀ e, q.qx = some e → QreOk e
  rx : ∀ e, q.rx = some e → QreOk e
  asn : OStrOk q.asn
  cc : OStrOk q.cc
  rtt : I64 q.rtt

def qrSlots (earliest : Ts) (tps : Nat) (q : QRec) : List (Field × Option Val) := [
  sN QueryResponseMapIndex.time_offset (.uint 64) false (q.ts.bind fun t => offsetOf t earliest tps),
  sN QueryResponseMapIndex.client_address_index (.uint 32) false q.cai, sN QueryResponseMapIndex.client_port (.uint 16) false q.cport,
  sN QueryResponseMapIndex.transaction_id (.uint 16) false q.tid, sN QueryResponseMapIndex.qr_signature_index (.uint 32) false q.sig,
  sN QueryResponseMapIndex.client_hoplimit (.uint 8) false q.hl, sI QueryResponseMapIndex.response_delay false q.rd,
  sN QueryResponseMapIndex.query_name_index (.uint 32) false q.qn, sN QueryResponseMapIndex.query_size (.uint 64) false q.qs,
  sN QueryResponseMapIndex.response_size (.uint 64) false q.rs,
  sV QueryResponseMapIndex.response_processing_data responseProcessingData false (q.rpd.map RPD.toVal),
  sV QueryResponseMapIndex.query_extended queryResponseExtended false (q.qx.map QRE.toVal),
  sV QueryResponseMapIndex.response_extended queryResponseExtended false (q.rx.map QRE.toVal),
  sS QueryResponseMapIndex.asn .tstr q.asn, sS QueryResponseMapIndex.country_code .tstr q.cc,
  sI QueryResponseMapIndex.round_trip_time false q.rtt]

theorem map_conf {α : Type} (o : Option α) (f : α → Val) (kind : Kind) (h : ∀ x, o = some x → Conforms kind (f x)) :
    ∀ v, o.map f = some v → Conforms kind v := by
  intro v hv
  cases o with
  | none => cases hv
  | some x => have : v = f x := by simpa using hv.symm
              subst this; exact h x rfl

theorem qr_conforms (earliest : Ts) (tps : Nat) (q : QRec) (h : QRecOk q) : Conforms queryResponse (QRec.toVal earliest tps q) := by
  have e' : QRec.toVal earliest tps q = .record (slots (qrSlots earliest tps q)) := by
    simp only [QRec.toVal, qrSlots, slots_sN, slots_sI, slots_sS, slots_sV, slots_nil', List.append_nil, List.append_assoc]
  rw [e']
  have hk : queryResponse = .struct ((qrSlots earliest tps q).map (·.1)) := rfl
  rw [hk]
  apply conforms_slots
  · simp only [qrSlots, sN, sI, sS, sV, List.map_cons, List.map_nil, Field.key]; decide +kernel
  · exact ok_N (by decide) (by decide) (bind_offset_lt _ _ _) <| ok_N (by decide) (by decide) h.cai <| ok_N (by decide) (by decide) h.cport <|
      ok_N (by decide) (by decide) h.tid <| ok_N (by decide) (by decide) h.sig <| ok_N (by decide) (by decide) h.hl <|
      ok_I (by decide) h.rd <| ok_N (by decide) (by decide) h.qn <| ok_N (by decide) (by decide) h.qs <|
      ok_N (by decide) (by decide) h.rs <|
      ok_V (by decide) (map_conf _ _ _ fun r hr => rpd_conforms r (h.rpd r hr)) <|
      ok_V (by decide) (map_conf _ _ _ fun r hr => qre_conforms r (h.qx r hr)) <|
      ok_V (by decide) (map_conf _ _ _ fun r hr => qre_conforms r (h.rx r hr)) <|
      ok_St (by decide) h.asn <| ok_St (by decide) h.cc <| ok_I (by decide) h.rtt <| ok_nil
  · simp [qrSlots]

structure AecOk (a : AEC × Nat) : Prop where
  aeType : a.1.aeType < 2 ^ 8
  aeCode : ULt 8 a.1.aeCode
  ai : a.1.ai < 2 ^ 32
  tf : ULt 8 a.1.tf
  count : a.2 < 2 ^ 64

def aecSlots (a : AEC × Nat) : List (Field × Option Val) := [
  sN AddressEventCountMapIndex.ae_type (.uint 8) true (some a.1.aeType), sN AddressEventCountMapIndex.ae_code (.uint 8) false a.1.aeCode,
  sN AddressEventCountMapIndex.ae_address_index (.uint 32) true (some a.1.ai), sN AddressEventCountMapIndex.ae_transport_flags (.uint 8) false a.1.tf,
  sN AddressEventCountMapIndex.ae_count (.uint 64) true (some a.2)]

theorem aec_conforms (a : AEC × Nat) (h : AecOk a) : Conforms addressEventCount (AEC.toVal a) := by
  have e' : AEC.toVal a = .record (slots (aecSlots a)) := by
    simp only [AEC.toVal, aecSlots, slots_sN, slots_nil', optN_some, List.append_nil, List.append_assoc, List.cons_append, List.nil_append]
  rw [e']
  have hk : addressEventCount = .struct ((aecSlots a).map (·.1)) := rfl
  rw [hk]
  apply conforms_slots
  · simp only [aecSlots, sN, List.map_cons, List.map_nil, Field.key]; decide +kernel
  · exact ok_Nreq (by decide) (by decide) h.aeType <| ok_N (by decide) (by decide) h.aeCode <| ok_Nreq (by decide) (by decide) h.ai <|
      ok_N (by decide) (by decide) h.tf <| ok_Nreq (by decide) (by decide) h.count <| ok_nil
  · simp [aecSlots]

structure MmOk (m : MMRec) : Prop where
  cai : ULt 32 m.cai
  cport : ULt 16 m.cport
  mdi : ULt 32 m.mdi

def mmSlots (earliest : Ts) (tps : Nat) (m : MMRec) : List (Field × Option Val) := [
  sN MalformedMessageMapIndex.time_offset (.uint 64) false (m.ts.bind fun t => offsetOf t earliest tps),
  sN MalformedMessageMapIndex.client_address_index (.uint 32) false m.cai, sN MalformedMessageMapIndex.client_port (.uint 16) false m.cport,
  sN MalformedMessageMapIndex.message_data_index (.uint 32) false m.mdi]

theorem mm_conforms (earliest : Ts) (tps : Nat) (m : MMRec) (h : MmOk m) : Conforms malformedMessage (MMRec.toVal earliest tps m) := by
  have e' : MMRec.toVal earliest tps m = .record (slots (mmSlots earliest tps m)) := by
    simp only [MMRec.toVal, mmSlots, slots_sN, slots_nil', List.append_nil, List.append_assoc]
  rw [e']
  have hk : malformedMessage = .struct ((mmSlots earliest tps m).map (·.1)) := rfl
  rw [hk]
  apply conforms_slots
  · simp only [mmSlots, sN, List.map_cons, List.map_nil, Field.key]; decide +kernel
  · exact ok_N (by decide) (by decide) (bind_offset_lt _ _ _) <| ok_N (by decide) (by decide) h.cai <| ok_N (by decide) (by decide) h.cport <|
      ok_N (by decide) (by decide) h.mdi <| ok_nil
  · simp [mmSlots]

/-! ### statistics -/

def StatsOk (s : Stats) : Prop := ∀ i, ULt 32 (s.getD i none)

def statSlots (s : Stats) : List (Field × Option Val) := [
  sN BlockStatisticsMapIndex.processed_messages (.uint 32) false (s.getD 0 none), sN BlockStatisticsMapIndex.qr_data_items (.uint 32) false (s.getD 1 none),
  sN BlockStatisticsMapIndex.unmatched_queries (.uint 32) false (s.getD 2 none), sN BlockStatisticsMapIndex.unmatched_responses (.uint 32) false (s.getD 3 none),
  sN BlockStatisticsMapIndex.discarded_opcode (.uint 32) false (s.getD 4 none), sN BlockStatisticsMapIndex.malformed_items (.uint 32) false (s.getD 5 none)]

theorem stats_conforms (s : Stats) (h : StatsOk s) : Conforms blockStatistics (statsVal s) := by
  have e' : statsVal s = .record (slots (statSlots s)) := by
    simp only [statsVal, statSlots, slots_sN, slots_nil', List.append_nil, List.append_assoc]
  rw [e']
  have hk : blockStatistics = .struct ((statSlots s).map (·.1)) := rfl
  rw [hk]
  apply conforms_slots
  · simp only [statSlots, sN, List.map_cons, List.map_nil, Field.key]; decide +kernel
  · exact ok_N (by decide) (by decide) (h 0) <| ok_N (by decide) (by decide) (h 1) <| ok_N (by decide) (by decide) (h 2) <|
      ok_N (by decide) (by decide) (h 3) <| ok_N (by decide) (by decide) (h 4) <| ok_N (by decide) (by decide) (h 5) <| ok_nil
  · simp [statSlots]

/-! ### tables and the block -/

structure BlkOk (b : Blk) : Prop where
  ip : ∀ x ∈ b.ip, StrOk x
  ct : ∀ p ∈ b.ct, p.1 < 2 ^ 16 ∧ p.2 < 2 ^ 16
  nr : ∀ x ∈ b.nr, StrOk x
  sig : ∀ x ∈ b.sig, SigOk x
  qlist : ∀ l ∈ b.qlist, l.length < 2 ^ 64 ∧ ∀ n ∈ l, n < 2 ^ 32
  qrr : ∀ p ∈ b.qrr, p.1 < 2 ^ 32 ∧ p.2 < 2 ^ 32
  rrlist : ∀ l ∈ b.rrlist, l.length < 2 ^ 64 ∧ ∀ n ∈ l, n < 2 ^ 32
  rr : ∀ x ∈ b.rr, RrOk x
  mmd : ∀ x ∈ b.mmd, MmdOk x
  qrs : ∀ x ∈ b.qrs, QRecOk x
  aecs : ∀ x ∈ b.aecs, AecOk x
  mms : ∀ x ∈ b.mms, MmOk x
  lenT : ∀ t, len b t < 2 ^ 64
  lenQ : b.qrs.length < 2 ^ 64
  lenA : b.aecs.length < 2 ^ 64
  lenM : b.mms.length < 2 ^ 64
  earliest : b.earliest.secs < 2 ^ 64 ∧ b.earliest.ticks < 2 ^ 64
  stats : ∀ x, b.stats = some x → StatsOk x

theorem str_conf_b (x : Bytes) (h : StrOk x) : Conforms .bstr (Val.str x) := by simp only [Conforms]; exact h

theorem idxList_conf (l : List Nat) (h : l.length < 2 ^ 64 ∧ ∀ n ∈ l, n < 2 ^ 32) :
    Conforms (.arr (.uint 32)) (Val.list (l.map fun (n : Nat) => Val.num (n : Int))) := by
  simp only [Conforms, List.length_map]
  refine ⟨h.1, conformsList_map _ _ l ?_⟩
  intro n hn
  simp only [Conforms]
  have := h.2 n hn
  exact ⟨by omega, by exact_mod_cast this, by decide⟩

def tblSlots (b : Blk) : List (Field × Option Val) := [
  sV BlockTablesMapIndex.ip_address (.arr .bstr) false (ne (b.ip.map .str)),
  sV BlockTablesMapIndex.classtype (.arr classType) false (ne (b.ct.map (pairVal ClassTypeMapIndex.type ClassTypeMapIndex.class_))),
  sV BlockTablesMapIndex.name_rdata (.arr .bstr) false (ne (b.nr.map .str)),
  sV BlockTablesMapIndex.qr_sig (.arr queryResponseSignature) false (ne (b.sig.map Sig.toVal)),
  sV BlockTablesMapIndex.qlist (.arr (.arr (.uint 32))) false (ne (b.qlist.map fun l => .list (l.map fun (n : Nat) => .num (n : Int)))),
  sV BlockTablesMapIndex.qrr (.arr question) false (ne (b.qrr.map (pairVal QuestionMapIndex.name_index QuestionMapIndex.classtype_index))),
  sV BlockTablesMapIndex.rrlist (.arr (.arr (.uint 32))) false (ne (b.rrlist.map fun l => .list (l.map fun (n : Nat) => .num (n : Int)))),
  sV BlockTablesMapIndex.rr (.arr rr) false (ne (b.rr.map RRe.toVal)),
  sV BlockTablesMapIndex.malformed_message_data (.arr malformedMessageData) false (ne (b.mmd.map MMD.toVal))]

theorem tables_conforms (b : Blk) (h : BlkOk b) : Conforms blockTables (.record (tablesVal b)) := by
  have e' : tablesVal b = slots (tblSlots b) := by
    simp only [tablesVal, tblSlots, nonEmpty_eq, slots_sV, slots_nil', List.append_nil, List.append_assoc]
  rw [e']
  have hk : blockTables = .struct ((tblSlots b).map (·.1)) := rfl
  rw [hk]
  apply conforms_slots
  · simp only [tblSlots, sV, List.map_cons, List.map_nil, Field.key]; decide +kernel
  · exact ok_V (by decide) (ok_ne _ _ _ (h.lenT .ip) fun x hx => str_conf_b x (h.ip x hx)) <|
      ok_V (by decide) (ok_ne _ _ _ (h.lenT .ct) fun p hp => pair_conforms _ _ 16 p (by decide) (by decide) (by decide) (by decide) (h.ct p hp).1 (h.ct p hp).2) <|
      ok_V (by decide) (ok_ne _ _ _ (h.lenT .nr) fun x hx => str_conf_b x (h.nr x hx)) <|
      ok_V (by decide) (ok_ne _ _ _ (h.lenT .sig) fun x hx => sig_conforms x (h.sig x hx)) <|
      ok_V (by decide) (ok_ne _ _ _ (h.lenT .ql) fun l hl => idxList_conf l (h.qlist l hl)) <|
      ok_V (by decide) (ok_ne _ _ _ (h.lenT .qrr) fun p hp => pair_conforms _ _ 32 p (by decide) (by decide) (by decide) (by decide) (h.qrr p hp).1 (h.qrr p hp).2) <|
      ok_V (by decide) (ok_ne _ _ _ (h.lenT .rl) fun l hl => idxList_conf l (h.rrlist l hl)) <|
      ok_V (by decide) (ok_ne _ _ _ (h.lenT .rr) fun x hx => rr_conforms x (h.rr x hx)) <|
      ok_V (by decide) (ok_ne _ _ _ (h.lenT .mmd) fun x hx => mmd_conforms x (h.mmd x hx)) <| ok_nil
  · simp [tblSlots]

def preVal (b : Blk) (pi : Option Nat) : Val :=
  .record ([(BlockPreambleMapIndex.earliest_time, .list [.num b.earliest.secs, .num b.earliest.ticks])] ++ optN BlockPreambleMapIndex.block_parameters_index pi)

theorem pre_conforms (b : Blk) (pi : Option Nat) (h : BlkOk b) (hpi : ULt 32 pi) : Conforms blockPreamble (preVal b pi) := by
  let L : List (Field × Option Val) := [
    sV BlockPreambleMapIndex.earliest_time timestamp false (some (.list [.num b.earliest.secs, .num b.earliest.ticks])),
    sN BlockPreambleMapIndex.block_parameters_index (.uint 32) false pi]
  have e' : preVal b pi = .record (slots L) := by
    simp only [preVal, L, slots_sV, slots_sN, slots_nil', optV_some, List.append_nil, List.cons_append, List.nil_append]
  rw [e']
  have hk : blockPreamble = .struct (L.map (·.1)) := rfl
  rw [hk]
  apply conforms_slots
  · simp only [L, sV, sN, List.map_cons, List.map_nil, Field.key]; decide +kernel
  · refine ok_V (by decide) ?_ <| ok_N (by decide) (by decide) hpi <| ok_nil
    intro v hv
    cases hv
    simp only [timestamp, Conforms, ConformsList, List.length_cons, List.length_nil]
    have := h.earliest
    exact ⟨by decide, ⟨by omega, by exact_mod_cast this.1, by decide⟩, ⟨by omega, by exact_mod_cast this.2, by decide⟩, trivial⟩
  · simp [L]

def blkSlots (b : Blk) (pi : Option Nat) (tps : Nat) : List (Field × Option Val) := [
  sV BlockMapIndex.block_preamble blockPreamble true (some (preVal b pi)),
  sV BlockMapIndex.block_statistics blockStatistics false (b.stats.map statsVal),
  sV BlockMapIndex.block_tables blockTables false (if (tablesVal b).isEmpty then none else some (.record (tablesVal b))),
  sV BlockMapIndex.query_responses (.arr queryResponse) false (ne (b.qrs.map (QRec.toVal b.earliest tps))),
  sV BlockMapIndex.address_event_counts (.arr addressEventCount) false (ne (b.aecs.map AEC.toVal)),
  sV BlockMapIndex.malformed_messages (.arr malformedMessage) false (ne (b.mms.map (MMRec.toVal b.earliest tps)))]

/-- a block whose contents fit the widths of the C++ members is in the domain of the schema round trip -/
theorem blk_conforms (b : Blk) (pi : Option Nat) (tps : Nat) (h : BlkOk b) (hpi : ULt 32 pi) : Conforms block (toVal b pi tps) := by
  have e' : toVal b pi tps = .record (slots (blkSlots b pi tps)) := by
    simp only [toVal, blkSlots, preVal, nonEmpty_eq, ite_slot, slots_sV, slots_nil', optV_some, List.append_nil, List.append_assoc,
      List.cons_append, List.nil_append]
  rw [e']
  have hk : block = .struct ((blkSlots b pi tps).map (·.1)) := rfl
  rw [hk]
  apply conforms_slots
  · simp only [blkSlots, sV, List.map_cons, List.map_nil, Field.key]; decide +kernel
  · refine ok_Vreq (by decide) (pre_conforms b pi h hpi) <| ok_V (by decide) (map_conf _ _ _ fun s hs => stats_conforms s (h.stats s hs)) <|
      ok_V (by decide) ?_ <|
      ok_V (by decide) (ok_ne _ _ _ h.lenQ fun q hq => qr_conforms _ _ q (h.qrs q hq)) <|
      ok_V (by decide) (ok_ne _ _ _ h.lenA fun a ha => aec_conforms a (h.aecs a ha)) <|
      ok_V (by decide) (ok_ne _ _ _ h.lenM fun m hm => mm_conforms _ _ m (h.mms m hm)) <| ok_nil
    intro v hv
    split at hv
    · cases hv
    · cases hv; exact tables_conforms b h
  · simp [blkSlots]

end CdnsVerif.Model.Builder
