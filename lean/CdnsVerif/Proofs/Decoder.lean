/-
  Helper lemmas for the decoder model (C07, C08, C05).
-/
import CdnsVerif.Model.Decoder

namespace CdnsVerif.Model.Decoder
open CdnsVerif.Spec.Cbor CdnsVerif.Model

/-! ### generated obligations on the major-type codes -/
theorem tUnsigned_eq : tUnsigned = mUint * 32 := by decide
theorem tNegative_eq : tNegative = mNint * 32 := by decide
theorem tByteString_eq : tByteString = mBstr * 32 := by decide
theorem tTextString_eq : tTextString = mTstr * 32 := by decide
theorem tArray_eq : tArray = mArr * 32 := by decide
theorem tMap_eq : tMap = mMap * 32 := by decide
theorem tTag_eq : tTag = mTag * 32 := by decide
theorem tSimple_eq : tSimple = mSimple * 32 := by decide
theorem tBreak_eq : tBreak = 255 := by decide

set_option maxRecDepth 8000 in
/-- the arithmetic form used by the model equals the C++ bit masks for every byte value -/
theorem mask_eq : ∀ b < 256, b &&& 0xE0 = b / 32 * 32 ∧ b &&& 0x1F = b % 32 := by decide

/-! ### primitive steps -/

@[simp] theorem run_readCborType (b : Nat) (bs : Bytes) :
    readCborType.run (b :: bs) = .ok ((b / 32 * 32, b % 32), bs) := rfl

@[simp] theorem run_readCborType_nil : readCborType.run [] = .error .end_ := rfl

@[simp] theorem run_peekType (b : Nat) (bs : Bytes) :
    peekType.run (b :: bs) = .ok (if b = tBreak then tBreak else b / 32 * 32, b :: bs) := rfl

theorem ai_lt (w : Width) (v : Nat) (h : w.fits v) : w.ai v < 32 := by
  cases w <;> simp [Width.ai, Width.fits, Width.bound] at * <;> omega

theorem head_cons (m : Nat) (w : Width) (v : Nat) :
    head m w v = (m * 32 + w.ai v) :: be w.nbytes v := rfl

theorem head_byte_div (m : Nat) (w : Width) (v : Nat) (h : w.fits v) :
    (m * 32 + w.ai v) / 32 * 32 = m * 32 ∧ (m * 32 + w.ai v) % 32 = w.ai v := by
  have := ai_lt w v h
  omega

theorem mod_pow_succ' (v k : Nat) : v / 256 ^ k % 256 * 256 ^ k + v % 256 ^ k = v % 256 ^ (k + 1) := by
  rw [Nat.mod_pow_succ, Nat.mul_comm, Nat.add_comm]

theorem run_readBE (k v : Nat) (rest : Bytes) :
    (readBE k).run (be k v ++ rest) = .ok (v % 256 ^ k, rest) := by
  induction k with
  | zero => simp [readBE, be, Nat.mod_one]
  | succ k ih =>
    simp only [readBE, be, List.cons_append, Prog.run_next_cons]
    rw [Prog.run_bind_ok _ _ _ _ _ ih]
    simp only [Prog.run_pure]
    rw [mod_pow_succ']

theorem run_readInt (w : Width) (v : Nat) (h : w.fits v) (rest : Bytes) :
    (readInt (w.ai v)).run (be w.nbytes v ++ rest) = .ok (v, rest) := by
  cases w with
  | imm =>
    simp only [Width.fits, Width.bound] at h
    have : v ≤ 23 := by omega
    simp [readInt, Width.ai, Width.nbytes, be, this]
  | w1 =>
    simp only [Width.fits, Width.bound] at h
    have e : readInt (Width.w1.ai v) = readBE 1 := by simp [readInt, Width.ai]
    rw [e, show Width.w1.nbytes = 1 from rfl, run_readBE, Nat.mod_eq_of_lt (by omega)]
  | w2 =>
    simp only [Width.fits, Width.bound] at h
    have e : readInt (Width.w2.ai v) = readBE 2 := by simp [readInt, Width.ai]
    rw [e, show Width.w2.nbytes = 2 from rfl, run_readBE, Nat.mod_eq_of_lt (by omega)]
  | w4 =>
    simp only [Width.fits, Width.bound] at h
    have e : readInt (Width.w4.ai v) = readBE 4 := by simp [readInt, Width.ai]
    rw [e, show Width.w4.nbytes = 4 from rfl, run_readBE, Nat.mod_eq_of_lt (by omega)]
  | w8 =>
    simp only [Width.fits, Width.bound] at h
    have e : readInt (Width.w8.ai v) = readBE 8 := by simp [readInt, Width.ai]
    rw [e, show Width.w8.nbytes = 8 from rfl, run_readBE, Nat.mod_eq_of_lt (by omega)]

/-- reading a head: type code, additional information, then the argument -/
theorem run_head (m : Nat) (w : Width) (v : Nat) (h : w.fits v) (rest : Bytes) (f : Nat × Nat → Prog α) :
    (readCborType >>= f).run (head m w v ++ rest) = (f (m * 32, w.ai v)).run (be w.nbytes v ++ rest) := by
  rw [head_cons, List.cons_append, Prog.run_bind_ok _ _ _ _ _ (run_readCborType _ _)]
  have := head_byte_div m w v h
  rw [this.1, this.2]

theorem ai_le_27 (w : Width) (v : Nat) (h : w.fits v) : w.ai v ≤ 27 := by
  cases w <;> simp [Width.ai, Width.fits, Width.bound] at * <;> omega

theorem run_readNAux (bs acc rest : Bytes) :
    (readNAux bs.length acc).run (bs ++ rest) = .ok (acc.reverse ++ bs, rest) := by
  induction bs generalizing acc with
  | nil => simp [readNAux]
  | cons b bs ih =>
    simp only [List.length_cons, readNAux, List.cons_append, Prog.run_next_cons]
    rw [ih (b :: acc)]
    simp

theorem run_readN (bs rest : Bytes) : (readN bs.length).run (bs ++ rest) = .ok (bs, rest) := by
  unfold readN
  rw [run_readNAux]
  simp

theorem peek_head (m : Nat) (hm : m < 7) (w : Width) (v : Nat) (h : w.fits v) (rest : Bytes) (f : Nat → Prog α) :
    (peekType >>= f).run (head m w v ++ rest) = (f (m * 32)).run (head m w v ++ rest) := by
  rw [head_cons, List.cons_append, Prog.run_bind_ok _ _ _ _ _ (run_peekType _ _)]
  have := head_byte_div m w v h
  have hai := ai_lt w v h
  have : ¬ (m * 32 + w.ai v = tBreak) := by rw [tBreak_eq]; omega
  simp only [this, if_false]
  rw [(head_byte_div m w v h).1]


theorem readBreak_accepts (rest : Bytes) : readBreak.run (breakByte :: rest) = .ok ((), rest) := rfl


/-- the chunk loop: all chunks are read, the stop code is left for `read_break` -/
theorem run_readChunks (m : Nat) (hm : m = mBstr ∨ m = mTstr) (cs : List Chunk) (hcs : chunksWF cs)
    (fuel : Nat) (rest : Bytes) :
    (readChunks (m * 32) (cs.length + 1 + fuel)).run (encChunks m cs ++ breakByte :: rest) =
      .ok (chunksVal cs, breakByte :: rest) := by
  induction cs with
  | nil =>
    simp only [List.length_nil, encChunks, List.nil_append, chunksVal]
    rw [show 0 + 1 + fuel = fuel + 1 by omega]
    unfold readChunks
    rw [Prog.run_bind_ok _ _ _ _ _ (run_peekType _ _)]
    have : breakByte = tBreak := by decide
    simp [this]
  | cons c cs ih =>
    obtain ⟨hc, hcs'⟩ := hcs
    obtain ⟨hfit, _⟩ := hc
    have hm7 : m < 7 := by rcases hm with rfl | rfl <;> decide
    simp only [List.length_cons, encChunks, encChunk, chunksVal]
    rw [show cs.length + 1 + 1 + fuel = (cs.length + 1 + fuel) + 1 by omega]
    unfold readChunks
    rw [List.append_assoc, List.append_assoc, peek_head m hm7 c.1 c.2.length hfit]
    have hnb : ¬ (m * 32 = tBreak) := by rcases hm with rfl | rfl <;> decide
    simp only [hnb, if_false]
    rw [run_head m c.1 c.2.length hfit]
    have := ai_le_27 c.1 c.2.length hfit
    have h31 : ¬ (c.1.ai c.2.length = 31) := by omega
    simp only [ne_eq, not_true_eq_false, if_false, h31]
    rw [Prog.run_bind_ok _ _ _ _ _ (run_readInt c.1 c.2.length hfit _)]
    rw [Prog.run_bind_ok _ _ _ _ _ (run_readN c.2 _)]
    rw [Prog.run_bind_ok _ _ _ _ _ (ih hcs')]
    simp


end CdnsVerif.Model.Decoder
