/-
  `skip_item()` consumes exactly one data item – helper lemmas (the property theorem is
  `Props.C07.skip_exact`).
-/
import CdnsVerif.Proofs.Decoder

namespace CdnsVerif.Model.Decoder
open CdnsVerif.Spec.Cbor CdnsVerif.Model

mutual
/-- loop iterations `skip_item()` spends on an item -/
def steps : Item → Nat
  | .arr _ items => stepsList items + 2
  | .arrI items => stepsList items + 2
  | .map _ items => stepsList items + 3
  | .mapI items => stepsList items + 2
  | .tag _ _ c => steps c + 2
  | .uint _ _ => 1
  | .nint _ _ => 1
  | .bstr _ _ => 1
  | .bstrI _ => 1
  | .tstr _ _ => 1
  | .tstrI _ => 1
  | .simple _ => 1
  | .simple1 _ => 1
  | .f16 _ => 1
  | .f32 _ => 1
  | .f64 _ => 1
def stepsList : List Item → Nat
  | [] => 0
  | i :: is => steps i + stepsList is
end

mutual
/-- chunk-loop fuel needed by the strings inside an item -/
def cfuel : Item → Nat
  | .bstrI cs => cs.length + 1
  | .tstrI cs => cs.length + 1
  | .arr _ items => cfuelList items
  | .arrI items => cfuelList items
  | .map _ items => cfuelList items
  | .mapI items => cfuelList items
  | .tag _ _ c => cfuel c
  | .uint _ _ => 0
  | .nint _ _ => 0
  | .bstr _ _ => 0
  | .tstr _ _ => 0
  | .simple _ => 0
  | .simple1 _ => 0
  | .f16 _ => 0
  | .f32 _ => 0
  | .f64 _ => 0
def cfuelList : List Item → Nat
  | [] => 0
  | i :: is => cfuel i + cfuelList is
end

def Level.ready (top : Level) : Prop := top.indef = true ∨ top.left ≠ 0

/-- the first byte of a well-formed encoding is never the stop code -/
theorem enc_first (i : Item) (h : i.WF) : ∃ b tl, i.enc = b :: tl ∧ b ≠ 255 := by
  cases i with
  | uint w n => exact ⟨_, _, head_cons _ _ _, by have := ai_lt w n h; simp [mUint]; omega⟩
  | nint w n => exact ⟨_, _, head_cons _ _ _, by have := ai_lt w n h; simp [mNint]; omega⟩
  | bstr w bs => exact ⟨_, _, by rw [Item.enc, head_cons]; rfl, by have := ai_lt w _ h.1; simp [mBstr]; omega⟩
  | tstr w bs => exact ⟨_, _, by rw [Item.enc, head_cons]; rfl, by have := ai_lt w _ h.1; simp [mTstr]; omega⟩
  | bstrI cs => exact ⟨_, _, by rw [Item.enc]; rfl, by decide⟩
  | tstrI cs => exact ⟨_, _, by rw [Item.enc]; rfl, by decide⟩
  | arr w items => exact ⟨_, _, by rw [Item.enc, head_cons]; rfl, by have := ai_lt w _ h.1; simp [mArr]; omega⟩
  | arrI items => exact ⟨_, _, by rw [Item.enc]; rfl, by decide⟩
  | map w items => exact ⟨_, _, by rw [Item.enc, head_cons]; rfl, by have := ai_lt w _ h.1; simp [mMap]; omega⟩
  | mapI items => exact ⟨_, _, by rw [Item.enc]; rfl, by decide⟩
  | tag w n c => exact ⟨_, _, by rw [Item.enc, head_cons]; rfl, by have := ai_lt w n h.1; simp [mTag]; omega⟩
  | simple n => exact ⟨_, _, by rw [Item.enc], by simp [Item.WF] at h; simp [mSimple]; omega⟩
  | simple1 n => exact ⟨_, _, by rw [Item.enc], by decide⟩
  | f16 b => exact ⟨_, _, by rw [Item.enc], by decide⟩
  | f32 b => exact ⟨_, _, by rw [Item.enc], by decide⟩
  | f64 b => exact ⟨_, _, by rw [Item.enc], by decide⟩

/-- entering the loop body when the next byte is not a stop code -/
theorem skipLoop_enter (sf n : Nat) (top : Level) (L : List Level) (b : Nat) (tl : Bytes)
    (hb : b ≠ 255) (hr : top.ready) :
    (skipLoop sf (n + 1) (top :: L)).run (b :: tl) =
      (skipHead sf (top.after :: L) (skipLoop sf n)).run (b :: tl) := by
  rw [skipLoop]
  by_cases hi : top.indef = true
  · simp only [hi, if_true]
    rw [Prog.run_bind_ok _ _ _ _ _ (run_peekType _ _)]
    have h1 : ¬ (b = tBreak) := by rw [tBreak_eq]; exact hb
    have h2 : ¬ (b / 32 * 32 = tBreak) := by rw [tBreak_eq]; omega
    simp only [h1, h2, if_false]
  · have hl : top.left ≠ 0 := by
      rcases hr with h | h
      · exact absurd h hi
      · exact h
    simp only [hi, hl, if_false, Bool.false_eq_true]

/-- popping an exhausted definite level costs one iteration and no input -/
theorem skipLoop_pop (sf n : Nat) (top : Level) (L : List Level) (bs : Bytes)
    (hi : top.indef = false) (hl : top.left = 0) :
    (skipLoop sf (n + 1) (top :: L)).run bs = (skipLoop sf n L).run bs := by
  rw [skipLoop]
  simp [hi, hl]

/-- closing an indefinite level at its stop code -/
theorem skipLoop_break (sf n : Nat) (top : Level) (L : List Level) (rest : Bytes)
    (hi : top.indef = true) (hv : (top.map && top.value) = false) :
    (skipLoop sf (n + 1) (top :: L)).run (breakByte :: rest) = (skipLoop sf n L).run rest := by
  rw [skipLoop]
  simp only [hi, if_true]
  rw [Prog.run_bind_ok _ _ _ _ _ (run_peekType _ _)]
  have : breakByte = tBreak := by decide
  simp [this, hv]

/-! ### `skipHead` on each kind of item -/

theorem skipHead_scalar (m : Nat) (hm : m = mUint ∨ m = mNint) (w : Width) (n : Nat) (h : w.fits n)
    (sf : Nat) (lv : List Level) (k : List Level → Prog Unit) (rest : Bytes) :
    (skipHead sf lv k).run (head m w n ++ rest) = (k lv).run rest := by
  unfold skipHead
  rw [run_head m w n h]
  have := ai_le_27 w n h
  have h28 : ¬ w.ai n ≥ 28 := by omega
  have ht : m * 32 = tUnsigned ∨ m * 32 = tNegative := by rcases hm with rfl | rfl <;> decide
  simp only [ht, if_true, h28, if_false]
  rw [Prog.run_bind_ok _ _ _ _ _ (run_readInt w n h rest)]

theorem skipHead_tag (w : Width) (n : Nat) (h : w.fits n)
    (sf : Nat) (lv : List Level) (k : List Level → Prog Unit) (rest : Bytes) :
    (skipHead sf lv k).run (head mTag w n ++ rest) = (k (Level.one :: lv)).run rest := by
  unfold skipHead
  rw [run_head mTag w n h]
  have := ai_le_27 w n h
  have h28 : ¬ w.ai n ≥ 28 := by omega
  have e1 : ¬ (mTag * 32 = tUnsigned ∨ mTag * 32 = tNegative) := by decide
  have e2 : mTag * 32 = tTag := by decide
  dsimp only
  rw [if_neg e1, if_pos e2, if_neg h28]
  rw [Prog.run_bind_ok _ _ _ _ _ (run_readInt w n h rest)]

/-- simple values and floats: one head byte with additional information `ai ≤ 27`, followed
    by the `2^(ai-24)` argument bytes -/
theorem skipHead_simple (ai : Nat) (hai : ai ≤ 27) (arg rest : Bytes)
    (harg : arg.length = if ai ≤ 23 then 0 else 2 ^ (ai - 24))
    (sf : Nat) (lv : List Level) (k : List Level → Prog Unit) :
    (skipHead sf lv k).run ((mSimple * 32 + ai) :: (arg ++ rest)) = (k lv).run rest := by
  unfold skipHead
  rw [Prog.run_bind_ok _ _ _ _ _ (run_readCborType _ _)]
  have d1 : (mSimple * 32 + ai) / 32 * 32 = mSimple * 32 := by omega
  have d2 : (mSimple * 32 + ai) % 32 = ai := by omega
  rw [d1, d2]
  have e1 : ¬ (mSimple * 32 = tUnsigned ∨ mSimple * 32 = tNegative) := by decide
  have e2 : ¬ (mSimple * 32 = tTag) := by decide
  have e3 : mSimple * 32 = tSimple := by decide
  have h28 : ¬ (28 ≤ ai ∧ ai ≤ 30) := by omega
  dsimp only
  rw [if_neg e1, if_neg e2, if_pos e3, if_neg h28]
  have hr : ∃ v, (readInt ai).run (arg ++ rest) = .ok (v, rest) := by
    unfold readInt
    by_cases h23 : ai ≤ 23
    · simp only [h23, if_true] at harg ⊢
      have : arg = [] := List.eq_nil_of_length_eq_zero harg
      subst this
      exact ⟨ai, rfl⟩
    · simp only [h23, if_false, hai, if_true] at harg ⊢
      have hk : ∀ (k : Nat) (a r : Bytes), a.length = k → ∃ v, (readBE k).run (a ++ r) = .ok (v, r) := by
        intro k
        induction k with
        | zero => intro a r ha; have : a = [] := List.eq_nil_of_length_eq_zero ha; subst this; exact ⟨0, rfl⟩
        | succ k ih =>
          intro a r ha
          cases a with
          | nil => simp at ha
          | cons x xs =>
            obtain ⟨v, hv⟩ := ih xs r (by simpa using ha)
            refine ⟨x * 256 ^ k + v, ?_⟩
            simp only [readBE, List.cons_append, Prog.run_next_cons]
            rw [Prog.run_bind_ok _ _ _ _ _ hv]
            simp
      exact hk _ arg rest harg
  obtain ⟨v, hv⟩ := hr
  rw [Prog.run_bind_ok _ _ _ _ _ hv]


theorem skipHead_str_def (m : Nat) (hm : m = mBstr ∨ m = mTstr) (w : Width) (bs : Bytes) (h : w.fits bs.length)
    (sf : Nat) (lv : List Level) (k : List Level → Prog Unit) (rest : Bytes) :
    (skipHead sf lv k).run (head m w bs.length ++ bs ++ rest) = (k lv).run rest := by
  unfold skipHead
  rw [List.append_assoc, run_head m w bs.length h]
  have := ai_le_27 w bs.length h
  have h28 : ¬ (28 ≤ w.ai bs.length ∧ w.ai bs.length ≤ 30) := by omega
  have e1 : ¬ (m * 32 = tUnsigned ∨ m * 32 = tNegative) := by rcases hm with rfl | rfl <;> decide
  have e2 : ¬ (m * 32 = tTag) := by rcases hm with rfl | rfl <;> decide
  have e3 : ¬ (m * 32 = tSimple) := by rcases hm with rfl | rfl <;> decide
  have e4 : m * 32 = tByteString ∨ m * 32 = tTextString := by rcases hm with rfl | rfl <;> decide
  dsimp only
  rw [if_neg e1, if_neg e2, if_neg e3, if_pos e4, if_neg h28]
  rw [Prog.run_bind_ok _ _ _ _ _ (run_readInt w bs.length h (bs ++ rest))]
  have h31 : (w.ai bs.length == 31) = false := by apply beq_false_of_ne; omega
  have hs : (readString (m * 32) bs.length (w.ai bs.length == 31) sf).run (bs ++ rest) = .ok (bs, rest) := by
    simp only [readString, h31, Bool.not_false, if_true]
    exact run_readN bs rest
  rw [Prog.run_bind_ok _ _ _ _ _ hs]

theorem skipHead_str_indef (m : Nat) (hm : m = mBstr ∨ m = mTstr) (cs : List Chunk) (hcs : chunksWF cs)
    (sf : Nat) (hsf : cs.length + 1 ≤ sf) (lv : List Level) (k : List Level → Prog Unit) (rest : Bytes) :
    (skipHead sf lv k).run (indefHead m ++ encChunks m cs ++ [breakByte] ++ rest) = (k lv).run rest := by
  unfold skipHead
  simp only [indefHead, List.cons_append, List.nil_append, List.append_assoc]
  rw [Prog.run_bind_ok _ _ _ _ _ (run_readCborType _ _)]
  have d1 : (m * 32 + 31) / 32 * 32 = m * 32 := by omega
  have d2 : (m * 32 + 31) % 32 = 31 := by omega
  rw [d1, d2]
  have h28 : ¬ (28 ≤ 31 ∧ 31 ≤ 30) := by omega
  have e1 : ¬ (m * 32 = tUnsigned ∨ m * 32 = tNegative) := by rcases hm with rfl | rfl <;> decide
  have e2 : ¬ (m * 32 = tTag) := by rcases hm with rfl | rfl <;> decide
  have e3 : ¬ (m * 32 = tSimple) := by rcases hm with rfl | rfl <;> decide
  have e4 : m * 32 = tByteString ∨ m * 32 = tTextString := by rcases hm with rfl | rfl <;> decide
  dsimp only
  rw [if_neg e1, if_neg e2, if_neg e3, if_pos e4, if_neg h28]
  have hr : (readInt 31).run (encChunks m cs ++ breakByte :: rest) = .ok (0, encChunks m cs ++ breakByte :: rest) := by
    simp [readInt]
  rw [Prog.run_bind_ok _ _ _ _ _ hr]
  obtain ⟨j, rfl⟩ : ∃ j, sf = cs.length + 1 + j := ⟨sf - (cs.length + 1), by omega⟩
  have hs : (readString (m * 32) 0 (31 == 31) (cs.length + 1 + j)).run (encChunks m cs ++ breakByte :: rest)
      = .ok (chunksVal cs, rest) := by
    simp only [readString, beq_self_eq_true, Bool.not_true, Bool.false_eq_true, if_false]
    rw [Prog.run_bind_ok _ _ _ _ _ (run_readChunks m hm cs hcs j rest)]
    rw [Prog.run_bind_ok _ _ _ _ _ (readBreak_accepts rest)]
    simp
  rw [Prog.run_bind_ok _ _ _ _ _ hs]

theorem skipHead_arr (m : Nat) (hm : m = mArr ∨ m = mMap) (w : Width) (n : Nat) (h : w.fits n)
    (sf : Nat) (lv : List Level) (k : List Level → Prog Unit) (rest : Bytes) :
    (skipHead sf lv k).run (head m w n ++ rest) =
      (k (if m = mMap then ⟨n, false, false, false⟩ :: ⟨n, false, false, false⟩ :: lv
          else ⟨n, false, false, false⟩ :: lv)).run rest := by
  unfold skipHead
  rw [run_head m w n h]
  have := ai_le_27 w n h
  have h28 : ¬ (28 ≤ w.ai n ∧ w.ai n ≤ 30) := by omega
  have h31 : ¬ (w.ai n = 31) := by omega
  have e1 : ¬ (m * 32 = tUnsigned ∨ m * 32 = tNegative) := by rcases hm with rfl | rfl <;> decide
  have e2 : ¬ (m * 32 = tTag) := by rcases hm with rfl | rfl <;> decide
  have e3 : ¬ (m * 32 = tSimple) := by rcases hm with rfl | rfl <;> decide
  have e4 : ¬ (m * 32 = tByteString ∨ m * 32 = tTextString) := by rcases hm with rfl | rfl <;> decide
  have e5 : m * 32 = tArray ∨ m * 32 = tMap := by rcases hm with rfl | rfl <;> decide
  dsimp only
  rw [if_neg e1, if_neg e2, if_neg e3, if_neg e4, if_pos e5, if_neg h28, if_neg h31]
  rw [Prog.run_bind_ok _ _ _ _ _ (run_readInt w n h rest)]
  rcases hm with rfl | rfl
  · have : ¬ (mArr * 32 = tMap) := by decide
    have h2 : ¬ (mArr = mMap) := by decide
    rw [if_neg this, if_neg h2]
  · have : mMap * 32 = tMap := by decide
    rw [if_pos this, if_pos rfl]

theorem skipHead_indef (m : Nat) (hm : m = mArr ∨ m = mMap)
    (sf : Nat) (lv : List Level) (k : List Level → Prog Unit) (rest : Bytes) :
    (skipHead sf lv k).run (indefHead m ++ rest) = (k (⟨0, true, decide (m = mMap), false⟩ :: lv)).run rest := by
  unfold skipHead
  simp only [indefHead, List.cons_append, List.nil_append]
  rw [Prog.run_bind_ok _ _ _ _ _ (run_readCborType _ _)]
  have d1 : (m * 32 + 31) / 32 * 32 = m * 32 := by omega
  have d2 : (m * 32 + 31) % 32 = 31 := by omega
  rw [d1, d2]
  have h28 : ¬ (28 ≤ 31 ∧ 31 ≤ 30) := by omega
  have e1 : ¬ (m * 32 = tUnsigned ∨ m * 32 = tNegative) := by rcases hm with rfl | rfl <;> decide
  have e2 : ¬ (m * 32 = tTag) := by rcases hm with rfl | rfl <;> decide
  have e3 : ¬ (m * 32 = tSimple) := by rcases hm with rfl | rfl <;> decide
  have e4 : ¬ (m * 32 = tByteString ∨ m * 32 = tTextString) := by rcases hm with rfl | rfl <;> decide
  have e5 : m * 32 = tArray ∨ m * 32 = tMap := by rcases hm with rfl | rfl <;> decide
  dsimp only
  rw [if_neg e1, if_neg e2, if_neg e3, if_neg e4, if_pos e5, if_neg h28, if_pos rfl]
  rcases hm with rfl | rfl <;> rfl


/-! ### the induction -/

/-- what it means that `skip_item()` handles item `i` correctly in any loop context -/
def SkipOK (i : Item) : Prop :=
  ∀ (sf f : Nat) (top : Level) (L : List Level) (rest : Bytes), top.ready → cfuel i ≤ sf →
    (skipLoop sf (steps i + f) (top :: L)).run (i.enc ++ rest) = (skipLoop sf f (top.after :: L)).run rest

def dlevel (n : Nat) : Level := ⟨n, false, false, false⟩

theorem dlevel_after (n : Nat) : (dlevel (n + 1)).after = dlevel n := by simp [dlevel, Level.after]

/-- a definite level with enough room consumes a whole list of items -/
theorem skip_list_def (items : List Item) (H : ∀ i ∈ items, SkipOK i) (sf f k : Nat) (L : List Level)
    (rest : Bytes) (hsf : cfuelList items ≤ sf) :
    (skipLoop sf (stepsList items + f) (dlevel (items.length + k) :: L)).run (Item.encList items ++ rest) =
      (skipLoop sf f (dlevel k :: L)).run rest := by
  induction items generalizing f with
  | nil => simp [stepsList, Item.encList]
  | cons i is ih =>
    simp only [stepsList, Item.encList, List.length_cons, cfuelList] at *
    rw [List.append_assoc, show steps i + stepsList is + f = steps i + (stepsList is + f) by omega]
    rw [H i (by simp) sf _ (dlevel (is.length + 1 + k)) L _ (by right; simp [dlevel]) (by omega)]
    rw [show is.length + 1 + k = (is.length + k) + 1 by omega, dlevel_after]
    exact ih (fun j hj => H j (by simp [hj])) f (by omega)

/-- an indefinite level consumes a list of items, toggling its key/value flag -/
theorem skip_list_indef (items : List Item) (H : ∀ i ∈ items, SkipOK i) (sf f : Nat) (mp v : Bool)
    (L : List Level) (rest : Bytes) (hsf : cfuelList items ≤ sf) :
    (skipLoop sf (stepsList items + f) (⟨0, true, mp, v⟩ :: L)).run (Item.encList items ++ rest) =
      (skipLoop sf f (⟨0, true, mp, v ^^ decide (items.length % 2 = 1)⟩ :: L)).run rest := by
  induction items generalizing f v with
  | nil => simp [stepsList, Item.encList]
  | cons i is ih =>
    simp only [stepsList, Item.encList, List.length_cons, cfuelList] at *
    rw [List.append_assoc, show steps i + stepsList is + f = steps i + (stepsList is + f) by omega]
    rw [H i (by simp) sf _ ⟨0, true, mp, v⟩ L _ (by left; rfl) (by omega)]
    have ha : (⟨0, true, mp, v⟩ : Level).after = ⟨0, true, mp, !v⟩ := by simp [Level.after]
    rw [ha, ih (fun j hj => H j (by simp [hj])) f (!v) (by omega)]
    congr 3
    by_cases hp : is.length % 2 = 1
    · have : ¬ ((is.length + 1) % 2 = 1) := by omega
      simp [hp, this]
    · have : (is.length + 1) % 2 = 1 := by omega
      simp [hp, this]

/-- two stacked definite levels (a definite-length map: `n` keys' worth, then `n` values' worth) -/
theorem skip_list_def2 (items : List Item) (H : ∀ i ∈ items, SkipOK i) (sf f a b : Nat) (L : List Level)
    (rest : Bytes) (hsf : cfuelList items ≤ sf) (hab : items.length = a + b) :
    (skipLoop sf (stepsList items + 2 + f) (dlevel a :: dlevel b :: L)).run (Item.encList items ++ rest) =
      (skipLoop sf f L).run rest := by
  induction items generalizing f a with
  | nil =>
    simp only [List.length_nil] at hab
    have ha : a = 0 := by omega
    have hb : b = 0 := by omega
    subst ha hb
    simp only [stepsList, Item.encList, List.nil_append, Nat.zero_add]
    rw [show 2 + f = (f + 1) + 1 by omega, skipLoop_pop _ _ _ _ _ rfl rfl, skipLoop_pop _ _ _ _ _ rfl rfl]
  | cons i is ih =>
    by_cases ha : a = 0
    · subst ha
      rw [show stepsList (i :: is) + 2 + f = (stepsList (i :: is) + (1 + f)) + 1 by omega,
        skipLoop_pop _ _ _ _ _ rfl rfl]
      have hb : b = (i :: is).length + 0 := by omega
      rw [hb, skip_list_def (i :: is) H sf (1 + f) 0 L rest hsf]
      rw [show 1 + f = f + 1 by omega, skipLoop_pop _ _ _ _ _ rfl rfl]
    · obtain ⟨a', rfl⟩ : ∃ a', a = a' + 1 := ⟨a - 1, by omega⟩
      simp only [stepsList, Item.encList, List.length_cons, cfuelList] at *
      rw [List.append_assoc, show steps i + stepsList is + 2 + f = steps i + (stepsList is + 2 + f) by omega]
      rw [H i (by simp) sf _ (dlevel (a' + 1)) _ _ (by right; simp [dlevel]) (by omega), dlevel_after]
      exact ih (fun j hj => H j (by simp [hj])) f a' (by omega) (by omega)

theorem wfList_mem (items : List Item) (h : Item.WFList items) : ∀ i ∈ items, i.WF := by
  induction items with
  | nil => intro i hi; cases hi
  | cons x xs ih =>
    intro i hi
    simp only [Item.WFList] at h
    rcases List.mem_cons.1 hi with rfl | hi
    · exact h.1
    · exact ih h.2 i hi


mutual
/-- `skip_item()` handles every well-formed item (structural induction over the syntax) -/
theorem skipOK (i : Item) (hwf : i.WF) : SkipOK i := by
  intro sf f top L rest hr hsf
  obtain ⟨b, tl, he, hb⟩ := enc_first i hwf
  have enter : ∀ n, (skipLoop sf (n + 1) (top :: L)).run (i.enc ++ rest) =
      (skipHead sf (top.after :: L) (skipLoop sf n)).run (i.enc ++ rest) := by
    intro n; rw [he, List.cons_append]; exact skipLoop_enter sf n top L b _ hb hr
  cases i with
  | uint w n =>
    rw [show steps (.uint w n) + f = f + 1 by simp [steps]; omega, enter, Item.enc]
    exact skipHead_scalar mUint (Or.inl rfl) w n hwf sf _ _ rest
  | nint w n =>
    rw [show steps (.nint w n) + f = f + 1 by simp [steps]; omega, enter, Item.enc]
    exact skipHead_scalar mNint (Or.inr rfl) w n hwf sf _ _ rest
  | bstr w bs =>
    rw [show steps (.bstr w bs) + f = f + 1 by simp [steps]; omega, enter, Item.enc]
    exact skipHead_str_def mBstr (Or.inl rfl) w bs hwf.1 sf _ _ rest
  | tstr w bs =>
    rw [show steps (.tstr w bs) + f = f + 1 by simp [steps]; omega, enter, Item.enc]
    exact skipHead_str_def mTstr (Or.inr rfl) w bs hwf.1 sf _ _ rest
  | bstrI cs =>
    rw [show steps (.bstrI cs) + f = f + 1 by simp [steps]; omega, enter, Item.enc]
    exact skipHead_str_indef mBstr (Or.inl rfl) cs hwf sf (by simpa [cfuel] using hsf) _ _ rest
  | tstrI cs =>
    rw [show steps (.tstrI cs) + f = f + 1 by simp [steps]; omega, enter, Item.enc]
    exact skipHead_str_indef mTstr (Or.inr rfl) cs hwf sf (by simpa [cfuel] using hsf) _ _ rest
  | simple n =>
    rw [show steps (.simple n) + f = f + 1 by simp [steps]; omega, enter, Item.enc]
    simp only [Item.WF] at hwf
    exact skipHead_simple n (by omega) [] rest (by have : n ≤ 23 := by omega
                                                   simp [this]) sf _ _
  | simple1 n =>
    rw [show steps (.simple1 n) + f = f + 1 by simp [steps]; omega, enter, Item.enc]
    exact skipHead_simple 24 (by omega) [n] rest (by simp) sf _ _
  | f16 bits =>
    rw [show steps (.f16 bits) + f = f + 1 by simp [steps]; omega, enter, Item.enc]
    exact skipHead_simple 25 (by omega) (be 2 bits) rest (by simp [be_length]) sf _ _
  | f32 bits =>
    rw [show steps (.f32 bits) + f = f + 1 by simp [steps]; omega, enter, Item.enc]
    exact skipHead_simple 26 (by omega) (be 4 bits) rest (by simp [be_length]) sf _ _
  | f64 bits =>
    rw [show steps (.f64 bits) + f = f + 1 by simp [steps]; omega, enter, Item.enc]
    exact skipHead_simple 27 (by omega) (be 8 bits) rest (by simp [be_length]) sf _ _
  | tag w n c =>
    rw [show steps (.tag w n c) + f = (steps c + (f + 1)) + 1 by simp [steps]; omega, enter, Item.enc,
      List.append_assoc, skipHead_tag w n hwf.1]
    rw [skipOK c hwf.2 sf (f + 1) Level.one _ rest (by right; simp [Level.one]) (by simpa [cfuel] using hsf)]
    exact skipLoop_pop _ _ _ _ _ rfl rfl
  | arr w items =>
    have H := skipOKList items hwf.2
    rw [show steps (.arr w items) + f = (stepsList items + (f + 1)) + 1 by simp [steps]; omega, enter, Item.enc,
      List.append_assoc, skipHead_arr mArr (Or.inl rfl) w _ hwf.1]
    have h2 : ¬ (mArr = mMap) := by decide
    rw [if_neg h2]
    have := skip_list_def items H sf (f + 1) 0 (top.after :: L) rest (by simpa [cfuel] using hsf)
    simp only [Nat.add_zero] at this
    rw [show (⟨items.length, false, false, false⟩ : Level) = dlevel items.length from rfl, this]
    exact skipLoop_pop _ _ _ _ _ rfl rfl
  | arrI items =>
    have H := skipOKList items hwf
    rw [show steps (.arrI items) + f = (stepsList items + (f + 1)) + 1 by simp [steps]; omega, enter, Item.enc,
      List.append_assoc, List.append_assoc, skipHead_indef mArr (Or.inl rfl)]
    rw [skip_list_indef items H sf (f + 1) _ false _ _ (by simpa [cfuel] using hsf)]
    exact skipLoop_break _ _ _ _ _ rfl (by simp [mArr, mMap])
  | map w items =>
    have H := skipOKList items hwf.2.2
    rw [show steps (.map w items) + f = (stepsList items + 2 + f) + 1 by simp [steps]; omega, enter, Item.enc,
      List.append_assoc, skipHead_arr mMap (Or.inr rfl) w _ hwf.1]
    rw [if_pos rfl]
    exact skip_list_def2 items H sf f (items.length / 2) (items.length / 2) (top.after :: L) rest
      (by simpa [cfuel] using hsf) (by have := hwf.2.1; omega)
  | mapI items =>
    have H := skipOKList items hwf.2
    rw [show steps (.mapI items) + f = (stepsList items + (f + 1)) + 1 by simp [steps]; omega, enter, Item.enc,
      List.append_assoc, List.append_assoc, skipHead_indef mMap (Or.inr rfl)]
    rw [skip_list_indef items H sf (f + 1) _ false _ _ (by simpa [cfuel] using hsf)]
    refine skipLoop_break _ _ _ _ _ rfl ?_
    have : ¬ (items.length % 2 = 1) := by have := hwf.1; omega
    simp [this]
theorem skipOKList (items : List Item) (hwf : Item.WFList items) : ∀ i ∈ items, SkipOK i := by
  match items, hwf with
  | [], _ => intro i hi; cases hi
  | x :: xs, hwf =>
    intro i hi
    simp only [Item.WFList] at hwf
    by_cases hx : i = x
    · rw [hx]; exact skipOK x hwf.1
    · have hi' : i ∈ xs := by
        rcases List.mem_cons.1 hi with h | h
        · exact absurd h hx
        · exact h
      exact skipOKList xs hwf.2 i hi'
end


/-! ### a fuel linear in the input always suffices -/

theorem encChunks_length (m : Nat) (cs : List Chunk) : cs.length ≤ (encChunks m cs).length := by
  induction cs with
  | nil => simp [encChunks]
  | cons c cs ih => simp [encChunks, encChunk, head_length]; omega

mutual
theorem steps_le (i : Item) : steps i ≤ 3 * i.enc.length := by
  match i with
  | .uint w n => simp [steps, Item.enc, head_length]; omega
  | .nint w n => simp [steps, Item.enc, head_length]; omega
  | .bstr w bs => simp [steps, Item.enc, head_length]; omega
  | .tstr w bs => simp [steps, Item.enc, head_length]; omega
  | .bstrI cs => simp [steps, Item.enc, indefHead]; omega
  | .tstrI cs => simp [steps, Item.enc, indefHead]; omega
  | .simple n => simp [steps, Item.enc]
  | .simple1 n => simp [steps, Item.enc]
  | .f16 b => simp [steps, Item.enc]; omega
  | .f32 b => simp [steps, Item.enc]; omega
  | .f64 b => simp [steps, Item.enc]; omega
  | .tag w n c => have := steps_le c; simp [steps, Item.enc, head_length]; omega
  | .arr w items => have := stepsList_le items; simp [steps, Item.enc, head_length]; omega
  | .arrI items => have := stepsList_le items; simp [steps, Item.enc, indefHead]; omega
  | .map w items => have := stepsList_le items; simp [steps, Item.enc, head_length]; omega
  | .mapI items => have := stepsList_le items; simp [steps, Item.enc, indefHead]; omega
theorem stepsList_le (items : List Item) : stepsList items ≤ 3 * (Item.encList items).length := by
  match items with
  | [] => simp [stepsList, Item.encList]
  | i :: is => have := steps_le i; have := stepsList_le is; simp [stepsList, Item.encList]; omega
end

mutual
theorem cfuel_le (i : Item) : cfuel i ≤ i.enc.length := by
  match i with
  | .uint w n => simp [cfuel]
  | .nint w n => simp [cfuel]
  | .bstr w bs => simp [cfuel]
  | .tstr w bs => simp [cfuel]
  | .bstrI cs => have := encChunks_length mBstr cs; simp [cfuel, Item.enc, indefHead]; omega
  | .tstrI cs => have := encChunks_length mTstr cs; simp [cfuel, Item.enc, indefHead]; omega
  | .simple n => simp [cfuel]
  | .simple1 n => simp [cfuel]
  | .f16 b => simp [cfuel]
  | .f32 b => simp [cfuel]
  | .f64 b => simp [cfuel]
  | .tag w n c => have := cfuel_le c; simp [cfuel, Item.enc]; omega
  | .arr w items => have := cfuelList_le items; simp [cfuel, Item.enc]; omega
  | .arrI items => have := cfuelList_le items; simp [cfuel, Item.enc]; omega
  | .map w items => have := cfuelList_le items; simp [cfuel, Item.enc]; omega
  | .mapI items => have := cfuelList_le items; simp [cfuel, Item.enc]; omega
theorem cfuelList_le (items : List Item) : cfuelList items ≤ (Item.encList items).length := by
  match items with
  | [] => simp [cfuelList, Item.encList]
  | i :: is => have := cfuel_le i; have := cfuelList_le is; simp [cfuelList, Item.encList]; omega
end

end CdnsVerif.Model.Decoder
