/-
  Round trip of the generic struct interpreter: what `Schema.writeBytes` emits for a value
  conforming to a schema is read back by `Schema.readVal` as exactly that value.
  (Helper definitions and the induction; the property theorems are in Props/C09.lean.)
-/
import CdnsVerif.Model.Schema
import CdnsVerif.Props.C07

namespace CdnsVerif.Model.Schema
open CdnsVerif.Spec.Cbor CdnsVerif.Model CdnsVerif.Model.Decoder CdnsVerif.Props

mutual
/-- fuel the reader needs for a value (depends on its shape only) -/
def need : Val → Nat
  | .list vs => 2 + needList vs
  | .record ms => 2 + needPairs ms
  | .num _ => 1
  | .str _ => 1
  | .bool _ => 1
def needList : List Val → Nat
  | [] => 0
  | v :: vs => 1 + need v + needList vs
def needPairs : List (Int × Val) → Nat
  | [] => 0
  | (_, v) :: ms => 1 + need v + needPairs ms
end

def keyOk (key : Int) : Prop := -(2 ^ 63 : Int) ≤ key ∧ key < 2 ^ 63

mutual
/-- the values a struct can hold: integers within the member's width, strings/lists shorter than
    2^64, every present member known to the schema with a conforming value -/
def Conforms : Kind → Val → Prop
  | .uint bits, .num n => 0 ≤ n ∧ n < 2 ^ bits ∧ bits ≤ 64
  | .int64, .num n => -(2 ^ 63 : Int) ≤ n ∧ n < 2 ^ 63
  | .tstr, .str b => b.length < 2 ^ 64 ∧ bytesOk b
  | .bstr, .str b => b.length < 2 ^ 64 ∧ bytesOk b
  | .bool, .bool _ => True
  | .arr k, .list vs => vs.length < 2 ^ 64 ∧ ConformsList k vs
  | .struct fs, .record ms =>
    ms.length < 2 ^ 64 ∧ ConformsPairs fs ms ∧ (ms.map (·.1)).Nodup ∧
    (fs.all fun f => !f.required || ms.any (·.1 == f.key)) = true ∧
    -- the members are held in declaration order (one slot per member of the C++ struct)
    (fs.map (·.key)).Nodup ∧ (ms.map (·.1)).Sublist (fs.map (·.key))
  | _, _ => False
def ConformsList : Kind → List Val → Prop
  | _, [] => True
  | k, v :: vs => Conforms k v ∧ ConformsList k vs
def ConformsPairs : List Field → List (Int × Val) → Prop
  | _, [] => True
  | fs, (key, v) :: ms =>
    keyOk key ∧ (∃ f, fs.find? (fun f => f.key == key) = some f ∧ Conforms f.kind v) ∧ ConformsPairs fs ms
end

theorem toItems_length (k : Kind) (vs : List Val) : (toItems k vs).length = vs.length := by
  induction vs with
  | nil => simp [toItems]
  | cons v vs ih => simp [toItems, ih]

theorem toPairs_length (fs : List Field) (ms : List (Int × Val)) : (toPairs fs ms).length = 2 * ms.length := by
  induction ms with
  | nil => simp [toPairs]
  | cons m ms ih =>
    obtain ⟨key, v⟩ := m
    unfold toPairs
    split <;> simp [ih] <;> omega

theorem run_readInteger_intItem (key : Int) (h : keyOk key) (rest : Bytes) :
    readInteger.run ((intItem key).enc ++ rest) = .ok (key, rest) := by
  unfold intItem keyOk at *
  by_cases hn : key < 0
  · simp only [hn, if_true]
    have hfit : (shortest (-1 - key).toNat).fits (-1 - key).toNat := shortest_fits _ (by omega)
    have := C07.readInteger_accepts_nint (shortest (-1 - key).toNat) (-1 - key).toNat hfit (by omega) rest
    rw [this]
    congr 2
    omega
  · simp only [hn, if_false]
    have hfit : (shortest key.toNat).fits key.toNat := shortest_fits _ (by omega)
    have := C07.readInteger_accepts_uint (shortest key.toNat) key.toNat hfit (by omega) rest
    rw [this]
    congr 2
    omega

theorem setKey_new (acc : List (Int × Val)) (k : Int) (v : Val) (h : k ∉ acc.map (·.1)) : setKey acc k v = acc ++ [(k, v)] := by
  unfold setKey
  have : acc.any (fun e => e.1 == k) = false := by
    rw [List.any_eq_false]
    intro e he hek
    apply h
    simp only [List.mem_map]
    exact ⟨e, he, by simpa using hek⟩
  simp [this]

theorem canon_cons_notin (fs : List Field) (m : Int × Val) (ms : List (Int × Val)) (h : m.1 ∉ fs.map (·.key)) :
    canon fs (m :: ms) = canon fs ms := by
  induction fs with
  | nil => rfl
  | cons f fs ih =>
    simp only [List.map_cons, List.mem_cons, not_or] at h
    have hne : (m.1 == f.key) = false := beq_false_of_ne h.1
    have hf : (m :: ms).find? (fun e => e.1 == f.key) = ms.find? (fun e => e.1 == f.key) := by
      simp [List.find?, hne]
    unfold canon at ih ⊢
    rw [List.filterMap_cons, List.filterMap_cons, hf, ih h.2]

/-- a record that already is in declaration order is its own canonical form -/
theorem canon_id (fs : List Field) (ms : List (Int × Val)) (hnd : (fs.map (·.key)).Nodup)
    (hsub : (ms.map (·.1)).Sublist (fs.map (·.key))) : canon fs ms = ms := by
  induction fs generalizing ms with
  | nil =>
    have : ms = [] := by simpa using hsub
    subst this; rfl
  | cons f fs ih =>
    simp only [List.map_cons, List.nodup_cons] at hnd
    cases ms with
    | nil => simp [canon]
    | cons m ms =>
      simp only [List.map_cons] at hsub
      rcases List.sublist_cons_iff.1 hsub with hsub' | ⟨r, hr, hsub'⟩
      · -- `f` is absent from the record
        have hnot : f.key ∉ (m :: ms).map (·.1) := fun hin => hnd.1 (hsub'.subset (by simpa using hin))
        have hfind : (m :: ms).find? (fun e => e.1 == f.key) = none := by
          rw [List.find?_eq_none]
          intro e he heq
          exact hnot (by simp only [List.mem_map]; exact ⟨e, he, by simpa using heq⟩)
        unfold canon
        rw [List.filterMap_cons, hfind]
        exact ih (m :: ms) hnd.2 (by simpa using hsub')
      · -- the first member is `f`'s
        simp only [List.cons.injEq] at hr
        obtain ⟨hk, hr⟩ := hr
        subst hr
        have hfind : (m :: ms).find? (fun e => e.1 == f.key) = some m := by simp [List.find?, hk]
        have hrest : canon fs (m :: ms) = canon fs ms := canon_cons_notin fs m ms (by rw [hk]; exact hnd.1)
        unfold canon at hrest ⊢
        rw [List.filterMap_cons, hfind]
        simp only
        rw [hrest]
        have := ih ms hnd.2 hsub'
        unfold canon at this
        rw [this]

/-- the three statements proved together by induction on the fuel -/
def RT (fuel : Nat) : Prop :=
  (∀ k v rest, Conforms k v → need v ≤ fuel → (readVal fuel k).run ((toItem k v).enc ++ rest) = .ok (v, rest)) ∧
  (∀ k vs acc rest, ConformsList k vs → needList vs + 1 ≤ fuel →
      (readElems fuel k vs.length false acc).run (Item.encList (toItems k vs) ++ rest) = .ok (acc ++ vs, rest)) ∧
  (∀ fs ms acc rest, ConformsPairs fs ms → (acc.map (·.1) ++ ms.map (·.1)).Nodup → needPairs ms + 1 ≤ fuel →
      (readFields fuel fs ms.length false acc).run (Item.encList (toPairs fs ms) ++ rest) = .ok (acc ++ ms, rest))

theorem need_pos (v : Val) : 1 ≤ need v := by cases v <;> simp [need] <;> omega

theorem rt_zero : RT 0 := by
  refine ⟨?_, ?_, ?_⟩
  · intro k v rest _ h; have := need_pos v; omega
  · intro k vs acc rest _ h; omega
  · intro fs ms acc rest _ _ h; omega

theorem rt_succ (fuel : Nat) (ih : RT fuel) : RT (fuel + 1) := by
  obtain ⟨ihA, ihB, ihC⟩ := ih
  refine ⟨?_, ?_, ?_⟩
  · -- readVal
    intro k v rest hc hn
    cases k with
    | uint bits =>
      cases v <;> simp only [Conforms] at hc
      rename_i n
      obtain ⟨h0, h1, h2⟩ := hc
      simp only [readVal, toItem]
      have hnat : n.toNat < 2 ^ bits := by
        have : ((n.toNat : Nat) : Int) < ((2 ^ bits : Nat) : Int) := by
          rw [Int.toNat_of_nonneg h0]; exact_mod_cast h1
        exact_mod_cast this
      have hlt : n.toNat < 2 ^ 64 := Nat.lt_of_lt_of_le hnat (Nat.pow_le_pow_right (by decide) h2)
      rw [Prog.run_bind_ok _ _ _ _ _ (C07.readUnsigned_accepts _ _ (shortest_fits _ hlt) rest)]
      simp only [Prog.run_pure]
      have hm : n.toNat % 2 ^ bits = n.toNat := Nat.mod_eq_of_lt hnat
      rw [hm, Int.toNat_of_nonneg h0]
    | int64 =>
      cases v <;> simp only [Conforms] at hc
      rename_i n
      simp only [readVal, toItem]
      rw [Prog.run_bind_ok _ _ _ _ _ (run_readInteger_intItem n hc rest)]
      rfl
    | tstr =>
      cases v <;> simp only [Conforms] at hc
      rename_i b
      simp only [readVal, toItem]
      rw [Prog.run_bind_ok _ _ _ _ _ (C07.readTextstring_accepts _ b (shortest_fits _ hc.1) fuel rest)]
      rfl
    | bstr =>
      cases v <;> simp only [Conforms] at hc
      rename_i b
      simp only [readVal, toItem]
      rw [Prog.run_bind_ok _ _ _ _ _ (C07.readBytestring_accepts _ b (shortest_fits _ hc.1) fuel rest)]
      rfl
    | bool =>
      cases v <;> simp only [Conforms] at hc
      rename_i b
      simp only [readVal, toItem]
      rw [Prog.run_bind_ok _ _ _ _ _ (C07.readBool_accepts b rest)]
      rfl
    | arr ek =>
      cases v <;> simp only [Conforms] at hc
      rename_i vs
      obtain ⟨hlen, hcl⟩ := hc
      simp only [readVal, toItem]
      have hfit : (shortest (toItems ek vs).length).fits (toItems ek vs).length := shortest_fits _ (by rw [toItems_length]; exact hlen)
      rw [← toItems_length ek vs] at *
      rw [Prog.run_bind_ok _ _ _ _ _ (C07.readArrayStart_accepts _ (toItems ek vs) hfit rest)]
      simp only
      rw [toItems_length]
      have hn' : needList vs + 1 ≤ fuel := by simp only [need] at hn; omega
      rw [Prog.run_bind_ok _ _ _ _ _ (ihB ek vs [] rest hcl hn')]
      rfl
    | struct fs =>
      cases v <;> simp only [Conforms] at hc
      rename_i ms
      obtain ⟨hlen, hcp, hnd, hreq, hfnd, hsub⟩ := hc
      simp only [readVal, toItem]
      have hl2 : (toPairs fs ms).length / 2 = ms.length := by rw [toPairs_length]; omega
      have hfit : (shortest ms.length).fits ((toPairs fs ms).length / 2) := by rw [hl2]; exact shortest_fits _ hlen
      have := C07.readMapStart_accepts (shortest ms.length) (toPairs fs ms) hfit rest
      rw [Prog.run_bind_ok _ _ _ _ _ this]
      simp only
      rw [hl2]
      have hn' : needPairs ms + 1 ≤ fuel := by simp only [need] at hn; omega
      rw [Prog.run_bind_ok _ _ _ _ _ (ihC fs ms [] rest hcp (by simpa using hnd) hn')]
      simp only [List.nil_append, hreq, if_true]
      rw [canon_id fs ms hfnd hsub]
      rfl
  · -- readElems
    intro k vs acc rest hcl hn
    cases vs with
    | nil => simp [readElems, toItems, Item.encList]
    | cons v vs =>
      simp only [ConformsList] at hcl
      simp only [needList] at hn
      simp only [readElems, List.length_cons, toItems, Item.encList]
      have h1 : ¬ (vs.length + 1 = 0 ∧ True) := by simp
      simp only [h1, if_false, Bool.false_eq_true]
      rw [List.append_assoc, Prog.run_bind_ok _ _ _ _ _ (ihA k v _ hcl.1 (by omega))]
      simp only [Nat.add_sub_cancel]
      rw [ihB k vs (acc ++ [v]) rest hcl.2 (by omega)]
      simp
  · -- readFields
    intro fs ms acc rest hcp hnd hn
    cases ms with
    | nil => simp [readFields, toPairs, Item.encList]
    | cons m ms =>
      obtain ⟨key, v⟩ := m
      simp only [ConformsPairs] at hcp
      obtain ⟨hk, ⟨f, hf, hcv⟩, hrest⟩ := hcp
      simp only [needPairs] at hn
      simp only [readFields, List.length_cons]
      have h1 : ¬ (ms.length + 1 = 0 ∧ True) := by simp
      simp only [h1, if_false, Bool.false_eq_true]
      unfold toPairs
      rw [hf]
      simp only [Item.encList]
      rw [List.append_assoc, Prog.run_bind_ok _ _ _ _ _ (run_readInteger_intItem key hk _)]
      simp only [hf]
      rw [List.append_assoc, Prog.run_bind_ok _ _ _ _ _ (ihA f.kind v _ hcv (by omega))]
      simp only [Nat.add_sub_cancel]
      have hnew : key ∉ acc.map (·.1) := by
        intro hm
        simp only [List.map_cons] at hnd
        have := (List.nodup_append.1 hnd).2.2 key hm key (by simp)
        exact this rfl
      rw [setKey_new acc key v hnew]
      have hnd' : ((acc ++ [(key, v)]).map (·.1) ++ ms.map (·.1)).Nodup := by
        simpa [List.map_append, List.append_assoc] using hnd
      rw [ihC fs ms (acc ++ [(key, v)]) rest hrest hnd' (by omega)]
      simp

theorem rt_all (fuel : Nat) : RT fuel := by
  induction fuel with
  | zero => exact rt_zero
  | succ n ih => exact rt_succ n ih


/-! ### what the writers emit is a well-formed item whose declared counts are the members present -/

theorem intItem_wf (key : Int) (h : keyOk key) : (intItem key).WF := by
  unfold intItem keyOk at *
  split
  · exact shortest_fits _ (by omega)
  · exact shortest_fits _ (by omega)

def WFS (n : Nat) : Prop :=
  (∀ k v, need v ≤ n → Conforms k v → (toItem k v).WF) ∧
  (∀ k vs, needList vs ≤ n → ConformsList k vs → Item.WFList (toItems k vs)) ∧
  (∀ fs ms, needPairs ms ≤ n → ConformsPairs fs ms → Item.WFList (toPairs fs ms))

theorem wfs_all (n : Nat) : WFS n := by
  induction n with
  | zero =>
    refine ⟨fun k v h _ => by have := need_pos v; omega, ?_, ?_⟩
    · intro k vs h _
      cases vs with
      | nil => simp [toItems, Item.WFList]
      | cons v vs => simp only [needList] at h; omega
    · intro fs ms h _
      cases ms with
      | nil => simp [toPairs, Item.WFList]
      | cons m ms => obtain ⟨key, v⟩ := m; simp only [needPairs] at h; omega
  | succ n ih =>
    obtain ⟨ihA, ihB, ihC⟩ := ih
    refine ⟨?_, ?_, ?_⟩
    · intro k v hn hc
      cases k with
      | uint bits =>
        cases v <;> simp only [Conforms] at hc
        rename_i x
        obtain ⟨h0, h1, h2⟩ := hc
        simp only [toItem, Item.WF]
        have hnat : x.toNat < 2 ^ bits := by
          have : ((x.toNat : Nat) : Int) < ((2 ^ bits : Nat) : Int) := by
            rw [Int.toNat_of_nonneg h0]; exact_mod_cast h1
          exact_mod_cast this
        exact shortest_fits _ (Nat.lt_of_lt_of_le hnat (Nat.pow_le_pow_right (by decide) h2))
      | int64 => cases v <;> simp only [Conforms] at hc; simp only [toItem]; exact intItem_wf _ hc
      | tstr => cases v <;> simp only [Conforms] at hc; simp only [toItem, Item.WF]; exact ⟨shortest_fits _ hc.1, hc.2⟩
      | bstr => cases v <;> simp only [Conforms] at hc; simp only [toItem, Item.WF]; exact ⟨shortest_fits _ hc.1, hc.2⟩
      | bool =>
        cases v <;> simp only [Conforms] at hc
        rename_i b
        cases b <;> simp [toItem, Item.WF]
      | arr ek =>
        cases v <;> simp only [Conforms] at hc
        rename_i vs
        simp only [toItem, Item.WF, toItems_length]
        simp only [need] at hn
        exact ⟨shortest_fits _ hc.1, ihB ek vs (by omega) hc.2⟩
      | struct fs =>
        cases v <;> simp only [Conforms] at hc
        rename_i ms
        simp only [toItem, Item.WF, toPairs_length]
        simp only [need] at hn
        have h2 : 2 * ms.length / 2 = ms.length := by omega
        exact ⟨by rw [h2]; exact shortest_fits _ hc.1, by omega, ihC fs ms (by omega) hc.2.1⟩
    · intro k vs hn hc
      cases vs with
      | nil => simp [toItems, Item.WFList]
      | cons v vs =>
        simp only [needList] at hn
        simp only [ConformsList] at hc
        simp only [toItems, Item.WFList]
        exact ⟨ihA k v (by omega) hc.1, ihB k vs (by omega) hc.2⟩
    · intro fs ms hn hc
      cases ms with
      | nil => simp [toPairs, Item.WFList]
      | cons m ms =>
        obtain ⟨key, v⟩ := m
        simp only [needPairs] at hn
        simp only [ConformsPairs] at hc
        obtain ⟨hk, ⟨f, hf, hcv⟩, hrest⟩ := hc
        unfold toPairs
        rw [hf]
        simp only [Item.WFList]
        exact ⟨intItem_wf key hk, ihA f.kind v (by omega) hcv, ihC fs ms (by omega) hrest⟩

end CdnsVerif.Model.Schema
