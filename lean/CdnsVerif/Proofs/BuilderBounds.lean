/-
  Part 2 of "built blocks lie in the round-trip domain": the value bounds `BuilderConforms.BlkOk` asks for hold in every
  block built from records whose members fit the C++ member widths.  Index members are bounded through referential
  closure (`BuilderReach.Closed`) and the 2^32 limit of `index_t` on the table sizes.
-/
import CdnsVerif.Proofs.BuilderConforms
import CdnsVerif.Proofs.BuilderTime

namespace CdnsVerif.Model.Builder
open CdnsVerif.Spec.Cbor CdnsVerif.Generated CdnsVerif.Model.Schema CdnsVerif.Model.Timestamp

/-! ### what the application supplies -/

structure GrrOk (g : GRR) : Prop where
  name : StrOk g.name
  type : g.type < 2 ^ 16
  cls : g.cls < 2 ^ 16
  ttl : ULt 32 g.ttl
  rdata : OStrOk g.rdata

def SecOk (o : Option (List GRR)) : Prop := ∀ l, o = some l → l.length < 2 ^ 64 ∧ ∀ r ∈ l, GrrOk r
def TsOk (o : Option Ts) : Prop := ∀ t, o = some t → t.secs < 2 ^ 64 ∧ t.ticks < 2 ^ 64

structure GqrOk (g : GQR) : Prop where
  ts : TsOk g.ts
  clientIp : OStrOk g.clientIp
  clientPort : ULt 16 g.clientPort
  transactionId : ULt 16 g.transactionId
  serverIp : OStrOk g.serverIp
  serverPort : ULt 16 g.serverPort
  transportFlags : ULt 8 g.transportFlags
  qrType : ULt 8 g.qrType
  sigFlags : ULt 8 g.sigFlags
  opcode : ULt 8 g.opcode
  dnsFlags : ULt 16 g.dnsFlags
  queryRcode : ULt 16 g.queryRcode
  classtype : ∀ p, g.classtype = some p → p.1 < 2 ^ 16 ∧ p.2 < 2 ^ 16
  qdcount : ULt 16 g.qdcount
  ancount : ULt 16 g.ancount          -- `GenericQueryResponse::query_ancount` is a `uint16_t` (the table entry's is 32 bits wide)
  nscount : ULt 16 g.nscount
  arcount : ULt 16 g.arcount
  ednsVersion : ULt 8 g.ednsVersion
  udpSize : ULt 16 g.udpSize
  optRdata : OStrOk g.optRdata
  responseRcode : ULt 16 g.responseRcode
  hoplimit : ULt 8 g.hoplimit
  responseDelay : I64 g.responseDelay
  queryName : OStrOk g.queryName
  querySize : ULt 64 g.querySize
  responseSize : ULt 64 g.responseSize
  bailiwick : OStrOk g.bailiwick
  processingFlags : ULt 8 g.processingFlags
  queryQuestions : SecOk g.queryQuestions
  queryAnswers : SecOk g.queryAnswers
  queryAuthority : SecOk g.queryAuthority
  queryAdditional : SecOk g.queryAdditional
  responseQuestions : SecOk g.responseQuestions
  responseAnswers : SecOk g.responseAnswers
  responseAuthority : SecOk g.responseAuthority
  responseAdditional : SecOk g.responseAdditional
  asn : OStrOk g.asn
  countryCode : OStrOk g.countryCode
  roundTripTime : I64 g.roundTripTime

structure GaecOk (g : GAEC) : Prop where
  aeType : g.aeType < 2 ^ 8
  aeCode : ULt 8 g.aeCode
  tf : ULt 8 g.transportFlags
  ip : StrOk g.ip

structure GmmOk (g : GMM) : Prop where
  ts : TsOk g.ts
  clientIp : OStrOk g.clientIp
  clientPort : ULt 16 g.clientPort
  serverIp : OStrOk g.serverIp
  serverPort : ULt 16 g.serverPort
  tf : ULt 8 g.transportFlags
  payload : OStrOk g.payload

def OStatsOk (o : Option Stats) : Prop := ∀ s, o = some s → StatsOk s

def RecOk : Rec → Prop
  | .qr g st => GqrOk g ∧ OStatsOk st
  | .aec g st => GaecOk g ∧ OStatsOk st
  | .mm g st => GmmOk g ∧ OStatsOk st

/-! ### value bounds of the stored structures (index members apart) -/

structure SigV (s : Sig) : Prop where
  port : ULt 16 s.port
  tf : ULt 8 s.tf
  qt : ULt 8 s.qt
  sf : ULt 8 s.sf
  op : ULt 8 s.op
  df : ULt 16 s.df
  qrc : ULt 16 s.qrc
  qd : ULt 16 s.qd
  an : ULt 32 s.an
  ns : ULt 16 s.ns
  ar : ULt 16 s.ar
  ev : ULt 8 s.ev
  us : ULt 16 s.us
  rrc : ULt 16 s.rrc

structure MmdV (d : MMD) : Prop where
  port : ULt 16 d.port
  tf : ULt 8 d.tf
  payload : OStrOk d.payload

structure QV (q : QRec) : Prop where
  cport : ULt 16 q.cport
  tid : ULt 16 q.tid
  hl : ULt 8 q.hl
  rd : I64 q.rd
  qs : ULt 64 q.qs
  rs : ULt 64 q.rs
  rpd : ∀ r, q.rpd = some r → ULt 8 r.flags
  asn : OStrOk q.asn
  cc : OStrOk q.cc
  rtt : I64 q.rtt

structure AecV (a : AEC) : Prop where
  aeType : a.aeType < 2 ^ 8
  aeCode : ULt 8 a.aeCode
  tf : ULt 8 a.tf

/-- the value bounds of a block; `N` bounds the number of records buffered so far -/
structure VOk (N : Nat) (b : Blk) : Prop where
  ip : ∀ x ∈ b.ip, StrOk x
  ct : ∀ p ∈ b.ct, p.1 < 2 ^ 16 ∧ p.2 < 2 ^ 16
  nr : ∀ x ∈ b.nr, StrOk x
  sig : ∀ x ∈ b.sig, SigV x
  qlist : ∀ l ∈ b.qlist, l.length < 2 ^ 64
  rrlist : ∀ l ∈ b.rrlist, l.length < 2 ^ 64
  rr : ∀ x ∈ b.rr, ULt 32 x.ttl
  mmd : ∀ x ∈ b.mmd, MmdV x
  qrs : ∀ x ∈ b.qrs, QV x
  aecs : ∀ x ∈ b.aecs, AecV x.1 ∧ x.2 ≤ N
  mms : ∀ x ∈ b.mms, ULt 16 x.cport
  lenQ : b.qrs.length ≤ N
  lenA : b.aecs.length ≤ N
  lenM : b.mms.length ≤ N
  earliest : b.earliest.secs < 2 ^ 64 ∧ b.earliest.ticks < 2 ^ 64
  stats : ∀ x, b.stats = some x → StatsOk x

theorem VOk.mono {N : Nat} {b : Blk} (h : VOk N b) : VOk (N + 1) b :=
  { h with aecs := fun x hx => ⟨(h.aecs x hx).1, Nat.le_succ_of_le (h.aecs x hx).2⟩, lenQ := Nat.le_succ_of_le h.lenQ,
           lenA := Nat.le_succ_of_le h.lenA, lenM := Nat.le_succ_of_le h.lenM }

theorem all_addDedup [DecidableEq α] (P : α → Prop) (t : List α) (x : α) (ht : ∀ y ∈ t, P y) (hx : P x) : ∀ y ∈ (addDedup t x).1, P y := by
  intro y hy
  rcases mem_addDedup t x y hy with h | rfl
  · exact ht y h
  · exact hx

/-- the tables part: what the table-adding steps must preserve (records, earliest time and statistics are untouched by them) -/
structure TV (b : Blk) : Prop where
  ip : ∀ x ∈ b.ip, StrOk x
  ct : ∀ p ∈ b.ct, p.1 < 2 ^ 16 ∧ p.2 < 2 ^ 16
  nr : ∀ x ∈ b.nr, StrOk x
  sig : ∀ x ∈ b.sig, SigV x
  qlist : ∀ l ∈ b.qlist, l.length < 2 ^ 64
  rrlist : ∀ l ∈ b.rrlist, l.length < 2 ^ 64
  rr : ∀ x ∈ b.rr, ULt 32 x.ttl
  mmd : ∀ x ∈ b.mmd, MmdV x

theorem tv_addIp {b : Blk} (h : TV b) (x : Bytes) (hx : StrOk x) : TV (addIp b x).1 := { h with ip := all_addDedup _ _ _ h.ip hx }
theorem tv_addCt {b : Blk} (h : TV b) (x : Nat × Nat) (hx : x.1 < 2 ^ 16 ∧ x.2 < 2 ^ 16) : TV (addCt b x).1 :=
  { h with ct := all_addDedup _ _ _ h.ct hx }
theorem tv_addNr {b : Blk} (h : TV b) (x : Bytes) (hx : StrOk x) : TV (addNr b x).1 := { h with nr := all_addDedup _ _ _ h.nr hx }
theorem tv_addSig {b : Blk} (h : TV b) (x : Sig) (hx : SigV x) : TV (addSig b x).1 := { h with sig := all_addDedup _ _ _ h.sig hx }
theorem tv_addQl {b : Blk} (h : TV b) (x : List Nat) (hx : x.length < 2 ^ 64) : TV (addQl b x).1 := { h with qlist := all_addDedup _ _ _ h.qlist hx }
theorem tv_addQrr {b : Blk} (h : TV b) (x : Nat × Nat) : TV (addQrr b x).1 := { h with }
theorem tv_addRl {b : Blk} (h : TV b) (x : List Nat) (hx : x.length < 2 ^ 64) : TV (addRl b x).1 := { h with rrlist := all_addDedup _ _ _ h.rrlist hx }
theorem tv_addRr {b : Blk} (h : TV b) (x : RRe) (hx : ULt 32 x.ttl) : TV (addRr b x).1 := { h with rr := all_addDedup _ _ _ h.rr hx }
theorem tv_addMmd {b : Blk} (h : TV b) (x : MMD) (hx : MmdV x) : TV (addMmd b x).1 := { h with mmd := all_addDedup _ _ _ h.mmd hx }

theorem tv_addOpt {α : Type} {b : Blk} (h : TV b) (c : Bool) (o : Option α) (add : Blk → α → Blk × Nat) (P : α → Prop)
    (hadd : ∀ b x, TV b → P x → TV (add b x).1) (ho : ∀ x, o = some x → P x) : TV (addOpt c o add b).1 := by
  unfold addOpt
  cases c with
  | false => exact h
  | true =>
    cases o with
    | none => exact h
    | some x => exact hadd b x h (ho x rfl)

theorem ult_keep {bits : Nat} {c : Bool} {o : Option Nat} (h : ULt bits o) : ULt bits (keep c o) := by
  unfold keep; cases c
  · intro n hn; cases hn
  · exact h
theorem i64_keep {c : Bool} {o : Option Int} (h : I64 o) : I64 (keep c o) := by
  unfold keep; cases c
  · intro n hn; cases hn
  · exact h

theorem tv_qlStep {acc : Blk × List Nat} (h : TV acc.1) (g : GRR) (hg : GrrOk g) : TV (qlStep acc g).1 := by
  unfold qlStep
  exact tv_addQrr (tv_addCt (tv_addNr h g.name hg.name) _ ⟨hg.type, hg.cls⟩) _

theorem qlStep_len (acc : Blk × List Nat) (g : GRR) : (qlStep acc g).2.length = acc.2.length + 1 := by
  unfold qlStep; simp
theorem rrStep_len (h : Hints) (acc : Blk × List Nat) (g : GRR) : (rrStep h acc g).2.length = acc.2.length + 1 := by
  unfold rrStep; simp

theorem tv_rrStep (hh : Hints) {acc : Blk × List Nat} (h : TV acc.1) (g : GRR) (hg : GrrOk g) : TV (rrStep hh acc g).1 := by
  unfold rrStep
  simp only
  refine tv_addRr (tv_addOpt (tv_addCt (tv_addNr h g.name hg.name) _ ⟨hg.type, hg.cls⟩) _ _ addNr StrOk (fun b x hb hx => tv_addNr hb x hx) hg.rdata) _ ?_
  exact ult_keep hg.ttl

theorem tv_foldl (step : Blk × List Nat → GRR → Blk × List Nat) (hs : ∀ acc g, TV acc.1 → GrrOk g → TV (step acc g).1)
    (hl : ∀ acc g, (step acc g).2.length = acc.2.length + 1) :
    ∀ (gs : List GRR) (acc : Blk × List Nat), TV acc.1 → (∀ g ∈ gs, GrrOk g) →
      TV (gs.foldl step acc).1 ∧ (gs.foldl step acc).2.length = acc.2.length + gs.length := by
  intro gs
  induction gs with
  | nil => intro acc h _; exact ⟨h, rfl⟩
  | cons g gs ih =>
    intro acc h hg
    rw [List.foldl_cons]
    have := ih (step acc g) (hs acc g h (hg g List.mem_cons_self)) (fun x hx => hg x (List.mem_cons_of_mem _ hx))
    refine ⟨this.1, ?_⟩
    rw [this.2, hl, List.length_cons]; omega

theorem tv_addGenericQlist {b : Blk} (h : TV b) (g : List GRR) (hg : g.length < 2 ^ 64 ∧ ∀ r ∈ g, GrrOk r) : TV (addGenericQlist b g).1 := by
  unfold addGenericQlist
  have := tv_foldl qlStep (fun acc g h hg => tv_qlStep h g hg) qlStep_len g (b, []) h hg.2
  exact tv_addQl this.1 _ (by rw [this.2]; simpa using hg.1)

theorem tv_addGenericRrlist (hh : Hints) {b : Blk} (h : TV b) (g : List GRR) (hg : g.length < 2 ^ 64 ∧ ∀ r ∈ g, GrrOk r) :
    TV (addGenericRrlist hh b g).1 := by
  unfold addGenericRrlist
  have := tv_foldl (rrStep hh) (fun acc g h hg => tv_rrStep hh h g hg) (rrStep_len hh) g (b, []) h hg.2
  exact tv_addRl this.1 _ (by rw [this.2]; simpa using hg.1)

theorem tv_addSection {b : Blk} (h : TV b) (c : Bool) (o : Option (List GRR)) (add : Blk → List GRR → Blk × Nat)
    (hadd : ∀ b g, TV b → (g.length < 2 ^ 64 ∧ ∀ r ∈ g, GrrOk r) → TV (add b g).1) (ho : SecOk o) : TV (addSection c o add b).1 := by
  unfold addSection
  split
  · rename_i x xs
    exact hadd b _ h (ho _ rfl)
  · exact h

theorem sigV_mkSig (hh : Hints) (g : GQR) (hg : GqrOk g) (a c o : Option Nat) : SigV (mkSig hh g a c o) := by
  unfold mkSig
  exact ⟨ult_keep hg.serverPort, ult_keep hg.transportFlags, ult_keep hg.qrType, ult_keep hg.sigFlags, ult_keep hg.opcode,
    ult_keep hg.dnsFlags, ult_keep hg.queryRcode, ult_keep hg.qdcount, ult_keep (fun n hn => Nat.lt_of_lt_of_le (hg.ancount n hn) (by decide)), ult_keep hg.nscount, ult_keep hg.arcount,
    ult_keep hg.ednsVersion, ult_keep hg.udpSize, ult_keep hg.responseRcode⟩

theorem tv_buildSig (hh : Hints) (g : GQR) (hg : GqrOk g) {b : Blk} (h : TV b) : TV (buildSig hh g b).1 := by
  unfold buildSig
  split
  · exact h
  · simp only
    have h3 := tv_addOpt (tv_addOpt (tv_addOpt h (on hh.sigh QueryResponseSignatureHintsMask.server_address_index) g.serverIp addIp StrOk
        (fun b x hb hx => tv_addIp hb x hx) hg.serverIp) (on hh.sigh QueryResponseSignatureHintsMask.query_classtype_index) g.classtype addCt
        (fun p => p.1 < 2 ^ 16 ∧ p.2 < 2 ^ 16) (fun b x hb hx => tv_addCt hb x hx) hg.classtype)
        (on hh.sigh QueryResponseSignatureHintsMask.query_opt_rdata_index) g.optRdata addNr StrOk (fun b x hb hx => tv_addNr hb x hx) hg.optRdata
    split
    · exact tv_addSig h3 _ (sigV_mkSig hh g hg _ _ _)
    · exact h3

theorem tv_buildQ (hh : Hints) (g : GQR) (hg : GqrOk g) {b : Blk} (h : TV b) : TV (buildQ hh g b).1 := by
  unfold buildQ
  simp only
  have a1 := tv_addOpt h (on hh.qrh QueryResponseHintsMask.client_address_index) g.clientIp addIp StrOk (fun b x hb hx => tv_addIp hb x hx) hg.clientIp
  have a2 := tv_buildSig hh g hg a1
  have a3 := tv_addOpt a2 (on hh.qrh QueryResponseHintsMask.query_name_index) g.queryName addNr StrOk (fun b x hb hx => tv_addNr hb x hx) hg.queryName
  have a4 := tv_addOpt a3 (on hh.qrh QueryResponseHintsMask.response_processing_data) g.bailiwick addNr StrOk (fun b x hb hx => tv_addNr hb x hx) hg.bailiwick
  have q1 := tv_addSection a4 (on hh.qrh QueryResponseHintsMask.query_question_sections) g.queryQuestions addGenericQlist
    (fun b g hb hg => tv_addGenericQlist hb g hg) hg.queryQuestions
  have q2 := tv_addSection q1 (on hh.qrh QueryResponseHintsMask.query_answer_sections) g.queryAnswers (addGenericRrlist hh)
    (fun b g hb hg => tv_addGenericRrlist hh hb g hg) hg.queryAnswers
  have q3 := tv_addSection q2 (on hh.qrh QueryResponseHintsMask.query_authority_sections) g.queryAuthority (addGenericRrlist hh)
    (fun b g hb hg => tv_addGenericRrlist hh hb g hg) hg.queryAuthority
  have q4 := tv_addSection q3 (on hh.qrh QueryResponseHintsMask.query_additional_sections) g.queryAdditional (addGenericRrlist hh)
    (fun b g hb hg => tv_addGenericRrlist hh hb g hg) hg.queryAdditional
  have e1 := tv_addSection q4 (on hh.qrh QueryResponseHintsMask.query_question_sections) g.responseQuestions addGenericQlist
    (fun b g hb hg => tv_addGenericQlist hb g hg) hg.responseQuestions
  have e2 := tv_addSection e1 (on hh.qrh QueryResponseHintsMask.response_answer_sections) g.responseAnswers (addGenericRrlist hh)
    (fun b g hb hg => tv_addGenericRrlist hh hb g hg) hg.responseAnswers
  have e3 := tv_addSection e2 (on hh.qrh QueryResponseHintsMask.response_authority_sections) g.responseAuthority (addGenericRrlist hh)
    (fun b g hb hg => tv_addGenericRrlist hh hb g hg) hg.responseAuthority
  exact tv_addSection e3 (on hh.qrh QueryResponseHintsMask.response_additional_sections) g.responseAdditional (addGenericRrlist hh)
    (fun b g hb hg => tv_addGenericRrlist hh hb g hg) hg.responseAdditional

theorem qv_buildQ (hh : Hints) (g : GQR) (hg : GqrOk g) (b : Blk) : QV (buildQ hh g b).2 := by
  unfold buildQ
  simp only
  refine ⟨ult_keep hg.clientPort, ult_keep hg.transactionId, ult_keep hg.hoplimit, i64_keep hg.responseDelay, ult_keep hg.querySize,
    ult_keep hg.responseSize, ?_, hg.asn, hg.countryCode, hg.roundTripTime⟩
  intro r hr
  have := ite_some_eq hr
  subst this
  exact ult_keep hg.processingFlags

/-! ### record-level steps -/

theorem VOk.tv {N : Nat} {b : Blk} (h : VOk N b) : TV b := ⟨h.ip, h.ct, h.nr, h.sig, h.qlist, h.rrlist, h.rr, h.mmd⟩

theorem vok_setStats {N : Nat} {b : Blk} (h : VOk N b) (st : Option Stats) (hst : OStatsOk st) : VOk N (setStats b st) := by
  cases st with
  | none => exact h
  | some s => exact { h with stats := fun x hx => by cases hx; exact hst s rfl }

theorem updEarliest_ok (b : Blk) (ts : Option Ts) (hb : b.earliest.secs < 2 ^ 64 ∧ b.earliest.ticks < 2 ^ 64) (hts : TsOk ts) :
    (updEarliest b ts).secs < 2 ^ 64 ∧ (updEarliest b ts).ticks < 2 ^ 64 := by
  unfold updEarliest
  cases ts with
  | none => exact hb
  | some t =>
    simp only
    split
    · exact hts t rfl
    · exact hb

theorem vok_addQR (hh : Hints) (g : GQR) (st : Option Stats) {N : Nat} {b : Blk} (h : VOk N b) (hg : GqrOk g) (hst : OStatsOk st) :
    VOk (N + 1) (addQR hh g st b) := by
  unfold addQR
  simp only
  apply vok_setStats _ st hst
  let b0 : Blk := { b with earliest := updEarliest b g.ts }
  have hk := (keeps_buildQ hh g b0).1
  have htv : TV (buildQ hh g b0).1 := tv_buildQ hh g hg (b := b0) ⟨h.ip, h.ct, h.nr, h.sig, h.qlist, h.rrlist, h.rr, h.mmd⟩
  have he : (buildQ hh g b0).1.earliest = updEarliest b g.ts := buildQ_earliest hh g b0
  have base : VOk (N + 1) (buildQ hh g b0).1 := by
    refine ⟨htv.ip, htv.ct, htv.nr, htv.sig, htv.qlist, htv.rrlist, htv.rr, htv.mmd, ?_, ?_, ?_, ?_, ?_, ?_, ?_, ?_⟩
    · rw [hk.qrs]; exact h.qrs
    · rw [hk.aecs]; exact fun x hx => ⟨(h.aecs x hx).1, Nat.le_succ_of_le (h.aecs x hx).2⟩
    · rw [hk.mms]; exact h.mms
    · rw [hk.qrs]; exact Nat.le_succ_of_le h.lenQ
    · rw [hk.aecs]; exact Nat.le_succ_of_le h.lenA
    · rw [hk.mms]; exact Nat.le_succ_of_le h.lenM
    · rw [he]; exact updEarliest_ok b g.ts h.earliest hg.ts
    · rw [hk.stats]; exact h.stats
  split
  · refine { base with qrs := ?_, lenQ := ?_ }
    · intro q hq
      rcases List.mem_append.1 hq with hq | hq
      · exact base.qrs q hq
      · have : q = (buildQ hh g b0).2 := by simpa using hq
        subst this
        exact qv_buildQ hh g hg b0
    · show ((buildQ hh g b0).1.qrs ++ [_]).length ≤ N + 1
      rw [List.length_append, hk.qrs]
      have := h.lenQ
      simp only [List.length_singleton]
      exact Nat.succ_le_succ this
  · exact base

theorem vok_addAEC (hh : Hints) (g : GAEC) (st : Option Stats) {N : Nat} {b : Blk} (h : VOk N b) (hg : GaecOk g) (hst : OStatsOk st) :
    VOk (N + 1) (addAEC hh g st b) := by
  unfold addAEC
  simp only
  have h0 : VOk (N + 1) (setStats b st) := (vok_setStats h st hst).mono
  split
  · exact h0
  · have h1 : VOk (N + 1) (addIp (setStats b st) g.ip).1 := { h0 with ip := all_addDedup _ _ _ h0.ip hg.ip }
    have h0' : VOk N (setStats b st) := vok_setStats h st hst
    have h1N : ∀ x ∈ (addIp (setStats b st) g.ip).1.aecs, AecV x.1 ∧ x.2 ≤ N := h0'.aecs
    have hlenN : (addIp (setStats b st) g.ip).1.aecs.length ≤ N := h0'.lenA
    split
    · refine { h1 with aecs := ?_, lenA := ?_ }
      · intro x hx
        obtain ⟨e, he, rfl⟩ := List.mem_map.1 hx
        split
        · exact ⟨(h1N e he).1, Nat.succ_le_succ (h1N e he).2⟩
        · exact ⟨(h1N e he).1, Nat.le_succ_of_le (h1N e he).2⟩
      · show (List.map _ _).length ≤ N + 1
        rw [List.length_map]; exact Nat.le_succ_of_le hlenN
    · refine { h1 with aecs := ?_, lenA := ?_ }
      · intro x hx
        rcases List.mem_append.1 hx with hx | hx
        · exact h1.aecs x hx
        · have : x = (({ aeType := g.aeType, aeCode := g.aeCode, ai := (addIp (setStats b st) g.ip).2, tf := g.transportFlags } : AEC), 1) := by
            simpa using hx
          subst this
          exact ⟨⟨hg.aeType, hg.aeCode, hg.tf⟩, by omega⟩
      · show (_ ++ [_]).length ≤ N + 1
        rw [List.length_append]; simp only [List.length_singleton]; exact Nat.succ_le_succ hlenN

theorem vok_addMM (hh : Hints) (g : GMM) (st : Option Stats) {N : Nat} {b : Blk} (h : VOk N b) (hg : GmmOk g) (hst : OStatsOk st) :
    VOk (N + 1) (addMM hh g st b) := by
  unfold addMM
  simp only
  have h0 : VOk N (setStats b st) := vok_setStats h st hst
  split
  · exact h0.mono
  · let b0 := setStats b st
    let b1 : Blk := { b0 with earliest := updEarliest b0 g.ts }
    have hb1 : VOk N b1 := { h0 with earliest := updEarliest_ok b0 g.ts h0.earliest hg.ts }
    let r1 := addOpt true g.clientIp addIp b1
    let r2 := addOpt true g.serverIp addIp r1.1
    have t2 : TV r2.1 := tv_addOpt (tv_addOpt hb1.tv true g.clientIp addIp StrOk (fun b x hb hx => tv_addIp hb x hx) hg.clientIp)
      true g.serverIp addIp StrOk (fun b x hb hx => tv_addIp hb x hx) hg.serverIp
    have k1 := (keeps_addOpt hh true g.clientIp addIp b1 (keeps_addIp hh)).1
    have k2 := (keeps_addOpt hh true g.serverIp addIp r1.1 (keeps_addIp hh)).1
    have e1 : r1.1.earliest = b1.earliest := by
      show (addOpt true g.clientIp addIp b1).1.earliest = _
      unfold addOpt; cases g.clientIp <;> rfl
    have e2 : r2.1.earliest = b1.earliest := by
      show (addOpt true g.serverIp addIp r1.1).1.earliest = _
      rw [← e1]; unfold addOpt; cases g.serverIp <;> rfl
    have v2 : VOk (N + 1) r2.1 := by
      refine ⟨t2.ip, t2.ct, t2.nr, t2.sig, t2.qlist, t2.rrlist, t2.rr, t2.mmd, ?_, ?_, ?_, ?_, ?_, ?_, ?_, ?_⟩
      · rw [k2.qrs, k1.qrs]; exact hb1.qrs
      · rw [k2.aecs, k1.aecs]; exact fun x hx => ⟨(hb1.aecs x hx).1, Nat.le_succ_of_le (hb1.aecs x hx).2⟩
      · rw [k2.mms, k1.mms]; exact hb1.mms
      · rw [k2.qrs, k1.qrs]; exact Nat.le_succ_of_le hb1.lenQ
      · rw [k2.aecs, k1.aecs]; exact Nat.le_succ_of_le hb1.lenA
      · rw [k2.mms, k1.mms]; exact Nat.le_succ_of_le hb1.lenM
      · rw [e2]; exact hb1.earliest
      · rw [k2.stats, k1.stats]; exact hb1.stats
    have lenM2 : r2.1.mms.length ≤ N := by rw [k2.mms, k1.mms]; exact hb1.lenM
    -- the message data entry
    have v3 : ∀ (d : MMD), MmdV d → VOk (N + 1) (addMmd r2.1 d).1 ∧ (addMmd r2.1 d).1.mms = r2.1.mms := by
      intro d hd
      exact ⟨{ v2 with mmd := all_addDedup _ _ _ v2.mmd hd }, rfl⟩
    let d : MMD := { sai := r2.2, port := g.serverPort, tf := g.transportFlags, payload := g.payload }
    have hd : MmdV d := ⟨hg.serverPort, hg.tf, hg.payload⟩
    have v4 : ∀ (r3 : Blk × Option Nat), (r3 = ((addMmd r2.1 d).1, some (addMmd r2.1 d).2) ∨ r3 = (r2.1, none)) →
        VOk (N + 1) r3.1 ∧ r3.1.mms.length ≤ N := by
      intro r3 h3
      rcases h3 with rfl | rfl
      · exact ⟨(v3 d hd).1, by rw [(v3 d hd).2]; exact lenM2⟩
      · exact ⟨v2, lenM2⟩
    have fin : ∀ (r3 : Blk × Option Nat), VOk (N + 1) r3.1 → r3.1.mms.length ≤ N → ∀ (m : MMRec), ULt 16 m.cport → ∀ (c : Bool),
        VOk (N + 1) (if c = true then { r3.1 with mms := r3.1.mms ++ [m] } else r3.1) := by
      intro r3 hv hl m hm c
      cases c with
      | false => exact hv
      | true =>
        refine { hv with mms := ?_, lenM := ?_ }
        · intro x hx
          rcases List.mem_append.1 hx with hx | hx
          · exact hv.mms x hx
          · have : x = m := by simpa using hx
            subst this; exact hm
        · show (_ ++ [_]).length ≤ N + 1
          rw [List.length_append]; simp only [List.length_singleton]; exact Nat.succ_le_succ hl
    have key : ∀ (r3 : Blk × Option Nat), (r3 = ((addMmd r2.1 d).1, some (addMmd r2.1 d).2) ∨ r3 = (r2.1, none)) →
        VOk (N + 1) (if (g.ts.isSome || r1.2.isSome || g.clientPort.isSome || r3.2.isSome) = true
          then { r3.1 with mms := r3.1.mms ++ [({ ts := g.ts, cai := r1.2, cport := g.clientPort, mdi := r3.2 } : MMRec)] } else r3.1) := by
      intro r3 h3
      have := v4 r3 h3
      exact fin r3 this.1 this.2 _ hg.clientPort _
    refine key (if (d.sai.isSome || d.port.isSome || d.tf.isSome || d.payload.isSome) = true
      then ((addMmd r2.1 d).1, some (addMmd r2.1 d).2) else (r2.1, none)) ?_
    split
    · exact Or.inl rfl
    · exact Or.inr rfl

theorem vok_addRec (hh : Hints) {N : Nat} {b : Blk} (h : VOk N b) (r : Rec) (hr : RecOk r) : VOk (N + 1) (addRec hh b r) := by
  cases r with
  | qr g st => exact vok_addQR hh g st h hr.1 hr.2
  | aec g st => exact vok_addAEC hh g st h hr.1 hr.2
  | mm g st => exact vok_addMM hh g st h hr.1 hr.2

theorem vok_empty : VOk 0 ({} : Blk) := by
  refine ⟨?_, ?_, ?_, ?_, ?_, ?_, ?_, ?_, ?_, ?_, ?_, Nat.le_refl _, Nat.le_refl _, Nat.le_refl _, ⟨by decide, by decide⟩, ?_⟩ <;>
    intro x hx <;> cases hx

theorem vok_build (hh : Hints) (recs : List Rec) (hrecs : ∀ r ∈ recs, RecOk r) : VOk recs.length (build hh recs) := by
  unfold build
  have gen : ∀ (rs : List Rec) (N : Nat) (b : Blk), VOk N b → (∀ r ∈ rs, RecOk r) → VOk (N + rs.length) (rs.foldl (addRec hh) b) := by
    intro rs
    induction rs with
    | nil => intro N b h _; exact h
    | cons r rs ih =>
      intro N b h hr
      rw [List.foldl_cons, List.length_cons]
      have := ih (N + 1) _ (vok_addRec hh h r (hr r List.mem_cons_self)) (fun x hx => hr x (List.mem_cons_of_mem _ hx))
      have e : N + (rs.length + 1) = N + 1 + rs.length := by omega
      rw [e]; exact this
  have := gen recs 0 {} vok_empty hrecs
  simpa using this

/-! ### index members: bounded through referential closure and the table-size limit of `index_t` -/

theorem oref_lt {b : Blk} (hc : Closed b) (hl : ∀ t, len b t ≤ 2 ^ 32) (t : Tid) (o : Option Nat)
    (hmem : ∀ r ∈ oref t o, r ∈ allRefs b) : ULt 32 o := by
  intro n hn
  subst hn
  have := hc (t, n) (hmem (t, n) (by simp [oref]))
  exact Nat.lt_of_lt_of_le this (hl t)

theorem ref_lt {b : Blk} (hc : Closed b) (hl : ∀ t, len b t ≤ 2 ^ 32) (t : Tid) (n : Nat) (hmem : (t, n) ∈ allRefs b) : n < 2 ^ 32 :=
  Nat.lt_of_lt_of_le (hc (t, n) hmem) (hl t)

theorem mem_allRefs_sig {b : Blk} {s : Sig} (hs : s ∈ b.sig) {r : Ref} (hr : r ∈ sigRefs s) : r ∈ allRefs b := by
  unfold allRefs; simp only [List.mem_append, List.mem_flatMap]
  exact .inl <| .inl <| .inl <| .inl <| .inl <| .inl <| .inl <| .inl ⟨s, hs, hr⟩
theorem mem_allRefs_qrr {b : Blk} {s : Nat × Nat} (hs : s ∈ b.qrr) {r : Ref} (hr : r ∈ qrrRefs s) : r ∈ allRefs b := by
  unfold allRefs; simp only [List.mem_append, List.mem_flatMap]
  exact .inl <| .inl <| .inl <| .inl <| .inl <| .inl <| .inl <| .inr ⟨s, hs, hr⟩
theorem mem_allRefs_ql {b : Blk} {s : List Nat} (hs : s ∈ b.qlist) {r : Ref} (hr : r ∈ qlRefs s) : r ∈ allRefs b := by
  unfold allRefs; simp only [List.mem_append, List.mem_flatMap]
  exact .inl <| .inl <| .inl <| .inl <| .inl <| .inl <| .inr ⟨s, hs, hr⟩
theorem mem_allRefs_rl {b : Blk} {s : List Nat} (hs : s ∈ b.rrlist) {r : Ref} (hr : r ∈ rlRefs s) : r ∈ allRefs b := by
  unfold allRefs; simp only [List.mem_append, List.mem_flatMap]
  exact .inl <| .inl <| .inl <| .inl <| .inl <| .inr ⟨s, hs, hr⟩
theorem mem_allRefs_rr {b : Blk} {s : RRe} (hs : s ∈ b.rr) {r : Ref} (hr : r ∈ rrRefs s) : r ∈ allRefs b := by
  unfold allRefs; simp only [List.mem_append, List.mem_flatMap]
  exact .inl <| .inl <| .inl <| .inl <| .inr ⟨s, hs, hr⟩
theorem mem_allRefs_mmd {b : Blk} {s : MMD} (hs : s ∈ b.mmd) {r : Ref} (hr : r ∈ mmdRefs s) : r ∈ allRefs b := by
  unfold allRefs; simp only [List.mem_append, List.mem_flatMap]
  exact .inl <| .inl <| .inl <| .inr ⟨s, hs, hr⟩
theorem mem_allRefs_q {b : Blk} {s : QRec} (hs : s ∈ b.qrs) {r : Ref} (hr : r ∈ qRefs s) : r ∈ allRefs b := by
  unfold allRefs; simp only [List.mem_append, List.mem_flatMap]
  exact .inl <| .inl <| .inr ⟨s, hs, hr⟩
theorem mem_allRefs_aec {b : Blk} {s : AEC × Nat} (hs : s ∈ b.aecs) {r : Ref} (hr : r ∈ aecRefs s) : r ∈ allRefs b := by
  unfold allRefs; simp only [List.mem_append, List.mem_flatMap]
  exact .inl <| .inr ⟨s, hs, hr⟩
theorem mem_allRefs_mm {b : Blk} {s : MMRec} (hs : s ∈ b.mms) {r : Ref} (hr : r ∈ mmRefs s) : r ∈ allRefs b := by
  unfold allRefs; simp only [List.mem_append, List.mem_flatMap]
  exact .inr ⟨s, hs, hr⟩

theorem qre_ok {b : Blk} (hc : Closed b) (hl : ∀ t, len b t ≤ 2 ^ 32) (o : Option QRE) (hmem : ∀ r ∈ qreRefs o, r ∈ allRefs b) :
    ∀ e, o = some e → QreOk e := by
  intro e he
  subst he
  simp only [qreRefs] at hmem
  exact ⟨oref_lt hc hl .ql e.q fun r hr => hmem r (by simp [hr]), oref_lt hc hl .rl e.an fun r hr => hmem r (by simp [hr]),
    oref_lt hc hl .rl e.au fun r hr => hmem r (by simp [hr]), oref_lt hc hl .rl e.ad fun r hr => hmem r (by simp [hr])⟩

/-- value bounds + referential closure + the `index_t` limit on table sizes give everything `blk_conforms` asks for -/
theorem blkOk_of {N : Nat} {b : Blk} (hv : VOk N b) (hc : Closed b) (hl : ∀ t, len b t ≤ 2 ^ 32) (hN : N < 2 ^ 64) : BlkOk b := by
  have l64 : ∀ t, len b t < 2 ^ 64 := fun t => Nat.lt_of_le_of_lt (hl t) (by decide)
  refine ⟨hv.ip, hv.ct, hv.nr, ?_, ?_, ?_, ?_, ?_, ?_, ?_, ?_, ?_, l64, Nat.lt_of_le_of_lt hv.lenQ hN, Nat.lt_of_le_of_lt hv.lenA hN,
    Nat.lt_of_le_of_lt hv.lenM hN, hv.earliest, hv.stats⟩
  · intro s hs
    have v := hv.sig s hs
    have m : ∀ r ∈ sigRefs s, r ∈ allRefs b := fun r hr => mem_allRefs_sig hs hr
    simp only [sigRefs] at m
    exact ⟨oref_lt hc hl .ip s.sai fun r hr => m r (by simp [hr]), v.port, v.tf, v.qt, v.sf, v.op, v.df, v.qrc,
      oref_lt hc hl .ct s.cti fun r hr => m r (by simp [hr]), v.qd, v.an, v.ns, v.ar, v.ev, v.us,
      oref_lt hc hl .nr s.ordi fun r hr => m r (by simp [hr]), v.rrc⟩
  · intro l hlm
    refine ⟨hv.qlist l hlm, fun n hn => ref_lt hc hl .qrr n (mem_allRefs_ql hlm ?_)⟩
    simp only [qlRefs, List.mem_map]; exact ⟨n, hn, rfl⟩
  · intro p hp
    exact ⟨ref_lt hc hl .nr p.1 (mem_allRefs_qrr hp (by simp [qrrRefs])), ref_lt hc hl .ct p.2 (mem_allRefs_qrr hp (by simp [qrrRefs]))⟩
  · intro l hlm
    refine ⟨hv.rrlist l hlm, fun n hn => ref_lt hc hl .rr n (mem_allRefs_rl hlm ?_)⟩
    simp only [rlRefs, List.mem_map]; exact ⟨n, hn, rfl⟩
  · intro r hr
    exact ⟨ref_lt hc hl .nr r.name (mem_allRefs_rr hr (by simp [rrRefs])), ref_lt hc hl .ct r.ct (mem_allRefs_rr hr (by simp [rrRefs])),
      hv.rr r hr, oref_lt hc hl .nr r.rdata fun x hx => mem_allRefs_rr hr (by simp [rrRefs, hx])⟩
  · intro d hd
    have v := hv.mmd d hd
    exact ⟨oref_lt hc hl .ip d.sai fun x hx => mem_allRefs_mmd hd (by simpa [mmdRefs] using hx), v.port, v.tf, v.payload⟩
  · intro q hq
    have v := hv.qrs q hq
    have m : ∀ r ∈ qRefs q, r ∈ allRefs b := fun r hr => mem_allRefs_q hq hr
    simp only [qRefs] at m
    refine ⟨oref_lt hc hl .ip q.cai fun r hr => m r (by simp [hr]), v.cport, v.tid, oref_lt hc hl .sig q.sig fun r hr => m r (by simp [hr]),
      v.hl, v.rd, oref_lt hc hl .nr q.qn fun r hr => m r (by simp [hr]), v.qs, v.rs, ?_,
      qre_ok hc hl q.qx fun r hr => m r (by simp [hr]), qre_ok hc hl q.rx fun r hr => m r (by simp [hr]), v.asn, v.cc, v.rtt⟩
    intro rp hrp
    refine ⟨oref_lt hc hl .nr rp.bw fun r hr => m r ?_, v.rpd rp hrp⟩
    rw [hrp]; simp [hr]
  · intro a ha
    have v := hv.aecs a ha
    exact ⟨v.1.aeType, v.1.aeCode, ref_lt hc hl .ip a.1.ai (mem_allRefs_aec ha (by simp [aecRefs])), v.1.tf, Nat.lt_of_le_of_lt v.2 hN⟩
  · intro mm hm
    have m : ∀ r ∈ mmRefs mm, r ∈ allRefs b := fun r hr => mem_allRefs_mm hm hr
    simp only [mmRefs] at m
    exact ⟨oref_lt hc hl .ip mm.cai fun r hr => m r (by simp [hr]), hv.mms mm hm, oref_lt hc hl .mmd mm.mdi fun r hr => m r (by simp [hr])⟩

/-- Every block built from records whose members fit the C++ member widths, with fewer than 2^64 records and at most 2^32
    entries per table (the range of `index_t`), lies in the domain of the schema round trip. -/
theorem build_conforms (hh : Hints) (recs : List Rec) (pi : Option Nat) (hrecs : ∀ r ∈ recs, RecOk r) (hn : recs.length < 2 ^ 64)
    (hl : ∀ t, len (build hh recs) t ≤ 2 ^ 32) (hpi : ULt 32 pi) : Conforms Structs.block (toVal (build hh recs) pi hh.tps) :=
  blk_conforms _ pi hh.tps (blkOk_of (vok_build hh recs hrecs) (inv_build hh recs).1 hl hn) hpi

end CdnsVerif.Model.Builder
