/-
  Generated obligation tying the code's map keys and hint bits (regenerated from
  src/format_specification.h by the translator on every run) to the RFC 8618 transcription
  in `Spec.Cdns.rfcKeys`.  A key or mask bit changed in the source – even symmetrically in
  writer and reader, which no round trip through the library can notice – breaks this.
-/
import CdnsVerif.Spec.Cdns
import CdnsVerif.Generated.Constants
namespace CdnsVerif.Proofs.Keys
open CdnsVerif.Spec.Cdns

def genLookup (enum key : String) : Option Int :=
  match Generated.enumTable.find? (·.1 == enum) with
  | some (_, _, _, es) => (es.find? (·.1 == key)).map (·.2)
  | none => none

def keysAgree : Bool :=
  rfcKeys.all fun (enum, es) => es.all fun (k, v) => genLookup enum k == some v

def privateAgree : Bool :=
  privateQrKeys.all fun (k, v) => genLookup "QueryResponseMapIndex" k == some v

set_option maxRecDepth 100000 in
theorem generated_keys_eq_rfc : keysAgree = true := by decide +kernel

theorem generated_private_keys : privateAgree = true := by decide +kernel

/-- hint bits are pairwise distinct single bits (needed for "one bit governs one member") -/
def maskOk (enum : String) : Bool :=
  match Generated.enumTable.find? (·.1 == enum) with
  | some (_, _, _, es) => (es.map (·.2)).eraseDups.length == es.length
  | none => false

theorem hint_bits_distinct :
    (maskOk "QueryResponseHintsMask" && maskOk "QueryResponseSignatureHintsMask" && maskOk "RrHintsMask"
      && maskOk "OtherDataHintsMask") = true := by decide +kernel

end CdnsVerif.Proofs.Keys
