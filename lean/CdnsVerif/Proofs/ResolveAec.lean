/-
  Address-event counts: for every generic key, the total count stored in the block built equals the number of
  times the key was buffered (`aec_counts`).  Helper lemmas; property theorem in Props/C01.lean.
-/
import CdnsVerif.Proofs.Resolve

namespace CdnsVerif.Model.Builder
open CdnsVerif.Spec.Cbor CdnsVerif.Generated

/-! ### the invariant -/

structure AecInv (b : Blk) (cnt : GAEC → Nat) : Prop where
  inRange : ∀ e ∈ b.aecs, e.1.ai < b.ip.length
  keysNodup : (b.aecs.map (·.1)).Nodup
  counts : ∀ k, countFor b k = cnt k

theorem resolveA_ext {b b' : Blk} (he : LExt b.ip b'.ip) (a : AEC) (hr : a.ai < b.ip.length) : resolveA b' a = resolveA b a := by
  unfold resolveA
  rw [List.getElem?_eq_getElem hr, he _ _ (List.getElem?_eq_getElem hr)]

theorem countFor_congr {b b' : Blk} (ha : b'.aecs = b.aecs) (hr : ∀ e ∈ b.aecs, resolveA b' e.1 = resolveA b e.1) (k : GAEC) :
    countFor b' k = countFor b k := by
  unfold countFor
  rw [ha]
  congr 2
  apply List.filter_congr
  intro e he
  rw [hr e he]

/-- a step that only extends the tables (keeping the address table distinct) and leaves the address events alone -/
theorem aecInv_ext {b b' : Blk} {cnt : GAEC → Nat} (hi : AecInv b cnt) (he : Ext b b') (ha : b'.aecs = b.aecs) : AecInv b' cnt := by
  have hlen : b.ip.length ≤ b'.ip.length := by
    rcases Nat.lt_or_ge b'.ip.length b.ip.length with hlt | hge
    · have h1 : b.ip[b'.ip.length]? = some (b.ip[b'.ip.length]'hlt) := List.getElem?_eq_getElem hlt
      have h2 := he.ip _ _ h1
      rw [List.getElem?_eq_none (Nat.le_refl _)] at h2
      cases h2
    · exact hge
  refine ⟨?_, by rw [ha]; exact hi.keysNodup, ?_⟩
  · intro e hem; rw [ha] at hem; exact Nat.lt_of_lt_of_le (hi.inRange e hem) hlen
  · intro k
    rw [countFor_congr ha (fun e hem => resolveA_ext he.ip e.1 (hi.inRange e hem)) k]
    exact hi.counts k

/-! ### counting -/

/-- incrementing the count of key `A` in a list with distinct keys changes a key-filtered total by one exactly when `A` passes the filter -/
theorem sum_incr (l : List (AEC × Nat)) (A : AEC) (P : AEC → Bool) (hnd : (l.map (·.1)).Nodup) (hmem : A ∈ l.map (·.1)) :
    (((l.map fun e => if e.1 == A then (e.1, e.2 + 1) else e).filter fun e => P e.1).map (·.2)).sum =
      ((l.filter fun e => P e.1).map (·.2)).sum + (if P A then 1 else 0) := by
  induction l with
  | nil => simp at hmem
  | cons e l ih =>
    simp only [List.map_cons, List.nodup_cons] at hnd
    by_cases hk : e.1 = A
    · -- this is the entry; the tail does not hold the key again
      have hb : (e.1 == A) = true := by simp [hk]
      have htail : (l.map fun e => if e.1 == A then (e.1, e.2 + 1) else e) = l := by
        have : ∀ e' ∈ l, (if e'.1 == A then (e'.1, e'.2 + 1) else e') = e' := by
          intro e' he'
          have : e'.1 ≠ A := fun h' => hnd.1 (hk ▸ h' ▸ List.mem_map_of_mem he')
          simp [this]
        rw [List.map_congr_left this]; simp
      simp only [List.map_cons, hb, if_true, htail, List.filter_cons, hk]
      by_cases hp : P A = true
      · simp [hp]; omega
      · simp [hp]
    · have hb : (e.1 == A) = false := by simp [hk]
      have hmem' : A ∈ l.map (·.1) := by
        simp only [List.map_cons, List.mem_cons] at hmem
        rcases hmem with h' | h'
        · exact absurd h'.symm hk
        · exact h'
      have := ih hnd.2 hmem'
      simp only [List.map_cons, hb, Bool.false_eq_true, if_false, List.filter_cons]
      by_cases hp : P e.1 = true
      · simp only [hp, if_true, List.map_cons, List.sum_cons]; rw [this]; omega
      · simp only [hp, Bool.false_eq_true, if_false]; exact this

theorem aecInv_setStats {b : Blk} {cnt : GAEC → Nat} (st : Option Stats) (hi : AecInv b cnt) : AecInv (setStats b st) cnt := by
  cases st <;> exact ⟨hi.inRange, hi.keysNodup, hi.counts⟩

theorem aecInv_addAEC (h : Hints) (g : GAEC) (st : Option Stats) (b : Blk) (cnt : GAEC → Nat) (hi : AecInv b cnt) :
    AecInv (addAEC h g st b) (fun k => cnt k + (if on h.odh OtherDataHintsMask.address_event_counts = true ∧ g = k then 1 else 0)) := by
  have hi0 := aecInv_setStats st hi
  unfold addAEC
  simp only
  split
  · rename_i hc
    have hoff : on h.odh OtherDataHintsMask.address_event_counts = false := by simpa using hc
    simp only [hoff, Bool.false_eq_true, false_and, if_false, Nat.add_zero]
    exact hi0
  · rename_i hc
    have hon : on h.odh OtherDataHintsMask.address_event_counts = true := by simpa using hc
    simp only [hon, true_and]
    let B1 := (addIp (setStats b st) g.ip).1
    let A : AEC := { aeType := g.aeType, aeCode := g.aeCode, ai := (addIp (setStats b st) g.ip).2, tf := g.transportFlags }
    obtain ⟨e1, l1⟩ := ext_addIp (setStats b st) g.ip
    have hi1 : AecInv B1 cnt := aecInv_ext hi0 e1 rfl
    have hA : resolveA B1 A = some g := by
      unfold resolveA
      show (B1.ip[(addIp (setStats b st) g.ip).2]?).map _ = _
      rw [l1]
      cases g; rfl
    have hPA : ∀ k, decide (resolveA B1 A = some k) = decide (g = k) := by
      intro k; rw [hA]; simp
    split
    · -- the key is already counted
      rename_i hany
      have hmem : A ∈ B1.aecs.map (·.1) := by
        obtain ⟨e, he, heq⟩ := List.any_eq_true.1 hany
        have : e.1 = A := by simpa using heq
        exact this ▸ List.mem_map_of_mem he
      refine ⟨?_, ?_, ?_⟩
      · intro e he
        simp only [List.mem_map] at he
        obtain ⟨e', he', rfl⟩ := he
        have := hi1.inRange e' he'
        split <;> exact this
      · have : ((B1.aecs.map fun e => if e.1 == A then (e.1, e.2 + 1) else e).map (·.1)) = B1.aecs.map (·.1) := by
          rw [List.map_map]
          apply List.map_congr_left
          intro e _
          simp only [Function.comp]
          split <;> rfl
        show ((B1.aecs.map fun e : AEC × Nat => if e.1 == A then (e.1, e.2 + 1) else e).map (fun e : AEC × Nat => e.1)).Nodup
        rw [this]; exact hi1.keysNodup
      · intro k
        have hs := sum_incr B1.aecs A (fun a => decide (resolveA B1 a = some k)) hi1.keysNodup hmem
        have hc := hi1.counts k
        unfold countFor at hc ⊢
        show (((B1.aecs.map fun e : AEC × Nat => if e.1 == A then (e.1, e.2 + 1) else e).filter fun e : AEC × Nat => decide (resolveA B1 e.1 = some k)).map (fun e : AEC × Nat => e.2)).sum = _
        rw [hs, hc, hPA k]
        by_cases hgk : g = k <;> simp [hgk]
    · -- a new key
      rename_i hany
      have hnot : A ∉ B1.aecs.map (·.1) := by
        intro hm
        apply hany
        obtain ⟨e, he, heq⟩ := List.mem_map.1 hm
        exact List.any_eq_true.2 ⟨e, he, by rw [heq]; exact beq_self_eq_true A⟩
      refine ⟨?_, ?_, ?_⟩
      · intro e he
        have he' : e ∈ B1.aecs ++ [(A, 1)] := he
        rcases List.mem_append.1 he' with h' | h'
        · exact hi1.inRange e h'
        · rw [List.mem_singleton.1 h']
          show (addIp (setStats b st) g.ip).2 < B1.ip.length
          rcases Nat.lt_or_ge (addIp (setStats b st) g.ip).2 B1.ip.length with hlt | hge
          · exact hlt
          · rw [List.getElem?_eq_none hge] at l1; cases l1
      · show ((B1.aecs ++ [(A, 1)]).map (fun e : AEC × Nat => e.1)).Nodup
        rw [List.map_append, List.nodup_append]
        refine ⟨hi1.keysNodup, by simp, ?_⟩
        intro a ha b' hb'
        simp only [List.map_cons, List.map_nil, List.mem_singleton] at hb'
        rw [hb']
        intro e; exact hnot (e ▸ ha)
      · intro k
        have hc := hi1.counts k
        unfold countFor at hc ⊢
        show (((B1.aecs ++ [(A, 1)]).filter fun e : AEC × Nat => decide (resolveA B1 e.1 = some k)).map (fun e : AEC × Nat => e.2)).sum = _
        rw [List.filter_append, List.map_append, List.sum_append, hc]
        simp only [List.filter_cons, List.filter_nil, hPA k]
        by_cases hgk : g = k <;> simp [hgk]

theorem addQR_aecs (h : Hints) (g : GQR) (st : Option Stats) (b : Blk) : (addQR h g st b).aecs = b.aecs := by
  let b0 : Blk := { b with earliest := updEarliest b g.ts }
  have haddQR : addQR h g st b = setStats (if (buildQ h g b0).2.filled = true
      then { (buildQ h g b0).1 with qrs := (buildQ h g b0).1.qrs ++ [(buildQ h g b0).2] } else (buildQ h g b0).1) st := rfl
  rw [haddQR]
  have a1 : (buildQ h g b0).1.aecs = b.aecs := (keeps_buildQ h g b0).1.aecs
  have hs : ∀ x : Blk, (setStats x st).aecs = x.aecs := by intro x; cases st <;> rfl
  rw [hs]
  split
  · exact a1
  · exact a1

theorem addMM_aecs (h : Hints) (g : GMM) (st : Option Stats) (b : Blk) : (addMM h g st b).aecs = b.aecs := by
  unfold addMM
  have hs : (setStats b st).aecs = b.aecs := by cases st <;> rfl
  have a1 : ∀ (o : Option Bytes) (b' : Blk), (addOpt true o addIp b').1.aecs = b'.aecs := by
    intro o b'; unfold addOpt; cases o <;> rfl
  simp only
  split
  · exact hs
  · split <;> split <;> simp only [addMmd_aecs, a1] <;> exact hs

theorem timesBuffered_cons (h : Hints) (r : Rec) (rs : List Rec) (k : GAEC) :
    timesBuffered h (r :: rs) k = (match r with
      | .aec g _ => if on h.odh OtherDataHintsMask.address_event_counts = true ∧ g = k then 1 else 0
      | _ => 0) + timesBuffered h rs k := by
  unfold timesBuffered
  by_cases hon : on h.odh OtherDataHintsMask.address_event_counts = true
  · simp only [hon, if_true, true_and, List.filter_cons]
    cases r with
    | qr g st => simp
    | mm g st => simp
    | aec g st =>
      by_cases hgk : g = k
      · simp [hgk]; omega
      · simp [hgk]
  · simp only [hon, if_false, false_and]
    cases r <;> simp

/-- the address-event invariant holds of every block built: entries address existing addresses, keys are pairwise distinct,
    totals are the numbers of times the keys were buffered -/
theorem aecInv_build (h : Hints) (recs : List Rec) : AecInv (build h recs) (fun k => 0 + timesBuffered h recs k) := by
  unfold build
  have gen : ∀ (b : Blk) (cnt : GAEC → Nat), AecInv b cnt → AecInv (recs.foldl (addRec h) b) (fun k => cnt k + timesBuffered h recs k) := by
    induction recs with
    | nil => intro b cnt hi; simpa [timesBuffered] using hi
    | cons r rs ih =>
      intro b cnt hi
      rw [List.foldl_cons]
      have hcnt : (fun k => cnt k + timesBuffered h (r :: rs) k) =
          (fun k => (cnt k + (match r with
            | .aec g _ => if on h.odh OtherDataHintsMask.address_event_counts = true ∧ g = k then 1 else 0
            | _ => 0)) + timesBuffered h rs k) := by
        funext k; rw [timesBuffered_cons]; omega
      rw [hcnt]
      cases r with
      | qr g st =>
        have := ih _ _ (aecInv_ext hi (addQR_mms h g st b).1 (addQR_aecs h g st b))
        simpa [addRec] using this
      | mm g st =>
        have := ih _ _ (aecInv_ext hi (ext_addMM h g st b).1 (addMM_aecs h g st b))
        simpa [addRec] using this
      | aec g st =>
        exact ih _ _ (aecInv_addAEC h g st b cnt hi)
  have h0 : AecInv ({} : Blk) (fun _ => 0) := by
    refine ⟨?_, ?_, ?_⟩
    · intro e he; cases he
    · exact List.nodup_nil
    · intro k; rfl
  exact gen {} (fun _ => 0) h0

/-- **Address-event totals.**  For every generic key, the total count stored in the block built equals the number of
    times the key was buffered (while address events were enabled). -/
theorem aec_counts (h : Hints) (recs : List Rec) (k : GAEC) : countFor (build h recs) k = timesBuffered h recs k := by
  have := (aecInv_build h recs).counts k
  simpa using this

/-- no address-event key is stored twice in a block built -/
theorem aec_keys_nodup (h : Hints) (recs : List Rec) : ((build h recs).aecs.map (·.1)).Nodup := (aecInv_build h recs).keysNodup

/-! ### statistics -/

def statOf : Rec → Option Stats
  | .qr _ st => st
  | .aec _ st => st
  | .mm _ st => st

theorem stats_setStats (b : Blk) (st : Option Stats) : (setStats b st).stats = (match st with | some s => some s | none => b.stats) := by
  cases st <;> rfl

theorem addRec_stats (h : Hints) (b : Blk) (r : Rec) :
    (addRec h b r).stats = (match statOf r with | some s => some s | none => b.stats) := by
  cases r with
  | qr g st =>
    let b0 : Blk := { b with earliest := updEarliest b g.ts }
    have haddQR : addQR h g st b = setStats (if (buildQ h g b0).2.filled = true
        then { (buildQ h g b0).1 with qrs := (buildQ h g b0).1.qrs ++ [(buildQ h g b0).2] } else (buildQ h g b0).1) st := rfl
    have a1 : (buildQ h g b0).1.stats = b.stats := (keeps_buildQ h g b0).1.stats
    simp only [addRec, statOf, haddQR, stats_setStats]
    cases st with
    | some s => rfl
    | none => simp only; split <;> exact a1
  | aec g st =>
    simp only [addRec, statOf]
    unfold addAEC
    simp only
    split
    · exact stats_setStats b st
    · split <;> exact stats_setStats b st
  | mm g st =>
    simp only [addRec, statOf]
    unfold addMM
    have a1 : ∀ (o : Option Bytes) (b' : Blk), (addOpt true o addIp b').1.stats = b'.stats := by
      intro o b'; unfold addOpt; cases o <;> rfl
    simp only
    split
    · exact stats_setStats b st
    · have a2 : ∀ (b' : Blk) (x : MMD), (addMmd b' x).1.stats = b'.stats := fun _ _ => rfl
      split <;> split <;> simp only [a2, a1] <;> exact stats_setStats b st

/-- the block carries the statistics most recently supplied while it was being filled (whether or not the record that
    carried them was stored) -/
theorem stats_latest (h : Hints) (recs : List Rec) : (build h recs).stats = (recs.filterMap statOf).getLast? := by
  unfold build
  have gen : ∀ b : Blk, (recs.foldl (addRec h) b).stats = (match (recs.filterMap statOf).getLast? with | some s => some s | none => b.stats) := by
    induction recs with
    | nil => intro b; rfl
    | cons r rs ih =>
      intro b
      rw [List.foldl_cons, ih, addRec_stats]
      cases hs : statOf r with
      | none => simp [List.filterMap_cons, hs]
      | some s =>
        simp only [List.filterMap_cons, hs]
        cases hl : (rs.filterMap statOf).getLast? with
        | none =>
          have : rs.filterMap statOf = [] := by simpa [List.getLast?_eq_none_iff] using hl
          simp [this]
        | some s' =>
          have : (s :: rs.filterMap statOf).getLast? = some s' := by
            cases hrs : rs.filterMap statOf with
            | nil => simp [hrs] at hl
            | cons x xs => rw [hrs] at hl; simpa [List.getLast?_cons_cons] using hl
          simp [this]
  have := gen {}
  cases hl : (recs.filterMap statOf).getLast? <;> simp [hl] at this ⊢ <;> exact this

end CdnsVerif.Model.Builder
