/-
  The shape of what the output stack produces (`Model.Stack`): as long as no API call threw for an output, the bytes produced for
  it are nothing at all, or the file header followed by the encodings of the blocks written so far; a rotation that returns
  normally appends the break exactly when a block was written.  With `Props.C16.stack_failure_reported` (the OS has received what
  was produced) this is C13/C02's "complete file or empty" at the level of what reached the operating system.
-/
import CdnsVerif.Proofs.Stack
namespace CdnsVerif.Model.Stack
open CdnsVerif.Spec.Cbor CdnsVerif.Model.Writer

variable (hdr : Bytes) (enc : List Nat → Bytes)

/-- an output still open: nothing, or header and blocks -/
def OpenShape (bw : Nat) (g : Bytes) : Prop :=
  (bw = 0 ∧ g = []) ∨ (∃ bl : List (List Nat), bl.length = bw ∧ 0 < bw ∧ (∀ b ∈ bl, b ≠ []) ∧ g = hdr ++ (bl.map enc).flatten)

/-- an output closed by a rotation: nothing, or one complete file -/
def ClosedShape (g : Bytes) : Prop :=
  g = [] ∨ (∃ bl : List (List Nat), bl ≠ [] ∧ (∀ b ∈ bl, b ≠ []) ∧ g = hdr ++ (bl.map enc).flatten ++ [0xff])

def ShapeInv (s : St) : Prop :=
  (s.threw = false → OpenShape hdr enc s.bw s.given) ∧ (∀ o ∈ s.closed, o.threw = false → ClosedShape hdr enc o.given)

theorem openShape_block {bw : Nat} {g : Bytes} (h : OpenShape hdr enc bw g) (cur : List Nat) (hcur : cur ≠ []) :
    OpenShape hdr enc (bw + 1) (g ++ (if bw = 0 then hdr else []) ++ enc cur) := by
  right
  rcases h with ⟨h0, hg⟩ | ⟨bl, hl, hpos, hne, hg⟩
  · refine ⟨[cur], by simp [h0], by omega, by simpa using hcur, ?_⟩
    simp [h0, hg]
  · refine ⟨bl ++ [cur], by simp [hl], by omega, ?_, ?_⟩
    · intro b hb
      rcases List.mem_append.mp hb with hb | hb
      · exact hne b hb
      · simp at hb; subst hb; exact hcur
    · have : bw ≠ 0 := by omega
      simp [this, hg, List.append_assoc]

/-- what a `write_block()` that returns normally produces -/
theorem writeBlock_given (s : St) (hc bc : Cuts) (ht : (writeBlock hdr enc s hc bc).2 = false) :
    (s.cur = [] ∧ (writeBlock hdr enc s hc bc).1 = s) ∨
    (s.cur ≠ [] ∧ (writeBlock hdr enc s hc bc).1.bw = s.bw + 1 ∧ (writeBlock hdr enc s hc bc).1.cur = [] ∧
      (writeBlock hdr enc s hc bc).1.given = s.given ++ (if s.bw = 0 then hdr else []) ++ enc s.cur) := by
  unfold writeBlock at ht ⊢
  by_cases h0 : s.cur = []
  · left; simp [h0]
  · right
    simp only [h0, if_false] at ht ⊢
    refine ⟨h0, ?_⟩
    by_cases hb : s.bw = 0
    · simp only [hb, if_true] at ht ⊢
      cases hta : (emit s hdr hc).2
      · simp only [hta, Bool.false_eq_true, if_false] at ht ⊢
        have q1 := emit_quiet s hdr hc hta
        have f1 := emit_frame s hdr hc
        cases htb : (emit (emit s hdr hc).1 (enc s.cur) bc).2
        · simp only [Bool.false_eq_true, if_false]
          have q2 := emit_quiet _ (enc s.cur) bc htb
          have f2 := emit_frame (emit s hdr hc).1 (enc s.cur) bc
          refine ⟨?_, trivial, ?_⟩
          · show (emit (emit s hdr hc).1 (enc s.cur) bc).1.bw + 1 = 0 + 1
            rw [f2.2.1, f1.2.1, hb]
          · show (emit (emit s hdr hc).1 (enc s.cur) bc).1.given = _
            rw [q2.1, q1.1]
        · simp only [htb, if_true] at ht; cases ht
      · simp only [hta, if_true] at ht; cases ht
    · simp only [hb, if_false, Bool.false_eq_true] at ht ⊢
      cases htb : (emit s (enc s.cur) bc).2
      · simp only [Bool.false_eq_true, if_false]
        have q2 := emit_quiet s (enc s.cur) bc htb
        have f2 := emit_frame s (enc s.cur) bc
        refine ⟨?_, trivial, ?_⟩
        · show (emit s (enc s.cur) bc).1.bw + 1 = s.bw + 1
          rw [f2.2.1]
        · show (emit s (enc s.cur) bc).1.given = _
          rw [q2.1]; simp
      · simp only [htb, if_true] at ht; cases ht

theorem writeBlock_shape (s : St) (hc bc : Cuts) (ht : (writeBlock hdr enc s hc bc).2 = false)
    (h : OpenShape hdr enc s.bw s.given) : OpenShape hdr enc (writeBlock hdr enc s hc bc).1.bw (writeBlock hdr enc s hc bc).1.given := by
  rcases writeBlock_given hdr enc s hc bc ht with ⟨_, e⟩ | ⟨hcur, hbw, _, hg⟩
  · rw [e]; exact h
  · rw [hbw, hg]; exact openShape_block hdr enc h s.cur hcur

theorem closedShape_of_open {bw : Nat} {g : Bytes} (h : OpenShape hdr enc bw g) :
    ClosedShape hdr enc (g ++ (if bw > 0 then [0xff] else [])) := by
  rcases h with ⟨h0, hg⟩ | ⟨bl, hl, hpos, hne, hg⟩
  · left; simp [h0, hg]
  · right
    refine ⟨bl, ?_, hne, ?_⟩
    · intro hnil; rw [hnil] at hl; simp at hl; omega
    · simp [hpos, hg]

/-- a rotation that returns normally: the output it closes is nothing or one complete file, the new one is empty -/
theorem rotate_shape (s : St) (exp : Bool) (hc bc kc : Cuts) (r : Resp) (ht : (rotate hdr enc s exp hc bc kc r).2 = false)
    (h : ShapeInv hdr enc s) : ShapeInv hdr enc (rotate hdr enc s exp hc bc kc r).1 := by
  unfold rotate at ht ⊢
  -- step 1
  have f1 : (if exp then writeBlock hdr enc s hc bc else (s, false)).1.threw = s.threw ∧
            (if exp then writeBlock hdr enc s hc bc else (s, false)).1.closed = s.closed := by
    split
    · exact writeBlock_frame hdr enc s hc bc
    · exact ⟨rfl, rfl⟩
  have sh1 : (if exp then writeBlock hdr enc s hc bc else (s, false)).2 = false → s.threw = false →
      OpenShape hdr enc (if exp then writeBlock hdr enc s hc bc else (s, false)).1.bw (if exp then writeBlock hdr enc s hc bc else (s, false)).1.given := by
    split
    · exact fun a b => writeBlock_shape hdr enc s hc bc a (h.1 b)
    · exact fun _ b => h.1 b
  generalize hs1 : (if exp then writeBlock hdr enc s hc bc else (s, false)) = p1 at ht f1 sh1
  obtain ⟨s1, t1⟩ := p1
  cases t1
  · simp only [Bool.false_eq_true, if_false] at ht ⊢
    -- step 2
    have f2 : SameFrame s1 (if s1.bw > 0 then emit s1 [0xff] kc else (s1, false)).1 := by
      split
      · exact emit_frame s1 _ kc
      · exact SameFrame.refl s1
    have g2 : (if s1.bw > 0 then emit s1 [0xff] kc else (s1, false)).2 = false →
        (if s1.bw > 0 then emit s1 [0xff] kc else (s1, false)).1.given = s1.given ++ (if s1.bw > 0 then [0xff] else []) := by
      split
      · exact fun a => (emit_quiet s1 _ kc a).1
      · exact fun _ => by simp
    generalize hs2 : (if s1.bw > 0 then emit s1 [0xff] kc else (s1, false)) = p2 at ht f2 g2
    obtain ⟨s2, t2⟩ := p2
    cases t2
    · simp only [Bool.false_eq_true, if_false] at ht ⊢
      have f4 := flush_frame { s2 with bw := 0 } r
      cases ht4 : (flush { s2 with bw := 0 } r).2
      · simp only [Bool.false_eq_true, if_false]
        refine ⟨fun _ => Or.inl ⟨by show (flush { s2 with bw := 0 } r).1.bw = 0; rw [f4.1.2.1], rfl⟩, ?_⟩
        intro o ho
        simp only [List.mem_append, List.mem_singleton] at ho
        rcases ho with ho | rfl
        · have : (flush { s2 with bw := 0 } r).1.closed = s.closed := by
            rw [f4.1.2.2.2]; show s2.closed = s.closed; rw [f2.2.2.2, f1.2]
          rw [this] at ho
          exact h.2 o ho
        · intro hth
          simp only at hth ⊢
          have hth0 : s.threw = false := by
            have e1 : (flush { s2 with bw := 0 } r).1.threw = s2.threw := f4.1.2.2.1
            rw [e1, f2.2.2.1, f1.1] at hth; exact hth
          have hopen := sh1 rfl hth0
          have hg : (flush { s2 with bw := 0 } r).1.given = s1.given ++ (if s1.bw > 0 then [0xff] else []) := by
            rw [f4.2]; exact g2 rfl
          rw [hg]
          exact closedShape_of_open hdr enc hopen
      · rw [ht4] at ht; simp at ht
    · simp at ht
  · simp at ht

/-- a rotation that throws closes nothing -/
theorem rotate_throw_closed (s : St) (exp : Bool) (hc bc kc : Cuts) (r : Resp) (ht : (rotate hdr enc s exp hc bc kc r).2 = true) :
    (rotate hdr enc s exp hc bc kc r).1.closed = s.closed := by
  unfold rotate at ht ⊢
  have f1 : (if exp then writeBlock hdr enc s hc bc else (s, false)).1.closed = s.closed := by
    split
    · exact (writeBlock_frame hdr enc s hc bc).2
    · rfl
  generalize (if exp then writeBlock hdr enc s hc bc else (s, false)) = p1 at ht f1
  obtain ⟨s1, t1⟩ := p1
  cases t1
  · simp only [Bool.false_eq_true, if_false] at ht ⊢
    have f2 : (if s1.bw > 0 then emit s1 [0xff] kc else (s1, false)).1.closed = s1.closed := by
      split
      · exact (emit_frame s1 _ kc).2.2.2
      · rfl
    generalize (if s1.bw > 0 then emit s1 [0xff] kc else (s1, false)) = p2 at ht f2
    obtain ⟨s2, t2⟩ := p2
    cases t2
    · simp only [Bool.false_eq_true, if_false] at ht ⊢
      have f4 := flush_frame { s2 with bw := 0 } r
      cases ht4 : (flush { s2 with bw := 0 } r).2
      · rw [ht4] at ht; simp at ht
      · simp only [if_true]
        rw [f4.1.2.2.2]; show s2.closed = s.closed; rw [f2, f1]
    · simp only [if_true]; rw [f2, f1]
  · simp only [if_true]; exact f1

/-- a rotation only ever appends to the list of closed outputs -/
theorem rotate_closed_prefix (s : St) (exp : Bool) (hc bc kc : Cuts) (r : Resp) :
    ∃ ext, (rotate hdr enc s exp hc bc kc r).1.closed = s.closed ++ ext := by
  cases ht : (rotate hdr enc s exp hc bc kc r).2
  · unfold rotate at ht ⊢
    have f1 : (if exp then writeBlock hdr enc s hc bc else (s, false)).1.closed = s.closed := by
      split
      · exact (writeBlock_frame hdr enc s hc bc).2
      · rfl
    generalize (if exp then writeBlock hdr enc s hc bc else (s, false)) = p1 at ht f1
    obtain ⟨s1, t1⟩ := p1
    cases t1
    · simp only [Bool.false_eq_true, if_false] at ht ⊢
      have f2 : (if s1.bw > 0 then emit s1 [0xff] kc else (s1, false)).1.closed = s1.closed := by
        split
        · exact (emit_frame s1 _ kc).2.2.2
        · rfl
      generalize (if s1.bw > 0 then emit s1 [0xff] kc else (s1, false)) = p2 at ht f2
      obtain ⟨s2, t2⟩ := p2
      cases t2
      · simp only [Bool.false_eq_true, if_false] at ht ⊢
        have f4 := flush_frame { s2 with bw := 0 } r
        cases ht4 : (flush { s2 with bw := 0 } r).2
        · simp only [Bool.false_eq_true, if_false]
          refine ⟨[⟨(flush { s2 with bw := 0 } r).1.w.out, (flush { s2 with bw := 0 } r).1.given, (flush { s2 with bw := 0 } r).1.threw⟩], ?_⟩
          show (flush { s2 with bw := 0 } r).1.closed ++ _ = _
          rw [f4.1.2.2.2]; show s2.closed ++ _ = _; rw [f2, f1]
        · rw [ht4] at ht; simp at ht
      · simp at ht
    · simp at ht
  · exact ⟨[], by rw [rotate_throw_closed hdr enc s exp hc bc kc r ht]; simp⟩

theorem step_closed_prefix (s : St) (op : Op) : ∃ ext, (step hdr enc s op).1.closed = s.closed ++ ext := by
  cases op with
  | buffer r => exact ⟨[], by simp [step]⟩
  | bufferW r hc bc => exact ⟨[], by simp only [step, List.append_nil]; exact (writeBlock_frame hdr enc { s with cur := s.cur ++ [r] } hc bc).2⟩
  | writeBlock hc bc => exact ⟨[], by simp only [step, List.append_nil]; exact (writeBlock_frame hdr enc s hc bc).2⟩
  | rotate exp hc bc kc r => exact rotate_closed_prefix hdr enc s exp hc bc kc r

theorem run_closed_prefix (ops : List Op) : ∀ s, ∃ ext, (run hdr enc s ops).1.closed = s.closed ++ ext := by
  induction ops with
  | nil => intro s; exact ⟨[], by simp [run]⟩
  | cons op ops ih =>
    intro s
    obtain ⟨e1, h1⟩ := step_closed_prefix hdr enc s op
    obtain ⟨e2, h2⟩ := ih (step hdr enc s op).1
    exact ⟨e1 ++ e2, by show (run hdr enc (step hdr enc s op).1 ops).1.closed = _; rw [h2, h1, List.append_assoc]⟩

theorem run_append (ops1 ops2 : List Op) (s : St) :
    (run hdr enc s (ops1 ++ ops2)).1 = (run hdr enc (run hdr enc s ops1).1 ops2).1 := by
  induction ops1 generalizing s with
  | nil => rfl
  | cons op ops ih => exact ih _

/-- between API calls -/
theorem shape_step (s : St) (op : Op) (h : ShapeInv hdr enc s) : ShapeInv hdr enc (step hdr enc s op).1 := by
  cases op with
  | buffer r => exact ⟨h.1, h.2⟩
  | bufferW r hc bc =>
    have f := writeBlock_frame hdr enc { s with cur := s.cur ++ [r] } hc bc
    refine ⟨fun hth => ?_, by show ∀ o ∈ (writeBlock hdr enc { s with cur := s.cur ++ [r] } hc bc).1.closed, _; rw [f.2]; exact h.2⟩
    simp only [step, Bool.or_eq_false_iff] at hth
    exact writeBlock_shape hdr enc { s with cur := s.cur ++ [r] } hc bc hth.2 (h.1 (by rw [← f.1]; exact hth.1))
  | writeBlock hc bc =>
    have f := writeBlock_frame hdr enc s hc bc
    refine ⟨fun hth => ?_, by show ∀ o ∈ (writeBlock hdr enc s hc bc).1.closed, _; rw [f.2]; exact h.2⟩
    simp only [step, Bool.or_eq_false_iff] at hth
    exact writeBlock_shape hdr enc s hc bc hth.2 (h.1 (by rw [← f.1]; exact hth.1))
  | rotate exp hc bc kc r =>
    cases ht : (rotate hdr enc s exp hc bc kc r).2
    · have := rotate_shape hdr enc s exp hc bc kc r ht h
      refine ⟨fun hth => ?_, this.2⟩
      simp only [step, Bool.or_eq_false_iff] at hth
      exact this.1 hth.1
    · -- the rotation threw: the ghost flag of the current output is set, the closed outputs are those before
      refine ⟨fun hth => ?_, ?_⟩
      · simp only [step, ht, Bool.or_true] at hth; cases hth
      · show ∀ o ∈ (rotate hdr enc s exp hc bc kc r).1.closed, _
        rw [rotate_throw_closed hdr enc s exp hc bc kc r ht]; exact h.2

theorem shape_init : ShapeInv hdr enc St.init := ⟨fun _ => Or.inl ⟨rfl, rfl⟩, by simp [St.init]⟩

theorem shape_run (ops : List Op) : ∀ s, ShapeInv hdr enc s → ShapeInv hdr enc (run hdr enc s ops).1 := by
  induction ops with
  | nil => intro s h; exact h
  | cons op ops ih => intro s h; exact ih _ (shape_step hdr enc s op h)

end CdnsVerif.Model.Stack
