/-
  Records assembled slot by slot (the shape of every `…::write` in the C++: one optional member after the other, in
  declaration order) conform to the schema that lists those slots.
-/
import CdnsVerif.Proofs.Schema

namespace CdnsVerif.Model.Schema
open CdnsVerif.Spec.Cbor

/-- a record assembled slot by slot: the present members, in slot order -/
def slots : List (Field × Option Val) → List (Int × Val)
  | [] => []
  | (f, some v) :: l => (f.key, v) :: slots l
  | (_, none) :: l => slots l

/-- every present slot holds a value of the slot's kind; required slots are present; keys are in range -/
def SlotsOk : List (Field × Option Val) → Prop
  | [] => True
  | (f, o) :: l => keyOk f.key ∧ (∀ v, o = some v → Conforms f.kind v) ∧ (f.required = true → o.isSome = true) ∧ SlotsOk l

theorem slots_keys_sublist (l : List (Field × Option Val)) : ((slots l).map (·.1)).Sublist (l.map (·.1.key)) := by
  induction l with
  | nil => exact List.Sublist.slnil
  | cons p l ih =>
    obtain ⟨f, o⟩ := p
    cases o with
    | none => exact List.Sublist.cons _ ih
    | some v => exact List.Sublist.cons_cons _ ih

theorem slots_length_le (l : List (Field × Option Val)) : (slots l).length ≤ l.length := by
  have := (slots_keys_sublist l).length_le
  simpa using this

theorem find_of_mem_nodup (fs : List Field) (f : Field) (hf : f ∈ fs) (hnd : (fs.map (·.key)).Nodup) :
    fs.find? (fun g => g.key == f.key) = some f := by
  induction fs with
  | nil => cases hf
  | cons g fs ih =>
    rw [List.find?_cons]
    rw [List.map_cons, List.nodup_cons] at hnd
    rcases List.mem_cons.1 hf with rfl | hmem
    · simp
    · have hne : (g.key == f.key) = false := by
        apply beq_false_of_ne
        intro he
        exact hnd.1 (he ▸ List.mem_map_of_mem (f := fun x : Field => x.key) hmem)
      rw [hne]
      exact ih hmem hnd.2

theorem conformsPairs_slots (fs : List Field) (l : List (Field × Option Val)) (hsub : ∀ p ∈ l, p.1 ∈ fs)
    (hnd : (fs.map (·.key)).Nodup) (hok : SlotsOk l) : ConformsPairs fs (slots l) := by
  induction l with
  | nil => simp [slots, ConformsPairs]
  | cons p l ih =>
    obtain ⟨f, o⟩ := p
    obtain ⟨hk, hv, _, hrest⟩ := hok
    have ih' := ih (fun p hp => hsub p (List.mem_cons_of_mem _ hp)) hrest
    cases o with
    | none => exact ih'
    | some v =>
      simp only [slots, ConformsPairs]
      exact ⟨hk, ⟨f, find_of_mem_nodup fs f (hsub (f, some v) List.mem_cons_self) hnd, hv v rfl⟩, ih'⟩

theorem required_slots (l : List (Field × Option Val)) (hok : SlotsOk l) :
    ∀ p ∈ l, p.1.required = true → (slots l).any (fun m => m.1 == p.1.key) = true := by
  induction l with
  | nil => intro p hp; cases hp
  | cons q l ih =>
    obtain ⟨f, o⟩ := q
    obtain ⟨_, _, hreq, hrest⟩ := hok
    intro p hp hr
    rcases List.mem_cons.1 hp with rfl | hmem
    · have := hreq hr
      cases o with
      | none => cases this
      | some v => simp [slots]
    · have := ih hrest p hmem hr
      cases o with
      | none => exact this
      | some v => simp only [slots, List.any_cons, this, Bool.or_true]

/-- a slot-by-slot record conforms to the schema of its slots -/
theorem conforms_slots (l : List (Field × Option Val)) (hnd : ((l.map (·.1)).map (·.key)).Nodup) (hok : SlotsOk l)
    (hlen : l.length < 2 ^ 64) : Conforms (.struct (l.map (·.1))) (.record (slots l)) := by
  simp only [Conforms]
  have hkeys : (l.map (·.1)).map (·.key) = l.map (·.1.key) := by simp [List.map_map, Function.comp_def]
  refine ⟨Nat.lt_of_le_of_lt (slots_length_le l) hlen, ?_, ?_, ?_, hnd, ?_⟩
  · exact conformsPairs_slots _ l (fun p hp => List.mem_map_of_mem (f := fun x : Field × Option Val => x.1) hp) hnd hok
  · exact (hkeys ▸ slots_keys_sublist l).nodup hnd
  · rw [List.all_eq_true]
    intro f hf
    obtain ⟨p, hp, rfl⟩ := List.mem_map.1 hf
    cases hr : p.1.required with
    | false => rfl
    | true => simpa using required_slots l hok p hp hr
  · rw [hkeys]; exact slots_keys_sublist l

/-! slot constructors matching the `opt*` helpers of the builder model -/

theorem conf_num_of_lt {bits : Nat} (hb : bits ≤ 64) (o : Option Nat) (h : ∀ n, o = some n → n < 2 ^ bits) :
    ∀ v, o.map (fun n : Nat => Val.num (n : Int)) = some v → Conforms (.uint bits) v := by
  intro v hv
  cases o with
  | none => cases hv
  | some n =>
    have : v = .num (n : Int) := by simpa using hv.symm
    subst this
    simp only [Conforms]
    have := h n rfl
    exact ⟨by omega, by exact_mod_cast this, hb⟩

end CdnsVerif.Model.Schema
