/-
  An executable check of `Conforms` (so that concrete values – and every value the driver reads from
  a library-written file – can be shown to lie in the domain of the round-trip theorems).
-/
import CdnsVerif.Proofs.Schema

namespace CdnsVerif.Model.Schema
open CdnsVerif.Spec.Cbor CdnsVerif.Model

theorem bytesOk_of_all (b : Bytes) (h : b.all (fun x => decide (x < 256)) = true) : bytesOk b := by
  intro x hx
  have := List.all_eq_true.1 h x hx
  simpa using this

def CB (n : Nat) : Prop :=
  (∀ k v, need v ≤ n → conformsB k v = true → Conforms k v) ∧
  (∀ k vs, needList vs ≤ n → conformsListB k vs = true → ConformsList k vs) ∧
  (∀ fs ms, needPairs ms ≤ n → conformsPairsB fs ms = true → ConformsPairs fs ms)

theorem cb_all (n : Nat) : CB n := by
  induction n with
  | zero =>
    refine ⟨fun k v h _ => by have := need_pos v; omega, ?_, ?_⟩
    · intro k vs h _
      cases vs with
      | nil => simp [ConformsList]
      | cons v vs => simp only [needList] at h; omega
    · intro fs ms h _
      cases ms with
      | nil => simp [ConformsPairs]
      | cons m ms => obtain ⟨key, v⟩ := m; simp only [needPairs] at h; omega
  | succ n ih =>
    obtain ⟨ihA, ihB, ihC⟩ := ih
    refine ⟨?_, ?_, ?_⟩
    · intro k v hn hb
      cases k with
      | uint bits =>
        cases v <;> simp only [conformsB, Bool.false_eq_true] at hb
        simp only [Bool.and_eq_true, decide_eq_true_eq] at hb
        simp only [Conforms]; exact ⟨hb.1.1, hb.1.2, hb.2⟩
      | int64 =>
        cases v <;> simp only [conformsB, Bool.false_eq_true] at hb
        simp only [Bool.and_eq_true, decide_eq_true_eq] at hb
        simp only [Conforms]; exact hb
      | tstr =>
        cases v <;> simp only [conformsB, Bool.false_eq_true] at hb
        simp only [Bool.and_eq_true, decide_eq_true_eq] at hb
        simp only [Conforms]; exact ⟨hb.1, bytesOk_of_all _ hb.2⟩
      | bstr =>
        cases v <;> simp only [conformsB, Bool.false_eq_true] at hb
        simp only [Bool.and_eq_true, decide_eq_true_eq] at hb
        simp only [Conforms]; exact ⟨hb.1, bytesOk_of_all _ hb.2⟩
      | bool =>
        cases v <;> simp only [conformsB, Bool.false_eq_true] at hb
        simp only [Conforms]
      | arr ek =>
        cases v <;> simp only [conformsB, Bool.false_eq_true] at hb
        rename_i vs
        simp only [Bool.and_eq_true, decide_eq_true_eq] at hb
        simp only [need] at hn
        simp only [Conforms]; exact ⟨hb.1, ihB ek vs (by omega) hb.2⟩
      | struct fs =>
        cases v <;> simp only [conformsB, Bool.false_eq_true] at hb
        rename_i ms
        simp only [Bool.and_eq_true, decide_eq_true_eq] at hb
        simp only [need] at hn
        obtain ⟨⟨⟨⟨⟨h1, h2⟩, h3⟩, h4⟩, h5⟩, h6⟩ := hb
        simp only [Conforms]; exact ⟨h1, ihC fs ms (by omega) h2, h3, h4, h5, h6⟩
    · intro k vs hn hb
      cases vs with
      | nil => simp [ConformsList]
      | cons v vs =>
        simp only [needList] at hn
        simp only [conformsListB, Bool.and_eq_true] at hb
        simp only [ConformsList]; exact ⟨ihA k v (by omega) hb.1, ihB k vs (by omega) hb.2⟩
    · intro fs ms hn hb
      cases ms with
      | nil => simp [ConformsPairs]
      | cons m ms =>
        obtain ⟨key, v⟩ := m
        simp only [needPairs] at hn
        simp only [conformsPairsB, Bool.and_eq_true, decide_eq_true_eq] at hb
        obtain ⟨⟨⟨hk1, hk2⟩, hf⟩, hrest⟩ := hb
        simp only [ConformsPairs]
        refine ⟨⟨hk1, hk2⟩, ?_, ihC fs ms (by omega) hrest⟩
        cases hfind : fs.find? (fun f => f.key == key) with
        | none => simp [hfind] at hf
        | some f =>
          simp only [hfind] at hf
          exact ⟨f, rfl, ihA f.kind v (by omega) hf⟩

/-- the executable check is sound -/
theorem conforms_of_conformsB (k : Kind) (v : Val) (h : conformsB k v = true) : Conforms k v :=
  (cb_all (need v)).1 k v (Nat.le_refl _) h

theorem conformsList_of_conformsListB (k : Kind) (vs : List Val) (h : conformsListB k vs = true) : ConformsList k vs :=
  (cb_all (needList vs)).2.1 k vs (Nat.le_refl _) h

end CdnsVerif.Model.Schema
