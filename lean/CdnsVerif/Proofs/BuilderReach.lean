/-
  Referential closure and reachability of the tables built by `Model.Builder`:
  every index stored in a record or table entry addresses an existing entry (`Closed`), and every
  table entry is referred to by a stored record or by another table entry (`Reach`) – nothing is put
  into a table on behalf of a member that is not stored.
-/
import CdnsVerif.Proofs.Builder

namespace CdnsVerif.Model.Builder
open CdnsVerif.Spec.Cbor CdnsVerif.Generated

inductive Tid where
  | ip | ct | nr | sig | ql | qrr | rl | rr | mmd
  deriving DecidableEq, Repr

abbrev Ref := Tid × Nat

def len (b : Blk) : Tid → Nat
  | .ip => b.ip.length | .ct => b.ct.length | .nr => b.nr.length | .sig => b.sig.length | .ql => b.qlist.length
  | .qrr => b.qrr.length | .rl => b.rrlist.length | .rr => b.rr.length | .mmd => b.mmd.length

def oref (t : Tid) (o : Option Nat) : List Ref := match o with | some i => [(t, i)] | none => []

def sigRefs (s : Sig) : List Ref := oref .ip s.sai ++ oref .ct s.cti ++ oref .nr s.ordi
def qrrRefs (p : Nat × Nat) : List Ref := [(.nr, p.1), (.ct, p.2)]
def qlRefs (l : List Nat) : List Ref := l.map fun i => (.qrr, i)
def rlRefs (l : List Nat) : List Ref := l.map fun i => (.rr, i)
def rrRefs (r : RRe) : List Ref := [(.nr, r.name), (.ct, r.ct)] ++ oref .nr r.rdata
def mmdRefs (d : MMD) : List Ref := oref .ip d.sai
def qreRefs (e : Option QRE) : List Ref :=
  match e with
  | some e => oref .ql e.q ++ oref .rl e.an ++ oref .rl e.au ++ oref .rl e.ad
  | none => []
def qRefs (q : QRec) : List Ref :=
  oref .ip q.cai ++ oref .sig q.sig ++ oref .nr q.qn ++ (match q.rpd with | some r => oref .nr r.bw | none => []) ++
  qreRefs q.qx ++ qreRefs q.rx
def aecRefs (a : AEC × Nat) : List Ref := [(.ip, a.1.ai)]
def mmRefs (m : MMRec) : List Ref := oref .ip m.cai ++ oref .mmd m.mdi

/-- every reference held anywhere in the block -/
def allRefs (b : Blk) : List Ref :=
  b.sig.flatMap sigRefs ++ b.qrr.flatMap qrrRefs ++ b.qlist.flatMap qlRefs ++ b.rrlist.flatMap rlRefs ++ b.rr.flatMap rrRefs ++
  b.mmd.flatMap mmdRefs ++ b.qrs.flatMap qRefs ++ b.aecs.flatMap aecRefs ++ b.mms.flatMap mmRefs

/-- every stored index addresses an existing table entry -/
def Closed (b : Blk) : Prop := ∀ r ∈ allRefs b, r.2 < len b r.1
/-- every table entry is referred to -/
def Reach (b : Blk) : Prop := ∀ t j, j < len b t → (t, j) ∈ allRefs b

/-! ### find-or-append -/

theorem addDedup_spec [DecidableEq α] (t : List α) (x : α) :
    (addDedup t x).2 < (addDedup t x).1.length ∧ t.length ≤ (addDedup t x).1.length ∧ x ∈ (addDedup t x).1 ∧
    (∀ y ∈ t, y ∈ (addDedup t x).1) ∧ (∀ y ∈ (addDedup t x).1, y ∈ t ∨ y = x) ∧
    (∀ j, j < (addDedup t x).1.length → j < t.length ∨ j = (addDedup t x).2) := by
  unfold addDedup
  by_cases h : t.idxOf x < t.length
  · rw [if_pos h]
    refine ⟨h, Nat.le_refl _, ?_, fun y hy => hy, fun y hy => Or.inl hy, fun j hj => Or.inl hj⟩
    exact List.idxOf_lt_length_iff.1 h
  · rw [if_neg h]
    refine ⟨by simp, by simp, by simp, fun y hy => by simp [hy], ?_, ?_⟩
    · intro y hy; simpa [List.mem_append] using hy
    · intro j hj; simp only [List.length_append, List.length_singleton] at hj; omega

/-- what a builder step guarantees: tables only grow, nothing referenced disappears, every new table entry is either
    referenced inside the new block or handed to the caller (`R`), and everything newly referenced or handed out exists -/
structure Spec (b b' : Blk) (R : List Ref) : Prop where
  mono : ∀ t, len b t ≤ len b' t
  keeps : ∀ r ∈ allRefs b, r ∈ allRefs b'
  fresh : ∀ t j, j < len b' t → j < len b t ∨ (t, j) ∈ allRefs b' ∨ (t, j) ∈ R
  closedNew : ∀ r ∈ allRefs b', r ∈ allRefs b ∨ r.2 < len b' r.1
  closedR : ∀ r ∈ R, r.2 < len b' r.1

theorem Spec.refl (b : Blk) : Spec b b [] :=
  ⟨fun _ => Nat.le_refl _, fun _ h => h, fun _ _ h => Or.inl h, fun _ h => Or.inl h, fun _ h => by cases h⟩

theorem Spec.trans {a b c : Blk} {R1 R2 : List Ref} (h1 : Spec a b R1) (h2 : Spec b c R2) : Spec a c (R1 ++ R2) := by
  refine ⟨fun t => Nat.le_trans (h1.mono t) (h2.mono t), fun r hr => h2.keeps r (h1.keeps r hr), ?_, ?_, ?_⟩
  · intro t j hj
    rcases h2.fresh t j hj with h | h | h
    · rcases h1.fresh t j h with h' | h' | h'
      · exact Or.inl h'
      · exact Or.inr (Or.inl (h2.keeps _ h'))
      · exact Or.inr (Or.inr (List.mem_append_left _ h'))
    · exact Or.inr (Or.inl h)
    · exact Or.inr (Or.inr (List.mem_append_right _ h))
  · intro r hr
    rcases h2.closedNew r hr with h | h
    · rcases h1.closedNew r h with h' | h'
      · exact Or.inl h'
      · exact Or.inr (Nat.lt_of_lt_of_le h' (h2.mono _))
    · exact Or.inr h
  · intro r hr
    rcases List.mem_append.1 hr with h | h
    · exact Nat.lt_of_lt_of_le (h1.closedR r h) (h2.mono _)
    · exact h2.closedR r h

/-- weaken the obligations handed to the caller: references already justified inside the block may be dropped, the
    rest may be re-expressed -/
theorem Spec.weaken {b b' : Blk} {R R' : List Ref} (h : Spec b b' R) (hsub : ∀ r ∈ R, r ∈ allRefs b' ∨ r ∈ R')
    (hcl : ∀ r ∈ R', r.2 < len b' r.1) : Spec b b' R' := by
  refine ⟨h.mono, h.keeps, ?_, h.closedNew, hcl⟩
  intro t j hj
  rcases h.fresh t j hj with h1 | h1 | h1
  · exact Or.inl h1
  · exact Or.inr (Or.inl h1)
  · rcases hsub _ h1 with h2 | h2
    · exact Or.inr (Or.inl h2)
    · exact Or.inr (Or.inr h2)


theorem mem_flatMap_addDedup [DecidableEq α] (f : α → List Ref) (t : List α) (x : α) (r : Ref) :
    r ∈ (addDedup t x).1.flatMap f ↔ r ∈ t.flatMap f ∨ r ∈ f x := by
  have hd := addDedup_spec t x
  simp only [List.mem_flatMap]
  constructor
  · rintro ⟨y, hy, hr⟩
    rcases hd.2.2.2.2.1 y hy with h | h
    · exact Or.inl ⟨y, h, hr⟩
    · subst h; exact Or.inr hr
  · rintro (⟨y, hy, hr⟩ | hr)
    · exact ⟨y, hd.2.2.2.1 y hy, hr⟩
    · exact ⟨x, hd.2.2.1, hr⟩

theorem spec_addIp (b : Blk) (x : Bytes) : Spec b (addIp b x).1 [(.ip, (addIp b x).2)] := by
  have hd := addDedup_spec b.ip x
  refine ⟨?_, fun r hr => hr, ?_, fun r hr => Or.inl hr, ?_⟩
  · intro t; cases t <;> first | exact hd.2.1 | exact Nat.le_refl _
  · intro t j hj
    cases t <;> first
      | (rcases hd.2.2.2.2.2 j hj with h | h
         · exact Or.inl h
         · exact Or.inr (Or.inr (by rw [h]; exact List.mem_singleton.2 rfl)))
      | exact Or.inl hj
  · intro r hr; rw [List.mem_singleton.1 hr]; exact hd.1

theorem spec_addCt (b : Blk) (x : Nat × Nat) : Spec b (addCt b x).1 [(.ct, (addCt b x).2)] := by
  have hd := addDedup_spec b.ct x
  refine ⟨?_, fun r hr => hr, ?_, fun r hr => Or.inl hr, ?_⟩
  · intro t; cases t <;> first | exact hd.2.1 | exact Nat.le_refl _
  · intro t j hj
    cases t <;> first
      | (rcases hd.2.2.2.2.2 j hj with h | h
         · exact Or.inl h
         · exact Or.inr (Or.inr (by rw [h]; exact List.mem_singleton.2 rfl)))
      | exact Or.inl hj
  · intro r hr; rw [List.mem_singleton.1 hr]; exact hd.1

theorem spec_addNr (b : Blk) (x : Bytes) : Spec b (addNr b x).1 [(.nr, (addNr b x).2)] := by
  have hd := addDedup_spec b.nr x
  refine ⟨?_, fun r hr => hr, ?_, fun r hr => Or.inl hr, ?_⟩
  · intro t; cases t <;> first | exact hd.2.1 | exact Nat.le_refl _
  · intro t j hj
    cases t <;> first
      | (rcases hd.2.2.2.2.2 j hj with h | h
         · exact Or.inl h
         · exact Or.inr (Or.inr (by rw [h]; exact List.mem_singleton.2 rfl)))
      | exact Or.inl hj
  · intro r hr; rw [List.mem_singleton.1 hr]; exact hd.1

theorem spec_addSig (b : Blk) (x : Sig) (hx : ∀ r ∈ sigRefs x, r.2 < len b r.1) :
    Spec b (addSig b x).1 [(.sig, (addSig b x).2)] ∧ ∀ r ∈ sigRefs x, r ∈ allRefs (addSig b x).1 := by
  have hd := addDedup_spec b.sig x
  have hmono : ∀ t, len b t ≤ len (addSig b x).1 t := by
    intro t; cases t <;> first | exact hd.2.1 | exact Nat.le_refl _
  have hmem : ∀ r, r ∈ allRefs (addSig b x).1 ↔ r ∈ allRefs b ∨ r ∈ sigRefs x := by
    intro r
    simp only [allRefs, addSig, List.mem_append, mem_flatMap_addDedup]
    simp only [or_assoc, or_left_comm, or_comm]
  refine ⟨⟨hmono, fun r hr => (hmem r).2 (Or.inl hr), ?_, ?_, ?_⟩, fun r hr => (hmem r).2 (Or.inr hr)⟩
  · intro t j hj
    cases t <;> first
      | (rcases hd.2.2.2.2.2 j hj with h | h
         · exact Or.inl h
         · exact Or.inr (Or.inr (by rw [h]; exact List.mem_singleton.2 rfl)))
      | exact Or.inl hj
  · intro r hr
    rcases (hmem r).1 hr with h | h
    · exact Or.inl h
    · exact Or.inr (Nat.lt_of_lt_of_le (hx r h) (hmono _))
  · intro r hr; rw [List.mem_singleton.1 hr]; exact hd.1

theorem spec_addQrr (b : Blk) (x : Nat × Nat) (hx : ∀ r ∈ qrrRefs x, r.2 < len b r.1) :
    Spec b (addQrr b x).1 [(.qrr, (addQrr b x).2)] ∧ ∀ r ∈ qrrRefs x, r ∈ allRefs (addQrr b x).1 := by
  have hd := addDedup_spec b.qrr x
  have hmono : ∀ t, len b t ≤ len (addQrr b x).1 t := by
    intro t; cases t <;> first | exact hd.2.1 | exact Nat.le_refl _
  have hmem : ∀ r, r ∈ allRefs (addQrr b x).1 ↔ r ∈ allRefs b ∨ r ∈ qrrRefs x := by
    intro r
    simp only [allRefs, addQrr, List.mem_append, mem_flatMap_addDedup]
    simp only [or_assoc, or_left_comm, or_comm]
  refine ⟨⟨hmono, fun r hr => (hmem r).2 (Or.inl hr), ?_, ?_, ?_⟩, fun r hr => (hmem r).2 (Or.inr hr)⟩
  · intro t j hj
    cases t <;> first
      | (rcases hd.2.2.2.2.2 j hj with h | h
         · exact Or.inl h
         · exact Or.inr (Or.inr (by rw [h]; exact List.mem_singleton.2 rfl)))
      | exact Or.inl hj
  · intro r hr
    rcases (hmem r).1 hr with h | h
    · exact Or.inl h
    · exact Or.inr (Nat.lt_of_lt_of_le (hx r h) (hmono _))
  · intro r hr; rw [List.mem_singleton.1 hr]; exact hd.1

theorem spec_addQl (b : Blk) (x : List Nat) (hx : ∀ r ∈ qlRefs x, r.2 < len b r.1) :
    Spec b (addQl b x).1 [(.ql, (addQl b x).2)] ∧ ∀ r ∈ qlRefs x, r ∈ allRefs (addQl b x).1 := by
  have hd := addDedup_spec b.qlist x
  have hmono : ∀ t, len b t ≤ len (addQl b x).1 t := by
    intro t; cases t <;> first | exact hd.2.1 | exact Nat.le_refl _
  have hmem : ∀ r, r ∈ allRefs (addQl b x).1 ↔ r ∈ allRefs b ∨ r ∈ qlRefs x := by
    intro r
    simp only [allRefs, addQl, List.mem_append, mem_flatMap_addDedup]
    simp only [or_assoc, or_left_comm, or_comm]
  refine ⟨⟨hmono, fun r hr => (hmem r).2 (Or.inl hr), ?_, ?_, ?_⟩, fun r hr => (hmem r).2 (Or.inr hr)⟩
  · intro t j hj
    cases t <;> first
      | (rcases hd.2.2.2.2.2 j hj with h | h
         · exact Or.inl h
         · exact Or.inr (Or.inr (by rw [h]; exact List.mem_singleton.2 rfl)))
      | exact Or.inl hj
  · intro r hr
    rcases (hmem r).1 hr with h | h
    · exact Or.inl h
    · exact Or.inr (Nat.lt_of_lt_of_le (hx r h) (hmono _))
  · intro r hr; rw [List.mem_singleton.1 hr]; exact hd.1

theorem spec_addRl (b : Blk) (x : List Nat) (hx : ∀ r ∈ rlRefs x, r.2 < len b r.1) :
    Spec b (addRl b x).1 [(.rl, (addRl b x).2)] ∧ ∀ r ∈ rlRefs x, r ∈ allRefs (addRl b x).1 := by
  have hd := addDedup_spec b.rrlist x
  have hmono : ∀ t, len b t ≤ len (addRl b x).1 t := by
    intro t; cases t <;> first | exact hd.2.1 | exact Nat.le_refl _
  have hmem : ∀ r, r ∈ allRefs (addRl b x).1 ↔ r ∈ allRefs b ∨ r ∈ rlRefs x := by
    intro r
    simp only [allRefs, addRl, List.mem_append, mem_flatMap_addDedup]
    simp only [or_assoc, or_left_comm, or_comm]
  refine ⟨⟨hmono, fun r hr => (hmem r).2 (Or.inl hr), ?_, ?_, ?_⟩, fun r hr => (hmem r).2 (Or.inr hr)⟩
  · intro t j hj
    cases t <;> first
      | (rcases hd.2.2.2.2.2 j hj with h | h
         · exact Or.inl h
         · exact Or.inr (Or.inr (by rw [h]; exact List.mem_singleton.2 rfl)))
      | exact Or.inl hj
  · intro r hr
    rcases (hmem r).1 hr with h | h
    · exact Or.inl h
    · exact Or.inr (Nat.lt_of_lt_of_le (hx r h) (hmono _))
  · intro r hr; rw [List.mem_singleton.1 hr]; exact hd.1

theorem spec_addRr (b : Blk) (x : RRe) (hx : ∀ r ∈ rrRefs x, r.2 < len b r.1) :
    Spec b (addRr b x).1 [(.rr, (addRr b x).2)] ∧ ∀ r ∈ rrRefs x, r ∈ allRefs (addRr b x).1 := by
  have hd := addDedup_spec b.rr x
  have hmono : ∀ t, len b t ≤ len (addRr b x).1 t := by
    intro t; cases t <;> first | exact hd.2.1 | exact Nat.le_refl _
  have hmem : ∀ r, r ∈ allRefs (addRr b x).1 ↔ r ∈ allRefs b ∨ r ∈ rrRefs x := by
    intro r
    simp only [allRefs, addRr, List.mem_append, mem_flatMap_addDedup]
    simp only [or_assoc, or_left_comm, or_comm]
  refine ⟨⟨hmono, fun r hr => (hmem r).2 (Or.inl hr), ?_, ?_, ?_⟩, fun r hr => (hmem r).2 (Or.inr hr)⟩
  · intro t j hj
    cases t <;> first
      | (rcases hd.2.2.2.2.2 j hj with h | h
         · exact Or.inl h
         · exact Or.inr (Or.inr (by rw [h]; exact List.mem_singleton.2 rfl)))
      | exact Or.inl hj
  · intro r hr
    rcases (hmem r).1 hr with h | h
    · exact Or.inl h
    · exact Or.inr (Nat.lt_of_lt_of_le (hx r h) (hmono _))
  · intro r hr; rw [List.mem_singleton.1 hr]; exact hd.1

theorem spec_addMmd (b : Blk) (x : MMD) (hx : ∀ r ∈ mmdRefs x, r.2 < len b r.1) :
    Spec b (addMmd b x).1 [(.mmd, (addMmd b x).2)] ∧ ∀ r ∈ mmdRefs x, r ∈ allRefs (addMmd b x).1 := by
  have hd := addDedup_spec b.mmd x
  have hmono : ∀ t, len b t ≤ len (addMmd b x).1 t := by
    intro t; cases t <;> first | exact hd.2.1 | exact Nat.le_refl _
  have hmem : ∀ r, r ∈ allRefs (addMmd b x).1 ↔ r ∈ allRefs b ∨ r ∈ mmdRefs x := by
    intro r
    simp only [allRefs, addMmd, List.mem_append, mem_flatMap_addDedup]
    simp only [or_assoc, or_left_comm, or_comm]
  refine ⟨⟨hmono, fun r hr => (hmem r).2 (Or.inl hr), ?_, ?_, ?_⟩, fun r hr => (hmem r).2 (Or.inr hr)⟩
  · intro t j hj
    cases t <;> first
      | (rcases hd.2.2.2.2.2 j hj with h | h
         · exact Or.inl h
         · exact Or.inr (Or.inr (by rw [h]; exact List.mem_singleton.2 rfl)))
      | exact Or.inl hj
  · intro r hr
    rcases (hmem r).1 hr with h | h
    · exact Or.inl h
    · exact Or.inr (Nat.lt_of_lt_of_le (hx r h) (hmono _))
  · intro r hr; rw [List.mem_singleton.1 hr]; exact hd.1

/-! ### composite steps -/

theorem oref_closed {b : Blk} {t : Tid} {o : Option Nat} (h : ∀ i, o = some i → i < len b t) : ∀ r ∈ oref t o, r.2 < len b r.1 := by
  intro r hr
  cases o with
  | none => cases hr
  | some i => simp only [oref, List.mem_singleton] at hr; rw [hr]; exact h i rfl

theorem spec_addOpt (t : Tid) (c : Bool) (o : Option α) (add : Blk → α → Blk × Nat) (b : Blk)
    (hadd : ∀ b x, Spec b (add b x).1 [(t, (add b x).2)]) : Spec b (addOpt c o add b).1 (oref t (addOpt c o add b).2) := by
  unfold addOpt
  cases c <;> cases o <;> first | exact Spec.refl b | exact hadd b _

theorem spec_qlStep (acc : Blk × List Nat) (g : GRR) :
    ∃ i, (qlStep acc g).2 = acc.2 ++ [i] ∧ Spec acc.1 (qlStep acc g).1 [(.qrr, i)] := by
  unfold qlStep
  have s1 := spec_addNr acc.1 g.name
  have s2 := spec_addCt (addNr acc.1 g.name).1 (g.type, g.cls)
  have hx : ∀ r ∈ qrrRefs ((addNr acc.1 g.name).2, (addCt (addNr acc.1 g.name).1 (g.type, g.cls)).2),
      r.2 < len (addCt (addNr acc.1 g.name).1 (g.type, g.cls)).1 r.1 := by
    intro r hr
    simp only [qrrRefs, List.mem_cons, List.mem_nil_iff, or_false] at hr
    rcases hr with rfl | rfl
    · exact Nat.lt_of_lt_of_le (s1.closedR _ (List.mem_singleton.2 rfl)) (s2.mono _)
    · exact s2.closedR _ (List.mem_singleton.2 rfl)
  obtain ⟨s3, hin⟩ := spec_addQrr _ _ hx
  refine ⟨_, rfl, ?_⟩
  refine ((s1.trans s2).trans s3).weaken ?_ s3.closedR
  intro r hr
  simp only [List.mem_append, List.mem_singleton] at hr
  rcases hr with (rfl | rfl) | rfl
  · exact Or.inl (hin _ (by simp [qrrRefs]))
  · exact Or.inl (hin _ (by simp [qrrRefs]))
  · exact Or.inr (List.mem_singleton.2 rfl)

theorem spec_fold (step : Blk × List Nat → GRR → Blk × List Nat) (t : Tid)
    (hs : ∀ acc g, ∃ i, (step acc g).2 = acc.2 ++ [i] ∧ Spec acc.1 (step acc g).1 [(t, i)])
    (gs : List GRR) (acc : Blk × List Nat) :
    ∃ l, (gs.foldl step acc).2 = acc.2 ++ l ∧ Spec acc.1 (gs.foldl step acc).1 (l.map fun i => (t, i)) := by
  induction gs generalizing acc with
  | nil => exact ⟨[], by simp, Spec.refl _⟩
  | cons g gs ih =>
    obtain ⟨i, h2, hsp⟩ := hs acc g
    obtain ⟨l, hl, hsp2⟩ := ih (step acc g)
    refine ⟨i :: l, ?_, ?_⟩
    · simp only [List.foldl_cons]; rw [hl, h2]; simp
    · simp only [List.foldl_cons, List.map_cons]
      exact hsp.trans hsp2

theorem spec_addGenericQlist (b : Blk) (g : List GRR) : Spec b (addGenericQlist b g).1 [(.ql, (addGenericQlist b g).2)] := by
  unfold addGenericQlist
  obtain ⟨l, hl, hsp⟩ := spec_fold qlStep .qrr spec_qlStep g (b, [])
  simp only [List.nil_append] at hl
  have hx : ∀ r ∈ qlRefs (g.foldl qlStep (b, [])).2, r.2 < len (g.foldl qlStep (b, [])).1 r.1 := by
    rw [hl]; exact hsp.closedR
  obtain ⟨s2, hin⟩ := spec_addQl _ _ hx
  refine (hsp.trans s2).weaken ?_ s2.closedR
  intro r hr
  rcases List.mem_append.1 hr with h | h
  · exact Or.inl (hin r (by rw [hl]; exact h))
  · exact Or.inr h

theorem spec_rrStep (h : Hints) (acc : Blk × List Nat) (g : GRR) :
    ∃ i, (rrStep h acc g).2 = acc.2 ++ [i] ∧ Spec acc.1 (rrStep h acc g).1 [(.rr, i)] := by
  unfold rrStep
  have s1 := spec_addNr acc.1 g.name
  have s2 := spec_addCt (addNr acc.1 g.name).1 (g.type, g.cls)
  have s3 := spec_addOpt .nr (on h.rrh RrHintsMask.rdata_index) g.rdata addNr (addCt (addNr acc.1 g.name).1 (g.type, g.cls)).1 spec_addNr
  let e : RRe := { name := (addNr acc.1 g.name).2, ct := (addCt (addNr acc.1 g.name).1 (g.type, g.cls)).2,
                   ttl := keep (on h.rrh RrHintsMask.ttl) g.ttl,
                   rdata := (addOpt (on h.rrh RrHintsMask.rdata_index) g.rdata addNr (addCt (addNr acc.1 g.name).1 (g.type, g.cls)).1).2 }
  have hx : ∀ r ∈ rrRefs e, r.2 < len (addOpt (on h.rrh RrHintsMask.rdata_index) g.rdata addNr (addCt (addNr acc.1 g.name).1 (g.type, g.cls)).1).1 r.1 := by
    intro r hr
    simp only [rrRefs, List.mem_append, List.mem_cons, List.mem_nil_iff, or_false] at hr
    rcases hr with (rfl | rfl) | hr
    · exact Nat.lt_of_lt_of_le (Nat.lt_of_lt_of_le (s1.closedR _ (List.mem_singleton.2 rfl)) (s2.mono _)) (s3.mono _)
    · exact Nat.lt_of_lt_of_le (s2.closedR _ (List.mem_singleton.2 rfl)) (s3.mono _)
    · exact s3.closedR r hr
  obtain ⟨s4, hin⟩ := spec_addRr _ e hx
  refine ⟨_, rfl, ?_⟩
  refine (((s1.trans s2).trans s3).trans s4).weaken ?_ s4.closedR
  intro r hr
  simp only [List.mem_append, List.mem_singleton] at hr
  rcases hr with ((rfl | rfl) | hr) | rfl
  · exact Or.inl (hin _ (by simp [rrRefs, e]))
  · exact Or.inl (hin _ (by simp [rrRefs, e]))
  · exact Or.inl (hin _ (by simp only [rrRefs, List.mem_append]; exact Or.inr hr))
  · exact Or.inr (List.mem_singleton.2 rfl)

theorem spec_addGenericRrlist (h : Hints) (b : Blk) (g : List GRR) :
    Spec b (addGenericRrlist h b g).1 [(.rl, (addGenericRrlist h b g).2)] := by
  unfold addGenericRrlist
  obtain ⟨l, hl, hsp⟩ := spec_fold (rrStep h) .rr (spec_rrStep h) g (b, [])
  simp only [List.nil_append] at hl
  have hx : ∀ r ∈ rlRefs (g.foldl (rrStep h) (b, [])).2, r.2 < len (g.foldl (rrStep h) (b, [])).1 r.1 := by
    rw [hl]; exact hsp.closedR
  obtain ⟨s2, hin⟩ := spec_addRl _ _ hx
  refine (hsp.trans s2).weaken ?_ s2.closedR
  intro r hr
  rcases List.mem_append.1 hr with h' | h'
  · exact Or.inl (hin r (by rw [hl]; exact h'))
  · exact Or.inr h'

theorem spec_addSection (t : Tid) (c : Bool) (o : Option (List GRR)) (add : Blk → List GRR → Blk × Nat) (b : Blk)
    (hadd : ∀ b x, Spec b (add b x).1 [(t, (add b x).2)]) : Spec b (addSection c o add b).1 (oref t (addSection c o add b).2) := by
  unfold addSection
  split
  · exact hadd b _
  · exact Spec.refl b

theorem isSome_eq_false_iff {o : Option α} : o.isSome = false ↔ o = none := by cases o <;> simp

theorem spec_buildSig (h : Hints) (g : GQR) (b : Blk) : Spec b (buildSig h g b).1 (oref .sig (buildSig h g b).2) := by
  unfold buildSig
  split
  · exact Spec.refl b
  · simp only
    let c1 := on h.sigh QueryResponseSignatureHintsMask.server_address_index
    let c2 := on h.sigh QueryResponseSignatureHintsMask.query_classtype_index
    let c3 := on h.sigh QueryResponseSignatureHintsMask.query_opt_rdata_index
    let B1 := (addOpt c1 g.serverIp addIp b).1
    let B2 := (addOpt c2 g.classtype addCt B1).1
    have s1 : Spec b B1 _ := spec_addOpt .ip c1 g.serverIp addIp b spec_addIp
    have s2 : Spec B1 B2 _ := spec_addOpt .ct c2 g.classtype addCt B1 spec_addCt
    have s3 : Spec B2 _ _ := spec_addOpt .nr c3 g.optRdata addNr B2 spec_addNr
    have s123 := (s1.trans s2).trans s3
    let S := mkSig h g (addOpt c1 g.serverIp addIp b).2 (addOpt c2 g.classtype addCt B1).2 (addOpt c3 g.optRdata addNr B2).2
    have hS : sigRefs S = oref .ip (addOpt c1 g.serverIp addIp b).2 ++ oref .ct (addOpt c2 g.classtype addCt B1).2 ++
        oref .nr (addOpt c3 g.optRdata addNr B2).2 := rfl
    split
    · obtain ⟨s4, hin⟩ := spec_addSig (addOpt c3 g.optRdata addNr B2).1 S (fun r hr => s123.closedR r (by rw [hS] at hr; exact hr))
      refine (s123.trans s4).weaken ?_ s4.closedR
      intro r hr
      rcases List.mem_append.1 hr with h' | h'
      · exact Or.inl (hin r (by rw [hS]; exact h'))
      · exact Or.inr h'
    · rename_i hnf
      -- nothing was filled, in particular none of the three table members
      simp only [Sig.filled, mkSig, Bool.or_eq_true, not_or, Bool.not_eq_true, isSome_eq_false_iff] at hnf
      obtain ⟨⟨⟨⟨⟨⟨⟨⟨⟨⟨⟨⟨⟨⟨⟨⟨h1, _⟩, _⟩, _⟩, _⟩, _⟩, _⟩, _⟩, h9⟩, _⟩, _⟩, _⟩, _⟩, _⟩, _⟩, h16⟩, _⟩ := hnf
      refine s123.weaken ?_ (fun r hr => by cases hr)
      intro r hr
      simp only [c1, c2, c3, B1, B2] at hr
      rw [h1, h9, h16] at hr
      simp [oref] at hr

theorem rpd_refs (bw flags : Option Nat) :
    (match (if (bw.isSome || flags.isSome) = true then some ({ bw := bw, flags := flags } : RPD) else none) with
      | some r => oref .nr r.bw | none => []) = oref .nr bw := by
  cases bw <;> cases flags <;> simp [oref]

theorem qre_refs (e : QRE) : qreRefs (if e.filled = true then some e else none) = oref .ql e.q ++ oref .rl e.an ++ oref .rl e.au ++ oref .rl e.ad := by
  by_cases hf : e.filled = true
  · simp [hf, qreRefs]
  · simp only [hf, if_false, qreRefs]
    simp only [QRE.filled, Bool.or_eq_true, not_or, Bool.not_eq_true, isSome_eq_false_iff] at hf
    obtain ⟨⟨⟨h1, h2⟩, h3⟩, h4⟩ := hf
    simp [h1, h2, h3, h4, oref]

theorem spec_buildQ (h : Hints) (g : GQR) (b : Blk) : Spec b (buildQ h g b).1 (qRefs (buildQ h g b).2) := by
  unfold buildQ
  simp only
  let B1 := (addOpt (on h.qrh QueryResponseHintsMask.client_address_index) g.clientIp addIp b).1
  let B2 := (buildSig h g B1).1
  let B3 := (addOpt (on h.qrh QueryResponseHintsMask.query_name_index) g.queryName addNr B2).1
  let B4 := (addOpt (on h.qrh QueryResponseHintsMask.response_processing_data) g.bailiwick addNr B3).1
  let Q1 := (addSection (on h.qrh QueryResponseHintsMask.query_question_sections) g.queryQuestions addGenericQlist B4).1
  let Q2 := (addSection (on h.qrh QueryResponseHintsMask.query_answer_sections) g.queryAnswers (addGenericRrlist h) Q1).1
  let Q3 := (addSection (on h.qrh QueryResponseHintsMask.query_authority_sections) g.queryAuthority (addGenericRrlist h) Q2).1
  let Q4 := (addSection (on h.qrh QueryResponseHintsMask.query_additional_sections) g.queryAdditional (addGenericRrlist h) Q3).1
  let E1 := (addSection (on h.qrh QueryResponseHintsMask.query_question_sections) g.responseQuestions addGenericQlist Q4).1
  let E2 := (addSection (on h.qrh QueryResponseHintsMask.response_answer_sections) g.responseAnswers (addGenericRrlist h) E1).1
  let E3 := (addSection (on h.qrh QueryResponseHintsMask.response_authority_sections) g.responseAuthority (addGenericRrlist h) E2).1
  have t1 : Spec b B1 _ := spec_addOpt .ip _ g.clientIp addIp b spec_addIp
  have t2 : Spec B1 B2 _ := spec_buildSig h g B1
  have t3 : Spec B2 B3 _ := spec_addOpt .nr _ g.queryName addNr B2 spec_addNr
  have t4 : Spec B3 B4 _ := spec_addOpt .nr _ g.bailiwick addNr B3 spec_addNr
  have t5 : Spec B4 Q1 _ := spec_addSection .ql _ g.queryQuestions addGenericQlist B4 spec_addGenericQlist
  have t6 : Spec Q1 Q2 _ := spec_addSection .rl _ g.queryAnswers (addGenericRrlist h) Q1 (spec_addGenericRrlist h)
  have t7 : Spec Q2 Q3 _ := spec_addSection .rl _ g.queryAuthority (addGenericRrlist h) Q2 (spec_addGenericRrlist h)
  have t8 : Spec Q3 Q4 _ := spec_addSection .rl _ g.queryAdditional (addGenericRrlist h) Q3 (spec_addGenericRrlist h)
  have t9 : Spec Q4 E1 _ := spec_addSection .ql _ g.responseQuestions addGenericQlist Q4 spec_addGenericQlist
  have t10 : Spec E1 E2 _ := spec_addSection .rl _ g.responseAnswers (addGenericRrlist h) E1 (spec_addGenericRrlist h)
  have t11 : Spec E2 E3 _ := spec_addSection .rl _ g.responseAuthority (addGenericRrlist h) E2 (spec_addGenericRrlist h)
  have t12 : Spec E3 _ _ := spec_addSection .rl (on h.qrh QueryResponseHintsMask.response_additional_sections) g.responseAdditional
    (addGenericRrlist h) E3 (spec_addGenericRrlist h)
  have c := ((((((((((t1.trans t2).trans t3).trans t4).trans t5).trans t6).trans t7).trans t8).trans t9).trans t10).trans t11).trans t12
  refine c.weaken ?_ ?_
  · intro r hr
    right
    simp only [qRefs, rpd_refs, qre_refs]
    simpa [List.append_assoc] using hr
  · intro r hr
    apply c.closedR
    simp only [qRefs, rpd_refs, qre_refs] at hr
    simpa [List.append_assoc] using hr

/-! ### the invariants over whole record sequences -/

/-- from a step's `Spec` to the invariants of a state that additionally stores the references handed out -/
theorem inv_of_spec {b b' b'' : Blk} {R : List Ref} (hC : Closed b) (hR : Reach b) (hs : Spec b b' R)
    (hlen : ∀ t, len b'' t = len b' t) (hall : ∀ r, r ∈ allRefs b'' ↔ r ∈ allRefs b' ∨ r ∈ R) : Closed b'' ∧ Reach b'' := by
  refine ⟨?_, ?_⟩
  · intro r hr
    rw [hlen]
    rcases (hall r).1 hr with h | h
    · rcases hs.closedNew r h with h' | h'
      · exact Nat.lt_of_lt_of_le (hC r h') (hs.mono _)
      · exact h'
    · exact hs.closedR r h
  · intro t j hj
    rw [hlen] at hj
    rcases hs.fresh t j hj with h | h | h
    · exact (hall _).2 (Or.inl (hs.keeps _ (hR t j h)))
    · exact (hall _).2 (Or.inl h)
    · exact (hall _).2 (Or.inr h)

theorem allRefs_setStats (b : Blk) (st : Option Stats) : allRefs (setStats b st) = allRefs b ∧ ∀ t, len (setStats b st) t = len b t := by
  cases st with
  | none => exact ⟨rfl, fun _ => rfl⟩
  | some s => exact ⟨rfl, fun t => by cases t <;> rfl⟩

theorem inv_setStats {b : Blk} (st : Option Stats) (h : Closed b ∧ Reach b) : Closed (setStats b st) ∧ Reach (setStats b st) := by
  obtain ⟨e, l⟩ := allRefs_setStats b st
  refine ⟨?_, ?_⟩
  · intro r hr; rw [e] at hr; rw [l]; exact h.1 r hr
  · intro t j hj; rw [l] at hj; rw [e]; exact h.2 t j hj

theorem qRefs_not_filled (q : QRec) (h : q.filled = false) : qRefs q = [] := by
  simp only [QRec.filled, Bool.or_eq_false_iff, isSome_eq_false_iff] at h
  obtain ⟨⟨⟨⟨⟨⟨⟨⟨⟨⟨⟨⟨⟨⟨⟨_, h2⟩, _⟩, _⟩, h5⟩, _⟩, _⟩, h8⟩, _⟩, _⟩, h11⟩, h12⟩, h13⟩, _⟩, _⟩, _⟩ := h
  simp [qRefs, h2, h5, h8, h11, h12, h13, oref, qreRefs]

theorem allRefs_push_qr (b : Blk) (q : QRec) (r : Ref) :
    r ∈ allRefs { b with qrs := b.qrs ++ [q] } ↔ r ∈ allRefs b ∨ r ∈ qRefs q := by
  simp only [allRefs, List.mem_append, List.flatMap_append, List.flatMap_cons, List.flatMap_nil, List.append_nil]
  simp only [or_assoc, or_left_comm, or_comm]

theorem allRefs_push_aec (b : Blk) (a : AEC × Nat) (r : Ref) :
    r ∈ allRefs { b with aecs := b.aecs ++ [a] } ↔ r ∈ allRefs b ∨ r ∈ aecRefs a := by
  simp only [allRefs, List.mem_append, List.flatMap_append, List.flatMap_cons, List.flatMap_nil, List.append_nil]
  simp only [or_assoc, or_left_comm, or_comm]

theorem allRefs_push_mm (b : Blk) (m : MMRec) (r : Ref) :
    r ∈ allRefs { b with mms := b.mms ++ [m] } ↔ r ∈ allRefs b ∨ r ∈ mmRefs m := by
  simp only [allRefs, List.mem_append, List.flatMap_append, List.flatMap_cons, List.flatMap_nil, List.append_nil]
  simp only [or_assoc]

theorem len_push_qr (b : Blk) (q : QRec) (t : Tid) : len { b with qrs := b.qrs ++ [q] } t = len b t := by cases t <;> rfl
theorem len_push_aec (b : Blk) (l : List (AEC × Nat)) (t : Tid) : len { b with aecs := l } t = len b t := by cases t <;> rfl
theorem len_push_mm (b : Blk) (m : MMRec) (t : Tid) : len { b with mms := b.mms ++ [m] } t = len b t := by cases t <;> rfl

theorem inv_addQR (h : Hints) (g : GQR) (st : Option Stats) (b : Blk) (hb : Closed b ∧ Reach b) :
    Closed (addQR h g st b) ∧ Reach (addQR h g st b) := by
  unfold addQR
  apply inv_setStats
  have hb0 : Closed { b with earliest := updEarliest b g.ts } ∧ Reach { b with earliest := updEarliest b g.ts } := hb
  have hs := spec_buildQ h g { b with earliest := updEarliest b g.ts }
  simp only
  by_cases hf : (buildQ h g { b with earliest := updEarliest b g.ts }).2.filled = true
  · simp only [hf, if_true]
    exact inv_of_spec hb0.1 hb0.2 hs (len_push_qr _ _) (allRefs_push_qr _ _)
  · simp only [hf, if_false]
    have hnf : (buildQ h g { b with earliest := updEarliest b g.ts }).2.filled = false := by simpa using hf
    refine inv_of_spec hb0.1 hb0.2 hs (fun _ => rfl) ?_
    intro r
    rw [qRefs_not_filled _ hnf]
    simp

theorem aec_refs_map (l : List (AEC × Nat)) (f : AEC × Nat → AEC × Nat) (hf : ∀ e, (f e).1 = e.1) :
    (l.map f).flatMap aecRefs = l.flatMap aecRefs := by
  induction l with
  | nil => rfl
  | cons e l ih => simp only [List.map_cons, List.flatMap_cons, ih, aecRefs, hf]

theorem inv_addAEC (h : Hints) (g : GAEC) (st : Option Stats) (b : Blk) (hb : Closed b ∧ Reach b) :
    Closed (addAEC h g st b) ∧ Reach (addAEC h g st b) := by
  unfold addAEC
  have h0 := inv_setStats st hb
  simp only
  split
  · exact h0
  · have hs := spec_addIp (setStats b st) g.ip
    split
    · rename_i hany
      -- the event is already counted: its entry refers to the same address
      refine inv_of_spec h0.1 h0.2 hs (len_push_aec _ _) ?_
      intro r
      obtain ⟨e, he, heq⟩ := List.any_eq_true.1 hany
      have heq' : e.1 = { aeType := g.aeType, aeCode := g.aeCode, ai := (addIp (setStats b st) g.ip).2, tf := g.transportFlags } := by
        simpa using heq
      have hmapeq := aec_refs_map (addIp (setStats b st) g.ip).1.aecs
        (fun e => if e.1 == ({ aeType := g.aeType, aeCode := g.aeCode, ai := (addIp (setStats b st) g.ip).2, tf := g.transportFlags } : AEC)
          then (e.1, e.2 + 1) else e) (by intro e; split <;> rfl)
      have hin : (Tid.ip, (addIp (setStats b st) g.ip).2) ∈ allRefs (addIp (setStats b st) g.ip).1 := by
        simp only [allRefs, List.mem_append, List.mem_flatMap]
        refine Or.inl (Or.inr ⟨e, he, ?_⟩)
        simp [aecRefs, heq']
      simp only [allRefs, hmapeq, List.mem_append, List.mem_singleton]
      constructor
      · intro hx; exact Or.inl hx
      · rintro (hx | rfl)
        · exact hx
        · simpa only [allRefs, List.mem_append] using hin
    · exact inv_of_spec h0.1 h0.2 hs (len_push_aec _ _) (allRefs_push_aec _ _)

theorem inv_addMM (h : Hints) (g : GMM) (st : Option Stats) (b : Blk) (hb : Closed b ∧ Reach b) :
    Closed (addMM h g st b) ∧ Reach (addMM h g st b) := by
  unfold addMM
  have h0 := inv_setStats st hb
  simp only
  split
  · exact h0
  · let B0 : Blk := { setStats b st with earliest := updEarliest (setStats b st) g.ts }
    have hB0 : Closed B0 ∧ Reach B0 := h0
    let B1 := (addOpt true g.clientIp addIp B0).1
    let B2 := (addOpt true g.serverIp addIp B1).1
    have s1 : Spec B0 B1 _ := spec_addOpt .ip true g.clientIp addIp B0 spec_addIp
    have s2 : Spec B1 B2 _ := spec_addOpt .ip true g.serverIp addIp B1 spec_addIp
    let D : MMD := { sai := (addOpt true g.serverIp addIp B1).2, port := g.serverPort, tf := g.transportFlags, payload := g.payload }
    have hD : mmdRefs D = oref .ip (addOpt true g.serverIp addIp B1).2 := rfl
    split
    · -- the message data is stored
      obtain ⟨s3, hin⟩ := spec_addMmd B2 D (fun r hr => s2.closedR r (by rw [hD] at hr; exact hr))
      have c := ((s1.trans s2).trans s3).weaken (R' := oref .ip (addOpt true g.clientIp addIp B0).2 ++ [(.mmd, (addMmd B2 D).2)]) (by
          intro r hr
          rcases List.mem_append.1 hr with h' | h'
          · rcases List.mem_append.1 h' with h'' | h''
            · exact Or.inr (List.mem_append_left _ h'')
            · exact Or.inl (hin r (by rw [hD]; exact h''))
          · exact Or.inr (List.mem_append_right _ h')) (by
          intro r hr
          rcases List.mem_append.1 hr with h' | h'
          · exact Nat.lt_of_lt_of_le (Nat.lt_of_lt_of_le (s1.closedR r h') (s2.mono _)) (s3.mono _)
          · exact s3.closedR r h')
      -- the message refers to a data entry, so it is stored
      simp only [Option.isSome_some, Bool.or_true, if_true]
      let M : MMRec := { ts := g.ts, cai := (addOpt true g.clientIp addIp B0).2, cport := g.clientPort, mdi := some (addMmd B2 D).2 }
      have hM : mmRefs M = oref .ip (addOpt true g.clientIp addIp B0).2 ++ [(.mmd, (addMmd B2 D).2)] := rfl
      refine inv_of_spec hB0.1 hB0.2 c (len_push_mm _ M) (fun r => (allRefs_push_mm _ M r).trans ?_)
      rw [hM]
    · rename_i hdf
      have hsai : (addOpt true g.serverIp addIp B1).2 = none := by
        simp only [Bool.or_eq_true, not_or, Bool.not_eq_true, isSome_eq_false_iff] at hdf
        exact hdf.1.1.1
      have c := (s1.trans s2).weaken (R' := oref .ip (addOpt true g.clientIp addIp B0).2) (by
          intro r hr
          rcases List.mem_append.1 hr with h' | h'
          · exact Or.inr h'
          · rw [hsai] at h'; cases h') (by
          intro r hr; exact Nat.lt_of_lt_of_le (s1.closedR r hr) (s2.mono _))
      split
      · let M : MMRec := { ts := g.ts, cai := (addOpt true g.clientIp addIp B0).2, cport := g.clientPort, mdi := none }
        have hM : mmRefs M = oref .ip (addOpt true g.clientIp addIp B0).2 := by simp [mmRefs, oref, M]
        refine inv_of_spec hB0.1 hB0.2 c (len_push_mm _ M) (fun r => (allRefs_push_mm _ M r).trans ?_)
        rw [hM]
      · rename_i hnf
        have hcai : (addOpt true g.clientIp addIp B0).2 = none := by
          simp only [Bool.or_eq_true, not_or, Bool.not_eq_true, isSome_eq_false_iff] at hnf
          exact hnf.1.1.2
        refine inv_of_spec hB0.1 hB0.2 c (fun _ => rfl) ?_
        intro r
        rw [hcai]
        simp only [oref, List.not_mem_nil, or_false]
        exact Iff.rfl

theorem inv_empty : Closed ({} : Blk) ∧ Reach ({} : Blk) := by
  refine ⟨fun r hr => by simp [allRefs] at hr, fun t j hj => ?_⟩
  cases t <;> simp [len] at hj

theorem inv_addRec (h : Hints) (b : Blk) (r : Rec) (hb : Closed b ∧ Reach b) : Closed (addRec h b r) ∧ Reach (addRec h b r) := by
  cases r with
  | qr g st => exact inv_addQR h g st b hb
  | aec g st => exact inv_addAEC h g st b hb
  | mm g st => exact inv_addMM h g st b hb

/-- every block built from records is referentially closed and has no unreachable table entry -/
theorem inv_build (h : Hints) (recs : List Rec) : Closed (build h recs) ∧ Reach (build h recs) := by
  unfold build
  have gen : ∀ b, (Closed b ∧ Reach b) → Closed (recs.foldl (addRec h) b) ∧ Reach (recs.foldl (addRec h) b) := by
    induction recs with
    | nil => intro b hb; exact hb
    | cons r rs ih => intro b hb; exact ih _ (inv_addRec h b r hb)
  exact gen {} inv_empty

end CdnsVerif.Model.Builder
