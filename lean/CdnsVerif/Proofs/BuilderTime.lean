/-
  Time members of the blocks built by `Model.Builder`: the block's earliest time is not later than any stored record
  time, hence every stored offset is non-negative and the reader recovers every record time exactly.
  (Connects `Props.C17` – proved over the small time model `Timestamp.BlockTime` – with the full builder.)
-/
import CdnsVerif.Proofs.Builder
import CdnsVerif.Props.C17

namespace CdnsVerif.Model.Builder
open CdnsVerif.Spec.Cbor CdnsVerif.Generated CdnsVerif.Model.Timestamp CdnsVerif.Props

/-- what the time model sees of a block -/
def timeView (b : Blk) : BlockTime := { earliest := b.earliest, qrs := b.qrs.map (·.ts), mms := b.mms.map (·.ts) }

theorem updEarliest_view (b : Blk) (ts : Option Ts) : updEarliest b ts = Timestamp.updEarliest (timeView b) ts := by
  unfold updEarliest Timestamp.updEarliest timeView
  cases ts with
  | none => rfl
  | some t => simp only [List.isEmpty_map]

theorem setStats_view (b : Blk) (st : Option Stats) : timeView (setStats b st) = timeView b := by
  cases st <;> rfl

/-- no building step touches the earliest time -/
theorem buildQ_earliest (h : Hints) (g : GQR) (x : Blk) : (buildQ h g x).1.earliest = x.earliest := by
  unfold buildQ
  simp only
  have a1 : ∀ {α : Type} (c : Bool) (o : Option α) (add : Blk → α → Blk × Nat) (y : Blk), (∀ y v, (add y v).1.earliest = y.earliest) →
      (addOpt c o add y).1.earliest = y.earliest := by
    intro α c o add y hadd; unfold addOpt; cases c <;> cases o <;> first | rfl | exact hadd y _
  have fold : ∀ (step : Blk × List Nat → GRR → Blk × List Nat), (∀ acc g', (step acc g').1.earliest = acc.1.earliest) →
      ∀ (gs : List GRR) (acc : Blk × List Nat), (gs.foldl step acc).1.earliest = acc.1.earliest := by
    intro step hs gs
    induction gs with
    | nil => intro acc; rfl
    | cons g' gs ih => intro acc; rw [List.foldl_cons, ih, hs]
  have ql : ∀ y v, (addGenericQlist y v).1.earliest = y.earliest := by
    intro y v; unfold addGenericQlist; exact fold qlStep (fun _ _ => rfl) v (y, [])
  have rl : ∀ y v, (addGenericRrlist h y v).1.earliest = y.earliest := by
    intro y v; unfold addGenericRrlist
    refine (fold (rrStep h) ?_ v (y, []))
    intro acc g'
    unfold rrStep
    simp only
    show (addOpt _ _ addNr _).1.earliest = _
    exact (a1 _ _ addNr _ (fun _ _ => rfl)).trans rfl
  have a2 : ∀ (c : Bool) (o : Option (List GRR)) (add : Blk → List GRR → Blk × Nat) (y : Blk), (∀ y v, (add y v).1.earliest = y.earliest) →
      (addSection c o add y).1.earliest = y.earliest := by
    intro c o add y hadd; unfold addSection; split
    · exact hadd y _
    · rfl
  have sg : ∀ y, (buildSig h g y).1.earliest = y.earliest := by
    intro y; unfold buildSig
    split
    · rfl
    · simp only
      split
      · show (addOpt _ _ addNr _).1.earliest = _
        rw [a1 _ _ addNr _ (fun _ _ => rfl), a1 _ _ addCt _ (fun _ _ => rfl), a1 _ _ addIp _ (fun _ _ => rfl)]
      · rw [a1 _ _ addNr _ (fun _ _ => rfl), a1 _ _ addCt _ (fun _ _ => rfl), a1 _ _ addIp _ (fun _ _ => rfl)]
  rw [a2 _ _ _ _ rl, a2 _ _ _ _ rl, a2 _ _ _ _ rl, a2 _ _ _ _ ql, a2 _ _ _ _ rl, a2 _ _ _ _ rl, a2 _ _ _ _ rl, a2 _ _ _ _ ql,
    a1 _ _ addNr _ (fun _ _ => rfl), a1 _ _ addNr _ (fun _ _ => rfl), sg, a1 _ _ addIp _ (fun _ _ => rfl)]

/-- `add_question_response_record` as the time model sees it -/
theorem addQR_view (h : Hints) (g : GQR) (st : Option Stats) (b : Blk) :
    timeView (addQR h g st b) = stepTime (timeView b)
      (.qr g.ts (on h.qrh QueryResponseHintsMask.time_offset) (buildQ h g { b with earliest := updEarliest b g.ts }).2.filled) := by
  let b0 : Blk := { b with earliest := updEarliest b g.ts }
  have haddQR : addQR h g st b = setStats (if (buildQ h g b0).2.filled = true
      then { (buildQ h g b0).1 with qrs := (buildQ h g b0).1.qrs ++ [(buildQ h g b0).2] } else (buildQ h g b0).1) st := rfl
  rw [haddQR, setStats_view]
  have hk := (keeps_buildQ h g b0).1
  have hts : (buildQ h g b0).2.ts = keep (on h.qrh QueryResponseHintsMask.time_offset) g.ts := rfl
  have hearl : (buildQ h g b0).1.earliest = updEarliest b g.ts := buildQ_earliest h g b0
  unfold stepTime
  simp only
  rw [← updEarliest_view]
  by_cases hf : (buildQ h g b0).2.filled = true
  · rw [if_pos hf]
    have hc : ((if on h.qrh QueryResponseHintsMask.time_offset = true then g.ts else none).isSome || (buildQ h g b0).2.filled) = true := by
      rw [hf]; simp
    rw [if_pos hc]
    unfold timeView
    simp only [List.map_append, List.map_cons, List.map_nil, hk.qrs, hk.mms, hearl, hts, keep]
    rfl
  · rw [if_neg hf]
    have hfalse : (buildQ h g b0).2.filled = false := by simpa using hf
    have hnots : (if on h.qrh QueryResponseHintsMask.time_offset = true then g.ts else none).isSome = false := by
      -- a stored time would make the record filled
      have : (buildQ h g b0).2.ts.isSome = false := by
        have := hfalse
        simp only [QRec.filled, Bool.or_eq_false_iff] at this
        exact this.1.1.1.1.1.1.1.1.1.1.1.1.1.1.1
      rw [hts] at this
      exact this
    have hc : ¬ ((if on h.qrh QueryResponseHintsMask.time_offset = true then g.ts else none).isSome || (buildQ h g b0).2.filled) = true := by
      rw [hnots, hfalse]; simp
    rw [if_neg hc]
    unfold timeView
    simp only [hk.qrs, hk.mms, hearl]
    rfl

theorem addOpt_view {α : Type} (c : Bool) (o : Option α) (add : Blk → α → Blk × Nat) (y : Blk)
    (hadd : ∀ y v, timeView (add y v).1 = timeView y) : timeView (addOpt c o add y).1 = timeView y := by
  unfold addOpt; cases c <;> cases o <;> first | rfl | exact hadd y _

/-- whether `add_malformed_message` stores an item (any member present) -/
def mmStored (h : Hints) (g : GMM) (st : Option Stats) (b : Blk) : Bool :=
  (addMM h g st b).mms.length != b.mms.length

/-- `add_malformed_message` as the time model sees it -/
theorem addMM_view (h : Hints) (g : GMM) (st : Option Stats) (b : Blk) :
    ∃ other, timeView (addMM h g st b) = stepTime (timeView b) (.mm g.ts (on h.odh OtherDataHintsMask.malformed_messages) other) := by
  unfold addMM
  simp only
  by_cases hen : on h.odh OtherDataHintsMask.malformed_messages = true
  · simp only [hen, Bool.not_true, Bool.false_eq_true, if_false]
    let b0 := setStats b st
    let b1 : Blk := { b0 with earliest := updEarliest b0 g.ts }
    let r1 := addOpt true g.clientIp addIp b1
    let r2 := addOpt true g.serverIp addIp r1.1
    let d : MMD := { sai := r2.2, port := g.serverPort, tf := g.transportFlags, payload := g.payload }
    let r3 : Blk × Option Nat := if (d.sai.isSome || d.port.isSome || d.tf.isSome || d.payload.isSome) = true
      then (let r := addMmd r2.1 d; (r.1, some r.2)) else (r2.1, none)
    have v1 : timeView r1.1 = timeView b1 := addOpt_view _ _ addIp _ (fun _ _ => rfl)
    have v2 : timeView r2.1 = timeView b1 := (addOpt_view _ _ addIp _ (fun _ _ => rfl)).trans v1
    have v3 : timeView r3.1 = timeView b1 := by
      dsimp only [r3]
      split
      · exact v2
      · exact v2
    have vb1 : timeView b1 = { timeView b with earliest := Timestamp.updEarliest (timeView b) g.ts } := by
      show ({ earliest := updEarliest b0 g.ts, qrs := b0.qrs.map (·.ts), mms := b0.mms.map (·.ts) } : BlockTime) = _
      have e0 : timeView b0 = timeView b := setStats_view b st
      have : updEarliest b0 g.ts = Timestamp.updEarliest (timeView b) g.ts := by rw [updEarliest_view, e0]
      rw [this]
      have q : b0.qrs = b.qrs := by cases st <;> rfl
      have m : b0.mms = b.mms := by cases st <;> rfl
      rw [q, m]; rfl
    refine ⟨r1.2.isSome || g.clientPort.isSome || r3.2.isSome, ?_⟩
    unfold stepTime
    simp only [Bool.not_true, Bool.false_eq_true, if_false]
    show timeView (if (g.ts.isSome || r1.2.isSome || g.clientPort.isSome || r3.2.isSome) = true then { r3.1 with mms := r3.1.mms ++ [_] } else r3.1) = _
    by_cases hs : (g.ts.isSome || r1.2.isSome || g.clientPort.isSome || r3.2.isSome) = true
    · rw [if_pos hs]
      have hs' : (g.ts.isSome || (r1.2.isSome || g.clientPort.isSome || r3.2.isSome)) = true := by
        simpa [Bool.or_assoc] using hs
      rw [if_pos hs']
      have : timeView { r3.1 with mms := r3.1.mms ++ [({ ts := g.ts, cai := r1.2, cport := g.clientPort, mdi := r3.2 } : MMRec)] }
          = { timeView r3.1 with mms := (timeView r3.1).mms ++ [g.ts] } := by
        unfold timeView; simp only [List.map_append, List.map_cons, List.map_nil]
      rw [this, v3, vb1]
    · rw [if_neg hs]
      have hs' : ¬ (g.ts.isSome || (r1.2.isSome || g.clientPort.isSome || r3.2.isSome)) = true := by
        simpa [Bool.or_assoc] using hs
      rw [if_neg hs', v3, vb1]
  · have hen' : on h.odh OtherDataHintsMask.malformed_messages = false := by simpa using hen
    refine ⟨false, ?_⟩
    simp only [hen', Bool.not_false, if_true]
    unfold stepTime
    simp only [Bool.not_false, if_true]
    exact setStats_view b st

/-- address events carry no time -/
theorem addAEC_view (h : Hints) (g : GAEC) (st : Option Stats) (b : Blk) : timeView (addAEC h g st b) = timeView b := by
  unfold addAEC
  simp only
  split
  · exact setStats_view b st
  · split
    · exact setStats_view b st
    · exact setStats_view b st

/-- the time of a buffered record -/
def Rec.ts : Rec → Option Ts
  | .qr g _ => g.ts
  | .aec _ _ => none
  | .mm g _ => g.ts

def opTs : TimeOp → Option Ts
  | .qr ts _ _ => ts
  | .mm ts _ _ => ts
  | .qrItem ts _ => ts
  | .mmItem ts _ => ts
  | .clear => none

/-- every step of the builder is a step of the time model (or leaves the time members alone) -/
theorem addRec_view (h : Hints) (b : Blk) (r : Rec) :
    timeView (addRec h b r) = timeView b ∨ ∃ op, opTs op = r.ts ∧ timeView (addRec h b r) = stepTime (timeView b) op := by
  cases r with
  | qr g st => exact .inr ⟨_, rfl, addQR_view h g st b⟩
  | aec g st => exact .inl (addAEC_view h g st b)
  | mm g st => obtain ⟨o, ho⟩ := addMM_view h g st b; exact .inr ⟨_, rfl, ho⟩

/-- a property of times holds for the earliest time and for every stored time -/
def AllP (P : Ts → Prop) (b : BlockTime) : Prop := P b.earliest ∧ ∀ t ∈ b.times, P t

theorem updEarliest_P (P : Ts → Prop) (b : BlockTime) (ts : Option Ts) (hb : P b.earliest) (hts : ∀ t, ts = some t → P t) :
    P (Timestamp.updEarliest b ts) := by
  unfold Timestamp.updEarliest
  cases ts with
  | none => exact hb
  | some t => simp only; split
              · exact hts t rfl
              · exact hb

theorem times_push_qr (b : BlockTime) (e : Ts) (s : Option Ts) (t : Ts) :
    t ∈ ({ b with earliest := e, qrs := b.qrs ++ [s] } : BlockTime).times → t ∈ b.times ∨ s = some t := by
  unfold BlockTime.times
  simp only [List.filterMap_append, List.mem_append, List.mem_filterMap, List.mem_cons, List.not_mem_nil, or_false, id]
  rintro ((⟨a, ha, rfl⟩ | ⟨a, rfl, rfl⟩) | ⟨a, ha, rfl⟩)
  · exact .inl (.inl ⟨_, ha, rfl⟩)
  · exact .inr rfl
  · exact .inl (.inr ⟨_, ha, rfl⟩)

theorem times_push_mm (b : BlockTime) (e : Ts) (s : Option Ts) (t : Ts) :
    t ∈ ({ b with earliest := e, mms := b.mms ++ [s] } : BlockTime).times → t ∈ b.times ∨ s = some t := by
  unfold BlockTime.times
  simp only [List.filterMap_append, List.mem_append, List.mem_filterMap, List.mem_cons, List.not_mem_nil, or_false, id]
  rintro (⟨a, ha, rfl⟩ | (⟨a, ha, rfl⟩ | ⟨a, rfl, rfl⟩))
  · exact .inl (.inl ⟨_, ha, rfl⟩)
  · exact .inl (.inr ⟨_, ha, rfl⟩)
  · exact .inr rfl

theorem step_allP (P : Ts → Prop) (h0 : P ⟨0, 0⟩) (b : BlockTime) (hb : AllP P b) (op : TimeOp) (hop : ∀ t, opTs op = some t → P t) :
    AllP P (stepTime b op) := by
  have he := fun ts (hts : ∀ t, ts = some t → P t) => updEarliest_P P b ts hb.1 hts
  cases op with
  | qr ts th other =>
    unfold stepTime; simp only
    by_cases hc : ((if th = true then ts else none).isSome || other) = true
    · rw [if_pos hc]
      refine ⟨he ts hop, fun t ht => ?_⟩
      rcases times_push_qr b _ _ t ht with h1 | h1
      · exact hb.2 t h1
      · cases th with
        | false => simp at h1
        | true => exact hop t (by simpa [opTs] using h1)
    · rw [if_neg hc]
      exact ⟨he ts hop, hb.2⟩
  | mm ts en other =>
    unfold stepTime; simp only
    split
    · exact hb
    · split
      · refine ⟨he ts hop, fun t ht => ?_⟩
        rcases times_push_mm b _ _ t ht with h1 | h1
        · exact hb.2 t h1
        · exact hop t h1
      · exact ⟨he ts hop, hb.2⟩
  | qrItem ts other =>
    unfold stepTime; simp only
    split
    · refine ⟨he ts hop, fun t ht => ?_⟩
      rcases times_push_qr b _ _ t ht with h1 | h1
      · exact hb.2 t h1
      · exact hop t h1
    · exact hb
  | mmItem ts other =>
    unfold stepTime; simp only
    split
    · refine ⟨he ts hop, fun t ht => ?_⟩
      rcases times_push_mm b _ _ t ht with h1 | h1
      · exact hb.2 t h1
      · exact hop t h1
    · exact hb
  | clear => exact ⟨h0, by intro t ht; simp [stepTime, BlockTime.init, BlockTime.times] at ht⟩

/-- Both invariants of the time members hold in every block the builder produces: the earliest time is not later than any
    stored time, and every time in the block (earliest and stored) is a time some buffered record carried, or the initial
    zero time. -/
theorem foldl_time_inv (P : Ts → Prop) (h0 : P ⟨0, 0⟩) (h : Hints) : ∀ (recs : List Rec) (b : Blk),
    C17.TimeInv (timeView b) ∧ AllP P (timeView b) → (∀ r ∈ recs, ∀ t, r.ts = some t → P t) →
    C17.TimeInv (timeView (recs.foldl (addRec h) b)) ∧ AllP P (timeView (recs.foldl (addRec h) b)) := by
  intro recs
  induction recs with
  | nil => intro b hb _; exact hb
  | cons r recs ih =>
    intro b hb hr
    rw [List.foldl_cons]
    refine ih _ ?_ (fun r' hr' => hr r' (List.mem_cons_of_mem _ hr'))
    rcases addRec_view h b r with e | ⟨op, hop, e⟩
    · rw [e]; exact hb
    · rw [e]
      exact ⟨C17.step_inv _ hb.1 op, step_allP P h0 _ hb.2 op (fun t ht => hr r List.mem_cons_self t (hop ▸ ht))⟩

theorem build_time_inv (P : Ts → Prop) (h0 : P ⟨0, 0⟩) (h : Hints) (recs : List Rec) (hrecs : ∀ r ∈ recs, ∀ t, r.ts = some t → P t) :
    C17.TimeInv (timeView (build h recs)) ∧ AllP P (timeView (build h recs)) :=
  foldl_time_inv P h0 h recs {} ⟨by intro t ht; simp [timeView, BlockTime.times] at ht, h0,
    by intro t ht; simp [timeView, BlockTime.times] at ht⟩ hrecs

/-- the written unsigned offset of a time not earlier than the reference: below 2^63, and the reader's addition recovers the time -/
theorem offset_written (t e : Ts) (r : Nat) (hr : 1 ≤ r) (ht : C17.InRange t r) (he : C17.InRange e r)
    (htn : t.ticks < r) (hen : e.ticks < r) (hle : lt t e = false) :
    ∃ n, offsetOf t e r = some n ∧ n < two63 ∧ addTimeOffset e (toI64 n) r = .ok t := by
  have hge : ¬ C17.inst t r < C17.inst e r := by
    intro hlt
    have := (C17.lt_iff t e r htn hen).2 hlt
    rw [hle] at this; cases this
  have hoff := C17.offset_exact t e r hr ht he
  have hadd := C17.add_inverse t e r hr ht he htn
  refine ⟨C17.inst t r - C17.inst e r, ?_, ?_, ?_⟩
  · unfold offsetOf
    rw [hoff]
    simp only [ofI64]
    congr 1
    have h63 : C17.inst t r < two63 := ht
    have : ((C17.inst t r : Int) - (C17.inst e r : Int)) % (two64 : Int) = ((C17.inst t r - C17.inst e r : Nat) : Int) := by
      unfold two63 at h63; unfold two64
      omega
    rw [this]; rfl
  · have h63 : C17.inst t r < two63 := ht
    omega
  · have h63 : C17.inst t r < two63 := ht
    have : toI64 (C17.inst t r - C17.inst e r) = (C17.inst t r : Int) - (C17.inst e r : Int) := by
      unfold toI64
      rw [if_pos (by omega)]
      omega
    rw [this]; exact hadd

/-- Every time stored in a block built from in-range records is written as an unsigned offset below 2^63 from the block's
    earliest time, and adding that offset back to the earliest time gives the record's time exactly. -/
theorem build_times_recovered (h : Hints) (recs : List Rec) (r : Nat) (hr : 1 ≤ r)
    (hrecs : ∀ rec ∈ recs, ∀ t, rec.ts = some t → C17.InRange t r ∧ t.ticks < r) :
    ∀ t ∈ (timeView (build h recs)).times,
      ∃ n, offsetOf t (build h recs).earliest r = some n ∧ n < two63 ∧ addTimeOffset (build h recs).earliest (toI64 n) r = .ok t := by
  intro t ht
  have hinv := build_time_inv (fun t => C17.InRange t r ∧ t.ticks < r)
    ⟨by show (0 * r + 0 : Nat) < two63; unfold two63; omega, by show (0 : Nat) < r; omega⟩ h recs hrecs
  have hle := hinv.1 t ht
  have hP := hinv.2
  exact offset_written t (build h recs).earliest r hr (hP.2 t ht).1 hP.1.1 (hP.2 t ht).2 hP.1.2 hle

end CdnsVerif.Model.Builder
