/-
  Time members of the blocks built by `Model.Builder`: the block's earliest time is not later than any stored record
  time, hence every stored offset is non-negative and the reader recovers every record time exactly.
  (Connects `Props.C17` – proved over the small time model `Timestamp.BlockTime` – with the full builder.)
-/
import CdnsVerif.Proofs.Builder
import CdnsVerif.Props.C17

namespace CdnsVerif.Model.Builder
open CdnsVerif.Spec.Cbor CdnsVerif.Generated CdnsVerif.Model.Timestamp CdnsVerif.Props

/-- what the time model sees of a block -/
def timeView (b : Blk) : BlockTime := { earliest := b.earliest, qrs := b.qrs.map (·.ts), mms := b.mms.map (·.ts) }

theorem updEarliest_view (b : Blk) (ts : Option Ts) : updEarliest b ts = Timestamp.updEarliest (timeView b) ts := by
  unfold updEarliest Timestamp.updEarliest timeView
  cases ts with
  | none => rfl
  | some t => simp only [List.isEmpty_map]

theorem setStats_view (b : Blk) (st : Option Stats) : timeView (setStats b st) = timeView b := by
  cases st <;> rfl

/-- `add_question_response_record` as the time model sees it -/
theorem addQR_view (h : Hints) (g : GQR) (st : Option Stats) (b : Blk) :
    timeView (addQR h g st b) = stepTime (timeView b)
      (.qr g.ts (on h.qrh QueryResponseHintsMask.time_offset) (buildQ h g { b with earliest := updEarliest b g.ts }).2.filled) := by
  let b0 : Blk := { b with earliest := updEarliest b g.ts }
  have haddQR : addQR h g st b = setStats (if (buildQ h g b0).2.filled = true
      then { (buildQ h g b0).1 with qrs := (buildQ h g b0).1.qrs ++ [(buildQ h g b0).2] } else (buildQ h g b0).1) st := rfl
  rw [haddQR, setStats_view]
  have hk := (keeps_buildQ h g b0).1
  have hts : (buildQ h g b0).2.ts = keep (on h.qrh QueryResponseHintsMask.time_offset) g.ts := rfl
  have hearl : (buildQ h g b0).1.earliest = updEarliest b g.ts := by
    -- no building step touches the earliest time
    have : ∀ (x : Blk), (buildQ h g x).1.earliest = x.earliest := by
      intro x
      unfold buildQ
      simp only
      have a1 : ∀ {α : Type} (c : Bool) (o : Option α) (add : Blk → α → Blk × Nat) (y : Blk), (∀ y v, (add y v).1.earliest = y.earliest) →
          (addOpt c o add y).1.earliest = y.earliest := by
        intro α c o add y hadd; unfold addOpt; cases c <;> cases o <;> first | rfl | exact hadd y _
      have fold : ∀ (step : Blk × List Nat → GRR → Blk × List Nat), (∀ acc g', (step acc g').1.earliest = acc.1.earliest) →
          ∀ (gs : List GRR) (acc : Blk × List Nat), (gs.foldl step acc).1.earliest = acc.1.earliest := by
        intro step hs gs
        induction gs with
        | nil => intro acc; rfl
        | cons g' gs ih => intro acc; rw [List.foldl_cons, ih, hs]
      have ql : ∀ y v, (addGenericQlist y v).1.earliest = y.earliest := by
        intro y v; unfold addGenericQlist; exact fold qlStep (fun _ _ => rfl) v (y, [])
      have rl : ∀ y v, (addGenericRrlist h y v).1.earliest = y.earliest := by
        intro y v; unfold addGenericRrlist
        refine (fold (rrStep h) ?_ v (y, []))
        intro acc g'
        unfold rrStep
        simp only
        show (addOpt _ _ addNr _).1.earliest = _
        exact (a1 _ _ addNr _ (fun _ _ => rfl)).trans rfl
      have a2 : ∀ (c : Bool) (o : Option (List GRR)) (add : Blk → List GRR → Blk × Nat) (y : Blk), (∀ y v, (add y v).1.earliest = y.earliest) →
          (addSection c o add y).1.earliest = y.earliest := by
        intro c o add y hadd; unfold addSection; split
        · exact hadd y _
        · rfl
      have sg : ∀ y, (buildSig h g y).1.earliest = y.earliest := by
        intro y; unfold buildSig
        split
        · rfl
        · simp only
          split
          · show (addOpt _ _ addNr _).1.earliest = _
            rw [a1 _ _ addNr _ (fun _ _ => rfl), a1 _ _ addCt _ (fun _ _ => rfl), a1 _ _ addIp _ (fun _ _ => rfl)]
          · rw [a1 _ _ addNr _ (fun _ _ => rfl), a1 _ _ addCt _ (fun _ _ => rfl), a1 _ _ addIp _ (fun _ _ => rfl)]
      rw [a2 _ _ _ _ rl, a2 _ _ _ _ rl, a2 _ _ _ _ rl, a2 _ _ _ _ ql, a2 _ _ _ _ rl, a2 _ _ _ _ rl, a2 _ _ _ _ rl, a2 _ _ _ _ ql,
        a1 _ _ addNr _ (fun _ _ => rfl), a1 _ _ addNr _ (fun _ _ => rfl), sg, a1 _ _ addIp _ (fun _ _ => rfl)]
    exact this b0
  unfold stepTime
  simp only
  rw [← updEarliest_view]
  by_cases hf : (buildQ h g b0).2.filled = true
  · rw [if_pos hf]
    have hc : ((if on h.qrh QueryResponseHintsMask.time_offset = true then g.ts else none).isSome || (buildQ h g b0).2.filled) = true := by
      rw [hf]; simp
    rw [if_pos hc]
    unfold timeView
    simp only [List.map_append, List.map_cons, List.map_nil, hk.qrs, hk.mms, hearl, hts, keep]
    rfl
  · rw [if_neg hf]
    have hfalse : (buildQ h g b0).2.filled = false := by simpa using hf
    have hnots : (if on h.qrh QueryResponseHintsMask.time_offset = true then g.ts else none).isSome = false := by
      -- a stored time would make the record filled
      have : (buildQ h g b0).2.ts.isSome = false := by
        have := hfalse
        simp only [QRec.filled, Bool.or_eq_false_iff] at this
        exact this.1.1.1.1.1.1.1.1.1.1.1.1.1.1.1
      rw [hts] at this
      exact this
    have hc : ¬ ((if on h.qrh QueryResponseHintsMask.time_offset = true then g.ts else none).isSome || (buildQ h g b0).2.filled) = true := by
      rw [hnots, hfalse]; simp
    rw [if_neg hc]
    unfold timeView
    simp only [hk.qrs, hk.mms, hearl]
    rfl

end CdnsVerif.Model.Builder
