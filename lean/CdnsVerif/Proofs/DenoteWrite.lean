/-
  What the model writers emit denotes the value written: `denote k (toItem k v) = some v` for every
  conforming value.  With `rd_all` (the reader computes `denote`) this re-derives the round trip, and
  it lets the file-level theorems talk about the exporter's real layout (indefinite block array).
-/
import CdnsVerif.Proofs.Denote

namespace CdnsVerif.Model.Schema
open CdnsVerif.Spec.Cbor CdnsVerif.Model CdnsVerif.Model.Decoder CdnsVerif.Props

theorem intOf_intItem (key : Int) (h : keyOk key) : intOf (intItem key) = some key := by
  unfold intItem keyOk at *
  by_cases hn : key < 0
  · simp only [hn, if_true, intOf]
    have : ¬ ((-1 - key).toNat > int64Max) := by unfold int64Max; omega
    simp only [this, if_false]
    congr 1; omega
  · simp only [hn, if_false, intOf]
    have : ¬ (key.toNat > int64Max) := by unfold int64Max; omega
    simp only [this, if_false]
    congr 1; omega

def DT (n : Nat) : Prop :=
  (∀ k v, need v ≤ n → Conforms k v → denote k (toItem k v) = some v) ∧
  (∀ k vs, needList vs ≤ n → ConformsList k vs → denoteList k (toItems k vs) = some vs) ∧
  (∀ fs ms acc, needPairs ms ≤ n → ConformsPairs fs ms → (acc.map (·.1) ++ ms.map (·.1)).Nodup →
      denotePairs fs (toPairs fs ms) acc = some (acc ++ ms))

theorem dt_all (n : Nat) : DT n := by
  induction n with
  | zero =>
    refine ⟨fun k v h _ => by have := need_pos v; omega, ?_, ?_⟩
    · intro k vs h _
      cases vs with
      | nil => simp [toItems, denoteList]
      | cons v vs => simp only [needList] at h; omega
    · intro fs ms acc h _ _
      cases ms with
      | nil => simp [toPairs, denotePairs]
      | cons m ms => obtain ⟨key, v⟩ := m; simp only [needPairs] at h; omega
  | succ n ih =>
    obtain ⟨ihA, ihB, ihC⟩ := ih
    refine ⟨?_, ?_, ?_⟩
    · intro k v hn hc
      cases k with
      | uint bits =>
        cases v <;> simp only [Conforms] at hc
        rename_i x
        obtain ⟨h0, h1, h2⟩ := hc
        simp only [toItem, denote]
        have hnat : x.toNat < 2 ^ bits := by
          have : ((x.toNat : Nat) : Int) < ((2 ^ bits : Nat) : Int) := by
            rw [Int.toNat_of_nonneg h0]; exact_mod_cast h1
          exact_mod_cast this
        rw [Nat.mod_eq_of_lt hnat, Int.toNat_of_nonneg h0]
      | int64 =>
        cases v <;> simp only [Conforms] at hc
        rename_i x
        simp only [toItem]
        have hk := intOf_intItem x hc
        unfold intItem at hk ⊢
        by_cases hneg : x < 0
        · simp only [hneg, if_true] at hk ⊢
          simp only [denote, hk, Option.map_some]
        · simp only [hneg, if_false] at hk ⊢
          simp only [denote, hk, Option.map_some]
      | tstr => cases v <;> simp only [Conforms] at hc; simp only [toItem, denote]
      | bstr => cases v <;> simp only [Conforms] at hc; simp only [toItem, denote]
      | bool =>
        cases v <;> simp only [Conforms] at hc
        rename_i b
        cases b <;> simp [toItem, denote]
      | arr ek =>
        cases v <;> simp only [Conforms] at hc
        rename_i vs
        simp only [need] at hn
        simp only [toItem, denote, ihB ek vs (by omega) hc.2, Option.map_some]
      | struct fs =>
        cases v <;> simp only [Conforms] at hc
        rename_i ms
        obtain ⟨_, hcp, hnd, hreq, hfnd, hsub⟩ := hc
        simp only [need] at hn
        have := ihC fs ms [] (by omega) hcp (by simpa using hnd)
        simp only [List.nil_append] at this
        simp only [toItem, denote, this, hreq, if_true, canon_id fs ms hfnd hsub]
    · intro k vs hn hc
      cases vs with
      | nil => simp [toItems, denoteList]
      | cons v vs =>
        simp only [needList] at hn
        simp only [ConformsList] at hc
        simp only [toItems, denoteList, ihA k v (by omega) hc.1, ihB k vs (by omega) hc.2]
    · intro fs ms acc hn hc hnd
      cases ms with
      | nil => simp [toPairs, denotePairs]
      | cons m ms =>
        obtain ⟨key, v⟩ := m
        simp only [needPairs] at hn
        simp only [ConformsPairs] at hc
        obtain ⟨hk, ⟨f, hf, hcv⟩, hrest⟩ := hc
        unfold toPairs
        rw [hf]
        simp only [denotePairs, intOf_intItem key hk, hf, ihA f.kind v (by omega) hcv]
        have hnew : key ∉ acc.map (·.1) := by
          intro hm
          simp only [List.map_cons] at hnd
          have := (List.nodup_append.1 hnd).2.2 key hm key (by simp)
          exact this rfl
        rw [setKey_new acc key v hnew]
        have hnd' : ((acc ++ [(key, v)]).map (·.1) ++ ms.map (·.1)).Nodup := by
          simpa [List.map_append, List.append_assoc] using hnd
        rw [ihC fs ms (acc ++ [(key, v)]) (by omega) hrest hnd']
        simp

/-- what a struct writer emits denotes the value written -/
theorem denote_toItem (k : Kind) (v : Val) (hc : Conforms k v) : denote k (toItem k v) = some v :=
  (dt_all (need v)).1 k v (Nat.le_refl _) hc

theorem denoteList_toItems (k : Kind) (vs : List Val) (hc : ConformsList k vs) : denoteList k (toItems k vs) = some vs :=
  (dt_all (needList vs)).2.1 k vs (Nat.le_refl _) hc

end CdnsVerif.Model.Schema
