/-
  The rewrites RFC 8949/8618 regard as "the same data" do not change the denotation `denote`:
  head widths, definite ↔ indefinite containers, chunked strings, unknown members, permutation
  of map members, and all of these inside nested members (congruence).  Together with
  `rd_all` (the byte-level reader computes `denote`) this gives Props/C08.
-/
import CdnsVerif.Proofs.Denote

namespace CdnsVerif.Model.Schema
open CdnsVerif.Spec.Cbor CdnsVerif.Model CdnsVerif.Model.Decoder

/-! ### widths, indefinite lengths, chunking -/

theorem denote_uint_width (k : Kind) (w w' : Width) (n : Nat) : denote k (.uint w n) = denote k (.uint w' n) := by
  cases k <;> simp only [denote, intOf]

theorem denote_nint_width (k : Kind) (w w' : Width) (n : Nat) : denote k (.nint w n) = denote k (.nint w' n) := by
  cases k <;> simp only [denote, intOf]

theorem intOf_uint_width (w w' : Width) (n : Nat) : intOf (.uint w n) = intOf (.uint w' n) := rfl
theorem intOf_nint_width (w w' : Width) (n : Nat) : intOf (.nint w n) = intOf (.nint w' n) := rfl

theorem denote_tstr_width (k : Kind) (w w' : Width) (b : Bytes) : denote k (.tstr w b) = denote k (.tstr w' b) := by
  cases k <;> simp only [denote]

theorem denote_bstr_width (k : Kind) (w w' : Width) (b : Bytes) : denote k (.bstr w b) = denote k (.bstr w' b) := by
  cases k <;> simp only [denote]

theorem denote_tstr_chunked (k : Kind) (w : Width) (cs : List Chunk) : denote k (.tstr w (chunksVal cs)) = denote k (.tstrI cs) := by
  cases k <;> simp only [denote]

theorem denote_bstr_chunked (k : Kind) (w : Width) (cs : List Chunk) : denote k (.bstr w (chunksVal cs)) = denote k (.bstrI cs) := by
  cases k <;> simp only [denote]

theorem denote_arr_width (k : Kind) (w w' : Width) (items : List Item) : denote k (.arr w items) = denote k (.arr w' items) := by
  cases k <;> simp only [denote]

theorem denote_arr_indef (k : Kind) (w : Width) (items : List Item) : denote k (.arr w items) = denote k (.arrI items) := by
  cases k <;> simp only [denote]

theorem denote_map_width (k : Kind) (w w' : Width) (items : List Item) : denote k (.map w items) = denote k (.map w' items) := by
  cases k <;> simp only [denote]

theorem denote_map_indef (k : Kind) (w : Width) (items : List Item) : denote k (.map w items) = denote k (.mapI items) := by
  cases k <;> simp only [denote]

/-! ### congruence: rewriting inside the elements of an array -/

/-- element-wise relation of two lists -/
inductive AllRel {α β : Type} (r : α → β → Prop) : List α → List β → Prop
  | nil : AllRel r [] []
  | cons {a b l l'} : r a b → AllRel r l l' → AllRel r (a :: l) (b :: l')

theorem denoteList_congr (k : Kind) (items items' : List Item)
    (h : AllRel (fun i i' => denote k i = denote k i') items items') : denoteList k items = denoteList k items' := by
  induction h with
  | nil => rfl
  | cons h1 _ ih => simp only [denoteList, h1, ih]

theorem denote_arr_congr (ek : Kind) (w w' : Width) (items items' : List Item)
    (h : AllRel (fun i i' => denote ek i = denote ek i') items items') :
    denote (.arr ek) (.arr w items) = denote (.arr ek) (.arr w' items') := by
  simp only [denote, denoteList_congr ek items items' h]

/-! ### maps: members as a list of (key item, value item) pairs -/

/-- the flat key₁, value₁, key₂, value₂, … list of `Item.map` -/
def flat : List (Item × Item) → List Item
  | [] => []
  | p :: ps => p.1 :: p.2 :: flat ps

theorem flat_length (ps : List (Item × Item)) : (flat ps).length = 2 * ps.length := by
  induction ps with
  | nil => rfl
  | cons p ps ih => simp only [flat, List.length_cons, ih]; omega

/-- what one member does to the struct being filled: `none` – the reader throws; `some none` –
    ignored (unknown key); `some (some (key, v))` – member `key` is set to `v` -/
def effect (fs : List Field) (p : Item × Item) : Option (Option (Int × Val)) :=
  match intOf p.1 with
  | none => none
  | some key =>
    match fs.find? (fun f => f.key == key) with
    | some f =>
      match denote f.kind p.2 with
      | some v => some (some (key, v))
      | none => none
    | none => some none

def applyEffect (acc : List (Int × Val)) : Option (Int × Val) → List (Int × Val)
  | none => acc
  | some (key, v) => setKey acc key v

def runPairs (fs : List Field) : List (Item × Item) → List (Int × Val) → Option (List (Int × Val))
  | [], acc => some acc
  | p :: ps, acc =>
    match effect fs p with
    | none => none
    | some e => runPairs fs ps (applyEffect acc e)

theorem denotePairs_flat (fs : List Field) (ps : List (Item × Item)) (acc : List (Int × Val)) :
    denotePairs fs (flat ps) acc = runPairs fs ps acc := by
  induction ps generalizing acc with
  | nil => simp [flat, denotePairs, runPairs]
  | cons p ps ih =>
    simp only [flat, denotePairs, runPairs, effect]
    cases intOf p.1 with
    | none => rfl
    | some key =>
      simp only
      cases fs.find? (fun f => f.key == key) with
      | none => simp only [applyEffect]; exact ih acc
      | some f =>
        simp only
        cases denote f.kind p.2 with
        | none => rfl
        | some v => simp only [applyEffect]; exact ih _

/-! ### lookup equivalence of the member lists -/

def lk : List (Int × Val) → Int → Option (Int × Val)
  | [], _ => none
  | e :: ms, key => if e.1 = key then some e else lk ms key
def LkEq (a b : List (Int × Val)) : Prop := ∀ key, lk a key = lk b key

theorem lk_eq_find (ms : List (Int × Val)) (key : Int) : lk ms key = ms.find? (fun e => e.1 == key) := by
  induction ms with
  | nil => rfl
  | cons e ms ih =>
    by_cases h : e.1 = key
    · simp [lk, List.find?, h]
    · have : (e.1 == key) = false := beq_false_of_ne h
      simp [lk, List.find?, h, this, ih]

theorem LkEq.refl (a : List (Int × Val)) : LkEq a a := fun _ => rfl
theorem LkEq.trans {a b c : List (Int × Val)} (h1 : LkEq a b) (h2 : LkEq b c) : LkEq a c := fun k => (h1 k).trans (h2 k)

theorem any_eq_lk (ms : List (Int × Val)) (key : Int) : ms.any (fun e => e.1 == key) = (lk ms key).isSome := by
  induction ms with
  | nil => rfl
  | cons e ms ih =>
    by_cases h : e.1 = key
    · simp [lk, h]
    · have : (e.1 == key) = false := beq_false_of_ne h
      simp [lk, h, this, ih]

theorem lk_map_replace (acc : List (Int × Val)) (key : Int) (v : Val) (κ : Int) :
    lk (acc.map fun e => if e.1 == key then (key, v) else e) κ =
      if κ = key then (if (lk acc key).isSome then some (key, v) else none) else lk acc κ := by
  induction acc with
  | nil => simp [lk]
  | cons e acc ih =>
    obtain ⟨ek, ev⟩ := e
    simp only [beq_iff_eq] at ih
    by_cases hek : ek = key
    · subst hek
      by_cases hκ : κ = ek
      · subst hκ; simp [lk]
      · have : ¬ ek = κ := fun h => hκ h.symm
        simp [lk, this, hκ, ih]
    · have hb : (ek == key) = false := beq_false_of_ne hek
      by_cases heκ : ek = κ
      · subst heκ
        simp [lk, hb, hek]
      · simp [lk, hb, hek, heκ, ih]

theorem lk_append_single (acc : List (Int × Val)) (key : Int) (v : Val) (κ : Int) :
    lk (acc ++ [(key, v)]) κ = match lk acc κ with
      | some e => some e
      | none => if κ = key then some (key, v) else none := by
  induction acc with
  | nil =>
    by_cases h : key = κ
    · subst h; simp [lk]
    · have : ¬ κ = key := fun e => h e.symm
      simp [lk, h, this]
  | cons e acc ih =>
    by_cases h : e.1 = κ
    · simp [lk, h]
    · simp only [List.cons_append, lk, h, if_false, ih]

/-- looking a member up after `setKey` -/
theorem lk_setKey (acc : List (Int × Val)) (key : Int) (v : Val) (κ : Int) :
    lk (setKey acc key v) κ = if κ = key then some (key, v) else lk acc κ := by
  unfold setKey
  rw [any_eq_lk]
  cases hl : (lk acc key).isSome with
  | true =>
    simp only [if_true]
    rw [lk_map_replace, hl]
    simp
  | false =>
    simp only [Bool.false_eq_true, if_false]
    rw [lk_append_single]
    have hnone : lk acc key = none := by simpa using hl
    by_cases hκ : κ = key
    · subst hκ; rw [hnone]
    · simp only [hκ, if_false]
      cases lk acc κ <;> rfl

theorem setKey_lkEq {a b : List (Int × Val)} (h : LkEq a b) (key : Int) (v : Val) : LkEq (setKey a key v) (setKey b key v) := by
  intro κ; rw [lk_setKey, lk_setKey, h κ]

theorem setKey_comm (acc : List (Int × Val)) (k1 k2 : Int) (v1 v2 : Val) (h : k1 ≠ k2) :
    LkEq (setKey (setKey acc k1 v1) k2 v2) (setKey (setKey acc k2 v2) k1 v1) := by
  intro κ
  simp only [lk_setKey]
  by_cases h1 : κ = k1 <;> by_cases h2 : κ = k2 <;> simp_all

theorem applyEffect_lkEq {a b : List (Int × Val)} (h : LkEq a b) (e : Option (Int × Val)) : LkEq (applyEffect a e) (applyEffect b e) := by
  cases e with
  | none => exact h
  | some kv => obtain ⟨k, v⟩ := kv; exact setKey_lkEq h k v

/-- both fail, or both succeed with lookup-equivalent member lists -/
def OptRel : Option (List (Int × Val)) → Option (List (Int × Val)) → Prop
  | some a, some b => LkEq a b
  | none, none => True
  | _, _ => False

theorem OptRel.trans {a b c : Option (List (Int × Val))} (h1 : OptRel a b) (h2 : OptRel b c) : OptRel a c := by
  cases a <;> cases b <;> cases c <;> simp only [OptRel] at * <;> try trivial
  exact LkEq.trans h1 h2

theorem runPairs_lkEq (fs : List Field) (ps : List (Item × Item)) (a b : List (Int × Val)) (h : LkEq a b) :
    OptRel (runPairs fs ps a) (runPairs fs ps b) := by
  induction ps generalizing a b with
  | nil => exact h
  | cons p ps ih =>
    simp only [runPairs]
    cases effect fs p with
    | none => trivial
    | some e => exact ih _ _ (applyEffect_lkEq h e)

/-- the decoded key of a member -/
def keyOfPair (p : Item × Item) : Option Int := intOf p.1

theorem effect_key (fs : List Field) (p : Item × Item) (k : Int) (v : Val) (h : effect fs p = some (some (k, v))) :
    keyOfPair p = some k := by
  unfold effect at h
  unfold keyOfPair
  cases hk : intOf p.1 with
  | none => simp [hk] at h
  | some key =>
    simp only [hk] at h
    cases hf : fs.find? (fun f => f.key == key) with
    | none => simp [hf] at h
    | some f =>
      simp only [hf] at h
      cases hd : denote f.kind p.2 with
      | none => simp [hd] at h
      | some v' => simp only [hd, Option.some.injEq, Prod.mk.injEq] at h; rw [h.1]

/-- two members with different keys can be applied in either order -/
theorem runPairs_swap (fs : List Field) (x y : Item × Item) (l : List (Item × Item)) (hxy : keyOfPair x ≠ keyOfPair y)
    (a b : List (Int × Val)) (h : LkEq a b) :
    OptRel (runPairs fs (y :: x :: l) a) (runPairs fs (x :: y :: l) b) := by
  simp only [runPairs]
  cases hx : effect fs x with
  | none =>
    cases effect fs y <;> trivial
  | some ex =>
    cases hy : effect fs y with
    | none => trivial
    | some ey =>
      simp only
      apply runPairs_lkEq
      cases ex with
      | none =>
        show LkEq (applyEffect a ey) (applyEffect b ey)
        exact applyEffect_lkEq h ey
      | some kx =>
        cases ey with
        | none =>
          show LkEq (applyEffect a (some kx)) (applyEffect b (some kx))
          exact applyEffect_lkEq h (some kx)
        | some ky =>
          obtain ⟨k1, v1⟩ := kx
          obtain ⟨k2, v2⟩ := ky
          have hne : k2 ≠ k1 := by
            intro e
            apply hxy
            rw [effect_key fs x k1 v1 hx, effect_key fs y k2 v2 hy, e]
          simp only [applyEffect]
          exact (setKey_comm a k2 k1 v2 v1 hne).trans (setKey_lkEq (setKey_lkEq h k1 v1) k2 v2)

/-- Permuting the members of a map whose keys are pairwise different does not change what is
    read (up to lookup equivalence of the member list, which is all a struct can observe). -/
theorem runPairs_perm (fs : List Field) (ps ps' : List (Item × Item)) (hp : ps.Perm ps')
    (hnd : (ps.map keyOfPair).Nodup) (a b : List (Int × Val)) (h : LkEq a b) :
    OptRel (runPairs fs ps a) (runPairs fs ps' b) := by
  induction hp generalizing a b with
  | nil => exact h
  | cons x _ ih =>
    simp only [runPairs]
    cases effect fs x with
    | none => trivial
    | some e =>
      simp only [List.map_cons, List.nodup_cons] at hnd
      exact ih hnd.2 _ _ (applyEffect_lkEq h e)
  | swap x y l =>
    simp only [List.map_cons, List.nodup_cons, List.mem_cons, not_or] at hnd
    exact runPairs_swap fs x y l (fun e => hnd.1.1 e.symm) a b h
  | trans h1 _ ih1 ih2 =>
    have hnd2 := (h1.map keyOfPair).nodup_iff.1 hnd
    exact (ih1 hnd a b h).trans (ih2 hnd2 b b (LkEq.refl b))

/-! ### what the struct observes of the member list -/

theorem canon_lkEq (fs : List Field) {a b : List (Int × Val)} (h : LkEq a b) : canon fs a = canon fs b := by
  unfold canon
  have : (fun f : Field => a.find? (fun e => e.1 == f.key)) = (fun f : Field => b.find? (fun e => e.1 == f.key)) :=
    funext fun f => by rw [← lk_eq_find, ← lk_eq_find]; exact h f.key
  rw [this]

theorem required_lkEq (fs : List Field) {a b : List (Int × Val)} (h : LkEq a b) :
    fs.all (fun f => !f.required || a.any (fun e => e.1 == f.key)) = fs.all (fun f => !f.required || b.any (fun e => e.1 == f.key)) := by
  have : (fun f : Field => !f.required || a.any (fun e => e.1 == f.key)) = (fun f : Field => !f.required || b.any (fun e => e.1 == f.key)) := by
    funext f
    rw [any_eq_lk, any_eq_lk, h f.key]
  rw [this]

/-- the value of a struct from its member list -/
def structOf (fs : List Field) : Option (List (Int × Val)) → Option Val
  | some ms => if fs.all (fun f => !f.required || ms.any (·.1 == f.key)) then some (.record (canon fs ms)) else none
  | none => none

theorem structOf_rel (fs : List Field) {a b : Option (List (Int × Val))} (h : OptRel a b) : structOf fs a = structOf fs b := by
  cases a <;> cases b <;> simp only [OptRel] at h <;> try rfl
  simp only [structOf, required_lkEq fs h, canon_lkEq fs h]

theorem denote_struct_eq (fs : List Field) (w : Width) (items : List Item) :
    denote (.struct fs) (.map w items) = structOf fs (denotePairs fs items []) := by
  simp only [denote, structOf]
  cases denotePairs fs items [] <;> rfl

/-- Map-member permutation. -/
theorem denote_map_perm (fs : List Field) (w w' : Width) (ps ps' : List (Item × Item)) (hp : ps.Perm ps')
    (hnd : (ps.map keyOfPair).Nodup) :
    denote (.struct fs) (.map w (flat ps)) = denote (.struct fs) (.map w' (flat ps')) := by
  rw [denote_struct_eq, denote_struct_eq, denotePairs_flat, denotePairs_flat]
  exact structOf_rel fs (runPairs_perm fs ps ps' hp hnd [] [] (LkEq.refl []))

/-- Insertion of a member with a key the schema does not know – carrying ANY value. -/
theorem denote_map_unknown (fs : List Field) (w w' : Width) (pre post : List (Item × Item)) (kI vI : Item) (key : Int)
    (hk : intOf kI = some key) (hun : fs.find? (fun f => f.key == key) = none) :
    denote (.struct fs) (.map w (flat (pre ++ (kI, vI) :: post))) = denote (.struct fs) (.map w' (flat (pre ++ post))) := by
  rw [denote_struct_eq, denote_struct_eq, denotePairs_flat, denotePairs_flat]
  congr 1
  generalize ([] : List (Int × Val)) = acc
  induction pre generalizing acc with
  | nil =>
    simp only [List.nil_append, runPairs, effect, hk, hun, applyEffect]
  | cons p pre ih =>
    simp only [List.cons_append, runPairs]
    cases effect fs p with
    | none => rfl
    | some e => exact ih _

/-- Congruence: rewriting inside member values (each compared at its member's kind; values of
    unknown members may change arbitrarily) and re-encoding the keys. -/
theorem denote_map_congr (fs : List Field) (w w' : Width) (ps ps' : List (Item × Item))
    (h : AllRel (fun p p' => intOf p.1 = intOf p'.1 ∧
        ∀ key f, intOf p.1 = some key → fs.find? (fun f => f.key == key) = some f → denote f.kind p.2 = denote f.kind p'.2) ps ps') :
    denote (.struct fs) (.map w (flat ps)) = denote (.struct fs) (.map w' (flat ps')) := by
  rw [denote_struct_eq, denote_struct_eq, denotePairs_flat, denotePairs_flat]
  congr 1
  generalize ([] : List (Int × Val)) = acc
  induction h generalizing acc with
  | nil => rfl
  | @cons p p' l l' hpp _ ih =>
    obtain ⟨hk, hv⟩ := hpp
    have he : effect fs p = effect fs p' := by
      unfold effect
      rw [← hk]
      cases hkk : intOf p.1 with
      | none => rfl
      | some key =>
        simp only
        cases hf : fs.find? (fun f => f.key == key) with
        | none => rfl
        | some f => simp only [hv key f hkk hf]
    simp only [runPairs, he]
    cases effect fs p' with
    | none => rfl
    | some e => exact ih _

end CdnsVerif.Model.Schema
