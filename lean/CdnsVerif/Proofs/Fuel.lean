/-
  The fuel of the reader model never binds (C03: "terminates in time proportional to the input", for EVERY byte sequence).

  The loops of the C++ reader (`read_array`, the member loop of every struct reader, the chunk loop of `read_string`, the level
  loop of `skip_item`) are modelled with a fuel argument; on exhaustion the model throws.  Here: on ANY input `bs` – well-formed
  or not – a fuel linear in `|bs|` is never exhausted: with two fuels above the bound the model computes the same result.  So
  every exception the model reports on a hostile input is a genuine one, and the number of loop iterations of the modelled
  readers is bounded by a linear function of the input length (each iteration consumes a byte, or closes a nesting level
  that a consumed byte had opened).
-/
import CdnsVerif.Props.C05
import CdnsVerif.Model.Schema
namespace CdnsVerif.Proofs.Fuel
open CdnsVerif.Spec.Cbor CdnsVerif.Model CdnsVerif.Model.Decoder CdnsVerif.Model.Schema

/-! ### consumption -/

theorem run_le {α : Type} (p : Prog α) (bs r : Bytes) (a : α) (h : p.run bs = .ok (a, r)) : r.length ≤ bs.length := by
  obtain ⟨pre, hp⟩ := Props.C05.run_suffix p bs r a h
  rw [hp]; simp

/-- a program whose first action takes a byte -/
def IsNext {α : Type} : Prog α → Prop
  | .next _ => True
  | _ => False

theorem isNext_bind {α β : Type} {p : Prog α} (f : α → Prog β) (h : IsNext p) : IsNext (p >>= f) := by
  show IsNext (Prog.bind p f)
  cases p <;> first | trivial | cases h

theorem isNext_lt {α : Type} {p : Prog α} (hp : IsNext p) {bs r : Bytes} {a : α} (h : p.run bs = .ok (a, r)) : r.length < bs.length := by
  cases p with
  | next k =>
    cases bs with
    | nil => simp at h
    | cons b t =>
      simp only [Prog.run_next_cons] at h
      have := run_le _ _ _ _ h
      simp only [List.length_cons]; omega
  | pure a => cases hp
  | throw e => cases hp
  | peek k => cases hp

/-- two continuations that agree wherever the first program can leave the input give the same result -/
theorem run_bind_congr {α β : Type} (p : Prog α) (f g : α → Prog β) (bs : Bytes)
    (h : ∀ a r, p.run bs = .ok (a, r) → (f a).run r = (g a).run r) : (p >>= f).run bs = (p >>= g).run bs := by
  rw [Prog.run_bind, Prog.run_bind]
  cases hp : p.run bs with
  | error e => rfl
  | ok x => obtain ⟨a, r⟩ := x; exact h a r hp

theorem run_bind_congr_left {α β : Type} (p q : Prog α) (f : α → Prog β) (bs : Bytes) (h : p.run bs = q.run bs) :
    (p >>= f).run bs = (q >>= f).run bs := by
  rw [Prog.run_bind, Prog.run_bind, h]

theorem bind_lt {α β : Type} {p : Prog α} {f : α → Prog β} {bs r : Bytes} {b : β}
    (hp : ∀ a r1, p.run bs = .ok (a, r1) → r1.length < bs.length) (h : (p >>= f).run bs = .ok (b, r)) : r.length < bs.length := by
  rw [Prog.run_bind] at h
  cases hp' : p.run bs with
  | error e => rw [hp'] at h; cases h
  | ok x =>
    obtain ⟨a, r1⟩ := x
    rw [hp'] at h
    have h1 := hp a r1 hp'
    have h2 := run_le _ _ _ _ h
    omega

theorem isNext_readCborType : IsNext readCborType := trivial
theorem isNext_readUnsigned : IsNext readUnsigned := isNext_bind _ isNext_readCborType
theorem isNext_readNegative : IsNext readNegative := isNext_bind _ isNext_readCborType
theorem isNext_readBool : IsNext readBool := isNext_bind _ isNext_readCborType
theorem isNext_readBreak : IsNext readBreak := isNext_bind _ isNext_readCborType
theorem isNext_readStr (m f : Nat) : IsNext (readStr m f) := isNext_bind _ isNext_readCborType
theorem isNext_readStart (m : Nat) : IsNext (readStart m) := isNext_bind _ isNext_readCborType

theorem readInteger_lt {bs r : Bytes} {a : Int} (h : readInteger.run bs = .ok (a, r)) : r.length < bs.length := by
  unfold readInteger peekType at h
  cases bs with
  | nil => simp [Prog.run_bind] at h
  | cons b t =>
    rw [Prog.run_bind] at h
    simp only [Prog.run_peek_cons, Prog.run_pure] at h
    generalize (if b = tBreak then tBreak else b / 32 * 32) = T at h
    split at h
    · exact bind_lt (fun a r1 h1 => isNext_lt isNext_readUnsigned h1) h
    · split at h
      · exact isNext_lt isNext_readNegative h
      · simp at h

/-! ### the chunk loop of `read_string` -/

theorem chunks_adequate (major : Nat) : ∀ (f1 f2 : Nat) (bs : Bytes), bs.length < f1 → bs.length < f2 →
    (readChunks major f1).run bs = (readChunks major f2).run bs := by
  intro f1
  induction f1 with
  | zero => intro f2 bs h; omega
  | succ g1 ih =>
    intro f2 bs h1 h2
    cases f2 with
    | zero => omega
    | succ g2 =>
      simp only [readChunks]
      apply run_bind_congr
      intro t r0 hp
      have hr0 := run_le _ _ _ _ hp
      split
      · rfl
      · apply run_bind_congr
        rintro ⟨ct, cl⟩ r1 hc
        have hr1 := isNext_lt isNext_readCborType hc
        simp only
        split
        · rfl
        · split
          · rfl
          · apply run_bind_congr
            intro n r2 hn
            have hr2 := run_le _ _ _ _ hn
            apply run_bind_congr
            intro c r3 hcN
            have hr3 := run_le _ _ _ _ hcN
            exact run_bind_congr_left _ _ _ _ (ih g2 r3 (by omega) (by omega))

theorem run_bind_congr2 {α β : Type} (p q : Prog α) (f g : α → Prog β) (bs : Bytes) (hpq : p.run bs = q.run bs)
    (h : ∀ a r, p.run bs = .ok (a, r) → (f a).run r = (g a).run r) : (p >>= f).run bs = (q >>= g).run bs := by
  rw [← run_bind_congr_left p q g bs hpq]
  exact run_bind_congr p f g bs h

theorem readString_adequate (major n : Nat) (indef : Bool) (f1 f2 : Nat) (bs : Bytes) (h1 : bs.length < f1) (h2 : bs.length < f2) :
    (readString major n indef f1).run bs = (readString major n indef f2).run bs := by
  unfold readString
  split
  · rfl
  · exact run_bind_congr_left _ _ _ _ (chunks_adequate major f1 f2 bs h1 h2)

theorem readStr_adequate (major : Nat) (f1 f2 : Nat) (bs : Bytes) (h1 : bs.length ≤ f1) (h2 : bs.length ≤ f2) :
    (readStr major f1).run bs = (readStr major f2).run bs := by
  unfold readStr
  apply run_bind_congr
  rintro ⟨t, ai⟩ r1 hc
  have hr1 := isNext_lt isNext_readCborType hc
  simp only
  split
  · rfl
  · split
    · rfl
    · apply run_bind_congr
      intro n r2 hn
      have hr2 := run_le _ _ _ _ hn
      exact readString_adequate major n _ f1 f2 r2 (by omega) (by omega)

/-! ### `skip_item` -/

theorem skipHead_congr (sf1 sf2 : Nat) (levels : List Level) (k1 k2 : List Level → Prog Unit) (bs : Bytes)
    (hs1 : bs.length ≤ sf1) (hs2 : bs.length ≤ sf2)
    (hk : ∀ L' r, r.length < bs.length → L'.length ≤ levels.length + 2 → (k1 L').run r = (k2 L').run r) :
    (skipHead sf1 levels k1).run bs = (skipHead sf2 levels k2).run bs := by
  unfold skipHead
  apply run_bind_congr
  rintro ⟨t, ai⟩ r1 hc
  have hr1 := isNext_lt isNext_readCborType hc
  simp only
  have hint : ∀ (L' : List Level), L'.length ≤ levels.length + 2 →
      (do let _ ← readInt ai; k1 L').run r1 = (do let _ ← readInt ai; k2 L').run r1 := by
    intro L' hL
    apply run_bind_congr
    intro _ r2 h2
    have := run_le _ _ _ _ h2
    exact hk L' r2 (by omega) hL
  split
  · split
    · rfl
    · exact hint levels (by omega)
  · split
    · split
      · rfl
      · exact hint _ (by simp)
    · split
      · split
        · rfl
        · exact hint levels (by omega)
      · split
        · split
          · rfl
          · apply run_bind_congr
            intro n r2 h2
            have hr2 := run_le _ _ _ _ h2
            apply run_bind_congr2
            · exact readString_adequate t n _ sf1 sf2 r2 (by omega) (by omega)
            · intro _ r3 h3
              have := run_le _ _ _ _ h3
              exact hk levels r3 (by omega) (by omega)
        · split
          · split
            · rfl
            · split
              · exact hk _ r1 hr1 (by simp)
              · apply run_bind_congr
                intro n r2 h2
                have hr2 := run_le _ _ _ _ h2
                split
                · exact hk _ r2 (by omega) (by simp)
                · exact hk _ r2 (by omega) (by simp)
          · rfl

theorem skipLoop_adequate : ∀ (f1 f2 sf1 sf2 : Nat) (L : List Level) (bs : Bytes), bs.length ≤ sf1 → bs.length ≤ sf2 →
    3 * bs.length + L.length < f1 → 3 * bs.length + L.length < f2 →
    (skipLoop sf1 f1 L).run bs = (skipLoop sf2 f2 L).run bs := by
  intro f1
  induction f1 with
  | zero => intro f2 sf1 sf2 L bs _ _ h; omega
  | succ g1 ih =>
    intro f2 sf1 sf2 L bs hs1 hs2 h1 h2
    cases f2 with
    | zero => omega
    | succ g2 =>
      cases L with
      | nil => simp only [skipLoop]
      | cons top rest =>
        simp only [List.length_cons] at h1 h2
        have hhead : ∀ r0 : Bytes, r0.length ≤ bs.length →
            (skipHead sf1 (top.after :: rest) (skipLoop sf1 g1)).run r0 = (skipHead sf2 (top.after :: rest) (skipLoop sf2 g2)).run r0 := by
          intro r0 hr0
          apply skipHead_congr sf1 sf2 _ _ _ r0 (by omega) (by omega)
          intro L' r hr hL
          simp only [List.length_cons] at hL
          exact ih g2 sf1 sf2 L' r (by omega) (by omega) (by omega) (by omega)
        simp only [skipLoop]
        split
        · apply run_bind_congr
          intro t r0 hp
          have hr0 := run_le _ _ _ _ hp
          split
          · split
            · rfl
            · cases r0 with
              | nil => rfl
              | cons b tl =>
                simp only [Prog.run_next_cons]
                simp only [List.length_cons] at hr0
                exact ih g2 sf1 sf2 rest tl (by omega) (by omega) (by omega) (by omega)
          · exact hhead r0 hr0
        · split
          · exact ih g2 sf1 sf2 rest bs hs1 hs2 (by omega) (by omega)
          · exact hhead bs (Nat.le_refl _)

theorem skipItem_adequate (f1 f2 : Nat) (bs : Bytes) (h1 : 3 * bs.length + 1 < f1) (h2 : 3 * bs.length + 1 < f2) :
    (skipItem f1).run bs = (skipItem f2).run bs := by
  unfold skipItem
  exact skipLoop_adequate f1 f2 f1 f2 _ bs (by omega) (by omega) (by simpa using h1) (by simpa using h2)

/-! ### the struct / array readers -/

/-- `read_<kind>()` takes at least one byte when it succeeds -/
theorem readVal_lt (f : Nat) (k : Kind) {bs r : Bytes} {v : Val} (h : (readVal f k).run bs = .ok (v, r)) : r.length < bs.length := by
  cases f with
  | zero => simp [readVal] at h
  | succ g =>
    cases k with
    | uint bits => simp only [readVal] at h; exact bind_lt (fun a r1 h1 => isNext_lt isNext_readUnsigned h1) h
    | int64 => simp only [readVal] at h; exact bind_lt (fun a r1 h1 => readInteger_lt h1) h
    | tstr => simp only [readVal] at h; exact bind_lt (fun a r1 h1 => isNext_lt (isNext_readStr _ _) h1) h
    | bstr => simp only [readVal] at h; exact bind_lt (fun a r1 h1 => isNext_lt (isNext_readStr _ _) h1) h
    | bool => simp only [readVal] at h; exact bind_lt (fun a r1 h1 => isNext_lt isNext_readBool h1) h
    | arr ek => simp only [readVal] at h; exact bind_lt (fun a r1 h1 => isNext_lt (isNext_readStart _) h1) h
    | struct fs => simp only [readVal] at h; exact bind_lt (fun a r1 h1 => isNext_lt (isNext_readStart _) h1) h

/-- the three statements for inputs of length at most `n` -/
def AdV (n : Nat) : Prop := ∀ (k : Kind) (f1 f2 : Nat) (bs : Bytes), bs.length ≤ n → 2 * bs.length + 2 ≤ f1 → 2 * bs.length + 2 ≤ f2 →
  (readVal f1 k).run bs = (readVal f2 k).run bs
def AdE (n : Nat) : Prop := ∀ (k : Kind) (len : Nat) (indef : Bool) (acc : List Val) (f1 f2 : Nat) (bs : Bytes), bs.length ≤ n →
  2 * bs.length + 3 ≤ f1 → 2 * bs.length + 3 ≤ f2 → (readElems f1 k len indef acc).run bs = (readElems f2 k len indef acc).run bs
def AdF (n : Nat) : Prop := ∀ (fs : List Field) (len : Nat) (indef : Bool) (acc : List (Int × Val)) (f1 f2 : Nat) (bs : Bytes), bs.length ≤ n →
  2 * bs.length + 3 ≤ f1 → 2 * bs.length + 3 ≤ f2 → (readFields f1 fs len indef acc).run bs = (readFields f2 fs len indef acc).run bs

/-- values: from the loops on strictly shorter inputs -/
theorem adV_step (n : Nat) (hE : ∀ m, m < n → AdE m) (hF : ∀ m, m < n → AdF m) : AdV n := by
  intro k f1 f2 bs hn h1 h2
  cases f1 with
  | zero => omega
  | succ g1 =>
    cases f2 with
    | zero => omega
    | succ g2 =>
      cases k with
      | uint bits => simp only [readVal]
      | int64 => simp only [readVal]
      | bool => simp only [readVal]
      | tstr =>
        simp only [readVal]
        exact run_bind_congr_left _ _ _ _ (readStr_adequate _ g1 g2 bs (by omega) (by omega))
      | bstr =>
        simp only [readVal]
        exact run_bind_congr_left _ _ _ _ (readStr_adequate _ g1 g2 bs (by omega) (by omega))
      | arr ek =>
        simp only [readVal]
        apply run_bind_congr
        rintro ⟨len, indef⟩ r1 hs
        have hr1 := isNext_lt (isNext_readStart _) hs
        simp only
        exact run_bind_congr_left _ _ _ _ (hE r1.length (by omega) ek len indef [] g1 g2 r1 (Nat.le_refl _) (by omega) (by omega))
      | struct fs =>
        simp only [readVal]
        apply run_bind_congr
        rintro ⟨len, indef⟩ r1 hs
        have hr1 := isNext_lt (isNext_readStart _) hs
        simp only
        exact run_bind_congr_left _ _ _ _ (hF r1.length (by omega) fs len indef [] g1 g2 r1 (Nat.le_refl _) (by omega) (by omega))

/-- the element loop: from values on inputs of the same length and the loop on shorter ones -/
theorem adE_step (n : Nat) (hV : AdV n) (hE : ∀ m, m < n → AdE m) : AdE n := by
  intro k len indef acc f1 f2 bs hn h1 h2
  cases f1 with
  | zero => omega
  | succ g1 =>
    cases f2 with
    | zero => omega
    | succ g2 =>
      have body : ∀ (r0 : Bytes), r0.length ≤ bs.length →
          (do let v ← readVal g1 k; readElems g1 k (len - 1) indef (acc ++ [v])).run r0 =
          (do let v ← readVal g2 k; readElems g2 k (len - 1) indef (acc ++ [v])).run r0 := by
        intro r0 hr0
        apply run_bind_congr2
        · exact hV k g1 g2 r0 (by omega) (by omega) (by omega)
        · intro v r1 hv
          have hr1 := readVal_lt g1 k hv
          exact hE r1.length (by omega) k (len - 1) indef (acc ++ [v]) g1 g2 r1 (Nat.le_refl _) (by omega) (by omega)
      simp only [readElems]
      split
      · rfl
      · split
        · apply run_bind_congr
          intro t r0 hp
          have hr0 := run_le _ _ _ _ hp
          split
          · rfl
          · exact body r0 hr0
        · exact body bs (Nat.le_refl _)

/-- the member loop: the key takes a byte, so values, skipped items and the rest of the loop all see shorter inputs -/
theorem adF_step (n : Nat) (hV : ∀ m, m < n → AdV m) (hF : ∀ m, m < n → AdF m) : AdF n := by
  intro fs len indef acc f1 f2 bs hn h1 h2
  cases f1 with
  | zero => omega
  | succ g1 =>
    cases f2 with
    | zero => omega
    | succ g2 =>
      have body : ∀ (r0 : Bytes), r0.length ≤ bs.length →
          (do let key ← readInteger
              match fs.find? (fun (f : Field) => f.key == key) with
              | some f => do
                let v ← readVal g1 f.kind
                readFields g1 fs (len - 1) indef (setKey acc key v)
              | none => do
                skipItem (3 * g1 + 2)
                readFields g1 fs (len - 1) indef acc).run r0 =
          (do let key ← readInteger
              match fs.find? (fun (f : Field) => f.key == key) with
              | some f => do
                let v ← readVal g2 f.kind
                readFields g2 fs (len - 1) indef (setKey acc key v)
              | none => do
                skipItem (3 * g2 + 2)
                readFields g2 fs (len - 1) indef acc).run r0 := by
        intro r0 hr0
        apply run_bind_congr
        intro key r1 hk
        have hr1 := readInteger_lt hk
        split
        · rename_i f _
          apply run_bind_congr2
          · exact hV r1.length (by omega) f.kind g1 g2 r1 (Nat.le_refl _) (by omega) (by omega)
          · intro v r2 hv
            have hr2 := readVal_lt g1 f.kind hv
            exact hF r2.length (by omega) fs (len - 1) indef _ g1 g2 r2 (Nat.le_refl _) (by omega) (by omega)
        · apply run_bind_congr2
          · exact skipItem_adequate _ _ r1 (by omega) (by omega)
          · intro _ r2 hsk
            have hr2 := run_le _ _ _ _ hsk
            exact hF r2.length (by omega) fs (len - 1) indef _ g1 g2 r2 (Nat.le_refl _) (by omega) (by omega)
      simp only [readFields]
      split
      · rfl
      · split
        · apply run_bind_congr
          intro t r0 hp
          have hr0 := run_le _ _ _ _ hp
          split
          · rfl
          · exact body r0 hr0
        · exact body bs (Nat.le_refl _)

theorem adequate_all (n : Nat) : AdV n ∧ AdE n ∧ AdF n := by
  induction n using Nat.strongRecOn with
  | _ n ih =>
    have hV : AdV n := adV_step n (fun m hm => (ih m hm).2.1) (fun m hm => (ih m hm).2.2)
    exact ⟨hV, adE_step n hV (fun m hm => (ih m hm).2.1), adF_step n (fun m hm => (ih m hm).1) (fun m hm => (ih m hm).2.2)⟩

end CdnsVerif.Proofs.Fuel
