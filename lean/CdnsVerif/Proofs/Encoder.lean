/-
  Helper lemmas for the encoder model (C06, C10).  Property theorems live in Props/.
-/
import CdnsVerif.Model.Encoder

namespace CdnsVerif.Model.Encoder
open CdnsVerif.Spec.Cbor

/-! ### Generated obligations: facts about the constants the translator extracted -/

theorem bufferSize_ge_9 : 9 ≤ bufferSize := by decide
theorem tUnsigned_eq : tUnsigned = mUint * 32 := by decide
theorem tNegative_eq : tNegative = mNint * 32 := by decide
theorem tByteString_eq : tByteString = mBstr * 32 := by decide
theorem tTextString_eq : tTextString = mTstr * 32 := by decide
theorem tArray_eq : tArray = mArr * 32 := by decide
theorem tMap_eq : tMap = mMap * 32 := by decide
theorem tTag_eq : tTag = mTag * 32 := by decide
theorem tSimple_eq : tSimple = mSimple * 32 := by decide
theorem tBreak_eq : tBreak = breakByte := by decide

/-! ### bit-or of a major code with a 5-bit value is addition -/

theorem or_major (m v : Nat) (hm : m < 8) (hv : v < 32) : (m * 32 ||| v) % 256 = m * 32 + v := by
  have : ∀ m < 8, ∀ v < 32, (m * 32 ||| v) % 256 = m * 32 + v := by decide
  exact this m hm v hv

/-! ### `write_int` produces the preferred head when it has room -/

def headLen (v : Nat) : Nat := 1 + (shortest v).nbytes

theorem preferredHead_length (m v : Nat) : (preferredHead m v).length = headLen v := by
  simp [preferredHead, head_length, headLen]

theorem headLen_le_9 (v : Nat) : headLen v ≤ 9 := by
  unfold headLen shortest; (repeat' split) <;> simp [Width.nbytes]

theorem writeInt_eq (avail v m : Nat) (hm : m < 8) (hv : v < 2 ^ 64) (ha : headLen v ≤ avail) :
    writeInt avail v (m * 32) = preferredHead m v := by
  unfold headLen shortest at ha
  unfold writeInt preferredHead shortest head
  by_cases h1 : v < 24
  · have h1' : v ≤ 23 := by omega
    simp only [h1, h1', if_true] at ha ⊢
    simp [Width.nbytes] at ha
    have : avail ≥ 1 := by omega
    simp [this, u8, or_major m v hm (by omega), Width.ai, Width.nbytes, be]
  · have h1' : ¬ v ≤ 23 := by omega
    simp only [h1, h1', if_false] at ha ⊢
    by_cases h2 : v < 2 ^ 8
    · have h2' : v ≤ 255 := by omega
      simp only [h2, h2', if_true] at ha ⊢
      simp [Width.nbytes] at ha
      have : avail ≥ 2 := by omega
      simp [this, or_major m 24 hm (by omega), Width.ai, Width.nbytes, be, u8]
    · have h2' : ¬ v ≤ 255 := by omega
      simp only [h2, h2', if_false] at ha ⊢
      by_cases h3 : v < 2 ^ 16
      · have h3' : v ≤ 65535 := by omega
        simp only [h3, h3', if_true] at ha ⊢
        simp [Width.nbytes] at ha
        have : avail ≥ 3 := by omega
        simp [this, or_major m 25 hm (by omega), Width.ai, Width.nbytes, be, u8,
              Nat.shiftRight_eq_div_pow]
      · have h3' : ¬ v ≤ 65535 := by omega
        simp only [h3, h3', if_false] at ha ⊢
        by_cases h4 : v < 2 ^ 32
        · have h4' : v ≤ 4294967295 := by omega
          simp only [h4, h4', if_true] at ha ⊢
          simp [Width.nbytes] at ha
          have : avail ≥ 5 := by omega
          simp [this, or_major m 26 hm (by omega), Width.ai, Width.nbytes, be, u8,
                Nat.shiftRight_eq_div_pow]
        · have h4' : ¬ v ≤ 4294967295 := by omega
          simp only [h4, h4', if_false] at ha ⊢
          simp [Width.nbytes] at ha
          have : avail ≥ 9 := by omega
          simp [this, or_major m 27 hm (by omega), Width.ai, Width.nbytes, be, u8,
                Nat.shiftRight_eq_div_pow]

/-! ### state invariant and stream bookkeeping -/

def EncSt.Inv (s : EncSt) : Prop := s.buf.length ≤ bufferSize

theorem init_inv : EncSt.init.Inv := by simp [EncSt.Inv, EncSt.init]

theorem flush_stream (s : EncSt) : (flush s).stream = s.stream := by
  unfold flush EncSt.stream
  split <;> simp

theorem flush_inv (s : EncSt) (h : s.Inv) : (flush s).Inv := by
  unfold flush EncSt.Inv at *
  split <;> simp_all

theorem flush_buf (s : EncSt) : (flush s).buf = [] := by
  unfold flush
  split
  · rfl
  · rename_i h; simpa using h

theorem flush_avail (s : EncSt) : (flush s).avail = bufferSize := by
  simp [EncSt.avail, flush_buf]

theorem push_stream (s : EncSt) (bs : Bytes) : (push s bs).stream = s.stream ++ bs := by
  simp [push, EncSt.stream]

theorem push_inv (s : EncSt) (bs : Bytes) (h : bs.length ≤ s.avail) (hs : s.Inv) : (push s bs).Inv := by
  unfold EncSt.Inv EncSt.avail push at *
  simp; omega

theorem push_avail (s : EncSt) (bs : Bytes) : (push s bs).avail = s.avail - bs.length := by
  simp [push, EncSt.avail]; omega

/-- after `if (m_avail < need) flush_buffer();` there is room for `need ≤ 9` bytes -/
theorem ensure_avail (s : EncSt) (need : Nat) (hn : need ≤ 9) :
    need ≤ (if s.avail < need then flush s else s).avail := by
  have := bufferSize_ge_9
  split
  · rw [flush_avail]; omega
  · omega

theorem ensure_stream (s : EncSt) (need : Nat) :
    (if s.avail < need then flush s else s).stream = s.stream := by
  split
  · exact flush_stream s
  · rfl

theorem ensure_inv (s : EncSt) (need : Nat) (h : s.Inv) :
    (if s.avail < need then flush s else s).Inv := by
  split
  · exact flush_inv s h
  · exact h

theorem writeHead_spec (s : EncSt) (hs : s.Inv) (need v m : Nat) (hm : m < 8) (hv : v < 2 ^ 64)
    (hn : need ≤ 9) (hl : headLen v ≤ need) :
    (writeHead s need v (m * 32)).1.stream = s.stream ++ preferredHead m v ∧
    (writeHead s need v (m * 32)).2 = (preferredHead m v).length ∧
    (writeHead s need v (m * 32)).1.Inv := by
  unfold writeHead
  have ha := ensure_avail s need hn
  have hst := ensure_stream s need
  have hi := ensure_inv s need hs
  generalize (if s.avail < need then flush s else s) = s1 at *
  have hw := writeInt_eq s1.avail v m hm hv (by omega)
  simp only [hw, push_stream, hst, true_and]
  apply push_inv _ _ _ hi
  rw [preferredHead_length]; omega

theorem writeByte_spec (s : EncSt) (hs : s.Inv) (m v : Nat) (hm : m < 8) (hv : v < 32) :
    (writeByte s (m * 32 ||| v)).1.stream = s.stream ++ [m * 32 + v] ∧
    (writeByte s (m * 32 ||| v)).2 = 1 ∧ (writeByte s (m * 32 ||| v)).1.Inv := by
  unfold writeByte
  have ha := ensure_avail s 1 (by omega)
  have hst := ensure_stream s 1
  have hi := ensure_inv s 1 hs
  generalize (if s.avail < 1 then flush s else s) = s1 at *
  have : ¬ s1.avail < 1 := by omega
  simp only [this, if_false, push_stream, hst, u8, or_major m v hm hv, true_and]
  apply push_inv _ _ _ hi
  simp; omega

/-! ### the `write_string` copy loop -/

theorem writeStringLoop_spec (fuel : Nat) (s : EncSt) (str : Bytes) (hs : s.Inv)
    (hf : str.length + 2 ≤ fuel ∨ (str.length + 1 ≤ fuel ∧ 0 < s.avail)) :
    (writeStringLoop fuel s str).stream = s.stream ++ str ∧ (writeStringLoop fuel s str).Inv := by
  induction fuel generalizing s str with
  | zero => omega
  | succ fuel ih =>
    unfold writeStringLoop
    split
    · rename_i hlt
      have hpi : (push s (str.take s.avail)).Inv := by
        apply push_inv _ _ _ hs
        simp [List.length_take]; omega
      have hfi := flush_inv _ hpi
      have hav : (flush (push s (List.take s.avail str))).avail = bufferSize := flush_avail _
      have h9 := bufferSize_ge_9
      have := ih (flush (push s (str.take s.avail))) (str.drop s.avail) hfi (by
        right
        simp only [List.length_drop, hav]
        omega)
      rw [this.1, flush_stream, push_stream, List.append_assoc, List.take_append_drop]
      exact ⟨rfl, this.2⟩
    · rename_i hge
      exact ⟨push_stream s str, push_inv s str (by omega) hs⟩

theorem writeString_spec (s : EncSt) (str : Bytes) (hs : s.Inv) :
    (writeString s str).stream = s.stream ++ str ∧ (writeString s str).Inv := by
  unfold writeString
  exact writeStringLoop_spec _ s str hs (Or.inl (Nat.le_refl _))

theorem writeStr_spec (s : EncSt) (hs : s.Inv) (m : Nat) (hm : m < 8) (str : Bytes)
    (hl : str.length < 2 ^ 64) :
    (writeStr s (m * 32) str).1.stream = s.stream ++ (preferredHead m str.length ++ str) ∧
    (writeStr s (m * 32) str).2 = (preferredHead m str.length ++ str).length ∧
    (writeStr s (m * 32) str).1.Inv := by
  unfold writeStr
  have h := writeHead_spec s hs 9 str.length m hm hl (by omega) (headLen_le_9 _)
  generalize writeHead s 9 str.length (m * 32) = r at *
  obtain ⟨s1, w⟩ := r
  simp only at h ⊢
  have h2 := writeString_spec s1 str h.2.2
  simp only [h2.1, h.1, h.2.1, List.append_assoc, List.length_append, true_and]
  exact h2.2

/-! ### signed overloads -/

theorem bitNot64_neg (v : Int) (h1 : v < 0) (h2 : -(2 ^ 63) ≤ v) : bitNot64 v = (-1 - v).toNat := by
  unfold bitNot64
  congr 1
  omega

theorem writeSigned_spec (s : EncSt) (hs : s.Inv) (need : Nat) (v : Int) (hn : need ≤ 9)
    (hlo : -(2 ^ 63) ≤ v) (hhi : v < 2 ^ 63)
    (hl : headLen (if v < 0 then (-1 - v).toNat else v.toNat) ≤ need) :
    let spec := if v < 0 then preferredHead mNint (-1 - v).toNat else preferredHead mUint v.toNat
    (writeSigned s need v).1.stream = s.stream ++ spec ∧ (writeSigned s need v).2 = spec.length ∧
    (writeSigned s need v).1.Inv := by
  intro spec
  unfold writeSigned
  have ha := ensure_avail s need hn
  have hst := ensure_stream s need
  have hi := ensure_inv s need hs
  generalize (if s.avail < need then flush s else s) = s1 at *
  by_cases hneg : v < 0
  · simp only [hneg, if_true] at hl ⊢
    have hv : (-1 - v).toNat < 2 ^ 64 := by omega
    rw [bitNot64_neg v hneg hlo, tNegative_eq]
    have hw := writeInt_eq s1.avail (-1 - v).toNat mNint (by decide) hv (by omega)
    simp only [hw, push_stream, hst, spec, hneg, if_true, true_and]
    apply push_inv _ _ _ hi
    rw [preferredHead_length]; omega
  · simp only [hneg, if_false] at hl ⊢
    have hv : v.toNat < 2 ^ 64 := by omega
    rw [tUnsigned_eq]
    have hw := writeInt_eq s1.avail v.toNat mUint (by decide) hv (by omega)
    simp only [hw, push_stream, hst, spec, hneg, if_false, true_and]
    apply push_inv _ _ _ hi
    rw [preferredHead_length]; omega

end CdnsVerif.Model.Encoder
