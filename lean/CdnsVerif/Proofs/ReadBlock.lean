/-
  The read side inverts the write side: for every stored block `b` whose times are recoverable and whose address-event keys are
  distinct, `ofVal` (the model of `CdnsBlockRead::read` after the raw read) applied to `toVal b` (the model of `CdnsBlock::write`)
  gives back the tables, items, earliest time and statistics of `b` (`ofVal_toVal`); and on a referentially closed block the
  bounds-checked accessors never throw, so `records` is the plain index resolution of `Model.Resolve` (`records_closed`).
  Helper lemmas; the property theorem `export_read_records` is in Props/C01.lean.
-/
import CdnsVerif.Model.ReadBlock
import CdnsVerif.Proofs.BuilderConforms
import CdnsVerif.Proofs.BuilderReach
import CdnsVerif.Proofs.ResolveAec
import CdnsVerif.Props.C17

namespace CdnsVerif.Model.ReadBlock
open CdnsVerif.Spec.Cbor CdnsVerif.Generated CdnsVerif.Model.Schema CdnsVerif.Model.Structs CdnsVerif.Model.Builder CdnsVerif.Model.Timestamp

/-! ### member look-up in a record assembled slot by slot -/

theorem fld_slots_none (l : List (Field × Option Val)) (k : Int) (hk : k ∉ l.map (·.1.key)) : fld (slots l) k = none := by
  induction l with
  | nil => rfl
  | cons p l ih =>
    obtain ⟨f, o⟩ := p
    simp only [List.map_cons, List.mem_cons, not_or] at hk
    cases o with
    | none => exact ih hk.2
    | some v =>
      have hne : (f.key == k) = false := beq_false_of_ne (fun e => hk.1 e.symm)
      have := ih hk.2
      simp only [fld, slots, List.find?_cons, hne] at this ⊢
      exact this

theorem fld_slots (l : List (Field × Option Val)) (hnd : (l.map (·.1.key)).Nodup) (f : Field) (o : Option Val) (hm : (f, o) ∈ l) :
    fld (slots l) f.key = o := by
  induction l with
  | nil => cases hm
  | cons p l ih =>
    rw [List.map_cons, List.nodup_cons] at hnd
    rcases List.mem_cons.1 hm with rfl | hmem
    · cases o with
      | none => exact fld_slots_none l _ hnd.1
      | some v => simp [fld, slots]
    · obtain ⟨g, o'⟩ := p
      have hne : g.key ≠ f.key := by
        intro e
        exact hnd.1 (e ▸ List.mem_map_of_mem (f := fun x : Field × Option Val => x.1.key) hmem)
      cases o' with
      | none => exact ih hnd.2 hmem
      | some v =>
        have hb : (g.key == f.key) = false := beq_false_of_ne hne
        have := ih hnd.2 hmem
        simp only [fld, slots, List.find?_cons, hb] at this ⊢
        exact this

theorem fNat_slots (l : List (Field × Option Val)) (hnd : (l.map (·.1.key)).Nodup) {k : Int} {kind : Kind} {req : Bool} {o : Option Nat}
    (hm : sN k kind req o ∈ l) : fNat (slots l) k = o := by
  have := fld_slots l hnd _ _ hm
  simp only [Field.key] at this
  unfold fNat; rw [this]
  cases o <;> simp

theorem fInt_slots (l : List (Field × Option Val)) (hnd : (l.map (·.1.key)).Nodup) {k : Int} {req : Bool} {o : Option Int}
    (hm : sI k req o ∈ l) : fInt (slots l) k = o := by
  have := fld_slots l hnd _ _ hm
  simp only [Field.key] at this
  unfold fInt; rw [this]
  cases o <;> simp

theorem fStr_slots (l : List (Field × Option Val)) (hnd : (l.map (·.1.key)).Nodup) {k : Int} {kind : Kind} {o : Option Bytes}
    (hm : sS k kind o ∈ l) : fStr (slots l) k = o := by
  have := fld_slots l hnd _ _ hm
  simp only [Field.key] at this
  unfold fStr; rw [this]
  cases o <;> simp

theorem fld_slots_sV (l : List (Field × Option Val)) (hnd : (l.map (·.1.key)).Nodup) {k : Int} {kind : Kind} {req : Bool} {o : Option Val}
    (hm : sV k kind req o ∈ l) : fld (slots l) k = o := by
  have := fld_slots l hnd _ _ hm
  simpa only [Field.key] using this

theorem fList_slots (l : List (Field × Option Val)) (hnd : (l.map (·.1.key)).Nodup) {k : Int} {kind : Kind} {req : Bool} {vs : List Val}
    (hm : sV k kind req (ne vs) ∈ l) : fList (slots l) k = vs := by
  unfold fList; rw [fld_slots_sV l hnd hm]
  unfold ne
  cases vs with
  | nil => rfl
  | cons v vs => rfl

/-- membership of a slot in a literal slot list (also fixes the slot's kind and presence flag by unification) -/
macro "slot_mem" : tactic => `(tactic| repeat (first | exact List.mem_cons_self | apply List.mem_cons_of_mem))

/-! ### the structures -/

theorem natOf_num (n : Nat) : natOf (.num (n : Int)) = n := by simp [natOf]

theorem natsOf_list (l : List Nat) : natsOf (.list (l.map fun (n : Nat) => Val.num (n : Int))) = l := by
  simp only [natsOf, List.map_map]
  induction l with
  | nil => rfl
  | cons n l ih => simp only [List.map_cons, Function.comp_apply, natOf_num, ih]

theorem map_natsOf (ls : List (List Nat)) : (ls.map fun l => Val.list (l.map fun (n : Nat) => Val.num (n : Int))).map natsOf = ls := by
  induction ls with
  | nil => rfl
  | cons l ls ih => simp only [List.map_cons, natsOf_list, ih]

theorem map_strOf (ls : List Bytes) : (ls.map Val.str).map strOf = ls := by
  induction ls with
  | nil => rfl
  | cons l ls ih => simp only [List.map_cons, strOf, ih]

theorem sigOf_toVal (s : Sig) : sigOf (Sig.toVal s) = s := by
  have e : Sig.toVal s = .record (slots (sigSlots s)) := sig_toVal_slots s
  have hnd : ((sigSlots s).map (·.1.key)).Nodup := by
    simp only [sigSlots, sN, List.map_cons, List.map_nil, Field.key]; decide +kernel
  rw [e]
  simp only [sigOf, recOf, sigOfRec]
  rw [fNat_slots _ hnd (o := s.sai) (by slot_mem), fNat_slots _ hnd (o := s.port) (by slot_mem),
    fNat_slots _ hnd (o := s.tf) (by slot_mem), fNat_slots _ hnd (o := s.qt) (by slot_mem),
    fNat_slots _ hnd (o := s.sf) (by slot_mem), fNat_slots _ hnd (o := s.op) (by slot_mem),
    fNat_slots _ hnd (o := s.df) (by slot_mem), fNat_slots _ hnd (o := s.qrc) (by slot_mem),
    fNat_slots _ hnd (o := s.cti) (by slot_mem), fNat_slots _ hnd (o := s.qd) (by slot_mem),
    fNat_slots _ hnd (o := s.an) (by slot_mem), fNat_slots _ hnd (o := s.ns) (by slot_mem),
    fNat_slots _ hnd (o := s.ar) (by slot_mem), fNat_slots _ hnd (o := s.ev) (by slot_mem),
    fNat_slots _ hnd (o := s.us) (by slot_mem), fNat_slots _ hnd (o := s.ordi) (by slot_mem),
    fNat_slots _ hnd (o := s.rrc) (by slot_mem)]

theorem pairOf_pairVal (k0 k1 : Int) (hne : k0 ≠ k1) (p : Nat × Nat) : pairOf k0 k1 (pairVal k0 k1 p) = p := by
  have h1 : (k0 == k1) = false := beq_false_of_ne hne
  simp [pairOf, pairVal, recOf, fNat, fld, h1]

theorem map_pairOf (k0 k1 : Int) (hne : k0 ≠ k1) (l : List (Nat × Nat)) : (l.map (pairVal k0 k1)).map (pairOf k0 k1) = l := by
  induction l with
  | nil => rfl
  | cons p l ih => simp only [List.map_cons, pairOf_pairVal k0 k1 hne, ih]

theorem rrOf_toVal (r : RRe) : rrOf (RRe.toVal r) = r := by
  have e : RRe.toVal r = .record (slots (rrSlots r)) := by
    simp only [RRe.toVal, rrSlots, slots_sN, slots_nil', optN_some, List.append_nil, List.cons_append, List.nil_append]
  have hnd : ((rrSlots r).map (·.1.key)).Nodup := by
    simp only [rrSlots, sN, List.map_cons, List.map_nil, Field.key]; decide +kernel
  rw [e]
  simp only [rrOf, recOf]
  rw [fNat_slots _ hnd (o := some r.name) (by slot_mem), fNat_slots _ hnd (o := some r.ct) (by slot_mem),
    fNat_slots _ hnd (o := r.ttl) (by slot_mem), fNat_slots _ hnd (o := r.rdata) (by slot_mem)]
  rfl

theorem mmdOf_toVal (d : MMD) : mmdOf (MMD.toVal d) = d := by
  have e : MMD.toVal d = .record (slots (mmdSlots d)) := by
    simp only [MMD.toVal, mmdSlots, slots_sN, slots_sS, slots_nil', List.append_nil, List.append_assoc]
  have hnd : ((mmdSlots d).map (·.1.key)).Nodup := by
    simp only [mmdSlots, sN, sS, List.map_cons, List.map_nil, Field.key]; decide +kernel
  rw [e]
  simp only [mmdOf, recOf]
  rw [fNat_slots _ hnd (o := d.sai) (by slot_mem), fNat_slots _ hnd (o := d.port) (by slot_mem),
    fNat_slots _ hnd (o := d.tf) (by slot_mem), fStr_slots _ hnd (o := d.payload) (by slot_mem)]

theorem qreOfRec_toVal (e : QRE) : qreOfRec (recOf (QRE.toVal e)) = e := by
  have e' : QRE.toVal e = .record (slots (qreSlots e)) := by
    simp only [QRE.toVal, qreSlots, slots_sN, slots_nil', List.append_nil, List.append_assoc]
  have hnd : ((qreSlots e).map (·.1.key)).Nodup := by
    simp only [qreSlots, sN, List.map_cons, List.map_nil, Field.key]; decide +kernel
  rw [e']
  simp only [qreOfRec, recOf]
  rw [fNat_slots _ hnd (o := e.q) (by slot_mem), fNat_slots _ hnd (o := e.an) (by slot_mem),
    fNat_slots _ hnd (o := e.au) (by slot_mem), fNat_slots _ hnd (o := e.ad) (by slot_mem)]

theorem rpdOfRec_toVal (r : RPD) : rpdOfRec (recOf (RPD.toVal r)) = r := by
  have e' : RPD.toVal r = .record (slots (rpdSlots r)) := by
    simp only [RPD.toVal, rpdSlots, slots_sN, slots_nil', List.append_nil]
  have hnd : ((rpdSlots r).map (·.1.key)).Nodup := by
    simp only [rpdSlots, sN, List.map_cons, List.map_nil, Field.key]; decide +kernel
  rw [e']
  simp only [rpdOfRec, recOf]
  rw [fNat_slots _ hnd (o := r.bw) (by slot_mem), fNat_slots _ hnd (o := r.flags) (by slot_mem)]

/-- a struct-valued optional member: what `fRec` finds is the record the member was written as -/
theorem fRec_slots_map {α : Type} (l : List (Field × Option Val)) (hnd : (l.map (·.1.key)).Nodup) {k : Int} {kind : Kind} {req : Bool}
    {o : Option α} {f : α → Val} (hm : sV k kind req (o.map f) ∈ l) (g : List (Int × Val) → α) (hg : ∀ x, g (recOf (f x)) = x)
    (hrec : ∀ x, ∃ r, f x = .record r) : (fRec (slots l) k).map g = o := by
  unfold fRec; rw [fld_slots_sV l hnd hm]
  cases o with
  | none => rfl
  | some x =>
    obtain ⟨r, hr⟩ := hrec x
    have := hg x
    simp only [Option.map_some, hr, recOf] at this ⊢
    rw [this]

/-- the time written for a stored record is read back as the record's time -/
def TimeBack (earliest : Ts) (tps : Nat) (ts : Option Ts) : Prop :=
  timeOf earliest tps (ts.bind fun t => offsetOf t earliest tps) = .ok ts

theorem qrOf_toVal (earliest : Ts) (tps : Nat) (q : QRec) (ht : TimeBack earliest tps q.ts) :
    qrOf earliest tps (QRec.toVal earliest tps q) = .ok q := by
  have e' : QRec.toVal earliest tps q = .record (slots (qrSlots earliest tps q)) := by
    simp only [QRec.toVal, qrSlots, slots_sN, slots_sI, slots_sS, slots_sV, slots_nil', List.append_nil, List.append_assoc]
  have hnd : ((qrSlots earliest tps q).map (·.1.key)).Nodup := by
    simp only [qrSlots, sN, sI, sS, sV, List.map_cons, List.map_nil, Field.key]; decide +kernel
  rw [e']
  simp only [qrOf, recOf]
  rw [fNat_slots _ hnd (o := q.ts.bind fun t => offsetOf t earliest tps) (by slot_mem)]
  unfold TimeBack at ht
  rw [ht]
  simp only
  rw [fNat_slots _ hnd (o := q.cai) (by slot_mem), fNat_slots _ hnd (o := q.cport) (by slot_mem),
    fNat_slots _ hnd (o := q.tid) (by slot_mem), fNat_slots _ hnd (o := q.sig) (by slot_mem),
    fNat_slots _ hnd (o := q.hl) (by slot_mem), fInt_slots _ hnd (o := q.rd) (by slot_mem),
    fNat_slots _ hnd (o := q.qn) (by slot_mem), fNat_slots _ hnd (o := q.qs) (by slot_mem),
    fNat_slots _ hnd (o := q.rs) (by slot_mem),
    fRec_slots_map _ hnd (o := q.rpd) (f := RPD.toVal) (by slot_mem) rpdOfRec rpdOfRec_toVal (fun x => ⟨_, rfl⟩),
    fStr_slots _ hnd (o := q.asn) (by slot_mem), fStr_slots _ hnd (o := q.cc) (by slot_mem),
    fInt_slots _ hnd (o := q.rtt) (by slot_mem)]
  have hqx := fRec_slots_map (qrSlots earliest tps q) hnd (k := QueryResponseMapIndex.query_extended) (o := q.qx) (f := QRE.toVal)
    (by slot_mem) qreOfRec qreOfRec_toVal (fun x => ⟨_, rfl⟩)
  have hrx := fRec_slots_map (qrSlots earliest tps q) hnd (k := QueryResponseMapIndex.response_extended) (o := q.rx) (f := QRE.toVal)
    (by slot_mem) qreOfRec qreOfRec_toVal (fun x => ⟨_, rfl⟩)
  rw [hqx, hrx]

theorem mmOf_toVal (earliest : Ts) (tps : Nat) (m : MMRec) (ht : TimeBack earliest tps m.ts) :
    mmOf earliest tps (MMRec.toVal earliest tps m) = .ok m := by
  have e' : MMRec.toVal earliest tps m = .record (slots (mmSlots earliest tps m)) := by
    simp only [MMRec.toVal, mmSlots, slots_sN, slots_nil', List.append_nil, List.append_assoc]
  have hnd : ((mmSlots earliest tps m).map (·.1.key)).Nodup := by
    simp only [mmSlots, sN, List.map_cons, List.map_nil, Field.key]; decide +kernel
  rw [e']
  simp only [mmOf, recOf]
  rw [fNat_slots _ hnd (o := m.ts.bind fun t => offsetOf t earliest tps) (by slot_mem)]
  unfold TimeBack at ht
  rw [ht]
  simp only
  rw [fNat_slots _ hnd (o := m.cai) (by slot_mem), fNat_slots _ hnd (o := m.cport) (by slot_mem),
    fNat_slots _ hnd (o := m.mdi) (by slot_mem)]

theorem aecOf_toVal (a : AEC × Nat) : aecOf (AEC.toVal a) = a := by
  have e' : AEC.toVal a = .record (slots (aecSlots a)) := by
    simp only [AEC.toVal, aecSlots, slots_sN, slots_nil', optN_some, List.append_nil, List.append_assoc, List.cons_append, List.nil_append]
  have hnd : ((aecSlots a).map (·.1.key)).Nodup := by
    simp only [aecSlots, sN, List.map_cons, List.map_nil, Field.key]; decide +kernel
  rw [e']
  simp only [aecOf, recOf]
  rw [fNat_slots _ hnd (o := some a.1.aeType) (by slot_mem), fNat_slots _ hnd (o := a.1.aeCode) (by slot_mem),
    fNat_slots _ hnd (o := some a.1.ai) (by slot_mem), fNat_slots _ hnd (o := a.1.tf) (by slot_mem),
    fNat_slots _ hnd (o := some a.2) (by slot_mem)]
  rfl


/-! ### lists of items -/

theorem allOk_map {α β : Type} (f : α → Except RErr β) (g : α → β) (l : List α) (h : ∀ x ∈ l, f x = .ok (g x)) :
    allOk (l.map f) = .ok (l.map g) := by
  induction l with
  | nil => rfl
  | cons x l ih =>
    have hx := h x List.mem_cons_self
    have := ih (fun y hy => h y (List.mem_cons_of_mem _ hy))
    simp only [List.map_cons, hx, allOk, this]

theorem allOk_map_id {α : Type} (f : Val → Except RErr α) (t : α → Val) (l : List α) (h : ∀ x ∈ l, f (t x) = .ok x) :
    allOk ((l.map t).map f) = .ok l := by
  have := allOk_map (fun x => f (t x)) id l (by simpa using h)
  simpa [List.map_map, Function.comp_def] using this

/-- entering pairwise different address-event entries one by one reproduces the list -/
theorem foldl_putAec (l acc : List (AEC × Nat)) (hnd : (acc ++ l).Nodup) : l.foldl putAec acc = acc ++ l := by
  induction l generalizing acc with
  | nil => simp
  | cons e l ih =>
    have hnot : acc.any (· == e) = false := by
      rw [Bool.eq_false_iff]
      intro hany
      obtain ⟨x, hx, hxe⟩ := List.any_eq_true.1 hany
      have hxe' : x = e := by simpa using hxe
      rw [List.nodup_append] at hnd
      exact hnd.2.2 x hx e (by simp) hxe'
    have : putAec acc e = acc ++ [e] := by simp only [putAec, hnot, Bool.false_eq_true, if_false]
    rw [List.foldl_cons, this, ih (acc ++ [e]) (by simpa using hnd)]
    simp

theorem read_aecs (l : List (AEC × Nat)) (hnd : l.Nodup) : ((l.map AEC.toVal).map aecOf).foldl putAec [] = l := by
  have : (l.map AEC.toVal).map aecOf = l := by
    rw [List.map_map]
    conv => rhs; rw [← List.map_id l]
    apply List.map_congr_left
    intro a _
    exact aecOf_toVal a
  rw [this, foldl_putAec l [] (by simpa using hnd)]
  rfl

/-- the six statistics members as the reader holds them -/
def norm6 (s : Stats) : Stats := [s.getD 0 none, s.getD 1 none, s.getD 2 none, s.getD 3 none, s.getD 4 none, s.getD 5 none]

theorem statsOfRec_statsVal (s : Stats) : statsOfRec (recOf (statsVal s)) = norm6 s := by
  have e' : statsVal s = .record (slots (statSlots s)) := by
    simp only [statsVal, statSlots, slots_sN, slots_nil', List.append_nil, List.append_assoc]
  have hnd : ((statSlots s).map (·.1.key)).Nodup := by
    simp only [statSlots, sN, List.map_cons, List.map_nil, Field.key]; decide +kernel
  rw [e']
  simp only [statsOfRec, recOf, norm6]
  rw [fNat_slots _ hnd (o := s.getD 0 none) (by slot_mem), fNat_slots _ hnd (o := s.getD 1 none) (by slot_mem),
    fNat_slots _ hnd (o := s.getD 2 none) (by slot_mem), fNat_slots _ hnd (o := s.getD 3 none) (by slot_mem),
    fNat_slots _ hnd (o := s.getD 4 none) (by slot_mem), fNat_slots _ hnd (o := s.getD 5 none) (by slot_mem)]

/-! ### the block -/

theorem map_sigOf (l : List Sig) : (l.map Sig.toVal).map sigOf = l := by
  induction l with
  | nil => rfl
  | cons x l ih => simp only [List.map_cons, sigOf_toVal, ih]
theorem map_rrOf (l : List RRe) : (l.map RRe.toVal).map rrOf = l := by
  induction l with
  | nil => rfl
  | cons x l ih => simp only [List.map_cons, rrOf_toVal, ih]
theorem map_mmdOf (l : List MMD) : (l.map MMD.toVal).map mmdOf = l := by
  induction l with
  | nil => rfl
  | cons x l ih => simp only [List.map_cons, mmdOf_toVal, ih]

/-- what `ofVal` returns for a written block: the block itself, its statistics in the reader's six-slot form -/
def readBackOf (b : Blk) : Blk := { b with stats := b.stats.map norm6 }

/-- **The block reader inverts the block writer.** -/
theorem ofVal_toVal (rates : List Nat) (b : Blk) (pi : Option Nat) (tps : Nat) (hrate : rateFor rates pi = .ok tps)
    (hq : ∀ q ∈ b.qrs, TimeBack b.earliest tps q.ts) (hm : ∀ m ∈ b.mms, TimeBack b.earliest tps m.ts)
    (ha : b.aecs.Nodup) :
    ofVal rates (toVal b pi tps) = .ok { blk := readBackOf b, pi := pi, tps := tps } := by
  have e' : toVal b pi tps = .record (slots (blkSlots b pi tps)) := by
    simp only [toVal, blkSlots, preVal, nonEmpty_eq, ite_slot, slots_sV, slots_nil', optV_some, List.append_nil, List.append_assoc,
      List.cons_append, List.nil_append]
  have hnd : ((blkSlots b pi tps).map (·.1.key)).Nodup := by
    simp only [blkSlots, sV, List.map_cons, List.map_nil, Field.key]; decide +kernel
  -- the preamble
  let L : List (Field × Option Val) := [
    sV BlockPreambleMapIndex.earliest_time timestamp false (some (.list [.num b.earliest.secs, .num b.earliest.ticks])),
    sN BlockPreambleMapIndex.block_parameters_index (.uint 32) false pi]
  have epre : preVal b pi = .record (slots L) := by
    simp only [preVal, L, slots_sV, slots_sN, slots_nil', optV_some, List.append_nil, List.cons_append, List.nil_append]
  have hndL : (L.map (·.1.key)).Nodup := by
    simp only [L, sV, sN, List.map_cons, List.map_nil, Field.key]; decide +kernel
  have hpre : fRec (slots (blkSlots b pi tps)) BlockMapIndex.block_preamble = some (slots L) := by
    unfold fRec; rw [fld_slots_sV _ hnd (o := some (preVal b pi)) (by slot_mem), epre]
  have hearliest : earliestOf (slots L) = .ok b.earliest := by
    unfold earliestOf
    rw [fld_slots_sV L hndL (o := some (.list [.num b.earliest.secs, .num b.earliest.ticks])) (by slot_mem)]
    simp
  have hpi : fNat (slots L) BlockPreambleMapIndex.block_parameters_index = pi := fNat_slots L hndL (by slot_mem)
  -- the tables
  have etb : tablesVal b = slots (tblSlots b) := by
    simp only [tablesVal, tblSlots, nonEmpty_eq, slots_sV, slots_nil', List.append_nil, List.append_assoc]
  have hndT : ((tblSlots b).map (·.1.key)).Nodup := by
    simp only [tblSlots, sV, List.map_cons, List.map_nil, Field.key]; decide +kernel
  have htb : (fRec (slots (blkSlots b pi tps)) BlockMapIndex.block_tables).getD [] = slots (tblSlots b) := by
    unfold fRec
    rw [fld_slots_sV _ hnd (o := if (tablesVal b).isEmpty then none else some (.record (tablesVal b))) (by slot_mem)]
    rw [etb]
    by_cases hem : (slots (tblSlots b)).isEmpty = true
    · simp only [hem, if_true, Option.getD_none]
      exact (List.isEmpty_iff.1 hem).symm
    · simp only [hem, Bool.false_eq_true, if_false, Option.getD_some]
  -- the item arrays
  have hqs : allOk ((fList (slots (blkSlots b pi tps)) BlockMapIndex.query_responses).map (qrOf b.earliest tps)) = .ok b.qrs := by
    rw [fList_slots _ hnd (vs := b.qrs.map (QRec.toVal b.earliest tps)) (by slot_mem)]
    exact allOk_map_id _ _ _ fun q hqm => qrOf_toVal _ _ q (hq q hqm)
  have hms : allOk ((fList (slots (blkSlots b pi tps)) BlockMapIndex.malformed_messages).map (mmOf b.earliest tps)) = .ok b.mms := by
    rw [fList_slots _ hnd (vs := b.mms.map (MMRec.toVal b.earliest tps)) (by slot_mem)]
    exact allOk_map_id _ _ _ fun m hmm => mmOf_toVal _ _ m (hm m hmm)
  have has : ((fList (slots (blkSlots b pi tps)) BlockMapIndex.address_event_counts).map aecOf).foldl putAec [] = b.aecs := by
    rw [fList_slots _ hnd (vs := b.aecs.map AEC.toVal) (by slot_mem)]
    exact read_aecs _ ha
  have hst : (fRec (slots (blkSlots b pi tps)) BlockMapIndex.block_statistics).map statsOfRec = b.stats.map norm6 := by
    unfold fRec
    rw [fld_slots_sV _ hnd (o := b.stats.map statsVal) (by slot_mem)]
    cases hs : b.stats with
    | none => rfl
    | some st =>
      have := statsOfRec_statsVal st
      simp only [Option.map_some]
      cases hv : statsVal st with
      | record r => rw [hv] at this; simpa [recOf] using this
      | _ => simp [statsVal] at hv
  rw [e']
  simp only [ofVal, recOf, hpre, hearliest, hpi, hrate, hqs, hms, has, hst, htb]
  rw [fList_slots _ hndT (vs := b.ip.map .str) (by slot_mem),
    fList_slots _ hndT (vs := b.ct.map (pairVal ClassTypeMapIndex.type ClassTypeMapIndex.class_)) (by slot_mem),
    fList_slots _ hndT (vs := b.nr.map .str) (by slot_mem), fList_slots _ hndT (vs := b.sig.map Sig.toVal) (by slot_mem),
    fList_slots _ hndT (vs := b.qlist.map fun l => .list (l.map fun (n : Nat) => .num (n : Int))) (by slot_mem),
    fList_slots _ hndT (vs := b.qrr.map (pairVal QuestionMapIndex.name_index QuestionMapIndex.classtype_index)) (by slot_mem),
    fList_slots _ hndT (vs := b.rrlist.map fun l => .list (l.map fun (n : Nat) => .num (n : Int))) (by slot_mem),
    fList_slots _ hndT (vs := b.rr.map RRe.toVal) (by slot_mem), fList_slots _ hndT (vs := b.mmd.map MMD.toVal) (by slot_mem)]
  rw [map_strOf, map_strOf, map_pairOf _ _ (by decide), map_pairOf _ _ (by decide), map_sigOf, map_natsOf, map_natsOf, map_rrOf, map_mmdOf]
  rfl


/-! ### on a closed block the bounds-checked accessors never throw -/

theorem mem_allRefs_of {b : Blk} {r : Ref} :
    (∃ s ∈ b.sig, r ∈ sigRefs s) ∨ (∃ p ∈ b.qrr, r ∈ qrrRefs p) ∨ (∃ l ∈ b.qlist, r ∈ qlRefs l) ∨ (∃ l ∈ b.rrlist, r ∈ rlRefs l) ∨
    (∃ x ∈ b.rr, r ∈ rrRefs x) ∨ (∃ d ∈ b.mmd, r ∈ mmdRefs d) ∨ (∃ q ∈ b.qrs, r ∈ qRefs q) ∨ (∃ a ∈ b.aecs, r ∈ aecRefs a) ∨
    (∃ m ∈ b.mms, r ∈ mmRefs m) → r ∈ allRefs b := by
  intro h
  simp only [allRefs, List.mem_append, List.mem_flatMap]
  rcases h with h | h | h | h | h | h | h | h | h
  · exact .inl (.inl (.inl (.inl (.inl (.inl (.inl (.inl h)))))))
  · exact .inl (.inl (.inl (.inl (.inl (.inl (.inl (.inr h)))))))
  · exact .inl (.inl (.inl (.inl (.inl (.inl (.inr h))))))
  · exact .inl (.inl (.inl (.inl (.inl (.inr h)))))
  · exact .inl (.inl (.inl (.inl (.inr h))))
  · exact .inl (.inl (.inl (.inr h)))
  · exact .inl (.inl (.inr h))
  · exact .inl (.inr h)
  · exact .inr h

theorem inb_of (len : Nat) (o : Option Nat) (h : ∀ i, o = some i → i < len) : inb len o = true := by
  cases o with
  | none => rfl
  | some i => simpa [inb] using h i rfl

theorem mem_oref {t : Tid} {o : Option Nat} {i : Nat} (h : o = some i) : (t, i) ∈ oref t o := by simp [oref, h]

theorem qrrOk_closed {b : Blk} (hc : Closed b) (j : Nat) (hj : j < b.qrr.length) : qrrOk b j = true := by
  unfold qrrOk
  rw [List.getElem?_eq_getElem hj]
  have hp : b.qrr[j] ∈ b.qrr := List.getElem_mem hj
  have h1 := hc (.nr, b.qrr[j].1) (mem_allRefs_of (.inr (.inl ⟨_, hp, by simp [qrrRefs]⟩)))
  have h2 := hc (.ct, b.qrr[j].2) (mem_allRefs_of (.inr (.inl ⟨_, hp, by simp [qrrRefs]⟩)))
  simp only [len] at h1 h2
  simp [h1, h2]

theorem rrOk_closed {b : Blk} (hc : Closed b) (j : Nat) (hj : j < b.rr.length) : rrOk b j = true := by
  unfold rrOk
  rw [List.getElem?_eq_getElem hj]
  have hp : b.rr[j] ∈ b.rr := List.getElem_mem hj
  have h1 := hc (.nr, b.rr[j].name) (mem_allRefs_of (.inr (.inr (.inr (.inr (.inl ⟨_, hp, by simp [rrRefs]⟩))))))
  have h2 := hc (.ct, b.rr[j].ct) (mem_allRefs_of (.inr (.inr (.inr (.inr (.inl ⟨_, hp, by simp [rrRefs]⟩))))))
  have h3 : inb b.nr.length b.rr[j].rdata = true := inb_of _ _ fun i hi =>
    hc (.nr, i) (mem_allRefs_of (.inr (.inr (.inr (.inr (.inl ⟨_, hp, by simp [rrRefs, oref, hi]⟩))))))
  simp only [len] at h1 h2
  simp [h1, h2, h3]

theorem qlOk_closed {b : Blk} (hc : Closed b) (o : Option Nat) (ho : ∀ i, o = some i → i < b.qlist.length) : qlOk b o = true := by
  cases o with
  | none => rfl
  | some i =>
    have hi := ho i rfl
    simp only [qlOk, List.getElem?_eq_getElem hi, List.all_eq_true]
    intro j hj
    apply qrrOk_closed hc
    have := hc (.qrr, j) (mem_allRefs_of (.inr (.inr (.inl ⟨b.qlist[i], List.getElem_mem hi, by simp [qlRefs]; exact hj⟩))))
    simpa [len] using this

theorem rlOk_closed {b : Blk} (hc : Closed b) (o : Option Nat) (ho : ∀ i, o = some i → i < b.rrlist.length) : rlOk b o = true := by
  cases o with
  | none => rfl
  | some i =>
    have hi := ho i rfl
    simp only [rlOk, List.getElem?_eq_getElem hi, List.all_eq_true]
    intro j hj
    apply rrOk_closed hc
    have := hc (.rr, j) (mem_allRefs_of (.inr (.inr (.inr (.inl ⟨b.rrlist[i], List.getElem_mem hi, by simp [rlRefs]; exact hj⟩)))))
    simpa [len] using this

theorem qreOk_closed {b : Blk} (hc : Closed b) (o : Option QRE) (ho : ∀ r ∈ qreRefs o, r.2 < len b r.1) : qreOk b o = true := by
  cases o with
  | none => rfl
  | some e =>
    simp only [qreOk, Bool.and_eq_true]
    refine ⟨⟨⟨?_, ?_⟩, ?_⟩, ?_⟩
    · exact qlOk_closed hc _ fun i hi => by simpa [len] using ho (.ql, i) (by simp [qreRefs, oref, hi])
    · exact rlOk_closed hc _ fun i hi => by simpa [len] using ho (.rl, i) (by simp [qreRefs, oref, hi])
    · exact rlOk_closed hc _ fun i hi => by simpa [len] using ho (.rl, i) (by simp [qreRefs, oref, hi])
    · exact rlOk_closed hc _ fun i hi => by simpa [len] using ho (.rl, i) (by simp [qreRefs, oref, hi])

theorem qrIdxOk_closed {b : Blk} (hc : Closed b) (q : QRec) (hq : q ∈ b.qrs) : qrIdxOk b q = true := by
  have hr : ∀ r ∈ qRefs q, r.2 < len b r.1 := fun r hr =>
    hc r (mem_allRefs_of (.inr (.inr (.inr (.inr (.inr (.inr (.inl ⟨q, hq, hr⟩))))))))
  simp only [qrIdxOk, Bool.and_eq_true]
  refine ⟨⟨⟨⟨⟨?_, ?_⟩, ?_⟩, ?_⟩, ?_⟩, ?_⟩
  · exact inb_of _ _ fun i hi => by simpa [len] using hr (.ip, i) (by simp [qRefs, oref, hi])
  · cases hs : q.sig with
    | none => rfl
    | some i =>
      have hi : i < b.sig.length := by simpa [len] using hr (.sig, i) (by simp [qRefs, oref, hs])
      simp only [List.getElem?_eq_getElem hi, Bool.and_eq_true]
      have hp : b.sig[i] ∈ b.sig := List.getElem_mem hi
      refine ⟨⟨?_, ?_⟩, ?_⟩
      · exact inb_of _ _ fun j hj => by
          simpa [len] using hc (.ip, j) (mem_allRefs_of (.inl ⟨_, hp, by simp [sigRefs, oref, hj]⟩))
      · exact inb_of _ _ fun j hj => by
          simpa [len] using hc (.ct, j) (mem_allRefs_of (.inl ⟨_, hp, by simp [sigRefs, oref, hj]⟩))
      · exact inb_of _ _ fun j hj => by
          simpa [len] using hc (.nr, j) (mem_allRefs_of (.inl ⟨_, hp, by simp [sigRefs, oref, hj]⟩))
  · exact inb_of _ _ fun i hi => by simpa [len] using hr (.nr, i) (by simp [qRefs, oref, hi])
  · apply inb_of
    intro i hi
    cases hrpd : q.rpd with
    | none => simp [hrpd] at hi
    | some r =>
      simp only [hrpd, Option.bind_some] at hi
      simpa [len] using hr (.nr, i) (by simp [qRefs, hrpd, oref, hi])
  · exact qreOk_closed hc _ fun r hrm => hr r (by simp only [qRefs, List.mem_append]; exact .inl (.inr hrm))
  · exact qreOk_closed hc _ fun r hrm => hr r (by simp only [qRefs, List.mem_append]; exact .inr hrm)

theorem mmIdxOk_closed {b : Blk} (hc : Closed b) (m : MMRec) (hm : m ∈ b.mms) : mmIdxOk b m = true := by
  have hr : ∀ r ∈ mmRefs m, r.2 < len b r.1 := fun r hr =>
    hc r (mem_allRefs_of (.inr (.inr (.inr (.inr (.inr (.inr (.inr (.inr ⟨m, hm, hr⟩)))))))))
  simp only [mmIdxOk, Bool.and_eq_true]
  refine ⟨?_, ?_⟩
  · exact inb_of _ _ fun i hi => by simpa [len] using hr (.ip, i) (by simp [mmRefs, oref, hi])
  · cases hs : m.mdi with
    | none => rfl
    | some i =>
      have hi : i < b.mmd.length := by simpa [len] using hr (.mmd, i) (by simp [mmRefs, oref, hs])
      simp only [List.getElem?_eq_getElem hi]
      have hp : b.mmd[i] ∈ b.mmd := List.getElem_mem hi
      exact inb_of _ _ fun j hj => by
        simpa [len] using hc (.ip, j) (mem_allRefs_of (.inr (.inr (.inr (.inr (.inr (.inl ⟨_, hp, by simp [mmdRefs, oref, hj]⟩)))))))

theorem aecIdxOk_closed {b : Blk} (hc : Closed b) (a : AEC × Nat) (ha : a ∈ b.aecs) : aecIdxOk b a = true := by
  have := hc (.ip, a.1.ai) (mem_allRefs_of (.inr (.inr (.inr (.inr (.inr (.inr (.inr (.inl ⟨a, ha, by simp [aecRefs]⟩)))))))))
  simpa [aecIdxOk, len] using this

/-- on a referentially closed block `read_generic_qr/aec/mm` never throw: the records are the plain index resolution -/
theorem records_closed (b : Blk) (hc : Closed b) :
    ∃ r, records b = .ok r ∧ r.qrs = (b.qrs.map fun q => narrowQ (resolveQ b q)) ∧ r.mms = b.mms.map (resolveM b) ∧
      r.aecs = b.aecs.filterMap fun a => (resolveA b a.1).map fun g => (g, a.2) := by
  have h1 : b.qrs.all (qrIdxOk b) = true := List.all_eq_true.2 fun q hq => qrIdxOk_closed hc q hq
  have h2 : b.aecs.all (aecIdxOk b) = true := List.all_eq_true.2 fun a ha => aecIdxOk_closed hc a ha
  have h3 : b.mms.all (mmIdxOk b) = true := List.all_eq_true.2 fun m hm => mmIdxOk_closed hc m hm
  refine ⟨{ qrs := b.qrs.map (fun q => narrowQ (resolveQ b q)), aecs := b.aecs.filterMap fun a => (resolveA b a.1).map fun g => (g, a.2),
            mms := b.mms.map (resolveM b) }, ?_, rfl, rfl, rfl⟩
  simp only [records, h1, h2, h3, Bool.and_self, if_true]

/-- resolution does not look at the statistics -/
theorem resolve_readBackOf (b : Blk) :
    (readBackOf b).qrs.map (resolveQ (readBackOf b)) = b.qrs.map (resolveQ b) ∧
    (readBackOf b).mms.map (resolveM (readBackOf b)) = b.mms.map (resolveM b) := ⟨rfl, rfl⟩

theorem closed_readBackOf (b : Blk) (hc : Closed b) : Closed (readBackOf b) := hc


/-! ### a block that was READ, written again (cdns-merge: `writer.write_block(block)` on a `CdnsBlockRead`) and read again -/

theorem allOk_mem {α : Type} (l : List (Except RErr α)) (xs : List α) (h : allOk l = .ok xs) : ∀ x ∈ xs, .ok x ∈ l := by
  induction l generalizing xs with
  | nil => simp only [allOk, Except.ok.injEq] at h; subst h; intro x hx; cases hx
  | cons e l ih =>
    cases e with
    | error e => simp [allOk] at h
    | ok y =>
      simp only [allOk] at h
      cases hr : allOk l with
      | error e => rw [hr] at h; cases h
      | ok ys =>
        rw [hr] at h
        simp only [Except.ok.injEq] at h
        subst h
        intro x hx
        rcases List.mem_cons.1 hx with rfl | hx'
        · exact List.mem_cons_self
        · exact List.mem_cons_of_mem _ (ih ys hr x hx')

/-- a time the block reader produced comes from `add_time_offset` on the block's earliest time -/
def FromAdd (earliest : Ts) (tps : Nat) (ts : Option Ts) : Prop :=
  ∀ t, ts = some t → ∃ off, addTimeOffset earliest off tps = .ok t

theorem timeOf_fromAdd (earliest : Ts) (tps : Nat) (o : Option Nat) (ts : Option Ts) (h : timeOf earliest tps o = .ok ts) :
    FromAdd earliest tps ts := by
  intro t ht
  subst ht
  cases o with
  | none => simp [timeOf] at h
  | some n =>
    simp only [timeOf] at h
    cases ha : addTimeOffset earliest (toI64 n) tps with
    | error e => rw [ha] at h; cases h
    | ok t' =>
      rw [ha] at h
      simp only [Except.ok.injEq, Option.some.injEq] at h
      exact ⟨toI64 n, h ▸ ha⟩

theorem qrOf_fromAdd (earliest : Ts) (tps : Nat) (v : Val) (q : QRec) (h : qrOf earliest tps v = .ok q) : FromAdd earliest tps q.ts := by
  unfold qrOf at h
  cases ht : timeOf earliest tps (fNat (recOf v) QueryResponseMapIndex.time_offset) with
  | error e => simp only [ht] at h; cases h
  | ok ts =>
    simp only [ht, Except.ok.injEq] at h
    have : q.ts = ts := by rw [← h]
    rw [this]
    exact timeOf_fromAdd _ _ _ _ ht

theorem mmOf_fromAdd (earliest : Ts) (tps : Nat) (v : Val) (m : MMRec) (h : mmOf earliest tps v = .ok m) : FromAdd earliest tps m.ts := by
  unfold mmOf at h
  cases ht : timeOf earliest tps (fNat (recOf v) MalformedMessageMapIndex.time_offset) with
  | error e => simp only [ht] at h; cases h
  | ok ts =>
    simp only [ht, Except.ok.injEq] at h
    have : m.ts = ts := by rw [← h]
    rw [this]
    exact timeOf_fromAdd _ _ _ _ ht

theorem nodup_of_nodup_map {α β : Type} (f : α → β) (l : List α) (h : (l.map f).Nodup) : l.Nodup := by
  induction l with
  | nil => exact List.nodup_nil
  | cons a l ih =>
    rw [List.map_cons, List.nodup_cons] at h
    rw [List.nodup_cons]
    exact ⟨fun ha => h.1 (List.mem_map_of_mem (f := f) ha), ih h.2⟩

theorem putAec_nodup (acc : List (AEC × Nat)) (e : AEC × Nat) (h : acc.Nodup) : (putAec acc e).Nodup := by
  unfold putAec
  by_cases hany : acc.any (· == e) = true
  · simp only [hany, if_true]; exact h
  · simp only [hany, Bool.false_eq_true, if_false]
    rw [List.nodup_append]
    refine ⟨h, by simp, ?_⟩
    intro a ha b hb
    simp only [List.mem_singleton] at hb
    subst hb
    intro hab
    subst hab
    exact hany (List.any_eq_true.2 ⟨a, ha, by simp⟩)

theorem foldl_putAec_nodup (l acc : List (AEC × Nat)) (h : acc.Nodup) : (l.foldl putAec acc).Nodup := by
  induction l generalizing acc with
  | nil => exact h
  | cons e l ih => exact ih _ (putAec_nodup acc e h)

/-- what a successful `ofVal` tells about the block object: every record time comes from `add_time_offset` on the block's
    earliest time under the block's tick rate, the rate is that of the parameter set named, address-event entries are pairwise different -/
theorem ofVal_facts (rates : List Nat) (v : Val) (rb : RdBlk) (h : ofVal rates v = .ok rb) :
    (∀ q ∈ rb.blk.qrs, FromAdd rb.blk.earliest rb.tps q.ts) ∧ (∀ m ∈ rb.blk.mms, FromAdd rb.blk.earliest rb.tps m.ts) ∧
    rb.blk.aecs.Nodup ∧ rateFor rates rb.pi = .ok rb.tps := by
  unfold ofVal at h
  cases hpre : fRec (recOf v) BlockMapIndex.block_preamble with
  | none => simp only [hpre] at h; cases h
  | some pre =>
    simp only [hpre] at h
    cases he : earliestOf pre with
    | error e => simp only [he] at h; cases h
    | ok earliest =>
      simp only [he] at h
      cases hr : rateFor rates (fNat pre BlockPreambleMapIndex.block_parameters_index) with
      | error e => simp only [hr] at h; cases h
      | ok tps =>
        simp only [hr] at h
        cases hq : allOk ((fList (recOf v) BlockMapIndex.query_responses).map (qrOf earliest tps)) with
        | error e => simp only [hq] at h; cases h
        | ok qrs =>
          simp only [hq] at h
          cases hm : allOk ((fList (recOf v) BlockMapIndex.malformed_messages).map (mmOf earliest tps)) with
          | error e => simp only [hm] at h; cases h
          | ok mms =>
            simp only [hm, Except.ok.injEq] at h
            subst h
            refine ⟨?_, ?_, ?_, hr⟩
            · intro q hqm
              obtain ⟨w, _, hw⟩ := List.mem_map.1 (allOk_mem _ _ hq q hqm)
              exact qrOf_fromAdd _ _ w q hw
            · intro m hmm
              obtain ⟨w, _, hw⟩ := List.mem_map.1 (allOk_mem _ _ hm m hmm)
              exact mmOf_fromAdd _ _ w m hw
            · exact foldl_putAec_nodup _ [] List.nodup_nil

theorem timeBack_of_fromAdd (e : Ts) (r : Nat) (hr : 1 ≤ r) (he : Props.C17.InRange e r) (ts : Option Ts) (h : FromAdd e r ts) :
    TimeBack e r ts := by
  unfold TimeBack
  cases ts with
  | none => rfl
  | some t =>
    obtain ⟨off, hoff⟩ := h t rfl
    obtain ⟨d, hd1, hd2⟩ := Props.C17.reoffset_recovers e off r hr he t hoff
    simp only [Option.bind_some, offsetOf, hd1, timeOf, hd2]

/-- **Write-after-read is the identity on what is read.**  A block object obtained by reading (any file, any writer), written
    again under any parameter index whose set carries the block's tick rate, and read again, is the same block object – tables,
    items with their times, address-event counts, statistics – with the new index; in particular its records are unchanged. -/
theorem reread_of_read_block (rates rates' : List Nat) (v : Val) (rb : RdBlk) (hread : ofVal rates v = .ok rb) (pi' : Option Nat)
    (hr : 1 ≤ rb.tps) (he : Props.C17.InRange rb.blk.earliest rb.tps) (hrate : rateFor rates' pi' = .ok rb.tps) :
    ofVal rates' (toVal rb.blk pi' rb.tps) = .ok { blk := readBackOf rb.blk, pi := pi', tps := rb.tps } := by
  obtain ⟨hq, hm, ha, _⟩ := ofVal_facts rates v rb hread
  exact ofVal_toVal rates' rb.blk pi' rb.tps hrate
    (fun q hqm => timeBack_of_fromAdd _ _ hr he _ (hq q hqm)) (fun m hmm => timeBack_of_fromAdd _ _ hr he _ (hm m hmm)) ha


end CdnsVerif.Model.ReadBlock
