/-
  The byte-level struct reader computes the denotation: for EVERY well-formed encoding `i`
  (any head widths, definite or indefinite containers, chunked strings, members in any order,
  unknown members carrying any well-formed value) with `denote k i = some v`, `readVal` returns
  `v` and stops exactly behind the item.  (Helper lemmas and the induction; the property
  theorems are in Props/C08.lean.)
-/
import CdnsVerif.Proofs.Schema

namespace CdnsVerif.Model.Schema
open CdnsVerif.Spec.Cbor CdnsVerif.Model CdnsVerif.Model.Decoder CdnsVerif.Props

/-! ### keys and integers -/

theorem readInteger_saturates_uint (w : Width) (n : Nat) (h : w.fits n) (hn : n > int64Max) (rest : Bytes) :
    readInteger.run ((Item.uint w n).enc ++ rest) = .ok ((int64Max : Int), rest) := by
  unfold readInteger
  rw [Item.enc, peek_head mUint (by decide) w n h]
  simp only [tUnsigned_eq, if_true]
  have := C07.readUnsigned_accepts w n h rest
  rw [Item.enc] at this
  rw [Prog.run_bind_ok _ _ _ _ _ this]
  simp [hn]

theorem readInteger_saturates_nint (w : Width) (n : Nat) (h : w.fits n) (hn : n > int64Max) (rest : Bytes) :
    readInteger.run ((Item.nint w n).enc ++ rest) = .ok (-(int64Max : Int) - 1, rest) := by
  unfold readInteger
  rw [Item.enc, peek_head mNint (by decide) w n h]
  have e1 : ¬ (mNint * 32 = tUnsigned) := by decide
  have e2 : mNint * 32 = tNegative := by decide
  simp only [e1, e2, if_false, if_true]
  have := C07.readNegative_saturates w n h (by unfold int64Max at hn; omega) rest
  rw [Item.enc] at this
  have e : (-(int64Max : Int) - 1) = -(2 ^ 63 : Int) := by unfold int64Max; omega
  rw [e]
  exact this

/-- `read_integer()` returns what `intOf` says, for every width -/
theorem run_readInteger_intOf (i : Item) (key : Int) (hk : intOf i = some key) (hwf : i.WF) (rest : Bytes) :
    readInteger.run (i.enc ++ rest) = .ok (key, rest) := by
  cases i with
  | uint w n =>
    simp only [intOf, Option.some.injEq] at hk
    subst hk
    by_cases hn : n > int64Max
    · simp only [hn, if_true]; exact readInteger_saturates_uint w n hwf hn rest
    · simp only [hn, if_false]
      exact C07.readInteger_accepts_uint w n hwf (by unfold int64Max at hn; omega) rest
  | nint w n =>
    simp only [intOf, Option.some.injEq] at hk
    subst hk
    by_cases hn : n > int64Max
    · simp only [hn, if_true]; exact readInteger_saturates_nint w n hwf hn rest
    · simp only [hn, if_false]
      exact C07.readInteger_accepts_nint w n hwf (by unfold int64Max at hn; omega) rest
  | _ => simp [intOf] at hk

/-- the type peeked in front of a well-formed item is never BREAK -/
theorem peek_item (i : Item) (hwf : i.WF) (rest : Bytes) (f : Nat → Prog α) :
    ∃ t, t ≠ tBreak ∧ (peekType >>= f).run (i.enc ++ rest) = (f t).run (i.enc ++ rest) := by
  obtain ⟨b, tl, he, hb⟩ := enc_first i hwf
  refine ⟨b / 32 * 32, by rw [tBreak_eq]; omega, ?_⟩
  rw [he, List.cons_append, Prog.run_bind_ok _ _ _ _ _ (run_peekType _ _)]
  have h1 : ¬ (b = tBreak) := by rw [tBreak_eq]; exact hb
  simp only [h1, if_false]

theorem run_peek_item (i : Item) (hwf : i.WF) (rest : Bytes) (f : Nat → Prog α) (r : Except Err (α × Bytes))
    (h : ∀ t, t ≠ tBreak → (f t).run (i.enc ++ rest) = r) : (peekType >>= f).run (i.enc ++ rest) = r := by
  obtain ⟨t, ht, hp⟩ := peek_item i hwf rest f
  rw [hp]; exact h t ht

theorem peek_break (rest : Bytes) (f : Nat → Prog α) :
    (peekType >>= f).run (breakByte :: rest) = (f tBreak).run (breakByte :: rest) := by
  rw [Prog.run_bind_ok _ _ _ _ _ (run_peekType _ _)]
  have : breakByte = tBreak := by decide
  simp [this]

theorem steps_pos (i : Item) : 1 ≤ steps i := by cases i <;> simp [steps]

/-! ### the induction -/

/-- the five statements proved together by induction on the fuel -/
def RD (fuel : Nat) : Prop :=
  (∀ k i v rest, i.WF → denote k i = some v → steps i + cfuel i ≤ fuel →
      (readVal fuel k).run (i.enc ++ rest) = .ok (v, rest)) ∧
  (∀ k items vs acc rest, Item.WFList items → denoteList k items = some vs → stepsList items + cfuelList items + 1 ≤ fuel →
      (readElems fuel k items.length false acc).run (Item.encList items ++ rest) = .ok (acc ++ vs, rest)) ∧
  (∀ k items vs acc rest n, Item.WFList items → denoteList k items = some vs → stepsList items + cfuelList items + 1 ≤ fuel →
      (readElems fuel k n true acc).run (Item.encList items ++ breakByte :: rest) = .ok (acc ++ vs, rest)) ∧
  (∀ fs items acc out rest, Item.WFList items → items.length % 2 = 0 → denotePairs fs items acc = some out →
      stepsList items + cfuelList items + 1 ≤ fuel →
      (readFields fuel fs (items.length / 2) false acc).run (Item.encList items ++ rest) = .ok (out, rest)) ∧
  (∀ fs items acc out rest n, Item.WFList items → items.length % 2 = 0 → denotePairs fs items acc = some out →
      stepsList items + cfuelList items + 1 ≤ fuel →
      (readFields fuel fs n true acc).run (Item.encList items ++ breakByte :: rest) = .ok (out, rest))

theorem rd_zero : RD 0 := by
  refine ⟨?_, ?_, ?_, ?_, ?_⟩
  · intro k i v rest _ _ h; have := steps_pos i; omega
  · intro k items vs acc rest _ _ h; omega
  · intro k items vs acc rest n _ _ h; omega
  · intro fs items acc out rest _ _ _ h; omega
  · intro fs items acc out rest n _ _ _ h; omega

theorem rd_succ_A (fuel : Nat) (ih : RD fuel) :
    ∀ k i v rest, i.WF → denote k i = some v → steps i + cfuel i ≤ fuel + 1 →
      (readVal (fuel + 1) k).run (i.enc ++ rest) = .ok (v, rest) := by
  obtain ⟨_, ihB, ihB', ihC, ihC'⟩ := ih
  intro k i v rest hwf hd hf
  cases k with
  | uint bits =>
    cases i with
    | uint w n =>
      simp only [denote, Option.some.injEq] at hd; subst hd
      simp only [readVal]
      rw [Prog.run_bind_ok _ _ _ _ _ (C07.readUnsigned_accepts w n hwf rest)]
      rfl
    | _ => simp [denote] at hd
  | int64 =>
    have hk : ∃ key, intOf i = some key ∧ v = .num key := by
      cases i with
      | uint w n => simp only [denote, Option.map_eq_some_iff] at hd; obtain ⟨a, h1, h2⟩ := hd; exact ⟨a, h1, h2.symm⟩
      | nint w n => simp only [denote, Option.map_eq_some_iff] at hd; obtain ⟨a, h1, h2⟩ := hd; exact ⟨a, h1, h2.symm⟩
      | _ => simp [denote] at hd
    obtain ⟨key, hk, rfl⟩ := hk
    simp only [readVal]
    rw [Prog.run_bind_ok _ _ _ _ _ (run_readInteger_intOf i key hk hwf rest)]
    rfl
  | tstr =>
    cases i with
    | tstr w b =>
      simp only [denote, Option.some.injEq] at hd; subst hd
      simp only [readVal]
      rw [Prog.run_bind_ok _ _ _ _ _ (C07.readTextstring_accepts w b hwf.1 fuel rest)]
      rfl
    | tstrI cs =>
      simp only [denote, Option.some.injEq] at hd; subst hd
      simp only [readVal]
      have hf' : cs.length + 1 ≤ fuel := by simp only [steps, cfuel] at hf; omega
      rw [Prog.run_bind_ok _ _ _ _ _ (C07.readTextstring_accepts_chunked cs hwf fuel hf' rest)]
      rfl
    | _ => simp [denote] at hd
  | bstr =>
    cases i with
    | bstr w b =>
      simp only [denote, Option.some.injEq] at hd; subst hd
      simp only [readVal]
      rw [Prog.run_bind_ok _ _ _ _ _ (C07.readBytestring_accepts w b hwf.1 fuel rest)]
      rfl
    | bstrI cs =>
      simp only [denote, Option.some.injEq] at hd; subst hd
      simp only [readVal]
      have hf' : cs.length + 1 ≤ fuel := by simp only [steps, cfuel] at hf; omega
      rw [Prog.run_bind_ok _ _ _ _ _ (C07.readBytestring_accepts_chunked cs hwf fuel hf' rest)]
      rfl
    | _ => simp [denote] at hd
  | bool =>
    cases i with
    | simple n =>
      simp only [denote] at hd
      by_cases h20 : n = 20
      · subst h20
        simp only [if_true, Option.some.injEq] at hd; subst hd
        simp only [readVal]
        have hb : readBool.run ((Item.simple 20).enc ++ rest) = .ok (false, rest) := C07.readBool_accepts false rest
        rw [Prog.run_bind_ok _ _ _ _ _ hb]
        rfl
      · by_cases h21 : n = 21
        · subst h21
          simp only [if_true, Option.some.injEq] at hd
          have : v = .bool true := by simpa using hd.symm
          subst this
          simp only [readVal]
          have hb : readBool.run ((Item.simple 21).enc ++ rest) = .ok (true, rest) := C07.readBool_accepts true rest
          rw [Prog.run_bind_ok _ _ _ _ _ hb]
          rfl
        · simp [h20, h21] at hd
    | _ => simp [denote] at hd
  | arr ek =>
    cases i with
    | arr w items =>
      simp only [denote, Option.map_eq_some_iff] at hd
      obtain ⟨vs, hvs, rfl⟩ := hd
      simp only [readVal]
      rw [Prog.run_bind_ok _ _ _ _ _ (C07.readArrayStart_accepts w items hwf.1 rest)]
      simp only
      have hf' : stepsList items + cfuelList items + 1 ≤ fuel := by simp only [steps, cfuel] at hf; omega
      rw [Prog.run_bind_ok _ _ _ _ _ (ihB ek items vs [] rest hwf.2 hvs hf')]
      rfl
    | arrI items =>
      simp only [denote, Option.map_eq_some_iff] at hd
      obtain ⟨vs, hvs, rfl⟩ := hd
      simp only [readVal]
      rw [Prog.run_bind_ok _ _ _ _ _ (C07.readArrayStart_accepts_indef items rest)]
      simp only [List.append_assoc, List.singleton_append]
      have hf' : stepsList items + cfuelList items + 1 ≤ fuel := by simp only [steps, cfuel] at hf; omega
      rw [Prog.run_bind_ok _ _ _ _ _ (ihB' ek items vs [] rest 0 hwf hvs hf')]
      rfl
    | _ => simp [denote] at hd
  | struct fs =>
    cases i with
    | map w items =>
      simp only [denote] at hd
      split at hd
      · rename_i ms hms
        split at hd
        · rename_i hreq
          simp only [Option.some.injEq] at hd; subst hd
          simp only [readVal]
          rw [Prog.run_bind_ok _ _ _ _ _ (C07.readMapStart_accepts w items hwf.1 rest)]
          simp only
          have hf' : stepsList items + cfuelList items + 1 ≤ fuel := by simp only [steps, cfuel] at hf; omega
          rw [Prog.run_bind_ok _ _ _ _ _ (ihC fs items [] ms rest hwf.2.2 hwf.2.1 hms hf')]
          simp only [hreq, if_true]
          rfl
        · cases hd
      · cases hd
    | mapI items =>
      simp only [denote] at hd
      split at hd
      · rename_i ms hms
        split at hd
        · rename_i hreq
          simp only [Option.some.injEq] at hd; subst hd
          simp only [readVal]
          rw [Prog.run_bind_ok _ _ _ _ _ (C07.readMapStart_accepts_indef items rest)]
          simp only [List.append_assoc, List.singleton_append]
          have hf' : stepsList items + cfuelList items + 1 ≤ fuel := by simp only [steps, cfuel] at hf; omega
          rw [Prog.run_bind_ok _ _ _ _ _ (ihC' fs items [] ms rest 0 hwf.2 hwf.1 hms hf')]
          simp only [hreq, if_true]
          rfl
        · cases hd
      · cases hd
    | _ => simp [denote] at hd

theorem denoteList_cons (k : Kind) (i : Item) (is : List Item) (vs : List Val) (h : denoteList k (i :: is) = some vs) :
    ∃ v vs', denote k i = some v ∧ denoteList k is = some vs' ∧ vs = v :: vs' := by
  simp only [denoteList] at h
  split at h
  · rename_i v vs' h1 h2
    simp only [Option.some.injEq] at h
    exact ⟨v, vs', h1, h2, h.symm⟩
  · cases h

theorem rd_succ_B (fuel : Nat) (ih : RD fuel) :
    ∀ k items vs acc rest, Item.WFList items → denoteList k items = some vs → stepsList items + cfuelList items + 1 ≤ fuel + 1 →
      (readElems (fuel + 1) k items.length false acc).run (Item.encList items ++ rest) = .ok (acc ++ vs, rest) := by
  obtain ⟨ihA, ihB, _, _, _⟩ := ih
  intro k items vs acc rest hwf hd hf
  cases items with
  | nil =>
    simp only [denoteList, Option.some.injEq] at hd; subst hd
    simp [readElems, Item.encList]
  | cons i is =>
    obtain ⟨v, vs', h1, h2, rfl⟩ := denoteList_cons k i is vs hd
    simp only [Item.WFList] at hwf
    simp only [stepsList, cfuelList] at hf
    have := steps_pos i
    simp only [readElems, List.length_cons, Item.encList]
    have hne : ¬ (is.length + 1 = 0 ∧ True) := by simp
    simp only [hne, if_false, Bool.false_eq_true]
    rw [List.append_assoc, Prog.run_bind_ok _ _ _ _ _ (ihA k i v _ hwf.1 h1 (by omega))]
    simp only [Nat.add_sub_cancel]
    rw [ihB k is vs' (acc ++ [v]) rest hwf.2 h2 (by omega)]
    simp

theorem rd_succ_B' (fuel : Nat) (ih : RD fuel) :
    ∀ k items vs acc rest n, Item.WFList items → denoteList k items = some vs → stepsList items + cfuelList items + 1 ≤ fuel + 1 →
      (readElems (fuel + 1) k n true acc).run (Item.encList items ++ breakByte :: rest) = .ok (acc ++ vs, rest) := by
  obtain ⟨ihA, _, ihB', _, _⟩ := ih
  intro k items vs acc rest n hwf hd hf
  have hne : ¬ (n = 0 ∧ true = false) := by simp
  cases items with
  | nil =>
    simp only [denoteList, Option.some.injEq] at hd; subst hd
    simp only [readElems, hne, if_false, if_true, Item.encList, List.nil_append]
    rw [peek_break]
    simp only [if_true]
    rw [Prog.run_bind_ok _ _ _ _ _ (readBreak_accepts rest)]
    simp
  | cons i is =>
    obtain ⟨v, vs', h1, h2, rfl⟩ := denoteList_cons k i is vs hd
    simp only [Item.WFList] at hwf
    simp only [stepsList, cfuelList] at hf
    have := steps_pos i
    simp only [readElems, hne, if_false, if_true, Item.encList]
    rw [List.append_assoc]
    obtain ⟨t, ht, hp⟩ := peek_item i hwf.1 (Item.encList is ++ breakByte :: rest)
      (fun t => if t = tBreak then do readBreak; pure acc else do
        let v ← readVal fuel k
        readElems fuel k (n - 1) true (acc ++ [v]))
    rw [hp]
    simp only [ht, if_false]
    rw [Prog.run_bind_ok _ _ _ _ _ (ihA k i v _ hwf.1 h1 (by omega))]
    rw [ihB' k is vs' (acc ++ [v]) rest (n - 1) hwf.2 h2 (by omega)]
    simp

/-- one step of `denotePairs`, as the reader sees it -/
theorem denotePairs_cons (fs : List Field) (kI vI : Item) (rest : List Item) (acc out : List (Int × Val))
    (h : denotePairs fs (kI :: vI :: rest) acc = some out) :
    ∃ key, intOf kI = some key ∧
      ((∃ f v, fs.find? (fun f => f.key == key) = some f ∧ denote f.kind vI = some v ∧
          denotePairs fs rest (setKey acc key v) = some out) ∨
       (fs.find? (fun f => f.key == key) = none ∧ denotePairs fs rest acc = some out)) := by
  simp only [denotePairs] at h
  split at h
  · cases h
  · rename_i key hk
    refine ⟨key, hk, ?_⟩
    split at h
    · rename_i f hf
      split at h
      · rename_i v hv
        exact Or.inl ⟨f, v, hf, hv, h⟩
      · cases h
    · rename_i hf
      exact Or.inr ⟨hf, h⟩

/-- the body of one iteration of the member loop (shared by the definite and indefinite case) -/
theorem run_fields_body (fuel : Nat) (ih : RD fuel) (fs : List Field) (kI vI : Item) (items : List Item)
    (acc out : List (Int × Val)) (tail res : Bytes) (n : Nat) (indef : Bool)
    (hk : kI.WF) (hv : vI.WF) (hd : denotePairs fs (kI :: vI :: items) acc = some out)
    (hf : steps kI + steps vI + cfuel kI + cfuel vI ≤ fuel)
    (hrec : ∀ acc', denotePairs fs items acc' = some out →
        (readFields fuel fs n indef acc').run (Item.encList items ++ tail) = .ok (out, res)) :
    (do
        let key ← readInteger
        match fs.find? (fun f => f.key == key) with
        | some f => do
          let v ← readVal fuel f.kind
          readFields fuel fs n indef (setKey acc key v)
        | none => do
          skipItem (3 * fuel + 2)
          readFields fuel fs n indef acc : Prog (List (Int × Val))).run
      (kI.enc ++ (vI.enc ++ (Item.encList items ++ tail))) = .ok (out, res) := by
  obtain ⟨ihA, _, _, _, _⟩ := ih
  obtain ⟨key, hkey, hcase⟩ := denotePairs_cons fs kI vI items acc out hd
  rw [Prog.run_bind_ok _ _ _ _ _ (run_readInteger_intOf kI key hkey hk _)]
  rcases hcase with ⟨f, v, hfind, hden, hrest⟩ | ⟨hfind, hrest⟩
  · simp only [hfind]
    rw [Prog.run_bind_ok _ _ _ _ _ (ihA f.kind vI v _ hv hden (by omega))]
    exact hrec _ hrest
  · simp only [hfind]
    have hs := C07.skip_exact vI hv (3 * fuel + 2) (by omega) (by omega) (Item.encList items ++ tail)
    rw [Prog.run_bind_ok _ _ _ _ _ hs]
    exact hrec _ hrest

theorem rd_succ_C (fuel : Nat) (ih : RD fuel) :
    ∀ fs items acc out rest, Item.WFList items → items.length % 2 = 0 → denotePairs fs items acc = some out →
      stepsList items + cfuelList items + 1 ≤ fuel + 1 →
      (readFields (fuel + 1) fs (items.length / 2) false acc).run (Item.encList items ++ rest) = .ok (out, rest) := by
  have ihC := ih.2.2.2.1
  intro fs items acc out rest hwf hev hd hf
  match items, hwf, hev, hd, hf with
  | [], _, _, hd, _ =>
    simp only [denotePairs, Option.some.injEq] at hd; subst hd
    simp [readFields, Item.encList]
  | [x], _, hev, _, _ => simp at hev
  | kI :: vI :: items, hwf, hev, hd, hf =>
    simp only [Item.WFList] at hwf
    simp only [stepsList, cfuelList] at hf
    have h1 := steps_pos kI
    have hl : (kI :: vI :: items).length / 2 = items.length / 2 + 1 := by simp only [List.length_cons]; omega
    have hev' : items.length % 2 = 0 := by simp only [List.length_cons] at hev; omega
    rw [hl]
    simp only [readFields]
    have hne : ¬ (items.length / 2 + 1 = 0 ∧ True) := by simp
    simp only [hne, if_false, Bool.false_eq_true, Nat.add_sub_cancel, Item.encList, List.append_assoc]
    exact run_fields_body fuel ih fs kI vI items acc out rest rest (items.length / 2) false hwf.1 hwf.2.1 hd (by omega)
      (fun acc' h' => ihC fs items acc' out rest hwf.2.2 hev' h' (by omega))

theorem rd_succ_C' (fuel : Nat) (ih : RD fuel) :
    ∀ fs items acc out rest n, Item.WFList items → items.length % 2 = 0 → denotePairs fs items acc = some out →
      stepsList items + cfuelList items + 1 ≤ fuel + 1 →
      (readFields (fuel + 1) fs n true acc).run (Item.encList items ++ breakByte :: rest) = .ok (out, rest) := by
  have ihC' := ih.2.2.2.2
  intro fs items acc out rest n hwf hev hd hf
  have hne : ¬ (n = 0 ∧ true = false) := by simp
  match items, hwf, hev, hd, hf with
  | [], _, _, hd, _ =>
    simp only [denotePairs, Option.some.injEq] at hd; subst hd
    simp only [readFields, hne, if_false, if_true, Item.encList, List.nil_append]
    rw [peek_break]
    simp only [if_true]
    rw [Prog.run_bind_ok _ _ _ _ _ (readBreak_accepts rest)]
    simp
  | [x], _, hev, _, _ => simp at hev
  | kI :: vI :: items, hwf, hev, hd, hf =>
    simp only [Item.WFList] at hwf
    simp only [stepsList, cfuelList] at hf
    have h1 := steps_pos kI
    have hev' : items.length % 2 = 0 := by simp only [List.length_cons] at hev; omega
    simp only [readFields, hne, if_false, if_true, Item.encList, List.append_assoc]
    apply run_peek_item kI hwf.1
    intro t ht
    simp only [ht, if_false]
    exact run_fields_body fuel ih fs kI vI items acc out (breakByte :: rest) rest (n - 1) true hwf.1 hwf.2.1 hd (by omega)
      (fun acc' h' => ihC' fs items acc' out rest (n - 1) hwf.2.2 hev' h' (by omega))

theorem rd_all (fuel : Nat) : RD fuel := by
  induction fuel with
  | zero => exact rd_zero
  | succ n ih => exact ⟨rd_succ_A n ih, rd_succ_B n ih, rd_succ_B' n ih, rd_succ_C n ih, rd_succ_C' n ih⟩

end CdnsVerif.Model.Schema
