/-
  Properties of the block-building model `Model.Builder`: storage hints are honoured by everything it
  stores (helper lemmas and invariants; the property theorems are in Props/C04.lean).
-/
import CdnsVerif.Model.Builder

namespace CdnsVerif.Model.Builder
open CdnsVerif.Spec.Cbor CdnsVerif.Generated

/-! ### guards -/

theorem keep_isSome {c : Bool} {o : Option α} (h : (keep c o).isSome = true) : c = true := by
  unfold keep at h; cases c <;> simp_all

theorem addOpt_isSome {c : Bool} {o : Option α} {add : Blk → α → Blk × Nat} {b : Blk}
    (h : (addOpt c o add b).2.isSome = true) : c = true := by
  unfold addOpt at h
  cases c <;> cases o <;> simp_all

theorem addSection_isSome {c : Bool} {o : Option (List GRR)} {add : Blk → List GRR → Blk × Nat} {b : Blk}
    (h : (addSection c o add b).2.isSome = true) : c = true := by
  unfold addSection at h
  cases c
  · simp at h
  · rfl

theorem ite_some_eq {c : Prop} [Decidable c] {x e : α} (h : (if c then some x else none) = some e) : e = x := by
  split at h <;> simp_all

/-! ### what "honours the hints" means for each stored structure -/

def SigHonours (h : Hints) (s : Sig) : Prop :=
  (s.sai.isSome → on h.sigh QueryResponseSignatureHintsMask.server_address_index = true) ∧
  (s.port.isSome → on h.sigh QueryResponseSignatureHintsMask.server_port = true) ∧
  (s.tf.isSome → on h.sigh QueryResponseSignatureHintsMask.qr_transport_flags = true) ∧
  (s.qt.isSome → on h.sigh QueryResponseSignatureHintsMask.qr_type = true) ∧
  (s.sf.isSome → on h.sigh QueryResponseSignatureHintsMask.qr_sig_flags = true) ∧
  (s.op.isSome → on h.sigh QueryResponseSignatureHintsMask.query_opcode = true) ∧
  (s.df.isSome → on h.sigh QueryResponseSignatureHintsMask.qr_dns_flags = true) ∧
  (s.qrc.isSome → on h.sigh QueryResponseSignatureHintsMask.query_rcode = true) ∧
  (s.cti.isSome → on h.sigh QueryResponseSignatureHintsMask.query_classtype_index = true) ∧
  (s.qd.isSome → on h.sigh QueryResponseSignatureHintsMask.query_qdcount = true) ∧
  (s.an.isSome → on h.sigh QueryResponseSignatureHintsMask.query_ancount = true) ∧
  (s.ns.isSome → on h.sigh QueryResponseSignatureHintsMask.query_nscount = true) ∧
  (s.ar.isSome → on h.sigh QueryResponseSignatureHintsMask.query_arcount = true) ∧
  (s.ev.isSome → on h.sigh QueryResponseSignatureHintsMask.query_edns_version = true) ∧
  (s.us.isSome → on h.sigh QueryResponseSignatureHintsMask.query_udp_size = true) ∧
  (s.ordi.isSome → on h.sigh QueryResponseSignatureHintsMask.query_opt_rdata_index = true) ∧
  (s.rrc.isSome → on h.sigh QueryResponseSignatureHintsMask.response_rcode = true)

def RrHonours (h : Hints) (r : RRe) : Prop :=
  (r.ttl.isSome → on h.rrh RrHintsMask.ttl = true) ∧ (r.rdata.isSome → on h.rrh RrHintsMask.rdata_index = true)

def QHonours (h : Hints) (q : QRec) : Prop :=
  (q.ts.isSome → on h.qrh QueryResponseHintsMask.time_offset = true) ∧
  (q.cai.isSome → on h.qrh QueryResponseHintsMask.client_address_index = true) ∧
  (q.cport.isSome → on h.qrh QueryResponseHintsMask.client_port = true) ∧
  (q.tid.isSome → on h.qrh QueryResponseHintsMask.transaction_id = true) ∧
  (q.sig.isSome → on h.qrh QueryResponseHintsMask.qr_signature_index = true) ∧
  (q.hl.isSome → on h.qrh QueryResponseHintsMask.client_hoplimit = true) ∧
  (q.rd.isSome → on h.qrh QueryResponseHintsMask.response_delay = true) ∧
  (q.qn.isSome → on h.qrh QueryResponseHintsMask.query_name_index = true) ∧
  (q.qs.isSome → on h.qrh QueryResponseHintsMask.query_size = true) ∧
  (q.rs.isSome → on h.qrh QueryResponseHintsMask.response_size = true) ∧
  (q.rpd.isSome → on h.qrh QueryResponseHintsMask.response_processing_data = true) ∧
  (∀ e, q.qx = some e →
    (e.q.isSome → on h.qrh QueryResponseHintsMask.query_question_sections = true) ∧
    (e.an.isSome → on h.qrh QueryResponseHintsMask.query_answer_sections = true) ∧
    (e.au.isSome → on h.qrh QueryResponseHintsMask.query_authority_sections = true) ∧
    (e.ad.isSome → on h.qrh QueryResponseHintsMask.query_additional_sections = true)) ∧
  (∀ e, q.rx = some e →
    (e.q.isSome → on h.qrh QueryResponseHintsMask.query_question_sections = true) ∧
    (e.an.isSome → on h.qrh QueryResponseHintsMask.response_answer_sections = true) ∧
    (e.au.isSome → on h.qrh QueryResponseHintsMask.response_authority_sections = true) ∧
    (e.ad.isSome → on h.qrh QueryResponseHintsMask.response_additional_sections = true))

/-- everything a block holds honours the hints -/
def Honours (h : Hints) (b : Blk) : Prop :=
  (∀ q ∈ b.qrs, QHonours h q) ∧ (∀ s ∈ b.sig, SigHonours h s) ∧ (∀ r ∈ b.rr, RrHonours h r) ∧
  (on h.odh OtherDataHintsMask.address_event_counts = false → b.aecs = []) ∧
  (on h.odh OtherDataHintsMask.malformed_messages = false → b.mms = [] ∧ b.mmd = [])

/-! ### frame lemmas: which tables each adder touches -/

theorem mem_addDedup [DecidableEq α] (t : List α) (x y : α) (h : y ∈ (addDedup t x).1) : y ∈ t ∨ y = x := by
  unfold addDedup at h
  split at h
  · exact Or.inl h
  · simpa [List.mem_append] using h

section frames
variable (b : Blk)
@[simp] theorem addIp_sig (x : Bytes) : (addIp b x).1.sig = b.sig := rfl
@[simp] theorem addIp_rr (x : Bytes) : (addIp b x).1.rr = b.rr := rfl
@[simp] theorem addIp_qrs (x : Bytes) : (addIp b x).1.qrs = b.qrs := rfl
@[simp] theorem addIp_aecs (x : Bytes) : (addIp b x).1.aecs = b.aecs := rfl
@[simp] theorem addIp_mms (x : Bytes) : (addIp b x).1.mms = b.mms := rfl
@[simp] theorem addIp_mmd (x : Bytes) : (addIp b x).1.mmd = b.mmd := rfl
@[simp] theorem addCt_sig (x : Nat × Nat) : (addCt b x).1.sig = b.sig := rfl
@[simp] theorem addCt_rr (x : Nat × Nat) : (addCt b x).1.rr = b.rr := rfl
@[simp] theorem addCt_qrs (x : Nat × Nat) : (addCt b x).1.qrs = b.qrs := rfl
@[simp] theorem addCt_aecs (x : Nat × Nat) : (addCt b x).1.aecs = b.aecs := rfl
@[simp] theorem addCt_mms (x : Nat × Nat) : (addCt b x).1.mms = b.mms := rfl
@[simp] theorem addCt_mmd (x : Nat × Nat) : (addCt b x).1.mmd = b.mmd := rfl
@[simp] theorem addNr_sig (x : Bytes) : (addNr b x).1.sig = b.sig := rfl
@[simp] theorem addNr_rr (x : Bytes) : (addNr b x).1.rr = b.rr := rfl
@[simp] theorem addNr_qrs (x : Bytes) : (addNr b x).1.qrs = b.qrs := rfl
@[simp] theorem addNr_aecs (x : Bytes) : (addNr b x).1.aecs = b.aecs := rfl
@[simp] theorem addNr_mms (x : Bytes) : (addNr b x).1.mms = b.mms := rfl
@[simp] theorem addNr_mmd (x : Bytes) : (addNr b x).1.mmd = b.mmd := rfl
@[simp] theorem addSig_rr (x : Sig) : (addSig b x).1.rr = b.rr := rfl
@[simp] theorem addSig_qrs (x : Sig) : (addSig b x).1.qrs = b.qrs := rfl
@[simp] theorem addSig_aecs (x : Sig) : (addSig b x).1.aecs = b.aecs := rfl
@[simp] theorem addSig_mms (x : Sig) : (addSig b x).1.mms = b.mms := rfl
@[simp] theorem addSig_mmd (x : Sig) : (addSig b x).1.mmd = b.mmd := rfl
@[simp] theorem addQl_sig (x : List Nat) : (addQl b x).1.sig = b.sig := rfl
@[simp] theorem addQl_rr (x : List Nat) : (addQl b x).1.rr = b.rr := rfl
@[simp] theorem addQl_qrs (x : List Nat) : (addQl b x).1.qrs = b.qrs := rfl
@[simp] theorem addQl_aecs (x : List Nat) : (addQl b x).1.aecs = b.aecs := rfl
@[simp] theorem addQl_mms (x : List Nat) : (addQl b x).1.mms = b.mms := rfl
@[simp] theorem addQl_mmd (x : List Nat) : (addQl b x).1.mmd = b.mmd := rfl
@[simp] theorem addQrr_sig (x : Nat × Nat) : (addQrr b x).1.sig = b.sig := rfl
@[simp] theorem addQrr_rr (x : Nat × Nat) : (addQrr b x).1.rr = b.rr := rfl
@[simp] theorem addQrr_qrs (x : Nat × Nat) : (addQrr b x).1.qrs = b.qrs := rfl
@[simp] theorem addQrr_aecs (x : Nat × Nat) : (addQrr b x).1.aecs = b.aecs := rfl
@[simp] theorem addQrr_mms (x : Nat × Nat) : (addQrr b x).1.mms = b.mms := rfl
@[simp] theorem addQrr_mmd (x : Nat × Nat) : (addQrr b x).1.mmd = b.mmd := rfl
@[simp] theorem addRl_sig (x : List Nat) : (addRl b x).1.sig = b.sig := rfl
@[simp] theorem addRl_rr (x : List Nat) : (addRl b x).1.rr = b.rr := rfl
@[simp] theorem addRl_qrs (x : List Nat) : (addRl b x).1.qrs = b.qrs := rfl
@[simp] theorem addRl_aecs (x : List Nat) : (addRl b x).1.aecs = b.aecs := rfl
@[simp] theorem addRl_mms (x : List Nat) : (addRl b x).1.mms = b.mms := rfl
@[simp] theorem addRl_mmd (x : List Nat) : (addRl b x).1.mmd = b.mmd := rfl
@[simp] theorem addRr_sig (x : RRe) : (addRr b x).1.sig = b.sig := rfl
@[simp] theorem addRr_qrs (x : RRe) : (addRr b x).1.qrs = b.qrs := rfl
@[simp] theorem addRr_aecs (x : RRe) : (addRr b x).1.aecs = b.aecs := rfl
@[simp] theorem addRr_mms (x : RRe) : (addRr b x).1.mms = b.mms := rfl
@[simp] theorem addRr_mmd (x : RRe) : (addRr b x).1.mmd = b.mmd := rfl
@[simp] theorem addMmd_sig (x : MMD) : (addMmd b x).1.sig = b.sig := rfl
@[simp] theorem addMmd_rr (x : MMD) : (addMmd b x).1.rr = b.rr := rfl
@[simp] theorem addMmd_qrs (x : MMD) : (addMmd b x).1.qrs = b.qrs := rfl
@[simp] theorem addMmd_aecs (x : MMD) : (addMmd b x).1.aecs = b.aecs := rfl
@[simp] theorem addMmd_mms (x : MMD) : (addMmd b x).1.mms = b.mms := rfl
end frames

/-- the part of a block the hint invariant looks at, apart from the records -/
structure SameStored (b b' : Blk) : Prop where
  qrs : b'.qrs = b.qrs
  aecs : b'.aecs = b.aecs
  mms : b'.mms = b.mms
  mmd : b'.mmd = b.mmd
  stats : b'.stats = b.stats

/-- "the adder keeps records and malformed-message data, and every signature / RR of the result honours the hints" -/
def Keeps (h : Hints) (b b' : Blk) : Prop :=
  SameStored b b' ∧ ((∀ s ∈ b.sig, SigHonours h s) → ∀ s ∈ b'.sig, SigHonours h s) ∧ ((∀ r ∈ b.rr, RrHonours h r) → ∀ r ∈ b'.rr, RrHonours h r)

theorem Keeps.refl (h : Hints) (b : Blk) : Keeps h b b := ⟨⟨rfl, rfl, rfl, rfl, rfl⟩, id, id⟩

theorem Keeps.trans {h : Hints} {a b c : Blk} (h1 : Keeps h a b) (h2 : Keeps h b c) : Keeps h a c :=
  ⟨⟨h2.1.qrs.trans h1.1.qrs, h2.1.aecs.trans h1.1.aecs, h2.1.mms.trans h1.1.mms, h2.1.mmd.trans h1.1.mmd, h2.1.stats.trans h1.1.stats⟩,
   fun x => h2.2.1 (h1.2.1 x), fun x => h2.2.2 (h1.2.2 x)⟩

theorem keeps_addIp (h : Hints) (b : Blk) (x : Bytes) : Keeps h b (addIp b x).1 := ⟨⟨rfl, rfl, rfl, rfl, rfl⟩, id, id⟩
theorem keeps_addCt (h : Hints) (b : Blk) (x : Nat × Nat) : Keeps h b (addCt b x).1 := ⟨⟨rfl, rfl, rfl, rfl, rfl⟩, id, id⟩
theorem keeps_addNr (h : Hints) (b : Blk) (x : Bytes) : Keeps h b (addNr b x).1 := ⟨⟨rfl, rfl, rfl, rfl, rfl⟩, id, id⟩
theorem keeps_addQl (h : Hints) (b : Blk) (x : List Nat) : Keeps h b (addQl b x).1 := ⟨⟨rfl, rfl, rfl, rfl, rfl⟩, id, id⟩
theorem keeps_addQrr (h : Hints) (b : Blk) (x : Nat × Nat) : Keeps h b (addQrr b x).1 := ⟨⟨rfl, rfl, rfl, rfl, rfl⟩, id, id⟩
theorem keeps_addRl (h : Hints) (b : Blk) (x : List Nat) : Keeps h b (addRl b x).1 := ⟨⟨rfl, rfl, rfl, rfl, rfl⟩, id, id⟩

theorem keeps_addSig (h : Hints) (b : Blk) (s : Sig) (hs : SigHonours h s) : Keeps h b (addSig b s).1 := by
  refine ⟨⟨rfl, rfl, rfl, rfl, rfl⟩, ?_, id⟩
  intro hall s' hs'
  rcases mem_addDedup b.sig s s' hs' with h1 | rfl
  · exact hall s' h1
  · exact hs

theorem keeps_addRr (h : Hints) (b : Blk) (r : RRe) (hr : RrHonours h r) : Keeps h b (addRr b r).1 := by
  refine ⟨⟨rfl, rfl, rfl, rfl, rfl⟩, id, ?_⟩
  intro hall r' hr'
  rcases mem_addDedup b.rr r r' hr' with h1 | rfl
  · exact hall r' h1
  · exact hr

theorem keeps_addOpt (h : Hints) (c : Bool) (o : Option α) (add : Blk → α → Blk × Nat) (b : Blk)
    (hadd : ∀ b x, Keeps h b (add b x).1) : Keeps h b (addOpt c o add b).1 := by
  unfold addOpt
  cases c <;> cases o <;> first | exact Keeps.refl h b | exact hadd b _

theorem keeps_qlStep (h : Hints) (acc : Blk × List Nat) (g : GRR) : Keeps h acc.1 (qlStep acc g).1 :=
  (keeps_addNr h _ _).trans ((keeps_addCt h _ _).trans (keeps_addQrr h _ _))

theorem keeps_foldl {h : Hints} (step : Blk × List Nat → GRR → Blk × List Nat) (hs : ∀ acc g, Keeps h acc.1 (step acc g).1)
    (gs : List GRR) (acc : Blk × List Nat) : Keeps h acc.1 (gs.foldl step acc).1 := by
  induction gs generalizing acc with
  | nil => exact Keeps.refl h _
  | cons g gs ih => exact (hs acc g).trans (ih (step acc g))

theorem keeps_addGenericQlist (h : Hints) (b : Blk) (g : List GRR) : Keeps h b (addGenericQlist b g).1 :=
  (keeps_foldl qlStep (keeps_qlStep h) g (b, [])).trans (keeps_addQl h _ _)

theorem keeps_rrStep (h : Hints) (acc : Blk × List Nat) (g : GRR) : Keeps h acc.1 (rrStep h acc g).1 := by
  unfold rrStep
  refine (keeps_addNr h _ _).trans ((keeps_addCt h _ _).trans ((keeps_addOpt h _ _ addNr _ (keeps_addNr h)).trans (keeps_addRr h _ _ ?_)))
  exact ⟨fun hx => keep_isSome hx, fun hx => addOpt_isSome hx⟩

theorem keeps_addGenericRrlist (h : Hints) (b : Blk) (g : List GRR) : Keeps h b (addGenericRrlist h b g).1 :=
  (keeps_foldl (rrStep h) (keeps_rrStep h) g (b, [])).trans (keeps_addRl h _ _)

theorem keeps_addSection (h : Hints) (c : Bool) (o : Option (List GRR)) (add : Blk → List GRR → Blk × Nat) (b : Blk)
    (hadd : ∀ b x, Keeps h b (add b x).1) : Keeps h b (addSection c o add b).1 := by
  unfold addSection
  split
  · exact hadd b _
  · exact Keeps.refl h b

theorem keeps_buildSig (h : Hints) (g : GQR) (b : Blk) : Keeps h b (buildSig h g b).1 := by
  unfold buildSig
  split
  · exact Keeps.refl h b
  · simp only
    have k3 := (keeps_addOpt h (on h.sigh QueryResponseSignatureHintsMask.server_address_index) g.serverIp addIp b (keeps_addIp h)).trans
      ((keeps_addOpt h (on h.sigh QueryResponseSignatureHintsMask.query_classtype_index) g.classtype addCt _ (keeps_addCt h)).trans
        (keeps_addOpt h (on h.sigh QueryResponseSignatureHintsMask.query_opt_rdata_index) g.optRdata addNr _ (keeps_addNr h)))
    split
    · refine k3.trans (keeps_addSig h _ _ ?_)
      unfold mkSig
      exact ⟨fun hx => addOpt_isSome hx, fun hx => keep_isSome hx, fun hx => keep_isSome hx, fun hx => keep_isSome hx,
        fun hx => keep_isSome hx, fun hx => keep_isSome hx, fun hx => keep_isSome hx, fun hx => keep_isSome hx,
        fun hx => addOpt_isSome hx, fun hx => keep_isSome hx, fun hx => keep_isSome hx, fun hx => keep_isSome hx,
        fun hx => keep_isSome hx, fun hx => keep_isSome hx, fun hx => keep_isSome hx, fun hx => addOpt_isSome hx,
        fun hx => keep_isSome hx⟩
    · exact k3

theorem buildSig_isSome (h : Hints) (g : GQR) (b : Blk) (hx : (buildSig h g b).2.isSome = true) :
    on h.qrh QueryResponseHintsMask.qr_signature_index = true := by
  unfold buildSig at hx
  split at hx
  · simp at hx
  · rename_i hc; simpa using hc

theorem keeps_buildQ (h : Hints) (g : GQR) (b : Blk) : Keeps h b (buildQ h g b).1 := by
  unfold buildQ
  simp only
  exact (keeps_addOpt h _ _ addIp _ (keeps_addIp h)).trans <| (keeps_buildSig h g _).trans <|
    (keeps_addOpt h _ _ addNr _ (keeps_addNr h)).trans <| (keeps_addOpt h _ _ addNr _ (keeps_addNr h)).trans <|
    (keeps_addSection h _ _ addGenericQlist _ (keeps_addGenericQlist h)).trans <|
    (keeps_addSection h _ _ (addGenericRrlist h) _ (keeps_addGenericRrlist h)).trans <|
    (keeps_addSection h _ _ (addGenericRrlist h) _ (keeps_addGenericRrlist h)).trans <|
    (keeps_addSection h _ _ (addGenericRrlist h) _ (keeps_addGenericRrlist h)).trans <|
    (keeps_addSection h _ _ addGenericQlist _ (keeps_addGenericQlist h)).trans <|
    (keeps_addSection h _ _ (addGenericRrlist h) _ (keeps_addGenericRrlist h)).trans <|
    (keeps_addSection h _ _ (addGenericRrlist h) _ (keeps_addGenericRrlist h)).trans <|
    (keeps_addSection h _ _ (addGenericRrlist h) _ (keeps_addGenericRrlist h))

/-- the `QueryResponse` filled by `add_question_response_record` holds a member only if its hint bit is set -/
theorem buildQ_honours (h : Hints) (g : GQR) (b : Blk) : QHonours h (buildQ h g b).2 := by
  unfold buildQ
  simp only
  refine ⟨fun hx => keep_isSome hx, fun hx => addOpt_isSome hx, fun hx => keep_isSome hx, fun hx => keep_isSome hx,
    fun hx => buildSig_isSome h g _ hx, fun hx => keep_isSome hx, fun hx => keep_isSome hx, fun hx => addOpt_isSome hx,
    fun hx => keep_isSome hx, fun hx => keep_isSome hx, ?_, ?_, ?_⟩
  · intro hx
    split at hx
    · rename_i hc
      simp only [Bool.or_eq_true] at hc
      rcases hc with hc | hc
      · exact addOpt_isSome hc
      · exact keep_isSome hc
    · simp at hx
  · intro e he
    have := ite_some_eq he
    subst this
    exact ⟨fun hx => addSection_isSome hx, fun hx => addSection_isSome hx, fun hx => addSection_isSome hx, fun hx => addSection_isSome hx⟩
  · intro e he
    have := ite_some_eq he
    subst this
    exact ⟨fun hx => addSection_isSome hx, fun hx => addSection_isSome hx, fun hx => addSection_isSome hx, fun hx => addSection_isSome hx⟩

/-! ### the invariant over whole record sequences -/

theorem honours_empty (h : Hints) : Honours h {} := by
  refine ⟨?_, ?_, ?_, fun _ => rfl, fun _ => ⟨rfl, rfl⟩⟩ <;> intro x hx <;> cases hx

theorem setStats_fields (b : Blk) (st : Option Stats) :
    (setStats b st).qrs = b.qrs ∧ (setStats b st).sig = b.sig ∧ (setStats b st).rr = b.rr ∧ (setStats b st).aecs = b.aecs ∧
    (setStats b st).mms = b.mms ∧ (setStats b st).mmd = b.mmd ∧ (setStats b st).ip = b.ip := by
  cases st <;> simp [setStats]

theorem honours_setStats (h : Hints) (b : Blk) (st : Option Stats) (hb : Honours h b) : Honours h (setStats b st) := by
  obtain ⟨e1, e2, e3, e4, e5, e6, _⟩ := setStats_fields b st
  unfold Honours
  rw [e1, e2, e3, e4, e5, e6]
  exact hb

theorem honours_addQR (h : Hints) (g : GQR) (st : Option Stats) (b : Blk) (hb : Honours h b) : Honours h (addQR h g st b) := by
  unfold addQR
  apply honours_setStats
  obtain ⟨hq, hs, hr, ha, hm⟩ := hb
  have hk := keeps_buildQ h g { b with earliest := updEarliest b g.ts }
  obtain ⟨hsame, hsig, hrr⟩ := hk
  have hqrs : (buildQ h g { b with earliest := updEarliest b g.ts }).1.qrs = b.qrs := hsame.qrs
  have base : Honours h (buildQ h g { b with earliest := updEarliest b g.ts }).1 := by
    refine ⟨?_, hsig hs, hrr hr, ?_, ?_⟩
    · rw [hqrs]; exact hq
    · rw [hsame.aecs]; exact ha
    · rw [hsame.mms, hsame.mmd]; exact hm
  simp only
  split
  · obtain ⟨bq, bs, br, ba, bm⟩ := base
    refine ⟨?_, bs, br, ba, bm⟩
    intro q hqm
    simp only [List.mem_append, List.mem_singleton] at hqm
    rcases hqm with hqm | rfl
    · exact bq q hqm
    · exact buildQ_honours h g _
  · exact base

theorem honours_addAEC (h : Hints) (g : GAEC) (st : Option Stats) (b : Blk) (hb : Honours h b) : Honours h (addAEC h g st b) := by
  unfold addAEC
  have h0 := honours_setStats h b st hb
  by_cases hon : on h.odh OtherDataHintsMask.address_event_counts = true
  · have hc : (!on h.odh OtherDataHintsMask.address_event_counts) = false := by simp [hon]
    simp only [hc, Bool.false_eq_true, if_false]
    obtain ⟨hq, hs, hr, _, hm⟩ := h0
    have hoff : ∀ {P : Prop}, on h.odh OtherDataHintsMask.address_event_counts = false → P := by
      intro P hx; rw [hon] at hx; cases hx
    split
    · exact ⟨hq, hs, hr, fun hx => hoff hx, hm⟩
    · exact ⟨hq, hs, hr, fun hx => hoff hx, hm⟩
  · have hc : (!on h.odh OtherDataHintsMask.address_event_counts) = true := by simpa using hon
    simp only [hc, if_true]
    exact h0

theorem honours_addMM (h : Hints) (g : GMM) (st : Option Stats) (b : Blk) (hb : Honours h b) : Honours h (addMM h g st b) := by
  unfold addMM
  have h0 := honours_setStats h b st hb
  by_cases hon : on h.odh OtherDataHintsMask.malformed_messages = true
  · have hc : (!on h.odh OtherDataHintsMask.malformed_messages) = false := by simp [hon]
    simp only [hc, Bool.false_eq_true, if_false]
    obtain ⟨hq, hs, hr, ha, _⟩ := h0
    have hoff : ∀ {P : Prop}, on h.odh OtherDataHintsMask.malformed_messages = false → P := by
      intro P hx; rw [hon] at hx; cases hx
    -- only the ip / mmd tables and the mms list change
    have k1 : ∀ (c : Bool) (o : Option Bytes) (b' : Blk), (addOpt c o addIp b').1.qrs = b'.qrs ∧ (addOpt c o addIp b').1.sig = b'.sig ∧
        (addOpt c o addIp b').1.rr = b'.rr ∧ (addOpt c o addIp b').1.aecs = b'.aecs := by
      intro c o b'; unfold addOpt; cases c <;> cases o <;> simp
    obtain ⟨a1, a2, a3, a4⟩ := k1 true g.clientIp { setStats b st with earliest := updEarliest (setStats b st) g.ts }
    obtain ⟨c1, c2, c3, c4⟩ := k1 true g.serverIp (addOpt true g.clientIp addIp { setStats b st with earliest := updEarliest (setStats b st) g.ts }).1
    split <;> split <;>
      exact ⟨by simp only [addMmd_qrs, c1, a1]; exact hq, by simp only [addMmd_sig, c2, a2]; exact hs,
             by simp only [addMmd_rr, c3, a3]; exact hr, by simp only [addMmd_aecs, c4, a4]; exact ha, fun hx => hoff hx⟩
  · have hc : (!on h.odh OtherDataHintsMask.malformed_messages) = true := by simpa using hon
    simp only [hc, if_true]
    exact h0

theorem honours_addRec (h : Hints) (b : Blk) (r : Rec) (hb : Honours h b) : Honours h (addRec h b r) := by
  cases r with
  | qr g st => exact honours_addQR h g st b hb
  | aec g st => exact honours_addAEC h g st b hb
  | mm g st => exact honours_addMM h g st b hb

/-- every block built from records under hints `h` honours `h` -/
theorem honours_build (h : Hints) (recs : List Rec) : Honours h (build h recs) := by
  unfold build
  have gen : ∀ b, Honours h b → Honours h (recs.foldl (addRec h) b) := by
    induction recs with
    | nil => intro b hb; exact hb
    | cons r rs ih => intro b hb; exact ih _ (honours_addRec h b r hb)
  exact gen {} (honours_empty h)

end CdnsVerif.Model.Builder
