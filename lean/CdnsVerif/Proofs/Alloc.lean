/-
  What the reader materialises is bounded by what it consumed (C03: "memory proportional to the input", "never an allocation
  sized by an unchecked length field" – for EVERY byte sequence).

  `vsize v` counts one unit per scalar, per string byte, per list element and per record member of a value.  For every schema,
  every fuel and every input: if reading a value succeeds, the size of the value plus the bytes left over is at most the size of the
  input – a string of n bytes was paid for with n input bytes, a list of n elements with at least n, whatever the length fields
  announce.  (The capacity *reserved* ahead of reading is `Props.C03.reserve_bounded`.)
-/
import CdnsVerif.Proofs.Fuel
namespace CdnsVerif.Proofs.Alloc
open CdnsVerif.Spec.Cbor CdnsVerif.Model CdnsVerif.Model.Decoder CdnsVerif.Model.Schema CdnsVerif.Proofs.Fuel

mutual
def vsize : Val → Nat
  | .num _ => 1
  | .bool _ => 1
  | .str b => 1 + b.length
  | .list vs => 1 + vsizeL vs
  | .record ms => 1 + vsizeM ms
def vsizeL : List Val → Nat
  | [] => 0
  | v :: vs => vsize v + vsizeL vs
def vsizeM : List (Int × Val) → Nat
  | [] => 0
  | (_, v) :: ms => vsize v + vsizeM ms
end

theorem vsizeL_append (a b : List Val) : vsizeL (a ++ b) = vsizeL a + vsizeL b := by
  induction a with
  | nil => simp [vsizeL]
  | cons x xs ih => simp [vsizeL, ih, Nat.add_assoc]

theorem vsizeM_append (a b : List (Int × Val)) : vsizeM (a ++ b) = vsizeM a + vsizeM b := by
  induction a with
  | nil => simp [vsizeM]
  | cons x xs ih => obtain ⟨k, v⟩ := x; simp [vsizeM, ih, Nat.add_assoc]

/-! ### strings -/

theorem readNAux_len : ∀ (n : Nat) (acc bs r out : Bytes), (readNAux n acc).run bs = .ok (out, r) →
    out.length = acc.length + n ∧ n + r.length = bs.length
  | 0, acc, bs, r, out, h => by
    simp only [readNAux, Prog.run_pure] at h
    cases h; simp
  | n+1, acc, bs, r, out, h => by
    cases bs with
    | nil => simp [readNAux] at h
    | cons b t =>
      simp only [readNAux, Prog.run_next_cons] at h
      have := readNAux_len n (b :: acc) t r out h
      simp only [List.length_cons] at this ⊢
      omega

theorem readN_len (n : Nat) (bs r out : Bytes) (h : (readN n).run bs = .ok (out, r)) : out.length + r.length = bs.length := by
  have := readNAux_len n [] bs r out h
  simp at this; omega

theorem readChunks_len (major : Nat) : ∀ (f : Nat) (bs r out : Bytes), (readChunks major f).run bs = .ok (out, r) →
    out.length + r.length ≤ bs.length
  | 0, bs, r, out, h => by simp [readChunks] at h
  | f+1, bs, r, out, h => by
    simp only [readChunks] at h
    rw [Prog.run_bind] at h
    cases h0 : peekType.run bs with
    | error e => rw [h0] at h; cases h
    | ok x =>
      obtain ⟨t, r0⟩ := x
      rw [h0] at h
      have hr0 := run_le _ _ _ _ h0
      simp only at h
      split at h
      · simp only [Prog.run_pure] at h; cases h; simp; omega
      · rw [Prog.run_bind] at h
        cases h1 : readCborType.run r0 with
        | error e => rw [h1] at h; cases h
        | ok y =>
          obtain ⟨⟨ct, cl⟩, r1⟩ := y
          rw [h1] at h
          have hr1 := run_le _ _ _ _ h1
          simp only at h
          split at h
          · cases h
          · split at h
            · cases h
            · rw [Prog.run_bind] at h
              cases h2 : (readInt cl).run r1 with
              | error e => rw [h2] at h; cases h
              | ok z =>
                obtain ⟨n, r2⟩ := z
                rw [h2] at h
                have hr2 := run_le _ _ _ _ h2
                simp only at h
                rw [Prog.run_bind] at h
                cases h3 : (readN n).run r2 with
                | error e => rw [h3] at h; cases h
                | ok w =>
                  obtain ⟨c, r3⟩ := w
                  rw [h3] at h
                  have hc := readN_len n r2 r3 c h3
                  simp only at h
                  rw [Prog.run_bind] at h
                  cases h4 : (readChunks major f).run r3 with
                  | error e => rw [h4] at h; cases h
                  | ok u =>
                    obtain ⟨rr, r4⟩ := u
                    rw [h4] at h
                    have ih := readChunks_len major f r3 r4 rr h4
                    simp only [Prog.run_pure] at h
                    cases h
                    simp only [List.length_append]
                    omega

/-- a string read costs a head byte and its bytes -/
theorem readStr_len (major f : Nat) (bs r out : Bytes) (h : (readStr major f).run bs = .ok (out, r)) :
    1 + out.length + r.length ≤ bs.length := by
  unfold readStr at h
  rw [Prog.run_bind] at h
  cases h0 : readCborType.run bs with
  | error e => rw [h0] at h; cases h
  | ok x =>
    obtain ⟨⟨t, ai⟩, r0⟩ := x
    rw [h0] at h
    have hr0 := isNext_lt isNext_readCborType h0
    simp only at h
    split at h
    · cases h
    · split at h
      · cases h
      · rw [Prog.run_bind] at h
        cases h1 : (readInt ai).run r0 with
        | error e => rw [h1] at h; cases h
        | ok y =>
          obtain ⟨n, r1⟩ := y
          rw [h1] at h
          have hr1 := run_le _ _ _ _ h1
          simp only at h
          unfold readString at h
          split at h
          · have := readN_len n r1 r out h; omega
          · rw [Prog.run_bind] at h
            cases h2 : (readChunks major f).run r1 with
            | error e => rw [h2] at h; cases h
            | ok z =>
              obtain ⟨c, r2⟩ := z
              rw [h2] at h
              have hc := readChunks_len major f r1 r2 c h2
              simp only at h
              rw [Prog.run_bind] at h
              cases h3 : readBreak.run r2 with
              | error e => rw [h3] at h; cases h
              | ok w =>
                obtain ⟨_, r3⟩ := w
                rw [h3] at h
                have hr3 := run_le _ _ _ _ h3
                simp only [Prog.run_pure] at h
                cases h
                omega

/-! ### records: the members kept are members read -/

abbrev keysOf (ms : List (Int × Val)) : List Int := ms.map (·.1)

theorem map_replace_absent (k : Int) (v : Val) : ∀ (l : List (Int × Val)), k ∉ keysOf l →
    l.map (fun e => if e.1 == k then (k, v) else e) = l
  | [], _ => rfl
  | (k', v') :: rest, h => by
    simp only [keysOf, List.map_cons, List.mem_cons, not_or] at h
    have hne : (k' == k) = false := by simpa using (fun e => h.1 e.symm)
    simp only [List.map_cons, hne, Bool.false_eq_true, if_false]
    rw [map_replace_absent k v rest h.2]

theorem vsizeM_replace (k : Int) (v : Val) : ∀ (l : List (Int × Val)), (keysOf l).Nodup →
    vsizeM (l.map (fun e => if e.1 == k then (k, v) else e)) ≤ vsizeM l + vsize v
  | [], _ => by simp [vsizeM]
  | (k', v') :: rest, h => by
    simp only [keysOf, List.map_cons, List.nodup_cons] at h
    simp only [List.map_cons]
    by_cases hk : (k' == k) = true
    · have hkk : k' = k := by simpa using hk
      simp only [hk, if_true, vsizeM]
      rw [map_replace_absent k v rest (by rw [← hkk]; exact h.1)]
      omega
    · simp only [hk, Bool.false_eq_true, if_false, vsizeM]
      have := vsizeM_replace k v rest h.2
      omega

theorem keys_replace (k : Int) (v : Val) (l : List (Int × Val)) :
    keysOf (l.map (fun e => if e.1 == k then (k, v) else e)) = keysOf l := by
  induction l with
  | nil => rfl
  | cons e rest ih =>
    obtain ⟨k', v'⟩ := e
    simp only [keysOf, List.map_cons] at ih ⊢
    by_cases hk : (k' == k) = true
    · have hkk : k' = k := by simpa using hk
      subst hkk
      simp only [beq_self_eq_true, if_true]
      exact congrArg (List.cons k') ih
    · simp only [hk, Bool.false_eq_true, if_false]
      exact congrArg (List.cons k') ih

theorem setKey_spec (acc : List (Int × Val)) (k : Int) (v : Val) (h : (keysOf acc).Nodup) :
    (keysOf (setKey acc k v)).Nodup ∧ vsizeM (setKey acc k v) ≤ vsizeM acc + vsize v := by
  unfold setKey
  split
  · exact ⟨by rw [keys_replace]; exact h, vsizeM_replace k v acc h⟩
  · rename_i hany
    refine ⟨?_, by rw [vsizeM_append]; simp [vsizeM]⟩
    simp only [keysOf, List.map_append, List.map_cons, List.map_nil]
    rw [List.nodup_append]
    refine ⟨h, by simp, ?_⟩
    intro a ha b hb
    simp only [List.mem_singleton] at hb
    subst hb
    intro hab
    subst hab
    apply hany
    simp only [List.any_eq_true]
    simp only [List.mem_map] at ha
    obtain ⟨e, he, hek⟩ := ha
    exact ⟨e, he, by simp [hek]⟩

theorem vsizeM_filter_le (p : Int × Val → Bool) : ∀ (ms : List (Int × Val)), vsizeM (ms.filter p) ≤ vsizeM ms
  | [] => by simp [vsizeM]
  | (k, v) :: rest => by
    simp only [List.filter_cons]
    have := vsizeM_filter_le p rest
    split <;> (try simp only [vsizeM]) <;> omega

theorem vsizeM_filter_mono (p q : Int × Val → Bool) (hpq : ∀ m, p m = true → q m = true) :
    ∀ (ms : List (Int × Val)), vsizeM (ms.filter p) ≤ vsizeM (ms.filter q)
  | [] => by simp [vsizeM]
  | (k, v) :: rest => by
    simp only [List.filter_cons]
    have ih := vsizeM_filter_mono p q hpq rest
    by_cases hp : p (k, v) = true
    · simp only [hp, if_true, hpq _ hp, vsizeM]; omega
    · simp only [hp, Bool.false_eq_true, if_false]
      split <;> (try simp only [vsizeM]) <;> omega

theorem vsizeM_filter_add (p q : Int × Val → Bool) (m : Int × Val) : ∀ (ms : List (Int × Val)), m ∈ ms → p m = true → q m = false →
    vsize m.2 + vsizeM (ms.filter q) ≤ vsizeM (ms.filter (fun x => p x || q x))
  | [], h, _, _ => by cases h
  | x :: rest, h, hp, hq => by
    simp only [List.filter_cons]
    rcases List.mem_cons.mp h with rfl | hin
    · obtain ⟨k, v⟩ := m
      simp only [hp, Bool.true_or, if_true, hq, Bool.false_eq_true, if_false, vsizeM]
      have := vsizeM_filter_mono q (fun x => p x || q x) (fun y hy => by simp [hy]) rest
      omega
    · have ih := vsizeM_filter_add p q m rest hin hp hq
      obtain ⟨k, v⟩ := x
      by_cases hqx : q (k, v) = true
      · simp only [hqx, Bool.or_true, if_true, vsizeM]; omega
      · simp only [hqx, Bool.false_eq_true, if_false]
        split <;> (try simp only [vsizeM]) <;> omega

/-- the struct keeps, per declared member, at most one of the members read: never more than was read -/
theorem vsizeM_canon : ∀ (fs : List Field) (ms : List (Int × Val)), (fs.map (·.key)).Nodup →
    vsizeM (canon fs ms) ≤ vsizeM (ms.filter (fun m => fs.any (fun f => f.key == m.1)))
  | [], ms, _ => by simp [canon, vsizeM]
  | f :: fs', ms, h => by
    simp only [List.map_cons, List.nodup_cons] at h
    have ih := vsizeM_canon fs' ms h.2
    unfold canon at ih ⊢
    simp only [List.filterMap_cons]
    have hshape : ∀ m : Int × Val, (List.any (f :: fs') fun g => g.key == m.1) = ((f.key == m.1) || fs'.any fun g => g.key == m.1) := by
      intro m; simp [List.any_cons]
    cases hf : ms.find? (fun m => m.1 == f.key) with
    | none =>
      simp only []
      refine Nat.le_trans ih (vsizeM_filter_mono _ _ ?_ ms)
      intro m hm; rw [hshape]; simp [hm]
    | some m =>
      obtain ⟨mk, mv⟩ := m
      simp only [vsizeM]
      have hmem := List.mem_of_find?_eq_some hf
      have hkey : (mk == f.key) = true := by simpa using List.find?_some hf
      have hkeq : mk = f.key := by simpa using hkey
      have hq : (fs'.any fun g => g.key == mk) = false := by
        rw [Bool.eq_false_iff]
        intro hany
        simp only [List.any_eq_true] at hany
        obtain ⟨g, hg, hgk⟩ := hany
        have : g.key = mk := by simpa using hgk
        apply h.1
        rw [← hkeq, ← this]
        exact List.mem_map_of_mem hg
      have key := vsizeM_filter_add (fun x => f.key == x.1) (fun x => fs'.any fun g => g.key == x.1) (mk, mv) ms hmem
        (by simp [hkeq]) hq
      have heq : (ms.filter fun m => List.any (f :: fs') fun g => g.key == m.1) =
                 ms.filter (fun x => (f.key == x.1) || fs'.any fun g => g.key == x.1) := by
        congr 1
      rw [heq]
      simp only at key
      omega

mutual
def kindOk : Kind → Bool
  | .arr k => kindOk k
  | .struct fs => decide ((fs.map (·.key)).Nodup) && fieldsOk fs
  | _ => true
def fieldsOk : List Field → Bool
  | [] => true
  | .mk _ kd _ :: fs => kindOk kd && fieldsOk fs
end

theorem fieldsOk_mem : ∀ (fs : List Field) (f : Field), fieldsOk fs = true → f ∈ fs → kindOk f.kind = true
  | [], f, _, h => by cases h
  | .mk k kd r :: fs, f, hok, h => by
    simp only [fieldsOk, Bool.and_eq_true] at hok
    rcases List.mem_cons.mp h with rfl | hin
    · exact hok.1
    · exact fieldsOk_mem fs f hok.2 hin

/-! ### the three readers -/

def AlV (f : Nat) : Prop := ∀ (k : Kind) (bs r : Bytes) (v : Val), kindOk k = true → (readVal f k).run bs = .ok (v, r) →
  vsize v + r.length ≤ bs.length
def AlE (f : Nat) : Prop := ∀ (k : Kind) (len : Nat) (indef : Bool) (acc vs : List Val) (bs r : Bytes), kindOk k = true →
  (readElems f k len indef acc).run bs = .ok (vs, r) → vsizeL vs + r.length ≤ vsizeL acc + bs.length
def AlF (f : Nat) : Prop := ∀ (fs : List Field) (len : Nat) (indef : Bool) (acc ms : List (Int × Val)) (bs r : Bytes), fieldsOk fs = true →
  (keysOf acc).Nodup → (readFields f fs len indef acc).run bs = .ok (ms, r) → vsizeM ms + r.length ≤ vsizeM acc + bs.length

/-- helper: destructure a successful `bind` -/
theorem bind_ok {α β : Type} {p : Prog α} {g : α → Prog β} {bs r : Bytes} {b : β} (h : (p >>= g).run bs = .ok (b, r)) :
    ∃ a r1, p.run bs = .ok (a, r1) ∧ (g a).run r1 = .ok (b, r) := by
  rw [Prog.run_bind] at h
  cases hp : p.run bs with
  | error e => rw [hp] at h; cases h
  | ok x => obtain ⟨a, r1⟩ := x; rw [hp] at h; exact ⟨a, r1, rfl, h⟩

theorem pure_ok {α : Type} {a b : α} {bs r : Bytes} (h : (Pure.pure a : Prog α).run bs = .ok (b, r)) : a = b ∧ bs = r := by
  simp only [Prog.run_pure] at h
  cases h; exact ⟨rfl, rfl⟩

theorem alV_zero : AlV 0 := by intro k bs r v _ h; simp [readVal] at h
theorem alE_zero : AlE 0 := by intro k len indef acc vs bs r _ h; simp [readElems] at h
theorem alF_zero : AlF 0 := by intro fs len indef acc ms bs r _ _ h; simp [readFields] at h

theorem alV_succ (f : Nat) (hE : AlE f) (hF : AlF f) : AlV (f + 1) := by
  intro k bs r v hk h
  cases k with
  | uint bits =>
    simp only [readVal] at h
    obtain ⟨n, r1, h1, h2⟩ := bind_ok h
    have := isNext_lt isNext_readUnsigned h1
    obtain ⟨rfl, rfl⟩ := pure_ok h2
    simp only [vsize]; omega
  | int64 =>
    simp only [readVal] at h
    obtain ⟨n, r1, h1, h2⟩ := bind_ok h
    have := readInteger_lt h1
    obtain ⟨rfl, rfl⟩ := pure_ok h2
    simp only [vsize]; omega
  | bool =>
    simp only [readVal] at h
    obtain ⟨n, r1, h1, h2⟩ := bind_ok h
    have := isNext_lt isNext_readBool h1
    obtain ⟨rfl, rfl⟩ := pure_ok h2
    simp only [vsize]; omega
  | tstr =>
    simp only [readVal] at h
    obtain ⟨b, r1, h1, h2⟩ := bind_ok h
    have := readStr_len _ _ _ _ _ h1
    obtain ⟨rfl, rfl⟩ := pure_ok h2
    simp only [vsize]; omega
  | bstr =>
    simp only [readVal] at h
    obtain ⟨b, r1, h1, h2⟩ := bind_ok h
    have := readStr_len _ _ _ _ _ h1
    obtain ⟨rfl, rfl⟩ := pure_ok h2
    simp only [vsize]; omega
  | arr ek =>
    simp only [readVal] at h
    obtain ⟨⟨len, indef⟩, r1, h1, h2⟩ := bind_ok h
    have hr1 := isNext_lt (isNext_readStart _) h1
    simp only at h2
    obtain ⟨vs, r2, h3, h4⟩ := bind_ok h2
    obtain ⟨rfl, rfl⟩ := pure_ok h4
    have := hE ek len indef [] vs r1 r2 (by simpa [kindOk] using hk) h3
    simp only [vsize, vsizeL] at this ⊢; omega
  | struct fs =>
    simp only [readVal] at h
    obtain ⟨⟨len, indef⟩, r1, h1, h2⟩ := bind_ok h
    have hr1 := isNext_lt (isNext_readStart _) h1
    simp only at h2
    obtain ⟨ms, r2, h3, h4⟩ := bind_ok h2
    simp only [kindOk, Bool.and_eq_true, decide_eq_true_eq] at hk
    have hms := hF fs len indef [] ms r1 r2 hk.2 (by simp [keysOf]) h3
    split at h4
    · obtain ⟨rfl, rfl⟩ := pure_ok h4
      have hc := Nat.le_trans (vsizeM_canon fs ms hk.1) (vsizeM_filter_le _ ms)
      simp only [vsize, vsizeM] at hms ⊢; omega
    · simp at h4

theorem alE_succ (f : Nat) (hV : AlV f) (hE : AlE f) : AlE (f + 1) := by
  intro k len indef acc vs bs r hk h
  have body : ∀ (r0 : Bytes), r0.length ≤ bs.length →
      (do let v ← readVal f k; readElems f k (len - 1) indef (acc ++ [v])).run r0 = .ok (vs, r) →
      vsizeL vs + r.length ≤ vsizeL acc + bs.length := by
    intro r0 hr0 hb
    obtain ⟨v, r1, h1, h2⟩ := bind_ok hb
    have hv := hV k r0 r1 v hk h1
    have he := hE k (len - 1) indef (acc ++ [v]) vs r1 r hk h2
    rw [vsizeL_append] at he
    simp only [vsizeL] at he
    omega
  simp only [readElems] at h
  split at h
  · obtain ⟨rfl, rfl⟩ := pure_ok h; omega
  · split at h
    · obtain ⟨t, r0, h0, h1⟩ := bind_ok h
      have hr0 := run_le _ _ _ _ h0
      split at h1
      · obtain ⟨_, r1, h2, h3⟩ := bind_ok h1
        have hr1 := run_le _ _ _ _ h2
        obtain ⟨rfl, rfl⟩ := pure_ok h3
        omega
      · exact body r0 hr0 h1
    · exact body bs (Nat.le_refl _) h

theorem alF_succ (f : Nat) (hV : AlV f) (hF : AlF f) : AlF (f + 1) := by
  intro fs len indef acc ms bs r hfs hacc h
  have body : ∀ (r0 : Bytes), r0.length ≤ bs.length →
      (do let key ← readInteger
          match fs.find? (fun (g : Field) => g.key == key) with
          | some g => do
            let v ← readVal f g.kind
            readFields f fs (len - 1) indef (setKey acc key v)
          | none => do
            skipItem (3 * f + 2)
            readFields f fs (len - 1) indef acc).run r0 = .ok (ms, r) →
      vsizeM ms + r.length ≤ vsizeM acc + bs.length := by
    intro r0 hr0 hb
    obtain ⟨key, r1, h1, h2⟩ := bind_ok hb
    have hr1 := readInteger_lt h1
    split at h2
    · rename_i g hg
      obtain ⟨v, r2, h3, h4⟩ := bind_ok h2
      have hgk := fieldsOk_mem fs g hfs (List.mem_of_find?_eq_some hg)
      have hv := hV g.kind r1 r2 v hgk h3
      have hs := setKey_spec acc key v hacc
      have := hF fs (len - 1) indef (setKey acc key v) ms r2 r hfs hs.1 h4
      omega
    · obtain ⟨_, r2, h3, h4⟩ := bind_ok h2
      have hr2 := run_le _ _ _ _ h3
      have := hF fs (len - 1) indef acc ms r2 r hfs hacc h4
      omega
  simp only [readFields] at h
  split at h
  · obtain ⟨rfl, rfl⟩ := pure_ok h; omega
  · split at h
    · obtain ⟨t, r0, h0, h1⟩ := bind_ok h
      have hr0 := run_le _ _ _ _ h0
      split at h1
      · obtain ⟨_, r1, h2, h3⟩ := bind_ok h1
        have hr1 := run_le _ _ _ _ h2
        obtain ⟨rfl, rfl⟩ := pure_ok h3
        omega
      · exact body r0 hr0 h1
    · exact body bs (Nat.le_refl _) h

theorem al_all (f : Nat) : AlV f ∧ AlE f ∧ AlF f := by
  induction f with
  | zero => exact ⟨alV_zero, alE_zero, alF_zero⟩
  | succ g ih => exact ⟨alV_succ g ih.2.1 ih.2.2, alE_succ g ih.1 ih.2.1, alF_succ g ih.1 ih.2.2⟩

end CdnsVerif.Proofs.Alloc
