/-
  C18 — cdns-merge preserves every block and record; cdns-itemcount counts are true.

  Over `Model.Merge` (every file system, every list of input names, repeats allowed):
  * `rejected_contribute_nothing`  an input that cannot be opened as C-DNS contributes no block;
  * `mismatch_contributes_nothing` nor does an input whose version differs from the first readable one's
                                   (unless that very file name was accepted at another position);
  * `merged_params_equal`          every merged block refers, in the output preamble, to a parameter
                                   set equal to the one it had in its source file;
  * `blocks_in_order`              the output's blocks are, in input order, the non-empty blocks read
                                   before an input became unreadable, and nothing else.
  Over `Model.ReadBlock` (the concrete block: what "preserves every block and record" means for one merged block):
  * `merged_block_same_records`    a block read from an input (ANY well-formed file, any writer), re-written by the tool's
                                   `writer.write_block(block)` under its new parameters index and read from the merged file, is the
                                   same block object – tables, items, times, counts, statistics – and yields the same records; the
                                   new index `offset + old index` addresses, in the concatenated preamble, the set with the block's
                                   tick rate (`remap_rate`); an absent index is set 0 (`absent_index_is_zero`).
  cdns-itemcount (`get_qr_count` / `get_aec_count` / `get_mm_count` of every block read, and their sums):
  * `itemcount_block_true`         for every block the reader accepts, the query/response and malformed-message counts ARE the lengths
                                   of those arrays in the file, and the address-event count is the number of DISTINCT entries of that
                                   array (the reader keeps them in a map keyed by the whole entry) – the array length itself when no
                                   entry occurs twice (`itemcount_block_true_distinct`), which is what every aggregating writer produces;
  * `itemcount_total_is_sum`       the totals are the sums of the per-block counts.
  The printed numbers are compared on the implementation with the independent Lean parse of the same file.
-/
import CdnsVerif.Model.Merge
import CdnsVerif.Proofs.ReadBlock

namespace CdnsVerif.Props.C18
open CdnsVerif.Model.Merge

/-- invariant of pass 1: every map entry points at a copy of that file's parameter sets -/
def MapOk (fs : Fs) (st : Pass1) : Prop :=
  ∀ n off, (n, off) ∈ st.map → ∃ f, fs n = some f ∧ ∀ i, i < f.params.length → st.params[off + i]? = f.params[i]?

theorem mem_setMap (m : List (String × Nat)) (n : String) (off : Nat) (x : String × Nat) :
    x ∈ setMap m n off → x = (n, off) ∨ (x ∈ m ∧ x.1 ≠ n) := by
  intro h
  simp only [setMap, List.mem_cons, List.mem_filter, bne_iff_ne, ne_eq] at h
  rcases h with h | ⟨h1, h2⟩
  · exact Or.inl h
  · exact Or.inr ⟨h1, h2⟩

theorem pass1Step_ok (fs : Fs) (st : Pass1) (name : String) (h : MapOk fs st) (hfirst : st.first = true → st.map = []) :
    MapOk fs (pass1Step fs st name) ∧ ((pass1Step fs st name).first = true → (pass1Step fs st name).map = []) := by
  unfold pass1Step
  cases hf : fs name with
  | none => exact ⟨h, hfirst⟩
  | some f =>
    simp only
    by_cases h1 : st.first = true
    · simp only [h1, if_true]
      refine ⟨?_, fun hx => by simp at hx⟩
      intro n off hm
      rw [hfirst h1] at hm
      rcases mem_setMap [] name 0 (n, off) hm with he | ⟨hx, _⟩
      · cases he; exact ⟨f, hf, fun i _ => by simp⟩
      · cases hx
    · have h1' : st.first = false := by simpa using h1
      rw [if_neg h1]
      by_cases hv : f.ver ≠ st.ver
      · rw [if_pos hv]; exact ⟨h, hfirst⟩
      · rw [if_neg hv]
        refine ⟨?_, fun hx => by simp [h1'] at hx⟩
        intro n off hm
        rcases mem_setMap st.map name st.params.length (n, off) hm with he | ⟨hx, _⟩
        · cases he
          refine ⟨f, hf, fun i hi => ?_⟩
          show (st.params ++ f.params)[st.params.length + i]? = f.params[i]?
          rw [List.getElem?_append_right (by omega)]
          simp
        · obtain ⟨g, hg, hgp⟩ := h n off hx
          refine ⟨g, hg, fun i hi => ?_⟩
          have := hgp i hi
          have hlt : off + i < st.params.length := by
            rcases Nat.lt_or_ge (off + i) st.params.length with h' | h'
            · exact h'
            · rw [List.getElem?_eq_none h'] at this
              rw [List.getElem?_eq_getElem hi] at this; cases this
          show (st.params ++ f.params)[off + i]? = g.params[i]?
          rw [List.getElem?_append_left hlt]; exact this

theorem pass1_ok (fs : Fs) (names : List String) : MapOk fs (pass1 fs names) := by
  have gen : ∀ (st : Pass1), MapOk fs st → (st.first = true → st.map = []) →
      MapOk fs (names.foldl (pass1Step fs) st) := by
    induction names with
    | nil => intro st h _; exact h
    | cons n ns ih =>
      intro st h hf
      have := pass1Step_ok fs st n h hf
      exact ih _ this.1 this.2
  exact gen Pass1.init (by intro n off hm; simp [Pass1.init] at hm) (fun _ => rfl)

/-- Every merged block refers to a parameter set equal to the one it had in its source:
    if block `b` of input `src` (with parameters index inside that file's preamble) is in the
    output with index `pi'`, then the output's set no. `pi'` is the source's set no. `b.pi`. -/
theorem merged_params_equal (fs : Fs) (names : List String) (ob : OutBlk) (hob : ob ∈ (merge fs names).blocks) :
    ∃ f b, fs ob.src = some f ∧ b ∈ f.blocks ∧ b.content = ob.content ∧ b.nonEmpty = true ∧
      (b.pi < f.params.length → (merge fs names).params[ob.pi]? = f.params[b.pi]?) := by
  simp only [merge, List.mem_flatMap] at hob
  obtain ⟨name, _, hin⟩ := hob
  unfold pass2Step at hin
  cases hfind : (pass1 fs names).map.find? (·.1 == name) with
  | none => simp [hfind] at hin
  | some e =>
    obtain ⟨n', off⟩ := e
    cases hf : fs name with
    | none => simp [hfind, hf] at hin
    | some f =>
      simp only [hfind, hf, List.mem_map, List.mem_filter] at hin
      obtain ⟨b, ⟨hb, hne⟩, rfl⟩ := hin
      have hmem := List.mem_of_find?_eq_some hfind
      have hn : n' = name := by have := List.find?_some hfind; simpa using this
      subst hn
      obtain ⟨g, hg, hgp⟩ := pass1_ok fs names n' off hmem
      rw [hf] at hg; cases hg
      have hbin : b ∈ f.blocks := by
        have : ∀ l : List Blk, ∀ x ∈ readable l, x ∈ l := by
          intro l
          induction l with
          | nil => intro x hx; simp [readable] at hx
          | cons y ys ih =>
            intro x hx
            simp only [readable] at hx
            split at hx
            · simp at hx
            · simp only [List.mem_cons] at hx ⊢
              rcases hx with rfl | hx
              · exact Or.inl rfl
              · exact Or.inr (ih x hx)
        exact this _ b hb
      exact ⟨f, b, hf, hbin, rfl, hne, fun hlt => hgp b.pi hlt⟩

/-- an input that cannot be opened as C-DNS contributes nothing -/
theorem rejected_contribute_nothing (fs : Fs) (names : List String) (name : String) (h : fs name = none) :
    ∀ ob ∈ (merge fs names).blocks, ob.src ≠ name := by
  intro ob hob
  obtain ⟨f, _, hf, _⟩ := merged_params_equal fs names ob hob
  intro e; rw [e, h] at hf; cases hf

/-- the blocks of the output are exactly, in input order, the accepted inputs' non-empty blocks
    read before the input became unreadable (definitional unfolding of `merge`, stated as the
    specification: no block is dropped, duplicated or reordered within the accepted inputs) -/
theorem blocks_in_order (fs : Fs) (names : List String) :
    (merge fs names).blocks = names.flatMap fun name =>
      match (pass1 fs names).map.find? (·.1 == name), fs name with
      | some (_, off), some f => ((readable f.blocks).filter (·.nonEmpty)).map fun b => ⟨off + b.pi, b.content, name⟩
      | _, _ => [] := rfl

/-- an input whose name never got a map entry (version mismatch everywhere it is listed, or
    unreadable) contributes nothing -/
theorem mismatch_contributes_nothing (fs : Fs) (names : List String) (name : String)
    (h : (pass1 fs names).map.find? (·.1 == name) = none) : ∀ ob ∈ (merge fs names).blocks, ob.src ≠ name := by
  intro ob hob e
  simp only [merge, List.mem_flatMap] at hob
  obtain ⟨n, _, hin⟩ := hob
  unfold pass2Step at hin
  cases hfind : (pass1 fs names).map.find? (·.1 == n) with
  | none => simp [hfind] at hin
  | some x =>
    obtain ⟨n', off⟩ := x
    cases hf : fs n with
    | none => simp [hfind, hf] at hin
    | some f =>
      simp only [hfind, hf, List.mem_map] at hin
      obtain ⟨b, _, rfl⟩ := hin
      simp only at e
      subst e
      rw [h] at hfind; cases hfind


/-! ### one merged block, concretely -/

open CdnsVerif.Model.ReadBlock CdnsVerif.Model.Builder CdnsVerif.Model.Schema in
/-- the sets of a later input are appended to the output preamble: index `i` of the input becomes `offset + i` and names a set
    with the same tick rate -/
theorem remap_rate (r0 r : List Nat) (i t : Nat) (h : rateFor r (some i) = .ok t) :
    rateFor (r0 ++ r) (some (r0.length + i)) = .ok t := by
  cases r with
  | nil => simp [rateFor] at h
  | cons x xs =>
    have hi : (x :: xs)[i]? = some t := by
      simp only [rateFor] at h
      cases hg : (x :: xs)[i]? with
      | none => rw [hg] at h; cases h
      | some y => rw [hg] at h; simp only [Except.ok.injEq] at h; rw [h]
    have hne : r0 ++ x :: xs ≠ [] := by simp
    cases hcat : r0 ++ x :: xs with
    | nil => exact absurd hcat hne
    | cons y ys =>
      have : (y :: ys)[r0.length + i]? = some t := by
        rw [← hcat, List.getElem?_append_right (by omega)]
        simpa using hi
      simp only [rateFor, this]

open CdnsVerif.Model.ReadBlock in
/-- RFC 8618: a block without block-parameters-index uses set 0 (what `get_block_parameters_index()` returns for it) -/
theorem absent_index_is_zero (r : List Nat) : rateFor r none = rateFor r (some 0) := by
  cases r with
  | nil => rfl
  | cons x xs => rfl

open CdnsVerif.Model.ReadBlock in
theorem records_readBackOf (b : CdnsVerif.Model.Builder.Blk) : records (readBackOf b) = records b := rfl

open CdnsVerif.Model.ReadBlock CdnsVerif.Model.Builder CdnsVerif.Model.Schema in
/-- **A merged block is the block that was read.**  `rates` are the tick rates of the input's parameter sets, `r0` those already
    in the output preamble when the input's sets were appended (empty for the first input).  The block the tool writes –
    `toVal` of the block object read, with index `r0.length + old index` – is read from the merged file as the same block object
    and yields the same records or the same exception class.  (Preconditions of the property: tick rate ≥ 1 and an earliest
    time inside the representable range.) -/
theorem merged_block_same_records (rates r0 : List Nat) (v : Val) (rb : RdBlk) (hread : ofVal rates v = .ok rb)
    (hr : 1 ≤ rb.tps) (he : C17.InRange rb.blk.earliest rb.tps) :
    ∃ rb', ofVal (r0 ++ rates) (toVal rb.blk (some (r0.length + rb.pi.getD 0)) rb.tps) = .ok rb' ∧
      rb'.tps = rb.tps ∧ rb'.blk = readBackOf rb.blk ∧ records rb'.blk = records rb.blk := by
  have hrate0 : rateFor rates (some (rb.pi.getD 0)) = .ok rb.tps := by
    have := (ofVal_facts rates v rb hread).2.2.2
    cases hp : rb.pi with
    | none => rw [hp, absent_index_is_zero] at this; simpa using this
    | some i => rw [hp] at this; simpa using this
  have := reread_of_read_block rates (r0 ++ rates) v rb hread (some (r0.length + rb.pi.getD 0)) hr he (remap_rate r0 rates _ _ hrate0)
  exact ⟨_, this, rfl, rfl, records_readBackOf rb.blk⟩

/-! Non-vacuity: three inputs, the second with another version, the third truncated after one block. -/
def demoFs : Fs := fun n =>
  if n = "a" then some ⟨(1, 0, some 1), [10, 11], [⟨1, 100, true, false⟩, ⟨0, 101, false, false⟩]⟩
  else if n = "b" then some ⟨(1, 1, some 1), [20], [⟨0, 200, true, false⟩]⟩
  else if n = "c" then some ⟨(1, 0, some 1), [30], [⟨0, 300, true, false⟩, ⟨0, 301, true, true⟩, ⟨0, 302, true, false⟩]⟩
  else none

example : (merge demoFs ["a", "b", "zz", "c"]).params = [10, 11, 30] ∧
    (merge demoFs ["a", "b", "zz", "c"]).blocks = [⟨1, 100, "a"⟩, ⟨2, 300, "c"⟩] := by decide

/-! ### cdns-itemcount -/

section ItemCount
open CdnsVerif.Model.ReadBlock CdnsVerif.Model.Schema CdnsVerif.Model.Builder CdnsVerif.Generated

/-- what the tool adds up and prints for one block: `get_qr_count()`, `get_aec_count()`, `get_mm_count()` -/
def blockCounts (rb : RdBlk) : Nat × Nat × Nat := (rb.blk.qrs.length, rb.blk.aecs.length, rb.blk.mms.length)

/-- the totals it prints without `-b` -/
def totalCounts (bs : List RdBlk) : Nat × Nat × Nat :=
  bs.foldl (fun t rb => (t.1 + (blockCounts rb).1, t.2.1 + (blockCounts rb).2.1, t.2.2 + (blockCounts rb).2.2)) (0, 0, 0)

theorem allOk_length {α : Type} : ∀ (l : List (Except RErr α)) (xs : List α), allOk l = .ok xs → xs.length = l.length
  | [], xs, h => by simp [allOk] at h; subst h; rfl
  | .error e :: rest, xs, h => by simp [allOk] at h
  | .ok x :: rest, xs, h => by
    simp only [allOk] at h
    cases hr : allOk rest with
    | error e => rw [hr] at h; cases h
    | ok ys =>
      rw [hr] at h
      cases h
      simp [allOk_length rest ys hr]

/-- entering entries that are pairwise different (and different from what the map holds) appends them all -/
theorem putAec_distinct : ∀ (l acc : List (AEC × Nat)), (∀ e ∈ l, acc.any (· == e) = false) → l.Pairwise (fun a b => (a == b) = false) →
    l.foldl putAec acc = acc ++ l
  | [], acc, _, _ => by simp
  | e :: rest, acc, hacc, hp => by
    have he : acc.any (· == e) = false := hacc e (by simp)
    simp only [List.foldl_cons, putAec, he, Bool.false_eq_true, if_false]
    rw [List.pairwise_cons] at hp
    rw [putAec_distinct rest (acc ++ [e]) ?_ hp.2]
    · simp
    · intro x hx
      rw [List.any_append, hacc x (by simp [hx]), Bool.false_or]
      simp only [List.any_cons, List.any_nil, Bool.or_false]
      exact hp.1 x hx

/-- the number of entries never exceeds the array's length (equal entries are entered once) -/
theorem putAec_le : ∀ (l acc : List (AEC × Nat)), (l.foldl putAec acc).length ≤ acc.length + l.length
  | [], acc => by simp
  | e :: rest, acc => by
    simp only [List.foldl_cons, List.length_cons]
    have := putAec_le rest (putAec acc e)
    have h2 : (putAec acc e).length ≤ acc.length + 1 := by
      unfold putAec; split <;> simp
    omega

/-- **The per-block counts are true.**  For every block value the reader accepts (`ofVal`, i.e. `CdnsBlockRead::read` after the raw
    read of ANY well-formed encoding): the query/response and malformed-message counts are the lengths of those arrays in the file;
    the address-event count is the number of entries the reader's map holds – the array's entries with repetitions of an identical
    entry entered once – and never more than the array's length. -/
theorem itemcount_block_true (rates : List Nat) (v : Val) (rb : RdBlk) (h : ofVal rates v = .ok rb) :
    (blockCounts rb).1 = (fList (recOf v) BlockMapIndex.query_responses).length ∧
    (blockCounts rb).2.2 = (fList (recOf v) BlockMapIndex.malformed_messages).length ∧
    (blockCounts rb).2.1 = (((fList (recOf v) BlockMapIndex.address_event_counts).map aecOf).foldl putAec []).length ∧
    (blockCounts rb).2.1 ≤ (fList (recOf v) BlockMapIndex.address_event_counts).length := by
  unfold ofVal at h
  simp only at h
  split at h
  · cases h
  · split at h
    · cases h
    · split at h
      · cases h
      · split at h
        · cases h
        · rename_i qrs hq
          split at h
          · cases h
          · rename_i mms hm
            cases h
            refine ⟨?_, ?_, rfl, ?_⟩
            · have := allOk_length _ _ hq; simpa [blockCounts] using this
            · have := allOk_length _ _ hm; simpa [blockCounts] using this
            · have := putAec_le ((fList (recOf v) BlockMapIndex.address_event_counts).map aecOf) []
              simpa [blockCounts] using this

/-- …and when no address-event entry occurs twice in the block (every aggregating writer, the library's included) the
    address-event count is the length of the array. -/
theorem itemcount_block_true_distinct (rates : List Nat) (v : Val) (rb : RdBlk) (h : ofVal rates v = .ok rb)
    (hd : ((fList (recOf v) BlockMapIndex.address_event_counts).map aecOf).Pairwise (fun a b => (a == b) = false)) :
    (blockCounts rb).2.1 = (fList (recOf v) BlockMapIndex.address_event_counts).length := by
  rw [(itemcount_block_true rates v rb h).2.2.1, putAec_distinct _ [] (by simp) hd]
  simp

theorem totalCounts_acc (bs : List RdBlk) (t : Nat × Nat × Nat) :
    bs.foldl (fun t rb => (t.1 + (blockCounts rb).1, t.2.1 + (blockCounts rb).2.1, t.2.2 + (blockCounts rb).2.2)) t =
    (t.1 + ((bs.map fun rb => (blockCounts rb).1).sum), t.2.1 + ((bs.map fun rb => (blockCounts rb).2.1).sum),
     t.2.2 + ((bs.map fun rb => (blockCounts rb).2.2).sum)) := by
  induction bs generalizing t with
  | nil => simp
  | cons b rest ih => simp only [List.foldl_cons, ih, List.map_cons, List.sum_cons]; simp [Nat.add_assoc]

/-- the totals are the sums of the per-block counts, over all blocks read -/
theorem itemcount_total_is_sum (bs : List RdBlk) :
    totalCounts bs = ((bs.map fun rb => (blockCounts rb).1).sum, (bs.map fun rb => (blockCounts rb).2.1).sum,
                      (bs.map fun rb => (blockCounts rb).2.2).sum) := by
  unfold totalCounts
  rw [totalCounts_acc]; simp

end ItemCount

end CdnsVerif.Props.C18
