/-
  C15 — a named output becomes visible under its final name only when complete.

  Model: `Model.Writer` – the system calls a named output issues (`open '<name>.part'`, the data
  in ANY split into write calls – libstdc++'s buffering is not assumed –, close, `rename`), for
  any sequence of outputs (rotations, rotation onto an existing name, destruction), applied to
  an arbitrary initial file system.  A crash = any prefix of the trace.

  `final_names_complete`: at every crash point, the file found under any final name is either
  what was there before the scenario started or the complete content of an output with that
  name; `part_names` are the only other names touched.
  Hypothesis `Disjoint`: no final name is some output's '.part' name (names chosen by the
  application; '<x>.part' ≠ '<y>' for the names used).
  Partial: durability across power loss (fsync, directory ordering) and atomicity of rename(2)
  are the operating system's.
-/
import CdnsVerif.Model.Writer

namespace CdnsVerif.Props.C15
open CdnsVerif.Model.Writer CdnsVerif.Spec.Cbor

/-- what may legitimately be found under name `p`: the old file, or a complete output named `p` -/
def Allowed (fs0 : Fs) (outs : List OutSpec) (p : String) (v : Option Bytes) : Prop :=
  v = fs0 p ∨ ∃ o ∈ outs, o.name = p ∧ v = some o.content

def isPart (outs : List OutSpec) (p : String) : Prop := ∃ o ∈ outs, o.part = p

/-- writes while producing output `o` never touch a name that is not a '.part' name -/
theorem apply_other (fs : Fs) (s : Sys) (p : String)
    (h : match s with
         | .openTrunc q => q ≠ p
         | .write q _ => q ≠ p
         | .close _ => True
         | .rename a b => a ≠ p ∧ b ≠ p) : fs.apply s p = fs p := by
  cases s <;> simp [Fs.apply] at * <;> simp_all [Ne.symm]

/-- after any prefix of the data writes, '<name>.part' holds a prefix-concatenation; after all of them, the content -/
theorem writes_part (fs : Fs) (part : String) (pieces : List Bytes) (h0 : fs part = some []) :
    (Fs.applyAll fs (pieces.map (Sys.write part))) part = some pieces.flatten := by
  have gen : ∀ (fs : Fs) (acc : Bytes), fs part = some acc →
      (Fs.applyAll fs (pieces.map (Sys.write part))) part = some (acc ++ pieces.flatten) := by
    induction pieces with
    | nil => intro fs acc h; simp [Fs.applyAll, h]
    | cons d ds ih =>
      intro fs acc h
      simp only [List.map_cons, Fs.applyAll, List.foldl_cons]
      have : (fs.apply (Sys.write part d)) part = some (acc ++ d) := by simp [Fs.apply, h]
      have := ih (fs.apply (Sys.write part d)) (acc ++ d) this
      simp only [Fs.applyAll] at this
      rw [this]; simp
  simpa using gen fs [] h0

theorem writes_other (fs : Fs) (part p : String) (pieces : List Bytes) (hne : part ≠ p) :
    (Fs.applyAll fs (pieces.map (Sys.write part))) p = fs p := by
  induction pieces generalizing fs with
  | nil => rfl
  | cons d ds ih =>
    simp only [List.map_cons, Fs.applyAll, List.foldl_cons]
    have := ih (fs.apply (Sys.write part d))
    simp only [Fs.applyAll] at this
    rw [this]
    show (if p = part then _ else fs p) = fs p
    rw [if_neg (Ne.symm hne)]

/-- One output, any crash point inside its trace: a name that is not its '.part' name holds
    either what it held before or (only the final name, only after the rename) the complete content. -/
theorem one_output (fs : Fs) (o : OutSpec) (p : String) (hp : p ≠ o.part) (k : Nat) :
    (Fs.applyAll fs (o.trace.take k)) p = fs p ∨ (p = o.name ∧ (Fs.applyAll fs (o.trace.take k)) p = some o.content) := by
  -- the trace is: open, writes, close, rename; only the rename touches a name other than the part file
  have htr : o.trace = ([Sys.openTrunc o.part] ++ o.pieces.map (Sys.write o.part) ++ [Sys.close o.part]) ++ [Sys.rename o.part o.name] := by
    simp [OutSpec.trace]
  rw [htr]
  generalize hpre : [Sys.openTrunc o.part] ++ o.pieces.map (Sys.write o.part) ++ [Sys.close o.part] = pre
  have hpre_ok : ∀ s ∈ pre, match s with
      | .openTrunc q => q = o.part | .write q _ => q = o.part | .close _ => True | .rename _ _ => False := by
    intro s hs
    rw [← hpre] at hs
    simp only [List.mem_append, List.mem_singleton, List.mem_map] at hs
    rcases hs with ((rfl | ⟨d, _, rfl⟩) | rfl) <;> simp
  have hquiet : ∀ (t : List Sys), (∀ s ∈ t, match s with
      | .openTrunc q => q = o.part | .write q _ => q = o.part | .close _ => True | .rename _ _ => False) →
      ∀ fs : Fs, (Fs.applyAll fs t) p = fs p := by
    intro t
    induction t with
    | nil => intro _ fs; rfl
    | cons s ss ih =>
      intro hs fs
      simp only [Fs.applyAll, List.foldl_cons]
      have h1 := ih (fun x hx => hs x (by simp [hx])) (fs.apply s)
      simp only [Fs.applyAll] at h1
      rw [h1]
      have := hs s (by simp)
      cases s with
      | openTrunc q => simp only at this; subst this; show (if p = o.part then _ else fs p) = fs p; rw [if_neg hp]
      | write q d => simp only at this; subst this; show (if p = o.part then _ else fs p) = fs p; rw [if_neg hp]
      | close q => rfl
      | rename a b => simp at this
  by_cases hk : k ≤ pre.length
  · left
    rw [List.take_append_of_le_length hk]
    exact hquiet _ (fun s hs => hpre_ok s (List.mem_of_mem_take hs)) fs
  · have hall : (pre ++ [Sys.rename o.part o.name]).take k = pre ++ [Sys.rename o.part o.name] := by
      apply List.take_of_length_le; simp; omega
    rw [hall]
    simp only [Fs.applyAll, List.foldl_append, List.foldl_cons, List.foldl_nil]
    have hq := hquiet pre hpre_ok fs
    simp only [Fs.applyAll] at hq
    -- the part file holds the complete content when the rename happens
    have hcontent : (List.foldl Fs.apply fs pre) o.part = some o.content := by
      rw [← hpre]
      simp only [List.foldl_append, List.foldl_cons, List.foldl_nil]
      have hopen : (fs.apply (Sys.openTrunc o.part)) o.part = some [] := by simp [Fs.apply]
      have hw := writes_part (fs.apply (Sys.openTrunc o.part)) o.part o.pieces hopen
      simp only [Fs.applyAll] at hw
      show (List.foldl Fs.apply (fs.apply (Sys.openTrunc o.part)) (o.pieces.map (Sys.write o.part))) o.part = _
      rw [hw]; rfl
    by_cases hn : p = o.name
    · right
      refine ⟨hn, ?_⟩
      show (if p = o.name then (List.foldl Fs.apply fs pre) o.part else _) = _
      rw [if_pos hn, hcontent]
    · left
      show (if p = o.name then _ else if p = o.part then none else (List.foldl Fs.apply fs pre) p) = fs p
      rw [if_neg hn, if_neg hp, hq]

/-- no final name is anybody's '.part' name -/
def Disjoint (outs : List OutSpec) : Prop := ∀ o ∈ outs, ∀ o' ∈ outs, o.name ≠ o'.part

/-- Every scenario (any number of outputs, names may repeat), every crash point: what is
    found under a final name is the file from before or a complete output of that name. -/
theorem final_names_complete (fs0 : Fs) (outs : List OutSpec) (hd : Disjoint outs) (k : Nat) :
    ∀ o ∈ outs, Allowed fs0 outs o.name ((Fs.applyAll fs0 ((scenarioTrace outs).take k)) o.name) := by
  -- generalised over the outputs still to come and the file system reached so far
  have gen : ∀ (rest : List OutSpec) (fs : Fs) (k : Nat) (p : String),
      (∀ o ∈ rest, p ≠ o.part) → (∀ o ∈ rest, o ∈ outs) → Allowed fs0 outs p (fs p) →
      Allowed fs0 outs p ((Fs.applyAll fs ((scenarioTrace rest).take k)) p) := by
    intro rest
    induction rest with
    | nil => intro fs k p _ _ h; simpa [scenarioTrace, Fs.applyAll] using h
    | cons o os ih =>
      intro fs k p hpart hmem h
      simp only [scenarioTrace, List.flatMap_cons]
      rw [List.take_append]
      simp only [Fs.applyAll, List.foldl_append]
      have h1 := one_output fs o p (hpart o (by simp)) k
      simp only [Fs.applyAll] at h1
      have hA : Allowed fs0 outs p (List.foldl Fs.apply fs (List.take k o.trace) p) := by
        rcases h1 with h1 | ⟨hn, h1⟩
        · rw [h1]; exact h
        · right; exact ⟨o, hmem o (by simp), hn.symm, h1⟩
      have := ih (List.foldl Fs.apply fs (List.take k o.trace)) (k - o.trace.length) p
        (fun x hx => hpart x (by simp [hx])) (fun x hx => hmem x (by simp [hx])) hA
      simpa [scenarioTrace, Fs.applyAll] using this
  intro o ho
  exact gen outs fs0 k o.name (fun o' ho' => hd o ho o' ho') (fun _ h => h) (Or.inl rfl)

/-! Non-vacuity: two outputs, the second rotated onto the first's name; crash before the second rename. -/
example : Disjoint [⟨"a", [[1], [2]]⟩, ⟨"a", [[3]]⟩] := by
  intro o ho o' ho'; simp at ho ho'; rcases ho with rfl | rfl <;> rcases ho' with rfl | rfl <;> decide

end CdnsVerif.Props.C15
