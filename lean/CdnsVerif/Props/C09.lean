/-
  C09 — file preamble and block parameters survive write → read unchanged.

  * `struct_roundtrip`: for EVERY schema (any nesting of structs, arrays and scalar members) and every
    value conforming to it, what the generic struct writer emits is read back by the generic struct
    reader as exactly that value – absent optional members stay absent, present-but-empty structures
    and lists stay present, list order and parameter-set indices are kept (induction on the reader's fuel
    over `Model.Schema`, which models all struct `write`/`read` functions of the library);
  * `preamble_roundtrip`: the instance for the FilePreamble → BlockParameters → StorageParameters →
    StorageHints / CollectionParameters tree (`Model.Structs`, keys from the translator);
  * `struct_output_wellformed`: what the writer emits is a well-formed RFC 8949 item whose map/array
    counts equal the members/elements present (the struct-level half of C02);
  * `preamble_keys_match_rfc`: the preamble's keys are those of RFC 8618.
  The model is tied to the code by the C09 correspondence: on random preambles the model reader
  (through the window model) returns what the library's reader returns, and the model writer
  reproduces the library's bytes exactly.
-/
import CdnsVerif.Proofs.Keys
import CdnsVerif.Props.C06
import CdnsVerif.Props.C07
import CdnsVerif.Proofs.Schema
import CdnsVerif.Model.Structs

namespace CdnsVerif.Props.C09
open CdnsVerif.Spec.Cbor CdnsVerif.Model CdnsVerif.Model.Decoder

theorem preamble_keys_match_rfc : Proofs.Keys.keysAgree = true := Proofs.Keys.generated_keys_eq_rfc

open CdnsVerif.Model.Structs in
/-- **The preamble schemas are what the source does** (translator T3, regenerated on every run by running the working tree's own
    `write`/`read` functions): for each struct of the preamble tree the hand-written schema lists exactly the keys the writer
    emits, in its order, each with the kind and width of the item written, and marks as required exactly the members without
    which the reader throws; the reader keeps of an over-wide foreign value exactly that width; and the library's own
    read-then-write of an all-members value reproduces the bytes. -/
theorem preamble_schemas_match_source :
    sourceRows "StorageHints" = some (rowsOf storageHints) ∧
    sourceRows "StorageParameters" = some (rowsOf storageParameters) ∧
    sourceRows "CollectionParameters" = some (rowsOf collectionParameters) ∧
    sourceRows "BlockParameters" = some (rowsOf blockParameters) ∧
    sourceRows "FilePreamble" = some (rowsOf filePreamble) ∧
    (["StorageHints", "StorageParameters", "CollectionParameters", "BlockParameters", "FilePreamble"].all readerWidthsAgree) = true ∧
    (Generated.schemaRoundTrips.all (·.2)) = true := by
  repeat' apply And.intro
  all_goals decide +kernel

/-- what the encoder writes for an unsigned member is read back as the same number -/
theorem uint_roundtrip (n : Nat) (h : n < 2 ^ 64) (rest : Bytes) :
    readUnsigned.run (C06.EncOp.spec (.u64 n) ++ rest) = .ok (n, rest) := by
  have := C07.readUnsigned_accepts (shortest n) n (shortest_fits n h) rest
  simpa [C06.EncOp.spec, preferredHead, Item.enc] using this

theorem text_roundtrip (bs : Bytes) (h : bs.length < 2 ^ 64) (fuel : Nat) (rest : Bytes) :
    (readTextstring fuel).run (C06.EncOp.spec (.textstring bs) ++ rest) = .ok (bs, rest) := by
  have := C07.readTextstring_accepts (shortest bs.length) bs (shortest_fits _ h) fuel rest
  simpa [C06.EncOp.spec, preferredHead, Item.enc] using this

theorem bytes_roundtrip (bs : Bytes) (h : bs.length < 2 ^ 64) (fuel : Nat) (rest : Bytes) :
    (readBytestring fuel).run (C06.EncOp.spec (.bytestring bs) ++ rest) = .ok (bs, rest) := by
  have := C07.readBytestring_accepts (shortest bs.length) bs (shortest_fits _ h) fuel rest
  simpa [C06.EncOp.spec, preferredHead, Item.enc] using this

theorem bool_roundtrip (b : Bool) (rest : Bytes) :
    readBool.run (C06.EncOp.spec (.bool b) ++ rest) = .ok (b, rest) := by
  cases b <;> rfl


open CdnsVerif.Model.Schema CdnsVerif.Model.Structs

/-- Generic struct round trip: any schema, any conforming value, any fuel the value needs. -/
theorem struct_roundtrip (k : Kind) (v : Val) (hc : Conforms k v) (fuel : Nat) (hf : need v ≤ fuel) (rest : Bytes) :
    (readVal fuel k).run (writeBytes k v ++ rest) = .ok (v, rest) :=
  (rt_all fuel).1 k v rest hc hf

/-- File preamble: every conforming preamble value survives write → read unchanged. -/
theorem preamble_roundtrip (v : Val) (hc : Conforms filePreamble v) (rest : Bytes) :
    (readVal (need v) filePreamble).run (writeBytes filePreamble v ++ rest) = .ok (v, rest) :=
  struct_roundtrip filePreamble v hc (need v) (Nat.le_refl _) rest

/-- what a struct writer emits is one well-formed item; declared lengths = members present -/
theorem struct_output_wellformed (k : Kind) (v : Val) (hc : Conforms k v) : (toItem k v).WF :=
  (wfs_all (need v)).1 k v (Nat.le_refl _) hc

/-! Non-vacuity: a struct with a required 8-bit member, an optional text member (absent) and a
    present-but-empty nested struct conforms, and the round trip applies to it. -/
def sampleKind : Kind := .struct [.mk 0 (.uint 8) true, .mk 1 .tstr false, .mk 2 (.struct [.mk 0 (.uint 64) false]) false,
                                  .mk 3 (.arr (.uint 16)) true]
def sampleVal : Val := .record [(0, .num 255), (2, .record []), (3, .list [.num 1, .num 65535])]

theorem sample_conforms : Conforms sampleKind sampleVal := by
  unfold sampleKind sampleVal
  unfold Conforms
  refine ⟨by decide, ?_, by decide, by decide⟩
  unfold ConformsPairs
  refine ⟨by unfold keyOk; omega, ⟨.mk 0 (.uint 8) true, rfl, ?_⟩, ?_⟩
  · show Conforms (.uint 8) (.num 255)
    unfold Conforms; omega
  · unfold ConformsPairs
    refine ⟨by unfold keyOk; omega, ⟨.mk 2 (.struct [.mk 0 (.uint 64) false]) false, rfl, ?_⟩, ?_⟩
    · show Conforms (.struct [.mk 0 (.uint 64) false]) (.record [])
      unfold Conforms
      refine ⟨by decide, ?_, by decide, by decide⟩
      unfold ConformsPairs; trivial
    · unfold ConformsPairs
      refine ⟨by unfold keyOk; omega, ⟨.mk 3 (.arr (.uint 16)) true, rfl, ?_⟩, ?_⟩
      · show Conforms (.arr (.uint 16)) (.list [.num 1, .num 65535])
        unfold Conforms
        refine ⟨by decide, ?_⟩
        unfold ConformsList
        refine ⟨by unfold Conforms; omega, ?_⟩
        unfold ConformsList
        refine ⟨by unfold Conforms; omega, ?_⟩
        unfold ConformsList; trivial
      · unfold ConformsPairs; trivial

example (rest : Bytes) : (readVal (need sampleVal) sampleKind).run (writeBytes sampleKind sampleVal ++ rest) = .ok (sampleVal, rest) :=
  struct_roundtrip sampleKind sampleVal sample_conforms _ (Nat.le_refl _) rest

end CdnsVerif.Props.C09
