/-
  C09 — file preamble and block parameters survive write → read unchanged.

  Proved so far: the preamble's map keys are those of RFC 8618 (`preamble_keys_match_rfc`);
  the decoder accepts every value the encoder emits for the member kinds the preamble uses
  (unsigned integers at every width, text and byte strings, booleans, array/map starts:
  C06 + C07, combined in `uint_roundtrip`, `text_roundtrip`, `bytes_roundtrip`).
  The struct-level composition is tied by the write→read correspondence over random preambles
  (library reader and independent Lean reader against the value written).
-/
import CdnsVerif.Proofs.Keys
import CdnsVerif.Props.C06
import CdnsVerif.Props.C07

namespace CdnsVerif.Props.C09
open CdnsVerif.Spec.Cbor CdnsVerif.Model CdnsVerif.Model.Decoder

theorem preamble_keys_match_rfc : Proofs.Keys.keysAgree = true := Proofs.Keys.generated_keys_eq_rfc

/-- what the encoder writes for an unsigned member is read back as the same number -/
theorem uint_roundtrip (n : Nat) (h : n < 2 ^ 64) (rest : Bytes) :
    readUnsigned.run (C06.EncOp.spec (.u64 n) ++ rest) = .ok (n, rest) := by
  have := C07.readUnsigned_accepts (shortest n) n (shortest_fits n h) rest
  simpa [C06.EncOp.spec, preferredHead, Item.enc] using this

theorem text_roundtrip (bs : Bytes) (h : bs.length < 2 ^ 64) (fuel : Nat) (rest : Bytes) :
    (readTextstring fuel).run (C06.EncOp.spec (.textstring bs) ++ rest) = .ok (bs, rest) := by
  have := C07.readTextstring_accepts (shortest bs.length) bs (shortest_fits _ h) fuel rest
  simpa [C06.EncOp.spec, preferredHead, Item.enc] using this

theorem bytes_roundtrip (bs : Bytes) (h : bs.length < 2 ^ 64) (fuel : Nat) (rest : Bytes) :
    (readBytestring fuel).run (C06.EncOp.spec (.bytestring bs) ++ rest) = .ok (bs, rest) := by
  have := C07.readBytestring_accepts (shortest bs.length) bs (shortest_fits _ h) fuel rest
  simpa [C06.EncOp.spec, preferredHead, Item.enc] using this

theorem bool_roundtrip (b : Bool) (rest : Bytes) :
    readBool.run (C06.EncOp.spec (.bool b) ++ rest) = .ok (b, rest) := by
  cases b <;> rfl

end CdnsVerif.Props.C09
