/-
  C20 — independent exporter/reader instances are safe to use from concurrent threads.

  (1) `schedule_independent`: a program whose threads each own their state and share only
      read-only data produces, under EVERY interleaving of the threads' steps, exactly the
      per-thread outputs of the sequential runs (induction over the schedule).
  (2) The library IS such a program, as far as static storage goes – generated obligations over
      the inventory the translator (T2) rebuilds from the working tree's objects on every run:
      `no_shared_mutable` (every writable static-storage symbol is const-qualified, thread-local
      or C++ runtime data) and `no_nonreentrant_call` (no imported C function with hidden static
      state).  A `static` scratch buffer or cache added anywhere shows up as a new `mutable`
      symbol and breaks (2).
  Partial: objects reached through pointers handed in by the application are outside the
  inventory (the property excludes sharing them); libstdc++, zlib, liblzma are trusted to be
  thread-safe for distinct objects; data races are searched for with ThreadSanitizer.
-/
import CdnsVerif.Generated.Globals

namespace CdnsVerif.Props.C20
open CdnsVerif.Generated

/-! ### (2) the inventory -/

def sharedOk (cls : String) : Bool := cls == "constQualified" || cls == "threadLocal" || cls == "runtime"

/-- libc functions that keep hidden static state (not safe to call from several threads) -/
def nonReentrant : List String :=
  ["strtok", "localtime", "gmtime", "asctime", "ctime", "rand", "srand", "strerror", "readdir", "getpwnam", "getpwuid",
   "getgrnam", "getgrgid", "inet_ntoa", "gethostbyname", "gethostbyaddr", "getservbyname", "getprotobyname", "tmpnam",
   "ttyname", "setlocale", "getenv", "putenv", "setenv", "ecvt", "fcvt", "gcvt", "drand48", "lrand48", "mrand48", "getlogin",
   "basename", "dirname", "crypt", "ptsname", "wcstombs", "mblen", "mbtowc", "wctomb"]

theorem no_shared_mutable : (writableSymbols.all fun s => sharedOk s.2) = true := by decide +kernel

theorem no_nonreentrant_call : (importedSymbols.all fun f => !nonReentrant.contains f) = true := by decide +kernel

/-! ### (1) interleavings of threads with private state -/

variable {C σ ι ο : Type}

/-- one thread: reads the shared constants, updates ITS state, emits an output -/
abbrev Step (C σ ι ο : Type) := C → σ → ι → σ × ο

/-- sequential run of one thread over its inputs -/
def runSeq (f : Step C σ ι ο) (c : C) (s : σ) : List ι → σ × List ο
  | [] => (s, [])
  | x :: xs =>
    let (s1, o) := f c s x
    let (s2, os) := runSeq f c s1 xs
    (s2, o :: os)

structure World (σ ι ο : Type) where
  st : Nat → σ                  -- private state of thread i
  pending : Nat → List ι        -- inputs thread i has not processed yet
  out : Nat → List ο            -- outputs of thread i so far

/-- the scheduler lets thread `i` take one step (nothing happens if it has finished) -/
def stepThread (f : Nat → Step C σ ι ο) (c : C) (w : World σ ι ο) (i : Nat) : World σ ι ο :=
  match w.pending i with
  | [] => w
  | x :: xs =>
    let (s', o) := f i c (w.st i) x
    { st := fun j => if j = i then s' else w.st j,
      pending := fun j => if j = i then xs else w.pending j,
      out := fun j => if j = i then w.out i ++ [o] else w.out j }

def runSched (f : Nat → Step C σ ι ο) (c : C) (w : World σ ι ο) (sched : List Nat) : World σ ι ο :=
  sched.foldl (stepThread f c) w

theorem runSeq_append (f : Step C σ ι ο) (c : C) (s : σ) (xs ys : List ι) :
    runSeq f c s (xs ++ ys) = ((runSeq f c (runSeq f c s xs).1 ys).1, (runSeq f c s xs).2 ++ (runSeq f c (runSeq f c s xs).1 ys).2) := by
  induction xs generalizing s with
  | nil => simp [runSeq]
  | cons x xs ih => simp only [List.cons_append, runSeq]; rw [ih]

/-- invariant: what thread i has done so far is the sequential run over the inputs it has consumed -/
def Agrees (f : Nat → Step C σ ι ο) (c : C) (s0 : Nat → σ) (inputs : Nat → List ι) (w : World σ ι ο) : Prop :=
  ∀ i, ∃ done, inputs i = done ++ w.pending i ∧ runSeq (f i) c (s0 i) done = (w.st i, w.out i)

theorem step_agrees (f : Nat → Step C σ ι ο) (c : C) (s0 : Nat → σ) (inputs : Nat → List ι) (w : World σ ι ο)
    (h : Agrees f c s0 inputs w) (k : Nat) : Agrees f c s0 inputs (stepThread f c w k) := by
  intro i
  unfold stepThread
  cases hp : w.pending k with
  | nil => simpa [hp] using h i
  | cons x xs =>
    simp only
    by_cases hik : i = k
    · subst hik
      obtain ⟨done, hd, hr⟩ := h i
      refine ⟨done ++ [x], ?_, ?_⟩
      · simp [hd, hp]
      · rw [runSeq_append, hr]
        simp [runSeq]
    · obtain ⟨done, hd, hr⟩ := h i
      exact ⟨done, by simp [hik, hd], by simp [hik, hr]⟩

/-- Every schedule: each thread's outputs and state are those of its own sequential run over
    the inputs it has consumed; once it has consumed all of them, exactly the sequential result. -/
theorem schedule_independent (f : Nat → Step C σ ι ο) (c : C) (s0 : Nat → σ) (inputs : Nat → List ι) (sched : List Nat) :
    let w := runSched f c { st := s0, pending := inputs, out := fun _ => [] } sched
    ∀ i, w.pending i = [] → (w.st i, w.out i) = runSeq (f i) c (s0 i) (inputs i) := by
  intro w i hdone
  have hinit : Agrees f c s0 inputs { st := s0, pending := inputs, out := fun _ => [] } :=
    fun j => ⟨[], by simp, rfl⟩
  have hall : ∀ (sched : List Nat) (w0 : World σ ι ο), Agrees f c s0 inputs w0 → Agrees f c s0 inputs (runSched f c w0 sched) := by
    intro sched
    induction sched with
    | nil => intro w0 h; exact h
    | cons k ks ih => intro w0 h; exact ih _ (step_agrees f c s0 inputs w0 h k)
  obtain ⟨done, hd, hr⟩ := hall sched _ hinit i
  have : inputs i = done := by rw [hd]; show done ++ w.pending i = done; rw [hdone]; simp
  rw [this, hr]

/-! Non-vacuity: two counters with different increments, interleaved. -/
example : let f : Nat → Step Nat Nat Nat Nat := fun i c s x => (s + x + c + i, s)
    let w := runSched f 10 { st := fun _ => 0, pending := fun i => if i < 2 then [1, 2] else [], out := fun _ => [] } [0, 1, 1, 0]
    (w.out 0, w.out 1) = ((runSeq (f 0) 10 0 [1, 2]).2, (runSeq (f 1) 10 0 [1, 2]).2) := by decide

end CdnsVerif.Props.C20
