/-
  C13 — rotation yields self-contained files and loses, repeats or reorders nothing.

  Over `Model.Exporter`:
  * `closed_immutable`   an output closed by rotation receives nothing afterwards;
  * `output_shape`       every output is either empty (no block, zero bytes) or consists of the
                         file header written once, its blocks, and – once closed – one break;
  * `params_cover`       under the documented caller duty, the preamble of every output
                         contains every parameter set its blocks refer to;
  * conservation across outputs in rotation order is `C12.conservation_qr/mm`
    (`blocksOf` enumerates the outputs in rotation order); `carry_over` states that a
    rotation without export keeps the buffered block for the next output.
-/
import CdnsVerif.Props.C12
import CdnsVerif.Props.C10

namespace CdnsVerif.Props.C13
open CdnsVerif.Model.Exporter

variable (hdr : Nat → Nat) (bsz : Block → Nat)

/-! ### closed outputs never change -/

theorem step_done_prefix (s : ExpSt) (op : Op) : ∃ ext, (step hdr bsz s op).1.done = s.done ++ ext := by
  by_cases h : C10.isRotate op = true
  · cases op <;> simp [C10.isRotate] at h
    rename_i ex
    simp only [step]
    cases ex
    · exact ⟨_, rfl⟩
    · simp only [if_true]
      have := (C10.writeBlock_bytes hdr bsz s).2
      generalize writeBlock hdr bsz s = r at this
      obtain ⟨s1, w⟩ := r
      simp only at this ⊢
      rw [this]; exact ⟨_, rfl⟩
  · have := (C10.step_bytes_nonrotate hdr bsz s op (by simpa using h)).2
    exact ⟨[], by simp [this]⟩

/-- An output closed by a rotation is never touched again: after any further history the
    list of closed outputs still starts with it, unchanged. -/
theorem closed_immutable (s : ExpSt) (ops : List Op) : ∃ ext, (run hdr bsz s ops).1.done = s.done ++ ext := by
  induction ops generalizing s with
  | nil => exact ⟨[], by simp [run]⟩
  | cons op ops ih =>
    simp only [run]
    obtain ⟨e1, h1⟩ := step_done_prefix hdr bsz s op
    obtain ⟨e2, h2⟩ := ih (step hdr bsz s op).1
    exact ⟨e1 ++ e2, by rw [h2, h1, List.append_assoc]⟩

/-! ### what an output consists of -/

def bodySize (bl : List Block) : Nat := (bl.map bsz).sum

/-- an open output: header (once, sized by the preamble in force at its first block) + blocks -/
def OpenShape (o : Output) : Prop :=
  (o.blocks = [] → o.bytes = 0) ∧ (o.blocks ≠ [] → o.bytes = hdr o.params + bodySize bsz o.blocks)
/-- a closed output: nothing at all, or header + blocks + the single break -/
def ClosedShape (o : Output) : Prop :=
  (o.blocks = [] → o.bytes = 0) ∧ (o.blocks ≠ [] → o.bytes = hdr o.params + bodySize bsz o.blocks + 1)

def ShapeInv (s : ExpSt) : Prop :=
  s.blocksWritten = s.out.blocks.length ∧ OpenShape hdr bsz s.out ∧ ∀ o ∈ s.done, ClosedShape hdr bsz o

theorem bodySize_append (bl : List Block) (b : Block) : bodySize bsz (bl ++ [b]) = bodySize bsz bl + bsz b := by
  simp [bodySize]

theorem writeBlock_shape (s : ExpSt) (h : ShapeInv hdr bsz s) : ShapeInv hdr bsz (writeBlock hdr bsz s).1 := by
  obtain ⟨hbw, ⟨ho1, ho2⟩, hd⟩ := h
  unfold writeBlock
  by_cases hz : s.cur.items = 0
  · simp only [hz, if_true]; exact ⟨hbw, ⟨ho1, ho2⟩, hd⟩
  · simp only [hz, if_false]
    refine ⟨by simp [hbw], ⟨by simp, fun _ => ?_⟩, hd⟩
    simp only
    by_cases h0 : s.blocksWritten = 0
    · have : s.out.blocks = [] := List.eq_nil_of_length_eq_zero (by omega)
      simp [h0, this, ho1 this, bodySize]
    · have hne : s.out.blocks ≠ [] := by
        intro h; rw [h] at hbw; simp at hbw; omega
      simp only [h0, if_false, bodySize_append, ho2 hne]; omega

theorem flushIfFull_shape (s : ExpSt) (h : ShapeInv hdr bsz s) : ShapeInv hdr bsz (flushIfFull hdr bsz s).1 := by
  unfold flushIfFull; split
  · exact writeBlock_shape hdr bsz s h
  · exact h

theorem step_shape (s : ExpSt) (h : ShapeInv hdr bsz s) (op : Op) : ShapeInv hdr bsz (step hdr bsz s op).1 := by
  cases op with
  | qr id stored st => simp only [step]; exact flushIfFull_shape hdr bsz _ h
  | aec key st =>
    simp only [step]; split
    · exact h
    · exact flushIfFull_shape hdr bsz _ h
  | mm id stored st =>
    simp only [step]; split
    · exact h
    · exact flushIfFull_shape hdr bsz _ h
  | writeBlock => simp only [step]; exact writeBlock_shape hdr bsz s h
  | rotate ex =>
    simp only [step]
    have h1 : ShapeInv hdr bsz (if ex = true then writeBlock hdr bsz s else (s, 0)).1 := by
      cases ex
      · exact h
      · exact writeBlock_shape hdr bsz s h
    generalize (if ex = true then writeBlock hdr bsz s else (s, 0)) = r at h1
    obtain ⟨s1, w⟩ := r
    obtain ⟨hbw, ⟨ho1, ho2⟩, hd⟩ := h1
    simp only at hbw ho1 ho2 hd
    refine ⟨by simp, ⟨by simp, by simp⟩, ?_⟩
    intro o ho
    simp only [List.mem_append, List.mem_singleton] at ho
    rcases ho with ho | rfl
    · exact hd o ho
    · constructor
      · intro hb
        have : s1.blocksWritten = 0 := by rw [hbw]; simp at hb; simp [hb]
        simp at hb
        simp [this, ho1 hb]
      · intro hb
        simp at hb
        have : s1.blocksWritten > 0 := by
          rw [hbw]; exact List.length_pos_iff.2 hb
        simp [this, ho2 hb]
  | addParams p => simp only [step]; exact h
  | setActive i => simp only [step]; split <;> exact h

/-- Every output of every history: an output to which no block was written has received no
    byte at all; otherwise it holds the file header exactly once, its blocks, and – when closed
    by rotation – exactly one closing break. -/
theorem output_shape (psets : List PSet) (ops : List Op) :
    ShapeInv hdr bsz (run hdr bsz (ExpSt.init psets) ops).1 := by
  have : ∀ s, ShapeInv hdr bsz s → ShapeInv hdr bsz (run hdr bsz s ops).1 := by
    induction ops with
    | nil => intro s hs; exact hs
    | cons op ops ih => intro s hs; simp only [run]; exact ih _ (step_shape hdr bsz s hs op)
  apply this
  refine ⟨rfl, ⟨fun _ => rfl, fun h => absurd rfl h⟩, ?_⟩
  intro o ho; simp [ExpSt.init] at ho

/-! ### the preamble covers the parameter sets its blocks use -/

/-- the documented caller duty: a parameter set added while the current output already holds
    blocks is activated only after the next rotation -/
def Duty (s : ExpSt) : Op → Prop
  | .setActive i => s.blocksWritten = 0 ∨ i < s.out.params
  | _ => True

def dutiful (s : ExpSt) : List Op → Prop
  | [] => True
  | op :: ops => Duty s op ∧ dutiful (step hdr bsz s op).1 ops

def Covered (o : Output) : Prop := ∀ b ∈ o.blocks, b.pi < o.params

def CoverInv (s : ExpSt) : Prop :=
  s.active < s.psets.length ∧ s.cur.pi < s.psets.length ∧
  (s.blocksWritten > 0 → s.active < s.out.params ∧ s.out.params ≤ s.psets.length) ∧
  (s.blocksWritten = 0 → s.out.blocks = []) ∧
  (s.blocksWritten > 0 → s.cur.pi < s.out.params) ∧
  Covered s.out ∧ ∀ o ∈ s.done, Covered o

theorem writeBlock_cover (s : ExpSt) (h : CoverInv s) : CoverInv (writeBlock hdr bsz s).1 := by
  obtain ⟨ha, hc, hbw, hnil, hcp, hco, hd⟩ := h
  unfold writeBlock
  by_cases hz : s.cur.items = 0
  · simp only [hz, if_true]
    exact ⟨ha, ha, hbw, hnil, fun h => (hbw h).1, hco, hd⟩
  · simp only [hz, if_false]
    by_cases h0 : s.blocksWritten = 0
    · simp only [h0, if_true]
      refine ⟨ha, ha, fun _ => ⟨ha, Nat.le_refl _⟩, fun h => absurd h (by simp), fun _ => ha, ?_, hd⟩
      intro b hb
      simp only [hnil h0, List.nil_append, List.mem_singleton] at hb
      subst hb; exact hc
    · have hpos : s.blocksWritten > 0 := by omega
      simp only [h0, if_false]
      refine ⟨ha, ha, fun _ => hbw hpos, fun h => absurd h (by simp), fun _ => (hbw hpos).1, ?_, hd⟩
      intro b hb
      simp only [List.mem_append, List.mem_singleton] at hb
      rcases hb with hb | rfl
      · exact hco b hb
      · exact hcp hpos

theorem flushIfFull_cover (s : ExpSt) (h : CoverInv s) : CoverInv (flushIfFull hdr bsz s).1 := by
  unfold flushIfFull; split
  · exact writeBlock_cover hdr bsz s h
  · exact h

theorem cover_cur (s : ExpSt) (b : Block) (hpi : b.pi = s.cur.pi) (h : CoverInv s) : CoverInv { s with cur := b } := by
  obtain ⟨ha, hc, hbw, hnil, hcp, hco, hd⟩ := h
  exact ⟨ha, by simp [hpi, hc], hbw, hnil, by simp [hpi]; exact hcp, hco, hd⟩

theorem step_cover (s : ExpSt) (h : CoverInv s) (op : Op) (hduty : Duty s op) : CoverInv (step hdr bsz s op).1 := by
  cases op with
  | qr id stored st =>
    simp only [step]
    apply flushIfFull_cover
    apply cover_cur _ _ _ h
    rw [(C12.setStats_fields _ st).2.2.2]; cases stored <;> rfl
  | aec key st =>
    simp only [step]
    split
    · exact cover_cur _ _ (C12.setStats_fields _ st).2.2.2 h
    · apply flushIfFull_cover
      exact cover_cur s _ (by simp only; exact (C12.setStats_fields _ st).2.2.2) h
  | mm id stored st =>
    simp only [step]
    split
    · exact cover_cur _ _ (C12.setStats_fields _ st).2.2.2 h
    · apply flushIfFull_cover
      apply cover_cur s _ _ h
      cases stored <;> simp only [if_true, Bool.false_eq_true, if_false] <;> exact (C12.setStats_fields _ st).2.2.2
  | writeBlock => simp only [step]; exact writeBlock_cover hdr bsz s h
  | rotate ex =>
    simp only [step]
    have h1 : CoverInv (if ex = true then writeBlock hdr bsz s else (s, 0)).1 := by
      cases ex
      · exact h
      · exact writeBlock_cover hdr bsz s h
    generalize (if ex = true then writeBlock hdr bsz s else (s, 0)) = r at h1
    obtain ⟨s1, w⟩ := r
    obtain ⟨ha, hc, hbw, hnil, hcp, hco, hd⟩ := h1
    refine ⟨ha, hc, fun h => by simp at h, fun _ => rfl, fun h => by simp at h, by intro b hb; simp at hb, ?_⟩
    intro o ho
    simp only [List.mem_append, List.mem_singleton] at ho
    rcases ho with ho | rfl
    · exact hd o ho
    · exact hco
  | addParams p =>
    simp only [step]
    obtain ⟨ha, hc, hbw, hnil, hcp, hco, hd⟩ := h
    refine ⟨by simp; omega, by simp; omega, fun h => ?_, hnil, hcp, hco, hd⟩
    have := hbw h
    simp only [List.length_append, List.length_singleton]
    exact ⟨this.1, by omega⟩
  | setActive i =>
    simp only [step]
    split
    · exact h
    · rename_i hi
      obtain ⟨ha, hc, hbw, hnil, hcp, hco, hd⟩ := h
      refine ⟨by simp; omega, hc, fun hpos => ?_, hnil, hcp, hco, hd⟩
      simp only [Duty] at hduty
      rcases hduty with h0 | hlt
      · simp at hpos; omega
      · exact ⟨hlt, (hbw hpos).2⟩

theorem run_cover (ops : List Op) : ∀ s, CoverInv s → dutiful hdr bsz s ops → CoverInv (run hdr bsz s ops).1 := by
  induction ops with
  | nil => intro s hs _; exact hs
  | cons op ops ih =>
    intro s hs hdd
    simp only [run]
    exact ih _ (step_cover hdr bsz s hs op hdd.1) hdd.2

/-- Under the documented duty, in every output of every history each block refers to a
    parameter set that is in that output's own preamble. -/
theorem params_cover (psets : List PSet) (hne : psets ≠ []) (ops : List Op)
    (hd : dutiful hdr bsz (ExpSt.init psets) ops) :
    ∀ o ∈ outputs (run hdr bsz (ExpSt.init psets) ops).1, Covered o := by
  have hlen : 0 < psets.length := List.length_pos_iff.2 hne
  have hinit : CoverInv (ExpSt.init psets) :=
    ⟨hlen, hlen, fun h => by simp [ExpSt.init] at h, fun _ => rfl, fun h => by simp [ExpSt.init] at h,
     by intro b hb; simp [ExpSt.init] at hb, by intro o ho; simp [ExpSt.init] at ho⟩
  obtain ⟨_, _, _, _, _, hco, hdn⟩ := run_cover hdr bsz ops _ hinit hd
  intro o ho
  simp only [outputs, List.mem_append, List.mem_singleton] at ho
  rcases ho with ho | rfl
  · exact hdn o ho
  · exact hco

/-- a rotation without export keeps the buffered block: its records go to the next output -/
theorem carry_over (s : ExpSt) : (step hdr bsz s (.rotate false)).1.cur = s.cur := by
  simp [step]

end CdnsVerif.Props.C13
