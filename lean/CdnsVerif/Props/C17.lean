/-
  C17 — timestamp offsets are exact, invertible and never negative within a block.

  Specification side: `inst t r = secs * r + ticks` in unbounded integers.  Model side:
  `Model.Timestamp` (fixed-width arithmetic of the C++ made explicit).
-/
import CdnsVerif.Model.Timestamp

namespace CdnsVerif.Props.C17
open CdnsVerif.Model.Timestamp

/-- the instant a timestamp denotes, in ticks since the epoch (unbounded) -/
def inst (t : Ts) (r : Nat) : Nat := t.secs * r + t.ticks

/-- representable range of the property: the instant fits `int64_t` -/
def InRange (t : Ts) (r : Nat) : Prop := inst t r < two63

private theorem rawTicks_eq (t : Ts) (r : Nat) (h : InRange t r) : rawTicks t r = inst t r := by
  unfold InRange inst at h
  unfold rawTicks u64 inst
  have h1 : t.secs * r < two64 := by unfold two63 at h; unfold two64; omega
  rw [Nat.mod_eq_of_lt h1]
  apply Nat.mod_eq_of_lt
  unfold two63 at h; unfold two64; omega

/-- The offset of one timestamp from another is the exact signed tick difference. -/
theorem offset_exact (a b : Ts) (r : Nat) (hr : 1 ≤ r) (ha : InRange a r) (hb : InRange b r) :
    getTimeOffset a b r = .ok ((inst a r : Int) - (inst b r : Int)) := by
  unfold getTimeOffset
  have hr0 : ¬ r = 0 := by omega
  simp only [hr0, if_false]
  rw [rawTicks_eq a r ha, rawTicks_eq b r hb]
  unfold InRange at ha hb
  generalize inst a r = A at *
  generalize inst b r = B at *
  unfold u64 toI64
  unfold two63 at *
  unfold two64
  congr 1
  by_cases hab : B ≤ A
  · have : (A + 18446744073709551616 - B) % 18446744073709551616 = A - B := by omega
    rw [this]
    have : A - B < 9223372036854775808 := by omega
    simp only [this, if_true]
    omega
  · have h1 : (A + 18446744073709551616 - B) % 18446744073709551616 = A + 18446744073709551616 - B := by omega
    rw [h1]
    have : ¬ (A + 18446744073709551616 - B < 9223372036854775808) := by omega
    simp only [this, if_false]
    omega

private theorem toI64_small (n : Nat) (h : n < two63) : toI64 n = (n : Int) := by
  unfold toI64; simp [h]

private theorem ofI64_nat (n : Nat) (h : n < two64) : ofI64 (n : Int) = n := by
  unfold ofI64
  have : ((n : Int) % (two64 : Int)) = (n : Int) := Int.emod_eq_of_lt (by omega) (by omega)
  rw [this]; simp

/-- Adding the offset back to the reference reproduces the original instant in normalised form. -/
theorem add_inverse (a b : Ts) (r : Nat) (hr : 1 ≤ r) (ha : InRange a r) (hb : InRange b r)
    (hn : a.ticks < r) :
    addTimeOffset b ((inst a r : Int) - (inst b r : Int)) r = .ok a := by
  unfold addTimeOffset
  have hr0 : ¬ r = 0 := by omega
  simp only [hr0, if_false]
  rw [rawTicks_eq b r hb, toI64_small _ hb]
  have hA : inst a r < two63 := ha
  have hB : inst b r < two63 := hb
  have e1 : ¬ ((inst a r : Int) - (inst b r : Int) < 0 ∧
      ((inst a r : Int) - (inst b r : Int) = -(two63 : Int) ∨ -((inst a r : Int) - (inst b r : Int)) > (inst b r : Int))) := by
    unfold two63 at *; omega
  have e2 : ¬ ((inst a r : Int) - (inst b r : Int) > 0 ∧
      (inst b r : Int) > (two63 : Int) - 1 - ((inst a r : Int) - (inst b r : Int))) := by
    unfold two63 at *; omega
  simp only [e1, e2, if_false]
  have e3 : (inst b r : Int) + ((inst a r : Int) - (inst b r : Int)) = (inst a r : Int) := by omega
  rw [e3, ofI64_nat _ (by unfold two63 at hA; unfold two64; omega)]
  have hd : inst a r / r = a.secs := by
    unfold inst
    rw [Nat.mul_comm, Nat.mul_add_div (by omega), Nat.div_eq_of_lt hn]; simp
  have hm : inst a r % r = a.ticks := by
    unfold inst
    rw [Nat.mul_comm, Nat.mul_add_mod, Nat.mod_eq_of_lt hn]
  rw [hd, hm]

/-- An offset that would move before the epoch is refused – for EVERY `int64_t` offset,
    INT64_MIN included – and the refusal leaves the timestamp unchanged (the model returns
    `.error` without a new timestamp; the C++ throws before assigning). -/
theorem add_refuses (b : Ts) (r : Nat) (off : Int) (hr : 1 ≤ r) (hb : InRange b r)
    (hlo : -(two63 : Int) ≤ off) (hneg : (inst b r : Int) + off < 0) :
    addTimeOffset b off r = .error .invalid := by
  unfold addTimeOffset
  have hr0 : ¬ r = 0 := by omega
  simp only [hr0, if_false]
  rw [rawTicks_eq b r hb, toI64_small _ hb]
  have : off < 0 ∧ (off = -(two63 : Int) ∨ -off > (inst b r : Int)) := by
    constructor
    · omega
    · by_cases h : off = -(two63 : Int)
      · exact Or.inl h
      · right; omega
  simp [this]

/-- Any operation at tick rate 0 is refused. -/
theorem rate_zero (a b : Ts) (off : Int) :
    getTimeOffset a b 0 = .error .rateZero ∧ addTimeOffset b off 0 = .error .rateZero := by
  simp [getTimeOffset, addTimeOffset]

/-- The signed addition `ticks += offset` the code performs is always inside `int64_t`
    (for every timestamp, every `int64_t` offset, every rate) – no undefined arithmetic. -/
theorem addTimeOffset_no_overflow (t : Ts) (off : Int) (r : Nat) (hlo : -(two63 : Int) ≤ off)
    (hhi : off < (two63 : Int)) (t' : Ts) (h : addTimeOffset t off r = .ok t') :
    -(two63 : Int) ≤ toI64 (rawTicks t r) + off ∧ toI64 (rawTicks t r) + off < (two63 : Int) := by
  unfold addTimeOffset at h
  by_cases hr0 : r = 0
  · simp [hr0] at h
  · simp only [hr0, if_false] at h
    have hb : -(two63 : Int) ≤ toI64 (rawTicks t r) ∧ toI64 (rawTicks t r) < (two63 : Int) := by
      unfold toI64 rawTicks u64
      have := Nat.mod_lt (t.secs * r % two64 + t.ticks) (by unfold two64; omega : two64 > 0)
      split <;> (unfold two63 two64 at *; omega)
    by_cases c1 : off < 0 ∧ (off = -(two63 : Int) ∨ -off > toI64 (rawTicks t r))
    · simp [c1] at h
    · simp only [c1, if_false] at h
      by_cases c2 : off > 0 ∧ toI64 (rawTicks t r) > (two63 : Int) - 1 - off
      · simp [c2] at h
      · unfold two63 at *; omega

/-- Comparison operators order normalised timestamps by instant. -/
theorem lt_iff (a b : Ts) (r : Nat) (ha : a.ticks < r) (hb : b.ticks < r) :
    lt a b = true ↔ inst a r < inst b r := by
  unfold lt inst
  simp only [Bool.or_eq_true, decide_eq_true_eq, Bool.and_eq_true, beq_iff_eq]
  constructor
  · rintro (h | ⟨h1, h2⟩)
    · have : (a.secs + 1) * r ≤ b.secs * r := Nat.mul_le_mul_right r h
      rw [Nat.add_mul] at this; omega
    · rw [h1]; omega
  · intro h
    by_cases h1 : a.secs < b.secs
    · exact Or.inl h1
    · right
      have h2 : b.secs ≤ a.secs := by omega
      by_cases h3 : a.secs = b.secs
      · rw [h3] at h; exact ⟨h3, by omega⟩
      · have : (b.secs + 1) * r ≤ a.secs * r := Nat.mul_le_mul_right r (by omega)
        rw [Nat.add_mul] at this; omega

theorem le_iff (a b : Ts) (r : Nat) (ha : a.ticks < r) (hb : b.ticks < r) :
    le a b = true ↔ inst a r ≤ inst b r := by
  unfold le inst
  simp only [Bool.or_eq_true, decide_eq_true_eq, Bool.and_eq_true, beq_iff_eq]
  constructor
  · rintro (h | ⟨h1, h2⟩)
    · have : (a.secs + 1) * r ≤ b.secs * r := Nat.mul_le_mul_right r h
      rw [Nat.add_mul] at this; omega
    · rw [h1]; omega
  · intro h
    by_cases h1 : a.secs < b.secs
    · exact Or.inl h1
    · right
      by_cases h3 : a.secs = b.secs
      · rw [h3] at h; exact ⟨h3, by omega⟩
      · have : (b.secs + 1) * r ≤ a.secs * r := Nat.mul_le_mul_right r (by omega)
        rw [Nat.add_mul] at this; omega

/-! ### within a block -/

private theorem lt_irrefl (t : Ts) : lt t t = false := by simp [lt]

private theorem not_lt_of_lt (s t e : Ts) (h1 : lt s e = false) (h2 : lt t e = true) : lt s t = false := by
  unfold lt at *
  simp only [Bool.or_eq_false_iff, decide_eq_false_iff_not, Bool.and_eq_false_iff, beq_eq_false_iff_ne,
    Bool.or_eq_true, decide_eq_true_eq, Bool.and_eq_true, beq_iff_eq, ne_eq] at *
  omega

/-- invariant: no stored record time is earlier than the block's earliest time -/
def TimeInv (b : BlockTime) : Prop := ∀ t ∈ b.times, lt t b.earliest = false

private theorem times_nil_of_empty (b : BlockTime) (h : (b.qrs.isEmpty && b.mms.isEmpty) = true) :
    b.times = [] := by
  simp only [Bool.and_eq_true, List.isEmpty_iff] at h
  simp [BlockTime.times, h.1, h.2]

private theorem upd_inv (b : BlockTime) (hb : TimeInv b) (ts : Option Ts) :
    (∀ t ∈ b.times, lt t (updEarliest b ts) = false) ∧
    (∀ t, ts = some t → lt t (updEarliest b ts) = false) := by
  unfold updEarliest
  cases ts with
  | none => exact ⟨hb, by intro t h; cases h⟩
  | some t =>
    simp only [Option.some.injEq]
    by_cases hc : ((b.qrs.isEmpty && b.mms.isEmpty) || lt t b.earliest) = true
    · simp only [hc, if_true]
      refine ⟨?_, by intro t' h; subst h; exact lt_irrefl _⟩
      intro s hs
      by_cases he : (b.qrs.isEmpty && b.mms.isEmpty) = true
      · rw [times_nil_of_empty b he] at hs; cases hs
      · have : lt t b.earliest = true := by
          simp only [Bool.or_eq_true] at hc
          rcases hc with h | h
          · exact absurd h he
          · exact h
        exact not_lt_of_lt s t b.earliest (hb s hs) this
    · simp only [hc]
      refine ⟨hb, ?_⟩
      intro t' h; subst h
      simp only [Bool.or_eq_true, not_or, Bool.not_eq_true] at hc
      exact hc.2

private theorem mem_times_qr (b : BlockTime) (e : Ts) (x : Option Ts) (t : Ts) :
    t ∈ ({ b with earliest := e, qrs := b.qrs ++ [x] } : BlockTime).times ↔ t ∈ b.times ∨ x = some t := by
  simp only [BlockTime.times, List.filterMap_append, List.mem_append, List.mem_filterMap, id,
    List.mem_singleton, exists_eq_right]
  constructor
  · rintro ((h | h) | h)
    · exact Or.inl (Or.inl h)
    · exact Or.inr h.symm
    · exact Or.inl (Or.inr h)
  · rintro ((h | h) | h)
    · exact Or.inl (Or.inl h)
    · exact Or.inr h
    · exact Or.inl (Or.inr h.symm)

private theorem mem_times_mm (b : BlockTime) (e : Ts) (x : Option Ts) (t : Ts) :
    t ∈ ({ b with earliest := e, mms := b.mms ++ [x] } : BlockTime).times ↔ t ∈ b.times ∨ x = some t := by
  simp only [BlockTime.times, List.filterMap_append, List.mem_append, List.mem_filterMap, id,
    List.mem_singleton, exists_eq_right]
  constructor
  · rintro (h | (h | h))
    · exact Or.inl (Or.inl h)
    · exact Or.inl (Or.inr h)
    · exact Or.inr h.symm
  · rintro ((h | h) | h)
    · exact Or.inl h
    · exact Or.inr (Or.inl h)
    · exact Or.inr (Or.inr h.symm)

theorem step_inv (b : BlockTime) (hb : TimeInv b) (op : TimeOp) : TimeInv (stepTime b op) := by
  cases op with
  | clear => intro t ht; simp [stepTime, BlockTime.init, BlockTime.times] at ht
  | qr ts timeHint other =>
    have hu := upd_inv b hb ts
    unfold stepTime
    cases timeHint
    · simp only [Bool.false_eq_true, if_false]
      split
      · intro t ht
        rw [mem_times_qr] at ht
        rcases ht with ht | ht
        · exact hu.1 t ht
        · cases ht
      · intro t ht
        exact hu.1 t ht
    · simp only [if_true]
      split
      · intro t ht
        rw [mem_times_qr] at ht
        rcases ht with ht | ht
        · exact hu.1 t ht
        · exact hu.2 t ht
      · intro t ht
        exact hu.1 t ht
  | mm ts enabled other =>
    have hu := upd_inv b hb ts
    unfold stepTime
    cases enabled
    · exact hb
    · simp only [Bool.not_true, Bool.false_eq_true, if_false]
      split
      · intro t ht
        rw [mem_times_mm] at ht
        rcases ht with ht | ht
        · exact hu.1 t ht
        · exact hu.2 t ht
      · intro t ht
        exact hu.1 t ht

  | qrItem ts other =>
    have hu := upd_inv b hb ts
    simp only [stepTime]
    split
    · intro t ht
      rw [mem_times_qr] at ht
      rcases ht with ht | ht
      · exact hu.1 t ht
      · exact hu.2 t ht
    · exact hb
  | mmItem ts other =>
    have hu := upd_inv b hb ts
    simp only [stepTime]
    split
    · intro t ht
      rw [mem_times_mm] at ht
      rcases ht with ht | ht
      · exact hu.1 t ht
      · exact hu.2 t ht
    · exact hb

/-- In every block the library builds (any arrival order of timed and untimed records, any
    hint settings, any number of clears) no stored record time is earlier than the block's
    earliest time. -/
theorem earliest_le (ops : List TimeOp) :
    ∀ t ∈ (runTime BlockTime.init ops).times, lt t (runTime BlockTime.init ops).earliest = false := by
  have : ∀ (b : BlockTime), TimeInv b → TimeInv (runTime b ops) := by
    induction ops with
    | nil => intro b hb; exact hb
    | cons op ops ih => intro b hb; exact ih (stepTime b op) (step_inv b hb op)
  exact this BlockTime.init (by intro t ht; simp [BlockTime.init, BlockTime.times] at ht)

/-- Consequently every stored offset is non-negative and adding it back to the block's
    earliest time recovers the record time exactly. -/
theorem offsets_nonneg_and_recovered (t e : Ts) (r : Nat) (hr : 1 ≤ r) (ht : InRange t r) (he : InRange e r)
    (htn : t.ticks < r) (hen : e.ticks < r) (hle : lt t e = false) :
    ∃ off : Int, 0 ≤ off ∧ getTimeOffset t e r = .ok off ∧ addTimeOffset e off r = .ok t := by
  refine ⟨(inst t r : Int) - (inst e r : Int), ?_, offset_exact t e r hr ht he, add_inverse t e r hr ht he htn⟩
  have : ¬ inst t r < inst e r := by
    intro h
    have := (lt_iff t e r htn hen).2 h
    rw [hle] at this; cases this
  omega


/-! ### a time the reader computed is written and read back as itself (re-export of a block that was read: cdns-merge) -/

/-- whatever `add_time_offset` returns on an in-range reference is itself in range and normalised -/
theorem add_result_normal (e : Ts) (off : Int) (r : Nat) (hr : 1 ≤ r) (he : InRange e r) (t : Ts)
    (h : addTimeOffset e off r = .ok t) : InRange t r ∧ t.ticks < r := by
  unfold addTimeOffset at h
  have hr0 : ¬ r = 0 := by omega
  simp only [hr0, if_false] at h
  rw [rawTicks_eq e r he, toI64_small _ he] at h
  have hE : inst e r < two63 := he
  by_cases g1 : off < 0 ∧ (off = -(two63 : Int) ∨ -off > (inst e r : Int))
  · simp only [g1, and_self, if_true] at h; cases h
  · rw [if_neg g1] at h
    by_cases g2 : off > 0 ∧ (inst e r : Int) > (two63 : Int) - 1 - off
    · rw [if_pos g2] at h; cases h
    · rw [if_neg g2] at h
      have hlo : 0 ≤ (inst e r : Int) + off := by unfold two63 at *; omega
      have hhi : (inst e r : Int) + off < (two63 : Int) := by unfold two63 at *; omega
      obtain ⟨N, hN⟩ := Int.eq_ofNat_of_zero_le hlo
      have hN63 : N < two63 := by rw [hN] at hhi; exact_mod_cast hhi
      rw [hN, ofI64_nat N (by unfold two63 at hN63; unfold two64; omega)] at h
      have ht : t = { secs := N / r, ticks := N % r } := by cases h; rfl
      subst ht
      have hpos : 0 < r := by omega
      refine ⟨?_, Nat.mod_lt _ hpos⟩
      unfold InRange inst
      show N / r * r + N % r < two63
      rw [Nat.div_add_mod' N r]; exact hN63

/-- … hence the offset the writer computes for it from the same reference, added back by the reader, gives the same time:
    `add_time_offset(get_time_offset(t, e), e) = t` for every `t` that `add_time_offset` produced from `e` (negative offsets
    included) -/
theorem reoffset_recovers (e : Ts) (off : Int) (r : Nat) (hr : 1 ≤ r) (he : InRange e r) (t : Ts)
    (h : addTimeOffset e off r = .ok t) :
    ∃ d : Int, getTimeOffset t e r = .ok d ∧ addTimeOffset e (toI64 (ofI64 d)) r = .ok t := by
  obtain ⟨htr, htn⟩ := add_result_normal e off r hr he t h
  refine ⟨(inst t r : Int) - (inst e r : Int), offset_exact t e r hr htr he, ?_⟩
  have hT : inst t r < two63 := htr
  have hE : inst e r < two63 := he
  have hid : toI64 (ofI64 ((inst t r : Int) - (inst e r : Int))) = (inst t r : Int) - (inst e r : Int) := by
    unfold toI64 ofI64
    unfold two63 at *
    unfold two64
    by_cases hge : inst e r ≤ inst t r
    · have h1 : ((inst t r : Int) - (inst e r : Int)) % ((18446744073709551616 : Nat) : Int) = (inst t r : Int) - (inst e r : Int) :=
        Int.emod_eq_of_lt (by omega) (by omega)
      rw [h1]
      have h2 : ((inst t r : Int) - (inst e r : Int)).toNat < 9223372036854775808 := by omega
      simp only [h2, if_true]
      omega
    · have h1 : ((inst t r : Int) - (inst e r : Int)) % ((18446744073709551616 : Nat) : Int) =
          (inst t r : Int) - (inst e r : Int) + 18446744073709551616 := by
        rw [← Int.add_emod_right]
        exact Int.emod_eq_of_lt (by omega) (by omega)
      rw [h1]
      have h2 : ¬ ((inst t r : Int) - (inst e r : Int) + 18446744073709551616).toNat < 9223372036854775808 := by omega
      simp only [h2, if_false]
      omega
  rw [hid]
  exact add_inverse t e r hr htr he htn

/-! Non-vacuity: concrete values meet the hypotheses; the INT64_MIN offset is refused. -/
example : InRange ⟨1636068056, 971687⟩ 1000000 ∧ (971687 : Nat) < 1000000 := by
  unfold InRange inst two63; simp
example : addTimeOffset ⟨5, 7⟩ (-(two63 : Int)) 1000 = .error .invalid := by
  simp [addTimeOffset, two63]
example : (runTime BlockTime.init [.qr none true true, .qr (some ⟨9, 1⟩) true false, .mm (some ⟨3, 0⟩) true false]).times
    = [⟨9, 1⟩, ⟨3, 0⟩] := by decide

end CdnsVerif.Props.C17
