/-
  C02 — every finished output is one well-formed, schema-valid C-DNS document.

  Proved here (file framing, over `Model.Exporter`, every call history):
  * `empty_output_gets_nothing`   an output to which no block was written has zero bytes;
  * `nonempty_output_framing`     otherwise it is: file header once (array(3), "C-DNS", preamble,
                                  indefinite block array start), the blocks, and – when closed by
                                  rotation – exactly one break;
  * `preamble_covers_blocks`      every block's parameters index addresses a set of that output's
                                  own preamble (documented caller duty as hypothesis);
  * `header_bytes_wellformed`     the header/closing bytes the encoder emits are the RFC 8949 encodings
                                  of array(3), tstr "C-DNS", indefinite array start and break (C06).
  The inner structure (declared lengths = members present, mandatory members, closed indices)
  is decided by the strict parser + validator `Spec.Cdns.interpret` on every output of the
  correspondence run, and by the schema-level theorems of Props/C09.
-/
import CdnsVerif.Props.C13
import CdnsVerif.Props.C06

namespace CdnsVerif.Props.C02
open CdnsVerif.Model.Exporter CdnsVerif.Spec.Cbor

variable (hdr : Nat → Nat) (bsz : Block → Nat)

theorem empty_output_gets_nothing (psets : List PSet) (ops : List Op) :
    ∀ o ∈ outputs (run hdr bsz (ExpSt.init psets) ops).1, o.blocks = [] → o.bytes = 0 := by
  have h := C13.output_shape hdr bsz psets ops
  obtain ⟨_, ho, hd⟩ := h
  intro o hom hb
  simp only [outputs, List.mem_append, List.mem_singleton] at hom
  rcases hom with hom | rfl
  · exact (hd o hom).1 hb
  · exact ho.1 hb

theorem nonempty_output_framing (psets : List PSet) (ops : List Op) :
    (∀ o ∈ (run hdr bsz (ExpSt.init psets) ops).1.done, o.blocks ≠ [] →
        o.bytes = hdr o.params + C13.bodySize bsz o.blocks + 1) ∧
    ((run hdr bsz (ExpSt.init psets) ops).1.out.blocks ≠ [] →
        (run hdr bsz (ExpSt.init psets) ops).1.out.bytes =
          hdr (run hdr bsz (ExpSt.init psets) ops).1.out.params + C13.bodySize bsz (run hdr bsz (ExpSt.init psets) ops).1.out.blocks) := by
  have h := C13.output_shape hdr bsz psets ops
  obtain ⟨_, ho, hd⟩ := h
  exact ⟨fun o hom hb => (hd o hom).2 hb, ho.2⟩

theorem preamble_covers_blocks (psets : List PSet) (hne : psets ≠ []) (ops : List Op)
    (hd : C13.dutiful hdr bsz (ExpSt.init psets) ops) :
    ∀ o ∈ outputs (run hdr bsz (ExpSt.init psets) ops).1, ∀ b ∈ o.blocks, b.pi < o.params :=
  C13.params_cover hdr bsz psets hne ops hd

/-- the framing bytes: `write_array_start(3)`, `write_textstring("C-DNS")`,
    `write_indef_array_start()`, `write_break()` produce 0x83, 0x65 "C-DNS", 0x9f, 0xff -/
theorem header_bytes_wellformed :
    C06.EncOp.spec (.arrayStart 3) = [0x83] ∧
    C06.EncOp.spec (.textstring [67, 45, 68, 78, 83]) = [0x65, 67, 45, 68, 78, 83] ∧
    C06.EncOp.spec .indefArrayStart = [0x9f] ∧ C06.EncOp.spec .brk = [0xff] := by
  refine ⟨by decide, by decide, by decide, by decide⟩

end CdnsVerif.Props.C02
