/-
  C02 — every finished output is one well-formed, schema-valid C-DNS document.

  Proved here (file framing, over `Model.Exporter`, every call history):
  * `empty_output_gets_nothing`   an output to which no block was written has zero bytes;
  * `nonempty_output_framing`     otherwise it is: file header once (array(3), "C-DNS", preamble,
                                  indefinite block array start), the blocks, and – when closed by
                                  rotation – exactly one break;
  * `preamble_covers_blocks`      every block's parameters index addresses a set of that output's
                                  own preamble (documented caller duty as hypothesis);
  * `header_bytes_wellformed`     the header/closing bytes the encoder emits are the RFC 8949 encodings
                                  of array(3), tstr "C-DNS", indefinite array start and break (C06).
  Proved here (inner structure, over the schema model `Model.Schema` / `Model.Structs` of the struct writers):
  * `file_is_one_wellformed_item`  a closed output holding a conforming preamble and conforming blocks is the
                                  encoding of exactly ONE well-formed data item – array(3), "C-DNS", preamble map,
                                  indefinite block array – in which every declared array/map length equals the
                                  number of members actually present (that is what `Item.WF` of `toItem` says:
                                  lengths are computed from the member lists);
  * `file_parses_back`            and the strict RFC 8949 parser returns that item for those bytes;
  * `mandatory_members_present`   a conforming struct value has every member the reader requires.
  * `built_block_indices_closed`  in every block built from records – any hints, any record sequence – every index stored in an item
                                  or in a table entry addresses an existing entry of that block's own tables, and no table holds an
                                  entry nothing refers to (`Proofs.BuilderReach.inv_build`, over the model of the table-building code).
  That the library's writers emit exactly the model writer's bytes is the `blk` correspondence (every output of
  every session, including present-but-empty structures and directly built blocks); closed indices and the
  schema validity of the values are decided by the validator `Spec.Cdns.interpret` on every output.
-/
import CdnsVerif.Props.C13
import CdnsVerif.Props.C06
import CdnsVerif.Props.C01
import CdnsVerif.Proofs.Parse
import CdnsVerif.Proofs.BuilderReach

namespace CdnsVerif.Props.C02
open CdnsVerif.Model.Exporter CdnsVerif.Spec.Cbor

variable (hdr : Nat → Nat) (bsz : Block → Nat)

theorem empty_output_gets_nothing (psets : List PSet) (ops : List Op) :
    ∀ o ∈ outputs (run hdr bsz (ExpSt.init psets) ops).1, o.blocks = [] → o.bytes = 0 := by
  have h := C13.output_shape hdr bsz psets ops
  obtain ⟨_, ho, hd⟩ := h
  intro o hom hb
  simp only [outputs, List.mem_append, List.mem_singleton] at hom
  rcases hom with hom | rfl
  · exact (hd o hom).1 hb
  · exact ho.1 hb

theorem nonempty_output_framing (psets : List PSet) (ops : List Op) :
    (∀ o ∈ (run hdr bsz (ExpSt.init psets) ops).1.done, o.blocks ≠ [] →
        o.bytes = hdr o.params + C13.bodySize bsz o.blocks + 1) ∧
    ((run hdr bsz (ExpSt.init psets) ops).1.out.blocks ≠ [] →
        (run hdr bsz (ExpSt.init psets) ops).1.out.bytes =
          hdr (run hdr bsz (ExpSt.init psets) ops).1.out.params + C13.bodySize bsz (run hdr bsz (ExpSt.init psets) ops).1.out.blocks) := by
  have h := C13.output_shape hdr bsz psets ops
  obtain ⟨_, ho, hd⟩ := h
  exact ⟨fun o hom hb => (hd o hom).2 hb, ho.2⟩

theorem preamble_covers_blocks (psets : List PSet) (hne : psets ≠ []) (ops : List Op)
    (hd : C13.dutiful hdr bsz (ExpSt.init psets) ops) :
    ∀ o ∈ outputs (run hdr bsz (ExpSt.init psets) ops).1, ∀ b ∈ o.blocks, b.pi < o.params :=
  C13.params_cover hdr bsz psets hne ops hd

/-- the framing bytes: `write_array_start(3)`, `write_textstring("C-DNS")`,
    `write_indef_array_start()`, `write_break()` produce 0x83, 0x65 "C-DNS", 0x9f, 0xff -/
theorem header_bytes_wellformed :
    C06.EncOp.spec (.arrayStart 3) = [0x83] ∧
    C06.EncOp.spec (.textstring [67, 45, 68, 78, 83]) = [0x65, 67, 45, 68, 78, 83] ∧
    C06.EncOp.spec .indefArrayStart = [0x9f] ∧ C06.EncOp.spec .brk = [0xff] := by
  refine ⟨by decide, by decide, by decide, by decide⟩

/-! ### inner structure (schema model) -/

open CdnsVerif.Model CdnsVerif.Model.Schema CdnsVerif.Model.Structs CdnsVerif.Model.File in
/-- A closed output is the encoding of exactly one well-formed item with correct declared lengths. -/
theorem file_is_one_wellformed_item (pv : Val) (blocks : List Val) (hp : Conforms filePreamble pv) (hb : ConformsList block blocks) :
    fileBytes pv blocks = (C01.fileItem pv blocks).enc ∧ (C01.fileItem pv blocks).WF := by
  refine ⟨C01.fileBytes_eq pv blocks, ?_⟩
  have hpwf : (toItem filePreamble pv).WF := (wfs_all (need pv)).1 filePreamble pv (Nat.le_refl _) hp
  have hbwf := C01.wf_toItems block blocks hb
  simp only [C01.fileItem, Item.WF, Item.WFList, List.length_cons, List.length_nil]
  refine ⟨by simp [Width.fits, Width.bound], ⟨by decide, ?_⟩, hpwf, hbwf, trivial⟩
  intro b hb
  simp only [File.cdnsText, List.mem_cons, List.mem_nil_iff, or_false] at hb
  rcases hb with rfl | rfl | rfl | rfl | rfl <;> decide

open CdnsVerif.Model CdnsVerif.Model.Schema CdnsVerif.Model.Structs CdnsVerif.Model.File in
/-- the strict RFC 8949 parser (the front end of the independent reader) accepts the output and returns that one item -/
theorem file_parses_back (pv : Val) (blocks : List Val) (hp : Conforms filePreamble pv) (hb : ConformsList block blocks) :
    parseOne (fileBytes pv blocks) = some (C01.fileItem pv blocks) := by
  obtain ⟨he, hwf⟩ := file_is_one_wellformed_item pv blocks hp hb
  rw [he]
  exact parseOne_enc _ hwf

/-- the strict parser inverts the encoding of EVERY well-formed item (not only of outputs): the independent reader
    `Spec.Cdns.interpret` therefore sees exactly the syntax tree that was encoded, and no byte string has two readings -/
theorem strict_parser_inverts_encoding (i : Item) (hwf : i.WF) : parseOne i.enc = some i := parseOne_enc i hwf

open CdnsVerif.Model CdnsVerif.Model.Schema CdnsVerif.Model.Structs in
/-- every member the reader requires is present in a conforming struct value -/
theorem mandatory_members_present (fs : List Field) (ms : List (Int × Val)) (h : Conforms (.struct fs) (.record ms)) :
    ∀ f ∈ fs, f.required = true → ∃ v, (f.key, v) ∈ ms := by
  simp only [Conforms] at h
  obtain ⟨_, _, _, hreq, _, _⟩ := h
  intro f hf hr
  have := List.all_eq_true.1 hreq f hf
  simp only [hr, Bool.not_true, Bool.false_or, List.any_eq_true, beq_iff_eq] at this
  obtain ⟨e, he, hk⟩ := this
  exact ⟨e.2, by rw [← hk]; exact he⟩

open CdnsVerif.Model.Builder in
/-- **Closed indices.**  Every block the library builds from buffered records is referentially closed: each index held by a
    query/response, an address-event count, a malformed message or a table entry (signatures, question and RR lists, questions,
    RRs, malformed-message data) is below the length of the table it points into – for every hint setting and every record
    sequence; and the tables hold nothing that is not referred to. -/
theorem built_block_indices_closed (h : Hints) (recs : List Rec) :
    (∀ r ∈ allRefs (build h recs), r.2 < len (build h recs) r.1) ∧ Reach (build h recs) := inv_build h recs

end CdnsVerif.Props.C02
