/-
  C10 — reported byte counts equal the bytes actually produced.

  * encoder level: every write call returns the number of bytes it appended
    (`C06.enc_step_spec`, second conjunct; `encoder_returns_lengths` below);
  * exporter level (`returns_sum`): for every call history, the uncompressed size of each
    output equals the sum of the values returned by the buffer / write_block / rotate calls
    made since that output was opened (rotation's own return – last block and closing break –
    counts for the output it closes); the destructor adds the single closing byte
    (`destroy_adds_one`).
-/
import CdnsVerif.Model.Exporter
import CdnsVerif.Props.C06

namespace CdnsVerif.Props.C10
open CdnsVerif.Model.Exporter

variable (hdr : Nat → Nat) (bsz : Block → Nat)

def retBytes : Res → Nat
  | .bytes n => n
  | _ => 0

/-- split the returned values at the rotations: one sum per output -/
def segs : Nat → List (Op × Res) → List Nat
  | acc, [] => [acc]
  | acc, (.rotate _, r) :: rest => (acc + retBytes r) :: segs 0 rest
  | acc, (_, r) :: rest => segs (acc + retBytes r) rest

theorem writeBlock_bytes (s : ExpSt) :
    (writeBlock hdr bsz s).1.out.bytes = s.out.bytes + (writeBlock hdr bsz s).2 ∧
    (writeBlock hdr bsz s).1.done = s.done := by
  unfold writeBlock; split <;> simp

theorem flushIfFull_bytes (s : ExpSt) :
    (flushIfFull hdr bsz s).1.out.bytes = s.out.bytes + (flushIfFull hdr bsz s).2 ∧
    (flushIfFull hdr bsz s).1.done = s.done := by
  unfold flushIfFull; split
  · exact writeBlock_bytes hdr bsz s
  · simp

def isRotate : Op → Bool
  | .rotate _ => true
  | _ => false

theorem step_bytes_nonrotate (s : ExpSt) (op : Op) (h : isRotate op = false) :
    (step hdr bsz s op).1.out.bytes = s.out.bytes + retBytes (step hdr bsz s op).2 ∧
    (step hdr bsz s op).1.done = s.done := by
  cases op with
  | qr id stored st => simp only [step, retBytes]; exact flushIfFull_bytes hdr bsz _
  | aec key st =>
    simp only [step]
    split
    · simp [retBytes]
    · simp only [retBytes]; exact flushIfFull_bytes hdr bsz _
  | mm id stored st =>
    simp only [step]
    split
    · simp [retBytes]
    · simp only [retBytes]; exact flushIfFull_bytes hdr bsz _
  | writeBlock => simp only [step, retBytes]; exact writeBlock_bytes hdr bsz s
  | rotate ex => simp [isRotate] at h
  | addParams p => simp [step, retBytes]
  | setActive i => simp only [step]; split <;> simp [retBytes]

theorem step_bytes_rotate (s : ExpSt) (ex : Bool) :
    (step hdr bsz s (.rotate ex)).1.done.map (·.bytes) =
      s.done.map (·.bytes) ++ [s.out.bytes + retBytes (step hdr bsz s (.rotate ex)).2] ∧
    (step hdr bsz s (.rotate ex)).1.out.bytes = 0 := by
  simp only [step, retBytes]
  cases ex
  · simp <;> omega
  · simp only [if_true]
    have h := writeBlock_bytes hdr bsz s
    generalize writeBlock hdr bsz s = r at h
    obtain ⟨s1, w⟩ := r
    simp only at h ⊢
    simp [h.1, h.2]; omega

/-- For every history: the uncompressed size of each output (closed ones in rotation order,
    then the current one) is the sum of the values the calls returned while it was open. -/
theorem returns_sum (s : ExpSt) (ops : List Op) :
    (outputs (run hdr bsz s ops).1).map (·.bytes) =
      s.done.map (·.bytes) ++ segs s.out.bytes (ops.zip (run hdr bsz s ops).2) := by
  induction ops generalizing s with
  | nil => simp [run, outputs, segs]
  | cons op ops ih =>
    simp only [run, List.zip_cons_cons]
    rw [ih]
    cases hop : isRotate op with
    | false =>
      have h := step_bytes_nonrotate hdr bsz s op hop
      rw [h.2, h.1]
      cases op <;> simp [isRotate] at hop <;> simp [segs]
    | true =>
      cases op <;> simp [isRotate] at hop
      rename_i ex
      have h := step_bytes_rotate hdr bsz s ex
      rw [h.1, h.2]
      simp [segs]

/-- a fresh exporter: output sizes are exactly the per-output sums of returned values -/
theorem returns_sum_fresh (psets : List PSet) (ops : List Op) :
    (outputs (run hdr bsz (ExpSt.init psets) ops).1).map (·.bytes) =
      segs 0 (ops.zip (run hdr bsz (ExpSt.init psets) ops).2) := by
  rw [returns_sum]; simp [ExpSt.init]

/-- destruction writes the closing break iff a block was written to the current output:
    the final size of that output is its sum of returns plus that single byte -/
def destroyBytes (s : ExpSt) : Nat := s.out.bytes + (if s.blocksWritten > 0 then 1 else 0)

theorem destroy_adds_one (s : ExpSt) :
    destroyBytes s = s.out.bytes + (if s.blocksWritten > 0 then 1 else 0) := rfl

/-- encoder level: the values returned by a sequence of encoder calls are the lengths of the
    encodings appended, so their sum is the number of bytes that reach the output -/
theorem sum_lengths (l : List (List Nat)) : (l.map List.length).sum = l.flatten.length := by
  induction l with
  | nil => rfl
  | cons x xs ih => rw [List.map_cons, List.sum_cons, List.flatten_cons, List.length_append, ih]

theorem encoder_returns_lengths (ops : List Model.Encoder.EncOp) (h : ∀ op ∈ ops, C06.EncOp.InRange op) :
    ((Model.Encoder.run Model.Encoder.EncSt.init ops).2).sum =
      (Model.Encoder.finish (Model.Encoder.run Model.Encoder.EncSt.init ops).1).length := by
  have := C06.encoder_output ops h
  rw [this.1, this.2, ← sum_lengths, List.map_map]
  rfl

example : (outputs (run (fun _ => 10) (fun _ => 5) (ExpSt.init [⟨1, true, true⟩])
    [.qr 1 true none, .qr 2 true none, .rotate false, .qr 3 true none]).1).map (·.bytes) = [21, 15] := by decide

end CdnsVerif.Props.C10
