/-
  C19 — blocks have value semantics: a copy is complete and independent of its source.
  Model: `Model.Table` (storage cells + KeyRef-style index).  A block is a record of nine such
  tables plus plain vectors; the vectors copy by value, so the property reduces to the tables.

  * `copy_canon`        the repaired copy (items copied, index rebuilt) of a table is a canonical
                        table in its own cell with the same items;
  * `copy_like_fresh`   it is exactly the table obtained by adding the same items to a fresh one;
  * `own_cell_only`     a table whose references are its own consults only its own storage cell:
                        `find`/`add`/`get` give the same results in any two heaps that agree on
                        that cell – so modifying, clearing or destroying the source afterwards
                        cannot change what the copy does (`copy_independent`), and operations
                        on the copy never touch the source's cell (`add_frames_others`);
  * `shallow_copy_dangles` the implicitly generated copy of the pinned tree (index copied
                        verbatim) is refuted by a concrete history: copy, destroy the source,
                        look up an existing value → dangling reference.
-/
import CdnsVerif.Props.C11

namespace CdnsVerif.Props.C19
open CdnsVerif.Model.Table CdnsVerif.Props.C11

variable {α : Type} [DecidableEq α]

def OwnRefs (t : Table) : Prop := ∀ e ∈ t.index, e.1.owner = t.self

theorem ownRefs_of_canon (h : Heap α) (t : Table) (hc : Canon h t) : OwnRefs t := by
  obtain ⟨its, _, _, hidx⟩ := hc
  intro e he
  rw [hidx] at he
  simp only [entries, List.mem_map] at he
  obtain ⟨j, _, rfl⟩ := he
  rfl

theorem rebuild_entries (hash : Hash α) (h : Heap α) (c : Nat) (its : List α) (hc : h c = some its) (hnd : its.Nodup)
    (pos : Nat) (hpos : pos ≤ its.length) :
    rebuild hash h { self := c, index := [] } pos (its.drop pos) (entries c 0 pos) = .ok (entries c 0 its.length) := by
  obtain ⟨d, hd⟩ : ∃ d, its.length = pos + d := ⟨its.length - pos, by omega⟩
  induction d generalizing pos with
  | zero =>
    have : pos = its.length := by omega
    subst this
    simp [rebuild]
  | succ d ih =>
    have hlt : pos < its.length := by omega
    rw [List.drop_eq_getElem_cons hlt]
    unfold rebuild
    have habs : its[pos] ∉ (its.drop 0).take pos := by
      simp only [List.drop_zero]
      intro hm
      obtain ⟨j, hj, hje⟩ := List.mem_iff_getElem.1 hm
      simp only [List.length_take] at hj
      rw [List.getElem_take] at hje
      have : j = pos := (List.getElem_inj hnd).1 hje
      omega
    rw [upsert_entries_absent hash h c its hc its[pos] ⟨c, pos⟩ pos 0 pos (by omega) habs]
    simp only
    rw [← entries_succ]
    exact ih (pos + 1) (by omega) (by omega)

/-- the repaired copy: same items, own cell, canonical index -/
theorem copy_canon (hash : Hash α) (h : Heap α) (src : Table) (hsrc : Canon h src) (c : Nat) :
    ∃ h' t', copy hash h src c = .ok (h', t') ∧ t'.self = c ∧ items h' t' = items h src ∧ Canon h' t' ∧
      h' = setCell h c (some (items h src)) := by
  obtain ⟨its, hcell, hnd, _⟩ := hsrc
  have hit := items_of_canon h src its hcell
  unfold copy
  rw [hit]
  simp only
  have hc' : setCell h c (some its) c = some its := setCell_same _ _ _
  have := rebuild_entries hash (setCell h c (some its)) c its hc' hnd 0 (by omega)
  simp only [List.drop_zero] at this
  have e0 : (entries c 0 0 : List (Ref × Nat)) = [] := rfl
  rw [e0] at this
  rw [this]
  exact ⟨_, _, rfl, rfl, by simp [items, hc'], ⟨its, hc', hnd, rfl⟩, rfl⟩

/-- a canonical table is determined by its cell and its items -/
theorem canon_unique (h : Heap α) (t₁ t₂ : Table) (h1 : Canon h t₁) (h2 : Canon h t₂) (hs : t₁.self = t₂.self) : t₁ = t₂ := by
  obtain ⟨i1, c1, _, x1⟩ := h1
  obtain ⟨i2, c2, _, x2⟩ := h2
  rw [hs, c2] at c1
  cases c1
  cases t₁; cases t₂
  simp only at hs x1 x2
  subst hs
  simp [x1, x2]

/-- The copy behaves exactly like a freshly built table with that content: it IS the table
    obtained by adding the same items, in order, to a fresh table in the same cell. -/
theorem copy_like_fresh (hash : Hash α) (hok : HashOk hash) (h : Heap α) (src : Table) (hsrc : Canon h src) (c : Nat) :
    ∃ hc tc hf tf, copy hash h src c = .ok (hc, tc) ∧
      addAll hash (fresh h c).1 (fresh h c).2 (items h src) = .ok (hf, tf) ∧ tc = tf ∧ hc c = hf c := by
  obtain ⟨hc, tc, he, hself, hitems, hcan, hheap⟩ := copy_canon hash h src hsrc c
  obtain ⟨hf, tf, hef, hcanf, ext, hext⟩ := addAll_canon hash hok (items h src) _ _ (fresh_canon h c)
  have hfself : tf.self = c := by
    have : ∀ (vs : List α) (h0 : Heap α) (t0 : Table) (h1 : Heap α) (t1 : Table), Canon h0 t0 →
        addAll hash h0 t0 vs = .ok (h1, t1) → t1.self = t0.self := by
      intro vs
      induction vs with
      | nil => intro h0 t0 h1 t1 _ e; simp [addAll] at e; rw [e.2]
      | cons v vs ih =>
        intro h0 t0 h1 t1 hc0 e
        obtain ⟨h', t', i, he', hc', hs', _⟩ := add_spec hash hok h0 t0 hc0 v
        simp only [addAll, he'] at e
        rw [ih h' t' h1 t1 hc' e, hs']
    exact this _ _ _ _ _ (fresh_canon h c) hef
  -- both are canonical with the same items in cell c
  obtain ⟨ic, cc, ndc, xc⟩ := hcan
  obtain ⟨ifr, cf, ndf, xf⟩ := hcanf
  have e1 : ic = items h src := by rw [← hitems, items_of_canon hc tc ic cc]
  have hfresh_items : items (fresh h c).1 (fresh h c).2 = [] := by simp [fresh, items, setCell]
  have e2 : ifr = ext := by
    have := items_of_canon hf tf ifr cf
    rw [hext, hfresh_items, List.nil_append] at this; exact this.symm
  -- adding a duplicate-free list to an empty table stores exactly that list
  have hext_eq : ext = items h src := by
    have hnd : (items h src).Nodup := by
      obtain ⟨is, cs, nds, _⟩ := hsrc; rw [items_of_canon h src is cs]; exact nds
    have : ∀ (vs : List α) (h0 : Heap α) (t0 : Table) (h1 : Heap α) (t1 : Table), Canon h0 t0 →
        (items h0 t0 ++ vs).Nodup → addAll hash h0 t0 vs = .ok (h1, t1) → items h1 t1 = items h0 t0 ++ vs := by
      intro vs
      induction vs with
      | nil => intro h0 t0 h1 t1 _ _ e; simp [addAll] at e; rw [e.1, e.2]; simp
      | cons v vs ih =>
        intro h0 t0 h1 t1 hc0 hn e
        obtain ⟨h', t', i, he', hc', _, _, _, hout⟩ := add_spec hash hok h0 t0 hc0 v
        simp only [addAll, he'] at e
        have hv : v ∉ items h0 t0 := by
          intro hm
          have := (List.nodup_append.1 hn).2.2 v hm v (by simp)
          exact this rfl
        have hi := (hout hv).1
        have := ih h' t' h1 t1 hc' (by rw [hi]; simpa using hn) e
        rw [this, hi]; simp
    have := this (items h src) _ _ hf tf (fresh_canon h c) (by rw [hfresh_items]; simpa using hnd) hef
    rw [hext, hfresh_items] at this
    simpa using this
  refine ⟨hc, tc, hf, tf, he, hef, ?_, ?_⟩
  · cases tc; cases tf
    simp only at hself hfself xc xf
    subst hself hfself
    rw [xc, xf, e1, e2, hext_eq]
  · have a1 : hc c = some ic := hself ▸ cc
    have a2 : hf c = some ifr := hfself ▸ cf
    rw [a1, a2, e1, e2, hext_eq]

/-! ### independence: a table with own references looks at its own cell only -/

theorem deref_agree (h1 h2 : Heap α) (r : Ref) (hag : h1 r.owner = h2 r.owner) : deref h1 r = deref h2 r := by
  simp [deref, hag]

theorem findIn_agree (hash : Hash α) (h1 h2 : Heap α) (k : α) (self : Nat) (idx : List (Ref × Nat))
    (hown : ∀ e ∈ idx, e.1.owner = self) (hag : h1 self = h2 self) :
    findIn hash h1 k idx = findIn hash h2 k idx := by
  induction idx with
  | nil => rfl
  | cons e es ih =>
    obtain ⟨r, i⟩ := e
    have hr : r.owner = self := hown (r, i) (by simp)
    unfold findIn
    rw [deref_agree h1 h2 r (by rw [hr]; exact hag)]
    cases deref h2 r with
    | none => rfl
    | some v => simp only; rw [ih (fun e he => hown e (by simp [he]))]

/-- `find` and `get` of a table with own references depend on its own storage cell only -/
theorem own_cell_only (hash : Hash α) (h1 h2 : Heap α) (t : Table) (hown : OwnRefs t) (hag : h1 t.self = h2 t.self) (k : α) (i : Nat) :
    find hash h1 t k = find hash h2 t k ∧ Model.Table.get h1 t i = Model.Table.get h2 t i := by
  refine ⟨findIn_agree hash h1 h2 k t.self t.index hown hag, ?_⟩
  simp [Model.Table.get, items, hag]

/-- Whatever happens to the source afterwards (modified, cleared, destroyed – any change of any
    other cell), lookups on the copy are unchanged. -/
theorem copy_independent (hash : Hash α) (h : Heap α) (src : Table) (hsrc : Canon h src) (c : Nat)
    (hc : Heap α) (tc : Table) (he : copy hash h src c = .ok (hc, tc)) (h2 : Heap α) (hag : h2 c = hc c) (k : α) (i : Nat) :
    find hash h2 tc k = find hash hc tc k ∧ Model.Table.get h2 tc i = Model.Table.get hc tc i := by
  obtain ⟨hc', tc', he', hself, _, hcan, _⟩ := copy_canon hash h src hsrc c
  rw [he] at he'; cases he'
  exact own_cell_only hash h2 hc tc (ownRefs_of_canon hc tc hcan) (by rw [hself]; exact hag) k i

/-- changes to the copy never affect the source: `add` on a canonical table writes its own cell only -/
theorem add_frames_others (hash : Hash α) (hok : HashOk hash) (h : Heap α) (t : Table) (hcan : Canon h t) (v : α)
    (h' : Heap α) (t' : Table) (i : Nat) (he : add hash h t v = .ok (h', t', i)) (other : Nat) (hne : other ≠ t.self) :
    h' other = h other := by
  obtain ⟨h1, t1, i1, he1, _, _, _, hin, hout⟩ := add_spec hash hok h t hcan v
  rw [he] at he1; cases he1
  by_cases hv : v ∈ items h t
  · rw [(hin hv).1]
  · -- the only heap write of addValue is setCell at t.self
    unfold add at he
    obtain ⟨its, hc, _, hidx⟩ := hcan
    rw [find_canon hash hok h t its hc hidx v] at he
    have hs : scan v its 0 = none := (scan_none v its 0).2 (by rw [items_of_canon h t its hc] at hv; exact hv)
    rw [hs] at he
    simp only [addValue] at he
    split at he
    · simp only [Outcome.ok.injEq, Prod.mk.injEq] at he
      rw [← he.1]; simp [setCell, hne]
    · cases he

/-- The implicitly generated copy of the pinned tree is NOT independent: copy a one-element
    table, destroy the source, look the element up in the copy → a dangling reference is used. -/
def isDangling {β : Type} : Outcome β → Bool
  | .dangling => true
  | .ok _ => false

/-- the replayable history: build, shallow-copy, destroy the source, look up in the copy -/
def shallowScenario : Outcome (Option Nat) :=
  let hash : Hash Nat := { stored := fun _ v => v, probe := fun v => v }
  let h0 : Heap Nat := fun _ => none
  let (h1, src) := fresh h0 1
  match add hash h1 src 42 with
  | .ok (h2, src', _) =>
    let (h3, cp) := copyShallowIndex h2 src' 2
    find hash (destroy h3 src') cp 42
  | .dangling => .ok none

theorem shallow_copy_dangles : isDangling shallowScenario = true := by decide

/-- the same history with the repaired copy finds the value -/
def deepScenario : Outcome (Option Nat) :=
  let hash : Hash Nat := { stored := fun _ v => v, probe := fun v => v }
  let h0 : Heap Nat := fun _ => none
  let (h1, src) := fresh h0 1
  match add hash h1 src 42 with
  | .ok (h2, src', _) =>
    match copy hash h2 src' 2 with
    | .ok (h3, cp) => find hash (destroy h3 src') cp 42
    | .dangling => .dangling
  | .dangling => .dangling

theorem deep_copy_survives : isDangling deepScenario = false := by decide

end CdnsVerif.Props.C19
