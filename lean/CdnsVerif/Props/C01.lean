/-
  C01 — export → file → read returns exactly the records that were buffered.

  Proved here so far:
  * the code's map keys and hint-mask bits (regenerated from the working tree) are those of
    RFC 8618 (`keys_match_rfc`, `private_keys_match`, `hint_bits_are_distinct`) – this is what
    makes a symmetric key/bit swap in writer and reader a broken obligation;
  * time offsets written for a block are exact and recovered exactly (C17 theorems, imported);
  * the encoder emits for every write call the RFC 8949 preferred encoding (C06, imported).
  The composed statement over the exporter model is in Props/C12 (conservation) and the
  schema round trip in Props/C09; the end-to-end tie is the three-way differential check
  (library reader, independent reader `Spec.Cdns.interpret`, reference expectation).
-/
import CdnsVerif.Proofs.Keys
import CdnsVerif.Props.C06
import CdnsVerif.Props.C17

namespace CdnsVerif.Props.C01
open CdnsVerif.Proofs.Keys

theorem keys_match_rfc : keysAgree = true := generated_keys_eq_rfc
theorem private_keys_match : privateAgree = true := generated_private_keys
theorem hint_bits_are_distinct :
    (maskOk "QueryResponseHintsMask" && maskOk "QueryResponseSignatureHintsMask" && maskOk "RrHintsMask"
      && maskOk "OtherDataHintsMask") = true := hint_bits_distinct

end CdnsVerif.Props.C01
