/-
  C01 — export → file → read returns exactly the records that were buffered.

  Proved here so far:
  * the code's map keys and hint-mask bits (regenerated from the working tree) are those of
    RFC 8618 (`keys_match_rfc`, `private_keys_match`, `hint_bits_are_distinct`) – this is what
    makes a symmetric key/bit swap in writer and reader a broken obligation;
  * time offsets written for a block are exact and recovered exactly (C17 theorems, imported);
  * the encoder emits for every write call the RFC 8949 preferred encoding (C06, imported).
  * `file_roundtrip`: over the schema model of the struct writers/readers (`Model.Schema` with
    the preamble and block schemas of `Model.Structs`, ≈ 60 C++ functions), a file laid out as the
    exporter lays it out – `83 65 "C-DNS"`, preamble, `9f`, blocks, `ff` – is read back by the
    model of `CdnsReader` (`Model.File.readFile`) as exactly the preamble and the blocks written,
    with nothing left over: every member of every struct, every table entry, every record, in
    order, integers over their whole width, byte strings bit for bit; `block_roundtrip` is the
    single-block instance.  (Raw values: table indexes and time offsets as stored; their
    resolution to records is the independent `Spec.Cdns` interpretation.)
  * `records_resolve_to_projection`: over the block-building model (`Model.Builder`, tied to the code byte for byte)
    and the model of the reader's index resolution (`Model.Resolve.resolveQ`): for EVERY record sequence and EVERY hint
    masks, resolving the stored query/responses of the block built yields, in their original order, exactly the hint
    projections of the query/responses buffered (every hint-enabled member equal – addresses, names, RDATA byte for
    byte, integers unchanged, question and RR lists element by element – and nothing else); `stored_iff_nonempty`:
    a record is stored exactly when its projection holds something.
  * `export_read_records`: the whole chain in one statement – records buffered → block built (`Model.Builder`) → bytes written
    (`Model.Schema` writer, exporter layout) → bytes read (`Model.File.readFile` over the decoder model) → block object
    (`Model.ReadBlock.ofVal`: `CdnsBlockRead::read` with its time arithmetic, parameter-set selection, table filling) → records
    returned by `read_generic_qr/mm/aec` through the bounds-checked accessors (`Model.ReadBlock.records`): no exception on the way,
    the query/responses and malformed messages are the hint projections of those buffered, in order, with their times exact;
    the address-event totals are the numbers of times each key was buffered; the statistics are those last supplied.
  The composed statement over the exporter model is in Props/C12 (conservation); the tie of the
  schema model to the code is the `blk` correspondence (model reader = library reader, model
  writer = library bytes, on every output of every session) and the three-way differential
  (library reader, independent reader `Spec.Cdns.interpret`, reference expectation).
-/
import CdnsVerif.Proofs.Keys
import CdnsVerif.Proofs.DenoteWrite
import CdnsVerif.Proofs.ConformsB
import CdnsVerif.Model.File
import CdnsVerif.Proofs.Resolve
import CdnsVerif.Proofs.ResolveAec
import CdnsVerif.Proofs.BuilderTime
import CdnsVerif.Proofs.BuilderBounds
import CdnsVerif.Proofs.ReadBlock
import CdnsVerif.Props.C06
import CdnsVerif.Props.C17

namespace CdnsVerif.Props.C01
open CdnsVerif.Proofs.Keys

theorem keys_match_rfc : keysAgree = true := generated_keys_eq_rfc
theorem private_keys_match : privateAgree = true := generated_private_keys
theorem hint_bits_are_distinct :
    (maskOk "QueryResponseHintsMask" && maskOk "QueryResponseSignatureHintsMask" && maskOk "RrHintsMask"
      && maskOk "OtherDataHintsMask") = true := hint_bits_distinct

/-! ### struct level: what was written is what is read -/

open CdnsVerif.Spec.Cbor CdnsVerif.Model CdnsVerif.Model.Decoder CdnsVerif.Model.Schema CdnsVerif.Model.Structs CdnsVerif.Model.File

/-- **…and so are the block itself and its tables map**: a block holding one of everything, built through the record interface and
    written by `CdnsBlock::write`, has exactly the members of the `block` schema and – inside member 2 – of the `blockTables` schema:
    same keys, same order, arrays of structs / strings / index lists where the schema says so; `CdnsBlockRead` insists on the block
    preamble only. -/
theorem block_level_schemas_match_source :
    (sourceRows "Block").map (rowsCompat · (rowsOf block)) = some true ∧
    (sourceRows "BlockTables").map (rowsCompat · (rowsOf blockTables)) = some true := by
  repeat' apply And.intro
  all_goals decide +kernel

/-- **The block schemas are what the source does** (translator T3, regenerated on every run by running the working tree's own
    `write`/`read` functions of the twelve item and table-entry structs): keys, order, kind and width of every member as
    written, the width the reader keeps, and the members the reader insists on. -/
theorem block_schemas_match_source :
    sourceRows "ClassType" = some (rowsOf classType) ∧
    sourceRows "QueryResponseSignature" = some (rowsOf queryResponseSignature) ∧
    sourceRows "Question" = some (rowsOf question) ∧
    sourceRows "RR" = some (rowsOf rr) ∧
    sourceRows "MalformedMessageData" = some (rowsOf malformedMessageData) ∧
    sourceRows "ResponseProcessingData" = some (rowsOf responseProcessingData) ∧
    sourceRows "QueryResponseExtended" = some (rowsOf queryResponseExtended) ∧
    sourceRows "BlockPreamble" = some (rowsOf blockPreamble) ∧
    sourceRows "BlockStatistics" = some (rowsOf blockStatistics) ∧
    sourceRows "QueryResponse" = some (rowsOf queryResponse) ∧
    sourceRows "AddressEventCount" = some (rowsOf addressEventCount) ∧
    sourceRows "MalformedMessage" = some (rowsOf malformedMessage) ∧
    (["ClassType", "QueryResponseSignature", "Question", "RR", "MalformedMessageData", "ResponseProcessingData",
      "QueryResponseExtended", "BlockPreamble", "BlockStatistics", "QueryResponse", "AddressEventCount",
      "MalformedMessage"].all readerWidthsAgree) = true := by
  repeat' apply And.intro
  all_goals decide +kernel

/-- one block: every conforming block value survives write → read unchanged -/
theorem block_roundtrip (v : Val) (hc : Conforms block v) (rest : Bytes) :
    (readVal (need v) block).run (writeBytes block v ++ rest) = .ok (v, rest) :=
  (rt_all (need v)).1 block v rest hc (Nat.le_refl _)

theorem flatten_writeBytes (k : Kind) (vs : List Val) : (vs.map (writeBytes k)).flatten = Item.encList (toItems k vs) := by
  induction vs with
  | nil => rfl
  | cons v vs ih => simp only [List.map_cons, List.flatten_cons, toItems, Item.encList, ih, writeBytes]

theorem wf_toItems (k : Kind) (vs : List Val) (hc : ConformsList k vs) : Item.WFList (toItems k vs) :=
  (wfs_all (needList vs)).2.1 k vs (Nat.le_refl _) hc

/-- the syntax tree of an output -/
def fileItem (pv : Val) (blocks : List Val) : Item :=
  .arr .imm [.tstr .imm cdnsText, toItem filePreamble pv, .arrI (toItems block blocks)]

theorem fileBytes_eq (pv : Val) (blocks : List Val) : fileBytes pv blocks = (fileItem pv blocks).enc := by
  simp only [fileBytes, fileItem, Item.enc, Item.encList, flatten_writeBytes, writeBytes, cdnsText, head, Width.ai, Width.nbytes, be,
    indefHead, breakByte, mArr, mTstr, List.length_cons, List.length_nil]
  simp

/-- **File round trip.**  Whatever preamble and blocks (conforming to the schemas) an output holds,
    the reader returns exactly them and consumes the whole file. -/
theorem file_roundtrip (pv : Val) (blocks : List Val) (hp : Conforms filePreamble pv) (hb : ConformsList block blocks) :
    ∃ fuel₀, ∀ fuel, fuel₀ ≤ fuel → (readFile fuel).run (fileBytes pv blocks) = .ok ((pv, .list blocks), []) := by
  let bi : Item := .arrI (toItems block blocks)
  have hbwf : bi.WF := wf_toItems block blocks hb
  have hpwf : (toItem filePreamble pv).WF := (wfs_all (need pv)).1 filePreamble pv (Nat.le_refl _) hp
  have hbd : denote (.arr block) bi = some (.list blocks) := by
    show denote (.arr block) (.arrI (toItems block blocks)) = _
    simp only [denote, denoteList_toItems block blocks hb, Option.map_some]
  refine ⟨steps (toItem filePreamble pv) + cfuel (toItem filePreamble pv) + steps bi + cfuel bi + 1, fun fuel hf => ?_⟩
  rw [fileBytes_eq]
  unfold readFile
  have h0 := C07.readArrayStart_accepts .imm [.tstr .imm cdnsText, toItem filePreamble pv, bi] (by simp [Width.fits, Width.bound]) []
  rw [← List.append_nil (fileItem pv blocks).enc]
  show (readArrayStart >>= _).run ((Item.arr .imm [.tstr .imm cdnsText, toItem filePreamble pv, bi]).enc ++ []) = _
  rw [Prog.run_bind_ok _ _ _ _ _ h0]
  simp only [List.length_cons, List.length_nil, Item.encList, List.append_nil]
  have h3 : ¬ ((0 + 1 + 1 + 1 : Nat) ≠ 3 ∧ (!false) = true) := by decide
  simp only [h3, if_false]
  have h1 := C07.readTextstring_accepts .imm cdnsText (by decide) fuel ((toItem filePreamble pv).enc ++ bi.enc)
  rw [Prog.run_bind_ok _ _ _ _ _ h1]
  have hu : ¬ (upper cdnsText ≠ cdnsText) := by decide
  simp only [hu, if_false]
  have h2 := (rd_all fuel).1 filePreamble (toItem filePreamble pv) pv bi.enc hpwf (denote_toItem filePreamble pv hp) (by omega)
  rw [Prog.run_bind_ok _ _ _ _ _ h2]
  have h4 := (rd_all fuel).1 (.arr block) bi (.list blocks) [] hbwf hbd (by omega)
  rw [List.append_nil] at h4
  rw [Prog.run_bind_ok _ _ _ _ _ h4]
  rfl

/-- the domain of `file_roundtrip` is decidable: the `blk` driver evaluates `conformsB` on the values it reads from
    every library-written output, so the theorem's hypotheses are checked on the real files -/
theorem file_roundtrip_checked (pv : Val) (blocks : List Val)
    (h : (conformsB filePreamble pv && conformsListB block blocks) = true) :
    ∃ fuel₀, ∀ fuel, fuel₀ ≤ fuel → (readFile fuel).run (fileBytes pv blocks) = .ok ((pv, .list blocks), []) := by
  simp only [Bool.and_eq_true] at h
  exact file_roundtrip pv blocks (conforms_of_conformsB _ _ h.1) (conformsList_of_conformsListB _ _ h.2)

/-! Non-vacuity: a preamble with one parameter set and a block with tables, a query/response with a
    negative response delay and private members, an address-event count and a malformed message. -/
def samplePreamble : Val := .record [(0, .num 1), (1, .num 0), (2, .num 1), (3, .list [.record [
  (0, .record [(0, .num 1000000), (1, .num 10000), (2, .record [(0, .num 0x3ffff), (1, .num 0x1ffff), (2, .num 3), (3, .num 3)]),
    (3, .list [.num 0, .num 5]), (4, .list [.num 1, .num 28, .num 65535])]),
  (1, .record [(0, .num 5), (3, .bool true), (9, .str [104, 111, 115, 116])])]])]

def sampleBlock : Val := .record [
  (0, .record [(0, .list [.num 1700000000, .num 999999]), (1, .num 0)]),
  (1, .record [(0, .num 4294967295)]),
  (2, .record [(0, .list [.str [10, 0, 0, 1]]), (1, .list [.record [(0, .num 1), (1, .num 1)]]), (2, .list [.str [3, 119, 119, 119, 0]]),
       (3, .list [.record [(1, .num 53), (10, .num 70000)]]), (4, .list [.list [.num 0]]), (5, .list [.record [(0, .num 0), (1, .num 0)]])]),
  (3, .list [.record [(0, .num 18446744073709551615), (1, .num 0), (2, .num 65535), (4, .num 0), (6, .num (-9223372036854775808)),
       (11, .record [(0, .num 0)]), (-1, .str [65, 83]), (-3, .num (-1))], .record []]),
  (4, .list [.record [(0, .num 1), (2, .num 0), (4, .num 18446744073709551615)]]),
  (5, .list [.record [(0, .num 5), (2, .num 53)]])]

example : ∃ fuel₀, ∀ fuel, fuel₀ ≤ fuel →
    (readFile fuel).run (fileBytes samplePreamble [sampleBlock, sampleBlock]) = .ok ((samplePreamble, .list [sampleBlock, sampleBlock]), []) :=
  file_roundtrip_checked samplePreamble [sampleBlock, sampleBlock] (by rfl)

/-! ### record level: what is read back is the hint projection of what was buffered -/

open CdnsVerif.Model.Builder in
/-- **Export → read at record level.** -/
theorem records_resolve_to_projection (h : Hints) (recs : List Rec) :
    (build h recs).qrs.map (resolveQ (build h recs)) = expectedQrs h recs := resolve_build' h recs

open CdnsVerif.Model.Builder in
/-- malformed messages (no per-member hints): with their hint on, every non-empty message buffered is read back
    unchanged – address, ports, flags, payload byte for byte – in the original order; with the hint off none is stored -/
theorem malformed_messages_read_back (h : Hints) (recs : List Rec) :
    (build h recs).mms.map (resolveM (build h recs)) = expectedMms h recs := resolve_build_mm h recs

open CdnsVerif.Model.Builder in
/-- every address-event key has a total count equal to the number of times it was buffered -/
theorem address_event_totals (h : Hints) (recs : List Rec) (k : GAEC) : countFor (build h recs) k = timesBuffered h recs k :=
  aec_counts h recs k

open CdnsVerif.Model.Builder in
/-- each block carries the statistics most recently supplied while it was being filled -/
theorem block_statistics_latest (h : Hints) (recs : List Rec) : (build h recs).stats = (recs.filterMap statOf).getLast? :=
  stats_latest h recs

open CdnsVerif.Model.Builder in
theorem stored_iff_nonempty (h : Hints) (g : GQR) (b : Blk) : (buildQ h g b).2.filled = (project h g).anySome :=
  filled_eq_anySome h g b

open CdnsVerif.Model.Builder in
/-- the raw block of a record sequence, once it lies in the domain, survives the file round trip (composition of the two halves) -/
theorem built_block_roundtrip (h : Hints) (recs : List Rec) (pi : Option Nat) (pv : Val)
    (hc : (conformsB filePreamble pv && conformsListB block [toVal (build h recs) pi h.tps]) = true) :
    ∃ fuel₀, ∀ fuel, fuel₀ ≤ fuel →
      (readFile fuel).run (fileBytes pv [toVal (build h recs) pi h.tps]) = .ok ((pv, .list [toVal (build h recs) pi h.tps]), []) :=
  file_roundtrip_checked pv _ hc

open CdnsVerif.Model.Builder CdnsVerif.Model.Timestamp in
/-- Record times survive: in the block built from any record sequence whose times are representable (the instant fits
    `int64_t`, ticks below the rate), every stored query/response and malformed-message time is written as an unsigned offset
    below 2^63 from the block's earliest time, and the reader's `add_time_offset` of that number onto the earliest time gives
    back exactly the time the application supplied.  (C17's arithmetic lifted to every block the builder can produce.) -/
theorem record_times_recovered (h : Hints) (recs : List Rec) (r : Nat) (hr : 1 ≤ r)
    (hrecs : ∀ rec ∈ recs, ∀ t, rec.ts = some t → C17.InRange t r ∧ t.ticks < r) :
    (∀ q ∈ (build h recs).qrs, ∀ t, q.ts = some t →
      ∃ n, offsetOf t (build h recs).earliest r = some n ∧ n < two63 ∧ addTimeOffset (build h recs).earliest (toI64 n) r = .ok t) ∧
    (∀ m ∈ (build h recs).mms, ∀ t, m.ts = some t →
      ∃ n, offsetOf t (build h recs).earliest r = some n ∧ n < two63 ∧ addTimeOffset (build h recs).earliest (toI64 n) r = .ok t) := by
  have key := build_times_recovered h recs r hr hrecs
  constructor
  · intro q hq t ht
    apply key t
    unfold BlockTime.times timeView
    simp only [List.filterMap_append, List.mem_append, List.mem_filterMap, List.mem_map, id]
    exact .inl ⟨some t, ⟨q, hq, ht⟩, rfl⟩
  · intro m hm t ht
    apply key t
    unfold BlockTime.times timeView
    simp only [List.filterMap_append, List.mem_append, List.mem_filterMap, List.mem_map, id]
    exact .inr ⟨some t, ⟨m, hm, ht⟩, rfl⟩

open CdnsVerif.Model.Builder CdnsVerif.Model.Timestamp in
example : (build ⟨1 + 4, 0, 0, 0, 1000⟩ [.qr { ts := some ⟨7, 5⟩, clientPort := some 1 } none, .qr { ts := some ⟨3, 9⟩, clientPort := some 2 } none]).earliest = ⟨3, 9⟩ ∧
    (build ⟨1 + 4, 0, 0, 0, 1000⟩ [.qr { ts := some ⟨7, 5⟩, clientPort := some 1 } none, .qr { ts := some ⟨3, 9⟩, clientPort := some 2 } none]).qrs.map (·.ts) = [some ⟨7, 5⟩, some ⟨3, 9⟩] := by
  decide

open CdnsVerif.Model.Builder CdnsVerif.Model.Schema CdnsVerif.Model.Structs CdnsVerif.Model.File in
/-- **Built blocks round-trip, for all records.**  For every hint setting and every sequence of buffered records whose
    members fit the widths of the C++ members (`RecOk`: ports below 2^16, flags below 2^8, strings shorter than 2^64 …), with
    fewer than 2^64 records and at most 2^32 entries in each table of the block (the range of `index_t`), the file
    `83 65 "C-DNS"`, preamble, `9f`, the block as `CdnsBlock::write` lays it out, `ff` is read back by the reader as exactly
    that preamble and that block, consuming every byte.  No executable side condition is left: the block's membership in the
    round-trip domain is proved (`build_conforms`), not checked per input. -/
theorem built_file_roundtrip (h : Hints) (recs : List Rec) (pi : Option Nat) (pv : Val) (hp : Conforms filePreamble pv)
    (hrecs : ∀ r ∈ recs, RecOk r) (hn : recs.length < 2 ^ 64) (hl : ∀ t, len (build h recs) t ≤ 2 ^ 32) (hpi : ULt 32 pi) :
    ∃ fuel₀, ∀ fuel, fuel₀ ≤ fuel →
      (readFile fuel).run (fileBytes pv [toVal (build h recs) pi h.tps]) = .ok ((pv, .list [toVal (build h recs) pi h.tps]), []) := by
  apply file_roundtrip pv _ hp
  simp only [ConformsList]
  exact ⟨build_conforms h recs pi hrecs hn hl hpi, trivial⟩

open CdnsVerif.Model.Builder in
/-- the hypotheses are met by an ordinary record (non-vacuity) -/
example : RecOk (.qr { clientPort := some 53, queryName := some [3, 119, 119, 119, 0], responseDelay := some (-5) } none) := by
  refine ⟨⟨?_, ?_, ?_, ?_, ?_, ?_, ?_, ?_, ?_, ?_, ?_, ?_, ?_, ?_, ?_, ?_, ?_, ?_, ?_, ?_, ?_, ?_, ?_, ?_, ?_, ?_, ?_, ?_, ?_, ?_, ?_, ?_, ?_, ?_,
    ?_, ?_, ?_, ?_, ?_⟩, fun s hs => by cases hs⟩
  all_goals first
    | (intro x hx; cases hx; done)
    | (intro x hx; cases hx; decide)
    | (intro x hx; cases hx; exact ⟨by decide, fun b hb => by simp at hb; omega⟩)
    | (intro x hx; cases hx; exact ⟨by decide, by decide⟩)

/-! ### the whole chain: buffered records → file bytes → records returned by the reader -/

open CdnsVerif.Model.Builder CdnsVerif.Model.ReadBlock in
/-- total count the reader returns for a generic address-event key -/
def returnedCount (l : List (GAEC × Nat)) (k : GAEC) : Nat := ((l.filter fun e => decide (e.1 = k)).map (·.2)).sum

open CdnsVerif.Model.Builder CdnsVerif.Model.ReadBlock in
theorem returnedCount_eq (b : Blk) (k : GAEC) :
    returnedCount (b.aecs.filterMap fun a => (resolveA b a.1).map fun g => (g, a.2)) k = countFor b k := by
  unfold returnedCount countFor
  generalize b.aecs = l
  induction l with
  | nil => rfl
  | cons a l ih =>
    simp only [List.filterMap_cons, List.filter_cons]
    cases hr : resolveA b a.1 with
    | none =>
      simp only [Option.map_none, reduceCtorEq, decide_false, Bool.false_eq_true, if_false]
      exact ih
    | some g =>
      simp only [Option.map_some, List.filter_cons, Option.some.injEq]
      by_cases hg : g = k
      · simp only [hg, decide_true, if_true, List.map_cons, List.sum_cons]
        rw [← hg] at ih ⊢; rw [ih]
      · simp only [hg, decide_false, Bool.false_eq_true, if_false]
        exact ih

open CdnsVerif.Model.Builder CdnsVerif.Model.ReadBlock in
/-- the narrowing `read_generic_qr` applies to the answer count (`uint32_t` table member → `uint16_t` record member) changes nothing
    for records the application can hand over: their answer count is a `uint16_t` -/
theorem narrowQ_project (h : Hints) (g : GQR) (hg : GqrOk g) : narrowQ (project h g) = project h g := by
  have : (project h g).ancount.map (· % 65536) = (project h g).ancount := by
    show (keep _ g.ancount).map (· % 65536) = keep _ g.ancount
    unfold keep
    split
    · cases ha : g.ancount with
      | none => rfl
      | some n => simp only [Option.map_some]; rw [Nat.mod_eq_of_lt (hg.ancount n ha)]
    · rfl
  unfold narrowQ
  rw [this]

open CdnsVerif.Model.Builder CdnsVerif.Model.ReadBlock in
theorem narrow_expected (h : Hints) (recs : List Rec) (hrecs : ∀ r ∈ recs, RecOk r) :
    (expectedQrs h recs).map narrowQ = expectedQrs h recs := by
  unfold expectedQrs
  induction recs with
  | nil => rfl
  | cons r rest ih =>
    have ihr := ih (fun x hx => hrecs x (List.mem_cons_of_mem _ hx))
    have hr := hrecs r (List.mem_cons_self ..)
    cases r with
    | aec g st => simpa only [List.filterMap_cons] using ihr
    | mm g st => simpa only [List.filterMap_cons] using ihr
    | qr g st =>
      by_cases hany : (project h g).anySome = true
      · simp only [List.filterMap_cons, hany, if_true, List.map_cons, narrowQ_project h g hr.1]
        exact congrArg _ ihr
      · simp only [List.filterMap_cons, hany, Bool.false_eq_true, if_false]
        exact ihr

open CdnsVerif.Model.Builder CdnsVerif.Model.Schema CdnsVerif.Model.Structs CdnsVerif.Model.File CdnsVerif.Model.ReadBlock CdnsVerif.Model.Timestamp in
/-- **Export → file → read, end to end.**  For every hint setting, every tick rate ≥ 1 and every sequence of buffered records whose
    members fit the C++ member widths and whose times are representable (the preconditions the property states), the file the
    exporter lays out for the block built from them – under any conforming preamble whose parameter set named by the block carries
    that tick rate – is read back completely (nothing left over), the block reader accepts the raw block (no
    `CdnsDecoderException`, no failing time arithmetic), no bounds-checked accessor throws, and the application receives:
    the hint projections of the query/responses buffered, in their original order (`expectedQrs`: every hint-enabled member
    equal, times exact to the tick); every non-empty malformed message unchanged, in order; for every address-event key a total
    count equal to the number of times it was buffered; and the statistics supplied last. -/
theorem export_read_records (h : Hints) (recs : List Rec) (pi : Option Nat) (pv : Val) (hp : Conforms filePreamble pv)
    (hrecs : ∀ r ∈ recs, RecOk r) (hn : recs.length < 2 ^ 64) (hl : ∀ t, len (build h recs) t ≤ 2 ^ 32) (hpi : ULt 32 pi)
    (hr : 1 ≤ h.tps) (htimes : ∀ rec ∈ recs, ∀ t, rec.ts = some t → C17.InRange t h.tps ∧ t.ticks < h.tps)
    (hrate : rateFor (ratesOf pv) pi = .ok h.tps) :
    ∃ fuel₀, ∀ fuel, fuel₀ ≤ fuel → ∃ v rb r,
      (readFile fuel).run (fileBytes pv [toVal (build h recs) pi h.tps]) = .ok ((pv, .list [v]), []) ∧
      ofVal (ratesOf pv) v = .ok rb ∧ records rb.blk = .ok r ∧
      r.qrs = expectedQrs h recs ∧ r.mms = expectedMms h recs ∧
      (∀ k, returnedCount r.aecs k = timesBuffered h recs k) ∧
      rb.blk.stats = ((recs.filterMap statOf).getLast?).map norm6 ∧ rb.pi = pi := by
  obtain ⟨fuel₀, hf⟩ := built_file_roundtrip h recs pi pv hp hrecs hn hl hpi
  refine ⟨fuel₀, fun fuel hfu => ?_⟩
  have htr := record_times_recovered h recs h.tps hr htimes
  have hback : ∀ (ts : Option Ts), (∀ t, ts = some t → ∃ n, offsetOf t (build h recs).earliest h.tps = some n ∧ n < two63 ∧
      addTimeOffset (build h recs).earliest (toI64 n) h.tps = .ok t) → TimeBack (build h recs).earliest h.tps ts := by
    intro ts hts
    unfold TimeBack
    cases ts with
    | none => rfl
    | some t =>
      obtain ⟨n, hn1, _, hn3⟩ := hts t rfl
      simp only [Option.bind_some, hn1, timeOf, hn3]
  have hov := ofVal_toVal (ratesOf pv) (build h recs) pi h.tps hrate
    (fun q hq => hback q.ts fun t ht => htr.1 q hq t ht) (fun m hm => hback m.ts fun t ht => htr.2 m hm t ht) (nodup_of_nodup_map _ _ (aec_keys_nodup h recs))
  obtain ⟨r, hr1, hr2, hr3, hr4⟩ := records_closed (readBackOf (build h recs)) (closed_readBackOf _ (inv_build h recs).1)
  refine ⟨_, _, r, hf fuel hfu, hov, hr1, ?_, ?_, ?_, ?_, rfl⟩
  · rw [hr2]
    show List.map (fun q => narrowQ (resolveQ (build h recs) q)) (build h recs).qrs = _
    rw [show (fun q => narrowQ (resolveQ (build h recs) q)) = narrowQ ∘ resolveQ (build h recs) from rfl, ← List.map_map,
      records_resolve_to_projection]
    exact narrow_expected h recs hrecs
  · rw [hr3]; exact malformed_messages_read_back h recs
  · intro k
    rw [hr4]
    exact (returnedCount_eq (build h recs) k).trans (address_event_totals h recs k)
  · show (build h recs).stats.map norm6 = _
    rw [block_statistics_latest h recs]

open CdnsVerif.Model.Builder CdnsVerif.Model.ReadBlock in
/-- non-vacuity of the rate hypothesis: the sample preamble's only parameter set has rate 1000000, and a block naming set 0
    (or no set) is read under it -/
example : rateFor (ratesOf samplePreamble) (some 0) = .ok 1000000 ∧ rateFor (ratesOf samplePreamble) none = .ok 1000000 := ⟨rfl, rfl⟩


/-! ### several blocks: wherever the exporter cuts the record sequence into blocks -/

open CdnsVerif.Model.Builder CdnsVerif.Model.Schema CdnsVerif.Model.Structs CdnsVerif.Model.ReadBlock CdnsVerif.Model.Timestamp in
/-- the preconditions of the property, for one block's worth of records -/
structure GroupOk (h : Hints) (g : List Rec) : Prop where
  recs : ∀ r ∈ g, RecOk r
  count : g.length < 2 ^ 64
  tables : ∀ t, len (build h g) t ≤ 2 ^ 32
  times : ∀ rec ∈ g, ∀ t, rec.ts = some t → C17.InRange t h.tps ∧ t.ticks < h.tps

open CdnsVerif.Model.Builder CdnsVerif.Model.Schema CdnsVerif.Model.Structs CdnsVerif.Model.ReadBlock CdnsVerif.Model.Timestamp in
/-- what the application observes of the block built from one group of records, given its raw value as written -/
theorem built_block_outcome (h : Hints) (g : List Rec) (pi : Option Nat) (rates : List Nat) (hg : GroupOk h g) (hr : 1 ≤ h.tps)
    (hrate : rateFor rates pi = .ok h.tps) :
    ∃ rb r, blockOutcome rates (toVal (build h g) pi h.tps) = .ok (rb, r) ∧
      r.qrs = expectedQrs h g ∧ r.mms = expectedMms h g ∧ (∀ k, returnedCount r.aecs k = timesBuffered h g k) ∧
      rb.blk.stats = ((g.filterMap statOf).getLast?).map norm6 ∧ rb.pi = pi := by
  have htr := record_times_recovered h g h.tps hr hg.times
  have hback : ∀ (ts : Option Ts), (∀ t, ts = some t → ∃ n, offsetOf t (build h g).earliest h.tps = some n ∧ n < two63 ∧
      addTimeOffset (build h g).earliest (toI64 n) h.tps = .ok t) → TimeBack (build h g).earliest h.tps ts := by
    intro ts hts
    unfold TimeBack
    cases ts with
    | none => rfl
    | some t =>
      obtain ⟨n, hn1, _, hn3⟩ := hts t rfl
      simp only [Option.bind_some, hn1, timeOf, hn3]
  have hov := ofVal_toVal rates (build h g) pi h.tps hrate
    (fun q hq => hback q.ts fun t ht => htr.1 q hq t ht) (fun m hm => hback m.ts fun t ht => htr.2 m hm t ht) (nodup_of_nodup_map _ _ (aec_keys_nodup h g))
  obtain ⟨r, hr1, hr2, hr3, hr4⟩ := records_closed (readBackOf (build h g)) (closed_readBackOf _ (inv_build h g).1)
  refine ⟨{ blk := readBackOf (build h g), pi := pi, tps := h.tps }, r, ?_, ?_, ?_, ?_, ?_, rfl⟩
  · simp only [blockOutcome, hov, hr1]
  · rw [hr2]
    show List.map (fun q => narrowQ (resolveQ (build h g) q)) (build h g).qrs = _
    rw [show (fun q => narrowQ (resolveQ (build h g) q)) = narrowQ ∘ resolveQ (build h g) from rfl, ← List.map_map,
      records_resolve_to_projection]
    exact narrow_expected h g hg.recs
  · rw [hr3]; exact malformed_messages_read_back h g
  · intro k
    rw [hr4]
    exact (returnedCount_eq (build h g) k).trans (address_event_totals h g k)
  · show (build h g).stats.map norm6 = _
    rw [block_statistics_latest h g]

open CdnsVerif.Model.Builder in
theorem expectedQrs_flatten (h : Hints) (groups : List (List Rec)) :
    (groups.map (expectedQrs h)).flatten = expectedQrs h groups.flatten := by
  induction groups with
  | nil => rfl
  | cons g gs ih => simp only [List.map_cons, List.flatten_cons, ih, expectedQrs, List.filterMap_append]

open CdnsVerif.Model.Builder in
theorem expectedMms_flatten (h : Hints) (groups : List (List Rec)) :
    (groups.map (expectedMms h)).flatten = expectedMms h groups.flatten := by
  induction groups with
  | nil => rfl
  | cons g gs ih => simp only [List.map_cons, List.flatten_cons, ih, expectedMms, List.filterMap_append]

open CdnsVerif.Model.Builder CdnsVerif.Model.Schema CdnsVerif.Model.Structs CdnsVerif.Model.File CdnsVerif.Model.ReadBlock in
/-- **Any number of blocks, any block boundaries.**  However the record sequence is cut into blocks (by the size rule, by explicit
    `write_block` calls, by rotation – `groups` is the list of the record groups that ended up in one block each), the file holding
    the blocks built from the groups is read back completely, every block is accepted and resolved without exception, and the
    query/responses (malformed messages) the application receives over all blocks in file order are exactly the hint projections
    of all records buffered, in their original order: the cut points leave no trace in what is read. -/
theorem export_read_records_blocks (h : Hints) (groups : List (List Rec)) (pi : Option Nat) (pv : Val) (hp : Conforms filePreamble pv)
    (hgs : ∀ g ∈ groups, GroupOk h g) (hpi : ULt 32 pi) (hr : 1 ≤ h.tps) (hrate : rateFor (ratesOf pv) pi = .ok h.tps) :
    ∃ fuel₀, ∀ fuel, fuel₀ ≤ fuel → ∃ outs : List (RdBlk × Records),
      (readFile fuel).run (fileBytes pv (groups.map fun g => toVal (build h g) pi h.tps)) =
        .ok ((pv, .list (groups.map fun g => toVal (build h g) pi h.tps)), []) ∧
      (groups.map fun g => blockOutcome (ratesOf pv) (toVal (build h g) pi h.tps)) = outs.map .ok ∧
      (outs.map (·.2.qrs)).flatten = expectedQrs h groups.flatten ∧
      (outs.map (·.2.mms)).flatten = expectedMms h groups.flatten := by
  have hout : ∃ outs : List (RdBlk × Records),
      (groups.map fun g => blockOutcome (ratesOf pv) (toVal (build h g) pi h.tps)) = outs.map .ok ∧
      outs.map (·.2.qrs) = groups.map (expectedQrs h) ∧ outs.map (·.2.mms) = groups.map (expectedMms h) := by
    induction groups with
    | nil => exact ⟨[], rfl, rfl, rfl⟩
    | cons g gs ih =>
      obtain ⟨outs, h1, h2, h3⟩ := ih (fun g' hg' => hgs g' (List.mem_cons_of_mem _ hg'))
      obtain ⟨rb, r, hb, hq, hm, _⟩ := built_block_outcome h g pi (ratesOf pv) (hgs g List.mem_cons_self) hr hrate
      exact ⟨(rb, r) :: outs, by simp only [List.map_cons, hb, h1], by simp only [List.map_cons, hq, h2], by simp only [List.map_cons, hm, h3]⟩
  have hconf : ConformsList block (groups.map fun g => toVal (build h g) pi h.tps) := by
    clear hout
    induction groups with
    | nil => trivial
    | cons g gs ih =>
      have hg := hgs g List.mem_cons_self
      exact ⟨build_conforms h g pi hg.recs hg.count hg.tables hpi, ih fun g' hg' => hgs g' (List.mem_cons_of_mem _ hg')⟩
  obtain ⟨fuel₀, hf⟩ := file_roundtrip pv _ hp hconf
  refine ⟨fuel₀, fun fuel hfu => ?_⟩
  obtain ⟨outs, h1, h2, h3⟩ := hout
  exact ⟨outs, hf fuel hfu, h1, by rw [h2, expectedQrs_flatten], by rw [h3, expectedMms_flatten]⟩


end CdnsVerif.Props.C01
