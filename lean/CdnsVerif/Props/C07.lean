/-
  C07 — the CBOR decoder accepts every well-formed encoding and skips exactly one item.

  All statements are about `Prog.run` over the remaining input; `Props.C05.runW_refines` lifts
  each of them to the real decoder state (65535-byte window over a `std::istream`), so they
  hold wherever the encoding lies relative to the buffer boundary.
  `Item`, `Item.enc`, `Item.WF` are the RFC 8949 syntax from `Spec.Cbor` (every head width,
  definite and indefinite containers, chunked strings, tags, simple values, floats).
-/
import CdnsVerif.Proofs.Decoder
import CdnsVerif.Proofs.Skip

namespace CdnsVerif.Props.C07
open CdnsVerif.Spec.Cbor CdnsVerif.Model CdnsVerif.Model.Decoder

/-! ### scalar reads -/

theorem readUnsigned_accepts (w : Width) (n : Nat) (h : w.fits n) (rest : Bytes) :
    readUnsigned.run ((Item.uint w n).enc ++ rest) = .ok (n, rest) := by
  unfold readUnsigned
  rw [Item.enc, run_head mUint w n h]
  have := ai_le_27 w n h
  have h28 : ¬ w.ai n ≥ 28 := by omega
  simp only [tUnsigned_eq, ne_eq, not_true_eq_false, if_false, h28]
  exact run_readInt w n h rest

theorem readNegative_accepts (w : Width) (n : Nat) (h : w.fits n) (hn : n < 2 ^ 63) (rest : Bytes) :
    readNegative.run ((Item.nint w n).enc ++ rest) = .ok (-1 - (n : Int), rest) := by
  unfold readNegative
  rw [Item.enc, run_head mNint w n h]
  have := ai_le_27 w n h
  have h28 : ¬ w.ai n ≥ 28 := by omega
  simp only [tNegative_eq, ne_eq, not_true_eq_false, if_false, h28]
  rw [Prog.run_bind_ok _ _ _ _ _ (run_readInt w n h rest)]
  have : ¬ n > int64Max := by unfold int64Max; omega
  simp [this]

/-- outside `int64_t` the API cannot return the value; it saturates (never wraps) -/
theorem readNegative_saturates (w : Width) (n : Nat) (h : w.fits n) (hn : 2 ^ 63 ≤ n) (rest : Bytes) :
    readNegative.run ((Item.nint w n).enc ++ rest) = .ok (-(2 ^ 63 : Int), rest) := by
  unfold readNegative
  rw [Item.enc, run_head mNint w n h]
  have := ai_le_27 w n h
  have h28 : ¬ w.ai n ≥ 28 := by omega
  simp only [tNegative_eq, ne_eq, not_true_eq_false, if_false, h28]
  rw [Prog.run_bind_ok _ _ _ _ _ (run_readInt w n h rest)]
  have : n > int64Max := by unfold int64Max; omega
  unfold int64Max at this
  simp [int64Max, this]

theorem readInteger_accepts_uint (w : Width) (n : Nat) (h : w.fits n) (hn : n < 2 ^ 63) (rest : Bytes) :
    readInteger.run ((Item.uint w n).enc ++ rest) = .ok ((n : Int), rest) := by
  unfold readInteger
  rw [Item.enc, peek_head mUint (by decide) w n h]
  simp only [tUnsigned_eq, if_true]
  have := readUnsigned_accepts w n h rest
  rw [Item.enc] at this
  rw [Prog.run_bind_ok _ _ _ _ _ this]
  have : ¬ n > int64Max := by unfold int64Max; omega
  simp [this]

theorem readInteger_accepts_nint (w : Width) (n : Nat) (h : w.fits n) (hn : n < 2 ^ 63) (rest : Bytes) :
    readInteger.run ((Item.nint w n).enc ++ rest) = .ok (-1 - (n : Int), rest) := by
  unfold readInteger
  rw [Item.enc, peek_head mNint (by decide) w n h]
  have e1 : ¬ (mNint * 32 = tUnsigned) := by decide
  have e2 : mNint * 32 = tNegative := by decide
  simp only [e1, e2, if_false, if_true]
  have := readNegative_accepts w n h hn rest
  rw [Item.enc] at this
  exact this

theorem readBool_accepts (b : Bool) (rest : Bytes) :
    readBool.run ((Item.simple (if b then 21 else 20)).enc ++ rest) = .ok (b, rest) := by
  cases b <;> rfl

/-! ### strings -/

private theorem run_readStr_def (m : Nat) (w : Width) (bs : Bytes) (h : w.fits bs.length) (fuel : Nat) (rest : Bytes) :
    (readStr (m * 32) fuel).run (head m w bs.length ++ bs ++ rest) = .ok (bs, rest) := by
  unfold readStr
  rw [List.append_assoc, run_head m w bs.length h]
  have := ai_le_27 w bs.length h
  have h28 : ¬ (28 ≤ w.ai bs.length ∧ w.ai bs.length ≤ 30) := by omega
  simp only [ne_eq, not_true_eq_false, if_false, h28]
  rw [Prog.run_bind_ok _ _ _ _ _ (run_readInt w bs.length h (bs ++ rest))]
  have : (w.ai bs.length == 31) = false := by
    apply beq_false_of_ne; omega
  simp only [readString, this, Bool.not_false, if_true]
  exact run_readN bs rest

theorem readBytestring_accepts (w : Width) (bs : Bytes) (h : w.fits bs.length) (fuel : Nat) (rest : Bytes) :
    (readBytestring fuel).run ((Item.bstr w bs).enc ++ rest) = .ok (bs, rest) := by
  unfold readBytestring
  rw [Item.enc, tByteString_eq]
  exact run_readStr_def mBstr w bs h fuel rest

theorem readTextstring_accepts (w : Width) (bs : Bytes) (h : w.fits bs.length) (fuel : Nat) (rest : Bytes) :
    (readTextstring fuel).run ((Item.tstr w bs).enc ++ rest) = .ok (bs, rest) := by
  unfold readTextstring
  rw [Item.enc, tTextString_eq]
  exact run_readStr_def mTstr w bs h fuel rest

private theorem run_readStr_indef (m : Nat) (hm : m = mBstr ∨ m = mTstr) (cs : List Chunk) (hcs : chunksWF cs)
    (fuel : Nat) (hf : cs.length + 1 ≤ fuel) (rest : Bytes) :
    (readStr (m * 32) fuel).run (indefHead m ++ encChunks m cs ++ [breakByte] ++ rest) = .ok (chunksVal cs, rest) := by
  unfold readStr
  simp only [indefHead, List.cons_append, List.nil_append, List.append_assoc]
  rw [Prog.run_bind_ok _ _ _ _ _ (run_readCborType _ _)]
  have e1 : (m * 32 + 31) / 32 * 32 = m * 32 := by omega
  have e2 : (m * 32 + 31) % 32 = 31 := by omega
  simp only [e1, e2, ne_eq, not_true_eq_false, if_false]
  have h28 : ¬ (28 ≤ 31 ∧ 31 ≤ 30) := by omega
  simp only [h28, if_false]
  have hr : (readInt 31).run (encChunks m cs ++ breakByte :: rest) = .ok (0, encChunks m cs ++ breakByte :: rest) := by
    simp [readInt]
  rw [Prog.run_bind_ok _ _ _ _ _ hr]
  simp only [readString, beq_self_eq_true, Bool.not_true, Bool.false_eq_true, if_false]
  obtain ⟨k, rfl⟩ : ∃ k, fuel = cs.length + 1 + k := ⟨fuel - (cs.length + 1), by omega⟩
  rw [Prog.run_bind_ok _ _ _ _ _ (run_readChunks m hm cs hcs k rest)]
  rw [Prog.run_bind_ok _ _ _ _ _ (readBreak_accepts rest)]
  simp

/-- indefinite-length (chunked) byte strings are accepted; the value is the concatenation of
    the chunks -/
theorem readBytestring_accepts_chunked (cs : List Chunk) (hcs : chunksWF cs) (fuel : Nat)
    (hf : cs.length + 1 ≤ fuel) (rest : Bytes) :
    (readBytestring fuel).run ((Item.bstrI cs).enc ++ rest) = .ok (chunksVal cs, rest) := by
  unfold readBytestring
  rw [Item.enc, tByteString_eq]
  exact run_readStr_indef mBstr (Or.inl rfl) cs hcs fuel hf rest

theorem readTextstring_accepts_chunked (cs : List Chunk) (hcs : chunksWF cs) (fuel : Nat)
    (hf : cs.length + 1 ≤ fuel) (rest : Bytes) :
    (readTextstring fuel).run ((Item.tstrI cs).enc ++ rest) = .ok (chunksVal cs, rest) := by
  unfold readTextstring
  rw [Item.enc, tTextString_eq]
  exact run_readStr_indef mTstr (Or.inr rfl) cs hcs fuel hf rest

/-! ### container starts -/

private theorem run_readStart_def (m : Nat) (w : Width) (n : Nat) (h : w.fits n) (rest : Bytes) :
    (readStart (m * 32)).run (head m w n ++ rest) = .ok ((n, false), rest) := by
  unfold readStart
  rw [run_head m w n h]
  have := ai_le_27 w n h
  have h28 : ¬ (28 ≤ w.ai n ∧ w.ai n ≤ 30) := by omega
  have h31 : ¬ (w.ai n = 31) := by omega
  simp only [ne_eq, not_true_eq_false, if_false, h28, h31]
  rw [Prog.run_bind_ok _ _ _ _ _ (run_readInt w n h rest)]
  simp

private theorem run_readStart_indef (m : Nat) (rest : Bytes) :
    (readStart (m * 32)).run (indefHead m ++ rest) = .ok ((0, true), rest) := by
  unfold readStart
  simp only [indefHead, List.cons_append, List.nil_append]
  rw [Prog.run_bind_ok _ _ _ _ _ (run_readCborType _ _)]
  have e1 : (m * 32 + 31) / 32 * 32 = m * 32 := by omega
  have e2 : (m * 32 + 31) % 32 = 31 := by omega
  simp [e1, e2]

theorem readArrayStart_accepts (w : Width) (items : List Item) (h : w.fits items.length) (rest : Bytes) :
    readArrayStart.run ((Item.arr w items).enc ++ rest) = .ok ((items.length, false), Item.encList items ++ rest) := by
  unfold readArrayStart
  rw [Item.enc, tArray_eq, List.append_assoc]
  exact run_readStart_def mArr w _ h _

theorem readArrayStart_accepts_indef (items : List Item) (rest : Bytes) :
    readArrayStart.run ((Item.arrI items).enc ++ rest) = .ok ((0, true), Item.encList items ++ [breakByte] ++ rest) := by
  unfold readArrayStart
  rw [Item.enc, tArray_eq, List.append_assoc, List.append_assoc]
  rw [run_readStart_indef]
  simp

theorem readMapStart_accepts (w : Width) (items : List Item) (h : w.fits (items.length / 2)) (rest : Bytes) :
    readMapStart.run ((Item.map w items).enc ++ rest) = .ok ((items.length / 2, false), Item.encList items ++ rest) := by
  unfold readMapStart
  rw [Item.enc, tMap_eq, List.append_assoc]
  exact run_readStart_def mMap w _ h _

theorem readMapStart_accepts_indef (items : List Item) (rest : Bytes) :
    readMapStart.run ((Item.mapI items).enc ++ rest) = .ok ((0, true), Item.encList items ++ [breakByte] ++ rest) := by
  unfold readMapStart
  rw [Item.enc, tMap_eq, List.append_assoc, List.append_assoc]
  rw [run_readStart_indef]
  simp


/-! ### skipping -/

/-- Skipping consumes exactly one data item – of ANY well-formed shape: all major types,
    every head width, definite and indefinite containers at any nesting depth, chunked
    strings, tags together with their content, simple values and floats – so that the next
    read starts at the following item. -/
theorem skip_exact (i : Item) (hwf : i.WF) (fuel : Nat) (hf : steps i + 2 ≤ fuel) (hc : cfuel i ≤ fuel)
    (rest : Bytes) :
    (skipItem fuel).run (i.enc ++ rest) = .ok ((), rest) := by
  unfold skipItem
  obtain ⟨f, hf'⟩ : ∃ f, fuel = steps i + (f + 2) := ⟨fuel - steps i - 2, by omega⟩
  have h := skipOK i hwf fuel (f + 2) Level.one [] rest (by right; simp [Level.one]) hc
  rw [← hf'] at h
  rw [h, skipLoop_pop _ _ _ _ _ rfl rfl]
  rfl

/-- a fuel linear in the input length always suffices (what the driver and the C++ loop's
    termination argument use) -/
theorem skip_exact_linear (i : Item) (hwf : i.WF) (rest : Bytes) :
    (skipItem (3 * (i.enc ++ rest).length + 2)).run (i.enc ++ rest) = .ok ((), rest) := by
  apply skip_exact i hwf
  · have := steps_le i; simp only [List.length_append]; omega
  · have := cfuel_le i; simp only [List.length_append]; omega

/-- the sentinel reading of the property: after skipping `i`, the next read returns the
    following item's value -/
theorem skip_then_read (i : Item) (hwf : i.WF) (w : Width) (n : Nat) (h : w.fits n) (rest : Bytes) (fuel : Nat)
    (hf : steps i + 2 ≤ fuel) (hc : cfuel i ≤ fuel) :
    (skipItem fuel >>= fun _ => readUnsigned).run (i.enc ++ ((Item.uint w n).enc ++ rest)) = .ok (n, rest) := by
  rw [Prog.run_bind_ok _ _ _ _ _ (skip_exact i hwf fuel hf hc _)]
  exact readUnsigned_accepts w n h rest

/-! Non-vacuity: a nested, mixed definite/indefinite item with a tag and a chunked string is
    well-formed, and the theorems apply to it. -/
def sample : Item :=
  .arrI [.tag .w1 100 (.uint .imm 5), .map .imm [.nint .w2 300, .bstrI [(.imm, [1, 2]), (.w1, [3])]],
         .mapI [.simple 20, .f16 15360], .tstr .w4 [104, 105]]

theorem sample_wf : sample.WF := by
  simp [sample, Item.WF, Item.WFList, chunksWF, chunkWF, Width.fits, Width.bound, bytesOk]

example : (skipItem 100 >>= fun _ => readUnsigned).run (sample.enc ++ ((Item.uint .imm 7).enc ++ [])) = .ok (7, []) :=
  skip_then_read sample sample_wf .imm 7 (by decide) [] 100
    (by simp [sample, steps, stepsList]) (by simp [sample, cfuel, cfuelList])

end CdnsVerif.Props.C07
