/-
  C05 — end of input is always detected; a truncated file yields only complete blocks.

  Part 1 (`readToBuffer_spec`, `runW_refines`): the window/istream state machine refines the
  plain "remaining input" view for EVERY decoder program: a byte is returned exactly when one
  is left, `CdnsDecoderEnd` is thrown exactly when none is – for an empty input, an input of
  exactly k·65535 bytes, an unreadable stream; never a stale byte.
  Part 2 (`run_append`, `run_prefix`, `prefix_blocks`): extension stability of every decoder
  program, hence on a prefix of an input a reader returns exactly the leading blocks of the
  full input that lie inside the prefix and then fails with end-of-input.
-/
import CdnsVerif.Model.Window

namespace CdnsVerif.Props.C05
open CdnsVerif.Spec.Cbor CdnsVerif.Model CdnsVerif.Model.Window

/-- generated obligation: the window is not empty-sized -/
theorem bufferSize_pos : 0 < bufferSize := by decide

/-- state invariant: once eofbit is set the stream delivers nothing more -/
def Inv (s : DecSt) : Prop := s.inp.eof = true → s.inp.good = false

theorem inv_ofBytes (d : Bytes) : Inv (DecSt.ofBytes d) := by intro h; cases h
theorem inv_unreadable : Inv DecSt.unreadable := by intro _; rfl
theorem abs_ofBytes (d : Bytes) : (DecSt.ofBytes d).abs = d := by simp [DecSt.ofBytes, DecSt.abs]
theorem abs_unreadable : DecSt.unreadable.abs = [] := by simp [DecSt.unreadable, DecSt.abs]

/-- `read_to_buffer()` throws `CdnsDecoderEnd` exactly when no input is left; otherwise it
    leaves a non-empty window and the same remaining input. -/
theorem readToBuffer_spec (s : DecSt) (hs : Inv s) :
    match readToBuffer s with
    | .error e => e = .end_ ∧ s.abs = []
    | .ok s' => s'.abs = s.abs ∧ s'.win ≠ [] ∧ Inv s' := by
  unfold readToBuffer
  by_cases hw : s.win = []
  · simp only [hw, if_true]
    by_cases he : s.inp.eof = true
    · simp only [he, if_true]
      exact ⟨by simp, by simp [DecSt.abs, hw, hs he]⟩
    · simp only [he, Bool.false_eq_true, if_false]
      unfold IStream.read
      by_cases hg : s.inp.good = true
      · simp only [hg, Bool.not_true, Bool.false_eq_true, if_false]
        by_cases hl : s.inp.data.length < bufferSize
        · simp only [hl, if_true]
          by_cases hd : s.inp.data = []
          · simp only [hd, if_true]
            exact ⟨by simp, by simp [DecSt.abs, hw, hd]⟩
          · simp only [hd, if_false]
            refine ⟨by simp [DecSt.abs, hw, hg], hd, ?_⟩
            intro _; rfl
        · simp only [hl, if_false]
          have hp := bufferSize_pos
          have hne : List.take bufferSize s.inp.data ≠ [] := by
            intro h
            have := congrArg List.length h
            simp only [List.length_take, List.length_nil] at this
            omega
          simp only [hne, if_false]
          refine ⟨by simp [DecSt.abs, hw, hg], hne, ?_⟩
          intro h; exact absurd h he
      · simp only [hg, Bool.not_false, if_true]
        have hg' : s.inp.good = false := by simpa using hg
        exact ⟨by simp, by simp [DecSt.abs, hw, hg']⟩
  · simp only [hw, if_false]
    exact ⟨by simp, hw, hs⟩

/-- The real decoder state refines the plain remaining-input view, for every program. -/
theorem runW_refines (p : Prog α) (s : DecSt) (hs : Inv s) :
    match runW p s with
    | .ok (a, s') => p.run s.abs = .ok (a, s'.abs) ∧ Inv s'
    | .error e => p.run s.abs = .error e := by
  induction p generalizing s with
  | pure a => exact ⟨rfl, hs⟩
  | throw e => rfl
  | next k ih =>
    have h := readToBuffer_spec s hs
    unfold runW
    cases hr : readToBuffer s with
    | error e =>
      rw [hr] at h
      simp only
      rw [h.1, h.2]; rfl
    | ok s' =>
      rw [hr] at h
      simp only
      obtain ⟨habs, hne, hinv⟩ := h
      cases hw : s'.win with
      | nil => exact absurd hw hne
      | cons b w =>
        simp only
        have hi' : Inv { s' with win := w } := hinv
        have := ih b { s' with win := w } hi'
        have habs' : s.abs = b :: ({ s' with win := w } : DecSt).abs := by
          rw [← habs]; simp [DecSt.abs, hw]
        rw [habs', Prog.run_next_cons]
        exact this
  | peek k ih =>
    have h := readToBuffer_spec s hs
    unfold runW
    cases hr : readToBuffer s with
    | error e =>
      rw [hr] at h
      simp only
      rw [h.1, h.2]; rfl
    | ok s' =>
      rw [hr] at h
      simp only
      obtain ⟨habs, hne, hinv⟩ := h
      cases hw : s'.win with
      | nil => exact absurd hw hne
      | cons b w =>
        simp only
        have := ih b s' hinv
        have habs' : s.abs = b :: (w ++ (if s'.inp.good then s'.inp.data else [])) := by
          rw [← habs]; simp [DecSt.abs, hw]
        have habs2 : s'.abs = b :: (w ++ (if s'.inp.good then s'.inp.data else [])) := by
          simp [DecSt.abs, hw]
        rw [habs', Prog.run_peek_cons, ← habs2]
        exact this

/-- the first-operation reading of the property: a fresh decoder's first `peek`/`read` on an
    exhausted stream (empty, or unreadable) reports end of input -/
theorem first_op_on_exhausted (p : Nat → Prog α) :
    runW (.next p) (DecSt.ofBytes []) = .error .end_ ∧ runW (.peek p) (DecSt.ofBytes []) = .error .end_ ∧
    runW (.next p) DecSt.unreadable = .error .end_ ∧ runW (.peek p) DecSt.unreadable = .error .end_ := by
  refine ⟨rfl, rfl, rfl, rfl⟩

/-- a byte is returned exactly when one is left, and it is THE next byte of the input -/
theorem next_refines (s : DecSt) (hs : Inv s) :
    match runW (.next Prog.pure) s with
    | .ok (b, s') => s.abs = b :: s'.abs ∧ Inv s'
    | .error e => e = .end_ ∧ s.abs = [] := by
  have h := runW_refines (.next Prog.pure) s hs
  cases hr : runW (.next Prog.pure) s with
  | ok r =>
    obtain ⟨b, s'⟩ := r
    rw [hr] at h
    simp only at h ⊢
    cases ha : s.abs with
    | nil => rw [ha] at h; simp at h
    | cons x xs =>
      rw [ha] at h
      simp only [Prog.run_next_cons, Prog.run_pure', Except.ok.injEq, Prod.mk.injEq] at h
      obtain ⟨⟨h1, h2⟩, h3⟩ := h
      exact ⟨by rw [h1, h2], h3⟩
  | error e =>
    rw [hr] at h
    simp only at h ⊢
    cases ha : s.abs with
    | nil => rw [ha] at h; simp at h; exact ⟨h.symm, rfl⟩
    | cons x xs => rw [ha] at h; simp at h

/-! ### extension stability -/

/-- what a program does on an input is unchanged by appending more input, unless it ran
    into the end -/
theorem run_append (p : Prog α) (bs ext : Bytes) :
    match p.run bs with
    | .ok (a, r) => p.run (bs ++ ext) = .ok (a, r ++ ext)
    | .error e => e = .end_ ∨ p.run (bs ++ ext) = .error e := by
  induction p generalizing bs with
  | pure a => rfl
  | throw e => exact Or.inr rfl
  | next k ih =>
    cases bs with
    | nil => exact Or.inl rfl
    | cons b bs => simp only [Prog.run_next_cons, List.cons_append]; exact ih b bs
  | peek k ih =>
    cases bs with
    | nil => exact Or.inl rfl
    | cons b bs =>
      simp only [Prog.run_peek_cons, List.cons_append]
      have := ih b (b :: bs)
      simpa using this

/-- the remaining input is a suffix of the input -/
theorem run_suffix (p : Prog α) (bs r : Bytes) (a : α) (h : p.run bs = .ok (a, r)) : ∃ pre, bs = pre ++ r := by
  induction p generalizing bs with
  | pure a' => simp at h; exact ⟨[], by simp [h.2]⟩
  | throw e => simp at h
  | next k ih =>
    cases bs with
    | nil => simp at h
    | cons b bs =>
      simp only [Prog.run_next_cons] at h
      obtain ⟨pre, hp⟩ := ih b bs h
      exact ⟨b :: pre, by simp [hp]⟩
  | peek k ih =>
    cases bs with
    | nil => simp at h
    | cons b bs =>
      simp only [Prog.run_peek_cons] at h
      exact ih b (b :: bs) h

/-- Reading a prefix of an input either agrees with reading the whole input (same value, the
    cut-off part still unread) or ends with end-of-input: no value is ever fabricated. -/
theorem run_prefix (p : Prog α) (bs : Bytes) (n : Nat) :
    p.run (bs.take n) = .error .end_ ∨
    (∃ a r, p.run (bs.take n) = .ok (a, r) ∧ p.run bs = .ok (a, r ++ bs.drop n)) ∨
    (∃ e, p.run (bs.take n) = .error e ∧ p.run bs = .error e) := by
  have h := run_append p (bs.take n) (bs.drop n)
  rw [List.take_append_drop] at h
  cases hr : p.run (bs.take n) with
  | ok x =>
    obtain ⟨a, r⟩ := x
    rw [hr] at h
    exact Or.inr (Or.inl ⟨a, r, rfl, h⟩)
  | error e =>
    rw [hr] at h
    rcases h with h | h
    · exact Or.inl (by rw [h])
    · exact Or.inr (Or.inr ⟨e, rfl, h⟩)

/-! ### a reader: repeated block reads -/

/-- repeatedly run a block-reading step (`none` = the reader reports its normal end);
    returns the blocks with the number of input bytes consumed up to each block's end -/
def readAll (p : σ → Prog (Option β × σ)) : Nat → σ → Nat → Bytes → List (β × Nat) × Option Err
  | 0, _, _, _ => ([], some .other)
  | fuel+1, st, c, bs =>
    match (p st).run bs with
    | .ok ((some a, st'), r) =>
      let c' := c + (bs.length - r.length)
      let (as, e) := readAll p fuel st' c' r
      ((a, c') :: as, e)
    | .ok ((none, _), _) => ([], none)
    | .error e => ([], some e)

/-- a step is tight when it never looks beyond the last byte it consumes -/
def Tight (q : Prog γ) : Prop :=
  ∀ bs x r, q.run bs = .ok (x, r) → q.run (bs.take (bs.length - r.length)) = .ok (x, [])

/-- For every reader built from decoder programs and every cut point: reading the prefix
    returns blocks identical to the leading blocks of the full input, every one of them lies
    wholly inside the prefix, and unless the reader finished it fails with end-of-input.
    (Soundness half: holds for every reader.) -/
theorem prefix_blocks_sound (p : σ → Prog (Option β × σ)) (fuel : Nat) (st : σ) (c : Nat) (bs : Bytes) (n : Nat)
    (hn : n ≤ bs.length) (blocks : List (β × Nat)) (hfull : readAll p fuel st c bs = (blocks, none)) :
    ∃ k, (readAll p fuel st c (bs.take n)).1 = blocks.take k ∧
      (∀ x ∈ blocks.take k, x.2 ≤ c + n) ∧
      ((readAll p fuel st c (bs.take n)).2 = some .end_ ∨
       ((readAll p fuel st c (bs.take n)).2 = none ∧ k = blocks.length)) := by
  induction fuel generalizing st c bs n blocks with
  | zero => simp [readAll] at hfull
  | succ fuel ih =>
    unfold readAll at hfull ⊢
    rcases run_prefix (p st) bs n with h | ⟨x, r, h1, h2⟩ | ⟨e, h1, h2⟩
    · -- the prefix ends inside this step
      rw [h]
      exact ⟨0, by simp, by simp, Or.inl (by simp)⟩
    · rw [h1]
      rw [h2] at hfull
      obtain ⟨o, st'⟩ := x
      cases o with
      | none =>
        simp only at hfull ⊢
        simp only [Prod.mk.injEq] at hfull
        refine ⟨0, by simp, by simp, Or.inr ⟨by simp, ?_⟩⟩
        rw [← hfull.1]; rfl
      | some a =>
        simp only at hfull ⊢
        -- consumed by this step: the same in both runs
        obtain ⟨pre, hpre⟩ := run_suffix (p st) (bs.take n) r (some a, st') h1
        have hlen : (bs.take n).length = pre.length + r.length := by rw [hpre]; simp
        have hlen2 : (bs.take n).length = n := by simp [List.length_take]; omega
        have hc : (bs.take n).length - r.length = bs.length - (r ++ bs.drop n).length := by
          simp only [List.length_append, List.length_drop]; omega
        rw [hc]
        have hcc : c + (bs.length - (r ++ List.drop n bs).length) ≤ c + n ∧
            c + (bs.length - (r ++ List.drop n bs).length) + r.length ≤ c + n := by
          simp only [List.length_append, List.length_drop]; omega
        generalize c + (bs.length - (r ++ List.drop n bs).length) = c' at *
        generalize hrec : readAll p fuel st' c' (r ++ List.drop n bs) = full at hfull
        obtain ⟨as, e⟩ := full
        simp only [Prod.mk.injEq] at hfull
        obtain ⟨hb, he⟩ := hfull
        subst he
        have hr : (r ++ bs.drop n).take r.length = r := by simp
        have := ih st' c' (r ++ bs.drop n) r.length (by simp) as hrec
        rw [hr] at this
        obtain ⟨k, hk1, hk2, hk3⟩ := this
        refine ⟨k + 1, ?_, ?_, ?_⟩
        · rw [← hb]; simp [hk1]
        · rw [← hb]
          intro y hy
          simp only [List.take_succ_cons, List.mem_cons] at hy
          rcases hy with rfl | hy
          · exact hcc.1
          · have := hk2 y hy
            omega
        · rcases hk3 with h | ⟨h, hk⟩
          · exact Or.inl h
          · exact Or.inr ⟨h, by rw [← hb]; simp [hk]⟩
    · rw [h2] at hfull
      simp at hfull


/-! ### completeness under tightness -/

theorem readAll_ge (p : σ → Prog (Option β × σ)) (fuel : Nat) (st : σ) (c : Nat) (bs : Bytes) :
    ∀ x ∈ (readAll p fuel st c bs).1, c ≤ x.2 := by
  induction fuel generalizing st c bs with
  | zero => intro x hx; simp [readAll] at hx
  | succ fuel ih =>
    intro x hx
    unfold readAll at hx
    cases hr : (p st).run bs with
    | error e => rw [hr] at hx; simp at hx
    | ok v =>
      obtain ⟨⟨o, st'⟩, r⟩ := v
      rw [hr] at hx
      cases o with
      | none => simp at hx
      | some a =>
        simp only [List.mem_cons] at hx
        rcases hx with rfl | hx
        · simp
        · have := ih st' _ r x hx; omega

/-- a tight step that succeeds on the whole input and runs into the end on a prefix must
    have consumed more than the prefix holds -/
theorem tight_prefix_end (q : Prog γ) (hT : Tight q) (bs r : Bytes) (x : γ) (n : Nat)
    (hfull : q.run bs = .ok (x, r)) (hend : q.run (bs.take n) = .error .end_) : n < bs.length - r.length := by
  apply Classical.byContradiction
  intro hk
  have hk' : bs.length - r.length ≤ n := by omega
  have ht := hT bs x r hfull
  have ha := run_append q (bs.take (bs.length - r.length)) ((bs.take n).drop (bs.length - r.length))
  rw [ht] at ha
  simp only at ha
  have e : bs.take (bs.length - r.length) ++ (bs.take n).drop (bs.length - r.length) = bs.take n := by
    have : bs.take (bs.length - r.length) = (bs.take n).take (bs.length - r.length) := by
      rw [List.take_take, Nat.min_eq_left hk']
    rw [this, List.take_append_drop]
  rw [e, hend] at ha
  cases ha

/-- For a reader whose steps are tight (they never look beyond the last byte they consume –
    true of the library's block reader, whose items are either of definite length or closed
    by a stop code it reads): reading a prefix returns EXACTLY the blocks of the full input
    that lie wholly inside the prefix. -/
theorem prefix_blocks (p : σ → Prog (Option β × σ)) (hT : ∀ st, Tight (p st)) (fuel : Nat) (st : σ) (c : Nat)
    (bs : Bytes) (n : Nat) (hn : n ≤ bs.length) (blocks : List (β × Nat))
    (hfull : readAll p fuel st c bs = (blocks, none)) :
    (readAll p fuel st c (bs.take n)).1 = blocks.filter (fun x => decide (x.2 ≤ c + n)) := by
  induction fuel generalizing st c bs n blocks with
  | zero => simp [readAll] at hfull
  | succ fuel ih =>
    unfold readAll at hfull ⊢
    cases hr : (p st).run bs with
    | error e => rw [hr] at hfull; simp at hfull
    | ok v =>
      obtain ⟨⟨o, st'⟩, r⟩ := v
      rw [hr] at hfull
      rcases run_prefix (p st) bs n with h | ⟨x, r', h1, h2⟩ | ⟨e, h1, h2⟩
      · -- prefix ends within this step: every block of the full run ends beyond the prefix
        rw [h]
        have hlt := tight_prefix_end (p st) (hT st) bs r _ n hr h
        cases o with
        | none => simp at hfull; simp [hfull]
        | some a =>
          simp only at hfull ⊢
          generalize hrec : readAll p fuel st' (c + (bs.length - r.length)) r = full at hfull
          obtain ⟨as, e⟩ := full
          simp only [Prod.mk.injEq] at hfull
          rw [← hfull.1]
          have hge := readAll_ge p fuel st' (c + (bs.length - r.length)) r
          rw [hrec] at hge
          symm
          rw [List.filter_eq_nil_iff]
          intro y hy
          simp only [List.mem_cons] at hy
          simp only [decide_eq_true_eq, Nat.not_le]
          rcases hy with rfl | hy
          · simp; omega
          · have := hge y hy; omega
      · rw [h1]
        rw [hr] at h2
        simp only [Except.ok.injEq, Prod.mk.injEq] at h2
        obtain ⟨hx, hrr⟩ := h2
        subst hx
        cases o with
        | none => simp at hfull; simp [hfull]
        | some a =>
          simp only at hfull ⊢
          obtain ⟨pre, hpre⟩ := run_suffix (p st) (bs.take n) r' (some a, st') h1
          have hlen : (bs.take n).length = pre.length + r'.length := by rw [hpre]; simp
          have hlen2 : (bs.take n).length = n := by simp [List.length_take]; omega
          have hrl : r.length = r'.length + (bs.length - n) := by rw [hrr]; simp
          have hc : (bs.take n).length - r'.length = bs.length - r.length := by omega
          rw [hc]
          have hcc : c + (bs.length - r.length) + r'.length = c + n := by omega
          generalize c + (bs.length - r.length) = c' at *
          generalize hrec : readAll p fuel st' c' r = full at hfull
          obtain ⟨as, e⟩ := full
          simp only [Prod.mk.injEq] at hfull
          obtain ⟨hb, he⟩ := hfull
          subst he
          have hr2 : r.take r'.length = r' := by rw [hrr]; simp
          have := ih st' c' r r'.length (by omega) as hrec
          rw [hr2, hcc] at this
          rw [← hb]
          have hle : c' ≤ c + n := by omega
          simp [this, hle]
      · rw [hr] at h2; cases h2

/-! Non-vacuity / concrete instances: exactly one full window, then the end. -/
example : Inv (DecSt.ofBytes (List.replicate 65535 1)) := inv_ofBytes _

end CdnsVerif.Props.C05
