/-
  C05 — end of input is always detected; a truncated file yields only complete blocks.

  Part 1 (`readToBuffer_spec`, `runW_refines`): the window/istream state machine refines the
  plain "remaining input" view for EVERY decoder program: a byte is returned exactly when one
  is left, `CdnsDecoderEnd` is thrown exactly when none is – for an empty input, an input of
  exactly k·65535 bytes, an unreadable stream; never a stale byte.
  Part 2 (`run_append`, `run_prefix`, `prefix_blocks`): extension stability of every decoder
  program, hence on a prefix of an input a reader returns exactly the leading blocks of the
  full input that lie inside the prefix and then fails with end-of-input.
  Part 3 (`truncated_blocks`, `truncated_output`): the concrete block reader (the schema model of
  `CdnsReader::read_block`, `Model.File.readBlock`) on a block array cut at ANY byte offset: it
  returns exactly the blocks wholly inside the cut – for the exporter's own encoding and for every
  equivalent well-formed re-encoding of the blocks – then `CdnsDecoderEnd`; a cut inside a block never
  yields a value (`readBlock_cut`).  Parts 1 and 3 compose through `runW_refines` (any window offset).
-/
import CdnsVerif.Model.Window
import CdnsVerif.Model.File
import CdnsVerif.Proofs.DenoteWrite

namespace CdnsVerif.Props.C05
open CdnsVerif.Spec.Cbor CdnsVerif.Model CdnsVerif.Model.Window

/-- generated obligation: the window is not empty-sized -/
theorem bufferSize_pos : 0 < bufferSize := by decide

/-- state invariant: once eofbit is set the stream delivers nothing more -/
def Inv (s : DecSt) : Prop := s.inp.eof = true → s.inp.good = false

theorem inv_ofBytes (d : Bytes) : Inv (DecSt.ofBytes d) := by intro h; cases h
theorem inv_unreadable : Inv DecSt.unreadable := by intro _; rfl
theorem abs_ofBytes (d : Bytes) : (DecSt.ofBytes d).abs = d := by simp [DecSt.ofBytes, DecSt.abs]
theorem abs_unreadable : DecSt.unreadable.abs = [] := by simp [DecSt.unreadable, DecSt.abs]

/-- `read_to_buffer()` throws `CdnsDecoderEnd` exactly when no input is left; otherwise it
    leaves a non-empty window and the same remaining input. -/
theorem readToBuffer_spec (s : DecSt) (hs : Inv s) :
    match readToBuffer s with
    | .error e => e = .end_ ∧ s.abs = []
    | .ok s' => s'.abs = s.abs ∧ s'.win ≠ [] ∧ Inv s' := by
  unfold readToBuffer
  by_cases hw : s.win = []
  · simp only [hw, if_true]
    by_cases he : s.inp.eof = true
    · simp only [he, if_true]
      exact ⟨by simp, by simp [DecSt.abs, hw, hs he]⟩
    · simp only [he, Bool.false_eq_true, if_false]
      unfold IStream.read
      by_cases hg : s.inp.good = true
      · simp only [hg, Bool.not_true, Bool.false_eq_true, if_false]
        by_cases hl : s.inp.data.length < bufferSize
        · simp only [hl, if_true]
          by_cases hd : s.inp.data = []
          · simp only [hd, if_true]
            exact ⟨by simp, by simp [DecSt.abs, hw, hd]⟩
          · simp only [hd, if_false]
            refine ⟨by simp [DecSt.abs, hw, hg], hd, ?_⟩
            intro _; rfl
        · simp only [hl, if_false]
          have hp := bufferSize_pos
          have hne : List.take bufferSize s.inp.data ≠ [] := by
            intro h
            have := congrArg List.length h
            simp only [List.length_take, List.length_nil] at this
            omega
          simp only [hne, if_false]
          refine ⟨by simp [DecSt.abs, hw, hg], hne, ?_⟩
          intro h; exact absurd h he
      · simp only [hg, Bool.not_false, if_true]
        have hg' : s.inp.good = false := by simpa using hg
        exact ⟨by simp, by simp [DecSt.abs, hw, hg']⟩
  · simp only [hw, if_false]
    exact ⟨by simp, hw, hs⟩

/-- The real decoder state refines the plain remaining-input view, for every program. -/
theorem runW_refines (p : Prog α) (s : DecSt) (hs : Inv s) :
    match runW p s with
    | .ok (a, s') => p.run s.abs = .ok (a, s'.abs) ∧ Inv s'
    | .error e => p.run s.abs = .error e := by
  induction p generalizing s with
  | pure a => exact ⟨rfl, hs⟩
  | throw e => rfl
  | next k ih =>
    have h := readToBuffer_spec s hs
    unfold runW
    cases hr : readToBuffer s with
    | error e =>
      rw [hr] at h
      simp only
      rw [h.1, h.2]; rfl
    | ok s' =>
      rw [hr] at h
      simp only
      obtain ⟨habs, hne, hinv⟩ := h
      cases hw : s'.win with
      | nil => exact absurd hw hne
      | cons b w =>
        simp only
        have hi' : Inv { s' with win := w } := hinv
        have := ih b { s' with win := w } hi'
        have habs' : s.abs = b :: ({ s' with win := w } : DecSt).abs := by
          rw [← habs]; simp [DecSt.abs, hw]
        rw [habs', Prog.run_next_cons]
        exact this
  | peek k ih =>
    have h := readToBuffer_spec s hs
    unfold runW
    cases hr : readToBuffer s with
    | error e =>
      rw [hr] at h
      simp only
      rw [h.1, h.2]; rfl
    | ok s' =>
      rw [hr] at h
      simp only
      obtain ⟨habs, hne, hinv⟩ := h
      cases hw : s'.win with
      | nil => exact absurd hw hne
      | cons b w =>
        simp only
        have := ih b s' hinv
        have habs' : s.abs = b :: (w ++ (if s'.inp.good then s'.inp.data else [])) := by
          rw [← habs]; simp [DecSt.abs, hw]
        have habs2 : s'.abs = b :: (w ++ (if s'.inp.good then s'.inp.data else [])) := by
          simp [DecSt.abs, hw]
        rw [habs', Prog.run_peek_cons, ← habs2]
        exact this

/-- the first-operation reading of the property: a fresh decoder's first `peek`/`read` on an
    exhausted stream (empty, or unreadable) reports end of input -/
theorem first_op_on_exhausted (p : Nat → Prog α) :
    runW (.next p) (DecSt.ofBytes []) = .error .end_ ∧ runW (.peek p) (DecSt.ofBytes []) = .error .end_ ∧
    runW (.next p) DecSt.unreadable = .error .end_ ∧ runW (.peek p) DecSt.unreadable = .error .end_ := by
  refine ⟨rfl, rfl, rfl, rfl⟩

/-- a byte is returned exactly when one is left, and it is THE next byte of the input -/
theorem next_refines (s : DecSt) (hs : Inv s) :
    match runW (.next Prog.pure) s with
    | .ok (b, s') => s.abs = b :: s'.abs ∧ Inv s'
    | .error e => e = .end_ ∧ s.abs = [] := by
  have h := runW_refines (.next Prog.pure) s hs
  cases hr : runW (.next Prog.pure) s with
  | ok r =>
    obtain ⟨b, s'⟩ := r
    rw [hr] at h
    simp only at h ⊢
    cases ha : s.abs with
    | nil => rw [ha] at h; simp at h
    | cons x xs =>
      rw [ha] at h
      simp only [Prog.run_next_cons, Prog.run_pure', Except.ok.injEq, Prod.mk.injEq] at h
      obtain ⟨⟨h1, h2⟩, h3⟩ := h
      exact ⟨by rw [h1, h2], h3⟩
  | error e =>
    rw [hr] at h
    simp only at h ⊢
    cases ha : s.abs with
    | nil => rw [ha] at h; simp at h; exact ⟨h.symm, rfl⟩
    | cons x xs => rw [ha] at h; simp at h

/-! ### extension stability -/

/-- what a program does on an input is unchanged by appending more input, unless it ran
    into the end -/
theorem run_append (p : Prog α) (bs ext : Bytes) :
    match p.run bs with
    | .ok (a, r) => p.run (bs ++ ext) = .ok (a, r ++ ext)
    | .error e => e = .end_ ∨ p.run (bs ++ ext) = .error e := by
  induction p generalizing bs with
  | pure a => rfl
  | throw e => exact Or.inr rfl
  | next k ih =>
    cases bs with
    | nil => exact Or.inl rfl
    | cons b bs => simp only [Prog.run_next_cons, List.cons_append]; exact ih b bs
  | peek k ih =>
    cases bs with
    | nil => exact Or.inl rfl
    | cons b bs =>
      simp only [Prog.run_peek_cons, List.cons_append]
      have := ih b (b :: bs)
      simpa using this

/-- the remaining input is a suffix of the input -/
theorem run_suffix (p : Prog α) (bs r : Bytes) (a : α) (h : p.run bs = .ok (a, r)) : ∃ pre, bs = pre ++ r := by
  induction p generalizing bs with
  | pure a' => simp at h; exact ⟨[], by simp [h.2]⟩
  | throw e => simp at h
  | next k ih =>
    cases bs with
    | nil => simp at h
    | cons b bs =>
      simp only [Prog.run_next_cons] at h
      obtain ⟨pre, hp⟩ := ih b bs h
      exact ⟨b :: pre, by simp [hp]⟩
  | peek k ih =>
    cases bs with
    | nil => simp at h
    | cons b bs =>
      simp only [Prog.run_peek_cons] at h
      exact ih b (b :: bs) h

/-- Reading a prefix of an input either agrees with reading the whole input (same value, the
    cut-off part still unread) or ends with end-of-input: no value is ever fabricated. -/
theorem run_prefix (p : Prog α) (bs : Bytes) (n : Nat) :
    p.run (bs.take n) = .error .end_ ∨
    (∃ a r, p.run (bs.take n) = .ok (a, r) ∧ p.run bs = .ok (a, r ++ bs.drop n)) ∨
    (∃ e, p.run (bs.take n) = .error e ∧ p.run bs = .error e) := by
  have h := run_append p (bs.take n) (bs.drop n)
  rw [List.take_append_drop] at h
  cases hr : p.run (bs.take n) with
  | ok x =>
    obtain ⟨a, r⟩ := x
    rw [hr] at h
    exact Or.inr (Or.inl ⟨a, r, rfl, h⟩)
  | error e =>
    rw [hr] at h
    rcases h with h | h
    · exact Or.inl (by rw [h])
    · exact Or.inr (Or.inr ⟨e, rfl, h⟩)

/-! ### a reader: repeated block reads -/

/-- repeatedly run a block-reading step (`none` = the reader reports its normal end);
    returns the blocks with the number of input bytes consumed up to each block's end -/
def readAll (p : σ → Prog (Option β × σ)) : Nat → σ → Nat → Bytes → List (β × Nat) × Option Err
  | 0, _, _, _ => ([], some .other)
  | fuel+1, st, c, bs =>
    match (p st).run bs with
    | .ok ((some a, st'), r) =>
      let c' := c + (bs.length - r.length)
      let (as, e) := readAll p fuel st' c' r
      ((a, c') :: as, e)
    | .ok ((none, _), _) => ([], none)
    | .error e => ([], some e)

/-- a step is tight when it never looks beyond the last byte it consumes -/
def Tight (q : Prog γ) : Prop :=
  ∀ bs x r, q.run bs = .ok (x, r) → q.run (bs.take (bs.length - r.length)) = .ok (x, [])

/-- For every reader built from decoder programs and every cut point: reading the prefix
    returns blocks identical to the leading blocks of the full input, every one of them lies
    wholly inside the prefix, and unless the reader finished it fails with end-of-input.
    (Soundness half: holds for every reader.) -/
theorem prefix_blocks_sound (p : σ → Prog (Option β × σ)) (fuel : Nat) (st : σ) (c : Nat) (bs : Bytes) (n : Nat)
    (hn : n ≤ bs.length) (blocks : List (β × Nat)) (hfull : readAll p fuel st c bs = (blocks, none)) :
    ∃ k, (readAll p fuel st c (bs.take n)).1 = blocks.take k ∧
      (∀ x ∈ blocks.take k, x.2 ≤ c + n) ∧
      ((readAll p fuel st c (bs.take n)).2 = some .end_ ∨
       ((readAll p fuel st c (bs.take n)).2 = none ∧ k = blocks.length)) := by
  induction fuel generalizing st c bs n blocks with
  | zero => simp [readAll] at hfull
  | succ fuel ih =>
    unfold readAll at hfull ⊢
    rcases run_prefix (p st) bs n with h | ⟨x, r, h1, h2⟩ | ⟨e, h1, h2⟩
    · -- the prefix ends inside this step
      rw [h]
      exact ⟨0, by simp, by simp, Or.inl (by simp)⟩
    · rw [h1]
      rw [h2] at hfull
      obtain ⟨o, st'⟩ := x
      cases o with
      | none =>
        simp only at hfull ⊢
        simp only [Prod.mk.injEq] at hfull
        refine ⟨0, by simp, by simp, Or.inr ⟨by simp, ?_⟩⟩
        rw [← hfull.1]; rfl
      | some a =>
        simp only at hfull ⊢
        -- consumed by this step: the same in both runs
        obtain ⟨pre, hpre⟩ := run_suffix (p st) (bs.take n) r (some a, st') h1
        have hlen : (bs.take n).length = pre.length + r.length := by rw [hpre]; simp
        have hlen2 : (bs.take n).length = n := by simp [List.length_take]; omega
        have hc : (bs.take n).length - r.length = bs.length - (r ++ bs.drop n).length := by
          simp only [List.length_append, List.length_drop]; omega
        rw [hc]
        have hcc : c + (bs.length - (r ++ List.drop n bs).length) ≤ c + n ∧
            c + (bs.length - (r ++ List.drop n bs).length) + r.length ≤ c + n := by
          simp only [List.length_append, List.length_drop]; omega
        generalize c + (bs.length - (r ++ List.drop n bs).length) = c' at *
        generalize hrec : readAll p fuel st' c' (r ++ List.drop n bs) = full at hfull
        obtain ⟨as, e⟩ := full
        simp only [Prod.mk.injEq] at hfull
        obtain ⟨hb, he⟩ := hfull
        subst he
        have hr : (r ++ bs.drop n).take r.length = r := by simp
        have := ih st' c' (r ++ bs.drop n) r.length (by simp) as hrec
        rw [hr] at this
        obtain ⟨k, hk1, hk2, hk3⟩ := this
        refine ⟨k + 1, ?_, ?_, ?_⟩
        · rw [← hb]; simp [hk1]
        · rw [← hb]
          intro y hy
          simp only [List.take_succ_cons, List.mem_cons] at hy
          rcases hy with rfl | hy
          · exact hcc.1
          · have := hk2 y hy
            omega
        · rcases hk3 with h | ⟨h, hk⟩
          · exact Or.inl h
          · exact Or.inr ⟨h, by rw [← hb]; simp [hk]⟩
    · rw [h2] at hfull
      simp at hfull


/-! ### completeness under tightness -/

theorem readAll_ge (p : σ → Prog (Option β × σ)) (fuel : Nat) (st : σ) (c : Nat) (bs : Bytes) :
    ∀ x ∈ (readAll p fuel st c bs).1, c ≤ x.2 := by
  induction fuel generalizing st c bs with
  | zero => intro x hx; simp [readAll] at hx
  | succ fuel ih =>
    intro x hx
    unfold readAll at hx
    cases hr : (p st).run bs with
    | error e => rw [hr] at hx; simp at hx
    | ok v =>
      obtain ⟨⟨o, st'⟩, r⟩ := v
      rw [hr] at hx
      cases o with
      | none => simp at hx
      | some a =>
        simp only [List.mem_cons] at hx
        rcases hx with rfl | hx
        · simp
        · have := ih st' _ r x hx; omega

/-- a tight step that succeeds on the whole input and runs into the end on a prefix must
    have consumed more than the prefix holds -/
theorem tight_prefix_end (q : Prog γ) (hT : Tight q) (bs r : Bytes) (x : γ) (n : Nat)
    (hfull : q.run bs = .ok (x, r)) (hend : q.run (bs.take n) = .error .end_) : n < bs.length - r.length := by
  apply Classical.byContradiction
  intro hk
  have hk' : bs.length - r.length ≤ n := by omega
  have ht := hT bs x r hfull
  have ha := run_append q (bs.take (bs.length - r.length)) ((bs.take n).drop (bs.length - r.length))
  rw [ht] at ha
  simp only at ha
  have e : bs.take (bs.length - r.length) ++ (bs.take n).drop (bs.length - r.length) = bs.take n := by
    have : bs.take (bs.length - r.length) = (bs.take n).take (bs.length - r.length) := by
      rw [List.take_take, Nat.min_eq_left hk']
    rw [this, List.take_append_drop]
  rw [e, hend] at ha
  cases ha

/-- For a reader whose steps are tight (they never look beyond the last byte they consume –
    true of the library's block reader, whose items are either of definite length or closed
    by a stop code it reads): reading a prefix returns EXACTLY the blocks of the full input
    that lie wholly inside the prefix. -/
theorem prefix_blocks (p : σ → Prog (Option β × σ)) (hT : ∀ st, Tight (p st)) (fuel : Nat) (st : σ) (c : Nat)
    (bs : Bytes) (n : Nat) (hn : n ≤ bs.length) (blocks : List (β × Nat))
    (hfull : readAll p fuel st c bs = (blocks, none)) :
    (readAll p fuel st c (bs.take n)).1 = blocks.filter (fun x => decide (x.2 ≤ c + n)) := by
  induction fuel generalizing st c bs n blocks with
  | zero => simp [readAll] at hfull
  | succ fuel ih =>
    unfold readAll at hfull ⊢
    cases hr : (p st).run bs with
    | error e => rw [hr] at hfull; simp at hfull
    | ok v =>
      obtain ⟨⟨o, st'⟩, r⟩ := v
      rw [hr] at hfull
      rcases run_prefix (p st) bs n with h | ⟨x, r', h1, h2⟩ | ⟨e, h1, h2⟩
      · -- prefix ends within this step: every block of the full run ends beyond the prefix
        rw [h]
        have hlt := tight_prefix_end (p st) (hT st) bs r _ n hr h
        cases o with
        | none => simp at hfull; simp [hfull]
        | some a =>
          simp only at hfull ⊢
          generalize hrec : readAll p fuel st' (c + (bs.length - r.length)) r = full at hfull
          obtain ⟨as, e⟩ := full
          simp only [Prod.mk.injEq] at hfull
          rw [← hfull.1]
          have hge := readAll_ge p fuel st' (c + (bs.length - r.length)) r
          rw [hrec] at hge
          symm
          rw [List.filter_eq_nil_iff]
          intro y hy
          simp only [List.mem_cons] at hy
          simp only [decide_eq_true_eq, Nat.not_le]
          rcases hy with rfl | hy
          · simp; omega
          · have := hge y hy; omega
      · rw [h1]
        rw [hr] at h2
        simp only [Except.ok.injEq, Prod.mk.injEq] at h2
        obtain ⟨hx, hrr⟩ := h2
        subst hx
        cases o with
        | none => simp at hfull; simp [hfull]
        | some a =>
          simp only at hfull ⊢
          obtain ⟨pre, hpre⟩ := run_suffix (p st) (bs.take n) r' (some a, st') h1
          have hlen : (bs.take n).length = pre.length + r'.length := by rw [hpre]; simp
          have hlen2 : (bs.take n).length = n := by simp [List.length_take]; omega
          have hrl : r.length = r'.length + (bs.length - n) := by rw [hrr]; simp
          have hc : (bs.take n).length - r'.length = bs.length - r.length := by omega
          rw [hc]
          have hcc : c + (bs.length - r.length) + r'.length = c + n := by omega
          generalize c + (bs.length - r.length) = c' at *
          generalize hrec : readAll p fuel st' c' r = full at hfull
          obtain ⟨as, e⟩ := full
          simp only [Prod.mk.injEq] at hfull
          obtain ⟨hb, he⟩ := hfull
          subst he
          have hr2 : r.take r'.length = r' := by rw [hrr]; simp
          have := ih st' c' r r'.length (by omega) as hrec
          rw [hr2, hcc] at this
          rw [← hb]
          have hle : c' ≤ c + n := by omega
          simp [this, hle]
      · rw [hr] at h2; cases h2

/-! ### tightness along the run only -/

/-- pointwise form: a step that is tight AT this input … -/
theorem tightAt_prefix_end (q : Prog γ) (bs r : Bytes) (x : γ) (n : Nat)
    (hfull : q.run bs = .ok (x, r)) (ht : q.run (bs.take (bs.length - r.length)) = .ok (x, []))
    (hend : q.run (bs.take n) = .error .end_) : n < bs.length - r.length := by
  apply Classical.byContradiction
  intro hk
  have hk' : bs.length - r.length ≤ n := by omega
  have ha := run_append q (bs.take (bs.length - r.length)) ((bs.take n).drop (bs.length - r.length))
  rw [ht] at ha
  simp only at ha
  have e : bs.take (bs.length - r.length) ++ (bs.take n).drop (bs.length - r.length) = bs.take n := by
    have : bs.take (bs.length - r.length) = (bs.take n).take (bs.length - r.length) := by
      rw [List.take_take, Nat.min_eq_left hk']
    rw [this, List.take_append_drop]
  rw [e, hend] at ha
  cases ha

/-- The same with tightness required only along the run (at the states of an invariant `R` the run stays in):
    what the concrete block reader of `Props.C05` file level satisfies. -/
theorem prefix_blocks_inv (p : σ → Prog (Option β × σ)) (R : σ → Bytes → Prop)
    (hT : ∀ st bs x r, R st bs → (p st).run bs = .ok (x, r) → (p st).run (bs.take (bs.length - r.length)) = .ok (x, []))
    (hR : ∀ st bs a st' r, R st bs → (p st).run bs = .ok ((some a, st'), r) → R st' r)
    (fuel : Nat) (st : σ) (c : Nat)
    (bs : Bytes) (h0 : R st bs) (n : Nat) (hn : n ≤ bs.length) (blocks : List (β × Nat))
    (hfull : readAll p fuel st c bs = (blocks, none)) :
    (readAll p fuel st c (bs.take n)).1 = blocks.filter (fun x => decide (x.2 ≤ c + n)) := by
  induction fuel generalizing st c bs n blocks with
  | zero => simp [readAll] at hfull
  | succ fuel ih =>
    unfold readAll at hfull ⊢
    cases hr : (p st).run bs with
    | error e => rw [hr] at hfull; simp at hfull
    | ok v =>
      obtain ⟨⟨o, st'⟩, r⟩ := v
      rw [hr] at hfull
      rcases run_prefix (p st) bs n with h | ⟨x, r', h1, h2⟩ | ⟨e, h1, h2⟩
      · -- prefix ends within this step: every block of the full run ends beyond the prefix
        rw [h]
        have hlt := tightAt_prefix_end (p st) bs r _ n hr (hT st bs _ r h0 hr) h
        cases o with
        | none => simp at hfull; simp [hfull]
        | some a =>
          simp only at hfull ⊢
          generalize hrec : readAll p fuel st' (c + (bs.length - r.length)) r = full at hfull
          obtain ⟨as, e⟩ := full
          simp only [Prod.mk.injEq] at hfull
          rw [← hfull.1]
          have hge := readAll_ge p fuel st' (c + (bs.length - r.length)) r
          rw [hrec] at hge
          symm
          rw [List.filter_eq_nil_iff]
          intro y hy
          simp only [List.mem_cons] at hy
          simp only [decide_eq_true_eq, Nat.not_le]
          rcases hy with rfl | hy
          · simp; omega
          · have := hge y hy; omega
      · rw [h1]
        rw [hr] at h2
        simp only [Except.ok.injEq, Prod.mk.injEq] at h2
        obtain ⟨hx, hrr⟩ := h2
        subst hx
        cases o with
        | none => simp at hfull; simp [hfull]
        | some a =>
          simp only at hfull ⊢
          obtain ⟨pre, hpre⟩ := run_suffix (p st) (bs.take n) r' (some a, st') h1
          have hlen : (bs.take n).length = pre.length + r'.length := by rw [hpre]; simp
          have hlen2 : (bs.take n).length = n := by simp [List.length_take]; omega
          have hrl : r.length = r'.length + (bs.length - n) := by rw [hrr]; simp
          have hc : (bs.take n).length - r'.length = bs.length - r.length := by omega
          rw [hc]
          have hcc : c + (bs.length - r.length) + r'.length = c + n := by omega
          generalize c + (bs.length - r.length) = c' at *
          generalize hrec : readAll p fuel st' c' r = full at hfull
          obtain ⟨as, e⟩ := full
          simp only [Prod.mk.injEq] at hfull
          obtain ⟨hb, he⟩ := hfull
          subst he
          have hr2 : r.take r'.length = r' := by rw [hrr]; simp
          have := ih st' c' r (hR st bs a st' r h0 hr) r'.length (by omega) as hrec
          rw [hr2, hcc] at this
          rw [← hb]
          have hle : c' ≤ c + n := by omega
          simp [this, hle]
      · rw [hr] at h2; cases h2

/-! ### file level: the block reader of the schema model on a truncated block array

  `items` are ANY well-formed encodings of blocks (the exporter's or equivalent re-encodings), `vals` the
  block values they denote; the body of the block array is `items` followed by the stop code. -/

open CdnsVerif.Model.Decoder CdnsVerif.Model.Schema CdnsVerif.Model.Structs CdnsVerif.Model.File

/-- each block value with the offset at which its encoding ends -/
def ends : Nat → List Item → List Val → List (Val × Nat)
  | c, i :: is, v :: vs => (v, c + i.enc.length) :: ends (c + i.enc.length) is vs
  | _, _, _ => []

/-- the encodings `items` denote the block values `vals` -/
def Denotes : List Item → List Val → Prop
  | [], [] => True
  | i :: is, v :: vs => i.WF ∧ denote block i = some v ∧ Denotes is vs
  | _, _ => False

theorem ends_ge (c : Nat) (items : List Item) (vals : List Val) : ∀ x ∈ ends c items vals, c ≤ x.2 := by
  induction items generalizing c vals with
  | nil => intro x hx; simp [ends] at hx
  | cons i is ih =>
    cases vals with
    | nil => intro x hx; simp [ends] at hx
    | cons v vs =>
      intro x hx
      simp only [ends, List.mem_cons] at hx
      rcases hx with rfl | hx
      · simp
      · have := ih _ vs x hx; omega

/-- one step of the block reader in front of a block -/
theorem readBlock_block (fuel : Nat) (st : RdSt) (hst : st.indef = true) (i : Item) (v : Val) (hwf : i.WF)
    (hd : denote block i = some v) (hf : steps i + cfuel i ≤ fuel) (rest : Bytes) :
    (readBlock fuel st).run (i.enc ++ rest) = .ok ((some v, { st with read := st.read + 1 }), rest) := by
  unfold readBlock
  simp only [hst, if_true]
  apply run_peek_item i hwf
  intro t ht
  simp only [ht, if_false]
  rw [Prog.run_bind_ok _ _ _ _ _ ((rd_all fuel).1 block i v rest hwf hd hf)]
  rfl

/-- a strict prefix of a block makes the reader fail with end-of-input – never with a value -/
theorem readBlock_cut (fuel : Nat) (st : RdSt) (hst : st.indef = true) (i : Item) (v : Val) (hwf : i.WF)
    (hd : denote block i = some v) (hf : steps i + cfuel i ≤ fuel) (n : Nat) (hn : n < i.enc.length) :
    (readBlock fuel st).run (i.enc.take n) = .error .end_ := by
  have hfull := readBlock_block fuel st hst i v hwf hd hf []
  rw [List.append_nil] at hfull
  rcases run_prefix (readBlock fuel st) i.enc n with h | ⟨a, r, _, h2⟩ | ⟨e, _, h2⟩
  · exact h
  · rw [hfull] at h2
    simp only [Except.ok.injEq, Prod.mk.injEq] at h2
    have := congrArg List.length h2.2
    simp only [List.length_nil, List.length_append, List.length_drop] at this
    omega
  · rw [hfull] at h2; cases h2

/-- **Truncated file.**  Reading the first `n` bytes of a block array returns EXACTLY the blocks that lie wholly
    inside those `n` bytes – identical to the blocks of the whole file, in order – and then fails with
    end-of-input (or reports the normal end when nothing was cut off). -/
theorem truncated_blocks (fuel : Nat) (items : List Item) (vals : List Val) (hden : Denotes items vals)
    (hf : ∀ i ∈ items, steps i + cfuel i ≤ fuel) (N : Nat) (hN : items.length < N) (st : RdSt) (hst : st.indef = true)
    (hout : st.outer = false) (c n : Nat) (hn : n ≤ (Item.encList items ++ [breakByte]).length) :
    readAll (readBlock fuel) N st c ((Item.encList items ++ [breakByte]).take n) =
      ((ends c items vals).filter (fun x => decide (x.2 ≤ c + n)),
       if n = (Item.encList items ++ [breakByte]).length then none else some .end_) := by
  induction items generalizing vals N st c n with
  | nil =>
    cases vals with
    | cons _ _ => simp [Denotes] at hden
    | nil =>
      obtain ⟨N', rfl⟩ : ∃ N', N = N' + 1 := ⟨N - 1, by simp at hN; omega⟩
      simp only [Item.encList, List.nil_append, List.length_singleton] at hn ⊢
      simp only [ends, List.filter_nil]
      have : n = 0 ∨ n = 1 := by omega
      rcases this with rfl | rfl
      · simp [readAll, readBlock, hst, peekType, Prog.run_bind]
      · have hb : (readBlock fuel st).run [breakByte] = .ok ((none, { st with indef := false, count := st.read }), []) := by
          unfold readBlock
          simp only [hst, if_true]
          rw [peek_break]
          simp only [if_true]
          rw [Prog.run_bind_ok _ _ _ _ _ (readBreak_accepts [])]
          simp [endOfFile, hout]
        simp [readAll, hb]
  | cons i is ih =>
    cases vals with
    | nil => simp [Denotes] at hden
    | cons v vs =>
      obtain ⟨hwf, hd, hrest⟩ := hden
      obtain ⟨N', rfl⟩ : ∃ N', N = N' + 1 := ⟨N - 1, by simp at hN; omega⟩
      have hfi := hf i (by simp)
      simp only [Item.encList, List.append_assoc] at hn ⊢
      by_cases hcut : n < i.enc.length
      · -- the cut lies inside the first block
        have htake : (i.enc ++ (Item.encList is ++ [breakByte])).take n = i.enc.take n := by
          rw [List.take_append_of_le_length (by omega)]
        rw [htake]
        unfold readAll
        rw [readBlock_cut fuel st hst i v hwf hd hfi n hcut]
        have hne : n ≠ (i.enc ++ (Item.encList is ++ [breakByte])).length := by simp only [List.length_append]; omega
        simp only [hne, if_false, Prod.mk.injEq, and_true]
        symm
        rw [List.filter_eq_nil_iff]
        intro y hy
        simp only [ends, List.mem_cons] at hy
        simp only [decide_eq_true_eq, Nat.not_le]
        rcases hy with rfl | hy
        · simp; omega
        · have := ends_ge _ is vs y hy; omega
      · -- the first block is wholly inside
        have hge : i.enc.length ≤ n := by omega
        have htake : (i.enc ++ (Item.encList is ++ [breakByte])).take n =
            i.enc ++ (Item.encList is ++ [breakByte]).take (n - i.enc.length) := by
          rw [List.take_append, List.take_of_length_le hge]
        rw [htake]
        unfold readAll
        rw [readBlock_block fuel st hst i v hwf hd hfi _]
        simp only
        have hc : c + ((i.enc ++ List.take (n - i.enc.length) (Item.encList is ++ [breakByte])).length -
            (List.take (n - i.enc.length) (Item.encList is ++ [breakByte])).length) = c + i.enc.length := by
          simp only [List.length_append]; omega
        rw [hc]
        have hn' : n - i.enc.length ≤ (Item.encList is ++ [breakByte]).length := by
          simp only [List.length_append] at hn ⊢; omega
        rw [ih vs hrest (fun j hj => hf j (by simp [hj])) N' (by simp at hN; omega) { st with read := st.read + 1 } hst hout (c + i.enc.length) (n - i.enc.length) hn']
        have e1 : c + i.enc.length + (n - i.enc.length) = c + n := by omega
        have e2 : (n - i.enc.length = (Item.encList is ++ [breakByte]).length) = (n = (i.enc ++ (Item.encList is ++ [breakByte])).length) := by
          simp only [List.length_append, eq_iff_iff]; omega
        simp only [ends, e1, e2]
        have hin : decide (c + i.enc.length ≤ c + n) = true := by simp; omega
        simp [List.filter_cons, hge]

theorem denotes_toItems (blocks : List Val) (hb : ConformsList block blocks) : Denotes (toItems block blocks) blocks := by
  induction blocks with
  | nil => simp [toItems, Denotes]
  | cons v vs ih =>
    simp only [ConformsList] at hb
    simp only [toItems, Denotes]
    exact ⟨(wfs_all (need v)).1 block v (Nat.le_refl _) hb.1, denote_toItem block v hb.1, ih hb.2⟩

/-- **A file array of indefinite length is closed by its own break.**  When the block array ends (its break was read, or all
    announced blocks were), a reader whose file array is of indefinite length (`m_indef_file`) demands that array's break: input
    ending before it is end-of-input, not the regular end of the file – and with the break present the regular end is reported
    and nothing more is demanded afterwards.  (The reader used to stop at the block array's end; found by cutting another
    writer's layout `9f … ff` at every byte.) -/
theorem outer_break_demanded (fuel : Nat) (st : RdSt) (hst : st.indef = true) (hout : st.outer = true) :
    (readBlock fuel st).run [breakByte] = .error .end_ ∧
    (readBlock fuel st).run [breakByte, breakByte] = .ok ((none, { st with indef := false, count := st.read, outer := false }), []) := by
  constructor
  · unfold readBlock
    simp only [hst, if_true]
    rw [peek_break]
    simp only [if_true]
    rw [Prog.run_bind_ok _ _ _ _ _ (readBreak_accepts [])]
    simp [endOfFile, hout, readBreak, readCborType, Prog.run_bind]
  · unfold readBlock
    simp only [hst, if_true]
    rw [peek_break]
    simp only [if_true]
    rw [Prog.run_bind_ok _ _ _ _ _ (readBreak_accepts [breakByte])]
    simp only [endOfFile, hout, if_true]
    rw [Prog.run_bind_ok _ _ _ _ _ (readBreak_accepts [])]
    rfl

/-- the exporter's own outputs: the block array `blocks… ff` written by the struct writers, cut anywhere -/
theorem truncated_output (blocks : List Val) (hb : ConformsList block blocks) (fuel : Nat)
    (hf : ∀ i ∈ toItems block blocks, steps i + cfuel i ≤ fuel) (c n : Nat)
    (hn : n ≤ ((blocks.map (writeBytes block)).flatten ++ [breakByte]).length) :
    readAll (readBlock fuel) (blocks.length + 1) ⟨true, 0, 0, false⟩ c (((blocks.map (writeBytes block)).flatten ++ [breakByte]).take n) =
      ((ends c (toItems block blocks) blocks).filter (fun x => decide (x.2 ≤ c + n)),
       if n = ((blocks.map (writeBytes block)).flatten ++ [breakByte]).length then none else some .end_) := by
  have e : ∀ bl : List Val, (bl.map (writeBytes block)).flatten = Item.encList (toItems block bl) := by
    intro bl
    induction bl with
    | nil => rfl
    | cons v vs ih => simp only [List.map_cons, List.flatten_cons, toItems, Item.encList, writeBytes, ih]
  rw [e blocks] at hn ⊢
  exact truncated_blocks fuel (toItems block blocks) blocks (denotes_toItems blocks hb) hf (blocks.length + 1)
    (by rw [toItems_length]; omega) ⟨true, 0, 0, false⟩ rfl rfl c n hn

/-! Non-vacuity / concrete instances: exactly one full window, then the end. -/
example : Inv (DecSt.ofBytes (List.replicate 65535 1)) := inv_ofBytes _


/-- `runWS` is `runW` with the state kept across a throw -/
theorem runWS_runW (p : Prog α) (s : DecSt) :
    runW p s = match runWS p s with
      | (.ok a, s') => .ok (a, s')
      | (.error e, _) => .error e := by
  induction p generalizing s with
  | pure a => rfl
  | throw e => rfl
  | next k ih =>
    simp only [runW, runWS]
    cases h : readToBuffer s with
    | error e => rfl
    | ok s' =>
      simp only
      cases hw : s'.win with
      | nil => rfl
      | cons b w => simp only; exact ih b _
  | peek k ih =>
    simp only [runW, runWS]
    cases h : readToBuffer s with
    | error e => rfl
    | ok s' =>
      simp only
      cases hw : s'.win with
      | nil => rfl
      | cons b w => simp only; exact ih b _

/-- **End of input is sticky.**  When `read_to_buffer()` has thrown the end-of-input error, the state it leaves behind makes it
    throw again: a decoder that has reported the end never fabricates a value on a later call. -/
theorem end_is_sticky (s : DecSt) (h : readToBuffer s = .error .end_) : readToBuffer (afterRefill s) = .error .end_ := by
  unfold readToBuffer at h
  unfold afterRefill
  by_cases hw : s.win = []
  · simp only [hw, if_true] at h ⊢
    by_cases he : s.inp.eof = true
    · simp only [he, if_true]
      unfold readToBuffer; simp only [hw, if_true, he]
    · simp only [he, Bool.false_eq_true, if_false] at h ⊢
      -- the refill delivered nothing
      have hb : (s.inp.read bufferSize).1 = [] := by
        by_cases hx : (s.inp.read bufferSize).1 = []
        · exact hx
        · simp only [hx, if_false] at h; cases h
      unfold readToBuffer
      simp only [hb, if_true]
      -- after it the stream is at eof, or still delivers nothing
      unfold IStream.read at hb ⊢
      by_cases hg : s.inp.good = true
      · simp only [hg, Bool.not_true, Bool.false_eq_true, if_false] at hb ⊢
        by_cases hl : s.inp.data.length < bufferSize
        · simp only [hl, if_true]
        · simp only [hl, if_false] at hb
          have : 0 < bufferSize := bufferSize_pos
          have hlen : (s.inp.data.take bufferSize).length = 0 := by rw [hb]; rfl
          rw [List.length_take] at hlen
          omega
      · have hg' : s.inp.good = false := by simpa using hg
        simp only [hg', Bool.not_false, if_true]
        by_cases he2 : s.inp.eof = true
        · simp [he2]
        · simp only [he2, Bool.false_eq_true, if_false]
  · simp only [hw, if_false] at h; cases h

/-- consequently every further read or peek on that decoder object reports the end again -/
theorem after_end_every_call_ends (s : DecSt) (h : readToBuffer s = .error .end_) (k : Nat → Prog α) :
    (runWS (.next k) (afterRefill s)).1 = .error .end_ ∧ (runWS (.peek k) (afterRefill s)).1 = .error .end_ := by
  have := end_is_sticky s h
  simp only [runWS, this, and_self]


/-! ### the reader goes on after the end was reported -/

/-- a program whose first action is a read of the input (`read_to_buffer()` + `m_p[0]`) -/
def StartsWithRead : Prog α → Prop
  | .next _ => True
  | .peek _ => True
  | _ => False

theorem startsWithRead_bind {p : Prog α} (f : α → Prog β) (h : StartsWithRead p) : StartsWithRead (p >>= f) := by
  show StartsWithRead (Prog.bind p f)
  cases p with
  | pure a => cases h
  | throw e => cases h
  | next k => trivial
  | peek k => trivial

theorem ends_of_startsWithRead {p : Prog α} (hp : StartsWithRead p) (s : DecSt) (h : readToBuffer s = .error .end_) :
    (runWS p (afterRefill s)).1 = .error .end_ := by
  cases p with
  | pure a => cases hp
  | throw e => cases hp
  | next k => exact (after_end_every_call_ends s h k).1
  | peek k => exact (after_end_every_call_ends s h k).2

open CdnsVerif.Model.File CdnsVerif.Model.Schema CdnsVerif.Model.Structs in
/-- **`read_block()` called again after the end of the input was reported reports it again.**  Whatever the reader state – an
    indefinite block array, or a definite one of which blocks are still outstanding – the call neither hands out a block nor
    claims the regular end of the file (`eof`), and (the reader state being advanced only after a successful read) this
    holds for every further call as well. -/
theorem read_block_again_ends (fuel : Nat) (st : RdSt) (s : DecSt) (h : readToBuffer s = .error .end_)
    (hmore : st.indef = true ∨ st.read ≠ st.count) :
    (runWS (readBlock (fuel + 1) st) (afterRefill s)).1 = .error .end_ := by
  apply ends_of_startsWithRead _ s h
  unfold readBlock
  by_cases hi : st.indef = true
  · simp only [hi, if_true]
    exact startsWithRead_bind _ trivial
  · have hne : st.read ≠ st.count := by
      rcases hmore with h1 | h1
      · exact absurd h1 hi
      · exact h1
    simp only [hi, Bool.false_eq_true, if_false, hne]
    apply startsWithRead_bind
    show StartsWithRead (readVal (fuel + 1) block)
    unfold block readVal
    apply startsWithRead_bind
    show StartsWithRead (readStart tMap)
    unfold readStart
    exact startsWithRead_bind _ trivial


end CdnsVerif.Props.C05
