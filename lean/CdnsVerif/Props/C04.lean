/-
  C04 — storage hints are honoured.

  Proved here: the hint-mask bits of the code are those of RFC 8618, pairwise distinct
  (`hint_bits_match_rfc`, `hint_bits_are_distinct`): one bit governs one member, and it is the
  bit the RFC assigns; address events / malformed messages are stored only when enabled and a
  record of which nothing is stored does not change the block (`Model.Exporter`:
  `disabled_aec_not_stored`, `disabled_mm_not_stored`, `unstored_qr_not_stored`).
  Proved here over the block-building model `Model.Builder` (a transliteration of
  `add_question_response_record(GenericQueryResponse)`, `add_address_event_count`, `add_malformed_message`,
  `add_generic_qlist/rrlist` and the nine find-or-append table functions), for EVERY record sequence and
  EVERY hint masks:
  * `hints_honoured`         every member of every stored query/response, of every signature-table entry and
                             of every RR-table entry is present only if its hint bit is set; address events are
                             stored only when enabled; malformed messages and their data table only when enabled;
  * `output_members_honour_hints`  the same stated on the raw value that is written (keys of the Q/R map);
  * `tables_reachable`       every entry of every block table is referred to by a stored record or by another
                             table entry – a value is put into a table only on behalf of a member that is stored
                             (so the value of a field whose hint is cleared is in no table unless an enabled field
                             also refers to it);
  * `tables_closed`          every index stored anywhere addresses an existing table entry.
  The builder model is tied to the code byte for byte: the block it builds and the model writer serialises equals
  the block the library wrote for the same records and hints (driver `bld`; up to the order of the address-event
  array, which the library takes from a hash map).  The preamble stating exactly the applied hints is C09's round
  trip plus the in-place-edit sessions of the check.
-/
import CdnsVerif.Proofs.Keys
import CdnsVerif.Props.C12
import CdnsVerif.Proofs.BuilderReach

namespace CdnsVerif.Props.C04
open CdnsVerif.Proofs.Keys CdnsVerif.Model.Exporter

theorem hint_bits_match_rfc : keysAgree = true := generated_keys_eq_rfc
theorem hint_bits_are_distinct :
    (maskOk "QueryResponseHintsMask" && maskOk "QueryResponseSignatureHintsMask" && maskOk "RrHintsMask"
      && maskOk "OtherDataHintsMask") = true := hint_bits_distinct

variable (hdr : Nat → Nat) (bsz : Block → Nat)

/-- an address event buffered while address events are disabled leaves every array of the
    buffered block and every written block untouched -/
theorem disabled_aec_not_stored (s : ExpSt) (key : Nat) (st : Option Nat) (h : (pset s s.cur.pi).aecOn = false) :
    (step hdr bsz s (.aec key st)).1.cur.aecs = s.cur.aecs ∧ C12.blocksOf (step hdr bsz s (.aec key st)).1 = C12.blocksOf s := by
  simp [step, h, (C12.setStats_fields _ st).2.2.1, C12.blocksOf_def]

theorem disabled_mm_not_stored (s : ExpSt) (id : Nat) (stored : Bool) (st : Option Nat) (h : (pset s s.cur.pi).mmOn = false) :
    (step hdr bsz s (.mm id stored st)).1.cur.mms = s.cur.mms ∧ C12.blocksOf (step hdr bsz s (.mm id stored st)).1 = C12.blocksOf s := by
  simp [step, h, (C12.setStats_fields _ st).2.1, C12.blocksOf_def]

/-- a query/response of which nothing is stored never appears among the stored records -/
theorem unstored_qr_not_stored (s : ExpSt) (id : Nat) (st : Option Nat) :
    C12.allQrs (step hdr bsz s (.qr id false st)).1 = C12.allQrs s := by
  rw [C12.step_allQrs]; simp [C12.acceptedQr]

/-! ### the block-building model -/

open CdnsVerif.Model.Builder CdnsVerif.Generated in
/-- Everything stored in a block built under hints `h` honours `h`. -/
theorem hints_honoured (h : Hints) (recs : List Rec) : Honours h (build h recs) := honours_build h recs

open CdnsVerif.Model.Builder in
/-- No table entry without a referrer: nothing is put into a table on behalf of a member that is not stored. -/
theorem tables_reachable (h : Hints) (recs : List Rec) : Reach (build h recs) := (inv_build h recs).2

open CdnsVerif.Model.Builder in
/-- Every stored index addresses an existing table entry. -/
theorem tables_closed (h : Hints) (recs : List Rec) : Closed (build h recs) := (inv_build h recs).1

open CdnsVerif.Model.Builder CdnsVerif.Generated in
/-- address events are not stored (and nothing is added to the address table for them) while their hint is off -/
theorem disabled_aec_untouched (h : Hints) (g : GAEC) (st : Option Stats) (b : Blk)
    (hoff : on h.odh OtherDataHintsMask.address_event_counts = false) : addAEC h g st b = setStats b st := by
  simp [addAEC, hoff]

open CdnsVerif.Model.Builder CdnsVerif.Generated in
theorem disabled_mm_untouched (h : Hints) (g : GMM) (st : Option Stats) (b : Blk)
    (hoff : on h.odh OtherDataHintsMask.malformed_messages = false) : addMM h g st b = setStats b st := by
  simp [addMM, hoff]

open CdnsVerif.Model.Builder CdnsVerif.Model.Schema CdnsVerif.Generated in
/-- the hint mask that governs a key of the Q/R map (keys 0–10; the extended members 11/12 are governed section by section) -/
def qrMask (k : Int) : Option Int :=
  if k = QueryResponseMapIndex.time_offset then some QueryResponseHintsMask.time_offset
  else if k = QueryResponseMapIndex.client_address_index then some QueryResponseHintsMask.client_address_index
  else if k = QueryResponseMapIndex.client_port then some QueryResponseHintsMask.client_port
  else if k = QueryResponseMapIndex.transaction_id then some QueryResponseHintsMask.transaction_id
  else if k = QueryResponseMapIndex.qr_signature_index then some QueryResponseHintsMask.qr_signature_index
  else if k = QueryResponseMapIndex.client_hoplimit then some QueryResponseHintsMask.client_hoplimit
  else if k = QueryResponseMapIndex.response_delay then some QueryResponseHintsMask.response_delay
  else if k = QueryResponseMapIndex.query_name_index then some QueryResponseHintsMask.query_name_index
  else if k = QueryResponseMapIndex.query_size then some QueryResponseHintsMask.query_size
  else if k = QueryResponseMapIndex.response_size then some QueryResponseHintsMask.response_size
  else if k = QueryResponseMapIndex.response_processing_data then some QueryResponseHintsMask.response_processing_data
  else none

open CdnsVerif.Model.Builder CdnsVerif.Model.Schema CdnsVerif.Model.Timestamp CdnsVerif.Generated in
/-- On the value that is written: a key of the Q/R map is present only if its hint bit is set. -/
theorem output_members_honour_hints (h : Hints) (q : QRec) (hq : QHonours h q) (earliest : Ts) (tps : Nat) (ms : List (Int × Val))
    (hv : QRec.toVal earliest tps q = .record ms) (k : Int) (v : Val) (hk : (k, v) ∈ ms) (m : Int) (hm : qrMask k = some m) :
    on h.qrh m = true := by
  obtain ⟨h0, h1, h2, h3, h4, h5, h6, h7, h8, h9, h10, _, _⟩ := hq
  simp only [QRec.toVal, Val.record.injEq] at hv
  subst hv
  have memN : ∀ (key : Int) (o : Option Nat), (k, v) ∈ optN key o → k = key ∧ o.isSome = true := by
    intro key o hmem; cases o <;> simp [optN] at hmem ⊢; exact hmem.1
  have memI : ∀ (key : Int) (o : Option Int), (k, v) ∈ optI key o → k = key ∧ o.isSome = true := by
    intro key o hmem; cases o <;> simp [optI] at hmem ⊢; exact hmem.1
  have memS : ∀ (key : Int) (o : Option Spec.Cbor.Bytes), (k, v) ∈ optS key o → k = key := by
    intro key o hmem; cases o <;> simp [optS] at hmem ⊢; exact hmem.1
  have memV : ∀ (key : Int) (o : Option Val), (k, v) ∈ optV key o → k = key ∧ o.isSome = true := by
    intro key o hmem; cases o <;> simp [optV] at hmem ⊢; exact hmem.1
  simp only [List.mem_append] at hk
  rcases hk with (((((((((((((((hk | hk) | hk) | hk) | hk) | hk) | hk) | hk) | hk) | hk) | hk) | hk) | hk) | hk) | hk) | hk)
  · obtain ⟨rfl, hs⟩ := memN _ _ hk
    have e : qrMask QueryResponseMapIndex.time_offset = some QueryResponseHintsMask.time_offset := by decide
    rw [e] at hm; cases hm
    apply h0
    cases hqt : q.ts <;> simp [hqt] at hs ⊢
  · obtain ⟨rfl, hs⟩ := memN _ _ hk
    have e : qrMask QueryResponseMapIndex.client_address_index = some QueryResponseHintsMask.client_address_index := by decide
    rw [e] at hm; cases hm; exact h1 hs
  · obtain ⟨rfl, hs⟩ := memN _ _ hk
    have e : qrMask QueryResponseMapIndex.client_port = some QueryResponseHintsMask.client_port := by decide
    rw [e] at hm; cases hm; exact h2 hs
  · obtain ⟨rfl, hs⟩ := memN _ _ hk
    have e : qrMask QueryResponseMapIndex.transaction_id = some QueryResponseHintsMask.transaction_id := by decide
    rw [e] at hm; cases hm; exact h3 hs
  · obtain ⟨rfl, hs⟩ := memN _ _ hk
    have e : qrMask QueryResponseMapIndex.qr_signature_index = some QueryResponseHintsMask.qr_signature_index := by decide
    rw [e] at hm; cases hm; exact h4 hs
  · obtain ⟨rfl, hs⟩ := memN _ _ hk
    have e : qrMask QueryResponseMapIndex.client_hoplimit = some QueryResponseHintsMask.client_hoplimit := by decide
    rw [e] at hm; cases hm; exact h5 hs
  · obtain ⟨rfl, hs⟩ := memI _ _ hk
    have e : qrMask QueryResponseMapIndex.response_delay = some QueryResponseHintsMask.response_delay := by decide
    rw [e] at hm; cases hm; exact h6 hs
  · obtain ⟨rfl, hs⟩ := memN _ _ hk
    have e : qrMask QueryResponseMapIndex.query_name_index = some QueryResponseHintsMask.query_name_index := by decide
    rw [e] at hm; cases hm; exact h7 hs
  · obtain ⟨rfl, hs⟩ := memN _ _ hk
    have e : qrMask QueryResponseMapIndex.query_size = some QueryResponseHintsMask.query_size := by decide
    rw [e] at hm; cases hm; exact h8 hs
  · obtain ⟨rfl, hs⟩ := memN _ _ hk
    have e : qrMask QueryResponseMapIndex.response_size = some QueryResponseHintsMask.response_size := by decide
    rw [e] at hm; cases hm; exact h9 hs
  · obtain ⟨rfl, hs⟩ := memV _ _ hk
    have e : qrMask QueryResponseMapIndex.response_processing_data = some QueryResponseHintsMask.response_processing_data := by decide
    rw [e] at hm; cases hm
    apply h10
    cases hr : q.rpd <;> simp [hr] at hs ⊢
  · obtain ⟨rfl, _⟩ := memV _ _ hk
    have e : qrMask QueryResponseMapIndex.query_extended = none := by decide
    rw [e] at hm; cases hm
  · obtain ⟨rfl, _⟩ := memV _ _ hk
    have e : qrMask QueryResponseMapIndex.response_extended = none := by decide
    rw [e] at hm; cases hm
  · have := memS _ _ hk; subst this
    have e : qrMask QueryResponseMapIndex.asn = none := by decide
    rw [e] at hm; cases hm
  · have := memS _ _ hk; subst this
    have e : qrMask QueryResponseMapIndex.country_code = none := by decide
    rw [e] at hm; cases hm
  · obtain ⟨rfl, _⟩ := memI _ _ hk
    have e : qrMask QueryResponseMapIndex.round_trip_time = none := by decide
    rw [e] at hm; cases hm

/-! Non-vacuity: with only the client-port hint set, a fully populated record stores the port and nothing else, and no
    table gets an entry; with the signature hints set, the signature and the tables it needs appear. -/
open CdnsVerif.Model.Builder in
def sampleG : GQR := {
  ts := some ⟨10, 5⟩
  clientIp := some [10, 0, 0, 1]
  clientPort := some 53
  serverIp := some [10, 0, 0, 2]
  classtype := some (1, 1)
  queryName := some [3, 119, 119, 119, 0]
  opcode := some 0
  queryAnswers := some [⟨[1, 97, 0], 1, 1, some 300, some [1, 2, 3, 4]⟩] }

open CdnsVerif.Model.Builder in
example : (build ⟨4, 0, 0, 0, 1000⟩ [.qr sampleG none]).qrs = [{ cport := some 53 }] ∧
    (build ⟨4, 0, 0, 0, 1000⟩ [.qr sampleG none]).ip = [] ∧ (build ⟨4, 0, 0, 0, 1000⟩ [.qr sampleG none]).nr = [] := by decide

open CdnsVerif.Model.Builder in
example : (build ⟨16 + 4096, 1 + 256, 1, 0, 1000⟩ [.qr sampleG none]).sig = [{ sai := some 0, cti := some 0 }] ∧
    (build ⟨16 + 4096, 1 + 256, 1, 0, 1000⟩ [.qr sampleG none]).rr = [{ name := 0, ct := 0, ttl := some 300, rdata := none }] := by decide

end CdnsVerif.Props.C04
