/-
  C04 — storage hints are honoured.

  Proved here: the hint-mask bits of the code are those of RFC 8618, pairwise distinct
  (`hint_bits_match_rfc`, `hint_bits_are_distinct`): one bit governs one member, and it is the
  bit the RFC assigns; address events / malformed messages are stored only when enabled and a
  record of which nothing is stored does not change the block (`Model.Exporter`:
  `disabled_aec_not_stored`, `disabled_mm_not_stored`, `unstored_qr_not_stored`).
  The per-field projection and table reachability are decided on the implementation by the
  independent reader (`Spec.Cdns.interpret`: members present, `unreachable = 0`) against the
  RFC projection for single-bit-cleared / single-bit-alone / random masks.
-/
import CdnsVerif.Proofs.Keys
import CdnsVerif.Props.C12

namespace CdnsVerif.Props.C04
open CdnsVerif.Proofs.Keys CdnsVerif.Model.Exporter

theorem hint_bits_match_rfc : keysAgree = true := generated_keys_eq_rfc
theorem hint_bits_are_distinct :
    (maskOk "QueryResponseHintsMask" && maskOk "QueryResponseSignatureHintsMask" && maskOk "RrHintsMask"
      && maskOk "OtherDataHintsMask") = true := hint_bits_distinct

variable (hdr : Nat → Nat) (bsz : Block → Nat)

/-- an address event buffered while address events are disabled leaves every array of the
    buffered block and every written block untouched -/
theorem disabled_aec_not_stored (s : ExpSt) (key : Nat) (st : Option Nat) (h : (pset s s.cur.pi).aecOn = false) :
    (step hdr bsz s (.aec key st)).1.cur.aecs = s.cur.aecs ∧ C12.blocksOf (step hdr bsz s (.aec key st)).1 = C12.blocksOf s := by
  simp [step, h, (C12.setStats_fields _ st).2.2.1, C12.blocksOf_def]

theorem disabled_mm_not_stored (s : ExpSt) (id : Nat) (stored : Bool) (st : Option Nat) (h : (pset s s.cur.pi).mmOn = false) :
    (step hdr bsz s (.mm id stored st)).1.cur.mms = s.cur.mms ∧ C12.blocksOf (step hdr bsz s (.mm id stored st)).1 = C12.blocksOf s := by
  simp [step, h, (C12.setStats_fields _ st).2.1, C12.blocksOf_def]

/-- a query/response of which nothing is stored never appears among the stored records -/
theorem unstored_qr_not_stored (s : ExpSt) (id : Nat) (st : Option Nat) :
    C12.allQrs (step hdr bsz s (.qr id false st)).1 = C12.allQrs s := by
  rw [C12.step_allQrs]; simp [C12.acceptedQr]

end CdnsVerif.Props.C04
