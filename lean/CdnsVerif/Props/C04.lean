/-
  C04 — storage hints are honoured.

  Proved here: the hint-mask bits of the code are those of RFC 8618, pairwise distinct
  (`hint_bits_match_rfc`, `hint_bits_are_distinct`): one bit governs one member, and it is the
  bit the RFC assigns; address events / malformed messages are stored only when enabled and a
  record of which nothing is stored does not change the block (`Model.Exporter`:
  `disabled_aec_not_stored`, `disabled_mm_not_stored`, `unstored_qr_not_stored`).
  Proved here over the block-building model `Model.Builder` (a transliteration of
  `add_question_response_record(GenericQueryResponse)`, `add_address_event_count`, `add_malformed_message`,
  `add_generic_qlist/rrlist` and the nine find-or-append table functions), for EVERY record sequence and
  EVERY hint masks:
  * `hints_honoured`         every member of every stored query/response, of every signature-table entry and
                             of every RR-table entry is present only if its hint bit is set; address events are
                             stored only when enabled; malformed messages and their data table only when enabled;
  * `output_members_honour_hints`  the same stated on the raw value that is written (keys of the Q/R map);
  * `tables_reachable`       every entry of every block table is referred to by a stored record or by another
                             table entry – a value is put into a table only on behalf of a member that is stored
                             (so the value of a field whose hint is cleared is in no table unless an enabled field
                             also refers to it);
  * `tables_closed`          every index stored anywhere addresses an existing table entry.
  The builder model is tied to the code byte for byte: the block it builds and the model writer serialises equals
  the block the library wrote for the same records and hints (driver `bld`; up to the order of the address-event
  array, which the library takes from a hash map).  The preamble stating exactly the applied hints is C09's round
  trip plus the in-place-edit sessions of the check.
-/
import CdnsVerif.Proofs.Keys
import CdnsVerif.Props.C12
import CdnsVerif.Proofs.BuilderReach
import CdnsVerif.Model.Resolve
import CdnsVerif.Generated.Hints

namespace CdnsVerif.Props.C04
open CdnsVerif.Proofs.Keys CdnsVerif.Model.Exporter

theorem hint_bits_match_rfc : keysAgree = true := generated_keys_eq_rfc
theorem hint_bits_are_distinct :
    (maskOk "QueryResponseHintsMask" && maskOk "QueryResponseSignatureHintsMask" && maskOk "RrHintsMask"
      && maskOk "OtherDataHintsMask") = true := hint_bits_distinct

variable (hdr : Nat → Nat) (bsz : Block → Nat)

/-- an address event buffered while address events are disabled leaves every array of the
    buffered block and every written block untouched -/
theorem disabled_aec_not_stored (s : ExpSt) (key : Nat) (st : Option Nat) (h : (pset s s.cur.pi).aecOn = false) :
    (step hdr bsz s (.aec key st)).1.cur.aecs = s.cur.aecs ∧ C12.blocksOf (step hdr bsz s (.aec key st)).1 = C12.blocksOf s := by
  simp [step, h, (C12.setStats_fields _ st).2.2.1, C12.blocksOf_def]

theorem disabled_mm_not_stored (s : ExpSt) (id : Nat) (stored : Bool) (st : Option Nat) (h : (pset s s.cur.pi).mmOn = false) :
    (step hdr bsz s (.mm id stored st)).1.cur.mms = s.cur.mms ∧ C12.blocksOf (step hdr bsz s (.mm id stored st)).1 = C12.blocksOf s := by
  simp [step, h, (C12.setStats_fields _ st).2.1, C12.blocksOf_def]

/-- a query/response of which nothing is stored never appears among the stored records -/
theorem unstored_qr_not_stored (s : ExpSt) (id : Nat) (st : Option Nat) :
    C12.allQrs (step hdr bsz s (.qr id false st)).1 = C12.allQrs s := by
  rw [C12.step_allQrs]; simp [C12.acceptedQr]

/-! ### the block-building model -/

open CdnsVerif.Model.Builder CdnsVerif.Generated in
/-- Everything stored in a block built under hints `h` honours `h`. -/
theorem hints_honoured (h : Hints) (recs : List Rec) : Honours h (build h recs) := honours_build h recs

open CdnsVerif.Model.Builder in
/-- No table entry without a referrer: nothing is put into a table on behalf of a member that is not stored. -/
theorem tables_reachable (h : Hints) (recs : List Rec) : Reach (build h recs) := (inv_build h recs).2

open CdnsVerif.Model.Builder in
/-- Every stored index addresses an existing table entry. -/
theorem tables_closed (h : Hints) (recs : List Rec) : Closed (build h recs) := (inv_build h recs).1

open CdnsVerif.Model.Builder CdnsVerif.Generated in
/-- address events are not stored (and nothing is added to the address table for them) while their hint is off -/
theorem disabled_aec_untouched (h : Hints) (g : GAEC) (st : Option Stats) (b : Blk)
    (hoff : on h.odh OtherDataHintsMask.address_event_counts = false) : addAEC h g st b = setStats b st := by
  simp [addAEC, hoff]

open CdnsVerif.Model.Builder CdnsVerif.Generated in
theorem disabled_mm_untouched (h : Hints) (g : GMM) (st : Option Stats) (b : Blk)
    (hoff : on h.odh OtherDataHintsMask.malformed_messages = false) : addMM h g st b = setStats b st := by
  simp [addMM, hoff]

open CdnsVerif.Model.Builder CdnsVerif.Model.Schema CdnsVerif.Generated in
/-- the hint mask that governs a key of the Q/R map (keys 0–10; the extended members 11/12 are governed section by section) -/
def qrMask (k : Int) : Option Int :=
  if k = QueryResponseMapIndex.time_offset then some QueryResponseHintsMask.time_offset
  else if k = QueryResponseMapIndex.client_address_index then some QueryResponseHintsMask.client_address_index
  else if k = QueryResponseMapIndex.client_port then some QueryResponseHintsMask.client_port
  else if k = QueryResponseMapIndex.transaction_id then some QueryResponseHintsMask.transaction_id
  else if k = QueryResponseMapIndex.qr_signature_index then some QueryResponseHintsMask.qr_signature_index
  else if k = QueryResponseMapIndex.client_hoplimit then some QueryResponseHintsMask.client_hoplimit
  else if k = QueryResponseMapIndex.response_delay then some QueryResponseHintsMask.response_delay
  else if k = QueryResponseMapIndex.query_name_index then some QueryResponseHintsMask.query_name_index
  else if k = QueryResponseMapIndex.query_size then some QueryResponseHintsMask.query_size
  else if k = QueryResponseMapIndex.response_size then some QueryResponseHintsMask.response_size
  else if k = QueryResponseMapIndex.response_processing_data then some QueryResponseHintsMask.response_processing_data
  else none

open CdnsVerif.Model.Builder CdnsVerif.Model.Schema CdnsVerif.Model.Timestamp CdnsVerif.Generated in
/-- On the value that is written: a key of the Q/R map is present only if its hint bit is set. -/
theorem output_members_honour_hints (h : Hints) (q : QRec) (hq : QHonours h q) (earliest : Ts) (tps : Nat) (ms : List (Int × Val))
    (hv : QRec.toVal earliest tps q = .record ms) (k : Int) (v : Val) (hk : (k, v) ∈ ms) (m : Int) (hm : qrMask k = some m) :
    on h.qrh m = true := by
  obtain ⟨h0, h1, h2, h3, h4, h5, h6, h7, h8, h9, h10, _, _⟩ := hq
  simp only [QRec.toVal, Val.record.injEq] at hv
  subst hv
  have memN : ∀ (key : Int) (o : Option Nat), (k, v) ∈ optN key o → k = key ∧ o.isSome = true := by
    intro key o hmem; cases o <;> simp [optN] at hmem ⊢; exact hmem.1
  have memI : ∀ (key : Int) (o : Option Int), (k, v) ∈ optI key o → k = key ∧ o.isSome = true := by
    intro key o hmem; cases o <;> simp [optI] at hmem ⊢; exact hmem.1
  have memS : ∀ (key : Int) (o : Option Spec.Cbor.Bytes), (k, v) ∈ optS key o → k = key := by
    intro key o hmem; cases o <;> simp [optS] at hmem ⊢; exact hmem.1
  have memV : ∀ (key : Int) (o : Option Val), (k, v) ∈ optV key o → k = key ∧ o.isSome = true := by
    intro key o hmem; cases o <;> simp [optV] at hmem ⊢; exact hmem.1
  simp only [List.mem_append] at hk
  rcases hk with (((((((((((((((hk | hk) | hk) | hk) | hk) | hk) | hk) | hk) | hk) | hk) | hk) | hk) | hk) | hk) | hk) | hk)
  · obtain ⟨rfl, hs⟩ := memN _ _ hk
    have e : qrMask QueryResponseMapIndex.time_offset = some QueryResponseHintsMask.time_offset := by decide
    rw [e] at hm; cases hm
    apply h0
    cases hqt : q.ts <;> simp [hqt] at hs ⊢
  · obtain ⟨rfl, hs⟩ := memN _ _ hk
    have e : qrMask QueryResponseMapIndex.client_address_index = some QueryResponseHintsMask.client_address_index := by decide
    rw [e] at hm; cases hm; exact h1 hs
  · obtain ⟨rfl, hs⟩ := memN _ _ hk
    have e : qrMask QueryResponseMapIndex.client_port = some QueryResponseHintsMask.client_port := by decide
    rw [e] at hm; cases hm; exact h2 hs
  · obtain ⟨rfl, hs⟩ := memN _ _ hk
    have e : qrMask QueryResponseMapIndex.transaction_id = some QueryResponseHintsMask.transaction_id := by decide
    rw [e] at hm; cases hm; exact h3 hs
  · obtain ⟨rfl, hs⟩ := memN _ _ hk
    have e : qrMask QueryResponseMapIndex.qr_signature_index = some QueryResponseHintsMask.qr_signature_index := by decide
    rw [e] at hm; cases hm; exact h4 hs
  · obtain ⟨rfl, hs⟩ := memN _ _ hk
    have e : qrMask QueryResponseMapIndex.client_hoplimit = some QueryResponseHintsMask.client_hoplimit := by decide
    rw [e] at hm; cases hm; exact h5 hs
  · obtain ⟨rfl, hs⟩ := memI _ _ hk
    have e : qrMask QueryResponseMapIndex.response_delay = some QueryResponseHintsMask.response_delay := by decide
    rw [e] at hm; cases hm; exact h6 hs
  · obtain ⟨rfl, hs⟩ := memN _ _ hk
    have e : qrMask QueryResponseMapIndex.query_name_index = some QueryResponseHintsMask.query_name_index := by decide
    rw [e] at hm; cases hm; exact h7 hs
  · obtain ⟨rfl, hs⟩ := memN _ _ hk
    have e : qrMask QueryResponseMapIndex.query_size = some QueryResponseHintsMask.query_size := by decide
    rw [e] at hm; cases hm; exact h8 hs
  · obtain ⟨rfl, hs⟩ := memN _ _ hk
    have e : qrMask QueryResponseMapIndex.response_size = some QueryResponseHintsMask.response_size := by decide
    rw [e] at hm; cases hm; exact h9 hs
  · obtain ⟨rfl, hs⟩ := memV _ _ hk
    have e : qrMask QueryResponseMapIndex.response_processing_data = some QueryResponseHintsMask.response_processing_data := by decide
    rw [e] at hm; cases hm
    apply h10
    cases hr : q.rpd <;> simp [hr] at hs ⊢
  · obtain ⟨rfl, _⟩ := memV _ _ hk
    have e : qrMask QueryResponseMapIndex.query_extended = none := by decide
    rw [e] at hm; cases hm
  · obtain ⟨rfl, _⟩ := memV _ _ hk
    have e : qrMask QueryResponseMapIndex.response_extended = none := by decide
    rw [e] at hm; cases hm
  · have := memS _ _ hk; subst this
    have e : qrMask QueryResponseMapIndex.asn = none := by decide
    rw [e] at hm; cases hm
  · have := memS _ _ hk; subst this
    have e : qrMask QueryResponseMapIndex.country_code = none := by decide
    rw [e] at hm; cases hm
  · obtain ⟨rfl, _⟩ := memI _ _ hk
    have e : qrMask QueryResponseMapIndex.round_trip_time = none := by decide
    rw [e] at hm; cases hm

/-! Non-vacuity: with only the client-port hint set, a fully populated record stores the port and nothing else, and no
    table gets an entry; with the signature hints set, the signature and the tables it needs appear. -/
open CdnsVerif.Model.Builder in
def sampleG : GQR := {
  ts := some ⟨10, 5⟩
  clientIp := some [10, 0, 0, 1]
  clientPort := some 53
  serverIp := some [10, 0, 0, 2]
  classtype := some (1, 1)
  queryName := some [3, 119, 119, 119, 0]
  opcode := some 0
  queryAnswers := some [⟨[1, 97, 0], 1, 1, some 300, some [1, 2, 3, 4]⟩] }

open CdnsVerif.Model.Builder in
example : (build ⟨4, 0, 0, 0, 1000⟩ [.qr sampleG none]).qrs = [{ cport := some 53 }] ∧
    (build ⟨4, 0, 0, 0, 1000⟩ [.qr sampleG none]).ip = [] ∧ (build ⟨4, 0, 0, 0, 1000⟩ [.qr sampleG none]).nr = [] := by decide

open CdnsVerif.Model.Builder in
example : (build ⟨16 + 4096, 1 + 256, 1, 0, 1000⟩ [.qr sampleG none]).sig = [{ sai := some 0, cti := some 0 }] ∧
    (build ⟨16 + 4096, 1 + 256, 1, 0, 1000⟩ [.qr sampleG none]).rr = [{ name := 0, ct := 0, ttl := some 300, rdata := none }] := by decide

/-! ### the RFC reading of the hints against what the library does (translator T4)

  `Generated.hintProbes` is regenerated on every run: a query/response with EVERY member set, a malformed message and an
  address event go through the working tree's own exporter and reader under 197 hint configurations (all bits, none, every
  single bit cleared, every single bit alone, 120 pseudo-random masks); the table says which members came back.  `project` – the function the
  record-level theorems of C01 and the oracle of this property use for "what the hints let through" – must say the same. -/

open CdnsVerif.Model.Builder CdnsVerif.Model.Timestamp in
def probeRR (n : Nat) : GRR := { name := [n], type := 1, cls := 1, ttl := some 300, rdata := some [1, 2, 3, 4] }

open CdnsVerif.Model.Builder CdnsVerif.Model.Timestamp in
/-- the record of tools/t4_probe.cpp: every member present -/
def probeQR : GQR :=
  { ts := some ⟨100, 5⟩, clientIp := some [10, 0, 0, 1], clientPort := some 1234, transactionId := some 77,
    serverIp := some [10, 0, 0, 2], serverPort := some 53, transportFlags := some 1, qrType := some 1, sigFlags := some 3,
    opcode := some 0, dnsFlags := some 5, queryRcode := some 0, classtype := some (1, 1), qdcount := some 1, ancount := some 2,
    nscount := some 3, arcount := some 4, ednsVersion := some 0, udpSize := some 1232, optRdata := some [111, 112, 116],
    responseRcode := some 3, hoplimit := some 64, responseDelay := some (-5), queryName := some [3, 119, 119, 119, 0],
    querySize := some 40, responseSize := some 80, bailiwick := some [3, 99, 111, 109, 0], processingFlags := some 1,
    queryQuestions := some [probeRR 1], queryAnswers := some [probeRR 2], queryAuthority := some [probeRR 3],
    queryAdditional := some [probeRR 4], responseQuestions := some [probeRR 5], responseAnswers := some [probeRR 6],
    responseAuthority := some [probeRR 7], responseAdditional := some [probeRR 8],
    asn := some [65], countryCode := some [67, 90], roundTripTime := some 9 }

open CdnsVerif.Model.Builder CdnsVerif.Model.Timestamp in
/-- which members the RFC reading of the hints lets through, in the order of the probe's report -/
def probePresence (qrh sigh rrh odh : Nat) : List Bool :=
  let h : Hints := ⟨qrh, sigh, rrh, odh, 1⟩
  let p := project h probeQR
  let mm : GMM := { ts := some ⟨101, 0⟩, clientIp := some [10, 0, 0, 3], payload := some [106] }
  let ae : GAEC := ⟨0, none, none, [10, 0, 0, 4]⟩
  let firstAnswer := p.queryAnswers.bind (·.head?)
  [p.ts.isSome, p.clientIp.isSome, p.clientPort.isSome, p.transactionId.isSome, p.serverIp.isSome, p.serverPort.isSome,
   p.transportFlags.isSome, p.qrType.isSome, p.sigFlags.isSome, p.opcode.isSome, p.dnsFlags.isSome, p.queryRcode.isSome,
   p.classtype.isSome, p.qdcount.isSome, p.ancount.isSome, p.nscount.isSome, p.arcount.isSome, p.ednsVersion.isSome,
   p.udpSize.isSome, p.optRdata.isSome, p.responseRcode.isSome, p.hoplimit.isSome, p.responseDelay.isSome, p.queryName.isSome,
   p.querySize.isSome, p.responseSize.isSome, p.bailiwick.isSome, p.processingFlags.isSome, p.queryQuestions.isSome,
   p.queryAnswers.isSome, p.queryAuthority.isSome, p.queryAdditional.isSome, p.responseQuestions.isSome, p.responseAnswers.isSome,
   p.responseAuthority.isSome, p.responseAdditional.isSome, p.asn.isSome, p.countryCode.isSome, p.roundTripTime.isSome,
   (firstAnswer.bind (·.ttl)).isSome, (firstAnswer.bind (·.rdata)).isSome,
   !(expectedMms h [.mm mm none]).isEmpty, decide (timesBuffered h [.aec ae none] ae > 0)]

/-- the presence report as a number: bit i = the i-th entry -/
def bitsOf : List Bool → Nat
  | [] => 0
  | b :: rest => (if b then 1 else 0) + 2 * bitsOf rest

/-- **What the hints let through in the code is what the RFC reading says** – for every probed configuration (all bits, none,
    each bit cleared, each bit alone, per mask, 120 pseudo-random masks) the members the working tree's exporter + reader return for a full record are
    exactly those `project` keeps; malformed messages and address events come back exactly when their bit is set. -/
theorem hint_probes_match_projection :
    (Generated.hintProbes.all fun r => bitsOf (probePresence r.1 r.2.1 r.2.2.1 r.2.2.2.1) == r.2.2.2.2) = true := by
  decide +kernel

/-- the probe table is not trivial: it holds the all-set, the all-clear and a configuration per bit -/
theorem hint_probes_cover : 197 ≤ Generated.hintProbes.length := by decide +kernel

end CdnsVerif.Props.C04
