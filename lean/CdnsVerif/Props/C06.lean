/-
  C06 — CBOR encoder emits the RFC 8949 shortest form, independent of buffer position.
  (Second conjunct of `enc_step_spec` is the encoder-level half of C10.)

  `EncOp.spec` is written from RFC 8949 (`Spec.Cbor.preferredHead`, fixed codes), never from
  the model's `writeInt`.  The theorems quantify over every reachable encoder state
  (any fill level `0..BUFFER_SIZE`, any chunks already written) and every call sequence.
-/
import CdnsVerif.Proofs.Encoder

namespace CdnsVerif.Props.C06
open CdnsVerif.Spec.Cbor CdnsVerif.Model.Encoder

/-- argument ranges of the C++ parameter types -/
def EncOp.InRange : EncOp → Prop
  | .arrayStart n | .mapStart n | .u64 n => n < 2 ^ 64
  | .bytestring bs | .textstring bs => bs.length < 2 ^ 64
  | .u8 n => n < 2 ^ 8
  | .u16 n => n < 2 ^ 16
  | .u32 n => n < 2 ^ 32
  | .i8 v => -(2 ^ 7) ≤ v ∧ v < 2 ^ 7
  | .i16 v => -(2 ^ 15) ≤ v ∧ v < 2 ^ 15
  | .i32 v => -(2 ^ 31) ≤ v ∧ v < 2 ^ 31
  | .i64 v => -(2 ^ 63) ≤ v ∧ v < 2 ^ 63
  | _ => True

/-- RFC 8949 preferred encoding of an integer of the data model -/
def specInt (v : Int) : Bytes :=
  if v < 0 then preferredHead mNint (-1 - v).toNat else preferredHead mUint v.toNat

/-- What RFC 8949 says each call must append. -/
def EncOp.spec : EncOp → Bytes
  | .arrayStart n => preferredHead mArr n
  | .indefArrayStart => indefHead mArr
  | .mapStart n => preferredHead mMap n
  | .indefMapStart => indefHead mMap
  | .bytestring bs => preferredHead mBstr bs.length ++ bs
  | .textstring bs => preferredHead mTstr bs.length ++ bs
  | .bytestringNull => []
  | .textstringNull => []
  | .brk => [breakByte]
  | .bool b => [if b then 0xf5 else 0xf4]
  | .u8 n | .u16 n | .u32 n | .u64 n => preferredHead mUint n
  | .i8 v | .i16 v | .i32 v | .i64 v => specInt v

private theorem headLen_lt (v b : Nat) (hb : v < b) (k : Nat)
    (h : (b = 2 ^ 8 ∧ k = 2) ∨ (b = 2 ^ 16 ∧ k = 3) ∨ (b = 2 ^ 32 ∧ k = 5) ∨ (b = 24 ∧ k = 1)) :
    headLen v ≤ k := by
  unfold headLen shortest
  rcases h with ⟨rfl, rfl⟩ | ⟨rfl, rfl⟩ | ⟨rfl, rfl⟩ | ⟨rfl, rfl⟩ <;>
    (repeat' split) <;> simp [Width.nbytes] <;> omega

/-- One call, from ANY reachable state: the accepted stream grows by exactly the RFC 8949
    preferred encoding, the return value is the number of bytes appended, the state stays
    well-formed. -/
theorem enc_step_spec (op : EncOp) (hop : EncOp.InRange op) (s : EncSt) (hs : s.Inv) :
    (step s op).1.stream = s.stream ++ EncOp.spec op ∧
    (step s op).2 = (EncOp.spec op).length ∧
    (step s op).1.Inv := by
  cases op with
  | arrayStart n =>
    simp only [step, EncOp.spec, tArray_eq]
    exact writeHead_spec s hs 9 n mArr (by decide) hop (by omega) (headLen_le_9 _)
  | mapStart n =>
    simp only [step, EncOp.spec, tMap_eq]
    exact writeHead_spec s hs 9 n mMap (by decide) hop (by omega) (headLen_le_9 _)
  | indefArrayStart =>
    simp only [step, EncOp.spec, tArray_eq, indefHead]
    exact writeByte_spec s hs mArr 31 (by decide) (by decide)
  | indefMapStart =>
    simp only [step, EncOp.spec, tMap_eq, indefHead]
    exact writeByte_spec s hs mMap 31 (by decide) (by decide)
  | brk =>
    simp only [step, EncOp.spec, tSimple_eq]
    exact writeByte_spec s hs mSimple 31 (by decide) (by decide)
  | bytestring bs =>
    simp only [step, EncOp.spec, tByteString_eq]
    exact writeStr_spec s hs mBstr (by decide) bs hop
  | textstring bs =>
    simp only [step, EncOp.spec, tTextString_eq]
    exact writeStr_spec s hs mTstr (by decide) bs hop
  | bytestringNull => simp [step, EncOp.spec, hs]
  | textstringNull => simp [step, EncOp.spec, hs]
  | bool b =>
    simp only [step, EncOp.spec, tSimple_eq]
    have h := writeHead_spec s hs 1 (if b then 21 else 20) mSimple (by decide)
      (by cases b <;> simp) (by omega) (by cases b <;> decide)
    cases b <;> simpa [preferredHead, shortest, head, Width.ai, Width.nbytes, be, mSimple] using h
  | u8 n =>
    simp only [step, EncOp.spec, tUnsigned_eq]
    exact writeHead_spec s hs 2 n mUint (by decide) (by simp [EncOp.InRange] at hop; omega) (by omega)
      (headLen_lt n _ hop 2 (by simp))
  | u16 n =>
    simp only [step, EncOp.spec, tUnsigned_eq]
    exact writeHead_spec s hs 3 n mUint (by decide) (by simp [EncOp.InRange] at hop; omega) (by omega)
      (headLen_lt n _ hop 3 (by simp))
  | u32 n =>
    simp only [step, EncOp.spec, tUnsigned_eq]
    exact writeHead_spec s hs 5 n mUint (by decide) (by simp [EncOp.InRange] at hop; omega) (by omega)
      (headLen_lt n _ hop 5 (by simp))
  | u64 n =>
    simp only [step, EncOp.spec, tUnsigned_eq]
    exact writeHead_spec s hs 9 n mUint (by decide) hop (by omega) (headLen_le_9 _)
  | i8 v =>
    simp only [step, EncOp.spec, specInt]
    simp only [EncOp.InRange] at hop
    refine writeSigned_spec s hs 2 v (by omega) (by omega) (by omega) ?_
    split
    · exact headLen_lt _ (2 ^ 8) (by omega) 2 (by simp)
    · exact headLen_lt _ (2 ^ 8) (by omega) 2 (by simp)
  | i16 v =>
    simp only [step, EncOp.spec, specInt]
    simp only [EncOp.InRange] at hop
    refine writeSigned_spec s hs 3 v (by omega) (by omega) (by omega) ?_
    split
    · exact headLen_lt _ (2 ^ 16) (by omega) 3 (by simp)
    · exact headLen_lt _ (2 ^ 16) (by omega) 3 (by simp)
  | i32 v =>
    simp only [step, EncOp.spec, specInt]
    simp only [EncOp.InRange] at hop
    refine writeSigned_spec s hs 5 v (by omega) (by omega) (by omega) ?_
    split
    · exact headLen_lt _ (2 ^ 32) (by omega) 5 (by simp)
    · exact headLen_lt _ (2 ^ 32) (by omega) 5 (by simp)
  | i64 v =>
    simp only [step, EncOp.spec, specInt]
    simp only [EncOp.InRange] at hop
    exact writeSigned_spec s hs 9 v (by omega) hop.1 hop.2 (headLen_le_9 _)

/-- Any call sequence from any reachable state: the stream is the concatenation of the
    preferred encodings in call order and the returns are their lengths. -/
theorem enc_run_spec (ops : List EncOp) (h : ∀ op ∈ ops, EncOp.InRange op) (s : EncSt) (hs : s.Inv) :
    (run s ops).1.stream = s.stream ++ (ops.map EncOp.spec).flatten ∧
    (run s ops).2 = ops.map (fun op => (EncOp.spec op).length) ∧
    (run s ops).1.Inv := by
  induction ops generalizing s with
  | nil => simp [run, hs]
  | cons op ops ih =>
    have h1 := enc_step_spec op (h op (by simp)) s hs
    have h2 := ih (fun o ho => h o (by simp [ho])) (step s op).1 h1.2.2
    simp only [run, List.map_cons, List.flatten_cons]
    refine ⟨?_, ?_, h2.2.2⟩
    · rw [h2.1, h1.1, List.append_assoc]
    · rw [h2.2.1, h1.2.1]

/-- What reaches the output once the encoder is flushed (destructor, `rotate_output`) is the
    whole accepted stream – nothing is left behind, nothing is written twice. -/
theorem finish_is_stream (s : EncSt) : finish s = s.stream := by
  have h := flush_stream s
  unfold finish
  unfold EncSt.stream at h
  rw [flush_buf, List.append_nil] at h
  exact h

/-- End to end: a fresh encoder, any calls, then destruction. -/
theorem encoder_output (ops : List EncOp) (h : ∀ op ∈ ops, EncOp.InRange op) :
    finish (run EncSt.init ops).1 = (ops.map EncOp.spec).flatten ∧
    (run EncSt.init ops).2 = ops.map (fun op => (EncOp.spec op).length) := by
  have := enc_run_spec ops h EncSt.init init_inv
  rw [finish_is_stream, this.1]
  exact ⟨by simp [EncSt.init, EncSt.stream], this.2.1⟩

/-- The preferred head is the shortest head that can carry the argument (RFC 8949 §4.2.1). -/
theorem preferred_is_shortest (m v : Nat) (w : Width) (hw : w.fits v) :
    (preferredHead m v).length ≤ (head m w v).length := preferred_shortest m v w hw

/-- the heads are 1/2/3/5/9 bytes chosen by value -/
theorem preferred_head_lengths (m v : Nat) :
    (preferredHead m v).length =
      if v < 24 then 1 else if v < 256 then 2 else if v < 65536 then 3 else if v < 4294967296 then 5 else 9 := by
  rw [preferredHead_length]; unfold headLen shortest
  (repeat' split) <;> simp_all [Width.nbytes]

/-- two's-complement correctness of negative integers: the argument of a major-1 head for `v`
    is `-1 - v`, as RFC 8949 §3.1 defines -/
theorem negative_argument (v : Int) (h : v < 0) : specInt v = preferredHead mNint (-1 - v).toNat := by
  simp [specInt, h]

/-! Non-vacuity: a non-trivial reachable state (2040 bytes buffered, 8 left) satisfies the
    hypotheses, and the step theorem applies to a 9-byte head that must straddle the flush. -/
example : (run EncSt.init [.bytestring (List.replicate 2037 0)]).1.Inv ∧
          EncOp.InRange (.u64 (2 ^ 64 - 1)) := by
  refine ⟨?_, by simp [EncOp.InRange]⟩
  apply (enc_run_spec _ _ _ init_inv).2.2
  intro op h
  rw [List.mem_singleton] at h
  subst h
  show (List.replicate 2037 0).length < 2 ^ 64
  rw [List.length_replicate]; omega

end CdnsVerif.Props.C06
