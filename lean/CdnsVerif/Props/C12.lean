/-
  C12 — buffering conserves records and flushes blocks exactly at the configured size.
  Model: `Model.Exporter` (CdnsExporter + the flush bookkeeping of CdnsBlock).
  All theorems hold for every parameter list, every call history and every size function.
-/
import CdnsVerif.Model.Exporter

namespace CdnsVerif.Props.C12
open CdnsVerif.Model.Exporter

variable (hdr : Nat → Nat) (bsz : Block → Nat)

/-! ### where the records are -/

def blocksOf (s : ExpSt) : List Block := (outputs s).flatMap (·.blocks)
/-- every query/response id held by the exporter: written blocks in output order, then the buffered block -/
def allQrs (s : ExpSt) : List Nat := (blocksOf s).flatMap (·.qrs) ++ s.cur.qrs
def allMms (s : ExpSt) : List Nat := (blocksOf s).flatMap (·.mms) ++ s.cur.mms
/-- total count of an address-event key over written blocks and the buffered block -/
def aecCount (k : Nat) (l : List (Nat × Nat)) : Nat := ((l.filter (·.1 == k)).map (·.2)).sum
def aecTotal (k : Nat) (s : ExpSt) : Nat := ((blocksOf s).map fun b => aecCount k b.aecs).sum + aecCount k s.cur.aecs

/-- the record (if any) a call hands over as storable, given the parameters in force -/
def acceptedQr (_s : ExpSt) : Op → List Nat
  | .qr id true _ => [id]
  | _ => []
def acceptedMm (s : ExpSt) : Op → List Nat
  | .mm id true _ => if (pset s s.cur.pi).mmOn then [id] else []
  | _ => []
def acceptedAec (k : Nat) (s : ExpSt) : Op → Nat
  | .aec key _ => if (pset s s.cur.pi).aecOn ∧ key = k then 1 else 0
  | _ => 0

def logQr (s : ExpSt) : List Op → List Nat
  | [] => []
  | op :: ops => acceptedQr s op ++ logQr (step hdr bsz s op).1 ops
def logMm (s : ExpSt) : List Op → List Nat
  | [] => []
  | op :: ops => acceptedMm s op ++ logMm (step hdr bsz s op).1 ops
def logAec (k : Nat) (s : ExpSt) : List Op → Nat
  | [] => 0
  | op :: ops => acceptedAec k s op + logAec k (step hdr bsz s op).1 ops

/-! ### flushing moves the buffered block, it never drops or duplicates anything -/

theorem blocksOf_def (s : ExpSt) : blocksOf s = s.done.flatMap (·.blocks) ++ s.out.blocks := by
  simp [blocksOf, outputs]

theorem writeBlock_blocks (s : ExpSt) :
    blocksOf (writeBlock hdr bsz s).1 = blocksOf s ++ (if s.cur.items = 0 then [] else [s.cur]) ∧
    (writeBlock hdr bsz s).1.cur = emptyBlock s.active := by
  unfold writeBlock
  by_cases h : s.cur.items = 0
  · simp [h, blocksOf_def]
  · simp [h, blocksOf_def]

theorem items_zero (b : Block) (h : b.items = 0) : b.qrs = [] ∧ b.aecs = [] ∧ b.mms = [] := by
  unfold Block.items at h
  refine ⟨?_, ?_, ?_⟩ <;> apply List.eq_nil_of_length_eq_zero <;> omega

theorem writeBlock_allQrs (s : ExpSt) : allQrs (writeBlock hdr bsz s).1 = allQrs s := by
  have h := writeBlock_blocks hdr bsz s
  unfold allQrs
  rw [h.1, h.2]
  by_cases hz : s.cur.items = 0
  · simp [hz, emptyBlock, (items_zero _ hz).1]
  · simp [hz, emptyBlock]

theorem writeBlock_allMms (s : ExpSt) : allMms (writeBlock hdr bsz s).1 = allMms s := by
  have h := writeBlock_blocks hdr bsz s
  unfold allMms
  rw [h.1, h.2]
  by_cases hz : s.cur.items = 0
  · simp [hz, emptyBlock, (items_zero _ hz).2.2]
  · simp [hz, emptyBlock]

theorem writeBlock_aecTotal (k : Nat) (s : ExpSt) : aecTotal k (writeBlock hdr bsz s).1 = aecTotal k s := by
  have h := writeBlock_blocks hdr bsz s
  unfold aecTotal
  rw [h.1, h.2]
  by_cases hz : s.cur.items = 0
  · simp [hz, emptyBlock, (items_zero _ hz).2.1, aecCount]
  · simp [hz, emptyBlock, aecCount]

theorem flushIfFull_allQrs (s : ExpSt) : allQrs (flushIfFull hdr bsz s).1 = allQrs s := by
  unfold flushIfFull; split
  · exact writeBlock_allQrs hdr bsz s
  · rfl
theorem flushIfFull_allMms (s : ExpSt) : allMms (flushIfFull hdr bsz s).1 = allMms s := by
  unfold flushIfFull; split
  · exact writeBlock_allMms hdr bsz s
  · rfl
theorem flushIfFull_aecTotal (k : Nat) (s : ExpSt) : aecTotal k (flushIfFull hdr bsz s).1 = aecTotal k s := by
  unfold flushIfFull; split
  · exact writeBlock_aecTotal hdr bsz k s
  · rfl

theorem setStats_fields (b : Block) (st : Option Nat) :
    (setStats b st).qrs = b.qrs ∧ (setStats b st).mms = b.mms ∧ (setStats b st).aecs = b.aecs ∧ (setStats b st).pi = b.pi := by
  cases st <;> simp [setStats]

/-- rotation re-files the current output under the closed ones; no block moves relative to the others -/
theorem rotate_blocks (s : ExpSt) (brk : Nat) :
    blocksOf { s with done := s.done ++ [{ s.out with bytes := s.out.bytes + brk, closed := true }],
                      out := ⟨[], 0, 0, false⟩, blocksWritten := 0 } = blocksOf s := by
  simp [blocksOf_def]

theorem aecCount_bump (k key : Nat) (l : List (Nat × Nat)) :
    aecCount k (bumpAec key l) = aecCount k l + (if key = k then 1 else 0) := by
  induction l with
  | nil =>
    by_cases h : key = k <;> simp [bumpAec, aecCount, h]
  | cons x xs ih =>
    obtain ⟨k', n⟩ := x
    unfold bumpAec
    by_cases h1 : k' = key
    · subst h1
      by_cases h2 : k' = k
      · subst h2; simp [aecCount]; omega
      · simp [aecCount, h2]
    · simp only [h1, if_false]
      have : aecCount k ((k', n) :: bumpAec key xs) = aecCount k [(k', n)] + aecCount k (bumpAec key xs) := by
        by_cases h3 : k' = k <;> simp [aecCount, h3]
      rw [this, ih]
      have : aecCount k ((k', n) :: xs) = aecCount k [(k', n)] + aecCount k xs := by
        by_cases h3 : k' = k <;> simp [aecCount, h3]
      rw [this]; omega

/-! ### one call -/

theorem step_allQrs (s : ExpSt) (op : Op) : allQrs (step hdr bsz s op).1 = allQrs s ++ acceptedQr s op := by
  cases op with
  | qr id stored st =>
    simp only [step]
    rw [flushIfFull_allQrs]
    cases stored <;> simp [allQrs, blocksOf_def, acceptedQr, (setStats_fields _ st).1]
  | aec key st =>
    simp only [step]
    split
    · simp [allQrs, blocksOf_def, acceptedQr, (setStats_fields _ st).1]
    · rw [flushIfFull_allQrs]; simp [allQrs, blocksOf_def, acceptedQr, (setStats_fields _ st).1]
  | mm id stored st =>
    simp only [step]
    split
    · simp [allQrs, blocksOf_def, acceptedQr, (setStats_fields _ st).1]
    · rw [flushIfFull_allQrs]
      cases stored <;> simp [allQrs, blocksOf_def, acceptedQr, (setStats_fields _ st).1]
  | writeBlock => simp only [step]; rw [writeBlock_allQrs]; simp [acceptedQr]
  | rotate ex =>
    simp only [step]
    cases ex
    · simp [allQrs, blocksOf_def, acceptedQr]
    · simp only [if_true]
      have h := writeBlock_allQrs hdr bsz s
      generalize (writeBlock hdr bsz s).1 = s1 at h
      rw [← h]
      simp [allQrs, blocksOf_def, acceptedQr]
  | addParams p => simp [step, allQrs, blocksOf_def, acceptedQr, outputs]
  | setActive i => simp only [step]; split <;> simp [allQrs, blocksOf_def, acceptedQr, outputs]

theorem step_allMms (s : ExpSt) (op : Op) : allMms (step hdr bsz s op).1 = allMms s ++ acceptedMm s op := by
  cases op with
  | qr id stored st =>
    simp only [step]
    rw [flushIfFull_allMms]
    cases stored <;> simp [allMms, blocksOf_def, acceptedMm, (setStats_fields _ st).2.1]
  | aec key st =>
    simp only [step]
    split
    · simp [allMms, blocksOf_def, acceptedMm, (setStats_fields _ st).2.1]
    · rw [flushIfFull_allMms]; simp [allMms, blocksOf_def, acceptedMm, (setStats_fields _ st).2.1]
  | mm id stored st =>
    simp only [step]
    by_cases hon : (pset s s.cur.pi).mmOn = true
    · simp only [hon, Bool.not_true, Bool.false_eq_true, if_false]
      rw [flushIfFull_allMms]
      cases stored <;> simp [allMms, blocksOf_def, acceptedMm, (setStats_fields _ st).2.1, hon]
    · have hoff : (pset s s.cur.pi).mmOn = false := by simpa using hon
      simp only [hoff, Bool.not_false, if_true]
      cases stored <;> simp [allMms, blocksOf_def, acceptedMm, (setStats_fields _ st).2.1, hoff]
  | writeBlock => simp only [step]; rw [writeBlock_allMms]; simp [acceptedMm]
  | rotate ex =>
    simp only [step]
    cases ex
    · simp [allMms, blocksOf_def, acceptedMm]
    · simp only [if_true]
      have h := writeBlock_allMms hdr bsz s
      generalize (writeBlock hdr bsz s).1 = s1 at h
      rw [← h]
      simp [allMms, blocksOf_def, acceptedMm]
  | addParams p => simp [step, allMms, blocksOf_def, acceptedMm, outputs]
  | setActive i => simp only [step]; split <;> simp [allMms, blocksOf_def, acceptedMm, outputs]

theorem step_aecTotal (k : Nat) (s : ExpSt) (op : Op) :
    aecTotal k (step hdr bsz s op).1 = aecTotal k s + acceptedAec k s op := by
  cases op with
  | qr id stored st =>
    simp only [step]
    rw [flushIfFull_aecTotal]
    cases stored <;> simp [aecTotal, blocksOf_def, acceptedAec, (setStats_fields _ st).2.2.1]
  | aec key st =>
    simp only [step]
    by_cases hon : (pset s s.cur.pi).aecOn = true
    · simp only [hon, Bool.not_true, Bool.false_eq_true, if_false]
      rw [flushIfFull_aecTotal]
      simp only [aecTotal, blocksOf_def, acceptedAec, hon, true_and, aecCount_bump, (setStats_fields _ st).2.2.1]
      omega
    · have hoff : (pset s s.cur.pi).aecOn = false := by simpa using hon
      simp [hoff, aecTotal, blocksOf_def, acceptedAec, (setStats_fields _ st).2.2.1]
  | mm id stored st =>
    simp only [step]
    split
    · simp [aecTotal, blocksOf_def, acceptedAec, (setStats_fields _ st).2.2.1]
    · rw [flushIfFull_aecTotal]
      cases stored <;> simp [aecTotal, blocksOf_def, acceptedAec, (setStats_fields _ st).2.2.1]
  | writeBlock => simp only [step]; rw [writeBlock_aecTotal]; simp [acceptedAec]
  | rotate ex =>
    simp only [step]
    cases ex
    · simp [aecTotal, blocksOf_def, acceptedAec]
    · simp only [if_true]
      have h := writeBlock_aecTotal hdr bsz k s
      generalize (writeBlock hdr bsz s).1 = s1 at h
      rw [← h]
      simp [aecTotal, blocksOf_def, acceptedAec]
  | addParams p => simp [step, aecTotal, blocksOf_def, acceptedAec, outputs]
  | setActive i => simp only [step]; split <;> simp [aecTotal, blocksOf_def, acceptedAec, outputs]

/-! ### every history -/

/-- Conservation: after any call history, the query/responses held in written blocks (in
    output and block order) followed by the buffered block are exactly the storable ones
    handed over, in submission order, each once. -/
theorem conservation_qr (s : ExpSt) (ops : List Op) :
    allQrs (run hdr bsz s ops).1 = allQrs s ++ logQr hdr bsz s ops := by
  induction ops generalizing s with
  | nil => simp [run, logQr]
  | cons op ops ih =>
    simp only [run, logQr]
    rw [ih, step_allQrs, List.append_assoc]

theorem conservation_mm (s : ExpSt) (ops : List Op) :
    allMms (run hdr bsz s ops).1 = allMms s ++ logMm hdr bsz s ops := by
  induction ops generalizing s with
  | nil => simp [run, logMm]
  | cons op ops ih =>
    simp only [run, logMm]
    rw [ih, step_allMms, List.append_assoc]

/-- every address-event key's total count equals the number of times it was buffered while enabled -/
theorem aec_totals (k : Nat) (s : ExpSt) (ops : List Op) :
    aecTotal k (run hdr bsz s ops).1 = aecTotal k s + logAec hdr bsz k s ops := by
  induction ops generalizing s with
  | nil => simp [run, logAec]
  | cons op ops ih =>
    simp only [run, logAec]
    rw [ih, step_aecTotal, Nat.add_assoc]

/-- from a fresh exporter -/
theorem conservation_fresh (psets : List PSet) (ops : List Op) :
    allQrs (run hdr bsz (ExpSt.init psets) ops).1 = logQr hdr bsz (ExpSt.init psets) ops ∧
    allMms (run hdr bsz (ExpSt.init psets) ops).1 = logMm hdr bsz (ExpSt.init psets) ops := by
  constructor
  · rw [conservation_qr]; simp [allQrs, blocksOf_def, ExpSt.init, emptyBlock]
  · rw [conservation_mm]; simp [allMms, blocksOf_def, ExpSt.init, emptyBlock]

/-! ### flush exactly at the configured size -/

def lim (s : ExpSt) : Nat := Nat.max 1 (pset s s.cur.pi).max

/-- between calls no array of the buffered block has reached the limit (max 0 acting like 1) -/
def CurInv (s : ExpSt) : Prop :=
  s.cur.qrs.length < lim s ∧ s.cur.aecs.length < lim s ∧ s.cur.mms.length < lim s

/-- a block as written by a buffer call: non-empty and no array above the limit of ITS parameters -/
def BlockOk (s : ExpSt) (b : Block) : Prop :=
  0 < b.items ∧ b.qrs.length ≤ Nat.max 1 (pset s b.pi).max ∧ b.aecs.length ≤ Nat.max 1 (pset s b.pi).max ∧
  b.mms.length ≤ Nat.max 1 (pset s b.pi).max

theorem bumpAec_length (k : Nat) (l : List (Nat × Nat)) : (bumpAec k l).length ≤ l.length + 1 ∧ 0 < (bumpAec k l).length := by
  induction l with
  | nil => simp [bumpAec]
  | cons x xs ih =>
    obtain ⟨k', n⟩ := x
    unfold bumpAec
    split
    · simp
    · simp; omega

/-- The flush rule, for one buffer call: `s` is the state after the record was added to the
    buffered block.  A block is written (non-zero return) precisely when one of the three
    arrays has reached the limit (max 0 acting like 1); in that case exactly the buffered
    block is appended to the current output; otherwise no block is written. -/
theorem flush_rule (s : ExpSt) (hb : ∀ b, 0 < bsz b)
    (hone : (s.cur.qrs.length ≥ lim s ∨ s.cur.aecs.length ≥ lim s ∨ s.cur.mms.length ≥ lim s) → 0 < s.cur.items)
    (hzero : (pset s s.cur.pi).max = 0 → s.cur.qrs.length ≤ 1 ∧ s.cur.aecs.length ≤ 1 ∧ s.cur.mms.length ≤ 1) :
    let reached := s.cur.qrs.length ≥ lim s ∨ s.cur.aecs.length ≥ lim s ∨ s.cur.mms.length ≥ lim s
    ((flushIfFull hdr bsz s).2 ≠ 0 ↔ reached) ∧
    (reached → blocksOf (flushIfFull hdr bsz s).1 = blocksOf s ++ [s.cur]) ∧
    (¬ reached → blocksOf (flushIfFull hdr bsz s).1 = blocksOf s) := by
  intro reached
  unfold flushIfFull full
  have hl : lim s = Nat.max 1 (pset s s.cur.pi).max := rfl
  have hw := writeBlock_blocks hdr bsz s
  by_cases hr : reached
  · have hitems : 0 < s.cur.items := hone hr
    have hfull : (decide (s.cur.qrs.length ≥ (pset s s.cur.pi).max) || decide (s.cur.aecs.length ≥ (pset s s.cur.pi).max)
        || decide (s.cur.mms.length ≥ (pset s s.cur.pi).max)) = true := by
      simp only [Bool.or_eq_true, decide_eq_true_eq]
      have : (pset s s.cur.pi).max ≤ lim s := by rw [hl]; exact Nat.le_max_right _ _
      rcases hr with h | h | h
      · exact Or.inl (Or.inl (by omega))
      · exact Or.inl (Or.inr (by omega))
      · exact Or.inr (by omega)
    simp only [hfull, if_true]
    have hne : ¬ s.cur.items = 0 := by omega
    refine ⟨⟨fun _ => hr, fun _ => ?_⟩, fun _ => ?_, fun h => absurd hr h⟩
    · unfold writeBlock; simp only [hne, if_false]; have := hb s.cur; omega
    · rw [hw.1]; simp [hne]
  · by_cases hm0 : (pset s s.cur.pi).max = 0
    · -- max = 0: write_block() is always called; with nothing stored it writes nothing
      have hlim : lim s = 1 := by rw [hl, hm0]; rfl
      have hz : s.cur.items = 0 := by
        unfold Block.items
        simp only [reached, hlim] at hr
        omega
      have hfull : (decide (s.cur.qrs.length ≥ (pset s s.cur.pi).max) || decide (s.cur.aecs.length ≥ (pset s s.cur.pi).max)
          || decide (s.cur.mms.length ≥ (pset s s.cur.pi).max)) = true := by simp [hm0]
      simp only [hfull, if_true]
      refine ⟨⟨fun h => ?_, fun h => absurd h hr⟩, fun h => absurd h hr, fun _ => ?_⟩
      · exfalso; apply h; unfold writeBlock; simp [hz]
      · rw [hw.1]; simp [hz]
    · have hlim : lim s = (pset s s.cur.pi).max := by rw [hl]; exact Nat.max_eq_right (by omega)
      have hnf : (decide (s.cur.qrs.length ≥ (pset s s.cur.pi).max) || decide (s.cur.aecs.length ≥ (pset s s.cur.pi).max)
          || decide (s.cur.mms.length ≥ (pset s s.cur.pi).max)) = false := by
        simp only [reached, hlim] at hr
        simp only [Bool.or_eq_false_iff, decide_eq_false_iff_not]
        omega
      simp only [hnf, Bool.false_eq_true, if_false]
      exact ⟨⟨fun h => absurd rfl h, fun h => absurd h hr⟩, fun h => absurd h hr, fun _ => by first | rfl | trivial⟩

/-! ### every written block is non-empty and within the limit of its own parameters -/

def BlockOkP (ps : List PSet) (b : Block) : Prop :=
  b.pi < ps.length ∧ 0 < b.items ∧
  b.qrs.length ≤ Nat.max 1 ((ps[b.pi]?).getD ⟨10000, true, true⟩).max ∧
  b.aecs.length ≤ Nat.max 1 ((ps[b.pi]?).getD ⟨10000, true, true⟩).max ∧
  b.mms.length ≤ Nat.max 1 ((ps[b.pi]?).getD ⟨10000, true, true⟩).max

def PInv (s : ExpSt) : Prop := s.active < s.psets.length ∧ s.cur.pi < s.psets.length

def Inv (s : ExpSt) : Prop := PInv s ∧ CurInv s ∧ ∀ b ∈ blocksOf s, BlockOkP s.psets b

theorem lim_pos (s : ExpSt) : 0 < lim s := Nat.lt_of_lt_of_le (by decide) (Nat.le_max_left 1 _)

theorem writeBlock_inv (s : ExpSt) (hP : PInv s)
    (hq : s.cur.qrs.length ≤ lim s) (ha : s.cur.aecs.length ≤ lim s) (hm : s.cur.mms.length ≤ lim s)
    (hB : ∀ b ∈ blocksOf s, BlockOkP s.psets b) : Inv (writeBlock hdr bsz s).1 := by
  have hw := writeBlock_blocks hdr bsz s
  have hps : (writeBlock hdr bsz s).1.psets = s.psets ∧ (writeBlock hdr bsz s).1.active = s.active := by
    unfold writeBlock; split <;> simp
  refine ⟨?_, ?_, ?_⟩
  · unfold PInv; rw [hps.1, hps.2, hw.2]; exact ⟨hP.1, hP.1⟩
  · unfold CurInv lim; rw [hw.2]
    have := lim_pos (writeBlock hdr bsz s).1
    unfold lim at this; rw [hw.2] at this
    simp only [emptyBlock, List.length_nil]
    exact ⟨this, this, this⟩
  · intro b hbm
    rw [hw.1] at hbm
    rw [hps.1]
    rcases List.mem_append.1 hbm with h | h
    · exact hB b h
    · by_cases hz : s.cur.items = 0
      · simp [hz] at h
      · simp only [hz, if_false, List.mem_singleton] at h
        subst h
        exact ⟨hP.2, by omega, hq, ha, hm⟩

theorem flushIfFull_inv (s : ExpSt) (hP : PInv s)
    (hq : s.cur.qrs.length ≤ lim s) (ha : s.cur.aecs.length ≤ lim s) (hm : s.cur.mms.length ≤ lim s)
    (hB : ∀ b ∈ blocksOf s, BlockOkP s.psets b) : Inv (flushIfFull hdr bsz s).1 := by
  unfold flushIfFull
  by_cases hf : full s = true
  · simp only [hf, if_true]; exact writeBlock_inv hdr bsz s hP hq ha hm hB
  · simp only [hf, Bool.false_eq_true, if_false]
    refine ⟨hP, ?_, hB⟩
    unfold full at hf
    simp only [Bool.or_eq_true, decide_eq_true_eq, not_or, Nat.not_le] at hf
    have : (pset s s.cur.pi).max ≤ lim s := Nat.le_max_right _ _
    exact ⟨by omega, by omega, by omega⟩

theorem pset_append (ps : List PSet) (p : PSet) (i : Nat) (h : i < ps.length) : (ps ++ [p])[i]? = ps[i]? := by
  rw [List.getElem?_append_left h]

theorem blockOkP_append (ps : List PSet) (p : PSet) (b : Block) (h : BlockOkP ps b) : BlockOkP (ps ++ [p]) b := by
  unfold BlockOkP at *
  rw [pset_append ps p b.pi h.1]
  exact ⟨by simp; omega, h.2⟩

theorem lim_setStats (s : ExpSt) (b : Block) (hpi : b.pi = s.cur.pi) : lim { s with cur := b } = lim s := by
  simp [lim, pset, hpi]

/-- the invariant is preserved by every call -/
theorem step_inv (s : ExpSt) (hs : Inv s) (op : Op) : Inv (step hdr bsz s op).1 := by
  obtain ⟨hP, ⟨hq, ha, hm⟩, hB⟩ := hs
  cases op with
  | qr id stored st =>
    simp only [step]
    have hf := setStats_fields (if stored = true then { s.cur with qrs := s.cur.qrs ++ [id] } else s.cur) st
    apply flushIfFull_inv
    · exact ⟨hP.1, by simp only; rw [hf.2.2.2]; cases stored <;> exact hP.2⟩
    · rw [lim_setStats _ _ (by rw [hf.2.2.2]; cases stored <;> rfl)]
      simp only; rw [hf.1]; cases stored <;> simp <;> omega
    · rw [lim_setStats _ _ (by rw [hf.2.2.2]; cases stored <;> rfl)]
      simp only; rw [hf.2.2.1]; cases stored <;> simp <;> omega
    · rw [lim_setStats _ _ (by rw [hf.2.2.2]; cases stored <;> rfl)]
      simp only; rw [hf.2.1]; cases stored <;> simp <;> omega
    · exact hB
  | aec key st =>
    simp only [step]
    have hf := setStats_fields s.cur st
    split
    · refine ⟨⟨hP.1, by simp only; rw [hf.2.2.2]; exact hP.2⟩, ?_, hB⟩
      unfold CurInv
      rw [lim_setStats _ _ hf.2.2.2]
      simp only; rw [hf.1, hf.2.1, hf.2.2.1]; exact ⟨hq, ha, hm⟩
    · have hbl := bumpAec_length key s.cur.aecs
      apply flushIfFull_inv
      · exact ⟨hP.1, by simp only; rw [hf.2.2.2]; exact hP.2⟩
      · rw [lim_setStats _ _ (by simp only; rw [hf.2.2.2])]; simp only; rw [hf.1]; omega
      · rw [lim_setStats _ _ (by simp only; rw [hf.2.2.2])]; simp only; rw [hf.2.2.1]; omega
      · rw [lim_setStats _ _ (by simp only; rw [hf.2.2.2])]; simp only; rw [hf.2.1]; omega
      · exact hB
  | mm id stored st =>
    simp only [step]
    have hf := setStats_fields s.cur st
    split
    · refine ⟨⟨hP.1, by simp only; rw [hf.2.2.2]; exact hP.2⟩, ?_, hB⟩
      unfold CurInv
      rw [lim_setStats _ _ hf.2.2.2]
      simp only; rw [hf.1, hf.2.1, hf.2.2.1]; exact ⟨hq, ha, hm⟩
    · apply flushIfFull_inv
      · exact ⟨hP.1, by simp only; cases stored <;> simp only [if_true, Bool.false_eq_true, if_false] <;> rw [hf.2.2.2] <;> exact hP.2⟩
      · rw [lim_setStats _ _ (by cases stored <;> simp only [if_true, Bool.false_eq_true, if_false] <;> rw [hf.2.2.2])]
        cases stored <;> simp only [if_true, Bool.false_eq_true, if_false] <;> rw [hf.1] <;> omega
      · rw [lim_setStats _ _ (by cases stored <;> simp only [if_true, Bool.false_eq_true, if_false] <;> rw [hf.2.2.2])]
        cases stored <;> simp only [if_true, Bool.false_eq_true, if_false] <;> rw [hf.2.2.1] <;> omega
      · rw [lim_setStats _ _ (by cases stored <;> simp only [if_true, Bool.false_eq_true, if_false] <;> rw [hf.2.2.2])]
        cases stored <;> simp only [if_true, Bool.false_eq_true, if_false]
        · rw [hf.2.1]; omega
        · simp only [List.length_append, List.length_singleton]; rw [hf.2.1]; omega
      · exact hB
  | writeBlock =>
    simp only [step]
    exact writeBlock_inv hdr bsz s hP (by omega) (by omega) (by omega) hB
  | rotate ex =>
    simp only [step]
    have h1 : Inv (if ex = true then writeBlock hdr bsz s else (s, 0)).1 := by
      cases ex
      · exact ⟨hP, ⟨hq, ha, hm⟩, hB⟩
      · exact writeBlock_inv hdr bsz s hP (by omega) (by omega) (by omega) hB
    generalize (if ex = true then writeBlock hdr bsz s else (s, 0)) = r at h1
    obtain ⟨s1, w⟩ := r
    obtain ⟨hP1, hC1, hB1⟩ := h1
    refine ⟨hP1, hC1, ?_⟩
    intro b hbm
    rw [rotate_blocks] at hbm
    exact hB1 b hbm
  | addParams p =>
    simp only [step]
    refine ⟨⟨by simp; have := hP.1; omega, by simp; have := hP.2; omega⟩, ?_, ?_⟩
    · unfold CurInv lim pset
      simp only
      rw [pset_append _ _ _ hP.2]
      exact ⟨hq, ha, hm⟩
    · intro b hbm
      exact blockOkP_append _ _ _ (hB b (by simpa [blocksOf_def] using hbm))
  | setActive i =>
    simp only [step]
    split
    · exact ⟨hP, ⟨hq, ha, hm⟩, hB⟩
    · rename_i hi
      exact ⟨⟨by simp; omega, hP.2⟩, ⟨hq, ha, hm⟩, hB⟩

theorem init_inv (psets : List PSet) (h : psets ≠ []) : Inv (ExpSt.init psets) := by
  have : 0 < psets.length := List.length_pos_iff.2 h
  refine ⟨⟨this, this⟩, ?_, ?_⟩
  · have := lim_pos (ExpSt.init psets)
    exact ⟨this, this, this⟩
  · intro b hb; simp [blocksOf_def, ExpSt.init] at hb

/-- After ANY call history on an exporter constructed with at least one parameter set:
    every block written is non-empty, none of its three arrays exceeds `max(1, max_block_items)`
    of the parameters it was filled under, and the buffered block is below the limit. -/
theorem blocks_bounded (psets : List PSet) (h : psets ≠ []) (ops : List Op) :
    Inv (run hdr bsz (ExpSt.init psets) ops).1 := by
  have : ∀ s, Inv s → Inv (run hdr bsz s ops).1 := by
    induction ops with
    | nil => intro s hs; exact hs
    | cons op ops ih => intro s hs; simp only [run]; exact ih _ (step_inv hdr bsz s hs op)
  exact this _ (init_inv psets h)

/-- the counters the exporter reports are the sizes of the buffered block / the number of blocks
    written to the current output – by definition of the model, also after `setActive` -/
theorem counters_match (s : ExpSt) :
    counters s = (s.cur.qrs.length + s.cur.aecs.length + s.cur.mms.length, s.cur.qrs.length, s.cur.aecs.length,
                  s.cur.mms.length, s.blocksWritten) := rfl

/-! Non-vacuity: a concrete history (max 2, a hint-dropped record, a flush, a rotation). -/
example : (run (fun _ => 10) (fun _ => 5) (ExpSt.init [⟨2, true, false⟩])
    [.qr 1 true none, .mm 7 true none, .qr 2 false (some 9), .qr 3 true none, .aec 4 none, .rotate true]).2
    = [.bytes 0, .bytes 0, .bytes 0, .bytes 15, .bytes 0, .bytes 6] := by decide

end CdnsVerif.Props.C12
