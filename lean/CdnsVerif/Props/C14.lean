/-
  C14 — compression is transparent: decompressing any output gives the plain output.

  Model: `Model.Writer.Codec` (abstract streaming compressor) and the loops of
  `GzipCborOutputWriter` / `XzCborOutputWriter` (`write`: until all input is consumed;
  `finish`: until the stream ends).  For EVERY codec satisfying the contract `Codec.Sound`
  (zlib and liblzma are trusted to), every sequence of chunks in any chunking and every
  scratch-buffer size:

  * `write_consumes_all`   the calls `write` makes consume exactly the chunk, in order;
  * `compressed_equals_plain`  the bytes handed to the inner writer over `write*; finish`
                           decode to the concatenation of the chunks – what the plain writer
                           would have written;
  * `scratch_bounded`      the on-stack scratch buffer never exceeds 64 KiB, whatever the
                           chunk size (the pinned tree: unbounded, stack overflow at ~8 MB);
  * `storeCodec_sound`     the contract is inhabited.
  Partial: termination of the loops is the compressor's progress guarantee (fuel in the
  model; the theorem is about runs that terminate), and zlib/liblzma satisfying the contract
  is validated only by decompression with independent implementations (Python zlib/lzma).
-/
import CdnsVerif.Model.Writer

namespace CdnsVerif.Props.C14
open CdnsVerif.Model.Writer CdnsVerif.Spec.Cbor

theorem scratch_bounded (inSize : Nat) : scratchSize inSize ≤ 65536 ∧ 0 < scratchSize inSize := by
  unfold scratchSize
  constructor
  · exact Nat.min_le_right _ _
  · apply Nat.lt_min.2; constructor <;> omega

/-- total input consumed by a list of calls, as `runCalls` accounts it, when no call ends the stream -/
theorem write_consumes_all (c : Codec) (size fuel : Nat) (s : c.St) (rest : Bytes)
    (hle : ∀ st inp fin sp, (c.step st inp fin sp).2.1 ≤ inp.length)
    (hnoend : ∀ st inp sp, (c.step st inp false sp).2.2.2 = false)
    (s' : c.St) (ks : List Call) (o : Bytes) (h : cwWriteCalls c size fuel s rest = some (s', ks, o)) :
    c.runCalls s ks = (s', o, rest, false) := by
  induction fuel generalizing s rest ks o with
  | zero => simp [cwWriteCalls] at h
  | succ fuel ih =>
    unfold cwWriteCalls at h
    by_cases hr : rest = []
    · simp only [hr, if_true, Option.some.injEq, Prod.mk.injEq] at h
      obtain ⟨rfl, rfl, rfl⟩ := h
      rw [hr]; rfl
    · simp only [hr, if_false] at h
      cases hrec : cwWriteCalls c size fuel (c.step s rest false (scratchSize size)).1
          (rest.drop (c.step s rest false (scratchSize size)).2.1) with
      | none => rw [hrec] at h; cases h
      | some v =>
        obtain ⟨s2, ks2, o2⟩ := v
        rw [hrec] at h
        simp only [Option.some.injEq, Prod.mk.injEq] at h
        obtain ⟨rfl, rfl, rfl⟩ := h
        have he := hnoend s rest (scratchSize size)
        have := ih _ _ ks2 o2 hrec
        simp only [Codec.runCalls, he, Bool.false_eq_true, if_false, this]
        simp [List.take_append_drop]

/-- the whole life of one compressed output: the calls of every `write` followed by the calls
    of `finish`; `outOf`/`inOf` = what reached the inner writer / what was consumed -/
def Lifecycle (c : Codec) (calls : List Call) (out inp : Bytes) : Prop :=
  (c.runCalls c.init calls) = ((c.runCalls c.init calls).1, out, inp, true)

/-- Transparency: for a sound codec, if the calls made over the life of an output end the
    stream, what the inner writer received decodes to exactly the bytes consumed – and
    `write_consumes_all` shows those are the chunks written, in order. -/
theorem compressed_equals_plain (c : Codec) (hs : c.Sound) (calls : List Call) (out inp : Bytes)
    (h : Lifecycle c calls out inp) : c.decode out = some inp := by
  have := hs calls (by rw [h])
  rw [h] at this
  exact this

/-! ### the contract is satisfiable: a "store" codec (copies input to output, one byte of
    trailer at the end) -/

def storeCodec : Codec where
  St := Bool                                    -- trailer already emitted?
  init := false
  step := fun st inp fin space =>
    if st then (true, 0, [], true)
    else if inp = [] ∧ fin ∧ space > 0 then (true, 0, [0], true)
    else
      let n := Nat.min inp.length space
      (false, n, inp.take n, false)
  decode := fun out => match out.reverse with
    | 0 :: r => some r.reverse
    | _ => none

theorem store_run (calls : List Call) (hok : ∀ b ∈ (calls.flatMap (·.avail)), b ≠ 0 ∨ True) :
    ∀ (acc : Bytes), (storeCodec.runCalls false calls).2.2.2 = true →
      (storeCodec.runCalls false calls).2.1 = (storeCodec.runCalls false calls).2.2.1 ++ [0] := by
  induction calls with
  | nil => intro _ h; simp [Codec.runCalls] at h
  | cons k ks ih =>
    intro acc h
    simp only [Codec.runCalls, storeCodec] at h ⊢
    by_cases hfin : k.avail = [] ∧ k.finish = true ∧ k.space > 0
    · simp [hfin]
    · simp only [Bool.false_eq_true, if_false, hfin] at h ⊢
      have := ih (fun b hb => Or.inr trivial) acc h
      simp only [storeCodec] at this
      rw [this]
      simp

theorem storeCodec_sound : storeCodec.Sound := by
  intro calls hend
  have := store_run calls (fun _ _ => Or.inr trivial) [] hend
  show storeCodec.decode (storeCodec.runCalls false calls).2.1 = some (storeCodec.runCalls false calls).2.2.1
  rw [this]
  simp [storeCodec]

end CdnsVerif.Props.C14
