/-
  C14 — compression is transparent: decompressing any output gives the plain output.

  Model: `Model.Writer.Codec` (abstract streaming compressor) and the loops of
  `GzipCborOutputWriter` / `XzCborOutputWriter` (`write`: until all input is consumed;
  `finish`: until the stream ends).  For EVERY codec satisfying the contract `Codec.Sound`
  (zlib and liblzma are trusted to), every sequence of chunks in any chunking and every
  scratch-buffer size:

  * `write_consumes_all`   the calls `write` makes consume exactly the chunk, in order;
  * `compressed_equals_plain`  the bytes handed to the inner writer over `write*; finish`
                           decode to the concatenation of the chunks – what the plain writer
                           would have written;
  * `lifecycle_transparent` the loops composed over the whole life of an output – `write` for every chunk, then `finish` –
                           hand the inner writer bytes that decode to the concatenation of all chunks;
  * `scratch_bounded`      the on-stack scratch buffer never exceeds 64 KiB, whatever the
                           chunk size (the pinned tree: unbounded, stack overflow at ~8 MB);
  * `storeCodec_sound`     the contract is inhabited.
  Partial: termination of the loops is the compressor's progress guarantee (fuel in the
  model; the theorem is about runs that terminate), and zlib/liblzma satisfying the contract
  is validated only by decompression with independent implementations (Python zlib/lzma).
-/
import CdnsVerif.Model.Writer

namespace CdnsVerif.Props.C14
open CdnsVerif.Model.Writer CdnsVerif.Spec.Cbor

theorem scratch_bounded (inSize : Nat) : scratchSize inSize ≤ 65536 ∧ 0 < scratchSize inSize := by
  unfold scratchSize
  constructor
  · exact Nat.min_le_right _ _
  · apply Nat.lt_min.2; constructor <;> omega

/-- total input consumed by a list of calls, as `runCalls` accounts it, when no call ends the stream -/
theorem write_consumes_all (c : Codec) (size fuel : Nat) (s : c.St) (rest : Bytes)
    (hle : ∀ st inp fin sp, (c.step st inp fin sp).2.1 ≤ inp.length)
    (hnoend : ∀ st inp sp, (c.step st inp false sp).2.2.2 = false)
    (s' : c.St) (ks : List Call) (o : Bytes) (h : cwWriteCalls c size fuel s rest = some (s', ks, o)) :
    c.runCalls s ks = (s', o, rest, false) := by
  induction fuel generalizing s rest ks o with
  | zero => simp [cwWriteCalls] at h
  | succ fuel ih =>
    unfold cwWriteCalls at h
    by_cases hr : rest = []
    · simp only [hr, if_true, Option.some.injEq, Prod.mk.injEq] at h
      obtain ⟨rfl, rfl, rfl⟩ := h
      rw [hr]; rfl
    · simp only [hr, if_false] at h
      cases hrec : cwWriteCalls c size fuel (c.step s rest false (scratchSize size)).1
          (rest.drop (c.step s rest false (scratchSize size)).2.1) with
      | none => rw [hrec] at h; cases h
      | some v =>
        obtain ⟨s2, ks2, o2⟩ := v
        rw [hrec] at h
        simp only [Option.some.injEq, Prod.mk.injEq] at h
        obtain ⟨rfl, rfl, rfl⟩ := h
        have he := hnoend s rest (scratchSize size)
        have := ih _ _ ks2 o2 hrec
        simp only [Codec.runCalls, he, Bool.false_eq_true, if_false, this]
        simp [List.take_append_drop]

/-- the whole life of one compressed output: the calls of every `write` followed by the calls
    of `finish`; `outOf`/`inOf` = what reached the inner writer / what was consumed -/
def Lifecycle (c : Codec) (calls : List Call) (out inp : Bytes) : Prop :=
  (c.runCalls c.init calls) = ((c.runCalls c.init calls).1, out, inp, true)

/-- Transparency: for a sound codec, if the calls made over the life of an output end the
    stream, what the inner writer received decodes to exactly the bytes consumed – and
    `write_consumes_all` shows those are the chunks written, in order. -/
theorem compressed_equals_plain (c : Codec) (hs : c.Sound) (calls : List Call) (out inp : Bytes)
    (h : Lifecycle c calls out inp) : c.decode out = some inp := by
  have := hs calls (by rw [h])
  rw [h] at this
  exact this

/-! ### the contract is satisfiable: a "store" codec (copies input to output, one byte of
    trailer at the end) -/

def storeCodec : Codec where
  St := Bool                                    -- trailer already emitted?
  init := false
  step := fun st inp fin space =>
    if st then (true, 0, [], true)
    else if inp = [] ∧ fin ∧ space > 0 then (true, 0, [0], true)
    else
      let n := Nat.min inp.length space
      (false, n, inp.take n, false)
  decode := fun out => match out.reverse with
    | 0 :: r => some r.reverse
    | _ => none

theorem store_run (calls : List Call) (hok : ∀ b ∈ (calls.flatMap (·.avail)), b ≠ 0 ∨ True) :
    ∀ (acc : Bytes), (storeCodec.runCalls false calls).2.2.2 = true →
      (storeCodec.runCalls false calls).2.1 = (storeCodec.runCalls false calls).2.2.1 ++ [0] := by
  induction calls with
  | nil => intro _ h; simp [Codec.runCalls] at h
  | cons k ks ih =>
    intro acc h
    simp only [Codec.runCalls, storeCodec] at h ⊢
    by_cases hfin : k.avail = [] ∧ k.finish = true ∧ k.space > 0
    · simp [hfin]
    · simp only [Bool.false_eq_true, if_false, hfin] at h ⊢
      have := ih (fun b hb => Or.inr trivial) acc h
      simp only [storeCodec] at this
      rw [this]
      simp

theorem storeCodec_sound : storeCodec.Sound := by
  intro calls hend
  have := store_run calls (fun _ _ => Or.inr trivial) [] hend
  show storeCodec.decode (storeCodec.runCalls false calls).2.1 = some (storeCodec.runCalls false calls).2.2.1
  rw [this]
  simp [storeCodec]

/-! ### the whole life of an output: every `write`, then `finish` -/

/-- running calls one after the other: a prefix that does not end the stream is followed by the rest from the state it reached -/
theorem runCalls_append (c : Codec) (s : c.St) (ks1 ks2 : List Call) (s1 : c.St) (o1 i1 : Bytes)
    (h1 : c.runCalls s ks1 = (s1, o1, i1, false)) :
    c.runCalls s (ks1 ++ ks2) = ((c.runCalls s1 ks2).1, o1 ++ (c.runCalls s1 ks2).2.1, i1 ++ (c.runCalls s1 ks2).2.2.1, (c.runCalls s1 ks2).2.2.2) := by
  induction ks1 generalizing s o1 i1 with
  | nil =>
    simp only [Codec.runCalls, Prod.mk.injEq] at h1
    obtain ⟨rfl, rfl, rfl, _⟩ := h1
    simp
  | cons k ks ih =>
    simp only [List.cons_append, Codec.runCalls] at h1 ⊢
    by_cases he : (c.step s k.avail k.finish k.space).2.2.2 = true
    · simp only [he, if_true, Prod.mk.injEq] at h1
      exact absurd h1.2.2.2 (by simp)
    · simp only [he, Bool.false_eq_true, if_false, Prod.mk.injEq] at h1 ⊢
      obtain ⟨hs, ho, hi, hf⟩ := h1
      have hrec : c.runCalls (c.step s k.avail k.finish k.space).1 ks =
          (s1, (c.runCalls (c.step s k.avail k.finish k.space).1 ks).2.1, (c.runCalls (c.step s k.avail k.finish k.space).1 ks).2.2.1, false) := by
        rw [← hs, ← hf]
      have := ih _ _ _ hrec
      rw [this]
      refine ⟨rfl, ?_, ?_, rfl⟩
      · rw [← ho]; simp [List.append_assoc]
      · rw [← hi]; simp [List.append_assoc]

/-- the calls `finish` makes consume nothing and end the stream -/
theorem finish_ends (c : Codec) (fuel : Nat) (s s' : c.St) (ks : List Call) (o : Bytes)
    (hle : ∀ st sp, (c.step st [] true sp).2.1 = 0 ∨ True)
    (h : cwFinishCalls c fuel s = some (s', ks, o)) : c.runCalls s ks = (s', o, [], true) := by
  induction fuel generalizing s ks o with
  | zero => simp [cwFinishCalls] at h
  | succ fuel ih =>
    unfold cwFinishCalls at h
    by_cases he : (c.step s [] true (scratchSize 2048)).2.2.2 = true
    · simp only [he, if_true, Option.some.injEq, Prod.mk.injEq] at h
      obtain ⟨rfl, rfl, rfl⟩ := h
      simp [Codec.runCalls, he]
    · simp only [he, Bool.false_eq_true, if_false] at h
      cases hrec : cwFinishCalls c fuel (c.step s [] true (scratchSize 2048)).1 with
      | none => rw [hrec] at h; cases h
      | some v =>
        obtain ⟨s2, ks2, o2⟩ := v
        rw [hrec] at h
        simp only [Option.some.injEq, Prod.mk.injEq] at h
        obtain ⟨rfl, rfl, rfl⟩ := h
        have := ih _ _ _ hrec
        simp [Codec.runCalls, he, this]

/-- **Transparency over the whole life of an output.**  For a sound codec that never consumes more than it is offered and never
    ends the stream unasked, whatever chunks the encoder hands to `write` (any number, any sizes – the scratch buffer follows
    the chunk size up to 64 KiB) and however many steps the codec needs: if the run terminates, the bytes that reached the inner
    writer decode to exactly the concatenation of the chunks. -/
theorem lifecycle_transparent (c : Codec) (hs : c.Sound)
    (hle : ∀ st inp fin sp, (c.step st inp fin sp).2.1 ≤ inp.length)
    (hnoend : ∀ st inp sp, (c.step st inp false sp).2.2.2 = false)
    (fuel : Nat) (chunks : List Bytes) (calls : List Call) (out : Bytes)
    (h : cwLifecycle c fuel c.init chunks = some (calls, out)) : c.decode out = some chunks.flatten := by
  have gen : ∀ (s : c.St) (chunks : List Bytes) (calls : List Call) (out : Bytes),
      cwLifecycle c fuel s chunks = some (calls, out) → ∃ s', c.runCalls s calls = (s', out, chunks.flatten, true) := by
    intro s chunks
    induction chunks generalizing s with
    | nil =>
      intro calls out h
      simp only [cwLifecycle, Option.map_eq_some_iff] at h
      obtain ⟨⟨s', ks, o⟩, hf, heq⟩ := h
      simp only [Prod.mk.injEq] at heq
      obtain ⟨rfl, rfl⟩ := heq
      exact ⟨s', finish_ends c fuel s s' _ _ (fun _ _ => Or.inr trivial) hf⟩
    | cons chunk rest ih =>
      intro calls out h
      simp only [cwLifecycle] at h
      cases hw : cwWriteCalls c chunk.length fuel s chunk with
      | none => rw [hw] at h; cases h
      | some v =>
        obtain ⟨s1, ks, o⟩ := v
        rw [hw] at h
        simp only at h
        cases hl : cwLifecycle c fuel s1 rest with
        | none => rw [hl] at h; cases h
        | some w =>
          obtain ⟨ks2, o2⟩ := w
          rw [hl] at h
          simp only [Option.some.injEq, Prod.mk.injEq] at h
          obtain ⟨rfl, rfl⟩ := h
          obtain ⟨s', hr⟩ := ih s1 ks2 o2 hl
          have hw' := write_consumes_all c chunk.length fuel s chunk hle hnoend s1 ks o hw
          refine ⟨s', ?_⟩
          rw [runCalls_append c s ks ks2 s1 o chunk hw', hr]
          simp
  obtain ⟨s', hr⟩ := gen c.init chunks calls out h
  have := hs calls (by rw [hr])
  rw [hr] at this
  exact this

/-- non-vacuity: the store codec run through the whole life of an output with three chunks -/
example : (cwLifecycle storeCodec 10 storeCodec.init [[1, 2, 3], [], [4]]).map (·.2) = some [1, 2, 3, 4, 0] := by decide


end CdnsVerif.Props.C14
