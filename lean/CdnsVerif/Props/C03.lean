/-
  C03 — reading untrusted bytes is memory-safe, bounded and fails only by exception.

  Per-layer theorems (the composed statement is their conjunction; that every memory access of
  the C++ is one of the modelled kinds is established by the sanitizer-instrumented
  correspondence, not proved – the property is claimed as a partial proof):

  * window: every byte the decoder reads lies inside the fetched window – `read_to_buffer`
    never returns with an empty window (`window_nonempty`), and the decoder's view of the input
    is exactly the remaining input (`C05.runW_refines`): no stale or out-of-buffer byte;
  * allocation: the reservation made for an announced length is at most one decoder buffer,
    whatever the length field says (`reserve_bounded`);
  * arithmetic: `add_time_offset` performs its signed addition only inside `int64_t`
    (`C17.addTimeOffset_no_overflow`), `read_integer`/`read_negative` saturate (`C07`);
  * recursion: `skip_item` keeps its nesting levels in a heap vector; the model's loop is
    iterative and a fuel linear in the input suffices (`C07.skip_exact_linear`);
  * renderers: every index `get_readable_dname` reads is ≤ size (the terminator) and every
    index it writes is < size (`dname_in_bounds`), for EVERY byte string;
  * termination in linear time, for EVERY byte string (not only well-formed ones): the loops of the reader – `read_array`,
    the member loop of every struct reader, the chunk loop of `read_string`, the level loop of `skip_item` – are modelled
    with a fuel argument, and on ANY input a fuel linear in its length is never exhausted (`value_reader_fuel_never_binds`,
    `skip_fuel_never_binds`, `file_reader_fuel_never_binds`, `block_reader_fuel_never_binds`): above `2·|input| + 2` the result
    does not depend on the fuel.  Every loop iteration consumes a byte of input or closes a nesting level that a consumed
    byte opened, so the iterations of all modelled loops together are bounded by a linear function of the input length, and
    every exception the model reports on a hostile input is a genuine one, not an artefact of the fuel;
  * memory proportional to the input, for EVERY byte string: whatever the length fields of a hostile input announce, the value
    the reader materialises – one unit per scalar, string byte, list element and record member – plus the input left over is
    at most the input (`value_size_bounded_by_input`, `file_values_bounded_by_input`): a string of n bytes was paid for with n
    input bytes, a list of n elements with at least n.
-/
import CdnsVerif.Model.Render
import CdnsVerif.Props.C05
import CdnsVerif.Props.C07
import CdnsVerif.Props.C17
import CdnsVerif.Proofs.Fuel
import CdnsVerif.Proofs.Alloc
import CdnsVerif.Model.File

namespace CdnsVerif.Props.C03
open CdnsVerif.Model.Render CdnsVerif.Spec.Cbor

theorem reserve_bounded (announced : Nat) : reserveFor announced ≤ Generated.decBufferSize ∧ reserveFor announced ≤ announced := by
  unfold reserveFor
  split
  · exact ⟨by omega, Nat.le_refl _⟩
  · exact ⟨Nat.le_refl _, by omega⟩

/-- the window is never empty when a byte is taken from it -/
theorem window_nonempty (s : Model.Window.DecSt) (hs : C05.Inv s) (s' : Model.Window.DecSt)
    (h : Model.Window.readToBuffer s = .ok s') : s'.win ≠ [] := by
  have := C05.readToBuffer_spec s hs
  rw [h] at this
  exact this.2.1

def InBounds (name : Bytes) (a : Access) : Prop := a.idx ≤ name.length ∧ (a.write = true → a.idx < name.length)

theorem at_eq_zero_of_ge (name : Bytes) (pos : Nat) (h : name.length ≤ pos) : at_ name pos = 0 := by
  unfold at_; rw [List.getElem?_eq_none h]; rfl

theorem walk_in_bounds (name : Bytes) (fuel labelLen pos size : Nat) (acc : List Access)
    (hacc : ∀ a ∈ acc, InBounds name a) : ∀ a ∈ walk name fuel labelLen pos size acc, InBounds name a := by
  induction fuel generalizing labelLen pos size acc with
  | zero => simpa [walk] using hacc
  | succ fuel ih =>
    unfold walk
    by_cases h0 : labelLen = 0
    · rw [if_pos h0]; exact hacc
    · rw [if_neg h0]
      by_cases h1 : size + labelLen > name.length
      · rw [if_pos h1]; exact hacc
      · rw [if_neg h1]
        by_cases h2 : pos > name.length
        · rw [if_pos h2]; exact hacc
        · rw [if_neg h2]
          apply ih
          intro a ha
          by_cases hl : at_ name pos ≠ 0
          · rw [if_pos hl] at ha
            simp only [List.mem_append, List.mem_singleton] at ha
            rcases ha with (ha | rfl) | rfl
            · exact hacc a ha
            · exact ⟨by simp; omega, by simp⟩
            · refine ⟨by simp; omega, fun _ => ?_⟩
              simp only
              -- a non-zero byte was read at `pos`, so `pos` is a real index (the terminator reads 0)
              rcases Nat.lt_or_ge pos name.length with hlt | hge
              · exact hlt
              · exact absurd (at_eq_zero_of_ge name pos hge) hl
          · rw [if_neg hl] at ha
            simp only [List.mem_append, List.mem_singleton] at ha
            rcases ha with ha | rfl
            · exact hacc a ha
            · exact ⟨by simp; omega, by simp⟩

/-- Every access of the domain-name renderer is inside the string, for every input. -/
theorem dname_in_bounds (name : Bytes) : ∀ a ∈ dnameAccesses name, InBounds name a := by
  unfold dnameAccesses
  by_cases h : name = []
  · simp [h]
  · simp only [h, if_false]
    apply walk_in_bounds
    intro a ha
    simp only [List.mem_singleton] at ha
    subst ha
    exact ⟨by simp, by simp⟩

/-- the witness of the repaired defect: a 20-byte name whose first label claims 20 bytes -/
example : ∀ a ∈ dnameAccesses (20 :: List.replicate 19 65), InBounds (20 :: List.replicate 19 65) a :=
  dname_in_bounds _

/-! ### the reader's loops end after linearly many iterations, on every input -/

open CdnsVerif.Model CdnsVerif.Model.Decoder CdnsVerif.Model.Schema CdnsVerif.Proofs.Fuel

/-- **Any value of any schema, any bytes.**  Reading a value of kind `k` (any struct of the preamble or block tree, arrays, strings,
    integers) from an ARBITRARY byte string gives the same outcome – value and rest, or the same exception – for every fuel above
    `2·|bs| + 2`: none of the loops involved can run more often than that on this input. -/
theorem value_reader_fuel_never_binds (k : Kind) (bs : Bytes) (f1 f2 : Nat) (h1 : 2 * bs.length + 2 ≤ f1) (h2 : 2 * bs.length + 2 ≤ f2) :
    (readVal f1 k).run bs = (readVal f2 k).run bs :=
  (adequate_all bs.length).1 k f1 f2 bs (Nat.le_refl _) h1 h2

/-- **`skip_item()` on any bytes**: at most `3·|bs| + 2` iterations of its level loop (a head byte opens at most two levels). -/
theorem skip_fuel_never_binds (bs : Bytes) (f1 f2 : Nat) (h1 : 3 * bs.length + 1 < f1) (h2 : 3 * bs.length + 1 < f2) :
    (skipItem f1).run bs = (skipItem f2).run bs := skipItem_adequate f1 f2 bs h1 h2

open CdnsVerif.Model.File CdnsVerif.Model.Structs in
/-- **A whole file, any bytes**: header, type string, preamble and all blocks. -/
theorem file_reader_fuel_never_binds (bs : Bytes) (f1 f2 : Nat) (h1 : 2 * bs.length + 2 ≤ f1) (h2 : 2 * bs.length + 2 ≤ f2) :
    (readFile f1).run bs = (readFile f2).run bs := by
  unfold readFile
  apply run_bind_congr
  rintro ⟨len, indef⟩ r1 hs
  have hr1 := run_le _ _ _ _ hs
  simp only
  split
  · rfl
  · apply run_bind_congr2
    · exact readStr_adequate _ f1 f2 r1 (by omega) (by omega)
    · intro t r2 ht
      have hr2 := run_le _ _ _ _ ht
      split
      · rfl
      · apply run_bind_congr2
        · exact value_reader_fuel_never_binds _ r2 f1 f2 (by omega) (by omega)
        · intro pv r3 hp
          have hr3 := run_le _ _ _ _ hp
          exact run_bind_congr_left _ _ _ _ (value_reader_fuel_never_binds _ r3 f1 f2 (by omega) (by omega))

open CdnsVerif.Model.File CdnsVerif.Model.Structs in
/-- **`CdnsReader::read_block()`, any bytes, any reader state.** -/
theorem block_reader_fuel_never_binds (st : RdSt) (bs : Bytes) (f1 f2 : Nat) (h1 : 2 * bs.length + 2 ≤ f1) (h2 : 2 * bs.length + 2 ≤ f2) :
    (readBlock f1 st).run bs = (readBlock f2 st).run bs := by
  unfold readBlock
  split
  · apply run_bind_congr
    intro t r0 hp
    have hr0 := run_le _ _ _ _ hp
    split
    · rfl
    · exact run_bind_congr_left _ _ _ _ (value_reader_fuel_never_binds _ r0 f1 f2 (by omega) (by omega))
  · split
    · rfl
    · exact run_bind_congr_left _ _ _ _ (value_reader_fuel_never_binds _ bs f1 f2 h1 h2)

/-- not vacuous, and the bound is about hostile input too: a definite-length array announcing 2^64−1 elements and an
    indefinite-length one nested 3 deep that never closes both end with the end-of-input exception at the bound (not with a
    fuel artefact, which would be `Err.decoder`) -/
def endsWithEnd {α : Type} : Except Err α → Bool
  | .error .end_ => true
  | _ => false
example : endsWithEnd ((readVal (2 * 10 + 2) (.arr (.uint 8))).run [0x9b, 255, 255, 255, 255, 255, 255, 255, 255, 1]) = true := by decide
example : endsWithEnd ((readVal (2 * 4 + 2) (.arr (.arr (.arr (.uint 8))))).run [0x9f, 0x9f, 0x9f, 7]) = true := by decide

/-! ### what the reader materialises is bounded by what it consumed, on every input -/

open CdnsVerif.Proofs.Alloc in
/-- **Any schema without a repeated key, any bytes, any fuel**: the size of the value read plus the bytes left over is at most the
    size of the input. -/
theorem value_size_bounded_by_input (k : Kind) (hk : kindOk k = true) (f : Nat) (bs r : Bytes) (v : Val)
    (h : (readVal f k).run bs = .ok (v, r)) : vsize v + r.length ≤ bs.length :=
  (al_all f).1 k bs r v hk h

open CdnsVerif.Proofs.Alloc CdnsVerif.Model.Structs in
/-- the hypothesis holds for the two trees of the file: no struct of the preamble or block tree lists a key twice, at any depth -/
theorem file_schemas_ok : kindOk filePreamble = true ∧ kindOk (.arr block) = true := by decide +kernel

open CdnsVerif.Proofs.Alloc CdnsVerif.Model.File CdnsVerif.Model.Structs in
/-- **A whole file, any bytes**: preamble and block values together never exceed the input. -/
theorem file_values_bounded_by_input (f : Nat) (bs r : Bytes) (pv bv : Val) (h : (readFile f).run bs = .ok ((pv, bv), r)) :
    vsize pv + vsize bv + r.length ≤ bs.length := by
  unfold readFile at h
  obtain ⟨⟨len, indef⟩, r1, h1, h2⟩ := bind_ok h
  have hr1 := run_le _ _ _ _ h1
  simp only at h2
  split at h2
  · simp at h2
  · obtain ⟨t, r2, h3, h4⟩ := bind_ok h2
    have hr2 := run_le _ _ _ _ h3
    split at h4
    · simp at h4
    · obtain ⟨pv', r3, h5, h6⟩ := bind_ok h4
      have hp := value_size_bounded_by_input _ file_schemas_ok.1 f r2 r3 pv' h5
      obtain ⟨bv', r4, h7, h8⟩ := bind_ok h6
      have hb := value_size_bounded_by_input _ file_schemas_ok.2 f r3 r4 bv' h7
      split at h8
      · obtain ⟨_, r5, h9, h10⟩ := bind_ok h8
        have hr5 := run_le _ _ _ _ h9
        obtain ⟨he, rfl⟩ := pure_ok h10
        cases he
        omega
      · obtain ⟨he, rfl⟩ := pure_ok h8
        cases he
        omega

end CdnsVerif.Props.C03
