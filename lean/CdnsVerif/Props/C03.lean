/-
  C03 — reading untrusted bytes is memory-safe, bounded and fails only by exception.

  Per-layer theorems (the composed statement is their conjunction; that every memory access of
  the C++ is one of the modelled kinds is established by the sanitizer-instrumented
  correspondence, not proved – the property is claimed as a partial proof):

  * window: every byte the decoder reads lies inside the fetched window – `read_to_buffer`
    never returns with an empty window (`window_nonempty`), and the decoder's view of the input
    is exactly the remaining input (`C05.runW_refines`): no stale or out-of-buffer byte;
  * allocation: the reservation made for an announced length is at most one decoder buffer,
    whatever the length field says (`reserve_bounded`);
  * arithmetic: `add_time_offset` performs its signed addition only inside `int64_t`
    (`C17.addTimeOffset_no_overflow`), `read_integer`/`read_negative` saturate (`C07`);
  * recursion: `skip_item` keeps its nesting levels in a heap vector; the model's loop is
    iterative and a fuel linear in the input suffices (`C07.skip_exact_linear`);
  * renderers: every index `get_readable_dname` reads is ≤ size (the terminator) and every
    index it writes is < size (`dname_in_bounds`), for EVERY byte string.
-/
import CdnsVerif.Model.Render
import CdnsVerif.Props.C05
import CdnsVerif.Props.C07
import CdnsVerif.Props.C17

namespace CdnsVerif.Props.C03
open CdnsVerif.Model.Render CdnsVerif.Spec.Cbor

theorem reserve_bounded (announced : Nat) : reserveFor announced ≤ Generated.decBufferSize ∧ reserveFor announced ≤ announced := by
  unfold reserveFor
  split
  · exact ⟨by omega, Nat.le_refl _⟩
  · exact ⟨Nat.le_refl _, by omega⟩

/-- the window is never empty when a byte is taken from it -/
theorem window_nonempty (s : Model.Window.DecSt) (hs : C05.Inv s) (s' : Model.Window.DecSt)
    (h : Model.Window.readToBuffer s = .ok s') : s'.win ≠ [] := by
  have := C05.readToBuffer_spec s hs
  rw [h] at this
  exact this.2.1

def InBounds (name : Bytes) (a : Access) : Prop := a.idx ≤ name.length ∧ (a.write = true → a.idx < name.length)

theorem at_eq_zero_of_ge (name : Bytes) (pos : Nat) (h : name.length ≤ pos) : at_ name pos = 0 := by
  unfold at_; rw [List.getElem?_eq_none h]; rfl

theorem walk_in_bounds (name : Bytes) (fuel labelLen pos size : Nat) (acc : List Access)
    (hacc : ∀ a ∈ acc, InBounds name a) : ∀ a ∈ walk name fuel labelLen pos size acc, InBounds name a := by
  induction fuel generalizing labelLen pos size acc with
  | zero => simpa [walk] using hacc
  | succ fuel ih =>
    unfold walk
    by_cases h0 : labelLen = 0
    · rw [if_pos h0]; exact hacc
    · rw [if_neg h0]
      by_cases h1 : size + labelLen > name.length
      · rw [if_pos h1]; exact hacc
      · rw [if_neg h1]
        by_cases h2 : pos > name.length
        · rw [if_pos h2]; exact hacc
        · rw [if_neg h2]
          apply ih
          intro a ha
          by_cases hl : at_ name pos ≠ 0
          · rw [if_pos hl] at ha
            simp only [List.mem_append, List.mem_singleton] at ha
            rcases ha with (ha | rfl) | rfl
            · exact hacc a ha
            · exact ⟨by simp; omega, by simp⟩
            · refine ⟨by simp; omega, fun _ => ?_⟩
              simp only
              -- a non-zero byte was read at `pos`, so `pos` is a real index (the terminator reads 0)
              rcases Nat.lt_or_ge pos name.length with hlt | hge
              · exact hlt
              · exact absurd (at_eq_zero_of_ge name pos hge) hl
          · rw [if_neg hl] at ha
            simp only [List.mem_append, List.mem_singleton] at ha
            rcases ha with ha | rfl
            · exact hacc a ha
            · exact ⟨by simp; omega, by simp⟩

/-- Every access of the domain-name renderer is inside the string, for every input. -/
theorem dname_in_bounds (name : Bytes) : ∀ a ∈ dnameAccesses name, InBounds name a := by
  unfold dnameAccesses
  by_cases h : name = []
  · simp [h]
  · simp only [h, if_false]
    apply walk_in_bounds
    intro a ha
    simp only [List.mem_singleton] at ha
    subst ha
    exact ⟨by simp, by simp⟩

/-- the witness of the repaired defect: a 20-byte name whose first label claims 20 bytes -/
example : ∀ a ∈ dnameAccesses (20 :: List.replicate 19 65), InBounds (20 :: List.replicate 19 65) a :=
  dname_in_bounds _

end CdnsVerif.Props.C03
