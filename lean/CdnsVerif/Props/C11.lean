/-
  C11 — block tables de-duplicate, keep indices stable and stay referentially closed.
  Model: `Model.Table` (BlockTable/KeyRef with explicit storage).  All theorems are for an
  arbitrary element type with decidable equality, an arbitrary heap, and any hash satisfying
  `HashOk` (equal values hash equally wherever they are stored).
-/
import CdnsVerif.Model.Table

namespace CdnsVerif.Props.C11
open CdnsVerif.Model.Table

variable {α : Type} [DecidableEq α]

/-- the index of a table that was only ever filled through `add`: entry j refers to own element j -/
def entries (self a n : Nat) : List (Ref × Nat) := (List.range' a n).map fun j => ((⟨self, j⟩ : Ref), j)

/-- first position (counted from `a`) holding `k` -/
def scan (k : α) : List α → Nat → Option Nat
  | [], _ => none
  | v :: vs, a => if v = k then some a else scan k vs (a + 1)

theorem scan_none (k : α) (l : List α) (a : Nat) : scan k l a = none ↔ k ∉ l := by
  induction l generalizing a with
  | nil => simp [scan]
  | cons v vs ih =>
    unfold scan
    by_cases h : v = k
    · simp [h]
    · simp only [h, if_false, ih, List.mem_cons, not_or]
      exact ⟨fun hh => ⟨fun e => h e.symm, hh⟩, fun hh => hh.2⟩

theorem scan_some (k : α) (l : List α) (a j : Nat) (h : scan k l a = some j) : a ≤ j ∧ l[j - a]? = some k := by
  induction l generalizing a with
  | nil => simp [scan] at h
  | cons v vs ih =>
    unfold scan at h
    by_cases hv : v = k
    · simp only [hv, if_true, Option.some.injEq] at h; subst h; simp [hv]
    · simp only [hv, if_false] at h
      have := ih (a + 1) h
      refine ⟨by omega, ?_⟩
      have e : j - a = (j - (a + 1)) + 1 := by omega
      rw [e, List.getElem?_cons_succ]; exact this.2

/-- canonical state of an add-only table: own storage, no two equal elements, index = identity -/
def Canon (h : Heap α) (t : Table) : Prop :=
  ∃ its, h t.self = some its ∧ its.Nodup ∧ t.index = entries t.self 0 its.length

theorem items_of_canon (h : Heap α) (t : Table) (its : List α) (hc : h t.self = some its) : items h t = its := by
  simp [items, hc]

theorem deref_own (h : Heap α) (self j : Nat) (cell : List α) (hc : h self = some cell) :
    deref h ⟨self, j⟩ = cell[j]? := by simp [deref, hc]

theorem findIn_entries (hash : Hash α) (hok : HashOk hash) (h : Heap α) (self : Nat) (cell : List α)
    (hc : h self = some cell) (k : α) (a n : Nat) (hle : a + n ≤ cell.length) :
    findIn hash h k (entries self a n) = .ok (scan k ((cell.drop a).take n) a) := by
  induction n generalizing a with
  | zero => simp [entries, findIn, scan]
  | succ n ih =>
    have hlt : a < cell.length := by omega
    have e1 : entries self a (n + 1) = ((⟨self, a⟩ : Ref), a) :: entries self (a + 1) n := by
      simp [entries, List.range'_succ]
    have e2 : (cell.drop a).take (n + 1) = cell[a] :: (cell.drop (a + 1)).take n := by
      rw [List.drop_eq_getElem_cons hlt, List.take_succ_cons]
    rw [e1, e2]
    unfold findIn
    rw [deref_own h self a cell hc, List.getElem?_eq_getElem hlt]
    simp only
    unfold scan
    by_cases hv : cell[a] = k
    · rw [if_pos (show hash.stored ⟨self, a⟩ cell[a] = hash.probe k ∧ cell[a] = k from ⟨by rw [hv]; exact hok _ _, hv⟩),
        if_pos hv]
    · have : ¬ (hash.stored ⟨self, a⟩ cell[a] = hash.probe k ∧ cell[a] = k) := fun x => hv x.2
      rw [if_neg this, if_neg hv]
      exact ih (a + 1) (by omega)

/-- `find` on a canonical table: the position of the (unique) equal element, never a dangling access -/
theorem find_canon (hash : Hash α) (hok : HashOk hash) (h : Heap α) (t : Table) (its : List α)
    (hc : h t.self = some its) (hidx : t.index = entries t.self 0 its.length) (k : α) :
    find hash h t k = .ok (scan k its 0) := by
  unfold find
  rw [hidx, findIn_entries hash hok h t.self its hc k 0 its.length (by omega)]
  simp

theorem upsert_entries_absent (hash : Hash α) (h : Heap α) (self : Nat) (cell : List α)
    (hc : h self = some cell) (k : α) (r : Ref) (i a n : Nat) (hle : a + n ≤ cell.length)
    (habs : k ∉ (cell.drop a).take n) :
    upsert hash h k r i (entries self a n) = .ok (entries self a n ++ [(r, i)]) := by
  induction n generalizing a with
  | zero => simp [entries, upsert]
  | succ n ih =>
    have hlt : a < cell.length := by omega
    have e1 : entries self a (n + 1) = ((⟨self, a⟩ : Ref), a) :: entries self (a + 1) n := by
      simp [entries, List.range'_succ]
    have e2 : (cell.drop a).take (n + 1) = cell[a] :: (cell.drop (a + 1)).take n := by
      rw [List.drop_eq_getElem_cons hlt, List.take_succ_cons]
    rw [e2] at habs
    simp only [List.mem_cons, not_or] at habs
    rw [e1]
    unfold upsert
    rw [deref_own h self a cell hc, List.getElem?_eq_getElem hlt]
    simp only
    have : ¬ (hash.stored ⟨self, a⟩ cell[a] = hash.probe k ∧ cell[a] = k) := fun x => habs.1 x.2.symm
    simp only [this, if_false]
    rw [ih (a + 1) (by omega) habs.2]
    simp

theorem entries_succ (self n : Nat) : entries self 0 (n + 1) = entries self 0 n ++ [((⟨self, n⟩ : Ref), n)] := by
  simp [entries, List.range'_concat]

theorem setCell_same (h : Heap α) (c : Nat) (v : Option (List α)) : setCell h c v c = v := by simp [setCell]

/-- The specification of `add` on a canonical table. -/
theorem add_spec (hash : Hash α) (hok : HashOk hash) (h : Heap α) (t : Table) (hcan : Canon h t) (v : α) :
    ∃ h' t' i, add hash h t v = .ok (h', t', i) ∧ Canon h' t' ∧ t'.self = t.self ∧
      (items h' t')[i]? = some v ∧
      (v ∈ items h t → h' = h ∧ t' = t) ∧
      (v ∉ items h t → items h' t' = items h t ++ [v] ∧ i = (items h t).length) := by
  obtain ⟨its, hc, hnd, hidx⟩ := hcan
  have hit := items_of_canon h t its hc
  unfold add
  rw [find_canon hash hok h t its hc hidx v]
  cases hs : scan v its 0 with
  | some i =>
    have := scan_some v its 0 i hs
    simp only
    refine ⟨h, t, i, rfl, ⟨its, hc, hnd, hidx⟩, rfl, ?_, fun _ => ⟨rfl, rfl⟩, ?_⟩
    · rw [hit]; simpa using this.2
    · intro hn; rw [hit] at hn
      have := (scan_none v its 0).2 hn
      rw [hs] at this; cases this
  | none =>
    have hnotin : v ∉ its := (scan_none v its 0).1 hs
    simp only
    unfold addValue
    rw [hit]
    dsimp only
    have hc' : setCell h t.self (some (its ++ [v])) t.self = some (its ++ [v]) := setCell_same _ _ _
    have hup := upsert_entries_absent hash (setCell h t.self (some (its ++ [v]))) t.self (its ++ [v]) hc' v
      ⟨t.self, its.length⟩ its.length 0 its.length (by simp) (by simpa using hnotin)
    rw [hidx, hup]
    simp only
    refine ⟨_, _, _, rfl, ⟨its ++ [v], hc', ?_, ?_⟩, rfl, ?_, ?_, ?_⟩
    · rw [List.nodup_append]
      exact ⟨hnd, by simp, by intro a ha b hb; simp at hb; subst hb; intro e; subst e; exact hnotin ha⟩
    · simp only [List.length_append, List.length_singleton]; exact (entries_succ t.self its.length).symm
    · simp [items, hc']
    · intro hin; exact absurd hin hnotin
    · intro _; simp [items, hc']

/-- Adding a value returns the index of an entry equal to that value. -/
theorem add_returns_equal (hash : Hash α) (hok : HashOk hash) (h : Heap α) (t : Table) (hcan : Canon h t) (v : α) :
    ∃ h' t' i, add hash h t v = .ok (h', t', i) ∧ Model.Table.get h' t' i = some v := by
  obtain ⟨h', t', i, he, _, _, hg, _⟩ := add_spec hash hok h t hcan v
  exact ⟨h', t', i, he, hg⟩

/-- Adding an equal value again returns the same index and does not grow the table. -/
theorem add_idempotent (hash : Hash α) (hok : HashOk hash) (h : Heap α) (t : Table) (hcan : Canon h t) (v : α)
    (h1 : Heap α) (t1 : Table) (i : Nat) (he : add hash h t v = .ok (h1, t1, i)) :
    add hash h1 t1 v = .ok (h1, t1, i) := by
  obtain ⟨h', t', i', he', hcan', _, hg, _, _⟩ := add_spec hash hok h t hcan v
  rw [he] at he'
  cases he'
  obtain ⟨its, hc, hnd, hidx⟩ := hcan'
  have hit := items_of_canon h1 t1 its hc
  rw [hit] at hg
  unfold add
  rw [find_canon hash hok h1 t1 its hc hidx v]
  have hin : v ∈ its := List.mem_of_getElem? hg
  cases hs : scan v its 0 with
  | none => exact absurd hin ((scan_none v its 0).1 hs)
  | some j =>
    simp only
    have hj := (scan_some v its 0 j hs).2
    simp only [Nat.sub_zero] at hj
    have hij : i = j := by
      have hi' : i < its.length := (List.getElem?_eq_some_iff.1 hg).1
      have hj' : j < its.length := (List.getElem?_eq_some_iff.1 hj).1
      have e1 : its[i] = v := by simpa [List.getElem?_eq_getElem hi'] using hg
      have e2 : its[j] = v := by simpa [List.getElem?_eq_getElem hj'] using hj
      exact (List.getElem?_inj hi' hnd).1 (by rw [hg, hj])
    rw [hij]

/-- No table ever contains two equal entries; entries stay where they are (indices stable) –
    for every sequence of `add`s on a fresh table. -/
def addAll (hash : Hash α) (h : Heap α) (t : Table) : List α → Outcome (Heap α × Table)
  | [] => .ok (h, t)
  | v :: vs =>
    match add hash h t v with
    | .ok (h', t', _) => addAll hash h' t' vs
    | .dangling => .dangling

theorem fresh_canon (h : Heap α) (c : Nat) : Canon (fresh h c).1 (fresh h c).2 :=
  ⟨[], by simp [fresh, setCell], List.nodup_nil, by simp [fresh, entries]⟩

theorem addAll_canon (hash : Hash α) (hok : HashOk hash) (vs : List α) :
    ∀ (h : Heap α) (t : Table), Canon h t →
      ∃ h' t', addAll hash h t vs = .ok (h', t') ∧ Canon h' t' ∧ (∃ ext, items h' t' = items h t ++ ext) := by
  induction vs with
  | nil => intro h t hc; exact ⟨h, t, rfl, hc, [], by simp⟩
  | cons v vs ih =>
    intro h t hc
    obtain ⟨h1, t1, i, he, hc1, _, _, hin, hout⟩ := add_spec hash hok h t hc v
    obtain ⟨h2, t2, he2, hc2, ext, hext⟩ := ih h1 t1 hc1
    refine ⟨h2, t2, by simp only [addAll, he]; exact he2, hc2, ?_⟩
    by_cases hv : v ∈ items h t
    · obtain ⟨rfl, rfl⟩ := hin hv; exact ⟨ext, hext⟩
    · rw [(hout hv).1] at hext; exact ⟨v :: ext, by rw [hext]; simp⟩

theorem no_duplicates (hash : Hash α) (hok : HashOk hash) (h : Heap α) (c : Nat) (vs : List α) :
    ∃ h' t', addAll hash (fresh h c).1 (fresh h c).2 vs = .ok (h', t') ∧ (items h' t').Nodup := by
  obtain ⟨h', t', he, ⟨its, hcell, hnd, _⟩, _⟩ := addAll_canon hash hok vs _ _ (fresh_canon h c)
  exact ⟨h', t', he, by rw [items_of_canon h' t' its hcell]; exact hnd⟩

/-- distinct values always get distinct indices -/
theorem distinct_distinct (h : Heap α) (t : Table) (i j : Nat) (x y : α) (hx : Model.Table.get h t i = some x) (hy : Model.Table.get h t j = some y)
    (hne : x ≠ y) : i ≠ j := by
  intro e; subst e; rw [hx] at hy; cases hy; exact hne rfl

/-- indices stay valid and keep denoting the same value while values are added -/
theorem stable (hash : Hash α) (hok : HashOk hash) (h : Heap α) (t : Table) (hcan : Canon h t) (vs : List α)
    (i : Nat) (x : α) (hx : Model.Table.get h t i = some x) :
    ∃ h' t', addAll hash h t vs = .ok (h', t') ∧ Model.Table.get h' t' i = some x := by
  obtain ⟨h', t', he, _, ext, hext⟩ := addAll_canon hash hok vs h t hcan
  refine ⟨h', t', he, ?_⟩
  unfold Model.Table.get at *
  rw [hext]
  have hi : i < (items h t).length := (List.getElem?_eq_some_iff.1 hx).1
  rw [List.getElem?_append_left hi]; exact hx

/-- after `clear()` nothing of the previous content is visible -/
theorem clear_empty (h : Heap α) (t : Table) :
    items (clear h t).1 (clear h t).2 = [] ∧ (clear h t).2.index = [] ∧ Canon (clear h t).1 (clear h t).2 := by
  refine ⟨by simp [clear, items, setCell], rfl, ⟨[], by simp [clear, setCell], List.nodup_nil, by simp [clear, entries]⟩⟩

/-! ### equal keys hash equally: which members each hash reads

  The nine key types and the bytes their `hash_value` feeds to CRC32 (src/block.h, hash.h).
  `==` compares all members (AddressEventCount additionally `ae_count`, which the hash does
  not read – harmless: equal ⇒ equal hash is what `unordered_map` needs). -/

structure QRS where
  m : List (Option Nat)        -- the 17 optional members in declaration order
  deriving DecidableEq
structure MMD where
  sai : Option Nat
  sport : Option Nat
  tf : Option Nat
  payload : Option (List Nat)
  deriving DecidableEq
structure AEC where
  aeType : Nat
  aeCode : Option Nat
  addr : Nat
  tf : Option Nat
  count : Nat
  deriving DecidableEq

/-- members fed to the hash, in order, absent ones skipped (the seed passes through) -/
def hashInputQRS (k : QRS) : List Nat := k.m.filterMap id
def hashInputMMD (k : MMD) : List (List Nat) :=
  [k.sai.toList, k.sport.toList, k.tf.toList, (k.payload.getD [])] ++ [if k.payload.isSome then [1] else []]
def hashInputAEC (k : AEC) : List Nat := [k.aeType] ++ k.aeCode.toList ++ [k.addr] ++ k.tf.toList

theorem hashInput_congr_QRS (a b : QRS) (h : a = b) : hashInputQRS a = hashInputQRS b := by rw [h]
theorem hashInput_congr_MMD (a b : MMD) (h : a = b) : hashInputMMD a = hashInputMMD b := by rw [h]
theorem hashInput_congr_AEC (a b : AEC) (h : a = b) : hashInputAEC a = hashInputAEC b := by rw [h]

/-- a hash that reads only the value (through any function of the members above) satisfies `HashOk` -/
theorem hashOk_of_value_hash (f : α → Nat) : HashOk ({ stored := fun _ v => f v, probe := f } : Hash α) := by
  intro r v; rfl

/-- … whereas a hash that reads where the element is stored (the pinned tree hashed the
    `std::string` object of the payload, i.e. its heap pointer) does not -/
example : ¬ HashOk ({ stored := fun r (_ : Nat) => r.pos, probe := fun _ => 0 } : Hash Nat) := by
  intro h; have := h ⟨0, 1⟩ 5; simp at this

/-! Non-vacuity -/
example : ∃ h' t', addAll ({ stored := fun _ v => v % 3, probe := fun v => v % 3 } : Hash Nat)
    (fresh (fun _ => none : Heap Nat) 7).1 (fresh (fun _ => none : Heap Nat) 7).2 [5, 8, 5, 2, 8] = .ok (h', t') ∧ items h' t' = [5, 8, 2] := by
  refine ⟨_, _, rfl, ?_⟩
  decide

end CdnsVerif.Props.C11
