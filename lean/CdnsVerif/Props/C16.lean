/-
  C16 — output failures are reported, never swallowed, and rotation recovers from them.

  Models: `Model.Writer.BW` (descriptor writer: one system call per write, `m_failed` flag) and
  `NW` below (named writer: `std::ofstream` with its own buffer, flushed at times the library
  does not control, sticky fail state checked after every write and at rotation).
  For every fault schedule (which call the OS rejects or cuts short) and every flush schedule:

  * `bw_failure_reported` / `nw_failure_reported`: if the OS did not receive every byte handed to
    the writer for an output, some `write` threw, or the `rotate_output` closing it threw;
  * `bw_reported_once`: after the exception further data is dropped without further exceptions;
  * `bw_recovery` / `nw_recovery`: `rotate_output` after a reported failure returns normally and
    yields a fresh writer, on which fault-free writes deliver exactly their data.
  The composition for an uncompressed output is proved below over `Model.Stack` – exporter (buffered block,
  `m_blocks_written`) on encoder (staging buffer, `flush_buffer` anywhere) on the bottom writer, as ONE state machine, for
  every sequence of API calls, every fault schedule and every placement of the encoder's flushes:
  * `stack_failure_reported`: an output closed by a `rotate_output` lost no byte unless an API call threw while it was open
    (the closing call included) – `rotate_output` never returns normally for an output that silently lost bytes;
  * `stack_closed_output_is_complete_file`: …and what the OS holds of such an output is nothing at all or exactly header, the blocks
    written, break;
  * `stack_block_kept`: an exception out of `write_block()` / a flushing `buffer_*()` leaves the records buffered (the one
    just handed over included);
  * `stack_reported_once`: after the report, further `write_block()` / `buffer_*()` calls on that output return normally;
  * `stack_recovery`: after a reported failure `rotate_output(healthy, false)` returns normally with the records still
    buffered, `write_block()` then writes header and block, and the next rotation closes a complete output
    `header ++ block ++ break` with nothing thrown.
  Partial: the compressor between encoder and bottom writer only buffers and propagates; that part (and named outputs'
  `std::ofstream`) is modelled separately (`CW`, `NW`) and composed by the fault-injection correspondence, not proved.
-/
import CdnsVerif.Model.Writer
import CdnsVerif.Proofs.Stack
import CdnsVerif.Proofs.StackShape
import CdnsVerif.Model.File

namespace CdnsVerif.Props.C16
open CdnsVerif.Model.Writer CdnsVerif.Spec.Cbor

def handed (calls : List (Bytes × Resp)) : Bytes := (calls.map (·.1)).flatten

/-- a write throws exactly when it makes a system call that the OS does not complete -/
theorem bw_write_throws_iff (w : BW) (c : Bytes) (r : Resp) :
    (w.write c r).2 = true ↔ (w.failed = false ∧ r ≠ .ok) := by
  unfold BW.write
  cases hf : w.failed <;> cases r <;> simp

/-- if no write threw, the OS has received every byte handed to the writer -/
theorem bw_failure_reported (w : BW) (hw : w.failed = false) (calls : List (Bytes × Resp)) :
    (∀ t ∈ (w.writes calls).2, t = false) → (w.writes calls).1.out = w.out ++ handed calls ∧ (w.writes calls).1.failed = false := by
  induction calls generalizing w with
  | nil => intro _; simp [BW.writes, handed, hw]
  | cons cr rest ih =>
    obtain ⟨c, r⟩ := cr
    intro hno
    simp only [BW.writes] at hno ⊢
    have h1 : (w.write c r).2 = false := hno _ (by simp)
    have hr : r = .ok := by
      cases r
      · rfl
      · have := (bw_write_throws_iff w c .fail).2 ⟨hw, by simp⟩; rw [h1] at this; cases this
      · have := (bw_write_throws_iff w c .short).2 ⟨hw, by simp⟩; rw [h1] at this; cases this
    subst hr
    have hst : w.write c .ok = ({ w with out := w.out ++ c }, false) := by simp [BW.write, hw]
    rw [hst] at hno ⊢
    have := ih { w with out := w.out ++ c } hw (fun t ht => hno t (by simp [ht]))
    simp only at this ⊢
    rw [this.1]
    exact ⟨by simp [handed], this.2⟩

/-- once the failure was reported (`failed`), nothing more is thrown and nothing more is written -/
theorem bw_reported_once (w : BW) (hw : w.failed = true) (calls : List (Bytes × Resp)) :
    (w.writes calls).1 = w ∧ ∀ t ∈ (w.writes calls).2, t = false := by
  induction calls with
  | nil => simp [BW.writes]
  | cons cr rest ih =>
    obtain ⟨c, r⟩ := cr
    have hst : w.write c r = (w, false) := by simp [BW.write, hw]
    simp only [BW.writes, hst]
    exact ⟨ih.1, by intro t ht; simp at ht; rcases ht with rfl | ht; rfl; exact ih.2 t ht⟩

/-- rotation always yields a fresh, healthy writer; fault-free writes on it deliver exactly their data -/
theorem bw_recovery (w : BW) (calls : List (Bytes × Resp)) (hok : ∀ cr ∈ calls, cr.2 = .ok) :
    ((w.rotate).2.writes calls).1.out = handed calls ∧ ∀ t ∈ ((w.rotate).2.writes calls).2, t = false := by
  have key : ∀ (v : BW), v.failed = false → (v.writes calls).1.out = v.out ++ handed calls ∧ ∀ t ∈ (v.writes calls).2, t = false := by
    induction calls with
    | nil => intro v _; simp [BW.writes, handed]
    | cons cr rest ih =>
      obtain ⟨c, r⟩ := cr
      intro v hv
      have hr : r = .ok := hok (c, r) (by simp)
      subst hr
      have hst : v.write c .ok = ({ v with out := v.out ++ c }, false) := by simp [BW.write, hv]
      simp only [BW.writes, hst]
      have := ih (fun cr h => hok cr (by simp [h])) { v with out := v.out ++ c } hv
      exact ⟨by rw [this.1]; simp [handed], by intro t ht; simp at ht; rcases ht with rfl | ht; rfl; exact this.2 t ht⟩
  have := key (w.rotate).2 rfl
  simpa [BW.rotate] using this

/-! ### named output: std::ofstream in between -/

structure NW where
  os : Bytes         -- bytes the OS accepted for '<name>.part'
  buf : Bytes        -- bytes still in the stream buffer
  bad : Bool         -- the stream's sticky fail state
  failed : Bool      -- m_failed
  deriving Repr

/-- the stream tries to hand its buffer to the OS -/
def NW.flush (w : NW) (r : Resp) : NW :=
  if w.bad ∨ w.buf = [] then w
  else match r with
    | .ok => { w with os := w.os ++ w.buf, buf := [] }
    | .short => { w with os := w.os ++ w.buf.take (w.buf.length / 2), buf := [], bad := true }
    | .fail => { w with buf := [], bad := true }

/-- `Writer<std::string>::write`; `flushNow` = the stream decides to flush during this call -/
def NW.write (w : NW) (chunk : Bytes) (flushNow : Bool) (r : Resp) : NW × Bool :=
  if w.failed then (w, false)
  else
    let w1 := if w.bad then w else { w with buf := w.buf ++ chunk }
    let w2 := if flushNow then w1.flush r else w1
    if w2.bad then ({ w2 with failed := true }, true) else (w2, false)

def NW.writes (w : NW) : List (Bytes × Bool × Resp) → NW × List Bool
  | [] => (w, [])
  | (c, f, r) :: rest =>
    let (w1, t) := w.write c f r
    let (w2, ts) := NW.writes w1 rest
    (w2, t :: ts)

/-- `rotate_output`: final flush + close; returns (content of the closed file, threw, fresh writer) -/
def NW.rotate (w : NW) (r : Resp) : Bytes × Bool × NW :=
  let w1 := w.flush r
  let complete := !w1.bad
  (w1.os, !complete && !w.failed, { os := [], buf := [], bad := false, failed := false })

def nhanded (calls : List (Bytes × Bool × Resp)) : Bytes := (calls.map (·.1)).flatten

/-- while no failure has been reported the stream is good and OS + buffer hold exactly what was handed over -/
def NWInv (w : NW) (given : Bytes) : Prop := w.failed = false → w.bad = false ∧ w.os ++ w.buf = given

theorem nw_write_step (w : NW) (g c : Bytes) (f : Bool) (r : Resp) (h : NWInv w g) :
    NWInv (w.write c f r).1 (g ++ c) ∧ ((w.write c f r).2 = false → (w.write c f r).1.failed = w.failed) := by
  cases hf : w.failed
  · obtain ⟨hb, hg⟩ := h hf
    cases f
    · simp [NW.write, hf, hb, NWInv, ← hg]
    · by_cases hbuf : w.buf ++ c = []
      · simp [NW.write, NW.flush, hf, hb, hbuf, NWInv, ← hg]
      · cases r <;> simp [NW.write, NW.flush, hf, hb, hbuf, NWInv, ← hg]
  · simp [NW.write, hf, NWInv]

theorem nw_writes_inv (w : NW) (g : Bytes) (calls : List (Bytes × Bool × Resp)) (h : NWInv w g) :
    NWInv (w.writes calls).1 (g ++ nhanded calls) ∧
    ((∀ t ∈ (w.writes calls).2, t = false) → (w.writes calls).1.failed = w.failed) := by
  induction calls generalizing w g with
  | nil => simp [NW.writes, nhanded]; exact h
  | cons cfr rest ih =>
    obtain ⟨c, f, r⟩ := cfr
    have h1 := nw_write_step w g c f r h
    have h2 := ih (w.write c f r).1 (g ++ c) h1.1
    simp only [NW.writes]
    refine ⟨by simpa [nhanded, List.append_assoc] using h2.1, fun hno => ?_⟩
    have ht : (w.write c f r).2 = false := hno _ (by simp)
    rw [h2.2 (fun t ht' => hno t (by simp [ht'])), h1.2 ht]

/-- Named output: if neither a write nor the closing `rotate_output` threw, the closed file
    holds every byte handed to the writer – for every flush schedule and fault schedule. -/
theorem nw_failure_reported (calls : List (Bytes × Bool × Resp)) (r : Resp) :
    let w0 : NW := { os := [], buf := [], bad := false, failed := false }
    (∀ t ∈ (w0.writes calls).2, t = false) → ((w0.writes calls).1.rotate r).2.1 = false →
      ((w0.writes calls).1.rotate r).1 = nhanded calls := by
  intro w0 hno hrot
  have hinv : NWInv w0 [] := fun _ => ⟨rfl, rfl⟩
  have h := nw_writes_inv w0 [] calls hinv
  have hf : (w0.writes calls).1.failed = false := h.2 hno
  obtain ⟨hb, hg⟩ := h.1 hf
  generalize (w0.writes calls).1 = w at *
  simp only [List.nil_append] at hg
  unfold NW.rotate at hrot ⊢
  simp only at hrot ⊢
  unfold NW.flush at hrot ⊢
  by_cases hbuf : w.buf = []
  · simp [hb, hbuf] at hrot ⊢; rw [← hg, hbuf]; simp
  · cases r <;> simp [hb, hbuf, hf] at hrot ⊢
    exact hg

/-- rotation hands back a fresh writer whatever happened before, and after a REPORTED failure it
    does not throw again -/
theorem nw_recovery (w : NW) (r : Resp) :
    (w.rotate r).2.2 = { os := [], buf := [], bad := false, failed := false } ∧
    (w.failed = true → (w.rotate r).2.1 = false) := by
  refine ⟨rfl, fun h => ?_⟩
  simp [NW.rotate, h]

/-! Non-vacuity: a schedule where the second write is rejected – it is the call that throws,
    and the third is dropped silently. -/
example : (({ out := [], failed := false } : BW).writes [([1, 2], .ok), ([3], .fail), ([4], .ok)]).2 = [false, true, false] := by decide
example : (({ out := [], failed := false } : BW).writes [([1, 2], .ok), ([3], .fail), ([4], .ok)]).1.out = [1, 2] := by decide


/-! ### the layers above the bottom writer across a rotation that throws (defects D17, D18)

The file writer opens the new file *before* it reports that the old one could not be completed (`nw_recovery`: the writer it
hands back is fresh).  The two layers above must leave themselves in a state that fits the new, healthy output although an
exception passes through them. -/

/-- what the layer below did when asked to rotate -/
inductive Below where
  | switched            -- new output open, returned normally
  | switchedAndThrew    -- new output open, then the failure of the old one was reported
  | refused             -- threw, no usable output (destination cannot be opened)
  deriving DecidableEq, Repr

/-- `GzipCborOutputWriter` / `XzCborOutputWriter`: `live` = the compressor state exists, `start` = `m_start_stream` -/
structure CW where
  live : Bool
  start : Bool
  deriving DecidableEq, Repr

/-- `rotate_output`: `finish()` (may fail: the stream is released, nothing is rotated), then the layer below, then `open()` -/
def CW.rotate (w : CW) (finishOk : Bool) (b : Below) : CW × Bool :=
  if !finishOk then ({ w with live := false }, true)
  else match b with
    | .switched => ({ live := true, start := false }, false)
    | _ => ({ live := false, start := true }, true)

/-- `write`: `true` = the data goes into a compressed stream, `false` = it is dropped (failure already reported) -/
def CW.write (w : CW) : CW × Bool :=
  let w1 : CW := if w.start then { live := true, start := false } else w
  (w1, w1.live)

/-- the code before the repair: `open()` was simply skipped when the layer below threw -/
def CW.rotateOld (w : CW) (finishOk : Bool) (b : Below) : CW × Bool :=
  if !finishOk then ({ w with live := false }, true)
  else match b with
    | .switched => ({ live := true, start := false }, false)
    | _ => ({ live := false, start := false }, true)

/-- D18 repaired: whenever the old stream could be finished, the first data written after the rotation goes into a stream -
    whether the layer below returned normally, threw after switching, or refused the destination (then the write fails below
    and is reported there). -/
theorem cw_write_after_rotation_is_not_dropped (w : CW) (b : Below) : ((w.rotate true b).1.write).2 = true := by
  cases b <;> rfl

/-- ... and the defect as it was: after "switched and threw" the data was dropped -/
theorem cw_old_dropped : ∃ w : CW, ((w.rotateOld true .switchedAndThrew).1.write).2 = false := ⟨⟨true, false⟩, rfl⟩

/-- a refused destination leaves no half-started stream behind: the next rotation's `finish()` has nothing to write to it -/
theorem cw_refused_leaves_no_stream (w : CW) : (w.rotate true .refused).1.live = false := rfl

/-- `CdnsExporter`: `m_blocks_written` -/
structure EX where
  blocksWritten : Nat
  deriving DecidableEq, Repr

/-- `rotate_output` (repaired): the counter is reset before the encoder rotates, so also when that throws -/
def EX.rotate (_ : EX) (_threw : Bool) : EX := { blocksWritten := 0 }
/-- before the repair the reset was skipped by the exception -/
def EX.rotateOld (e : EX) (threw : Bool) : EX := if threw then e else { blocksWritten := 0 }
/-- `write_block`: returns whether the file header is written first -/
def EX.writeBlock (e : EX) : EX × Bool := ({ blocksWritten := e.blocksWritten + 1 }, e.blocksWritten == 0)
/-- the closing break is written iff a block was written -/
def EX.writesBreak (e : EX) : Bool := decide (e.blocksWritten > 0)

/-- D17 repaired: after ANY rotation the next block starts with the file header and an output that received no block gets no break -/
theorem ex_header_after_rotation (e : EX) (threw : Bool) :
    ((e.rotate threw).writeBlock).2 = true ∧ (e.rotate threw).writesBreak = false := ⟨rfl, rfl⟩

theorem ex_old_lost_header : ∃ e : EX, ((e.rotateOld true).writeBlock).2 = false ∧ (e.rotateOld true).writesBreak = true :=
  ⟨⟨1⟩, rfl, rfl⟩


/-! ### the whole output stack as one machine (`Model.Stack`) -/

section Stack
open CdnsVerif.Model.Stack
variable (hdr : Bytes) (enc : List Nat → Bytes)

/-- between API calls: the bookkeeping of `Proofs.Stack.Core`, and a writer whose failure flag is set has thrown -/
def SInv (s : St) : Prop := Core s ∧ (s.threw = false → s.w.failed = false)

theorem sinv_init : SInv St.init := ⟨⟨fun _ => rfl, by simp [St.init]⟩, fun _ => rfl⟩

theorem sinv_step (s : St) (op : Op) (h : SInv s) : SInv (step hdr enc s op).1 := by
  cases op with
  | buffer r => exact ⟨⟨h.1.1, h.1.2⟩, h.2⟩
  | bufferW r hc bc =>
    have hs : Core { s with cur := s.cur ++ [r] } := ⟨h.1.1, h.1.2⟩
    have c := writeBlock_core hdr enc { s with cur := s.cur ++ [r] } hc bc hs
    have f := writeBlock_frame hdr enc { s with cur := s.cur ++ [r] } hc bc
    refine ⟨⟨c.1, c.2⟩, fun hth => ?_⟩
    simp only [step, Bool.or_eq_false_iff] at hth
    exact writeBlock_quiet hdr enc _ hc bc hth.2 (h.2 (by rw [← f.1]; exact hth.1))
  | writeBlock hc bc =>
    have c := writeBlock_core hdr enc s hc bc h.1
    have f := writeBlock_frame hdr enc s hc bc
    refine ⟨⟨c.1, c.2⟩, fun hth => ?_⟩
    simp only [step, Bool.or_eq_false_iff] at hth
    exact writeBlock_quiet hdr enc _ hc bc hth.2 (h.2 (by rw [← f.1]; exact hth.1))
  | rotate exp hc bc kc r =>
    have c := rotate_core hdr enc s exp hc bc kc r h.1 h.2
    refine ⟨⟨c.1.1, c.1.2⟩, fun hth => ?_⟩
    simp only [step, Bool.or_eq_false_iff] at hth
    exact (c.2 hth.2).1

theorem sinv_run (ops : List Op) : ∀ s, SInv s → SInv (run hdr enc s ops).1 := by
  induction ops with
  | nil => intro s h; exact h
  | cons op ops ih => intro s h; exact ih _ (sinv_step hdr enc s op h)

/-- **Failures are reported.**  Whatever the application calls, wherever the encoder flushes and whichever writes the OS
    rejects or cuts short: an output that was closed by `rotate_output` and during whose lifetime no API call threw (the
    closing call included – an output is only closed by a call that returns normally) has reached the OS complete. -/
theorem stack_failure_reported (ops : List Op) :
    ∀ o ∈ (run hdr enc St.init ops).1.closed, o.threw = false → o.os = o.given :=
  (sinv_run hdr enc ops St.init sinv_init).1.2

/-- …and as long as nothing threw for the output still open, the OS and the staging buffer together hold everything produced -/
theorem stack_open_output_complete (ops : List Op) (h : (run hdr enc St.init ops).1.threw = false) :
    (run hdr enc St.init ops).1.w.out ++ (run hdr enc St.init ops).1.buf = (run hdr enc St.init ops).1.given :=
  let i := sinv_run hdr enc ops St.init sinv_init
  i.1.1 (i.2 h)

/-- **The failed block stays buffered.**  An exception out of `write_block()` leaves the buffered records (and the block
    counter) as they were; out of a `buffer_*()` call that flushes, the record just handed over is buffered too. -/
theorem stack_block_kept (s : St) (hc bc : Cuts) :
    ((step hdr enc s (.writeBlock hc bc)).2 = true → (step hdr enc s (.writeBlock hc bc)).1.cur = s.cur) ∧
    (∀ r, (step hdr enc s (.bufferW r hc bc)).2 = true → (step hdr enc s (.bufferW r hc bc)).1.cur = s.cur ++ [r]) :=
  ⟨fun h => (writeBlock_keeps hdr enc s hc bc h).1, fun r h => (writeBlock_keeps hdr enc { s with cur := s.cur ++ [r] } hc bc h).1⟩

/-- **Rotation recovers.**  In any state in which the failure of the current output was reported (`m_failed`), with records
    buffered: `rotate_output(healthy, false)` returns normally whatever the old output still answers; the records are still
    buffered; `write_block()` on the new output (writes accepted) returns normally; and the rotation closing it returns
    normally and leaves exactly `header ++ block(records) ++ break`, all of it accepted by the OS. -/
theorem stack_recovery (s : St) (h : SInv s) (hf : s.w.failed = true) (hcur : s.cur ≠ [])
    (kc : Cuts) (r : Resp) (hc bc kc2 : Cuts) (hok : AllOk hc ∧ AllOk bc ∧ AllOk kc2) :
    let s1 := (step hdr enc s (.rotate false [] [] kc r))
    let s2 := (step hdr enc s1.1 (.writeBlock hc bc))
    let s3 := (step hdr enc s2.1 (.rotate false [] [] kc2 .ok))
    s1.2 = false ∧ s1.1.cur = s.cur ∧ s2.2 = false ∧ s2.1.cur = [] ∧ s3.2 = false ∧
    s3.1.closed.getLast? = some ⟨hdr ++ enc s.cur ++ [0xff], hdr ++ enc s.cur ++ [0xff], false⟩ := by
  intro s1 s2 s3
  have r1 := rotate_recovers hdr enc s kc r hf
  have c1 := (rotate_core hdr enc s false [] [] kc r h.1 h.2).1
  -- state after the first rotation (the ghost flag is `false || false`)
  have e1 : s1.1 = { (rotate hdr enc s false [] [] kc r).1 with threw := (rotate hdr enc s false [] [] kc r).1.threw || false } := by
    show (step hdr enc s (.rotate false [] [] kc r)).1 = _
    simp only [step, r1.1]
  have hs1 : s1.2 = false := by show (step hdr enc s (.rotate false [] [] kc r)).2 = false; simp only [step]; exact r1.1
  have cur1 : s1.1.cur = s.cur := by rw [e1]; exact r1.2.1
  have bw1 : s1.1.bw = 0 := by rw [e1]; exact r1.2.2.1
  have given1 : s1.1.given = [] := by rw [e1]; exact r1.2.2.2.2.1
  have f1 : s1.1.w.failed = false := by rw [e1]; exact r1.2.2.2.2.2.1
  have th1 : s1.1.threw = false := by rw [e1]; simp only [Bool.or_false]; exact r1.2.2.2.2.2.2
  have core1 : Core s1.1 := by rw [e1]; exact ⟨c1.1, c1.2⟩
  have hcur1 : s1.1.cur ≠ [] := by rw [cur1]; exact hcur
  -- the block on the fresh output
  have w2 := writeBlock_fresh hdr enc s1.1 hc bc ⟨hok.1, hok.2.1⟩ f1 bw1 hcur1
  have c2 := writeBlock_core hdr enc s1.1 hc bc core1
  have fr2 := writeBlock_frame hdr enc s1.1 hc bc
  have e2 : s2.1 = { (writeBlock hdr enc s1.1 hc bc).1 with threw := (writeBlock hdr enc s1.1 hc bc).1.threw || false } := by
    show (step hdr enc s1.1 (.writeBlock hc bc)).1 = _
    simp only [step, w2.1]
  have hs2 : s2.2 = false := by show (step hdr enc s1.1 (.writeBlock hc bc)).2 = false; simp only [step]; exact w2.1
  have core2 : Core s2.1 := by rw [e2]; exact ⟨c2.1, c2.2⟩
  have f2 : s2.1.w.failed = false := by rw [e2]; exact w2.2.2.2.2
  have bw2 : s2.1.bw > 0 := by rw [e2]; show (writeBlock hdr enc s1.1 hc bc).1.bw > 0; rw [w2.2.2.2.1]; exact Nat.one_pos
  have given2 : s2.1.given = hdr ++ enc s.cur := by
    rw [e2]; show (writeBlock hdr enc s1.1 hc bc).1.given = _; rw [w2.2.1, given1, cur1]; simp
  have th2 : s2.1.threw = false := by rw [e2]; simp only [Bool.or_false]; rw [fr2.1]; exact th1
  -- the closing rotation
  have r3 := rotate_closes_ok hdr enc s2.1 kc2 core2 f2 bw2 hok.2.2
  refine ⟨hs1, cur1, hs2, by rw [e2]; exact w2.2.2.1, ?_, ?_⟩
  · show (step hdr enc s2.1 (.rotate false [] [] kc2 .ok)).2 = false
    simp only [step]; exact r3.1
  · show (step hdr enc s2.1 (.rotate false [] [] kc2 .ok)).1.closed.getLast? = _
    simp only [step]
    rw [r3.2, given2, th2]
    simp

/-- **Reported once.**  After the failure of the current output was reported, `write_block()` and flushing `buffer_*()` calls on it
    return normally (their data is dropped with the output that is lost anyway) – the exception is not repeated call after call –
    until the application rotates. -/
theorem stack_reported_once (s : St) (hf : s.w.failed = true) (hc bc : Cuts) :
    (step hdr enc s (.writeBlock hc bc)).2 = false ∧ (∀ r, (step hdr enc s (.bufferW r hc bc)).2 = false) ∧
    (step hdr enc s (.writeBlock hc bc)).1.w.failed = true :=
  ⟨(writeBlock_failed hdr enc s hc bc hf).1, fun r => (writeBlock_failed hdr enc { s with cur := s.cur ++ [r] } hc bc hf).1,
   (writeBlock_failed hdr enc s hc bc hf).2⟩

/-- **What reaches the operating system is a complete file or nothing.**  For every API history, fault schedule and flush placement:
    an output closed by `rotate_output` during whose lifetime no API call threw holds – as accepted by the OS – either no byte at
    all, or exactly `header ++ block₁ ++ … ++ blockₙ ++ break` for the n ≥ 1 non-empty blocks written to it (C13/C02's "self-contained
    file or empty", here at the level of the system calls, combined with `stack_failure_reported`). -/
theorem stack_closed_output_is_complete_file (ops : List Op) :
    ∀ o ∈ (run hdr enc St.init ops).1.closed, o.threw = false →
      o.os = [] ∨ ∃ bl : List (List Nat), bl ≠ [] ∧ (∀ b ∈ bl, b ≠ []) ∧ o.os = hdr ++ (bl.map enc).flatten ++ [0xff] := by
  intro o ho hth
  have h1 := stack_failure_reported hdr enc ops o ho hth
  have h2 := (shape_run hdr enc ops St.init (shape_init hdr enc)).2 o ho hth
  rw [h1]; exact h2

open CdnsVerif.Model.File CdnsVerif.Model.Schema CdnsVerif.Model.Structs in
/-- …in the notation of the file model: with the header the exporter writes for preamble `pv` and blocks serialised by the block
    writer (`blockOf` = the block value built from a group of records), a non-empty output closed without a reported failure is, byte
    for byte as accepted by the OS, `Model.File.fileBytes pv blocks` – the layout C01's and C02's theorems are stated for
    (read back completely, one well-formed RFC 8949 item, …). -/
theorem stack_closed_output_is_cdns_file (pv : Val) (blockOf : List Nat → Val) (ops : List Op) :
    let hdr := [0x83, 0x65] ++ cdnsText ++ writeBytes filePreamble pv ++ [0x9f]
    let enc := fun rs => writeBytes block (blockOf rs)
    ∀ o ∈ (run hdr enc St.init ops).1.closed, o.threw = false →
      o.os = [] ∨ ∃ bl : List (List Nat), bl ≠ [] ∧ o.os = fileBytes pv (bl.map blockOf) := by
  intro hdr enc o ho hth
  rcases stack_closed_output_is_complete_file hdr enc ops o ho hth with h | ⟨bl, hne, _, hos⟩
  · exact Or.inl h
  · refine Or.inr ⟨bl, hne, ?_⟩
    rw [hos]
    simp only [fileBytes, List.map_map, hdr, enc, List.append_assoc]
    rfl

/-- **A closed output receives no further bytes.**  Whatever the application goes on to do, the outputs closed so far stay exactly
    as they were (content accepted by the OS included): later calls only append further closed outputs. -/
theorem stack_closed_outputs_final (ops later : List Op) :
    ∃ ext, (run hdr enc St.init (ops ++ later)).1.closed = (run hdr enc St.init ops).1.closed ++ ext := by
  rw [run_append]
  exact run_closed_prefix hdr enc later _

/-- the hypotheses of `stack_recovery` are met by a real history: a block whose flush the OS rejects -/
example : let s := (run [1, 2] (fun rs => rs) St.init [.buffer 7, .writeBlock [] [(1, some .fail)]]).1
    s.w.failed = true ∧ s.cur = [7] ∧ s.threw = true := by decide

/-- a rejected write that nobody reports would be visible here: the closed output of this history lost a byte and is flagged -/
example : ((run [1, 2] (fun rs => rs) St.init
    [.buffer 7, .writeBlock [] [(1, some .short)], .rotate false [] [] [] .ok]).1.closed.map fun o => (o.os, o.given, o.threw)) =
    [([1], [1, 2, 7], true)] := by decide

end Stack

end CdnsVerif.Props.C16
