/-
  C08 — reading is invariant under equivalent re-encoding and ignores unknown members.

  Proved here (decoder level, for every well-formed item / every head width):
  * the value a read operation returns does not depend on the head width used
    (`uint_width_invariant`, `nint_width_invariant`), on definite vs chunked strings
    (`bytes_chunking_invariant`, `text_chunking_invariant`), nor on definite vs indefinite
    container starts (`C07.readArrayStart_accepts(_indef)`, `readMapStart_accepts(_indef)`);
  * an unknown member's value – any well-formed item: tagged, float, simple, deeply nested,
    indefinite – is skipped exactly (`unknown_value_skipped` = `C07.skip_exact`), so the
    reader is positioned at the next member;
  * out-of-range unknown keys cannot be mistaken for known ones: `read_integer` saturates
    (`C07.readNegative_saturates`, `big_key_not_small`).
  The struct-level statement (same preamble/blocks/records) is decided on the implementation
  by rewriting exporter-produced files with random compositions of the rewrites and comparing
  the reader's result, and cross-checked with the independent Lean reader.
-/
import CdnsVerif.Props.C07

namespace CdnsVerif.Props.C08
open CdnsVerif.Spec.Cbor CdnsVerif.Model CdnsVerif.Model.Decoder

theorem uint_width_invariant (w₁ w₂ : Width) (n : Nat) (h₁ : w₁.fits n) (h₂ : w₂.fits n) (rest : Bytes) :
    (readUnsigned.run ((Item.uint w₁ n).enc ++ rest)).map (·.1) = (readUnsigned.run ((Item.uint w₂ n).enc ++ rest)).map (·.1) := by
  rw [C07.readUnsigned_accepts w₁ n h₁, C07.readUnsigned_accepts w₂ n h₂]

theorem nint_width_invariant (w₁ w₂ : Width) (n : Nat) (h₁ : w₁.fits n) (h₂ : w₂.fits n) (hn : n < 2 ^ 63) (rest : Bytes) :
    (readNegative.run ((Item.nint w₁ n).enc ++ rest)).map (·.1) = (readNegative.run ((Item.nint w₂ n).enc ++ rest)).map (·.1) := by
  rw [C07.readNegative_accepts w₁ n h₁ hn, C07.readNegative_accepts w₂ n h₂ hn]

theorem bytes_chunking_invariant (w : Width) (bs : Bytes) (h : w.fits bs.length) (cs : List Chunk) (hcs : chunksWF cs)
    (heq : chunksVal cs = bs) (fuel : Nat) (hf : cs.length + 1 ≤ fuel) (rest : Bytes) :
    (readBytestring fuel).run ((Item.bstr w bs).enc ++ rest) = (readBytestring fuel).run ((Item.bstrI cs).enc ++ rest) := by
  rw [C07.readBytestring_accepts w bs h, C07.readBytestring_accepts_chunked cs hcs fuel hf, heq]

theorem text_chunking_invariant (w : Width) (bs : Bytes) (h : w.fits bs.length) (cs : List Chunk) (hcs : chunksWF cs)
    (heq : chunksVal cs = bs) (fuel : Nat) (hf : cs.length + 1 ≤ fuel) (rest : Bytes) :
    (readTextstring fuel).run ((Item.tstr w bs).enc ++ rest) = (readTextstring fuel).run ((Item.tstrI cs).enc ++ rest) := by
  rw [C07.readTextstring_accepts w bs h, C07.readTextstring_accepts_chunked cs hcs fuel hf, heq]

/-- the value of an unknown member is skipped exactly, whatever well-formed item it is -/
theorem unknown_value_skipped (i : Item) (hwf : i.WF) (rest : Bytes) :
    (skipItem (3 * (i.enc ++ rest).length + 2)).run (i.enc ++ rest) = .ok ((), rest) :=
  C07.skip_exact_linear i hwf rest

/-- a key at or above 2^63 is read as INT64_MAX – never as a small (known) key -/
theorem big_key_not_small (w : Width) (n : Nat) (h : w.fits n) (hn : 2 ^ 63 ≤ n) (rest : Bytes) :
    readInteger.run ((Item.uint w n).enc ++ rest) = .ok ((2 ^ 63 - 1 : Int), rest) := by
  unfold readInteger
  rw [Item.enc, peek_head mUint (by decide) w n h]
  simp only [tUnsigned_eq, if_true]
  have := C07.readUnsigned_accepts w n h rest
  rw [Item.enc] at this
  rw [Prog.run_bind_ok _ _ _ _ _ this]
  have : n > int64Max := by unfold int64Max; omega
  unfold int64Max at this
  simp [int64Max, this]

end CdnsVerif.Props.C08
