/-
  C08 — reading is invariant under equivalent re-encoding and ignores unknown members.

  Proved here (decoder level, for every well-formed item / every head width):
  * the value a read operation returns does not depend on the head width used
    (`uint_width_invariant`, `nint_width_invariant`), on definite vs chunked strings
    (`bytes_chunking_invariant`, `text_chunking_invariant`), nor on definite vs indefinite
    container starts (`C07.readArrayStart_accepts(_indef)`, `readMapStart_accepts(_indef)`);
  * an unknown member's value – any well-formed item: tagged, float, simple, deeply nested,
    indefinite – is skipped exactly (`unknown_value_skipped` = `C07.skip_exact`), so the
    reader is positioned at the next member;
  * out-of-range unknown keys cannot be mistaken for known ones: `read_integer` saturates
    (`C07.readNegative_saturates`, `big_key_not_small`).

  Proved here (struct level, for the generic interpreter `Model.Schema` of the struct readers and
  every schema – the file-preamble tree is the instance `Model.Structs.filePreamble`):
  * `read_denotes`: on EVERY well-formed encoding `i` the byte-level reader returns the
    denotation `denote k i` – a function of the data only (members looked up by key, widths /
    definite-vs-indefinite / chunking invisible, unknown members ignored) – and stops exactly
    behind the item; `read_denotes_linear`: a fuel linear in the input suffices;
  * hence `equivalent_encodings_read_equal`: two well-formed encodings with the same
    denotation are read as the same value;
  * each rewrite of the property preserves the denotation, at any depth:
    head widths (`width_*`), definite ↔ indefinite (`indef_*`), chunked strings (`chunked_*`),
    unknown members with ANY value (`unknown_member_ignored`), permutation of map members with
    distinct keys (`member_order_irrelevant`), and congruence for nested members
    (`nested_array`, `nested_members`).
  The block tree is an instance of the schema table (`Model.Structs.block`), and what the application observes of a block – the
  block object built by `CdnsBlockRead::read` after the raw read, and the records `read_generic_qr/aec/mm` return through the
  bounds-checked accessors, or the class of the exception – is a function of the raw value (`Model.ReadBlock.blockOutcome`):
  * `records_invariant`: two well-formed encodings of a block with the same denotation give the same records (or the same
    exception class), under any parameter sets – index resolution and time arithmetic never see the encoding.
  Tie: exporter-produced files rewritten with random compositions of the rewrites (and re-laid out as other writers may) are read
  by the library and by the model reader (`blk`, `sch`, `rdq` drivers) and cross-checked with the independent Lean reader.
-/
import CdnsVerif.Proofs.Rewrite
import CdnsVerif.Model.Structs
import CdnsVerif.Model.ReadBlock

namespace CdnsVerif.Props.C08
open CdnsVerif.Spec.Cbor CdnsVerif.Model CdnsVerif.Model.Decoder

theorem uint_width_invariant (w₁ w₂ : Width) (n : Nat) (h₁ : w₁.fits n) (h₂ : w₂.fits n) (rest : Bytes) :
    (readUnsigned.run ((Item.uint w₁ n).enc ++ rest)).map (·.1) = (readUnsigned.run ((Item.uint w₂ n).enc ++ rest)).map (·.1) := by
  rw [C07.readUnsigned_accepts w₁ n h₁, C07.readUnsigned_accepts w₂ n h₂]

theorem nint_width_invariant (w₁ w₂ : Width) (n : Nat) (h₁ : w₁.fits n) (h₂ : w₂.fits n) (hn : n < 2 ^ 63) (rest : Bytes) :
    (readNegative.run ((Item.nint w₁ n).enc ++ rest)).map (·.1) = (readNegative.run ((Item.nint w₂ n).enc ++ rest)).map (·.1) := by
  rw [C07.readNegative_accepts w₁ n h₁ hn, C07.readNegative_accepts w₂ n h₂ hn]

theorem bytes_chunking_invariant (w : Width) (bs : Bytes) (h : w.fits bs.length) (cs : List Chunk) (hcs : chunksWF cs)
    (heq : chunksVal cs = bs) (fuel : Nat) (hf : cs.length + 1 ≤ fuel) (rest : Bytes) :
    (readBytestring fuel).run ((Item.bstr w bs).enc ++ rest) = (readBytestring fuel).run ((Item.bstrI cs).enc ++ rest) := by
  rw [C07.readBytestring_accepts w bs h, C07.readBytestring_accepts_chunked cs hcs fuel hf, heq]

theorem text_chunking_invariant (w : Width) (bs : Bytes) (h : w.fits bs.length) (cs : List Chunk) (hcs : chunksWF cs)
    (heq : chunksVal cs = bs) (fuel : Nat) (hf : cs.length + 1 ≤ fuel) (rest : Bytes) :
    (readTextstring fuel).run ((Item.tstr w bs).enc ++ rest) = (readTextstring fuel).run ((Item.tstrI cs).enc ++ rest) := by
  rw [C07.readTextstring_accepts w bs h, C07.readTextstring_accepts_chunked cs hcs fuel hf, heq]

/-- the value of an unknown member is skipped exactly, whatever well-formed item it is -/
theorem unknown_value_skipped (i : Item) (hwf : i.WF) (rest : Bytes) :
    (skipItem (3 * (i.enc ++ rest).length + 2)).run (i.enc ++ rest) = .ok ((), rest) :=
  C07.skip_exact_linear i hwf rest

/-- a key at or above 2^63 is read as INT64_MAX – never as a small (known) key -/
theorem big_key_not_small (w : Width) (n : Nat) (h : w.fits n) (hn : 2 ^ 63 ≤ n) (rest : Bytes) :
    readInteger.run ((Item.uint w n).enc ++ rest) = .ok ((2 ^ 63 - 1 : Int), rest) := by
  unfold readInteger
  rw [Item.enc, peek_head mUint (by decide) w n h]
  simp only [tUnsigned_eq, if_true]
  have := C07.readUnsigned_accepts w n h rest
  rw [Item.enc] at this
  rw [Prog.run_bind_ok _ _ _ _ _ this]
  have : n > int64Max := by unfold int64Max; omega
  unfold int64Max at this
  simp [int64Max, this]

/-! ## struct level -/

open CdnsVerif.Model.Schema

/-- The byte-level struct reader computes the denotation of every well-formed encoding. -/
theorem read_denotes (k : Kind) (i : Item) (v : Val) (hwf : i.WF) (hd : denote k i = some v)
    (fuel : Nat) (hf : steps i + cfuel i ≤ fuel) (rest : Bytes) :
    (readVal fuel k).run (i.enc ++ rest) = .ok (v, rest) :=
  (rd_all fuel).1 k i v rest hwf hd hf

/-- a fuel linear in the input always suffices -/
theorem read_denotes_linear (k : Kind) (i : Item) (v : Val) (hwf : i.WF) (hd : denote k i = some v) (rest : Bytes) :
    (readVal (4 * (i.enc ++ rest).length) k).run (i.enc ++ rest) = .ok (v, rest) := by
  apply read_denotes k i v hwf hd
  have := steps_le i
  have := cfuel_le i
  simp only [List.length_append]; omega

/-- Two well-formed encodings that denote the same data are read as the same value – whatever
    their head widths, container/string forms, member order and unknown members are. -/
theorem equivalent_encodings_read_equal (k : Kind) (i₁ i₂ : Item) (v : Val) (h₁ : i₁.WF) (h₂ : i₂.WF)
    (hv : denote k i₁ = some v) (heq : denote k i₁ = denote k i₂) (fuel : Nat)
    (hf₁ : steps i₁ + cfuel i₁ ≤ fuel) (hf₂ : steps i₂ + cfuel i₂ ≤ fuel) (r₁ r₂ : Bytes) :
    ((readVal fuel k).run (i₁.enc ++ r₁)).map (·.1) = ((readVal fuel k).run (i₂.enc ++ r₂)).map (·.1) := by
  rw [read_denotes k i₁ v h₁ hv fuel hf₁, read_denotes k i₂ v h₂ (heq ▸ hv) fuel hf₂]
  rfl

/-! ### each rewrite of the property preserves the denotation -/

theorem width_uint (k : Kind) (w w' : Width) (n : Nat) : denote k (.uint w n) = denote k (.uint w' n) := denote_uint_width k w w' n
theorem width_nint (k : Kind) (w w' : Width) (n : Nat) : denote k (.nint w n) = denote k (.nint w' n) := denote_nint_width k w w' n
theorem width_tstr (k : Kind) (w w' : Width) (b : Bytes) : denote k (.tstr w b) = denote k (.tstr w' b) := denote_tstr_width k w w' b
theorem width_bstr (k : Kind) (w w' : Width) (b : Bytes) : denote k (.bstr w b) = denote k (.bstr w' b) := denote_bstr_width k w w' b
theorem width_arr (k : Kind) (w w' : Width) (xs : List Item) : denote k (.arr w xs) = denote k (.arr w' xs) := denote_arr_width k w w' xs
theorem width_map (k : Kind) (w w' : Width) (xs : List Item) : denote k (.map w xs) = denote k (.map w' xs) := denote_map_width k w w' xs
theorem indef_arr (k : Kind) (w : Width) (xs : List Item) : denote k (.arr w xs) = denote k (.arrI xs) := denote_arr_indef k w xs
theorem indef_map (k : Kind) (w : Width) (xs : List Item) : denote k (.map w xs) = denote k (.mapI xs) := denote_map_indef k w xs
theorem chunked_tstr (k : Kind) (w : Width) (cs : List Chunk) : denote k (.tstr w (chunksVal cs)) = denote k (.tstrI cs) := denote_tstr_chunked k w cs
theorem chunked_bstr (k : Kind) (w : Width) (cs : List Chunk) : denote k (.bstr w (chunksVal cs)) = denote k (.bstrI cs) := denote_bstr_chunked k w cs

/-- a member whose key the schema does not know is ignored, whatever value it carries and
    wherever in the map it stands -/
theorem unknown_member_ignored (fs : List Field) (w w' : Width) (pre post : List (Item × Item)) (kI vI : Item) (key : Int)
    (hk : intOf kI = some key) (hun : fs.find? (fun f => f.key == key) = none) :
    denote (.struct fs) (.map w (flat (pre ++ (kI, vI) :: post))) = denote (.struct fs) (.map w' (flat (pre ++ post))) :=
  denote_map_unknown fs w w' pre post kI vI key hk hun

/-- the order of the members of a map (with pairwise different keys) is irrelevant -/
theorem member_order_irrelevant (fs : List Field) (w w' : Width) (ps ps' : List (Item × Item)) (hp : ps.Perm ps')
    (hnd : (ps.map keyOfPair).Nodup) :
    denote (.struct fs) (.map w (flat ps)) = denote (.struct fs) (.map w' (flat ps')) :=
  denote_map_perm fs w w' ps ps' hp hnd

/-- rewriting inside the elements of an array -/
theorem nested_array (ek : Kind) (w w' : Width) (xs xs' : List Item)
    (h : AllRel (fun i i' => denote ek i = denote ek i') xs xs') :
    denote (.arr ek) (.arr w xs) = denote (.arr ek) (.arr w' xs') := denote_arr_congr ek w w' xs xs' h

/-- rewriting inside member values (each at its member's kind) and re-encoding keys -/
theorem nested_members (fs : List Field) (w w' : Width) (ps ps' : List (Item × Item))
    (h : AllRel (fun p p' => intOf p.1 = intOf p'.1 ∧
        ∀ key f, intOf p.1 = some key → fs.find? (fun f => f.key == key) = some f → denote f.kind p.2 = denote f.kind p'.2) ps ps') :
    denote (.struct fs) (.map w (flat ps)) = denote (.struct fs) (.map w' (flat ps')) := denote_map_congr fs w w' ps ps' h

/-! Non-vacuity: a storage-hints map written canonically (`hintsA`), and the same data written with
    an indefinite map, the first two members swapped, 8-byte heads and an unknown member (key -7)
    carrying a tagged indefinite array with a float and an empty chunked string (`hintsB`): both are
    well-formed, they have the same denotation – obtained here by chaining the rewrite theorems, not
    by evaluation – and the reader returns the same struct for both. -/
def psA : List (Item × Item) := [(.uint .imm 0, .uint .w4 0xffffffff), (.uint .imm 1, .uint .w1 200),
  (.uint .imm 2, .uint .imm 3), (.uint .imm 3, .uint .imm 1)]
/-- heads widened -/
def psW : List (Item × Item) := [(.uint .w1 0, .uint .w8 0xffffffff), (.uint .imm 1, .uint .w8 200),
  (.uint .imm 2, .uint .w4 3), (.uint .w8 3, .uint .w2 1)]
def unknownK : Item := .nint .imm 6
def unknownV : Item := .tag .w2 55799 (.arrI [.f16 0x3c00, .tstrI []])
def psS : List (Item × Item) := [(.uint .imm 1, .uint .w8 200), (.uint .w1 0, .uint .w8 0xffffffff),
  (.uint .imm 2, .uint .w4 3), (.uint .w8 3, .uint .w2 1)]
def hintsA : Item := .map .imm (flat psA)
def hintsB : Item := .mapI (flat ([(Item.uint .imm 1, Item.uint .w8 200)] ++ (unknownK, unknownV) ::
  [(.uint .w1 0, .uint .w8 0xffffffff), (.uint .imm 2, .uint .w4 3), (.uint .w8 3, .uint .w2 1)]))

theorem hints_wf : hintsA.WF ∧ hintsB.WF := by
  refine ⟨?_, ?_⟩ <;>
    simp [hintsA, hintsB, psA, unknownK, unknownV, flat, Item.WF, Item.WFList, Width.fits, Width.bound, chunksWF]

open CdnsVerif.Model.Structs in
theorem hints_same : denote storageHints hintsA = denote storageHints hintsB := by
  have hfs : storageHints = .struct [.mk 0 (.uint 32) true, .mk 1 (.uint 32) true, .mk 2 (.uint 8) true, .mk 3 (.uint 8) true] := rfl
  rw [hfs]
  -- 1. widen the heads of keys and values (congruence + width lemmas)
  have s1 := nested_members [.mk 0 (.uint 32) true, .mk 1 (.uint 32) true, .mk 2 (.uint 8) true, .mk 3 (.uint 8) true] .imm .w1 psA psW
    (.cons ⟨rfl, fun _ f _ _ => width_uint f.kind _ _ _⟩ (.cons ⟨rfl, fun _ f _ _ => width_uint f.kind _ _ _⟩
      (.cons ⟨rfl, fun _ f _ _ => width_uint f.kind _ _ _⟩ (.cons ⟨rfl, fun _ f _ _ => width_uint f.kind _ _ _⟩ .nil))))
  -- 2. swap the first two members
  have s2 := member_order_irrelevant [.mk 0 (.uint 32) true, .mk 1 (.uint 32) true, .mk 2 (.uint 8) true, .mk 3 (.uint 8) true] .w1 .w1 psW psS
    (List.Perm.swap _ _ _) (by decide)
  -- 3. insert the unknown member behind the first one
  have s3 := unknown_member_ignored [.mk 0 (.uint 32) true, .mk 1 (.uint 32) true, .mk 2 (.uint 8) true, .mk 3 (.uint 8) true] .w1 .w1
    [(Item.uint .imm 1, Item.uint .w8 200)] [(.uint .w1 0, .uint .w8 0xffffffff), (.uint .imm 2, .uint .w4 3), (.uint .w8 3, .uint .w2 1)]
    unknownK unknownV (-7) rfl rfl
  -- 4. make the map indefinite
  have s4 := indef_map (.struct [.mk 0 (.uint 32) true, .mk 1 (.uint 32) true, .mk 2 (.uint 8) true, .mk 3 (.uint 8) true]) .w1
    (flat ([(Item.uint .imm 1, Item.uint .w8 200)] ++ (unknownK, unknownV) ::
      [(.uint .w1 0, .uint .w8 0xffffffff), (.uint .imm 2, .uint .w4 3), (.uint .w8 3, .uint .w2 1)]))
  exact s1.trans (s2.trans (s3.symm.trans s4))

open CdnsVerif.Model.Structs in
example : denote storageHints hintsA = some (.record [(0, .num 0xffffffff), (1, .num 200), (2, .num 3), (3, .num 1)]) := by rfl

open CdnsVerif.Model.Structs in
example (fuel : Nat) (h : 40 ≤ fuel) (r₁ r₂ : Bytes) :
    ((readVal fuel storageHints).run (hintsA.enc ++ r₁)).map (·.1) = ((readVal fuel storageHints).run (hintsB.enc ++ r₂)).map (·.1) :=
  equivalent_encodings_read_equal storageHints hintsA hintsB _ hints_wf.1 hints_wf.2 (by rfl) hints_same fuel
    (Nat.le_trans (by decide) h) (Nat.le_trans (by decide) h) r₁ r₂

open CdnsVerif.Model.Structs CdnsVerif.Model.ReadBlock in
/-- **Records are invariant under re-encoding.**  What the application observes of a block (block object, query/responses,
    address-event counts, malformed messages – or the class of the exception thrown) is the same for any two well-formed
    encodings with the same denotation: widths, definite/indefinite, chunking, member order and unknown members are invisible
    to index resolution and time arithmetic as well. -/
theorem records_invariant (rates : List Nat) (i₁ i₂ : Item) (v : Val) (h₁ : i₁.WF) (h₂ : i₂.WF)
    (hv : denote block i₁ = some v) (heq : denote block i₁ = denote block i₂) (fuel : Nat)
    (hf₁ : steps i₁ + cfuel i₁ ≤ fuel) (hf₂ : steps i₂ + cfuel i₂ ≤ fuel) (r₁ r₂ : Bytes) :
    ((readVal fuel block).run (i₁.enc ++ r₁)).map (fun x => blockOutcome rates x.1) =
    ((readVal fuel block).run (i₂.enc ++ r₂)).map (fun x => blockOutcome rates x.1) := by
  rw [read_denotes block i₁ v h₁ hv fuel hf₁, read_denotes block i₂ v h₂ (heq ▸ hv) fuel hf₂]
  rfl

end CdnsVerif.Props.C08
